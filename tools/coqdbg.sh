#!/bin/bash
# usage: coqdbg.sh <file.v> <line>   — compile the file up to <line> (exclusive), then Show the open goals.
f=$1; n=$2
head -n $((n-1)) "$f" > /tmp/dbg_$$.v
echo "Show. Abort." >> /tmp/dbg_$$.v
cd /verif/coq && timeout ${3:-300} coqc -Q . Cedar /tmp/dbg_$$.v 2>&1 | tail -${4:-60}
rm -f /tmp/dbg_$$.v /tmp/dbg_$$.vo /tmp/dbg_$$.glob /tmp/.dbg_$$.aux /tmp/dbg_$$.vok /tmp/dbg_$$.vos
