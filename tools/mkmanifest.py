#!/usr/bin/env python3
"""Regenerate MANIFEST.json from tools/claims.json (claimed properties) and properties.jsonl."""
import json, os
ROOT = os.path.dirname(os.path.dirname(os.path.abspath(__file__)))
claims = json.load(open(os.path.join(ROOT, "tools", "claims.json")))
import glob
for f in sorted(glob.glob(os.path.join(ROOT, "tools", "claims.d", "*.json"))):
    claims.update(json.load(open(f)))
props = [json.loads(l) for l in open(os.path.join(ROOT, "properties.jsonl"))]
checks, na = [], []
for p in props:
    pid = p["id"]
    c = claims.get(pid)
    if not c or c.get("not_applicable"):
        na.append({"property_id": pid, "reason": (c or {}).get("not_applicable", "check not built yet in this revision (planned: DESIGN.md §6 %s)" % pid)})
        continue
    checks.append({
        "property_id": pid,
        "quick_cmd": "bin/check %s quick" % pid,
        "thorough_cmd": "bin/check %s thorough" % pid,
        "evidence_file": "/verif/evidence/%s.json" % pid,
        "replay_cmd_template": "bin/check %s --replay {path}" % pid,
        "engine": "coq-proof+correspondence",
        "level_claimed": {"category": "proof", "text": c["text"], "design_ref": c.get("design_ref", "DESIGN.md §6 " + pid)},
        "level_note": c["note"],
        "technique": c.get("technique", "machine-checked proof in Coq 8.16 + correspondence check"),
    })
m = {
    "version": 1,
    "setup_cmd": "bin/check --setup",
    "hooks": {
        "guard": "verif",
        "enable": "go build -tags verif (harness module /verif/harness with replace github.com/bbockelm/cedar => /repo)",
        "baseline_off_cmd": "cd /repo && GOFLAGS=-mod=mod GOPROXY=off go test -vet=off -count=1 -timeout 25m ./...",
        "source_commits": [l.strip() for l in open(os.path.join(ROOT, "tools", "hook_commits.txt")) if l.strip()] if os.path.exists(os.path.join(ROOT, "tools", "hook_commits.txt")) else [],
        "add_only": True,
    },
    "engines": [{"name": "coq-proof+correspondence", "path": "bin/check",
                 "serves_properties": [c["property_id"] for c in checks],
                 "kind_free_text": "Coq 8.16.1 theorems over hand-written Gallina models (coq/), tied to /repo on every run by regenerated constants/facts and a differential correspondence run (Go harness in harness/, model evaluated by coqc vm_compute)"}],
    "checks": checks,
    "not_applicable": na,
    "notes": "See DESIGN.md. known findings: known_findings.txt",
}
json.dump(m, open(os.path.join(ROOT, "MANIFEST.json"), "w"), indent=1)
print("claimed:", [c["property_id"] for c in checks])
