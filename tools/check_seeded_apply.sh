#!/bin/bash
# lists the seeded patches (independent changes and fix reverts) that no longer apply to /repo's current HEAD
cd /repo
for d in /verif/seeded/*/ /verif/seeded/reverts/*/; do
  [ -f "$d/patch.diff" ] || continue
  git apply --check "$d/patch.diff" 2>/dev/null || echo "DOES NOT APPLY: ${d#/verif/seeded/}"
done
