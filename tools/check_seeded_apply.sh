#!/bin/bash
# lists the seeded patches that no longer apply to /repo's current HEAD
cd /repo
for d in /verif/seeded/*/; do
  git apply --check "$d/patch.diff" 2>/dev/null || echo "DOES NOT APPLY: $(basename $d)"
done
