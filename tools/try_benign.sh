#!/bin/bash
# usage: try_benign.sh <patch.diff> <ID> ...  — apply a behaviour-preserving patch to a scratch worktree of /repo and run
# the given properties' quick checks on it: every one of them must stay quiet (exit 0, no VIOLATION).
p=$1; shift
wt=/tmp/wt-benign-$$
git -C /repo worktree add --detach -f $wt HEAD >/dev/null 2>&1 || { echo "worktree failed"; exit 2; }
git -C $wt apply $p || { echo "PATCH DOES NOT APPLY"; git -C /repo worktree remove --force $wt; exit 3; }
for id in "$@"; do
  out=$(cd /verif && VERIF_REPO=$wt bin/check $id quick 2>&1); rc=$?
  echo "$(basename $p) $id exit=$rc $(echo "$out" | grep -E "VIOLATION" | head -2 | tr '\n' ' ')"
  if [ $rc -ne 0 ]; then mkdir -p /tmp/r6/benign-logs; echo "$out" > /tmp/r6/benign-logs/$(basename $p .diff)-$id.log; cp -r /verif/build/evidence-alt-*/$id.json /tmp/r6/benign-logs/$(basename $p .diff)-$id.json 2>/dev/null; fi
done
git -C /repo worktree remove --force $wt >/dev/null 2>&1
