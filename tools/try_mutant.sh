#!/bin/bash
# usage: try_mutant.sh <mutant-dir> <PROPERTY> [tier]   — apply <dir>/patch.diff to a scratch worktree of /repo
# and run the property's check against it. Prints the VIOLATION/summary lines and the exit code.
d=$1; id=$2; tier=${3:-quick}
wt=/tmp/wt-mut-$$
git -C /repo worktree add --detach -f $wt HEAD >/dev/null 2>&1 || { echo "worktree failed"; exit 2; }
if ! git -C $wt apply $d/patch.diff 2>/tmp/apply-$$.err; then echo "PATCH DOES NOT APPLY: $(head -2 /tmp/apply-$$.err)"; git -C /repo worktree remove --force $wt; exit 3; fi
cd /verif && VERIF_REPO=$wt bin/check $id $tier 2>&1 | grep -E "VIOLATION|KNOWN|^$id " | head -5
rc=${PIPESTATUS[0]}
git -C /repo worktree remove --force $wt >/dev/null 2>&1
echo "exit=$rc"
