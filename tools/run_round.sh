#!/bin/bash
# usage: run_round.sh <name> ...   — confirm each /tmp/rt-out/<name> and run the property's quick check on it;
# appends to /tmp/r6/results.log in the format tools/import_seeded.py reads.
for name in "$@"; do
  d=/tmp/rt-out/$name; id=${name%%-*}
  [ -f $d/patch.diff ] || { echo "no patch for $name"; continue; }
  /verif/tools/confirm_mutant.sh $d
  { echo "== $name"; /verif/tools/try_mutant.sh $d $id quick; } 2>&1 | tee -a /tmp/r6/results.log
done
