#!/bin/bash
# usage: run_one.sh <name> [tier]  — confirm /tmp/rt-out/<name> and run its property's check on it;
# verdict in /tmp/r6/res/<name>.log (format read by tools/import_seeded.py)
name=$1; tier=${2:-quick}; d=/tmp/rt-out/$name; id=${name%%-*}
[ -f $d/patch.diff ] || { echo "no patch for $name"; exit 2; }
mkdir -p /tmp/r6/res
[ -f $d/confirm.json ] || /verif/tools/confirm_mutant.sh $d
{ echo "== $name"; /verif/tools/try_mutant.sh $d $id $tier; } > /tmp/r6/res/$name.log 2>&1
cat /tmp/r6/res/$name.log
