#!/usr/bin/env python3
"""Import independently written breaking changes from /tmp/rt-out into /verif/seeded/<ID>-<k>/
(patch.diff, demonstration, meta.json extended with our own confirmation and the check's verdict)
and regenerate seeded/README.md. Usage: import_seeded.py [results.log ...] where the logs are the
outputs of tools/try_mutant.sh runs ("== <name>" followed by VIOLATION/summary/exit lines)."""
import json, os, re, shutil, sys, glob
ROOT = os.path.dirname(os.path.dirname(os.path.abspath(__file__)))
SRC = "/tmp/rt-out"
verdicts = {}
for log in sys.argv[1:]:
    cur = None
    for line in open(log):
        line = line.rstrip()
        m = re.match(r"== (\S+)", line)
        if m:
            cur = m.group(1); verdicts.setdefault(cur, {"lines": []}); verdicts[cur] = {"lines": []}; continue
        if cur and line:
            verdicts[cur]["lines"].append(line)
for name, v in verdicts.items():
    txt = "\n".join(v["lines"])
    v["exit"] = int(re.search(r"exit=(\d+)", txt).group(1)) if re.search(r"exit=(\d+)", txt) else None
    v["violation"] = "VIOLATION" in txt
    v["failing_input"] = v["violation"] and "no-failing-input-found" not in txt
    m = re.search(r"mismatches=(\d+).*oracle_failures=(\d+).*problems=(\d+)", txt)
    if m: v["mismatches"], v["oracle_failures"], v["problems"] = map(int, m.groups())
os.makedirs(os.path.join(ROOT, "seeded"), exist_ok=True)
rows = []
for d in sorted(glob.glob(os.path.join(SRC, "*"))):
    name = os.path.basename(d)
    meta_p = os.path.join(d, "meta.json")
    if not os.path.exists(meta_p): continue
    meta = json.load(open(meta_p))
    conf = json.load(open(os.path.join(d, "confirm.json"))) if os.path.exists(os.path.join(d, "confirm.json")) else None
    if not conf: continue
    ok = all(conf.get(k) for k in ("demo_passes_without_patch", "patch_applies", "builds_with_and_without_verif_tag", "demo_fails_with_patch", "existing_tests_of_touched_packages_pass"))
    dst = os.path.join(ROOT, "seeded", name)
    old = {}
    if os.path.exists(os.path.join(dst, "meta.json")):
        old = json.load(open(os.path.join(dst, "meta.json")))
    if not ok:
        rows.append((name, meta.get("property"), meta.get("summary", ""), "NOT KEPT: our confirmation failed: " + json.dumps(conf), "", ""))
        continue
    os.makedirs(dst, exist_ok=True)
    rebased = any("rebased" in (h if isinstance(h, str) else json.dumps(h)) for h in (old.get("history") or []) if h) if isinstance(old.get("history"), list) else "rebased" in str(old.get("history") or "")
    for f in os.listdir(d):
        if f not in ("meta.json", "confirm.json"):
            if f == "patch.diff" and rebased and os.path.exists(os.path.join(dst, f)):
                continue  # the patch in seeded/ was rebased onto a later /repo HEAD
            shutil.copy(os.path.join(d, f), os.path.join(dst, f))
    v = verdicts.get(name) or old.get("check_verdict")
    meta["confirmed_here"] = conf
    meta["what_i_ran"] = ["tools/confirm_mutant.sh /tmp/rt-out/%s  (demo on clean HEAD, git apply, go build with and without -tags verif, demo again, go test of the touched packages)" % name,
                          "tools/try_mutant.sh /tmp/rt-out/%s %s  (bin/check %s quick against a scratch worktree with the patch applied)" % (name, meta.get("property"), meta.get("property"))]
    if v: meta["check_verdict"] = v
    if isinstance(meta.get("history"), str): meta["history"] = [meta["history"]]
    oh = old.get("history") or []
    if isinstance(oh, str): oh = [oh]
    meta["history"] = list(meta.get("history") or [])
    for h in oh:
        if h not in meta["history"]: meta["history"].append(h)
    if old.get("retired") and not meta.get("retired"): meta["retired"] = old["retired"]
    json.dump(meta, open(os.path.join(dst, "meta.json"), "w"), indent=1)
    caught = "not run yet"
    if v:
        caught = ("caught, failing input (%s oracle failures)" % v.get("oracle_failures")) if v.get("failing_input") else ("caught, no-failing-input-found" if v.get("violation") else "MISSED (exit %s)" % v.get("exit"))
    if meta.get("retired"):
        caught = "RETIRED: " + meta["retired"]
    rows.append((name, meta.get("property"), meta.get("summary", ""), meta.get("needs", ""), caught, "; ".join(h if isinstance(h, str) else json.dumps(h) for h in meta.get("history", []))))
# the README lists EVERY kept change (earlier rounds included), rebuilt from seeded/*/meta.json
def natkey(n):
    m = re.match(r"(C\d+)-(\d+)$", n)
    return (m.group(1), int(m.group(2))) if m else (n, 0)
allrows = []
notkept = [r for r in rows if str(r[3]).startswith("NOT KEPT")]
for d in sorted(glob.glob(os.path.join(ROOT, "seeded", "C*-*")), key=lambda d: natkey(os.path.basename(d))):
    name = os.path.basename(d)
    try:
        meta = json.load(open(os.path.join(d, "meta.json")))
    except Exception:
        continue
    v = meta.get("check_verdict")
    caught = "not run yet"
    if v:
        caught = ("caught, failing input (%s oracle failures)" % v.get("oracle_failures")) if v.get("failing_input") else ("caught, no-failing-input-found" if v.get("violation") else "MISSED (exit %s)" % v.get("exit"))
    if meta.get("retired"):
        caught = "RETIRED: " + meta["retired"]
    hist = meta.get("history") or []
    if isinstance(hist, str): hist = [hist]
    # a first-run verdict of "missed" / "no failing input" followed by a recorded 'caught' stage: the check was strengthened
    later = [h for h in hist if isinstance(h, dict) and h.get("stage") == "caught"]
    if later and v and not v.get("failing_input"):
        caught = ("first run: " + caught + "; after strengthening: caught — " + str(later[-1].get("result", ""))[:160])
    allrows.append((name, meta.get("property"), meta.get("summary", ""), meta.get("needs", ""), caught, "; ".join(h if isinstance(h, str) else json.dumps(h) for h in hist)))
with open(os.path.join(ROOT, "seeded", "README.md"), "w") as f:
    f.write("# Seeded breaking changes\n\nWritten by engineers who saw only the property text; confirmed and run here (see DESIGN.md §9).\n`history` records changes that were missed at first and what was strengthened.\n\n| change | property | what was changed | needs to manifest | `bin/check <ID> quick` on it | history |\n|---|---|---|---|---|---|\n")
    for r in allrows + notkept:
        f.write("| " + " | ".join(str(x).replace("|", "\\|").replace("\n", " ") for x in r) + " |\n")
print("imported", len(rows), "README rows", len(allrows))
