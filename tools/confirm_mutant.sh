#!/bin/bash
# usage: confirm_mutant.sh <mutant-dir>  — independently confirm a seeded change:
#   demo passes on clean HEAD, patch applies and builds, demo fails with the patch,
#   existing tests of the touched packages still pass. Writes <dir>/confirm.json.
d=$1; name=$(basename $d)
export GOFLAGS=-mod=mod GOPROXY=off
wt=/tmp/wt-confirm-$name-$$
git -C /repo worktree add --detach -f $wt HEAD >/dev/null 2>&1 || exit 2
demo_path=$(python3 -c "import json;print(json.load(open('$d/meta.json'))['demo_path'].split()[0].rstrip(';,'))")
demo_cmd=$(python3 -c "
import json,re
c=re.sub(r'\s+\((?!.*\)\s*\S).*$','',json.load(open('$d/meta.json'))['demo_cmd'].strip())
if '<repo>' in c:  # 'cp demo <repo>/pkg/ && cd <repo> && go test ...': keep the command proper
    c=c.split('&&')[-1].strip()
print(c)")
demo_file=$(basename $demo_path); [ -f $d/$demo_file ] || demo_file=$(ls $d | grep -E '\.go$' | head -1)
mkdir -p $wt/$(dirname $demo_path); cp $d/$demo_file $wt/$demo_path
cd $wt
run_demo() { ( cd $wt && timeout 900 bash -c "$demo_cmd" ) >/tmp/confirm-$name-demo.log 2>&1; echo $?; }
clean_rc=$(run_demo)
applies=true; git apply $d/patch.diff 2>/dev/null || applies=false
builds=false; go build ./... >/dev/null 2>&1 && go build -tags verif ./... >/dev/null 2>&1 && builds=true
patched_rc=$(run_demo)
pkgs=$(grep '^+++ b/' $d/patch.diff | sed 's|+++ b/||' | xargs -n1 dirname | sort -u | sed 's|^|./|;s|$|/|' | tr '\n' ' ')
rm -f $wt/$demo_path
tests=true; timeout 1500 go test -vet=off -count=1 -p 2 $pkgs >/tmp/confirm-$name-tests.log 2>&1 || tests=false
cd /; git -C /repo worktree remove --force $wt >/dev/null 2>&1
python3 - <<PY
import json
json.dump({"demo_passes_without_patch": $clean_rc==0, "patch_applies": "$applies"=="true", "builds_with_and_without_verif_tag": "$builds"=="true",
 "demo_fails_with_patch": $patched_rc!=0, "existing_tests_of_touched_packages_pass": "$tests"=="true", "packages": "$pkgs".split(), "repo_head": "$(git -C /repo rev-parse --short HEAD)"}, open("$d/confirm.json","w"), indent=1)
print("$name", open("$d/confirm.json").read().replace("\n"," "))
PY
