(* Run/C19.v — executable comparator for the C19 correspondence.
   A case records what the real code did in one stall-injection run on one side
   of a connection: [nops] connection-level I/O calls in the undisturbed run,
   the index [k] of the call that was made to stall (or fail), the timing of the
   cancellation, and the observables: returned at all / returned an error /
   own connection closed afterwards / number of I/O calls started.  The model
   ([Model.Cancel.run]) is evaluated on the same schedule and compared. *)
From Coq Require Import List Bool Arith NArith.
From Cedar Require Import Model.Cancel.
Import ListNotations.

Inductive timing :=
| TBefore        (* context already cancelled when the operation starts *)
| TDuring        (* cancellation / deadline fires while call k is stalled *)
| TAfter         (* cancellation after the operation completed *)
| TBgPeerErr     (* context.Background(); the peer fails call k (connection error) *)
| TBgOk.         (* context.Background(); undisturbed *)

Inductive case :=
| CRun (nops k : nat) (tm : timing) (obs_returned obs_err obs_closed : bool) (obs_ops : nat).

Definition hstep (pol : policy) := mk_step pol (Completes BOk) None false.

(* the primitive as modelled; that the source still has this shape is the obligation
   C19_facts over gen/FactsC19.v (kept out of this file so that case files load fast) *)
Definition shape := good_shape.

Definition predict (nops k : nat) (tm : timing) : trace :=
  match tm with
  | TBefore => run shape true true false false false (repeat (hstep Propagate) nops)
  | TDuring => run shape true false false false false
                 (repeat (hstep Propagate) k ++ mk_step Propagate Stalls (Some 2) false :: repeat (hstep Propagate) (nops - k - 1))
  | TAfter => run shape true false false false false
                 (repeat (hstep Propagate) (nops - 1) ++ [mk_step Propagate (Completes BOk) (Some 4) false])
  | TBgPeerErr => run shape false false false false false
                 (repeat (hstep Propagate) k ++ mk_step Propagate (Completes BErr) None false :: repeat (hstep Propagate) (nops - k - 1))
  | TBgOk => run shape false false false false false (repeat (hstep Propagate) nops)
  end.

Definition count_true (l : list bool) : nat := List.length (filter (fun b => b) l).

Definition check_case (c : case) : bool :=
  match c with
  | CRun nops k tm r e cl ops =>
      let t := predict nops k tm in
      Bool.eqb r (match t_res t with HHang => false | _ => true end) &&
      Bool.eqb e (match t_res t with HErr => true | _ => false end) &&
      Bool.eqb cl (t_closed t) &&
      Nat.eqb ops (count_true (t_io t))
  end.

Fixpoint mism (i : nat) (cs : list case) : list nat :=
  match cs with
  | [] => []
  | c :: r => if check_case c then mism (S i) r else i :: mism (S i) r
  end.
Definition mismatches (cs : list case) : list nat := mism 0 cs.
