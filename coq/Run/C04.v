(* Run/C04.v *)
From Cedar Require Export Run.StreamRun.
