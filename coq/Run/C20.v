(* Run/C20.v — executable comparator for the C20 correspondence: the model of
   Model/CCB.v is evaluated on the scripted arrival list / schedule the harness
   played against the real ccb code and compared with what was observed. *)
From Coq Require Import List NArith ZArith Bool.
From Cedar Require Import Lib.Bytes gen.FactsC20.
From Cedar Require Export Model.CCB.
Import ListNotations.
Local Open Scope N_scope.

(* connection status seen by the scripted peer *)
Definition st_closed : N := 0.
Definition st_returned : N := 1.
Definition st_open : N := 2.

Inductive case :=
(* ids seen in successive requests *)
| CIds (ids : list bytes)
(* acceptReversed on a scripted listener *)
| CAccept (id : bytes) (cancelled : bool) (arr : list arrival) (ores : acc_result) (oclosed : list peer)
(* proxyRequestOnStream on a scripted broker stream: None = the broker conn was returned *)
| CProxyFn (id : bytes) (rep : preply) (hellos : list greeting) (oerr : option att_err)
(* a whole standard-mode Dial against one scripted broker: the events pre, then
   xs and ys racing, then post *)
| CStd (id : bytes) (pre xs ys post : list sev) (ores : option att_result) (ostat : list (peer * N))
(* a whole proxied / nested Dial against one scripted broker (b = the broker connection) *)
| CPrx (nested : bool) (id : bytes) (b : peer) (rep : preply) (hellos : list greeting)
       (ostreaming : bool) (oroute_set : bool) (ores : att_result) (obroker : N)
(* Dial against several scripted brokers, attempts in launch order; any of the
   listed result schedules may have happened *)
| CMulti (sequential : bool) (atts : list (bytes * list sev)) (scheds : list (list dev))
         (ores : option dial_res) (ostat : list (peer * N)) (olaunched : option nat)
(* the bytes one scripted connection sent: cap = maxControlAdSize, what the peer does after
   them, the greeting term the harness uses for this connection in the other cases, and what the
   real readReverseConnect + AdString delivered (None: not run; Some None: error; Some (Some c)) *)
| CDecode (cap : Z) (tail : wire_tail) (w : bytes) (g : greeting) (obs : option (option bytes)).

(* ---- helpers ------------------------------------------------------------- *)

(* compact byte-string literal used by the generated case files: k bytes, big-endian value n *)
Fixpoint bz_acc (k : nat) (n : N) (acc : bytes) : bytes :=
  match k with
  | O => acc
  | S k' => bz_acc k' (N.shiftr n 8) (n2b (N.land n 255) :: acc)
  end.
Definition bz (k n : N) : bytes := bz_acc (N.to_nat k) n [].

Definition unhex_digit (b : byte) : option N :=
  let n := b2n b in
  if (48 <=? n) && (n <=? 57) then Some (n - 48)
  else if (97 <=? n) && (n <=? 102) then Some (n - 87)
  else None.
Fixpoint unhex (s : bytes) : option bytes :=
  match s with
  | [] => Some []
  | h :: l :: r =>
      match unhex_digit h, unhex_digit l, unhex r with
      | Some a, Some b, Some t => Some (n2b (a * 16 + b) :: t)
      | _, _, _ => None
      end
  | _ => None
  end.

Fixpoint mem_bytes (x : bytes) (l : list bytes) : bool :=
  match l with [] => false | y :: r => bytes_eqb x y || mem_bytes x r end.
Fixpoint nodup_bytes (l : list bytes) : bool :=
  match l with [] => true | x :: r => negb (mem_bytes x r) && nodup_bytes r end.

(* an id is acceptable iff it is connect_id of some random string of the documented length *)
Definition id_ok (id : bytes) : bool :=
  (lenN id =? connect_id_hex_len) &&
  match unhex id with
  | Some rnd => bytes_eqb (connect_id rnd) id
  | None => false
  end.

Definition acc_err_eqb (a b : acc_err) : bool :=
  match a, b with EAccept, EAccept | ECtx, ECtx => true | _, _ => false end.
Definition acc_result_eqb (a b : acc_result) : bool :=
  match a, b with
  | AccConn p, AccConn q => p =? q
  | AccErr e, AccErr f => acc_err_eqb e f
  | AccPending, AccPending => true
  | _, _ => false
  end.
Fixpoint peers_eqb (a b : list peer) : bool :=
  match a, b with
  | [], [] => true
  | x :: a', y :: b' => (x =? y) && peers_eqb a' b'
  | _, _ => false
  end.

Definition att_err_eqb (a b : att_err) : bool :=
  match a, b with
  | AeBroker m, AeBroker n => bytes_eqb m n
  | AeBrokerRead, AeBrokerRead | AeTimeout, AeTimeout | AeAccept, AeAccept => true
  | AeProxyRefused m, AeProxyRefused n => bytes_eqb m n
  | AeProxyUnsupported, AeProxyUnsupported | AeProxyHello, AeProxyHello
  | AeProxyMismatch, AeProxyMismatch => true
  | _, _ => false
  end.
Definition att_result_eqb (a b : att_result) : bool :=
  match a, b with
  | Returned p, Returned q => p =? q
  | Failed e, Failed f => att_err_eqb e f
  | _, _ => false
  end.
Definition opt_eqb {A} (f : A -> A -> bool) (a b : option A) : bool :=
  match a, b with
  | Some x, Some y => f x y
  | None, None => true
  | _, _ => false
  end.
Fixpoint errs_eqb (a b : list att_err) : bool :=
  match a, b with
  | [], [] => true
  | x :: a', y :: b' => att_err_eqb x y && errs_eqb a' b'
  | _, _ => false
  end.

Definition mem_peer (p : peer) (l : list peer) : bool := existsb (N.eqb p) l.

(* all interleavings of two event lists (each list keeps its own order) *)
Fixpoint inter {A} (xs : list A) : list A -> list (list A) :=
  fix inner (ys : list A) : list (list A) :=
    match xs, ys with
    | [], _ => [ys]
    | _, [] => [xs]
    | x :: xs', y :: ys' => map (cons x) (inter xs' ys) ++ map (cons y) (inner ys')
    end.

(* status the model predicts for a scripted connection *)
Definition predict (returned : option peer) (closed : list peer) (p : peer) : N :=
  match returned with
  | Some q => if p =? q then st_returned else if mem_peer p closed then st_closed else st_open
  | None => if mem_peer p closed then st_closed else st_open
  end.
Definition stat_ok (returned : option peer) (closed : list peer) (ostat : list (peer * N)) : bool :=
  forallb (fun ps => predict returned closed (fst ps) =? snd ps) ostat.

Definition returned_of (r : att_result) : option peer :=
  match r with Returned p => Some p | Failed _ => None end.

Definition std_ok (id : bytes) (sched : list sev) (ores : option att_result) (ostat : list (peer * N)) : bool :=
  match run_attempt id sched, ores with
  | Finished o, Some r => att_result_eqb (o_res o) r && stat_ok (returned_of (o_res o)) (o_closed o) ostat
  | Running _, None => true
  | _, _ => false
  end.

Definition dial_res_eqb (a b : dial_res) : bool :=
  match a, b with
  | DReturned _ p, DReturned _ q => p =? q    (* the attempt index is not observable, the peer is *)
  | DAllFailed e, DAllFailed f => errs_eqb e f
  | DTimedOut, DTimedOut => true
  | _, _ => false
  end.

Definition closed_of_outcomes (os : list (option outcome)) : list peer :=
  flat_map (fun o => match o with Some o => o_closed o | None => [] end) os.

Definition multi_ok (sequential : bool) (atts : list (bytes * list sev)) (sched : list dev)
           (ores : option dial_res) (ostat : list (peer * N)) (olaunched : option nat) : bool :=
  let outs := attempt_outcomes atts in
  let d := run_dial sequential outs sched in
  match d, ores with
  | DDone r launched _, Some r' =>
      dial_res_eqb r r' &&
      stat_ok (match r with DReturned _ p => Some p | _ => None end)
              (closed_of_outcomes outs ++ dial_drained outs d) ostat &&
      match olaunched with Some n => Nat.eqb n launched | None => true end
  | DRunning _, None => true
  | _, _ => false
  end.

(* two greeting terms the accept loop and the proxied check cannot tell apart *)
Definition greeting_agrees (a b : greeting) : bool :=
  match a, b with
  | GHello c1 k1, GHello c2 k2 =>
      if Z.eqb c1 ccb_reverse_connect
      then Z.eqb c2 ccb_reverse_connect && bytes_eqb (ad_string k1) (ad_string k2)
      else negb (Z.eqb c2 ccb_reverse_connect)
  | GHello c1 _, GMalformed | GMalformed, GHello c1 _ => negb (Z.eqb c1 ccb_reverse_connect)
  | GMalformed, GMalformed | GClosed, GClosed | GStall, GStall => true
  | _, _ => false
  end.

Definition decode_ok (cap : Z) (tail : wire_tail) (w : bytes) (g : greeting) (obs : option (option bytes)) : bool :=
  let d := decode_wire simple_parses simple_claim_of cap tail w in
  negb (decode_panics simple_parses simple_claim_of cap w) &&
  greeting_agrees d g &&
  match obs with
  | None => true
  | Some None => match d with GHello cmd _ => negb (Z.eqb cmd ccb_reverse_connect) | _ => true end
  | Some (Some c) =>
      match d with
      | GHello cmd k => Z.eqb cmd ccb_reverse_connect && bytes_eqb (ad_string k) c
      | _ => false
      end
  end.

Definition check_case (c : case) : bool :=
  match c with
  | CIds ids => forallb id_ok ids && nodup_bytes ids
  | CAccept id cancelled arr ores oclosed =>
      let '(r, cl) := accept_reversed id cancelled arr in
      acc_result_eqb r ores && peers_eqb cl oclosed
  | CProxyFn id rep hellos oerr =>
      let o := proxy_attempt_stream id 0 rep hellos in
      opt_eqb att_err_eqb (match o_res o with Returned _ => None | Failed e => Some e end) oerr
  | CStd id pre xs ys post ores ostat =>
      existsb (fun z => std_ok id (pre ++ z ++ post) ores ostat) (inter xs ys)
  | CPrx nested id b rep hellos ostreaming oroute ores obroker =>
      let o := proxy_attempt_stream id b rep hellos in
      att_result_eqb (o_res o) ores &&
      (predict (returned_of (o_res o)) (o_closed o) b =? obroker) &&
      ostreaming && Bool.eqb oroute nested
  | CMulti sequential atts scheds ores ostat olaunched =>
      existsb (fun s => multi_ok sequential atts s ores ostat olaunched) scheds
  | CDecode cap tail w g obs => decode_ok cap tail w g obs
  end.

Fixpoint mism (i : nat) (cs : list case) : list nat :=
  match cs with
  | [] => []
  | c :: r => if check_case c then mism (S i) r else i :: mism (S i) r
  end.
Definition mismatches (cs : list case) : list nat := mism 0 cs.
