(* Run/C18.v — executable comparator for the C18 correspondence.
   Each case carries an input and what the real Go code was observed to do;
   check_case evaluates the model (Model/FSPath.v) on the same input. *)
From Coq Require Import List NArith ZArith Bool.
From Cedar Require Import Lib.Bytes.
From Cedar Require Export Model.FSPath.
Import ListNotations.
Local Open Scope N_scope.

Inductive case :=
(* path/filepath and net.ParseIP, the library functions validate is built on *)
| CClean (p obs : bytes)
| CDir (p obs : bytes)
| CBase (p obs : bytes)
| CIP (s : bytes) (obs : option bytes)                       (* net.ParseIP(s) as 16 bytes / nil *)
(* fsAddrLeaf, verifyFSPathEndpoint, validateFSAuthPath *)
| CAddrLeaf (leaf : bytes) (remote : bool) (obs : option (bytes * bytes))
| CEndpoint (ip port : bytes) (pr : peer) (obs : bool)
| CVal (p : bytes) (remote : bool) (pr : peer) (obs : option bytes)
(* one whole client exchange against a scripted server.
   pre_free: nothing existed at the validated target before the exchange;
   root_ok: os.OpenRoot of the base could succeed (file descriptors available);
   cs: what other parties made of the created path before the client's Remove;
   obs_reply: result code the server read (None: it did not read one);
   obs_mid / obs_after: paths present when the server had read the reply /
   after the client returned that were not there before the exchange *)
| CExch (remote : bool) (pr : peer) (sc : script) (pre_free : bool) (root_ok : bool) (cs : cleanup_state)
        (reads_reply : bool) (obs_reply : option Z) (obs_mid obs_after : list bytes) (obs_nil : bool)
(* the server's verification of what a client left at the path *)
| CSrv (client_code : Z) (st : option lstat) (lookup : option bytes)
       (obs_result : Z) (obs_user : option bytes) (obs_nil : bool).

Definition opt_bytes_eqb (a b : option bytes) : bool :=
  match a, b with
  | Some x, Some y => bytes_eqb x y
  | None, None => true
  | _, _ => false
  end.
Fixpoint paths_eqb (a b : list bytes) : bool :=
  match a, b with
  | [], [] => true
  | x :: a', y :: b' => bytes_eqb x y && paths_eqb a' b'
  | _, _ => false
  end.
Definition optZ_eqb (a b : option Z) : bool :=
  match a, b with
  | Some x, Some y => Z.eqb x y
  | None, None => true
  | _, _ => false
  end.

Definition created (effs : list effect) : list bytes :=
  flat_map (fun e => match e with EMkdir p true => [p] | _ => [] end) effs.

Definition check_case (c : case) : bool :=
  match c with
  | CClean p obs => bytes_eqb (clean p) obs
  | CDir p obs => bytes_eqb (dir p) obs
  | CBase p obs => bytes_eqb (base p) obs
  | CIP s obs => opt_bytes_eqb (option_map (map n2b) (parse_ip s)) obs
  | CAddrLeaf leaf remote obs =>
      match fs_addr_leaf leaf remote, obs with
      | Some (i, p), Some (i', p') => bytes_eqb i i' && bytes_eqb p p'
      | None, None => true
      | _, _ => false
      end
  | CEndpoint ip port pr obs => Bool.eqb (verify_endpoint ip port pr) obs
  | CVal p remote pr obs =>
      match validate p remote pr, obs with
      | VOk l, Some l' => bytes_eqb l l'
      | VErr _, None => true
      | _, _ => false
      end
  | CExch remote pr sc pre_free root_ok cs reads obs_reply obs_mid obs_after obs_nil =>
      let env := {| open_root_ok := root_ok; mkdir_ok := fun _ => pre_free; at_cleanup := fun _ => cs |} in
      let x := client_exchange remote pr env sc in
      (if reads then optZ_eqb (x_reply x) obs_reply else true)
      && (if reads then paths_eqb (created (x_eff x)) obs_mid else true)
      && paths_eqb (left_behind env (x_eff x)) obs_after
      && Bool.eqb (match x_ret x with RetNil => true | RetErr _ => false end) obs_nil
  | CSrv code st lookup obs_result obs_user obs_nil =>
      let '(res, who) := server_verdict code st (fun _ => lookup) in
      Z.eqb res obs_result && opt_bytes_eqb who obs_user && Bool.eqb (Z.eqb res 0) obs_nil
  end.

Fixpoint mism (i : nat) (cs : list case) : list nat :=
  match cs with
  | [] => []
  | c :: r => if check_case c then mism (S i) r else i :: mism (S i) r
  end.
Definition mismatches (cs : list case) : list nat := mism 0 cs.
