(* Run/C01.v — C01 uses the shared stream comparator. *)
From Cedar Require Export Run.StreamRun.
