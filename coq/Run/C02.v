(* Run/C02.v *)
From Cedar Require Export Run.StreamRun.
