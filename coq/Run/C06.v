(* Run/C06.v — executable comparator for the C06 correspondence: sequences of
   server-cache operations and resumption requests with what the real
   ServerHandshake was observed to do; the model (Model/Resume.v over
   Model/Cache.v) is run on the same sequence and every observation compared. *)
From Coq Require Import List NArith ZArith Bool.
From Cedar Require Import Lib.Bytes.
From Cedar Require Export Lib.Sym Model.Cache Model.Resume.
Import ListNotations.
Local Open Scope Z_scope.

Definition sid_of (n : N) : str := [x53; n2b n].            (* session ordinal -> id *)
Inductive qsid := QSess (n : N) | QUnknown (n : N) | QOneChar (n : N)
  | QDerived (n k : N).   (* an id derived from session n's id (prefix, suffix, case, substring): names no stored session *)
Definition qsid_str (q : qsid) : str :=
  match q with
  | QSess n => sid_of n
  | QUnknown n => [x55; n2b n]
  | QOneChar n => [x53; n2b n; x21]
  | QDerived n k => [x44; n2b n; n2b k]
  end.

Inductive kspec := KNone | KKey (proto : str) (len : N)
  | KKeyG (proto : str) (len : N) (gen : N).   (* the key of the gen-th re-registration of the id (a fresh key) *)
Definition key_of (ord : N) (k : kspec) : option key_info :=
  match k with
  | KNone => None
  | KKey proto len => Some {| k_data := repeat (n2b ord) (N.to_nat len); k_proto := proto |}
  | KKeyG proto len g => Some {| k_data := repeat (n2b (ord + 40 * g)) (N.to_nat len); k_proto := proto |}
  end.
Inductive pspec := PNone | PSome (authd : bool) (user valid : option str)
  | PClient (authd : bool) (user valid : option str).   (* a client-side record (CedarClientSideSession = true) *)
Definition pol_of (p : pspec) : option policy :=
  match p with
  | PNone => None
  | PSome a u v => Some {| p_authenticated := Some a; p_user := u; p_valid := v; p_authmethods := None; p_crypto := None;
                           p_client_side := None |}
  | PClient a u v => Some {| p_authenticated := Some a; p_user := u; p_valid := v; p_authmethods := None; p_crypto := None;
                             p_client_side := Some true |}
  end.

Inductive yop :=
| YStore (ord : N) (custom : bool) (k : kspec) (authd : bool) (user valid : option str) (dur lease : Z)
| YStoreP (ord : N) (custom : bool) (k : kspec) (p : pspec) (dur lease : Z)
| YStoreRaw (ord : N) (custom : bool) (k : kspec) (p : pspec) (lease : Z)      (* zero expiration *)
| YResume (q : qsid) (want : bool) (cmd : Z) (ok : bool) (rep : reply)
          (authd : bool) (user valid : option str) (encflag resumed keyok : bool)
| YResumeInv (q : qsid) (want : bool) (cmd : Z) (ok : bool) (rep : reply)
          (authd : bool) (user valid : option str) (encflag resumed keyok : bool)
          (icustom : bool) (iret : bool)   (* Invalidate(q) on that cache landed while the reply was being written *)
| YServe (q : qsid) (cmd : Z) (opt : bool) (hs : bool) (rep : reply) (served : bool)
         (authd : bool) (user valid : option str) (encflag resumed keyok : bool)
    (* the same request (a reply always wanted) accepted by the dispatching server: hs = the requester saw the
       handshake succeed, served = the command's handler ran (the remaining fields are what it saw) *)
| YRenew (ord : N) (custom : bool) (found : bool)
| YTick (dt : Z)
| YInvalidate (ord : N) (custom : bool) (ret : bool)
| YSweep (n : Z).

Inductive sobs := SS (ord : N) (custom stored looked expired : bool)
  | SK (ord : N) (custom : bool) (owner : N) (k : kspec).
    (* the key bytes the cache holds for session ord are those of registration (owner, k); owner 0 = of none *)
Inductive stepobs := St (o : yop) (s : list sobs).
Inductive case := Case (use_custom : bool) (steps : list stepobs).

Definition cache_of (s : srv) (custom : bool) : cache :=
  match custom, s_custom s with true, Some c => c | _, _ => s_global s end.
Definition set_cache (s : srv) (custom : bool) (c : cache) : srv :=
  match custom, s_custom s with
  | true, Some _ => {| s_custom := Some c; s_global := s_global s |}
  | _, _ => {| s_custom := s_custom s; s_global := c |}
  end.

Definition mk_entry (ord : N) (k : kspec) (pol : option policy) (exp : option Z) (lease : Z) : entry :=
  {| e_id := sid_of ord; e_addr := []; e_tag := []; e_key := key_of ord k; e_policy := pol;
     e_exp := exp; e_lease := lease |}.

Definition str_opt_eqb (a b : option str) : bool :=
  match a, b with
  | None, None => true
  | Some x, Some y => bytes_eqb x y
  | _, _ => false
  end.
Definition reply_kind_eqb (a b : reply) : bool :=
  match a, b with
  | NoReply, NoReply | ReplySidNotFound, ReplySidNotFound | ReplyAuthorized _, ReplyAuthorized _ => true
  | _, _ => false
  end.

Definition resume_step (s : srv) (now : Z) (q : qsid) (want : bool) (cmd : Z) (ok : bool) (rep : reply)
  (a : bool) (u v : option str) (ef rs kok : bool) : option srv :=
      let '(s', mrep, res) := handle_resumption s now {| q_sid := qsid_str q; q_want_reply := want; q_command := Some cmd |} 60010 in
      match res with
      | SErr => if negb ok && reply_kind_eqb mrep rep then Some s' else None
      | SOk n sst =>
          if ok && reply_kind_eqb mrep rep && Bool.eqb (n_authentication n) a && str_opt_eqb (n_user n) u
             && str_opt_eqb (n_valid n) v && Bool.eqb (n_encryption n) ef && Bool.eqb (n_resumed n) rs
             && (n_command n =? cmd)
             && Bool.eqb kok (match st_key sst, q with
                              | Some k, QSess ord =>
                                  match find_sess (sid_of ord) (c_sessions (s_global s) ++ match s_custom s with Some c => c_sessions c | None => [] end) with
                                  | Some e => match e_key e with Some ki => bytes_eqb k (k_data ki) | None => false end
                                  | None => false
                                  end
                              | _, _ => false
                              end)
          then Some s' else None
      end.

(* the command table of the harness's dispatching server (vh-c06 newDispatcher) *)
Definition s_READ : str := [x52; x45; x41; x44].
Definition s_DAEMON : str := [x44; x41; x45; x4d; x4f; x4e].
Definition s_ADMINISTRATOR : str := [x41; x44; x4d; x49; x4e; x49; x53; x54; x52; x41; x54; x4f; x52].
Definition run_dsrv (opt : bool) : dsrv :=
  {| d_handler := fun c => if (c =? 421) then HAuth [s_READ] else if (c =? 60007) then HAuth [s_DAEMON]
                           else if (c =? 477) then HAuth [s_ADMINISTRATOR] else if (c =? 60021) then HRaw else HNone;
     d_auth_required := fun c => c =? 60007;
     d_enc_required := fun _ => negb opt;
     d_authorizer := Some (fun perm user => bytes_eqb perm s_READ
                             || (bytes_eqb perm s_DAEMON && match user with Some (_ :: _) => true | _ => false end)) |}.

Definition serve_step (s : srv) (now : Z) (q : qsid) (cmd : Z) (opt hs : bool) (rep : reply) (served : bool)
  (a : bool) (u v : option str) (ef rs kok : bool) : option srv :=
  let '(s', mrep, res, dr) :=
    serve_conn (run_dsrv opt) s now {| q_sid := qsid_str q; q_want_reply := true; q_command := Some cmd |} 60010 in
  match res with
  | SErr => if negb hs && negb served && reply_kind_eqb mrep rep then Some s' else None
  | SOk n sst =>
      if hs && reply_kind_eqb mrep rep then
        match dr with
        | Some DServed =>
            if served && Bool.eqb (n_authentication n) a && str_opt_eqb (n_user n) u
               && str_opt_eqb (n_valid n) v && Bool.eqb (n_encryption n) ef && Bool.eqb (n_resumed n) rs
               && (n_command n =? cmd)
               && Bool.eqb kok (match st_key sst, q with
                                | Some k, QSess ord =>
                                    match find_sess (sid_of ord) (c_sessions (s_global s) ++ match s_custom s with Some c => c_sessions c | None => [] end) with
                                    | Some e => match e_key e with Some ki => bytes_eqb k (k_data ki) | None => false end
                                    | None => false
                                    end
                                | _, _ => false
                                end)
            then Some s' else None
        | _ => if negb served then Some s' else None
        end
      else None
  end.

Definition key_info_eqb (a b : option key_info) : bool :=
  match a, b with
  | None, None => true
  | Some x, Some y => bytes_eqb (k_data x) (k_data y) && bytes_eqb (k_proto x) (k_proto y)
  | _, _ => false
  end.

Definition step (st : srv * Z) (o : yop) : option (srv * Z) :=
  let '(s, now) := st in
  match o with
  | YStore ord cu k a u v dur lease =>
      Some (set_cache s cu (store_new (cache_of s cu)
              (mk_entry ord k (pol_of (PSome a u v)) (Some (now + go_secs dur)) (go_secs lease))), now)
  | YStoreP ord cu k p dur lease =>
      Some (set_cache s cu (store_new (cache_of s cu) (mk_entry ord k (pol_of p) (Some (now + dur)) lease)), now)
  | YStoreRaw ord cu k p lease =>
      Some (set_cache s cu (store_new (cache_of s cu) (mk_entry ord k (pol_of p) None lease)), now)
  | YResume q want cmd ok rep a u v ef rs kok =>
      match resume_step s now q want cmd ok rep a u v ef rs kok with Some s' => Some (s', now) | None => None end
  | YResumeInv q want cmd ok rep a u v ef rs kok icu iret =>
      match resume_step s now q want cmd ok rep a u v ef rs kok with
      | Some s' =>
          let '(c', r) := invalidate (cache_of s' icu) (qsid_str q) in
          if Bool.eqb r iret then Some (set_cache s' icu c', now) else None
      | None => None
      end
  | YServe q cmd opt hs rep served a u v ef rs kok =>
      match serve_step s now q cmd opt hs rep served a u v ef rs kok with Some s' => Some (s', now) | None => None end
  | YRenew ord cu found =>
      let c := cache_of s cu in
      match lookup c now (sid_of ord) with
      | Some e => if found then Some (set_cache s cu (store c (renew_lease e now)), now) else None
      | None => if found then None else Some (s, now)
      end
  | YTick dt => Some (s, now + dt)
  | YInvalidate ord cu ret =>
      let '(c', r) := invalidate (cache_of s cu) (sid_of ord) in
      if Bool.eqb r ret then Some (set_cache s cu c', now) else None
  | YSweep n =>
      let '(g', k) := invalidate_expired (s_global s) now in
      if k =? n then Some ({| s_custom := s_custom s; s_global := g' |}, now) else None
  end.

Definition snap_ok (st : srv * Z) (l : list sobs) : bool :=
  let '(s, now) := st in
  forallb (fun x =>
             match x with
             | SS ord cu stored looked expired =>
                 let c := cache_of s cu in
                 match find_sess (sid_of ord) (c_sessions c) with
                 | None => negb stored && negb looked
                 | Some e => stored && Bool.eqb (is_expired e now) expired
                             && Bool.eqb (match lookup c now (sid_of ord) with Some _ => true | None => false end) looked
                 end
             | SK ord cu owner k =>
                 (* the key the model's entry carries (the one it was stored with) is the key the cache holds *)
                 match find_sess (sid_of ord) (c_sessions (cache_of s cu)) with
                 | None => false
                 | Some e => key_info_eqb (e_key e) (key_of owner k)
                 end
             end) l.

Fixpoint run_steps (st : srv * Z) (l : list stepobs) : bool :=
  match l with
  | [] => true
  | St o s :: r =>
      match step st o with
      | None => false
      | Some st' => snap_ok st' s && run_steps st' r
      end
  end.

Definition check_case (c : case) : bool :=
  match c with
  | Case cu steps =>
      run_steps ({| s_custom := if cu then Some empty_cache else None; s_global := empty_cache |}, 0) steps
  end.

(* numerals used by generated case files (identifiers elaborate much faster than number notations) *)
Definition n0 : N := 0%N. Definition n1 : N := 1%N. Definition n2 : N := 2%N. Definition n3 : N := 3%N.
Definition n4 : N := 4%N. Definition n5 : N := 5%N. Definition n6 : N := 6%N. Definition n7 : N := 7%N.
Definition n8 : N := 8%N. Definition n9 : N := 9%N. Definition n10 : N := 10%N. Definition n11 : N := 11%N.
Definition n12 : N := 12%N. Definition n16 : N := 16%N. Definition n32 : N := 32%N.
Definition z0 : Z := 0. Definition z1 : Z := 1. Definition z2 : Z := 2. Definition z3 : Z := 3.
Definition z4 : Z := 4. Definition z5 : Z := 5. Definition z6 : Z := 6. Definition z7 : Z := 7.
Definition z8 : Z := 8. Definition z9 : Z := 9.
Definition z500 : Z := 500. Definition zm500 : Z := -500. Definition zm1500 : Z := -1500.
Definition zhuge : Z := 1099511627776. Definition z1500 : Z := 1500. Definition z3000 : Z := 3000.
Definition z477 : Z := 477. Definition z60021 : Z := 60021. Definition z60099 : Z := 60099.
Definition z2100 : Z := 2100. Definition z950 : Z := 950. Definition z421 : Z := 421. Definition z60007 : Z := 60007.

Fixpoint mism (i : nat) (cs : list case) : list nat :=
  match cs with
  | [] => []
  | c :: r => if check_case c then mism (S i) r else i :: mism (S i) r
  end.
Definition mismatches (cs : list case) : list nat := mism 0 cs.
