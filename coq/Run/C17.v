(* Run/C17.v — comparator for the C17 stress runs. The model's prediction for a
   scenario is derived from the locking discipline: a scenario whose accesses are
   all covered by the obligations of Props/C17.v must show no race report and
   must satisfy its quiescence post-conditions (all five scenarios since the
   SecurityManager fix). *)
From Coq Require Import List Bool Arith.
From Cedar Require Import Model.Lockset.
Import ListNotations.

Inductive scenario := ScCacheBasic | ScCacheMaint | ScClientShared | ScSecmanShared | ScStreamDuplex | ScPerCommand | ScCacheAtomic | ScSessionIDs | ScFreshKeyDuplex | ScCacheRoute | ScSecretDuplex | ScMixedResume.
Inductive case := CScen (sc : scenario) (procs workers : nat) (races : nat) (post_ok : bool).

(* each scenario as threads of the lockset model (locks: 0 cache, 1 entry, 2 none;
   locations: 0 sessions map, 1 entry.expiration, 2 config.ECDHPublicKey, 3 send state, 4 recv state) *)
Definition g (x : nat) : nat := match x with 0 => 0 | 1 => 1 | 3 => 3 | 4 => 4 | 5 => 5 | 6 => 6 | _ => 9 end.
Definition model_threads (sc : scenario) : list thread :=
  match sc with
  | ScCacheBasic => [[Acq 0 MW; Wr 0; Rel 0]; [Acq 0 MR; Rd 0; Acq 1 MW; Rd 1; Rel 1; Rel 0]; [Acq 1 MW; Wr 1; Rel 1]]
  | ScCacheMaint => [[Acq 0 MW; Wr 0; Acq 1 MW; Rd 1; Rel 1; Rel 0]; [Acq 0 MR; Rd 0; Acq 1 MW; Rd 1; Rel 1; Rel 0]; [Acq 1 MW; Wr 1; Rel 1]]
  | ScClientShared => [[Acq 0 MR; Rd 0; Rel 0]; [Acq 0 MW; Wr 0; Rel 0]]      (* per-connection copies: only the cache is shared *)
  | ScSecmanShared => [[Acq 5 MW; Wr 5; Rd 5; Rel 5]; [Acq 6 MW; Wr 6; Rd 6; Rel 6]] (* per-handshake copies: private state *)
  | ScPerCommand => [[Acq 5 MW; Wr 5; Rd 5; Rel 5]; [Acq 6 MW; Wr 6; Rd 6; Rel 6]]   (* per-connection copies of the per-command config *)
  | ScCacheAtomic => [[Acq 0 MW; Rd 0; Acq 1 MW; Rd 1; Rel 1; Wr 0; Rel 0]; [Acq 1 MW; Wr 1; Rel 1; Acq 0 MW; Wr 0; Rel 0]] (* sweep in one section || renew then store *)
  | ScSessionIDs => []   (* atomic adds only: no lock-guarded location involved; distinctness is C17_counter_distinct *)
  | ScFreshKeyDuplex => [[Acq 3 MW; Wr 3; Rel 3]; [Acq 4 MW; Wr 4; Rel 4]]      (* digests frozen at key install: disjoint state *)
  | ScCacheRoute => [[Acq 0 MW; Wr 0; Rel 0; Acq 0 MW; Wr 0; Rel 0]; [Acq 0 MW; Wr 0; Rel 0]] (* Store;MapCommand || Invalidate: race-free; routing is C17_route_consistent *)
  | ScSecretDuplex => [[Acq 3 MW; Wr 3; Rel 3]; [Acq 4 MW; Wr 4; Rel 4]]        (* no-op secret toggle: disjoint state *)
  | ScMixedResume => [[Acq 0 MR; Rd 0; Rel 0]; [Acq 0 MR; Rd 0; Rel 0]; [Acq 0 MW; Wr 0; Rel 0]] (* refused and successful resumptions only READ the cached entry's immutable key (C17_cached_key_never_written); the cache map under its lock *)
  | ScStreamDuplex => [[Acq 3 MW; Wr 3; Rel 3]; [Acq 4 MW; Wr 4; Rel 4]]        (* disjoint state: thread-private "locks" *)
  end.
Definition predicted_race_free (sc : scenario) : bool := forallb (wl g []) (model_threads sc).

Definition check_case (c : case) : bool :=
  match c with
  | CScen sc _ _ races post =>
      if predicted_race_free sc then Nat.eqb races 0 && post else true
  end.

Fixpoint mism (i : nat) (cs : list case) : list nat :=
  match cs with
  | [] => []
  | c :: r => if check_case c then mism (S i) r else i :: mism (S i) r
  end.
Definition mismatches (cs : list case) : list nat := mism 0 cs.
