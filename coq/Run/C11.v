(* Run/C11.v — executable comparator for the C11 correspondence.

   The crypto / JSON / key-store parameters of Model/Token.v are instantiated by
   finite tables the harness computed with an independent reference
   implementation (crypto/hmac, x/crypto/hkdf, encoding/json used directly).  A
   table miss yields the sentinel [miss]; a case in which the model consumed a
   missing entry is reported as a mismatch, never silently agreed with. *)
From Coq Require Import List NArith ZArith Bool.
From Cedar Require Export Lib.Bytes Lib.SymC11 gen.Consts gen.FactsC11 Model.Msg Model.Token.
Import ListNotations.
Local Open Scope Z_scope.

Definition miss : bytes := [x3f; x4d; x49; x53; x53; x3f].

Record tables := {
  t_sign : list (bytes * bytes * bytes);   (* signing key, text, signature *)
  t_kdf : list (bytes * bytes * bytes);    (* signature, token, K *)
  t_mac : list (bytes * bytes * bytes);    (* K, message, MAC *)
  t_skey : list (bytes * bytes);           (* rB, session key *)
  t_json : list (bytes * option claims);   (* decoded segment bytes -> view *)
  t_pool : option bytes;
  t_named : list (bytes * bytes);
  t_maxage : Z;
  t_trust : bytes;
  t_envage : bytes;                        (* SEC_TOKEN_MAX_AGE, [] when unset *)
  t_dur : list (bytes * option Z)          (* time.ParseDuration: string -> nanoseconds / error *)
}.

Fixpoint lookup2 (t : list (bytes * bytes * bytes)) (a b : bytes) : bytes :=
  match t with
  | [] => miss
  | (x, y, v) :: r => if bytes_eqb a x && bytes_eqb b y then v else lookup2 r a b
  end.
Fixpoint lookup1 {V} (t : list (bytes * V)) (a : bytes) : option V :=
  match t with
  | [] => None
  | (x, v) :: r => if bytes_eqb a x then Some v else lookup1 r a
  end.

Definition crypto_of (tb : tables) : crypto :=
  {| c_sign := lookup2 (t_sign tb); c_kdf := lookup2 (t_kdf tb); c_mac := lookup2 (t_mac tb);
     c_skey := fun rb => match lookup1 (t_skey tb) rb with Some v => v | None => miss end |}.
Definition env_of (tb : tables) : env :=
  {| e_cr := crypto_of tb;
     e_json := fun b => match lookup1 (t_json tb) b with Some v => v | None => None end;
     e_pool := t_pool tb;
     e_named := lookup1 (t_named tb);
     e_max_age := t_maxage tb;
     e_env_max_age := t_envage tb;
     e_parse_dur := fun b => match lookup1 (t_dur tb) b with Some v => v | None => None end;
     e_trust := t_trust tb |}.

(* every dot-separated part of [tok] that is valid base64url has a JSON table entry *)
Definition json_complete (tb : tables) (tok : bytes) : bool :=
  forallb (fun p => match b64url_decode p with
                    | Some b => match lookup1 (t_json tb) b with Some _ => true | None => false end
                    | None => true
                    end) (firstn 3 (split_on dot tok)).
Definition hit (b : bytes) : bool := negb (bytes_eqb b miss).
(* the ParseDuration table covers the string the model asks about *)
Definition dur_complete (tb : tables) : bool :=
  is_nil (t_envage tb) ||
  match lookup1 (t_dur tb) (t_envage tb ++ [x73]) with Some _ => true | None => false end.

Inductive case :=
| CServer (tb : tables) (now : Z) (rb : bytes) (frames : list mframe)
          (accept : bool) (user skey : bytes) (sent : option (list mframe))
| CClient (tb : tables) (ld : loaded) (ra : bytes) (frames : list mframe)
          (accept : bool) (skey : bytes) (sent : list (list mframe))
| CVerify (tb : tables) (now : Z) (tok : bytes) (obs : option (bytes * bytes * bytes * Z * Z))
| CValidate (tb : tables) (now : Z) (claimed tok : bytes) (obs : option (bytes * bytes * bytes * bytes))
| CLoad (tb : tables) (tok : bytes) (obs : loaded)
| CTiming (now maxage : Z) (envage : bytes) (dur : list (bytes * option Z)) (exp iat : jv) (ok : bool)
| CB64 (s : bytes) (obs : option bytes)
| CTrim (s : bytes) (obs : bytes)
| CKey (tb : tables) (kid : bytes) (obs : option bytes).

Definition frame_eqb (a b : mframe) : bool := bytes_eqb (fst a) (fst b) && Bool.eqb (snd a) (snd b).
Fixpoint list_eqb {A} (f : A -> A -> bool) (a b : list A) : bool :=
  match a, b with
  | [], [] => true
  | x :: a', y :: b' => f x y && list_eqb f a' b'
  | _, _ => false
  end.
Definition opt_eqb {A} (f : A -> A -> bool) (a b : option A) : bool :=
  match a, b with
  | None, None => true
  | Some x, Some y => f x y
  | _, _ => false
  end.

Definition server_tables_ok (tb : tables) (now : Z) (rb : bytes) (frames : list mframe) : bool :=
  match srv_step1 (reader_of frames) with
  | S1Ok claimed tok ra _ =>
      json_complete tb tok && dur_complete tb &&
      match validate_token (env_of tb) now claimed tok with
      | Some v => hit (v_sig v) && hit (v_K v)
                  && hit (c_mac (crypto_of tb) (v_K v) (mac_T (v_cid v) (v_sid v) ra rb))
                  && hit (c_mac (crypto_of tb) (v_K v) (mac_C (v_cid v) rb))
                  && hit (c_skey (crypto_of tb) rb)
      | None => true
      end
  | _ => true
  end.

Definition check_case (c : case) : bool :=
  match c with
  | CServer tb now rb frames accept user skey sent =>
      server_tables_ok tb now rb frames &&
      let r := server_run (env_of tb) now rb frames in
      (match s_out r with
       | Accept u k => accept && bytes_eqb u user && bytes_eqb k skey
       | Fail => negb accept
       end) && opt_eqb (list_eqb frame_eqb) (s_sent r) sent
  | CClient tb ld ra frames accept skey sent =>
      let cr := crypto_of tb in
      (match ld with Some (_, tok, sig) => hit (c_kdf cr sig tok) | None => true end) &&
      let r := client_run cr ld ra frames in
      (match c_out r with
       | CAccept k => accept && hit k && bytes_eqb k skey
       | CFail => negb accept
       end) && list_eqb (list_eqb frame_eqb) (c_sent r) sent
  | CVerify tb now tok obs =>
      json_complete tb (trim_space_go tok) && dur_complete tb &&
      match verify_id_token (env_of tb) now tok, obs with
      | Some c, Some (sub, iss, scope, exp, iat) =>
          bytes_eqb (ic_sub c) sub && bytes_eqb (ic_iss c) iss && bytes_eqb (ic_scope c) scope
          && (ic_exp c =? exp) && (ic_iat c =? iat)
      | None, None => true
      | _, _ => false
      end
  | CValidate tb now claimed tok obs =>
      json_complete tb tok && dur_complete tb &&
      match validate_token (env_of tb) now claimed tok, obs with
      | Some v, Some (cid, sid, sig, K) =>
          hit (v_sig v) && hit (v_K v) && bytes_eqb (v_cid v) cid && bytes_eqb (v_sid v) sid
          && bytes_eqb (v_sig v) sig && bytes_eqb (v_K v) K
      | None, None => true
      | _, _ => false
      end
  | CLoad tb tok obs =>
      json_complete tb tok &&
      match load_single_token (env_of tb) tok, obs with
      | Some (a, b, c), Some (a', b', c') => bytes_eqb a a' && bytes_eqb b b' && bytes_eqb c c'
      | None, None => true
      | _, _ => false
      end
  | CTiming now maxage envage dur exp iat ok =>
      let tb := {| t_sign := []; t_kdf := []; t_mac := []; t_skey := []; t_json := []; t_pool := None;
                   t_named := []; t_maxage := maxage; t_trust := []; t_envage := envage; t_dur := dur |} in
      dur_complete tb &&
      Bool.eqb (timing_ok now (resolved_max_age (env_of tb))
                  {| j_kid := JAbsent; j_exp := exp; j_iat := iat; j_sub := JAbsent; j_iss := JAbsent; j_scope := JAbsent |}) ok
  | CB64 s obs => opt_eqb bytes_eqb (b64url_decode s) obs
  | CTrim s obs => bytes_eqb (trim_space_go s) obs
  | CKey tb kid obs => opt_eqb bytes_eqb (load_signing_key (env_of tb) kid) obs
  end.

Fixpoint mism (i : nat) (cs : list case) : list nat :=
  match cs with
  | [] => []
  | c :: r => if check_case c then mism (S i) r else i :: mism (S i) r
  end.
Definition mismatches (cs : list case) : list nat := mism 0 cs.

(* constructors used by the generated case files *)
Definition mk_claims (kid exp iat sub iss scope : jv) : claims :=
  {| j_kid := kid; j_exp := exp; j_iat := iat; j_sub := sub; j_iss := iss; j_scope := scope |}.
Definition mk_tables sign kdf mac skey json pool named maxage trust envage dur : tables :=
  {| t_sign := sign; t_kdf := kdf; t_mac := mac; t_skey := skey; t_json := json; t_pool := pool;
     t_named := named; t_maxage := maxage; t_trust := trust; t_envage := envage; t_dur := dur |}.
