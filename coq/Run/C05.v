(* Run/C05.v — executable comparator for the C05 correspondence.
   A case carries concrete (table-driven) server configurations, the scripted
   client's inputs, and what the real cedar server was observed to do.  The
   model (Model/Server.v) is evaluated on the same inputs and compared. *)
From Coq Require Import List ZArith NArith Bool.
From Cedar Require Export gen.FactsC05 Model.Server.
Import ListNotations.
Local Open Scope N_scope.

(* ---- table-driven servers ------------------------------------------------ *)

Record tsrv := {
  t_default : option policy;
  t_percmd : option (list (cmd * policy));      (* SecurityConfigForCommand: listed -> that policy, else nil *)
  t_authz : option (list (perm * addr * user)); (* Authorizer: exactly the listed triples are allowed *)
  t_handlers : list (cmd * hentry)
}.

Fixpoint assoc_pol (t : list (cmd * policy)) (c : cmd) : option policy :=
  match t with
  | [] => None
  | (k, p) :: r => if Z.eqb k c then Some p else assoc_pol r c
  end.

Definition az_of (t : list (perm * addr * user)) (p : perm) (a : addr) (u : user) : bool :=
  existsb (fun x => let '(p', a', u') := x in (p' =? p) && (a' =? a) && (u' =? u)) t.

Definition srv_of (t : tsrv) : server :=
  {| s_default := t_default t;
     s_percmd := match t_percmd t with Some l => Some (assoc_pol l) | None => None end;
     s_authorizer := match t_authz t with Some l => Some (az_of l) | None => None end;
     s_handlers := t_handlers t |}.

(* ---- scripted connections -------------------------------------------------- *)

(* server tables are listed once per case and referred to by position *)
Record tstep := { ts_ret : hret; ts_next : option cmd; ts_srv : nat }.
Record tconn := {
  tc_srv : nat; tc_peer : addr; tc_first : option cmd; tc_hs : hs_in; tc_steps : list tstep
}.
Inductive tevent :=
| TConn (c : tconn)
| TDrop (s : sid)
| TImport (s : sid) (e : sentry)
| TClient (s : sid) (e : sentry).

Fixpoint map_opt {A B} (f : A -> option B) (l : list A) : option (list B) :=
  match l with
  | [] => Some []
  | x :: r => match f x, map_opt f r with Some y, Some ys => Some (y :: ys) | _, _ => None end
  end.

Definition tab (tabs : list tsrv) (i : nat) : option server :=
  match nth_error tabs i with Some t => Some (srv_of t) | None => None end.

Definition step_of (tabs : list tsrv) (s : tstep) : option step :=
  match tab tabs (ts_srv s) with
  | Some sv => Some {| st_ret := ts_ret s; st_next := ts_next s; st_srv := sv |}
  | None => None
  end.
Definition conn_of (tabs : list tsrv) (c : tconn) : option conn :=
  match tab tabs (tc_srv c), map_opt (step_of tabs) (tc_steps c) with
  | Some sv, Some steps =>
      Some {| c_srv := sv; c_peer := tc_peer c; c_first := tc_first c; c_hs := tc_hs c; c_steps := steps |}
  | _, _ => None
  end.
Definition event_of (tabs : list tsrv) (e : tevent) : option event :=
  match e with
  | TConn c => match conn_of tabs c with Some cn => Some (EConn cn) | None => None end
  | TDrop s => Some (EDrop s)
  | TImport s e => Some (EImport s e)
  | TClient s e => Some (EClientRecord s e)
  end.

(* ---- observations ----------------------------------------------------------- *)

(* one observed handler invocation: handler id, raw path?, Conn.Command,
   Conn.Negotiation (nil or Authentication, Encryption, User, SessionResumed, session id),
   Conn.Stream.IsEncrypted() *)
Record oinv := {
  o_handler : N; o_raw : bool; o_cmd : cmd;
  o_neg : option (bool * bool * user * bool * sid * list cmd);   (* ..., parsed Negotiation.ValidCommands *)
  o_enc : bool
}.
(* per connection: the invocations in order, and how ServeConn ended
   (0 closed/nil, 1 closed/error, 2 left open/nil, 4 the handler's panic came out of ServeConn,
    connection not closed by it) *)
Definition oconn := (list oinv * N)%type.

Definition end_code (e : cend) : N :=
  match e with EClosedOk => 0 | EClosedErr => 1 | EOpen => 2 | EPending => 3 | EPanic => 4 end.

Fixpoint zlist_eqb (a b : list cmd) : bool :=
  match a, b with
  | [], [] => true
  | x :: a', y :: b' => Z.eqb x y && zlist_eqb a' b'
  | _, _ => false
  end.

Definition neg_eqb (m : option session) (o : option (bool * bool * user * bool * sid * list cmd)) : bool :=
  match m, o with
  | None, None => true
  | Some n, Some (a, e, u, r, s, v) =>
      Bool.eqb (n_authn n) a && Bool.eqb (n_enc n) e && (n_user n =? u) && Bool.eqb (n_resumed n) r && (n_sid n =? s) && zlist_eqb (n_valid n) v
  | _, _ => false
  end.

Definition inv_eqb (m : invocation) (o : oinv) : bool :=
  (i_handler m =? o_handler o) && Bool.eqb (i_rawpath m) (o_raw o) && Z.eqb (i_cmd m) (o_cmd o)
  && neg_eqb (i_neg m) (o_neg o) && Bool.eqb (i_enc_real m) (o_enc o).

Fixpoint all2 {A B} (f : A -> B -> bool) (a : list A) (b : list B) : bool :=
  match a, b with
  | [], [] => true
  | x :: a', y :: b' => f x y && all2 f a' b'
  | _, _ => false
  end.

Definition conn_eqb (m : list dispatch * cend) (o : oconn) : bool :=
  all2 inv_eqb (invocations (fst m)) (fst o) && (end_code (snd m) =? snd o).

Definition subset (a b : list cmd) : bool := forallb (fun x => existsb (Z.eqb x) b) a.

(* The model composed with what the peer REALLY did (the ghost fields of the handshake records
   and installed entries are the scripted peer's own log / the stream's real state): the
   conclusion of C05_dispatch_real, evaluated on the run.  It fails exactly when a handshake of
   the real implementation reported more than happened (full_faithful violated) and a handler
   whose current policy requires it was dispatched on that session. *)
Definition inv_real_ok (i : invocation) : bool :=
  i_rawpath i ||
  (let p := current_policy (i_srv i) (i_cmd i) in
   (negb (requires_authn p) || i_auth_real i) && (negb (requires_enc p) || i_enc_real i)).

(* ---- cases -------------------------------------------------------------------- *)

Inductive case :=
(* a multi-connection history against one (mutable) server, from an empty cache *)
| CHist (tabs : list tsrv) (evs : list tevent) (obs : list oconn)
(* commandLevelSatisfied(cmd, a, e) on a server with the given default / per-command answer *)
| CLevel (def : option policy) (per : option (option policy)) (a e : bool) (obs : bool)
(* sessionSatisfies(cmd, peer, neg) = obs and lookup(cmd) = (registered, raw),
   for a list of queries against one server *)
| CSat (t : tsrv) (qs : list (cmd * addr * option (bool * bool * user) * bool * bool * bool))
(* postAuthPolicy(user, peer, a, e) = ValidCommands, for a list of queries against one server *)
| CPost (t : tsrv) (qs : list (user * addr * bool * bool * list cmd)).

Definition check_case (c : case) : bool :=
  match c with
  | CHist tabs evs obs =>
      match map_opt (event_of tabs) evs with
      | Some es => let rh := run_history [] es in
                   all2 conn_eqb rh obs && forallb inv_real_ok (invocations (flat_map fst rh))
      | None => false   (* a table index out of range: malformed case *)
      end
  | CLevel def per a e obs =>
      let s := {| s_default := def;
                  s_percmd := match per with Some r => Some (fun _ => r) | None => None end;
                  s_authorizer := None; s_handlers := [] |} in
      Bool.eqb (command_level_satisfied s 0%Z a e) obs
  | CSat t qs =>
      let s := srv_of t in
      forallb (fun q =>
        let '(c, peer, neg, obs, oreg, oraw) := q in
        let n := match neg with
                 | Some (a, e, u) => Some {| n_cmd := c; n_authn := a; n_enc := e; n_user := u; n_resumed := false; n_sid := 0; n_valid := [] |}
                 | None => None end in
        Bool.eqb (session_satisfies s c peer n) obs
        && match lookup (s_handlers s) c with
           | None => negb oreg
           | Some h => oreg && Bool.eqb (h_raw h) oraw
           end) qs
  | CPost t qs =>
      forallb (fun q =>
        let '(u, peer, a, e, obs) := q in
        let m := post_auth_policy (srv_of t) u peer a e in
        subset m obs && subset obs m) qs
  end.

Fixpoint mism (i : nat) (cs : list case) : list nat :=
  match cs with
  | [] => []
  | c :: r => if check_case c then mism (S i) r else i :: mism (S i) r
  end.
Definition mismatches (cs : list case) : list nat := mism 0 cs.
