(* Run/C14.v — executable comparator for the C14 correspondence. *)
From Coq Require Import List NArith ZArith Bool.
From Cedar Require Import Lib.Bytes gen.Consts Model.Msg Model.Double.
Import ListNotations.
Local Open Scope N_scope.

(* doubles travel as their 64-bit patterns, never as decimal text *)
Inductive pval := VChar (b : N) | VInt (z : Z) | VStr (bs : bytes) | VStrB (bs : bytes) | VBytes (bs : bytes)
              | VDouble (bits : Z).
(* a 64-bit pattern written as its 8 big-endian bytes (cheap to elaborate) *)
Definition dbits (b : bytes) : Z := Z.of_N (be_dec b).
Inductive gop := GChar | GInt | GInt32 | GUint32 | GStr | GBytes (n : Z) | GRemain | GDouble.
Inductive gval := RChar (b : N) | RInt (z : Z) | RBytes (bs : bytes) | RDig (d : N * N * bytes * bytes)
                | RDouble (bits : Z) | RErr (cls : N) | RPanic.
(* an observed frame: eom flag and either the bytes or their projection *)
Inductive xframe := XFull (eom : bool) (bs : bytes) | XDig (eom : bool) (d : N * N * bytes * bytes).

Inductive case :=
| CEnc (encrypted : bool) (vals : list pval) (observed : list xframe)
| CDec (encrypted : bool) (data : bytes) (lens : list N) (last_eom : bool) (ops : list gop) (observed : list gval).

(* cut [data] into frames of the given lengths; the last one carries [last_eom] *)
Fixpoint cut_frames (data : bytes) (lens : list N) (last_eom : bool) : list mframe :=
  match lens with
  | [] => []
  | [n] => [(firstn (N.to_nat n) data, last_eom)]
  | n :: r => (firstn (N.to_nat n) data, false) :: cut_frames (skipn (N.to_nat n) data) r last_eom
  end.

Definition put_val (enc : bool) (w : writer) (v : pval) : writer :=
  match v with
  | VChar b => put_char w (n2b b)
  | VInt z => put_int w z
  | VStr s => put_string enc w s
  | VStrB s => put_string_bytes enc w s
  | VBytes s => put_bytes w s
  | VDouble bits => put_double w bits
  end.

Definition dig_eqb (a b : N * N * bytes * bytes) : bool :=
  let '(l1, s1, h1, t1) := a in let '(l2, s2, h2, t2) := b in
  (l1 =? l2) && (s1 =? s2) && bytes_eqb h1 h2 && bytes_eqb t1 t2.

Definition frame_matches (m : mframe) (x : xframe) : bool :=
  match x with
  | XFull e bs => Bool.eqb e (snd m) && bytes_eqb (fst m) bs
  | XDig e d => Bool.eqb e (snd m) && dig_eqb (digestN (fst m)) d
  end.
Fixpoint all2 {A B} (f : A -> B -> bool) (a : list A) (b : list B) : bool :=
  match a, b with
  | [], [] => true
  | x :: a', y :: b' => f x y && all2 f a' b'
  | _, _ => false
  end.

Definition err_cls (e : merr) : N :=
  match e with MEof => 1 | MConn => 2 | MTooBig => 3 | MOther => 4 end.

Definition run_get (enc : bool) (r : reader) (o : gop) : reader * gval :=
  let conv {A} (f : A -> gval) (x : reader * mres A) : reader * gval :=
    match x with
    | (r', MOk a) => (r', f a)
    | (r', MErr e) => (r', RErr (err_cls e))
    | (r', MPanic) => (r', RPanic)
    end in
  match o with
  | GChar => conv (fun b => RChar (b2n b)) (get_char r)
  | GInt => conv RInt (get_int r)
  | GInt32 => conv RInt (get_int32 r)
  | GUint32 => conv RInt (get_uint32 r)
  | GStr => conv RBytes (get_string enc r)
  | GBytes n => conv RBytes (get_bytes r n)
  | GRemain => conv RBytes (get_remaining r)
  | GDouble => conv RDouble (get_double r)
  end.

Definition gval_ok (g : gval) : bool :=
  match g with RErr _ | RPanic => false | _ => true end.

Definition gval_eqb (model obs : gval) : bool :=
  match model, obs with
  | RChar a, RChar b => a =? b
  | RInt a, RInt b => Z.eqb a b
  | RBytes a, RBytes b => bytes_eqb a b
  | RBytes a, RDig d => dig_eqb (digestN a) d
  | RDouble a, RDouble b => Z.eqb a b
  | RErr a, RErr b => a =? b
  | RPanic, RPanic => true
  | _, _ => false
  end.

(* compare op by op for as long as the harness went on: it continues after an error
   result (the Message stays usable) and stops after a panic *)
Fixpoint run_gets (enc : bool) (r : reader) (ops : list gop) (obs : list gval) : bool :=
  match ops, obs with
  | [], [] => true
  | o :: ops', g :: obs' =>
      let '(r', m) := run_get enc r o in
      gval_eqb m g && run_gets enc r' ops' obs'
  | _, _ => false
  end.

Definition check_case (c : case) : bool :=
  match c with
  | CEnc enc vals obs =>
      let w := finish (fold_left (put_val enc) vals writer_init) in
      all2 frame_matches (w_out w) obs
  | CDec enc data lens le ops obs => run_gets enc (reader_of (cut_frames data lens le)) ops obs
  end.

Fixpoint mism (i : nat) (cs : list case) : list nat :=
  match cs with
  | [] => []
  | c :: r => if check_case c then mism (S i) r else i :: mism (S i) r
  end.
Definition mismatches (cs : list case) : list nat := mism 0 cs.
