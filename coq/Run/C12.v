(* Run/C12.v *)
From Cedar Require Export Run.StreamRun.
