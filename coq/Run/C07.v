(* Run/C07.v — executable comparator for the C07 correspondence: a history of
   client-cache operations with what the real code was observed to do; the model
   (Model/Cache.v) is run on the same history and every observation compared. *)
From Coq Require Import List NArith ZArith Bool.
From Cedar Require Import Lib.Bytes.
From Cedar Require Export Model.Cache.
Import ListNotations.
Local Open Scope Z_scope.

(* Case terms are compact: strings of the alphabet are referred to by index
   into per-case tables, session ids by ordinal (order of issue). *)
Definition sid_of (n : N) : str := if (n =? 0)%N then [] else [x53; n2b n].   (* "S" ++ byte n *)

(* what the (real, honest) server end of the connection saw and did *)
Inductive seen :=
| SFullOk (sid : N) (valid : str) (haskey : bool) (* a full-handshake request; id, ValidCommands announced, key agreed *)
| SFullFail                               (* a full-handshake request that did not complete *)
| SResume (sid : N) (r : resume_reply)    (* a resumption request naming sid; its reply *)
| SNothing                                (* no request reached the server *)
| SDropped.                               (* the server closed the connection before reading: request not seen *)

Inductive cres := CROk | CRResumeErr | CROtherErr.

(* the client cache after a step *)
Inductive kent :=
| KT (t a c : N) (sid : N)     (* the real key string that MapCommand produces for triple (t, a, c) of the tables *)
| KS (k : str) (sid : N).      (* any other key string, verbatim *)
Inductive bent := B (i ord : N).
Inductive sent := SE (id tag addr : N) (hk ex : bool).
Record snap := {
  s_cmdmap : list kent;                            (* command map: key -> session ordinal *)
  s_sessions : list sent;                          (* ordinal, tag index, addr index, has key, IsExpired() *)
  s_byid : list bool;                              (* Lookup(id) found? for ordinals 1..n *)
  s_bycmd : list bent                              (* LookupByCommand over tags x addrs x cmds (row-major index): the hits *)
}.

Inductive ev :=
| XHs (sid : N) (tag : N) (addr : option N) (cmd : option N) (sv : seen) (res : cres) (was_resumed : bool)
| XRetry (tag addr cmd : N) (sv1 : seen) (sv2 : option seen) (res : cres)
| XTick (dt : Z)
| XInvalidate (id : N) (ret : bool)
| XInvalidateExpired (ret : Z)
| XLookupNonExpired (id : N) (found : bool)
| XImport (id tag addr cmd : N) (lease : Z)
| XAnnounce (id tag addr : N) (valid : str) (dur lease : Z).  (* storeClientSession for a post-auth ad announcing this ValidCommands string *)   (* a previously used id registered again: Store, then MapCommand(tag, addr, cmd, id) *)

(* tables of tags, addresses, commands (decimal strings); session duration and lease announced by the servers *)
Record tables := { t_tags : list str; t_addrs : list str; t_cmds : list str; t_dur : Z; t_lease : Z }.
Inductive stepobs := St (e : ev) (s : snap).
Inductive case :=
| Case (tcp0 tcp1 : bool) (steps : list stepobs)   (* tcpI: server I is reached over loopback TCP (address alias) *)
| KeyCase (tag addr cmd key : str).                (* MapCommand(tag, addr, cmd, _) was seen to use this key string *)

(* the alphabet the generator draws from (harness/cmd/vh-c07: tags, addrs, cmds, sessDuration, sessLease) *)
From Coq Require String.
Import Coq.Strings.String.StringSyntax.
Delimit Scope string_scope with string.
Definition std_tables (tcp0 tcp1 : bool) : tables :=
  {| t_tags := [ []; hx "74616741"%string; hx "74616742"%string ];        (* "", tagA, tagB *)
     t_addrs := [ if tcp0 then hx "7463702d6c6f6f706261636b3a30"%string  (* tcp-loopback:0 *)
                  else hx "3c31302e302e302e313a393631383f736f636b3d7363686564645f313233345f353637383e"%string;       (* <10.0.0.1:9618?sock=schedd_1234_5678> *)
                  if tcp1 then hx "7463702d6c6f6f706261636b3a31"%string
                  else hx "3c31302e302e302e313a393631383f736f636b3d7374617274645f313233345f393939393e"%string ];     (* <10.0.0.1:9618?sock=startd_1234_9999>: two daemons behind one shared port *)
     t_cmds := [ hx "343231"%string; hx "3630303037"%string; hx "39"%string; hx "30"%string ];  (* 421 60007 9 0 *)
     t_dur := 2100; t_lease := 950 |}.

Definition nth_str (l : list str) (i : N) : str := nth (N.to_nat i) l [].

Definition str_opt_eqb (a b : option str) : bool :=
  match a, b with
  | None, None => true
  | Some x, Some y => bytes_eqb x y
  | _, _ => false
  end.

Definition full_of (tb : tables) (sv : seen) : full_reply :=
  match sv with
  | SFullOk sid valid hk =>
      FOk {| f_sid := sid_of sid; f_user := None; f_valid := valid; f_dur := t_dur tb; f_lease := t_lease tb;
             f_key := if hk then Some {| k_data := repeat x00 32; k_proto := s_AES |} else None;
             f_authmethods := []; f_crypto := [] |}
  | _ => FFail
  end.
Definition peer_of (tb : tables) (sv : seen) : peer :=
  {| on_full := full_of tb sv;
     on_resume := fun _ => match sv with SResume _ r => r | _ => RBroken end |}.

Definition action_matches (a : action) (sv : seen) : bool :=
  match a, sv with
  | AFull, (SFullOk _ _ _ | SFullFail) => true
  | AResume s, SResume s' _ => bytes_eqb s (sid_of s')
  | ANone, SNothing => true
  | _, SDropped => true
  | _, _ => false
  end.

Definition res_of (o : outcome) : cres :=
  match o with
  | OFull _ | OResumed _ _ _ => CROk
  | OFullErr => CROtherErr
  | OResumeErr _ | OExplicitMissing => CRResumeErr
  end.
Definition cres_eqb (a b : cres) : bool :=
  match a, b with CROk, CROk | CRResumeErr, CRResumeErr | CROtherErr, CROtherErr => true | _, _ => false end.
Definition was_resumed_of (o : outcome) : bool :=
  match o with OResumed _ (Some _) _ => true | _ => false end.

Fixpoint seqN (from : N) (n : nat) : list N :=
  match n with O => [] | S k => from :: seqN (N.succ from) k end.

Definition all_triples (tb : tables) : list (str * str * str) :=
  flat_map (fun t => flat_map (fun a => map (fun c => (t, a, c)) (t_cmds tb)) (t_addrs tb)) (t_tags tb).

Fixpoint all2 {A B} (f : A -> B -> bool) (a : list A) (b : list B) : bool :=
  match a, b with
  | [], [] => true
  | x :: a', y :: b' => f x y && all2 f a' b'
  | _, _ => false
  end.

Definition snap_ok (tb : tables) (c : cache) (now : Z) (s : snap) : bool :=
  Nat.eqb (length (s_cmdmap s)) (length (c_cmdmap c))
  && forallb (fun kv => match kv with
                        | KT t a cm sid => str_opt_eqb (map_get (cmd_key (nth_str (t_tags tb) t) (nth_str (t_addrs tb) a)
                                                                         (nth_str (t_cmds tb) cm)) (c_cmdmap c)) (Some (sid_of sid))
                        | KS k sid => str_opt_eqb (map_get k (c_cmdmap c)) (Some (sid_of sid))
                        end) (s_cmdmap s)
  && Nat.eqb (length (s_sessions s)) (length (c_sessions c))
  && forallb (fun x => let '(SE id tag addr hk ex) := x in
                match find_sess (sid_of id) (c_sessions c) with
                | None => false
                | Some e => bytes_eqb (e_tag e) (nth_str (t_tags tb) tag) && bytes_eqb (e_addr e) (nth_str (t_addrs tb) addr)
                            && Bool.eqb (match e_key e with Some _ => true | None => false end) hk
                            && Bool.eqb (is_expired e now) ex
                end) (s_sessions s)
  && all2 (fun id found => Bool.eqb (match lookup c now (sid_of id) with Some _ => true | None => false end) found)
          (seqN 1 (length (s_byid s))) (s_byid s)
  && all2 (fun tr i => let '(t, a, cm) := tr in
             str_opt_eqb (option_map e_id (lookup_by_command c now t a cm))
                         (match find (fun b => let '(B j _) := b in (j =? i)%N) (s_bycmd s) with
                          | Some (B _ r) => Some (sid_of r)
                          | None => None
                          end))
          (all_triples tb) (seqN 0 (length (all_triples tb))).

(* one step of the model with its comparison; None = disagreement *)
Definition step (tb : tables) (st : cache * Z) (e : ev) : option (cache * Z) :=
  let '(c, now) := st in
  match e with
  | XHs sidn tagi addri cmdi sv res wr =>
      let sid := sid_of sidn in
      let tag := nth_str (t_tags tb) tagi in
      let addr := match addri with Some i => nth_str (t_addrs tb) i | None => [] end in
      let cmd := option_map (nth_str (t_cmds tb)) cmdi in
      if action_matches (client_action c now sid tag addr cmd) sv then
        let '(c', o) := client_handshake c now sid tag addr cmd (peer_of tb sv) in
        if cres_eqb (res_of o) res && Bool.eqb (was_resumed_of o) wr then Some (c', now) else None
      else None
  | XRetry tagi addri cmdi sv1 sv2 res =>
      let tag := nth_str (t_tags tb) tagi in
      let addr := nth_str (t_addrs tb) addri in
      let cmd := Some (nth_str (t_cmds tb) cmdi) in
      if action_matches (client_action c now [] tag addr cmd) sv1 then
        let '(c1, o1) := client_handshake c now [] tag addr cmd (peer_of tb sv1) in
        if is_resumption_error o1 then
          match sv2 with
          | None => None
          | Some s2 =>
              if action_matches (client_action c1 now [] tag addr cmd) s2 then
                let '(c2, o2) := client_handshake c1 now [] tag addr cmd (peer_of tb s2) in
                if cres_eqb (res_of o2) res then Some (c2, now) else None
              else None
          end
        else match sv2 with
             | Some _ => None
             | None => if cres_eqb (res_of o1) res then Some (c1, now) else None
             end
      else None
  | XTick dt => Some (c, now + dt)
  | XInvalidate id ret =>
      let '(c', r) := invalidate c (sid_of id) in if Bool.eqb r ret then Some (c', now) else None
  | XInvalidateExpired ret =>
      let '(c', n) := invalidate_expired c now in if n =? ret then Some (c', now) else None
  | XLookupNonExpired id found =>
      let '(c', r) := lookup_nonexpired c now (sid_of id) in
      if Bool.eqb (match r with Some _ => true | None => false end) found then Some (c', now) else None
  | XAnnounce id tagi addri valid dur lease =>
      match full_of tb (SFullOk id valid true) with
      | FOk fo0 =>
          let fo := {| f_sid := f_sid fo0; f_user := f_user fo0; f_valid := f_valid fo0; f_dur := dur; f_lease := lease;
                       f_key := f_key fo0; f_authmethods := f_authmethods fo0; f_crypto := f_crypto fo0 |} in
          Some (store_client_session c now (nth_str (t_tags tb) tagi) (nth_str (t_addrs tb) addri) fo, now)
      | FFail => None
      end
  | XImport id tagi addri cmdi lease =>
      let tag := nth_str (t_tags tb) tagi in
      let addr := nth_str (t_addrs tb) addri in
      let e := {| e_id := sid_of id; e_addr := addr; e_tag := tag;
                  e_key := Some {| k_data := repeat x5a 32; k_proto := s_AES |}; e_policy := None;   (* not a client-side record, its own key *)
                  e_exp := Some (now + t_dur tb); e_lease := lease |} in
      Some (map_command (store_new c e) tag addr (nth_str (t_cmds tb) cmdi) (sid_of id), now)
  end.

Fixpoint run_steps (tb : tables) (st : cache * Z) (l : list stepobs) : bool :=
  match l with
  | [] => true
  | St e s :: r =>
      match step tb st e with
      | None => false
      | Some st' => snap_ok tb (fst st') (snd st') s && run_steps tb st' r
      end
  end.

Definition check_case (c : case) : bool :=
  match c with
  | Case tcp0 tcp1 steps => run_steps (std_tables tcp0 tcp1) (empty_cache, 0) steps
  | KeyCase tag addr cmd key => bytes_eqb (cmd_key tag addr cmd) key
  end.

(* numerals used by generated case files (identifiers elaborate much faster than number notations) *)
Definition n0 : N := 0%N.
Definition n1 : N := 1%N.
Definition n2 : N := 2%N.
Definition n3 : N := 3%N.
Definition n4 : N := 4%N.
Definition n5 : N := 5%N.
Definition n6 : N := 6%N.
Definition n7 : N := 7%N.
Definition n8 : N := 8%N.
Definition n9 : N := 9%N.
Definition n10 : N := 10%N.
Definition n11 : N := 11%N.
Definition n12 : N := 12%N.
Definition n13 : N := 13%N.
Definition n14 : N := 14%N.
Definition n15 : N := 15%N.
Definition n16 : N := 16%N.
Definition n17 : N := 17%N.
Definition n18 : N := 18%N.
Definition n19 : N := 19%N.
Definition n20 : N := 20%N.
Definition n21 : N := 21%N.
Definition n22 : N := 22%N.
Definition n23 : N := 23%N.
Definition n24 : N := 24%N.
Definition n25 : N := 25%N.
Definition n26 : N := 26%N.
Definition n27 : N := 27%N.
Definition n28 : N := 28%N.
Definition n29 : N := 29%N.
Definition n30 : N := 30%N.
Definition n77 : N := 77%N.
Definition n99 : N := 99%N.
Definition n200 : N := 200%N.
Definition n201 : N := 201%N.
Definition n202 : N := 202%N.
Definition n203 : N := 203%N.
Definition n250 : N := 250%N.
Definition z0 : Z := 0.
Definition z950 : Z := 950.
Definition z2100 : Z := 2100.
Definition zm5 : Z := -5.
Definition zm7 : Z := -7.
Definition zm1500 : Z := -1500.
Definition zm500 : Z := -500.
Definition zhuge : Z := 1099511627776.          (* 2^40 s: the nanosecond count wraps *)
Definition zover : Z := 9223372037.             (* first whole second beyond int64 nanoseconds *)
Definition zmaxok : Z := 9223372036.            (* last whole second within int64 nanoseconds *)
Definition z1 : Z := 1.
Definition z2 : Z := 2.
Definition z3 : Z := 3.
Definition z4 : Z := 4.
Definition z5 : Z := 5.
Definition z6 : Z := 6.
Definition z7 : Z := 7.
Definition z8 : Z := 8.
Definition z9 : Z := 9.
Definition z500 : Z := 500.
Definition z1500 : Z := 1500.
Definition z3000 : Z := 3000.

Fixpoint mism (i : nat) (cs : list case) : list nat :=
  match cs with
  | [] => []
  | c :: r => if check_case c then mism (S i) r else i :: mism (S i) r
  end.
Definition mismatches (cs : list case) : list nat := mism 0 cs.
