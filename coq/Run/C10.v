(* Run/C10.v — executable comparator for the C10 correspondence. *)
From Coq Require Import List NArith ZArith Bool.
From Cedar Require Import Lib.Bytes.
From Cedar Require Export Model.Negotiate.
Import ListNotations.
Local Open Scope Z_scope.

Inductive case1 :=
| CNeg (sA cA sE cE sI cI : lvl) (sm cm : list meth) (sc cc : list ciph)
       (err auth enc enact : bool) (m : meth) (k : option ciph)
| CNegT (sI cI : lvl) (sm cm : list meth) (sc cc : list ciph) (m : meth) (k : option ciph) (codes : bytes)
| CBit (b : Z) (m : option meth)
| CMask (ms : list meth) (b : Z)
| CHs (tok tw : bool) (sA cA sE cE sI cI : lvl) (sm cm : list meth) (sc cc : list ciph)
      (out : N) (cerr serr cauth sauth cenc senc : bool) (cmeth smeth : meth) (real : bool)
      (rounds : list (Z * Z)).

Definition optm_eqb (a b : option meth) : bool :=
  match a, b with Some x, Some y => meth_eqb x y | None, None => true | _, _ => false end.
Definition optc_eqb (a b : option ciph) : bool :=
  match a, b with Some x, Some y => ciph_eqb x y | None, None => true | _, _ => false end.
Fixpoint rounds_eqb (a b : list (Z * Z)) : bool :=
  match a, b with
  | [], [] => true
  | (x1, y1) :: a', (x2, y2) :: b' => (x1 =? x2) && (y1 =? y2) && rounds_eqb a' b'
  | _, _ => false
  end.

(* which sub-protocols work in the harness runs: CLAIMTOBE and FS do; TOKEN/IDTOKENS do iff
   [tw] (the client's token verifies under a key the server holds); PASSWORD is a stub; SSL,
   SCITOKENS, KERBEROS have no credentials in the harness world *)
Definition run_aok (tw : bool) (m : meth) : bool :=
  match m with mCTB | mFS => true | mTOK | mIDT => tw | _ => false end.

Definition lvl_of (n : N) : lvl :=
  match n with 0%N => Rq | 1%N => Pf | 2%N => Op | 3%N => Nv | _ => Ot end.
Definition b2N (b : bool) (w : N) : N := if b then w else 0%N.
Definition neg_code (sI cI : lvl) (sm cm : list meth) (sc cc : list ciph) (li : N) : N :=
  let cE := lvl_of (li mod 5)%N in
  let sE := lvl_of ((li / 5) mod 5)%N in
  let cA := lvl_of ((li / 25) mod 5)%N in
  let sA := lvl_of (li / 125)%N in
  let r := negotiate_i sA cA sE cE sI cI sm cm sc cc in
  (b2N (match ni_err r with Some _ => true | None => false end) 1 + b2N (ni_auth r) 2
   + b2N (ni_enc r) 4 + b2N (ni_enact r) 8)%N.
(* codes: one byte per combination of the five level classes, index in base 5 *)
Fixpoint neg_rows (sI cI : lvl) (sm cm : list meth) (sc cc : list ciph) (li : N) (codes : bytes) : bool :=
  match codes with
  | [] => N.eqb li 625
  | b :: r => N.eqb (neg_code sI cI sm cm sc cc li) (b2n b) && neg_rows sI cI sm cm sc cc (li + 1)%N r
  end.

Definition check1 (c : case1) : bool :=
  match c with
  | CNegT sI cI sm cm sc cc m k codes =>
      neg_rows sI cI sm cm sc cc 0%N codes
      && meth_eqb (ni_meth (negotiate_i Op Op Op Op Op Op sm cm sc cc)) m
      && optc_eqb (ni_ciph (negotiate_i Op Op Op Op Op Op sm cm sc cc)) k
  | CNeg sA cA sE cE sI cI sm cm sc cc err auth enc enact m k =>
      let r := negotiate_i sA cA sE cE sI cI sm cm sc cc in
      Bool.eqb (match ni_err r with Some _ => true | None => false end) err
      && Bool.eqb (ni_auth r) auth && Bool.eqb (ni_enc r) enc && Bool.eqb (ni_enact r) enact
      && meth_eqb (ni_meth r) m && optc_eqb (ni_ciph r) k
  | CBit b m => optm_eqb (of_bit b) m
  | CMask ms b => mask ms =? b
  | CHs tok tw sA cA sE cE sI cI sm cm sc cc out cerr serr cauth sauth cenc senc cmeth smeth real rounds =>
      (* out: 0 both succeed / 1 the server's denial ad was on the wire AND the client's error is
         of the class "rejected by the server" AND the server failed / 2 any other failure *)
      match honest_i (run_aok tw) tok (mkP cA cE cI cm cc 1) (mkP sA sE sI sm sc 2) 7 with
      | HDenied => N.eqb out 1 && cerr && serr
      | HFail ce se rs => N.eqb out 2 && Bool.eqb ce cerr && Bool.eqb se serr && rounds_eqb rs rounds
      | HOk r =>
          N.eqb out 0 && negb cerr && negb serr
          && Bool.eqb (k_cauth r) cauth && Bool.eqb (k_sauth r) sauth
          && Bool.eqb (k_cenc r) cenc && Bool.eqb (k_senc r) senc
          && meth_eqb (k_cmeth r) cmeth && meth_eqb (k_smeth r) smeth
          && Bool.eqb (k_creal r && k_sreal r) real && Bool.eqb (k_creal r || k_sreal r) real
          && rounds_eqb (k_rounds r) rounds
      end
  end.

(* a case of the correspondence run is a small batch of runs (fewer, larger
   case files: Coq's start-up dominates the evaluation time) *)
Definition case := list case1.
Definition check_case (c : case) : bool := forallb check1 c.

Fixpoint mism (i : nat) (cs : list case) : list nat :=
  match cs with
  | [] => []
  | c :: r => if check_case c then mism (S i) r else i :: mism (S i) r
  end.
Definition mismatches (cs : list case) : list nat := mism 0 cs.
