(* Run/C13.v — executable comparator for the C13 correspondence. *)
From Coq Require Import List NArith ZArith Bool.
From Cedar Require Import Lib.Bytes gen.Consts Model.Msg Model.Decode Model.Sinful Model.Version Model.Addr gen.FactsC13 Model.PassSock Model.Watch.
Import ListNotations.
Local Open Scope N_scope.

(* message-level operations on a reader fed by a frame list *)
Inductive mop :=
| OInt | OStr | OStrMax (cap : Z) | OSkip | OBytes (n : Z) | ORemain
| OAd (cap : Z) (parse_fail : option N)     (* GetClassAdWithMaxSize; cap 0 = GetClassAd *)
| OAdRaw | OAdRawBody (n : Z) | OAdSkip
| OIdStr (max_name : Z)
| OXKey | OSSLRecv.

(* observed: outcome class (0 ok, 1 eof, 2 conn, 3 too-big, 4 other, 9 panic; 5 = some error,
   class not distinguished), frames not yet pulled, bytes pulled but unread, returned bytes *)
Record obs := Ob { o_cls : N; o_left : N; o_buf : N; o_val : option bytes }.

Inductive wop := WFrame | WStart | WComplete | WOps (ops : list mop).

Inductive case :=
| CMsg (encrypted : bool) (data : bytes) (lens : list N) (last_eom : bool) (ops : list (mop * obs))
| CWire (data : bytes) (op : wop) (cls : N) (consumed : N) (val : option bytes)
| CBlob (blob : bytes) (accepted : bool) (flags : N) (key eiv div : bytes) (ectr dctr : N) (sd rd peer : bytes)
| CClaim (s sid info key : bytes)
| CAttrs (s : bytes) (kvs : list (bytes * bytes))
| CVersion (s : bytes) (ok : bool) (maj mn sub : Z) (at_least_9_9 : bool)
| CSinful (s : bytes) (err : bool) (primary host port sock priv_addr priv_net alias : bytes) (noudp : bool)
          (addrs : list bytes) (ccb : list (bytes * bytes * bytes)) (params : list (bytes * bytes))
(* Model/Addr.v *)
| CHtAddr (s server id : bytes) (is_sp id_valid : bool)      (* ParseHTCondorAddress + IsValidSharedPortID(id) *)
| CSpId (s : bytes) (valid : bool)                            (* IsValidSharedPortID *)
| CCcbSplit (s : bytes) (ok : bool) (broker id : bytes) (nested : bool)   (* SplitCCBContact + BrokerIsCCB(broker) *)
| CBrokerList (s : bytes) (out : list bytes)                  (* ccb.SplitBrokerList *)
| CFlat (s : bytes) (ok : bool) (entry id route : bytes)      (* ccb.splitFlatEntryAndRoute *)
| CContact (b : bytes) (n : N) (out : bytes) (ok : bool) (rb rid : bytes)  (* ContactString, then SplitCCBContact of it *)
(* Model/PassSock.v: readPassSockHeader on an in-memory stream (class 0 ok, 1 short read, 4 other error,
   9 panic; bytes consumed), and the bytes writePassSockHeader produces *)
| CPassSock (inp : bytes) (cls consumed : N)
| CPassSockWrite (out : bytes)
(* Model/Watch.v: the ad is given by the results of its EvaluateAttr* lookups *)
| CWatchReq (adtype constraint cursor : option bytes) (ok : bool) (t c cur : bytes)
| CWatchHdr (kind : option Z) (key cursor : option bytes) (ok : bool) (k : Z) (key' cur' : bytes)
| CWatchEncReq (adtype constraint cursor : bytes) (t' c' cur' : option bytes)
| CWatchEncHdr (kind : Z) (key cursor : option bytes) (k' : option Z) (key' cur' : option bytes).

(* compact descriptors for long test inputs (case files stay small) *)
Definition rep (b : N) (n : N) : bytes := repeat (n2b b) (N.to_nat n).
Definition rept (u : bytes) (k : N) : bytes := concat (repeat u (N.to_nat k)).

Fixpoint cut_frames (data : bytes) (lens : list N) (last_eom : bool) : list mframe :=
  match lens with
  | [] => []
  | [n] => [(firstn (N.to_nat n) data, last_eom)]
  | n :: r => (firstn (N.to_nat n) data, false) :: cut_frames (skipn (N.to_nat n) data) r last_eom
  end.

Definition err_cls (e : merr) : N :=
  match e with MEof => 1 | MConn => 2 | MTooBig => 3 | MOther => 4 end.

Definition unitize {A} (x : reader * mres A) : reader * mres (option bytes) :=
  match x with
  | (r, MOk _) => (r, MOk None)
  | (r, MErr e) => (r, MErr e)
  | (r, MPanic) => (r, MPanic)
  end.
Definition valize (x : reader * mres bytes) : reader * mres (option bytes) :=
  match x with
  | (r, MOk v) => (r, MOk (Some v))
  | (r, MErr e) => (r, MErr e)
  | (r, MPanic) => (r, MPanic)
  end.

Definition parse_oracle (pf : option N) : N -> bytes -> bool :=
  fun i _ => match pf with Some k => negb (i =? k) | None => true end.

Definition run_op (enc : bool) (r : reader) (o : mop) : reader * mres (option bytes) :=
  match o with
  | OInt => unitize (get_int r)
  | OStr => valize (get_string' enc r)
  | OStrMax cap => valize (get_string_max enc cap r)
  | OSkip => unitize (skip_string enc r)
  | OBytes n => valize (get_bytes r n)
  | ORemain => valize (get_remaining r)
  | OAd cap pf => unitize (get_classad (parse_oracle pf) enc cap r)
  | OAdRaw => unitize (get_classad_raw enc r)
  | OAdRawBody n =>
      (* GetClassAdRawBody: the body of get_classad_raw with the count supplied by the caller *)
      unitize (bind (raw_loop enc (S (S (S (N.to_nat (avail r))))) n r) (fun r1 _ =>
               bind (type_line enc r1) (fun r2 _ => type_line enc r2)))
  | OAdSkip => unitize (skip_classad_raw enc r)
  | OIdStr mx => valize (get_id_string enc mx r)
  | OXKey => unitize (exchange_key_client r)
  | OSSLRecv => valize (ssl_receive_message r)
  end.

Definition opt_bytes_ok (model obsv : option bytes) : bool :=
  match obsv, model with
  | None, _ => true
  | Some a, Some b => bytes_eqb a b
  | Some _, None => false
  end.

Definition cls_ok (model_cls obs_cls : N) : bool :=
  (model_cls =? obs_cls) || ((obs_cls =? 5) && (1 <=? model_cls) && (model_cls <=? 4)).

Definition res_cls {A} (m : mres A) : N :=
  match m with MOk _ => 0 | MErr e => err_cls e | MPanic => 9 end.

Fixpoint run_ops (enc : bool) (r : reader) (ops : list (mop * obs)) : bool :=
  match ops with
  | [] => true
  | (o, ob) :: rest =>
      let '(r', m) := run_op enc r o in
      cls_ok (res_cls m) (o_cls ob)
      && (* after a transport failure the reader state is not compared: Msg.ensure
            keeps the pre-call state, the implementation keeps what it had pulled *)
         (match m with
          | MErr MConn => true
          | _ => (N.of_nat (length (r_in r')) =? o_left ob) && (lenN (r_buf r') =? o_buf ob)
          end)
      && match m with
         | MOk v => opt_bytes_ok v (o_val ob) && run_ops enc r' rest
         | _ => true
         end
  end.

(* ---- wire level: cleartext connection -------------------------------------- *)
Definition no_open : N -> bytes -> bytes -> option bytes := fun _ _ _ => None.
Definition conn_of (data : bytes) : conn := {| c_in := data; c_alloc := 0 |}.

(* frames the stream will deliver before it fails, and the bytes consumed by
   then (including the failing attempt) *)
Fixpoint wire_parse (fuel : nat) (k : N) (c : conn) (total : N) : list (mframe * N) * N :=
  match fuel with
  | O => ([], total - lenN (c_in c))
  | S f =>
      match recv_frame false no_open k c with
      | (c1, FOk (d, flag)) =>
          let '(fs, fin) := wire_parse f (N.succ k) c1 total in
          (((d, negb (flag =? 0)), total - lenN (c_in c1)) :: fs, fin)
      | (c1, _) => ([], total - lenN (c_in c1))
      end
  end.

Fixpoint nth_consumed (fs : list (mframe * N)) (pulled : nat) (dflt : N) : N :=
  match pulled, fs with
  | O, _ => dflt
  | S O, (_, e) :: _ => e
  | S p, _ :: r => nth_consumed r p dflt
  | S _, [] => dflt
  end.

Fixpoint run_ops_plain (r : reader) (ops : list mop) : reader * N :=
  match ops with
  | [] => (r, 0)
  | o :: rest =>
      match run_op false r o with
      | (r', MOk _) => run_ops_plain r' rest
      | (r', m) => (r', res_cls m)
      end
  end.

Definition fres_cls {A} (x : fres A) : N := match x with FOk _ => 0 | FErr => 5 | FPanic => 9 end.
Definition fres_val (x : fres (bytes * N)) : option bytes := match x with FOk (d, _) => Some d | _ => None end.

Definition check_wire (data : bytes) (op : wop) (cls consumed : N) (val : option bytes) : bool :=
  let c := conn_of data in
  let total := lenN data in
  match op with
  | WFrame =>
      let '(c1, x) := recv_frame false no_open 0 c in
      cls_ok (fres_cls x) cls && (total - lenN (c_in c1) =? consumed) && opt_bytes_ok (fres_val x) val
  | WStart =>
      let '(c1, x) := read_next_frame false no_open 0 c in
      cls_ok (fres_cls x) cls && (total - lenN (c_in c1) =? consumed) && opt_bytes_ok (fres_val x) val
  | WComplete =>
      let '(c1, x) := receive_complete_message false no_open 0 c in
      cls_ok (fres_cls x) cls && (total - lenN (c_in c1) =? consumed) && opt_bytes_ok (fres_val x) val
  | WOps ops =>
      let '(fs, fin) := wire_parse (frames_fuel c) 0 c total in
      let r := reader_of (map fst fs) in
      let '(r', mc) := run_ops_plain r ops in
      let pulled := (length fs - length (r_in r'))%nat in
      let model_consumed := if mc =? 2 then fin else nth_consumed fs pulled 0 in
      cls_ok mc cls && (model_consumed =? consumed)
  end.

(* ---- blob / text parsers ------------------------------------------------------ *)
Fixpoint lookup_last (k : bytes) (kvs : list (bytes * bytes)) (best : option bytes) : option bytes :=
  match kvs with
  | [] => best
  | (k', v) :: r => lookup_last k r (if bytes_eqb k k' then Some v else best)
  end.
Definition kv_agree (model obsv : list (bytes * bytes)) : bool :=
  forallb (fun kv => match lookup_last (fst kv) model None with
                     | Some v => bytes_eqb v (snd kv) | None => false end) obsv
  && forallb (fun kv => match lookup_last (fst kv) obsv None with Some _ => true | None => false end) model.

Fixpoint all2 {A B} (f : A -> B -> bool) (a : list A) (b : list B) : bool :=
  match a, b with
  | [], [] => true
  | x :: a', y :: b' => f x y && all2 f a' b'
  | _, _ => false
  end.

Definition opt_eqb (a b : option bytes) : bool :=
  match a, b with Some x, Some y => bytes_eqb x y | None, None => true | _, _ => false end.

Definition check_case (c : case) : bool :=
  match c with
  | CMsg enc data lens le ops => run_ops enc (reader_of (cut_frames data lens le)) ops
  | CWire data op cls consumed val => check_wire data op cls consumed val
  | CBlob blob acc flags key eiv div ectr dctr sd rd peer =>
      match parse_crypto_state blob with
      | None => false                                     (* model panics; the real code did not *)
      | Some None => negb acc
      | Some (Some (s, _)) =>
          acc && (N.land (cs_flags s) 63 =? flags) && bytes_eqb (cs_key s) key && bytes_eqb (cs_eiv s) eiv
          && bytes_eqb (cs_div s) div && (cs_ectr s =? ectr) && (cs_dctr s =? dctr)
          && bytes_eqb (cs_sd s) sd && bytes_eqb (cs_rd s) rd && bytes_eqb (cs_peer s) peer
      end
  | CClaim s sid info key =>
      match parse_claim_id_strict s with
      | Some (a, b, c') => bytes_eqb a sid && bytes_eqb b info && bytes_eqb c' key
      | None => false
      end
  | CAttrs s kvs =>
      match import_session_info_attributes s with
      | Some m => kv_agree m kvs
      | None => false
      end
  | CVersion s ok maj mn sub al =>
      match version_parse s with
      | None => negb ok
      | Some (a, b, c') => ok && Z.eqb a maj && Z.eqb b mn && Z.eqb c' sub
                           && Bool.eqb (at_least (a, b, c') (9, 9, 0)%Z) al
                           && Bool.eqb (built_since (a, b, c') (9, 9, 0)%Z) al
      end
  | CSinful s err primary host port sock pa pn alias noudp addrs ccb params =>
      match parse_sinful s with
      | None => false                                    (* model panics; the real code did not *)
      | Some r =>
          Bool.eqb (sf_err r) err && bytes_eqb (sf_primary r) primary && bytes_eqb (sf_host r) host
          && bytes_eqb (sf_port r) port && bytes_eqb (sf_sock r) sock && bytes_eqb (sf_priv_addr r) pa
          && bytes_eqb (sf_priv_net r) pn && bytes_eqb (sf_alias r) alias && Bool.eqb (sf_noudp r) noudp
          && all2 bytes_eqb (sf_addrs r) addrs
          && all2 (fun x y => bytes_eqb (fst (fst x)) (fst (fst y)) && bytes_eqb (snd (fst x)) (snd (fst y))
                              && bytes_eqb (snd x) (snd y)) (sf_ccb r) ccb
          && kv_agree (sf_params r) params
      end
  | CHtAddr s server id is_sp idv =>
      match parse_htcondor_address s with
      | None => false
      | Some i => bytes_eqb (sp_server i) server && bytes_eqb (sp_id i) id && Bool.eqb (sp_is i) is_sp
                  && Bool.eqb (is_valid_shared_port_id (sp_id i)) idv
      end
  | CSpId s v => Bool.eqb (is_valid_shared_port_id s) v
  | CCcbSplit s ok broker id nested =>
      match split_ccb_contact s with
      | None => false
      | Some None => negb ok
      | Some (Some (b, i)) => ok && bytes_eqb b broker && bytes_eqb i id && Bool.eqb (broker_is_ccb b) nested
      end
  | CBrokerList s out => all2 bytes_eqb (split_broker_list s) out
  | CFlat s ok entry id route =>
      match split_flat_entry_and_route s with
      | None => false
      | Some None => negb ok
      | Some (Some (e, i, r)) => ok && bytes_eqb e entry && bytes_eqb i id && bytes_eqb r route
      end
  | CContact b n out ok rb rid =>
      bytes_eqb (contact_string b n) out
      && match split_ccb_contact (contact_string b n) with
         | None => false
         | Some None => negb ok
         | Some (Some (b', i)) => ok && bytes_eqb b' rb && bytes_eqb i rid
         end
  | CPassSock inp cls consumed =>
      let '(res, st) := read_pass_sock_header inp in
      (match res with PsOk => 0 | PsErr PsShort => 1 | PsErr _ => 4 | PsPanic => 9 end =? cls)
      && (lenN inp - lenN (ps_in st) =? consumed)
  | CPassSockWrite out => bytes_eqb write_pass_sock_header out
  | CWatchReq adtype constraint cursor ok t c cur =>
      match decode_request {| wa_type := adtype; wa_constraint := constraint; wa_cursor := cursor |} with
      | WOk (t', c', cur') => ok && bytes_eqb t' t && bytes_eqb c' c && bytes_eqb cur' cur
      | WErr => negb ok
      | WPanic => false
      end
  | CWatchHdr kind key cursor ok k key' cur' =>
      match decode_header {| wh_kind := kind; wh_key := key; wh_cursor := cursor |} with
      | WOk (k0, key0, cur0) => ok && Z.eqb k0 k && bytes_eqb key0 key' && bytes_eqb cur0 cur'
      | WErr => negb ok
      | WPanic => false
      end
  | CWatchEncReq adtype constraint cursor t' c' cur' =>
      let ad := encode_request adtype constraint cursor in
      opt_eqb (wa_type ad) t' && opt_eqb (wa_constraint ad) c' && opt_eqb (wa_cursor ad) cur'
  | CWatchEncHdr kind key cursor k' key' cur' =>
      let ad := encode_header kind key cursor in
      match wh_kind ad, k' with Some a, Some b => Z.eqb a b | None, None => true | _, _ => false end
      && opt_eqb (wh_key ad) key' && opt_eqb (wh_cursor ad) cur'
  end.

Fixpoint mism (i : nat) (cs : list case) : list nat :=
  match cs with
  | [] => []
  | c :: r => if check_case c then mism (S i) r else i :: mism (S i) r
  end.
Definition mismatches (cs : list case) : list nat := mism 0 cs.
