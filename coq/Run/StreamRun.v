(* Run/StreamRun.v — executable comparator shared by the stream-level
   properties C01, C02, C12, C15 (and the stream part of C04/C09).
   A case is a scripted two-endpoint session: setup, then steps; every step
   carries what the real cedar Streams were observed to do. *)
From Coq Require Import List NArith ZArith Bool.
From Cedar Require Export Lib.Bytes Lib.Sym gen.Consts Model.Frame Model.FrameSpec Model.File.
Import ListNotations.
Local Open Scope N_scope.

Inductive xbytes := XB (bs : bytes) | XD (d : N * N * bytes * bytes).
Definition dig_eqb (a b : N * N * bytes * bytes) : bool :=
  let '(l1, s1, h1, t1) := a in let '(l2, s2, h2, t2) := b in
  (l1 =? l2) && (s1 =? s2) && bytes_eqb h1 h2 && bytes_eqb t1 t2.
Definition xmatch (m : bytes) (x : xbytes) : bool :=
  match x with XB bs => bytes_eqb m bs | XD d => dig_eqb (digestN m) d end.

(* an observed wire frame, as parsed and opened by the harness's reference codec *)
Inductive xw :=
| XW (flag len : N) (iv : option bytes) (enc : bool) (nonce : bytes) (first : bool)
     (sd rd : option xbytes)    (* first-frame AAD digests: None = zero block, Some = hash of these cleartext bytes *)
     (pt : xbytes).

Definition dmatch (d : digest) (x : option xbytes) : bool :=
  match d, x with
  | DZero, None => true
  | DHash bs, Some xb => xmatch bs xb
  | _, _ => false
  end.
Definition opt_bytes_eqb (a b : option bytes) : bool :=
  match a, b with
  | None, None => true
  | Some x, Some y => bytes_eqb x y
  | _, _ => false
  end.

Definition frame_matches (k : bytes) (f : frame) (x : xw) : bool :=
  match x with
  | XW flag len iv enc nonce first sd rd pt =>
      (f_flag f =? flag) && (body_len (f_body f) =? len) &&
      match f_body f with
      | Raw bs => negb enc && xmatch bs pt
      | Ct fiv (Seal k' n a p) =>
          enc && opt_bytes_eqb fiv iv && bytes_eqb k' k && bytes_eqb n nonce && xmatch p pt &&
          match a with
          | AadFirst d1 d2 h => first && dmatch d1 sd && dmatch d2 rd && bytes_eqb h (hdr_of flag len)
          | AadHdr h => negb first && bytes_eqb h (hdr_of flag len)
          end
      end
  end.
Fixpoint all2 {A B} (f : A -> B -> bool) (a : list A) (b : list B) : bool :=
  match a, b with
  | [], [] => true
  | x :: a', y :: b' => f x y && all2 f a' b'
  | _, _ => false
  end.

(* receiver operations *)
Inductive rop := RComplete | RFrameWE | RFrame | RStart | RRead (n : N) | REnd | RMsgAll | RSecret | RGetFile.
Inductive rres := ROk (x : xbytes) (flag : N) | ROkU | RErr.

Fixpoint recv_msg_all (s : stream) (acc : bytes) (fs : list frame) : stream * sres bytes * list frame :=
  match fs with
  | [] => (s, SErr EEOF, [])
  | f :: r =>
      match recv_frame_we s f with
      | (s1, SOk (d, fl)) =>
          if fl =? 0 then recv_msg_all s1 (acc ++ d) r else (s1, SOk (acc ++ d), r)
      | (s1, SErr e) => (s1, SErr e, r)
      end
  end.

(* model result of one receive op: (state, remaining frames, outcome) ; flag 255 = not applicable *)
Inductive mres := MBytes (b : bytes) (flag : N) | MUnit | MFail.
Definition run_rop (s : stream) (fs : list frame) (o : rop) : stream * list frame * mres :=
  match o with
  | RComplete => match recv_complete s [] fs with
                 | (s1, SOk b, r) => (s1, r, MBytes b 255) | (s1, SErr _, r) => (s1, r, MFail) end
  | RMsgAll => match recv_msg_all s [] fs with
               | (s1, SOk b, r) => (s1, r, MBytes b 255) | (s1, SErr _, r) => (s1, r, MFail) end
  | RFrameWE => match fs with
                | [] => (s, [], MFail)
                | f :: r => match recv_frame_we s f with
                            | (s1, SOk (d, fl)) => (s1, r, MBytes d fl) | (s1, SErr _) => (s1, r, MFail) end
                end
  | RFrame => match fs with
              | [] => (s, [], MFail)
              | f :: r => match recv_frame s f with
                          | (s1, SOk d) => (s1, r, MBytes d 255) | (s1, SErr _) => (s1, r, MFail) end
              end
  | RSecret =>   (* GetSecret: prepare_crypto_for_secret; ReceiveFrame; strip one trailing NUL; restore *)
      let s0 := prepare_secret s in
      match fs with
      | [] => (restore_secret s0, [], MFail)
      | f :: r => match recv_frame s0 f with
                  | (s1, SOk d) =>
                      let d' := match rev' d with
                                | l :: t => if byte_eqb l x00 then rev' t else d
                                | [] => d
                                end in
                      (restore_secret s1, r, MBytes d' 255)
                  | (s1, SErr _) => (restore_secret s1, r, MFail)
                  end
      end
  | RStart => match start_read s fs with
              | (s1, SOk _, r) => (s1, r, MUnit) | (s1, SErr _, r) => (s1, r, MFail) end
  | RRead n => match read_bytes s n fs with
               | (s1, SOk b, r) => (s1, r, MBytes b 255) | (s1, SErr _, r) => (s1, r, MFail) end
  | RGetFile => match get_file s fs with
                | (s1, SOk b, r) => (s1, r, MBytes b 255) | (s1, SErr _, r) => (s1, r, MFail) end
  | REnd => match end_read s with
            | (s1, SOk _) => (s1, fs, MUnit) | (s1, SErr _) => (s1, fs, MFail) end
  end.
Definition res_matches (m : mres) (x : rres) : bool :=
  match m, x with
  | MBytes b fl, ROk xb xfl => xmatch b xb && (fl =? xfl)
  | MUnit, ROkU => true
  | MFail, RErr => true
  | _, _ => false
  end.
(* compare every executed receive op with the model's; the executor stops at the first failure
   unless the step asks it to read on (frame-level reads after a failed decryption, which
   consumes the whole frame on both sides); returns the frames not yet consumed *)
Fixpoint run_rops (s : stream) (fs : list frame) (ops : list rop) (obs : list rres) : stream * list frame * bool :=
  match ops, obs with
  | [], [] => (s, fs, true)
  | o :: ops', x :: obs' =>
      let '(s1, r, m) := run_rop s fs o in
      if res_matches m x then run_rops s1 r ops' obs'
      else (s1, r, false)
  | _, _ => (s, fs, false)
  end.

(* frames handed to the receiver after an on-path edit *)
Inductive eframe :=
| EGen (j : nat) (flag : N)       (* body of the j-th frame ever sent in this direction, under header flag *)
| EOther (j : nat) (flag : N)     (* body of the j-th frame ever sent in the OTHER direction (reflection) *)
| ERaw (flag : N) (bs : bytes).    (* any other bytes *)
Definition realize (hist other : list frame) (e : eframe) : frame :=
  match e with
  | EGen j flag => {| f_flag := flag; f_body := match nth_error hist j with Some f => f_body f | None => Raw [] end |}
  | EOther j flag => {| f_flag := flag; f_body := match nth_error other j with Some f => f_body f | None => Raw [] end |}
  | ERaw flag bs => {| f_flag := flag; f_body := Raw bs |}
  end.

Inductive setup :=
| SPlain
| SKeyed (k ivA ivB : bytes) (preAB preBA : list bytes)   (* cleartext messages each way, then SetSymmetricKey on both *)
| SBlobs (a b : blob)                                      (* both ends built by NewStreamWithCryptoState *)
| SRelay (k ivA ivB : bytes)                               (* cleartext phase through an editing relay, then keys *)
         (sentAB : list bytes) (seenAB : list (N * bytes))   (* A sends messages; B is handed these (flag, payload) frames *)
         (sentBA : list bytes) (seenBA : list (N * bytes))
| SRelayX (opts : N)                                       (* SRelay with, on both ends: bit 0 SetConnection between the two legs, *)
         (k ivA ivB : bytes)                               (* bit 1 FinalizeDigests before the keys, bit 2 SetConnection before the keys *)
         (sentAB : list bytes) (seenAB : list (N * bytes))
         (sentBA : list bytes) (seenBA : list (N * bytes)).

Inductive step :=
| StPhase (a_sends : bool) (sops : list sop) (serr : list N) (wire : option (list xw))   (* None: wire not compared *)
          (edit : option (list eframe)) (rops : list rop) (rres : list rres)
| StHandoff (who_a : bool) (ok : bool)       (* ExportCryptoState then NewStreamWithCryptoState on the same connection *)
| StCrypto (who_a : bool) (on : bool) (ok : bool)    (* SetCryptoMode on the receiving side too *)
| StRekey (k ivA ivB : bytes) (ok : bool).            (* SetSymmetricKey again on both ends, with the IVs drawn *)

Inductive case := CPair (su : setup) (steps : list step).

(* both ends, plus every frame ever sent per direction (for replays) *)
Record world := { wa : stream; wb : stream; hab : list frame; hba : list frame; wkey : bytes;
                  pab : list frame; pba : list frame (* sent, not yet read *) }.

Fixpoint send_clear (s r : stream) (msgs : list bytes) : stream * stream * bool :=
  match msgs with
  | [] => (s, r, true)
  | m :: rest =>
      match send_frame s m EndFlagComplete with
      | (s1, SOk f) =>
          match recv_complete r [] [f] with
          | (r1, SOk _, _) => send_clear s1 r1 rest
          | _ => (s1, r, false)
          end
      | (s1, SErr _) => (s1, r, false)
      end
  end.

Fixpoint send_only (s : stream) (msgs : list bytes) : stream * bool :=
  match msgs with
  | [] => (s, true)
  | m :: rest => match send_frame s m EndFlagComplete with
                 | (s1, SOk _) => send_only s1 rest
                 | (s1, SErr _) => (s1, false)
                 end
  end.
Fixpoint recv_raw (r : stream) (fs : list (N * bytes)) : stream * bool :=
  match fs with
  | [] => (r, true)
  | (fl, d) :: rest => match recv_frame_we r {| f_flag := fl; f_body := Raw d |} with
                       | (r1, SOk _) => recv_raw r1 rest
                       | (r1, SErr _) => (r1, false)
                       end
  end.

Definition init_world (su : setup) : option world :=
  match su with
  | SPlain => Some {| wa := new_stream; wb := new_stream; hab := []; hba := []; wkey := []; pab := []; pba := [] |}
  | SKeyed k ivA ivB preAB preBA =>
      let '(a1, b1, ok1) := send_clear new_stream new_stream preAB in
      let '(b2, a2, ok2) := send_clear b1 a1 preBA in
      match set_key a2 k ivA, set_key b2 k ivB with
      | SOk a3, SOk b3 => if ok1 && ok2 then Some {| wa := a3; wb := b3; hab := []; hba := []; wkey := k; pab := []; pba := [] |} else None
      | _, _ => None
      end
  | SRelay k ivA ivB sentAB seenAB sentBA seenBA =>
      let '(a1, ok1) := send_only new_stream sentAB in
      let '(b1, ok2) := recv_raw new_stream seenAB in
      let '(b2, ok3) := send_only b1 sentBA in
      let '(a2, ok4) := recv_raw a1 seenBA in
      match set_key a2 k ivA, set_key b2 k ivB with
      | SOk a3, SOk b3 => if ok1 && ok2 && ok3 && ok4
                          then Some {| wa := a3; wb := b3; hab := []; hba := []; wkey := k; pab := []; pba := [] |} else None
      | _, _ => None
      end
  | SRelayX opts k ivA ivB sentAB seenAB sentBA seenBA =>
      let swap (on : bool) (s : stream) := if on then set_connection s (peer_addr s) else s in
      let fin (on : bool) (s : stream) := if on then finalize_digests s else s in
      let '(a1, ok1) := send_only new_stream sentAB in
      let '(b1, ok2) := recv_raw new_stream seenAB in
      let a1 := swap (N.testbit opts 0) a1 in
      let b1 := swap (N.testbit opts 0) b1 in
      let '(b2, ok3) := send_only b1 sentBA in
      let '(a2, ok4) := recv_raw a1 seenBA in
      let a2 := fin (N.testbit opts 1) (swap (N.testbit opts 2) a2) in
      let b2 := fin (N.testbit opts 1) (swap (N.testbit opts 2) b2) in
      match set_key a2 k ivA, set_key b2 k ivB with
      | SOk a3, SOk b3 => if ok1 && ok2 && ok3 && ok4
                          then Some {| wa := a3; wb := b3; hab := []; hba := []; wkey := k; pab := []; pba := [] |} else None
      | _, _ => None
      end
  | SBlobs ba bb =>
      match import_state ba [], import_state bb [] with
      | SOk a, SOk b => Some {| wa := a; wb := b; hab := []; hba := []; wkey := b_key ba; pab := []; pba := [] |}
      | _, _ => None
      end
  end.

Definition eqb_list_N (a b : list N) : bool := all2 N.eqb a b.

Definition run_step (w : world) (st : step) : world * bool :=
  match st with
  | StPhase a_sends sops serr wire edit rops rres =>
      let snd_s := if a_sends then wa w else wb w in
      let rcv_s := if a_sends then wb w else wa w in
      let hist := if a_sends then hab w else hba w in
      let '(s1, errs, fs) := run_sops snd_s sops in
      let hist1 := hist ++ fs in
      let ok_send := eqb_list_N errs serr &&
                     match wire with Some ws => all2 (frame_matches (wkey w)) fs ws | None => true end in
      let pend := if a_sends then pab w else pba w in
      let other := if a_sends then hba w else hab w in
      let rfs := match edit with None => pend ++ fs | Some es => map (realize hist1 other) es end in
      let '(r1, lft, ok_recv) := run_rops rcv_s rfs rops rres in
      (if a_sends
       then {| wa := s1; wb := r1; hab := hist1; hba := hba w; wkey := wkey w; pab := lft; pba := pba w |}
       else {| wa := r1; wb := s1; hab := hab w; hba := hist1; wkey := wkey w; pab := pab w; pba := lft |},
       ok_send && ok_recv)
  | StHandoff who_a ok =>
      let s := if who_a then wa w else wb w in
      match export_state s with
      | SOk b =>
          match import_state b (peer_addr s) with
          | SOk s' =>
              (if who_a then {| wa := s'; wb := wb w; hab := hab w; hba := hba w; wkey := wkey w; pab := pab w; pba := pba w |}
               else {| wa := wa w; wb := s'; hab := hab w; hba := hba w; wkey := wkey w; pab := pab w; pba := pba w |}, ok)
          | SErr _ => (w, negb ok)
          end
      | SErr _ => (w, negb ok)
      end
  | StCrypto who_a on ok =>
      let s := if who_a then wa w else wb w in
      let '(s', e, _) := run_sop s (OSetCrypto on) in
      (if who_a then {| wa := s'; wb := wb w; hab := hab w; hba := hba w; wkey := wkey w; pab := pab w; pba := pba w |}
       else {| wa := wa w; wb := s'; hab := hab w; hba := hba w; wkey := wkey w; pab := pab w; pba := pba w |},
       Bool.eqb (e =? 0) ok)
  | StRekey k ivA ivB ok =>
      match set_key (wa w) k ivA, set_key (wb w) k ivB with
      | SOk a, SOk b =>
          (* hypothesis of C12_rekey_nonce_unique, checked on the run: a new key, or base IVs that
             differ from the previous ones beyond the counter word *)
          let fresh (old new : bytes) := negb (bytes_eqb (skipn 4 old) (skipn 4 new)) in
          ({| wa := a; wb := b; hab := hab w; hba := hba w; wkey := k; pab := pab w; pba := pba w |},
           ok && (negb (bytes_eqb k (wkey w)) || (fresh (enc_iv (wa w)) ivA && fresh (enc_iv (wb w)) ivB)))
      | _, _ => (w, negb ok)
      end
  end.

Fixpoint run_steps (w : world) (sts : list step) : bool :=
  match sts with
  | [] => true
  | st :: r => let '(w1, ok) := run_step w st in ok && run_steps w1 r
  end.

Definition check_case (c : case) : bool :=
  match c with
  | CPair su steps => match init_world su with Some w => run_steps w steps | None => false end
  end.

Fixpoint mism (i : nat) (cs : list case) : list nat :=
  match cs with
  | [] => []
  | c :: r => if check_case c then mism (S i) r else i :: mism (S i) r
  end.
Definition mismatches (cs : list case) : list nat := mism 0 cs.
