(* Run/C16.v — executable comparator for the C16 correspondence: every case carries
   the input given to the real cedar function and the projected observables it
   produced; check_case evaluates the model (Model/ClaimId.v) on the same input. *)
From Coq Require Import List NArith ZArith Bool.
From Cedar Require Export Lib.Bytes Lib.SymC16 Model.ClaimId.
Import ListNotations.

(* observed expiry: the zero time, or unix seconds + nanoseconds *)
Inductive oexp := OXNone | OXAt (secs nsec : Z).

Record oentry := {
  o_id : bytes; o_addr : bytes; o_key : key; o_proto : bytes; o_policy : policy;
  o_exp : oexp; o_lease : Z; o_tag : bytes; o_inh : bool }.

Inductive case :=
(* ParseClaimIDStrict: sessionID, sessionInfo, sessionKey fields, SecSessionID(), PublicClaimID();
   ParseClaimID: the three fields and PublicClaimID() *)
| CParse (claim : bytes) (sid info key secsid pub : bytes) (lsid linfo lkey lpub : bytes)
(* ImportSessionInfoAttributes: the map sorted by key; None = panic *)
| CAttrs (info : bytes) (obs : option (list (bytes * bytes)))
(* ExportSecSessionInfo: None = error *)
| CExport (p : policy) (obs : option bytes)
(* ImportSecSessionInfo: None = error *)
| CImportInfo (info : bytes) (obs : option policy)
| CShort (v : bytes) (obs : bytes)
(* deriveSessionKey *)
| CKey (secret : bytes) (len : N) (obs : option key)
(* deriveClaimKeyInfo: None = error *)
| CClaimKey (p : policy) (secret : bytes) (obs : option (key * bytes))
(* a sequence of imports into ONE cache (starting empty), then the entry filed under [id] *)
| CSeq (steps : list (bool * bytes * import_opts)) (id : bytes) (lo hi : Z) (obs : option oentry)
       (cmds : list (bytes * bytes))      (* the whole command map afterwards: key, session id *)
(* strconv round trip used by the expiry: claimExpiration on a policy holding SessionExpires = s *)
| CExpiry (s : bytes) (fallback_ns : Z) (lo hi : Z) (obs : oexp)
(* MintClaimSession; [sess_exp] is the SessionExpires integer found in the claim text (0 if none),
   [lo],[hi] bracket the wall clock (ns) around the call *)
| CMint (o : mint_opts) (secret : bytes) (sess_exp lo hi : Z)
        (obs : option (bytes * bytes * bytes * oentry * list bytes))
(* ImportClaimSession (ft = false) / ImportFileTransferSession (ft = true) *)
| CImport (ft : bool) (claim : bytes) (o : import_opts) (lo hi : Z)
          (obs : option (bytes * oentry * list bytes)).

Definition pval_eqb (a b : pval) : bool :=
  match a, b with
  | PStr x, PStr y => bytes_eqb x y
  | PInt x, PInt y => Z.eqb x y
  | PBool x, PBool y => Bool.eqb x y
  | _, _ => false
  end.

(* observed attribute lists have distinct names (they come out of a map) *)
Definition policy_eqb (model obs : policy) : bool :=
  Nat.eqb (length model) (length obs)
  && forallb (fun kv => match plookup (fst kv) model with
                        | Some v => pval_eqb v (snd kv)
                        | None => false
                        end) obs.
Definition smap_eqb (model obs : smap) : bool :=
  Nat.eqb (length model) (length obs)
  && forallb (fun kv => match slookup (fst kv) model with
                        | Some v => bytes_eqb v (snd kv)
                        | None => false
                        end) obs.

Definition mem_bytes (x : bytes) (l : list bytes) : bool := existsb (bytes_eqb x) l.
Definition set_eqb (a b : list bytes) : bool :=
  forallb (fun x => mem_bytes x b) a && forallb (fun x => mem_bytes x a) b.

Definition mem_pair (x : bytes * bytes) (l : list (bytes * bytes)) : bool :=
  existsb (fun y => bytes_eqb (fst x) (fst y) && bytes_eqb (snd x) (snd y)) l.
Definition pairs_eqb (a b : list (bytes * bytes)) : bool :=
  forallb (fun x => mem_pair x b) a && forallb (fun x => mem_pair x a) b.

Definition exp_matches (m : expiry) (o : oexp) (lo hi : Z) : bool :=
  match m, o with
  | ExpNone, OXNone => true
  | ExpAbs s, OXAt s' n => Z.eqb s s' && Z.eqb n 0
  | ExpRel d, OXAt s n =>
      let t := (s * ns_per_s + n)%Z in (lo + d <=? t)%Z && (t <=? hi + d)%Z
  | _, _ => false
  end.

Definition entry_matches (m : entry) (o : oentry) (lo hi : Z) : bool :=
  bytes_eqb (e_id m) (o_id o) && bytes_eqb (e_addr m) (o_addr o)
  && key_eqb (e_key m) (o_key o) && bytes_eqb (e_proto m) (o_proto o)
  && policy_eqb (e_policy m) (o_policy o)
  && exp_matches (e_expiry m) (o_exp o) lo hi
  && Z.eqb (e_lease m) (o_lease o) && bytes_eqb (e_tag m) (o_tag o)
  && Bool.eqb (e_inherited m) (o_inh o).

Definition parsed_matches (p : parsed) (sid info key : bytes) : bool :=
  bytes_eqb (c_sid p) sid && bytes_eqb (c_info p) info && bytes_eqb (c_key p) key.

Definition check_case (c : case) : bool :=
  match c with
  | CParse claim sid info key secsid pub lsid linfo lkey lpub =>
      let p := parse_strict claim in
      let l := parse_loose claim in
      parsed_matches p sid info key && bytes_eqb (sec_session_id p) secsid
      && bytes_eqb (public_of_parsed p) pub
      && parsed_matches l lsid linfo lkey && bytes_eqb (public_of_parsed l) lpub
  | CAttrs info obs =>
      match obs with
      | Some m => smap_eqb (import_attrs info) m
      | None => false      (* the modelled (fixed) code never panics *)
      end
  | CExport p obs =>
      match export_info p, obs with
      | Ok s, Some s' => bytes_eqb s s'
      | Err, None => true
      | _, _ => false
      end
  | CImportInfo info obs =>
      match import_info info, obs with
      | Ok p, Some p' => policy_eqb p p'
      | Err, None => true
      | _, _ => false
      end
  | CShort v obs => bytes_eqb (short_version v) obs
  | CKey secret len obs =>
      match derive_session_key secret len, obs with
      | Ok k, Some k' => key_eqb k k'
      | Err, None => true
      | _, _ => false
      end
  | CClaimKey p secret obs =>
      match derive_claim_key p secret, obs with
      | Ok (k, proto), Some (k', proto') => key_eqb k k' && bytes_eqb proto proto'
      | Err, None => true
      | _, _ => false
      end
  | CSeq steps id lo hi obs cmds =>
      let s := import_seq steps cstate_empty in
      pairs_eqb (cs_cmds s) cmds &&
      match cache_lookup id (cs_entries s), obs with
      | Some e, Some e' => entry_matches e e' lo hi
      | None, None => true
      | _, _ => false
      end
  | CExpiry s fb lo hi obs =>
      exp_matches (claim_expiration [(A_SessionExpires, PStr s)] fb) obs lo hi
  | CMint o secret sess_exp lo hi obs =>
      let l := mo_lifetime_ns o in
      let timed := (0 <? l)%Z in
      let now := if timed then (sess_exp * ns_per_s - l)%Z else lo in
      let window_ok := if timed
                       then (expires_at lo l <=? sess_exp)%Z && (sess_exp <=? expires_at hi l)%Z
                       else true in
      match mint o secret now, obs with
      | Ok m, Some (claim, pub, sid, e, cmds) =>
          window_ok && bytes_eqb (m_claim m) claim && bytes_eqb (m_public m) pub
          && bytes_eqb (m_sid m) sid && entry_matches (m_entry m) e lo hi
          && set_eqb (m_cmds m) cmds
      | Err, None => true
      | _, _ => false
      end
  | CImport ft claim o lo hi obs =>
      match (if ft then import_ft claim o else import_claim claim o), obs with
      | Ok (sid, e, cmds), Some (sid', e', cmds') =>
          bytes_eqb sid sid' && entry_matches e e' lo hi && set_eqb cmds cmds'
      | Err, None => true
      | _, _ => false
      end
  end.

Fixpoint mism (i : nat) (cs : list case) : list nat :=
  match cs with
  | [] => []
  | c :: r => if check_case c then mism (S i) r else i :: mism (S i) r
  end.
Definition mismatches (cs : list case) : list nat := mism 0 cs.
