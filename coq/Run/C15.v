(* Run/C15.v — stream-level hand-off cases (shared comparator) plus blob parser/serialiser cases. *)
From Coq Require Import List NArith Bool.
From Cedar Require Export Run.StreamRun Model.Blob.
Import ListNotations.
Local Open Scope N_scope.

Module SR := Cedar.Run.StreamRun.

Inductive case :=
| CS (c : SR.case)
(* NewStreamWithCryptoState on arbitrary bytes: observed rejection, or the fields it installed
   (flags masked to the six known bits; peer = "" when the blob's peer field is empty) *)
| CParse (bs : bytes) (obs : option rawblob)
(* ExportCryptoState: the observed blob bytes for the given field values *)
| CSer (b : rawblob) (obs : bytes).

Definition rb_eqb (a b : rawblob) : bool :=
  (N.land (rb_flags a) 63 =? N.land (rb_flags b) 63) && bytes_eqb (rb_key a) (rb_key b) &&
  bytes_eqb (rb_eiv a) (rb_eiv b) && bytes_eqb (rb_div a) (rb_div b) &&
  (rb_ectr a =? rb_ectr b) && (rb_dctr a =? rb_dctr b) &&
  bytes_eqb (rb_sdg a) (rb_sdg b) && bytes_eqb (rb_rdg a) (rb_rdg b) && bytes_eqb (rb_peer a) (rb_peer b).

Definition check_case (c : case) : bool :=
  match c with
  | CS c0 => SR.check_case c0
  | CParse bs obs =>
      match parse bs, obs with
      | None, None => true
      | Some a, Some b => rb_eqb a b
      | _, _ => false
      end
  | CSer b obs => bytes_eqb (ser b) obs
  end.

Fixpoint mism (i : nat) (cs : list case) : list nat :=
  match cs with
  | [] => []
  | c :: r => if check_case c then mism (S i) r else i :: mism (S i) r
  end.
Definition mismatches (cs : list case) : list nat := mism 0 cs.
