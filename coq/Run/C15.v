(* Run/C15.v *)
From Cedar Require Export Run.StreamRun.
