(* Run/C09.v — executable comparator for the C09 correspondence. *)
From Coq Require Import List NArith ZArith Bool.
From Cedar Require Import Lib.Bytes gen.Consts Model.Msg Model.Privacy Model.AdWire.
Import ListNotations.
Local Open Scope N_scope.

(* an observed frame: sealed?, eom, plaintext payload as handed to Stream.WriteFrame *)
Definition oframe := (bool * bool * bytes)%type.

Inductive case :=
(* classad.IsPrivateAttributeV1 / V2 on one name *)
| CPriv (name : bytes) (v1 v2 : bool)
(* the real filter functions: names in, names kept out *)
| CFilter (opts : N) (wl enc_attrs : list bytes) (peer : option (Z * Z * Z)) (names : list bytes) (kept : list bytes)
(* the two filter functions called directly (hook): wl = None -> filterAttributesByPrivacy *)
| CFilterRaw (exP exV2 : bool) (wl : option (list bytes)) (enc_attrs : list bytes) (names kept : list bytes)
(* the real serialiser on a real Stream in state (key, enc): frames written *)
| CPut (key enc : bool) (opts : N) (wl enc_attrs : list bytes) (peer : option (Z * Z * Z))
       (attrs : list (bytes * bytes)) (mytype targettype : bytes) (observed : list oframe)
(* GetClassAdRaw of the peer on those frames: expression strings and type names, or failure *)
| CRecv (key enc : bool) (frames : list oframe) (observed : option (list bytes * bytes * bytes)).

Definition mkcfg opts wl ea peer : config :=
  {| c_opts := opts; c_whitelist := wl; c_enc_attrs := ea; c_peer := peer |}.

Fixpoint list_eqb {A} (eqb : A -> A -> bool) (a b : list A) : bool :=
  match a, b with
  | [], [] => true
  | x :: a', y :: b' => eqb x y && list_eqb eqb a' b'
  | _, _ => false
  end.

Definition oframe_eqb (t : tframe) (o : oframe) : bool :=
  let '(sealed, (d, e)) := t in let '(s', e', d') := o in
  Bool.eqb sealed s' && Bool.eqb e e' && bytes_eqb d d'.
Fixpoint all2 {A B} (f : A -> B -> bool) (a : list A) (b : list B) : bool :=
  match a, b with
  | [], [] => true
  | x :: a', y :: b' => f x y && all2 f a' b'
  | _, _ => false
  end.

Definition to_tframe (o : oframe) : tframe := let '(s, e, d) := o in (s, (d, e)).

Definition check_case (c : case) : bool :=
  match c with
  | CPriv name v1 v2 => Bool.eqb (is_private_v1 name) v1 && Bool.eqb (is_private_v2 name) v2
  | CFilter opts wl ea peer names kept =>
      list_eqb bytes_eqb (map fst (attrs_to_send (mkcfg opts wl ea peer) (map (fun n => (n, [])) names))) kept
  | CFilterRaw exP exV2 wl ea names kept =>
      let attrs := map (fun n => (n, [])) names in
      list_eqb bytes_eqb
        (map fst match wl with
                 | None => filter_privacy attrs exP exV2 ea
                 | Some w => filter_whitelist attrs w exP exV2 ea
                 end) kept
  | CPut key enc opts wl ea peer attrs my tg obs =>
      let st := s_finish (put_ad (mkcfg opts wl ea peer) (sstate_init key enc)
                  {| ad_attrs := attrs; ad_mytype := my; ad_targettype := tg |}) in
      all2 oframe_eqb (s_frames st) obs
  | CRecv key enc frames obs =>
      match get_ad_raw (treader_of key enc (map to_tframe frames)), obs with
      | (_, MOk (es, my, tg)), Some (es', my', tg') =>
          list_eqb bytes_eqb es es' && bytes_eqb my my' && bytes_eqb tg tg'
      | (_, MErr _), None => true
      | _, _ => false
      end
  end.

Fixpoint mism (i : nat) (cs : list case) : list nat :=
  match cs with
  | [] => []
  | c :: r => if check_case c then mism (S i) r else i :: mism (S i) r
  end.
Definition mismatches (cs : list case) : list nat := mism 0 cs.
