(* Run/C09.v — executable comparator for the C09 correspondence. *)
From Coq Require Import List NArith ZArith Bool.
From Cedar Require Import Lib.Bytes gen.Consts Model.Msg Model.Privacy Model.AdWire.
From Cedar Require Export Model.PrivacySeq.   (* the case files name its constructors *)
Import ListNotations.
Local Open Scope N_scope.

(* one run of the real serialiser on a real Stream in state (key, enc) and of the peer's GetClassAdRaw *)
Record run := {
  r_key : bool; r_enc : bool; r_opts : N;
  r_wl : nat;                        (* index into the case's whitelist table *)
  r_ea : nat;                        (* index into the same table, for EncryptedAttrs *)
  r_peer : option (Z * Z * Z);
  r_frames : list (bool * bool * (N * N * bytes * bytes));   (* sealed, eom, digest of the plaintext payload *)
  (* expression strings GetClassAdRaw returned, as indices into the ad's attributes
     (inl i = "name_i = text_i") or literally, and the two type names; None = it failed *)
  r_recv : option (list (nat + bytes) * bytes * bytes)
}.

Inductive case :=
(* classad.IsPrivateAttributeV1 / V2 on one name *)
| CPriv (name : bytes) (v1 v2 : bool)
(* the two filter functions called directly (hook) on [names]; wl = None -> filterAttributesByPrivacy;
   kept = indices of the names returned *)
| CFilterRaw (names : list bytes) (tbl : list (list bytes))
             (runs : list (bool * bool * option nat * nat * list nat))
(* the whole decision through PutClassAdWithOptions: options, whitelist, EncryptedAttrs, peer -> indices kept *)
| CFilter (names : list bytes) (tbl : list (list bytes))
          (runs : list (N * nat * nat * option (Z * Z * Z) * list nat))
| CAd (attrs : list (bytes * bytes)) (mytype targettype : bytes) (tbl : list (list bytes)) (runs : list run)
(* a history through one Message on a real Stream that starts in state (key, enc): stream-state
   changes, fresh Messages and ad writes (Model/PrivacySeq.v); frames = every frame written, in order *)
| CSeq (key enc : bool) (ops : list sop) (frames : list (bool * bool * (N * N * bytes * bytes))).

(* n copies of a byte string: compact notation for long generated values *)
Definition rep (n : N) (b : bytes) : bytes := concat (repeat b (N.to_nat n)).

Definition mkcfg opts wl ea peer : config :=
  {| c_opts := opts; c_whitelist := wl; c_enc_attrs := ea; c_peer := peer |}.
Definition mkad attrs my tg : ad := {| ad_attrs := attrs; ad_mytype := my; ad_targettype := tg |}.

Fixpoint list_eqb {A} (eqb : A -> A -> bool) (a b : list A) : bool :=
  match a, b with
  | [], [] => true
  | x :: a', y :: b' => eqb x y && list_eqb eqb a' b'
  | _, _ => false
  end.
Fixpoint all2 {A B} (f : A -> B -> bool) (a : list A) (b : list B) : bool :=
  match a, b with
  | [], [] => true
  | x :: a', y :: b' => f x y && all2 f a' b'
  | _, _ => false
  end.

Definition dig_eqb (a b : N * N * bytes * bytes) : bool :=
  let '(l1, s1, h1, t1) := a in let '(l2, s2, h2, t2) := b in
  (l1 =? l2) && (s1 =? s2) && bytes_eqb h1 h2 && bytes_eqb t1 t2.

Definition oframe_eqb (t : tframe) (o : bool * bool * (N * N * bytes * bytes)) : bool :=
  let '(sealed, (d, e)) := t in let '(s', e', dg) := o in
  Bool.eqb sealed s' && Bool.eqb e e' && dig_eqb (digestN d) dg.

Definition tbl_get (tbl : list (list bytes)) (i : nat) : list bytes := nth i tbl [].

(* names tagged with their index, so that a kept list can be compared by index *)
Fixpoint number {A} (i : nat) (l : list A) : list (nat * A) :=
  match l with [] => [] | x :: r => (i, x) :: number (S i) r end.

Definition idx_attrs (names : list bytes) : list attr :=
  map (fun p => (snd p, be_enc 4 (N.of_nat (fst p)))) (number 0 names).
Definition kept_idx (l : list attr) : list nat := map (fun a => N.to_nat (be_dec (snd a))) l.

Definition expr_matches (attrs : list (bytes * bytes)) (m : bytes) (o : nat + bytes) : bool :=
  match o with
  | inl i => match nth_error attrs i with Some a => bytes_eqb m (expr_text a) | None => false end
  | inr b => bytes_eqb m b
  end.

Definition check_run (attrs : list (bytes * bytes)) (my tg : bytes) (tbl : list (list bytes)) (r : run) : bool :=
  let st := s_finish (put_ad (mkcfg (r_opts r) (tbl_get tbl (r_wl r)) (tbl_get tbl (r_ea r)) (r_peer r))
                             (sstate_init (r_key r) (r_enc r))
                             {| ad_attrs := attrs; ad_mytype := my; ad_targettype := tg |}) in
  all2 oframe_eqb (s_frames st) (r_frames r) &&
  match get_ad_raw (treader_of (r_key r) (r_enc r) (s_frames st)), r_recv r with
  | (_, MOk (es, my', tg')), Some (oes, omy, otg) =>
      all2 (expr_matches attrs) es oes && bytes_eqb my' omy && bytes_eqb tg' otg
  | (_, MErr _), None => true
  | _, _ => false
  end.

Definition check_case (c : case) : bool :=
  match c with
  | CPriv name v1 v2 => Bool.eqb (is_private_v1 name) v1 && Bool.eqb (is_private_v2 name) v2
  | CFilterRaw names tbl runs =>
      forallb (fun '(exP, exV2, wl, ea, kept) =>
        list_eqb Nat.eqb
          (kept_idx match wl with
                    | None => filter_privacy (idx_attrs names) exP exV2 (tbl_get tbl ea)
                    | Some w => filter_whitelist (idx_attrs names) (tbl_get tbl w) exP exV2 (tbl_get tbl ea)
                    end) kept) runs
  | CFilter names tbl runs =>
      forallb (fun '(opts, wl, ea, peer, kept) =>
        list_eqb Nat.eqb
          (kept_idx (attrs_to_send (mkcfg opts (tbl_get tbl wl) (tbl_get tbl ea) peer) (idx_attrs names))) kept) runs
  | CAd attrs my tg tbl runs => forallb (check_run attrs my tg tbl) runs
  | CSeq key enc ops frames => all2 oframe_eqb (s_out (run_seq (sstate_init key enc) ops)) frames
  end.

Fixpoint mism (i : nat) (cs : list case) : list nat :=
  match cs with
  | [] => []
  | c :: r => if check_case c then mism (S i) r else i :: mism (S i) r
  end.
Definition mismatches (cs : list case) : list nat := mism 0 cs.
