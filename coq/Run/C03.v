(* Run/C03.v — executable comparator for the C03 correspondence. *)
From Coq Require Import List NArith ZArith Bool.
From Cedar Require Export Model.Negotiate Model.Handshake.
Import ListNotations.
Local Open Scope Z_scope.

Inductive case1 :=
| CCli (c : cfg) (s : sscript) (err auth enc : bool) (m : meth) (ran : list (meth * bool)) (encrypted : bool)
| CSrv (c : cfg) (s : cscript) (err auth enc : bool) (m : meth) (ran : list (meth * bool)) (encrypted : bool)
| CResCli (c : cfg) (k : ekey) (authed : option bool) (rp : rreply) (err auth enc encrypted : bool)
| CResSrv (c : cfg) (k : ekey) (authed : option bool) (want_reply : bool) (err auth enc encrypted : bool).

Fixpoint ran_eqb (a b : list (meth * bool)) : bool :=
  match a, b with
  | [], [] => true
  | (m1, b1) :: a', (m2, b2) :: b' => meth_eqb m1 m2 && Bool.eqb b1 b2 && ran_eqb a' b'
  | _, _ => false
  end.

Definition cmp (o : outcome) (err auth enc : bool) (m : meth) (ran : list (meth * bool)) (encrypted : bool) : bool :=
  match o with
  | Err r => err && ran_eqb r ran
  | Ok r =>
      negb err && Bool.eqb (r_auth r) auth && Bool.eqb (r_enc r) enc
      && meth_eqb (r_meth r) m
      && ran_eqb (g_ran r) ran && Bool.eqb (g_encrypted r) encrypted
  end.

Definition cmp_res (o : outcome) (err auth enc encrypted : bool) : bool :=
  match o with
  | Err _ => err
  | Ok r => negb err && Bool.eqb (r_auth r) auth && Bool.eqb (r_enc r) enc && Bool.eqb (g_encrypted r) encrypted
  end.

Definition check1 (c : case1) : bool :=
  match c with
  | CCli cf s err auth enc m ran e => cmp (client_hs cf s) err auth enc m ran e
  | CSrv cf s err auth enc m ran e => cmp (server_hs cf s) err auth enc m ran e
  | CResCli cf k a rp err auth enc e => cmp_res (client_resume cf (mkE k a) rp) err auth enc e
  | CResSrv cf k a _ err auth enc e => cmp_res (server_resume cf (Some (mkE k a))) err auth enc e
  end.

(* a case of the correspondence run is a small batch of runs (fewer, larger
   case files: Coq's start-up dominates the evaluation time) *)
Definition case := list case1.
Definition check_case (c : case) : bool := forallb check1 c.

Fixpoint mism (i : nat) (cs : list case) : list nat :=
  match cs with
  | [] => []
  | c :: r => if check_case c then mism (S i) r else i :: mism (S i) r
  end.
Definition mismatches (cs : list case) : list nat := mism 0 cs.
