(* Run/C08.v — executable comparator for the C08 correspondence. *)
From Coq Require Import List NArith ZArith Bool.
From Cedar Require Import Lib.Bytes gen.Consts Model.Msg Model.Privacy Model.AdWire Model.Literal.
Import ListNotations.
Local Open Scope N_scope.

(* what the harness can observe of a literal: a real only by kind and sign *)
Inductive olit := OBool (b : bool) | OInt (z : Z) | OReal (neg : bool) | OStr (s : bytes).

Definition lit_matches (m : lit) (o : olit) : bool :=
  match m, o with
  | LBool a, OBool b => Bool.eqb a b
  | LInt a, OInt b => Z.eqb a b
  | LReal n _, OReal n' => Bool.eqb n n'
  | LStr a, OStr b => bytes_eqb a b
  | _, _ => false
  end.
Definition olit_matches (m : option lit) (o : option olit) : bool :=
  match m, o with
  | Some a, Some b => lit_matches a b
  | None, None => true
  | _, _ => false
  end.

(* n copies of a byte string *)
Definition rep (n : N) (b : bytes) : bytes := concat (repeat b (N.to_nat n)).

(* all strings of length n over the alphabet, first symbol varying slowest *)
Fixpoint enum (alphabet : bytes) (n : nat) : list bytes :=
  match n with
  | O => [[]]
  | S k => flat_map (fun c => map (cons c) (enum alphabet k)) alphabet
  end.

(* walk the enumeration; obs lists only the indices where the implementation produced a literal *)
Fixpoint check_enum (f : bytes -> option lit) (strs : list bytes) (i : N) (obs : list (N * olit)) : bool :=
  match strs with
  | [] => match obs with [] => true | _ => false end
  | s :: r =>
      match obs with
      | (j, o) :: obs' =>
          if j =? i then olit_matches (f s) (Some o) && check_enum f r (i + 1) obs'
          else olit_matches (f s) None && check_enum f r (i + 1) obs
      | [] => olit_matches (f s) None && check_enum f r (i + 1) []
      end
  end.

Record wrun := {
  w_key : bool; w_enc : bool;
  w_frames : list (bool * bool * (N * N * bytes * bytes));   (* sealed, eom, digest of the plaintext *)
  w_raw_ok : bool; w_get_ok : bool; w_skip_ok : bool          (* receiver succeeded and then read the trailer *)
}.

Inductive case :=
(* tryInsertLiteral (hook) and parser.ParseExpr on prefix ++ every string of length n over the alphabet *)
| CEnum (alphabet prefix : bytes) (n : nat) (obs_try obs_lex : list (N * olit))
(* one text: ovf = ParseFloat range error; two_sided = lex_literal claims completeness on this text *)
| CLit (s : bytes) (ovf : bool) (obs_try obs_lex : option olit) (two_sided : bool)
(* decodeOldClassAdString *)
| COld (inner : bytes) (obs : option bytes)
(* parseAndInsertExpression (hook) on one expression string: None = it returned an error, otherwise the
   name of the attribute it inserted and, when the stored value is a literal, that literal *)
| CSplit (e : bytes) (obs : option (bytes * option olit))
(* PutClassAdRaw(exprs, my, tg) + trailer on a real stream, then the three real receivers *)
| CWire (exprs : list bytes) (my tg : bytes) (runs : list wrun)
(* a peer that writes marker + secret as two ordinary strings (no crypto toggle), as C++ does on an
   encrypted stream: items flagged true are preceded by the marker *)
| CWireManual (items : list (bool * bytes)) (my tg : bytes) (runs : list wrun)
(* PutClassAdWithOptions (private attributes included) + trailer, then the three receivers *)
| CWireAd (opts : N) (attrs : list (bytes * bytes)) (my tg : bytes) (runs : list wrun)
(* explicit frames (sealed, eom, plaintext payload) as a real stream in state (key, enc) carried them, ad +
   trailer; what the four real receivers did on them: the three uncapped ones, and GetClassAdWithMaxSize for
   every cap of the ranges (first cap, how many consecutive caps, succeeded and then read the trailer) *)
| CFrames (key enc : bool) (frames : list (bool * bool * bytes)) (raw_ok get_ok skip_ok : bool)
          (caps : list (Z * nat * bool)).

Definition dig_eqb (a b : N * N * bytes * bytes) : bool :=
  let '(l1, s1, h1, t1) := a in let '(l2, s2, h2, t2) := b in
  (l1 =? l2) && (s1 =? s2) && bytes_eqb h1 h2 && bytes_eqb t1 t2.
Definition oframe_eqb (t : tframe) (o : bool * bool * (N * N * bytes * bytes)) : bool :=
  let '(sealed, (d, e)) := t in let '(s', e', dg) := o in
  Bool.eqb sealed s' && Bool.eqb e e' && dig_eqb (digestN d) dg.
Fixpoint all2 {A B} (f : A -> B -> bool) (a : list A) (b : list B) : bool :=
  match a, b with
  | [] , [] => true
  | x :: a', y :: b' => f x y && all2 f a' b'
  | _, _ => false
  end.

(* PutClassAdRaw *)
Definition put_raw (st : sstate) (exprs : list bytes) (my tg : bytes) : sstate :=
  let st1 := s_put_int st (Z.of_nat (length exprs)) in
  let st2 := fold_left s_put_string exprs st1 in
  s_put_string (s_put_string st2 my) tg.

Definition put_manual (st : sstate) (items : list (bool * bytes)) (my tg : bytes) : sstate :=
  let st1 := s_put_int st (Z.of_nat (length items)) in
  let st2 := fold_left (fun st (it : bool * bytes) =>
                          if fst it then s_put_string (s_put_string st secret_marker) (snd it)
                          else s_put_string st (snd it)) items st1 in
  s_put_string (s_put_string st2 my) tg.

Definition trailer_int : Z := 24225%Z.
Definition trailer_str : bytes := [x74; x61; x69; x6c].
Definition put_trailer (st : sstate) : sstate := s_put_string (s_put_int st trailer_int) trailer_str.

Definition reads_trailer {A} (x : treader * mres A) : bool :=
  match x with
  | (t, MOk _) =>
      match t_get_int t with
      | (t1, MOk z) =>
          Z.eqb z trailer_int &&
          match t_get_string t1 with
          | (_, MOk s) => bytes_eqb s trailer_str
          | _ => false
          end
      | _ => false
      end
  | _ => false
  end.

Definition check_wrun (send : sstate -> sstate) (r : wrun) : bool :=
  let st := s_finish (put_trailer (send (sstate_init (w_key r) (w_enc r)))) in
  let t0 := treader_of (w_key r) (w_enc r) (s_frames st) in
  all2 oframe_eqb (s_frames st) (w_frames r) &&
  Bool.eqb (reads_trailer (get_ad_raw t0)) (w_raw_ok r) &&
  Bool.eqb (reads_trailer (get_ad (fun _ => true) t0)) (w_get_ok r) &&
  Bool.eqb (reads_trailer (skip_ad t0)) (w_skip_ok r).

Fixpoint range_all (f : Z -> bool) (lo : Z) (n : nat) : bool :=
  match n with
  | O => true
  | S k => f lo && range_all f (lo + 1)%Z k
  end.

Definition check_case (c : case) : bool :=
  match c with
  | CEnum alphabet prefix n obs_try obs_lex =>
      let strs := map (app prefix) (enum alphabet n) in
      check_enum (try_literal false) strs 0 obs_try && check_enum lex_literal strs 0 obs_lex
  | CLit s ovf obs_try obs_lex two_sided =>
      olit_matches (try_literal ovf s) obs_try &&
      (if two_sided then olit_matches (lex_literal s) obs_lex
       else match lex_literal s with Some l => olit_matches (Some l) obs_lex | None => true end)
  | COld inner obs =>
      match decode_old_string inner, obs with
      | Some a, Some b => bytes_eqb a b
      | None, None => true
      | _, _ => false
      end
  | CSplit e obs =>
      match split_expr e, obs with
      | None, None => true
      | None, Some _ => false                 (* no '=' or an empty name: must be rejected *)
      | Some _, None => true                  (* the value text was not an expression *)
      | Some (n, v), Some (n', ol) =>
          bytes_eqb n n' &&
          match lex_literal v with
          | Some l => olit_matches (Some l) ol
          | None => true
          end
      end
  | CWire exprs my tg runs => forallb (check_wrun (fun st => put_raw st exprs my tg)) runs
  | CWireManual items my tg runs => forallb (check_wrun (fun st => put_manual st items my tg)) runs
  | CWireAd opts attrs my tg runs =>
      forallb (check_wrun (fun st => put_ad {| c_opts := opts; c_whitelist := []; c_enc_attrs := []; c_peer := None |} st
                                        {| ad_attrs := attrs; ad_mytype := my; ad_targettype := tg |})) runs
  | CFrames key enc frames raw_ok get_ok skip_ok caps =>
      let t0 := treader_of key enc (map (fun f : bool * bool * bytes => let '(sealed, eom, d) := f in (sealed, (d, eom))) frames) in
      Bool.eqb (reads_trailer (get_ad_raw t0)) raw_ok &&
      Bool.eqb (reads_trailer (get_ad (fun _ => true) t0)) get_ok &&
      Bool.eqb (reads_trailer (skip_ad t0)) skip_ok &&
      forallb (fun r : Z * nat * bool =>
                 let '(lo, n, ok) := r in
                 range_all (fun cap => Bool.eqb (reads_trailer (get_ad_capped (fun _ => true) cap t0)) ok) lo n) caps
  end.

Fixpoint mism (i : nat) (cs : list case) : list nat :=
  match cs with
  | [] => []
  | c :: r => if check_case c then mism (S i) r else i :: mism (S i) r
  end.
Definition mismatches (cs : list case) : list nat := mism 0 cs.
