(* Lib/Bytes.v — bytes, big-endian integers, hex literals, cyclic payload table.
   Definitions only plus the few characterising lemmas every model needs. *)
From Coq Require Import List NArith ZArith Lia Bool.
From Coq Require String Ascii.
From Coq Require Export Init.Byte.
From Coq Require Import Strings.Byte.
Import ListNotations.
Local Open Scope N_scope.

Definition bytes := list byte.

Definition b2n (b : byte) : N := Byte.to_N b.
Definition n2b (n : N) : byte :=
  match Byte.of_N (n mod 256) with Some b => b | None => x00 end.

Lemma b2n_lt b : b2n b < 256.
Proof. unfold b2n. pose proof (Byte.to_N_bounded b). lia. Qed.

Lemma n2b_b2n b : n2b (b2n b) = b.
Proof.
  unfold n2b, b2n. rewrite N.mod_small by (pose proof (Byte.to_N_bounded b); lia).
  rewrite Byte.of_to_N. reflexivity.
Qed.

Lemma b2n_n2b n : b2n (n2b n) = n mod 256.
Proof.
  unfold n2b, b2n.
  assert (H : n mod 256 < 256) by (apply N.mod_lt; lia).
  destruct (Byte.of_N (n mod 256)) eqn:E.
  - apply Byte.to_of_N in E. exact E.
  - apply Byte.of_N_None_iff in E. lia.
Qed.

Definition byte_eqb (a b : byte) : bool := N.eqb (b2n a) (b2n b).
Lemma byte_eqb_eq a b : byte_eqb a b = true <-> a = b.
Proof.
  unfold byte_eqb. rewrite N.eqb_eq. split; intro H; [|subst; reflexivity].
  rewrite <- (n2b_b2n a), <- (n2b_b2n b), H. reflexivity.
Qed.

Fixpoint bytes_eqb (a b : bytes) : bool :=
  match a, b with
  | [], [] => true
  | x :: a', y :: b' => byte_eqb x y && bytes_eqb a' b'
  | _, _ => false
  end.
Lemma bytes_eqb_eq a b : bytes_eqb a b = true <-> a = b.
Proof.
  revert b; induction a as [|x a IH]; intros [|y b]; simpl; split; intro H;
    try reflexivity; try discriminate.
  - apply andb_true_iff in H as [H1 H2]. apply byte_eqb_eq in H1. apply IH in H2. congruence.
  - inversion H; subst. apply andb_true_iff; split; [apply byte_eqb_eq|apply IH]; reflexivity.
Qed.

(* length as N, accumulator style so that MiB-sized lists do not blow the stack *)
Fixpoint lenN_acc (acc : N) (l : bytes) : N :=
  match l with [] => acc | _ :: r => lenN_acc (N.succ acc) r end.
Definition lenN (l : bytes) : N := lenN_acc 0 l.
Lemma lenN_acc_spec l acc : lenN_acc acc l = acc + N.of_nat (length l).
Proof. revert acc; induction l as [|x l IH]; intro acc; simpl lenN_acc; simpl length; [lia|rewrite IH; lia]. Qed.
Lemma lenN_spec l : lenN l = N.of_nat (length l).
Proof. unfold lenN. rewrite lenN_acc_spec. lia. Qed.
Lemma lenN_app a b : lenN (a ++ b) = lenN a + lenN b.
Proof. rewrite !lenN_spec, app_length. lia. Qed.
Lemma lenN_nil : lenN [] = 0. Proof. reflexivity. Qed.
Lemma lenN_cons x l : lenN (x :: l) = 1 + lenN l.
Proof. rewrite !lenN_spec. simpl length. lia. Qed.

Lemma pow2_pos k : 0 < 2 ^ k.
Proof. apply N.neq_0_lt_0, N.pow_nonzero; lia. Qed.

(* big-endian, fixed width *)
Fixpoint be_enc (k : nat) (n : N) : bytes :=
  match k with
  | O => []
  | S k' => n2b (n / 2 ^ (8 * N.of_nat k')) :: be_enc k' n
  end.
Fixpoint be_dec_acc (acc : N) (bs : bytes) : N :=
  match bs with [] => acc | b :: r => be_dec_acc (acc * 256 + b2n b) r end.
Definition be_dec (bs : bytes) : N := be_dec_acc 0 bs.

Lemma be_enc_length k n : length (be_enc k n) = k.
Proof. induction k as [|k IH]; simpl; [reflexivity|rewrite IH; reflexivity]. Qed.

Lemma be_dec_acc_app acc a b :
  be_dec_acc acc (a ++ b) = be_dec_acc (be_dec_acc acc a) b.
Proof. revert acc; induction a as [|x a IH]; intro acc; simpl; [reflexivity|apply IH]. Qed.

Lemma be_dec_acc_shift acc bs :
  be_dec_acc acc bs = acc * 2 ^ (8 * N.of_nat (length bs)) + be_dec_acc 0 bs.
Proof.
  revert acc; induction bs as [|b bs IH]; intro acc.
  - simpl. lia.
  - cbn [be_dec_acc length]. rewrite IH. rewrite (IH (0 * 256 + b2n b)).
    replace (8 * N.of_nat (S (length bs))) with (8 + 8 * N.of_nat (length bs)) by lia.
    rewrite N.pow_add_r. change (2 ^ 8) with 256. lia.
Qed.

Lemma be_dec_lt bs : be_dec bs < 2 ^ (8 * N.of_nat (length bs)).
Proof.
  unfold be_dec. induction bs as [|b bs IH].
  - simpl. lia.
  - cbn [be_dec_acc length]. rewrite be_dec_acc_shift.
    replace (8 * N.of_nat (S (length bs))) with (8 + 8 * N.of_nat (length bs)) by lia.
    rewrite N.pow_add_r. change (2 ^ 8) with 256.
    pose proof (b2n_lt b). nia.
Qed.

Lemma be_dec_enc k n : be_dec (be_enc k n) = n mod 2 ^ (8 * N.of_nat k).
Proof.
  unfold be_dec. revert n. induction k as [|k IH]; intro n.
  - simpl. rewrite N.mod_1_r. reflexivity.
  - cbn [be_enc be_dec_acc]. rewrite be_dec_acc_shift, be_enc_length, IH, b2n_n2b.
    set (P := 2 ^ (8 * N.of_nat k)).
    assert (HP : 0 < P) by (apply pow2_pos).
    replace (8 * N.of_nat (S k)) with (8 * N.of_nat k + 8) by lia.
    rewrite N.pow_add_r. fold P. change (2 ^ 8) with 256.
    rewrite N.mod_mul_r by lia. lia.
Qed.

Lemma be_enc_mod k x y :
  x mod 2 ^ (8 * N.of_nat k) = y mod 2 ^ (8 * N.of_nat k) -> be_enc k x = be_enc k y.
Proof.
  revert x y. induction k as [|k IH]; intros x y H; [reflexivity|].
  cbn [be_enc].
  set (Q := 2 ^ (8 * N.of_nat k)) in *.
  assert (HQ : 0 < Q) by (apply pow2_pos).
  replace (8 * N.of_nat (S k)) with (8 * N.of_nat k + 8) in H by lia.
  rewrite N.pow_add_r in H. fold Q in H. change (2 ^ 8) with 256 in H.
  rewrite !N.mod_mul_r in H by lia.
  assert (Hm : x mod Q = y mod Q).
  { apply (f_equal (fun v => v mod Q)) in H.
    rewrite !(N.mul_comm Q), !N.mod_add in H by lia.
    rewrite !N.mod_mod in H by lia. exact H. }
  f_equal.
  - rewrite <- (n2b_b2n (n2b (x / Q))), <- (n2b_b2n (n2b (y / Q))), !b2n_n2b.
    f_equal. nia.
  - apply IH. exact Hm.
Qed.

Lemma be_enc_dec bs : be_enc (length bs) (be_dec bs) = bs.
Proof.
  unfold be_dec. induction bs as [|b bs IH].
  - reflexivity.
  - cbn [length be_enc be_dec_acc]. rewrite be_dec_acc_shift.
    pose proof (be_dec_lt bs) as Hlt. unfold be_dec in Hlt.
    set (P := 2 ^ (8 * N.of_nat (length bs))) in *.
    assert (HP : 0 < P) by (apply pow2_pos).
    f_equal.
    + replace (0 * 256 + b2n b) with (b2n b) by lia.
      rewrite N.div_add_l by lia. rewrite N.div_small by exact Hlt.
      rewrite N.add_0_r. apply n2b_b2n.
    + transitivity (be_enc (length bs) (be_dec_acc 0 bs)); [|exact IH].
      apply be_enc_mod. fold P.
      rewrite N.add_comm, N.mod_add by lia. reflexivity.
Qed.

(* --- hex literals, used only by generated case files ------------------- *)
Definition hexval (c : Ascii.ascii) : N :=
  let n := Ascii.N_of_ascii c in
  if (48 <=? n) && (n <=? 57) then n - 48
  else if (97 <=? n) && (n <=? 102) then n - 87
  else if (65 <=? n) && (n <=? 70) then n - 55 else 0.
Fixpoint hx (s : String.string) : bytes :=
  match s with
  | String.String a (String.String b r) => n2b (hexval a * 16 + hexval b) :: hx r
  | _ => []
  end.

(* --- cyclic payload table: arithmetic-free generator of long test payloads.
   payload off len = len bytes of the infinite repetition of [table] from off. *)
Import Coq.Strings.String.StringSyntax.
Local Open Scope string_scope.
Definition table : bytes := hx
 "000102030405060708090a0b0c0d0e0f101112131415161718191a1b1c1d1e1f202122232425262728292a2b2c2d2e2f303132333435363738393a3b3c3d3e3f404142434445464748494a4b4c4d4e4f505152535455565758595a5b5c5d5e5f606162636465666768696a6b6c6d6e6f707172737475767778797a7b7c7d7e7f808182838485868788898a8b8c8d8e8f909192939495969798999a9b9c9d9e9fa0a1a2a3a4a5a6a7a8a9aaabacadaeafb0b1b2b3b4b5b6b7b8b9babbbcbdbebfc0c1c2c3c4c5c6c7c8c9cacbcccdcecfd0d1d2d3d4d5d6d7d8d9dadbdcdddedfe0e1e2e3e4e5e6e7e8e9eaebecedeeeff0f1f2f3f4f5f6f7f8f9fa".
Local Close Scope string_scope.
(* 251 bytes (prime length) *)

Fixpoint walk (tbl : bytes) (fuel : nat) (cur : bytes) (acc : bytes) : bytes :=
  match fuel with
  | O => acc
  | S f => match cur with
           | [] => match tbl with [] => acc | b :: r => walk tbl f r (b :: acc) end
           | b :: r => walk tbl f r (b :: acc)
           end
  end.
Definition payload (off : N) (len : N) : bytes :=
  rev' (walk table (N.to_nat len) (skipn (N.to_nat (off mod 251)) table) []).
(* NUL-free variant: cycles through 1..250 *)
Definition table_nz : bytes := tl table.
Definition payload_nz (off : N) (len : N) : bytes :=
  rev' (walk table_nz (N.to_nat len) (skipn (N.to_nat (off mod 250)) table_nz) []).

(* cheap projection of a long byte string: length, additive checksum mod 2^32, head, tail *)
Fixpoint sum_acc (acc : N) (l : bytes) : N :=
  match l with [] => acc | b :: r => sum_acc (acc + b2n b) r end.
Definition digestN (l : bytes) : N * N * bytes * bytes :=
  (lenN l, sum_acc 0 l mod 4294967296, firstn 8 l, rev' (firstn 8 (rev' l))).
