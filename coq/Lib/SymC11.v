(* Lib/SymC11.v — cryptographic and library parameters of the TOKEN (AKEP2) model.

   The token model (Model/Token.v) is written against a record [crypto] of four
   functions.  Every theorem of C11 is proved for ALL such records, i.e. it is
   an equation between the bytes the peer sent and the value of the functions
   at arguments the local side chose; no property of the functions is assumed.

   This file also gives the IDEAL (symbolic) instance in the style of
   Lib/Sym.v: every primitive is a free constructor, realised on byte strings
   by an injective tagged pairing, and the injectivity / disjointness lemmas
   are proved.  Under the ideal instance "the received bytes equal
   mac (kdf (sign key tok) tok) m" means the peer's message determines — and so
   could only have been built from — the signature itself.  That real
   HKDF-SHA256 / HMAC-SHA256 / HMAC-SHA1 behave like the ideal instance up to
   negligible probability is the cryptographic assumption (DESIGN.md, trusted
   base).  Nothing here is an Axiom. *)
From Coq Require Import List NArith Bool.
From Cedar Require Import Lib.Bytes.
Import ListNotations.

Record crypto := {
  c_sign : bytes -> bytes -> bytes;   (* signing key -> "header.payload" -> JWT signature (computeTokenSignature) *)
  c_kdf  : bytes -> bytes -> bytes;   (* signature -> token -> K  (deriveTokenKeys, SharedKeyK) *)
  c_mac  : bytes -> bytes -> bytes;   (* K -> message -> MAC      (computeTokenMAC) *)
  c_skey : bytes -> bytes             (* rB -> session key        (deriveSessionKey) *)
}.

(* ---- injective pairing on byte strings: unary length of [a], a, b -------- *)
Definition pair_enc (a b : bytes) : bytes :=
  map (fun _ => x01) a ++ x00 :: a ++ b.

Lemma pair_enc_inj a b a' b' : pair_enc a b = pair_enc a' b' -> a = a' /\ b = b'.
Proof.
  unfold pair_enc.
  assert (L : forall (a a' : bytes) (r r' : bytes),
             map (fun _ => x01) a ++ x00 :: r = map (fun _ => x01) a' ++ x00 :: r' ->
             length a = length a' /\ r = r').
  { induction a0 as [|x a0 IH]; intros [|y a0'] r r' E; simpl in E.
    - inversion E; auto.
    - discriminate.
    - discriminate.
    - inversion E as [E']. apply IH in E' as [E1 E2]. simpl. auto. }
  intro E. apply L in E as [Hl E].
  revert a' Hl E. induction a as [|x a IH]; intros [|y a'] Hl E; simpl in *; try discriminate.
  - auto.
  - inversion E; subst. inversion Hl as [Hl']. destruct (IH a' Hl' H1) as [-> ->]. auto.
Qed.

(* ---- the ideal instance: tag byte :: pair_enc -------------------------- *)
Definition i_sign (k t : bytes) : bytes := x53 :: pair_enc k t.   (* 'S' *)
Definition i_kdf  (s t : bytes) : bytes := x4b :: pair_enc s t.   (* 'K' *)
Definition i_mac  (k m : bytes) : bytes := x4d :: pair_enc k m.   (* 'M' *)
Definition i_skey (rb : bytes) : bytes := x57 :: rb.              (* 'W' *)
Definition ideal : crypto :=
  {| c_sign := i_sign; c_kdf := i_kdf; c_mac := i_mac; c_skey := i_skey |}.

Lemma i_sign_inj k t k' t' : i_sign k t = i_sign k' t' -> k = k' /\ t = t'.
Proof. unfold i_sign; intro E; inversion E as [E']; apply pair_enc_inj; exact E'. Qed.
Lemma i_kdf_inj s t s' t' : i_kdf s t = i_kdf s' t' -> s = s' /\ t = t'.
Proof. unfold i_kdf; intro E; inversion E as [E']; apply pair_enc_inj; exact E'. Qed.
Lemma i_mac_inj k m k' m' : i_mac k m = i_mac k' m' -> k = k' /\ m = m'.
Proof. unfold i_mac; intro E; inversion E as [E']; apply pair_enc_inj; exact E'. Qed.
Lemma i_skey_inj a b : i_skey a = i_skey b -> a = b.
Proof. unfold i_skey; intro E; inversion E; reflexivity. Qed.

(* possession: a byte string accepted as mac (kdf sig tok) m fixes sig *)
Lemma ideal_mac_fixes_signature sig tok m sig' tok' m' :
  i_mac (i_kdf sig tok) m = i_mac (i_kdf sig' tok') m' -> sig = sig' /\ tok = tok' /\ m = m'.
Proof.
  intro E. apply i_mac_inj in E as [E1 E2]. apply i_kdf_inj in E1 as [E3 E4]. auto.
Qed.
Lemma ideal_mac_fixes_key key tok m key' tok' m' :
  i_mac (i_kdf (i_sign key tok) tok) m = i_mac (i_kdf (i_sign key' tok') tok') m' ->
  key = key' /\ tok = tok' /\ m = m'.
Proof.
  intro E. apply ideal_mac_fixes_signature in E as (E1 & E2 & E3).
  apply i_sign_inj in E1 as [E4 _]. auto.
Qed.
