(* Lib/Sym.v — ideal (symbolic) cryptography.

   Ciphertexts, digests and MACs are free terms, so the "hypotheses" one would
   state about an abstract AEAD / hash are lemmas here:
     open_seal       correctness
     open_only_seal  ideal integrity  (only the very term sealed under (k,n,a) opens)
     seal_inj        sealing is injective in all four arguments
     H_inj, H_nonzero
   That real AES-256-GCM / SHA-256 / HMAC behave like these free terms up to
   negligible probability is the cryptographic assumption of the development
   (DESIGN.md, trusted base).  Nothing here is an Axiom. *)
From Coq Require Import List NArith Bool.
From Cedar Require Import Lib.Bytes.
Import ListNotations.
Local Open Scope N_scope.

(* digests: 32 zero bytes for an unused direction, or the hash of the bytes fed *)
Inductive digest := DZero | DHash (bs : bytes).

Definition digest_eqb (a b : digest) : bool :=
  match a, b with
  | DZero, DZero => true
  | DHash x, DHash y => bytes_eqb x y
  | _, _ => false
  end.
Lemma digest_eqb_eq a b : digest_eqb a b = true <-> a = b.
Proof.
  destruct a, b; simpl; split; intro H; try reflexivity; try discriminate.
  - apply bytes_eqb_eq in H. congruence.
  - inversion H. apply bytes_eqb_eq. reflexivity.
Qed.
Definition H (bs : bytes) : digest := DHash bs.
Lemma H_inj x y : H x = H y -> x = y. Proof. intro E; inversion E; reflexivity. Qed.
Lemma H_nonzero x : H x <> DZero. Proof. discriminate. Qed.

(* associated data of a protected frame *)
Inductive aad :=
| AadFirst (d1 d2 : digest) (hdr : bytes)   (* 32 + 32 + 5 bytes *)
| AadHdr (hdr : bytes).                      (* 5 bytes *)

Definition aad_eqb (a b : aad) : bool :=
  match a, b with
  | AadFirst a1 a2 h, AadFirst b1 b2 g => digest_eqb a1 b1 && digest_eqb a2 b2 && bytes_eqb h g
  | AadHdr h, AadHdr g => bytes_eqb h g
  | _, _ => false
  end.
Lemma aad_eqb_eq a b : aad_eqb a b = true <-> a = b.
Proof.
  destruct a, b; simpl; split; intro E; try discriminate.
  - apply andb_true_iff in E as [E E3]. apply andb_true_iff in E as [E1 E2].
    apply digest_eqb_eq in E1, E2. apply bytes_eqb_eq in E3. congruence.
  - inversion E; subst. rewrite !andb_true_iff. repeat split;
      try (apply digest_eqb_eq; reflexivity); apply bytes_eqb_eq; reflexivity.
  - apply bytes_eqb_eq in E. congruence.
  - inversion E. apply bytes_eqb_eq. reflexivity.
Qed.

(* ideal AEAD: a ciphertext is the term that was sealed *)
Inductive ctext := Seal (k n : bytes) (a : aad) (p : bytes).

Definition seal := Seal.
Definition open (k n : bytes) (a : aad) (c : ctext) : option bytes :=
  match c with
  | Seal k' n' a' p =>
      if bytes_eqb k k' && bytes_eqb n n' && aad_eqb a a' then Some p else None
  end.
Definition ct_len (c : ctext) : N := match c with Seal _ _ _ p => lenN p + 16 end.

Lemma open_seal k n a p : open k n a (seal k n a p) = Some p.
Proof.
  unfold open, seal.
  assert (bytes_eqb k k = true) as -> by (apply bytes_eqb_eq; reflexivity).
  assert (bytes_eqb n n = true) as -> by (apply bytes_eqb_eq; reflexivity).
  assert (aad_eqb a a = true) as -> by (apply aad_eqb_eq; reflexivity).
  reflexivity.
Qed.
Lemma open_only_seal k n a c p : open k n a c = Some p -> c = seal k n a p.
Proof.
  destruct c as [k' n' a' p']. unfold open, seal.
  destruct (bytes_eqb k k') eqn:E1; [|discriminate].
  destruct (bytes_eqb n n') eqn:E2; [|discriminate].
  destruct (aad_eqb a a') eqn:E3; [|discriminate].
  simpl. intro E; inversion E; subst.
  apply bytes_eqb_eq in E1, E2. apply aad_eqb_eq in E3. congruence.
Qed.
Lemma seal_inj k n a p k' n' a' p' :
  seal k n a p = seal k' n' a' p' -> k = k' /\ n = n' /\ a = a' /\ p = p'.
Proof. intro E; inversion E; auto. Qed.

(* ideal MAC / KDF used by the token and claim models *)
Inductive mac := Mac (k : bytes) (msg : bytes).
Lemma mac_inj k m k' m' : Mac k m = Mac k' m' -> k = k' /\ m = m'.
Proof. intro E; inversion E; auto. Qed.
