(* Lib/SymC16.v — ideal (symbolic) key derivation for the claim-session model.

   A derived key is the free term  Kdf salt info len ikm  (HKDF-SHA256 with the
   given salt / info, [len] output bytes, input keying material [ikm]); any other
   byte string observed where a key is expected is  KRaw bytes.  Because the
   terms are free, the "hypothesis" one would state about an abstract KDF —
   injectivity in every argument — is a lemma here.  That the real
   HKDF-SHA256 behaves like this free term (distinct inputs give distinct keys
   except with negligible probability) is the cryptographic assumption of the
   development (DESIGN.md §7).  Nothing here is axiomatised. *)
From Coq Require Import List NArith Bool.
From Cedar Require Import Lib.Bytes.
Import ListNotations.
Local Open Scope N_scope.

Inductive key :=
| Kdf (salt info : bytes) (len : N) (ikm : bytes)
| KRaw (bs : bytes).

Definition key_eqb (a b : key) : bool :=
  match a, b with
  | Kdf s1 i1 l1 k1, Kdf s2 i2 l2 k2 =>
      bytes_eqb s1 s2 && bytes_eqb i1 i2 && (l1 =? l2) && bytes_eqb k1 k2
  | KRaw x, KRaw y => bytes_eqb x y
  | _, _ => false
  end.

Lemma key_eqb_eq a b : key_eqb a b = true <-> a = b.
Proof.
  destruct a, b; simpl; split; intro E; try discriminate.
  - apply andb_true_iff in E as [E E4]. apply andb_true_iff in E as [E E3].
    apply andb_true_iff in E as [E1 E2].
    apply bytes_eqb_eq in E1, E2, E4. apply N.eqb_eq in E3. congruence.
  - inversion E; subst. rewrite !andb_true_iff. repeat split;
      try (apply bytes_eqb_eq; reflexivity). apply N.eqb_refl.
  - apply bytes_eqb_eq in E. congruence.
  - inversion E. apply bytes_eqb_eq. reflexivity.
Qed.

Lemma kdf_inj s i l k s' i' l' k' :
  Kdf s i l k = Kdf s' i' l' k' -> s = s' /\ i = i' /\ l = l' /\ k = k'.
Proof. intro E; inversion E; auto. Qed.

(* the consequence the claim model uses: a different secret, a different key *)
Lemma kdf_secret_neq s i l k k' : k <> k' -> Kdf s i l k <> Kdf s i l k'.
Proof. intros N E. apply kdf_inj in E. tauto. Qed.
