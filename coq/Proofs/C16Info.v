(* Proofs/C16Info.v — ExportSecSessionInfo and ImportSecSessionInfo are inverse on
   the exported attributes (with the documented rewrites), for every policy whose
   exported string values are free of ';' (and whose cipher names are free of '.'). *)
From Coq Require Import List NArith ZArith Lia Bool.
From Cedar Require Import Lib.Bytes Lib.SymC16 Model.ClaimId Proofs.C16Str Proofs.C16Dec.
Import ListNotations.

(* ---- first / last byte not white space ------------------------------------ *)
Definition first_ns (s : bytes) : bool := match s with b :: _ => negb (is_space b) | [] => false end.
Fixpoint last_ns (s : bytes) : bool :=
  match s with
  | [] => false
  | [x] => negb (is_space x)
  | _ :: r => last_ns r
  end.

Lemma last_ns_nonnil s : last_ns s = true -> s <> [].
Proof. destruct s; simpl; congruence. Qed.

Lemma trim_right_last a s : last_ns s = true -> trim_right (a ++ s) = a ++ s.
Proof.
  intro H. induction a as [|y a IH]; simpl.
  - induction s as [|x s IHs]; [discriminate|].
    destruct s as [|x' s'].
    + simpl in *. apply negb_true_iff in H. rewrite H. reflexivity.
    + change (trim_right (x :: x' :: s')) with
        (match trim_right (x' :: s') with [] => if is_space x then [] else [x] | r' => x :: r' end).
      rewrite (IHs H). reflexivity.
  - rewrite IH. destruct (a ++ s) eqn:E; [|reflexivity].
    apply app_eq_nil in E as [_ E]. subst. discriminate.
Qed.

Lemma trim_space_fl s : first_ns s = true -> last_ns s = true -> trim_space s = s.
Proof.
  intros Hf Hl. unfold trim_space. destruct s as [|b s]; [discriminate|].
  simpl in Hf. apply negb_true_iff in Hf. rewrite (trim_left_id _ _ Hf).
  apply (trim_right_last [] _ Hl).
Qed.

Lemma last_ns_snoc s x : is_space x = false -> last_ns (s ++ [x]) = true.
Proof.
  intro H. induction s as [|y s IH]; simpl.
  - rewrite H. reflexivity.
  - destruct (s ++ [x]) eqn:E; [destruct s; discriminate|exact IH].
Qed.

Lemma last_ns_forall s :
  forallb (fun b => negb (is_space b)) s = true -> s <> [] -> last_ns s = true.
Proof.
  induction s as [|x s IH]; [congruence|]. simpl. intros H _.
  apply andb_true_iff in H as [H1 H2]. destruct s as [|y s']; [exact H1|].
  apply IH; [exact H2|discriminate].
Qed.

(* ---- contains through the string functions -------------------------------- *)
Lemma contains_trim_left c s : contains c s = false -> contains c (trim_left s) = false.
Proof.
  induction s as [|x s IH]; simpl; intro H; [reflexivity|].
  apply orb_false_iff in H as [H1 H2]. destruct (is_space x); [apply IH; exact H2|].
  simpl. rewrite H1, H2. reflexivity.
Qed.
Lemma contains_trim_right c s : contains c s = false -> contains c (trim_right s) = false.
Proof.
  induction s as [|x s IH]; simpl; intro H; [reflexivity|].
  apply orb_false_iff in H as [H1 H2]. specialize (IH H2).
  destruct (trim_right s) eqn:E.
  - destruct (is_space x); simpl; [reflexivity|rewrite H1; reflexivity].
  - simpl in *. rewrite H1. exact IH.
Qed.
Lemma contains_trim_space c s : contains c s = false -> contains c (trim_space s) = false.
Proof. intro H. apply contains_trim_right, contains_trim_left, H. Qed.

Lemma contains_split_head c d s : contains c s = false -> contains c (split_head d s) = false.
Proof.
  unfold split_head. induction s as [|x s IH]; simpl; intro H; [reflexivity|].
  apply orb_false_iff in H as [H1 H2]. specialize (IH H2).
  destruct (split1 d s) as [h t]. destruct (byte_eqb x d); simpl in *; [reflexivity|].
  rewrite H1. exact IH.
Qed.

Lemma replace_all_noop a b s : contains a s = false -> replace_all a b s = s.
Proof.
  induction s as [|x s IH]; simpl; intro H; [reflexivity|].
  apply orb_false_iff in H as [H1 H2]. rewrite H1, (IH H2). reflexivity.
Qed.

(* ---- quoting ---------------------------------------------------------------- *)
Lemma unquote_quote s : unquote (quote s) = s.
Proof.
  unfold unquote, quote. rewrite byte_eqb_refl, is_nil_app_r, ends_with_snoc. simpl.
  apply removelast_snoc.
Qed.

(* ---- well-formed items ------------------------------------------------------ *)
Definition name_char (b : byte) : bool :=
  negb (is_space b || byte_eqb b ch_eq || byte_eqb b ch_semi).
Definition name_ok (n : bytes) : Prop := n <> [] /\ forallb name_char n = true.
Definition val_ok (v : bytes) : Prop :=
  first_ns v = true /\ last_ns v = true /\ contains ch_semi v = false.
Definition item_ok (it : bytes * bytes) : Prop := name_ok (fst it) /\ val_ok (snd it).

Lemma name_char_nospace b : name_char b = true -> negb (is_space b) = true.
Proof.
  unfold name_char. rewrite !negb_true_iff, !orb_false_iff. tauto.
Qed.

Lemma val_ok_quote s : contains ch_semi s = false -> val_ok (quote s).
Proof.
  intro H. unfold val_ok, quote. repeat split.
  - change (ch_quote :: s ++ [ch_quote]) with ((ch_quote :: s) ++ [ch_quote]).
    apply last_ns_snoc. reflexivity.
  - simpl. rewrite contains_app, H. reflexivity.
Qed.

Lemma val_ok_dec z : val_ok (dec_of_Z z).
Proof.
  pose proof (dec_of_Z_chars z) as Hc. pose proof (dec_of_Z_nonnil z) as Hn.
  assert (Hns : forallb (fun b => negb (is_space b)) (dec_of_Z z) = true)
    by (apply (forallb_impl dec_char); [exact dec_char_nospace|exact Hc]).
  repeat split.
  - destruct (dec_of_Z z); [congruence|]. simpl in Hns. apply andb_true_iff in Hns as [H _]. exact H.
  - apply last_ns_forall; assumption.
  - apply dec_char_not. reflexivity.
Qed.

Definition piece (it : bytes * bytes) : bytes := fst it ++ ch_eq :: snd it.

Lemma import_item_piece m it :
  item_ok it -> import_item m (piece it) = sset (fst it) (unquote (snd it)) m.
Proof.
  destruct it as [n v]. intros [[Hn Hnc] (Hf & Hl & _)]. unfold piece, import_item. cbn [fst snd] in *.
  assert (Hns : forallb (fun b => negb (is_space b)) n = true)
    by (apply (forallb_impl name_char); [exact name_char_nospace|exact Hnc]).
  assert (Ht : trim_space (n ++ ch_eq :: v) = n ++ ch_eq :: v).
  { unfold trim_space. destruct n as [|b r]; [congruence|].
    simpl in Hns. apply andb_true_iff in Hns as [Hb _]. apply negb_true_iff in Hb.
    change ((b :: r) ++ ch_eq :: v) with (b :: (r ++ ch_eq :: v)).
    rewrite (trim_left_id _ _ Hb).
    replace (b :: r ++ ch_eq :: v) with ((b :: r ++ [ch_eq]) ++ v)
      by (simpl; rewrite <- app_assoc; reflexivity).
    apply trim_right_last. exact Hl. }
  rewrite Ht.
  assert (is_nil (n ++ ch_eq :: v) = false) as -> by (destruct n; reflexivity).
  assert (Hneq : contains ch_eq n = false).
  { eapply (forallb_contains name_char); [reflexivity|exact Hnc]. }
  rewrite (index_of_app _ _ _ Hneq).
  destruct n as [|b r] eqn:En; [congruence|]. rewrite <- En in *.
  assert (length n = S (length r)) as -> by (subst n; reflexivity).
  replace (S (length r)) with (length n) by (subst n; reflexivity).
  rewrite firstn_app_exact, skipn_S_app.
  rewrite (trim_space_nospace _ Hns), (trim_space_fl _ Hf Hl). reflexivity.
Qed.

Lemma piece_no_semi it : item_ok it -> contains ch_semi (piece it) = false.
Proof.
  destruct it as [n v]. intros [[_ Hnc] (_ & _ & Hv)]. unfold piece. cbn [fst snd] in *.
  rewrite contains_app. simpl. rewrite Hv.
  assert (contains ch_semi n = false) as -> by (eapply (forallb_contains name_char); [reflexivity|exact Hnc]).
  reflexivity.
Qed.

Lemma split_rendered items :
  Forall item_ok items ->
  split_on ch_semi (concat (map render_item items)) = map piece items ++ [[]].
Proof.
  induction 1 as [|it items Hit _ IH]; [reflexivity|].
  cbn [map concat]. unfold render_item at 1.
  replace ((fst it ++ ch_eq :: snd it ++ [ch_semi]) ++ concat (map render_item items))
    with (piece it ++ ch_semi :: concat (map render_item items))
    by (unfold piece; rewrite <- !app_assoc; simpl; rewrite <- app_assoc; reflexivity).
  rewrite (split_on_app _ _ _ (piece_no_semi _ Hit)), IH. reflexivity.
Qed.

Definition set_item (m : smap) (it : bytes * bytes) : smap := sset (fst it) (unquote (snd it)) m.

Lemma fold_import_pieces items : Forall item_ok items ->
  forall m, fold_left import_item (map piece items) m = fold_left set_item items m.
Proof.
  induction 1 as [|it items Hit _ IH]; intro m; [reflexivity|].
  cbn [map fold_left]. rewrite (import_item_piece _ _ Hit). apply IH.
Qed.

Lemma import_attrs_rendered items :
  Forall item_ok items -> import_attrs (render_items items) = fold_left set_item items [].
Proof.
  intro H. unfold import_attrs, render_items.
  cbn [is_nil trim_prefix1]. assert (byte_eqb ch_lbr ch_lbr = true) as -> by reflexivity.
  rewrite trim_suffix1_snoc, (split_rendered _ H), fold_left_app, (fold_import_pieces _ H).
  reflexivity.
Qed.

(* ---- lookups in the parsed map ---------------------------------------------- *)
Fixpoint find_last (n : bytes) (items : list (bytes * bytes)) : option bytes :=
  match items with
  | [] => None
  | (k, v) :: r => match find_last n r with
                   | Some x => Some x
                   | None => if bytes_eqb k n then Some v else None
                   end
  end.

Lemma slookup_sset n k v m :
  slookup n (sset k v m) = if bytes_eqb k n then Some v else slookup n m.
Proof.
  induction m as [|[k' w] m IH]; simpl.
  - destruct (bytes_eqb k n); reflexivity.
  - destruct (bytes_eqb k' k) eqn:E; simpl.
    + apply bytes_eqb_eq in E. subst. destruct (bytes_eqb k n); reflexivity.
    + rewrite IH. destruct (bytes_eqb k' n) eqn:E2; [|reflexivity].
      apply bytes_eqb_eq in E2. subst.
      destruct (bytes_eqb k n) eqn:E3; [|reflexivity].
      apply bytes_eqb_eq in E3. subst. rewrite bytes_eqb_refl in E. discriminate.
Qed.

Lemma slookup_fold items : forall m n,
  slookup n (fold_left set_item items m)
  = match find_last n items with Some v => Some (unquote v) | None => slookup n m end.
Proof.
  induction items as [|[k v] items IH]; intros m n; [reflexivity|].
  cbn [fold_left find_last]. rewrite IH. destruct (find_last n items); [reflexivity|].
  unfold set_item. cbn [fst snd]. rewrite slookup_sset. destruct (bytes_eqb k n); reflexivity.
Qed.

Lemma find_last_app n a b :
  find_last n (a ++ b) = match find_last n b with Some x => Some x | None => find_last n a end.
Proof.
  induction a as [|[k v] a IH]; simpl.
  - destruct (find_last n b); reflexivity.
  - rewrite IH. destruct (find_last n b); reflexivity.
Qed.

(* ---- the exported blocks ------------------------------------------------------ *)
(* the integer ExportSecSessionInfo writes for SessionExpires, if any *)
Definition exported_expires (p : policy) : option Z :=
  match get_int p A_SessionExpires with
  | Some v => if Z.eqb v 0 then None else Some v
  | None => match ne (get_str p A_SessionExpires) with
            | Some s => match parse_int64 (trim_space s) with
                        | Some n => if Z.eqb n 0 then None else Some n
                        | None => None
                        end
            | None => None
            end
  end.

Lemma str_item_spec p k :
  str_item p k = match ne (get_str p k) with Some v => [(k, quote v)] | None => [] end.
Proof. unfold str_item, ne. destruct (get_str p k) as [[|]|]; reflexivity. Qed.

Lemma expires_item_spec p :
  expires_item p = match exported_expires p with Some z => [(A_SessionExpires, dec_of_Z z)] | None => [] end.
Proof.
  unfold expires_item, exported_expires, ne.
  destruct (get_int p A_SessionExpires) as [v|].
  - destruct (Z.eqb v 0); reflexivity.
  - destruct (get_str p A_SessionExpires) as [[|b s]|]; try reflexivity.
    destruct (parse_int64 _) as [n|]; [|reflexivity]. destruct (Z.eqb n 0); reflexivity.
Qed.

Lemma version_item_spec p :
  version_item p = match ne (get_str p A_RemoteVersion) with
                   | Some rv => [(A_ShortVersion, quote (short_version rv))] | None => [] end.
Proof. unfold version_item, ne. destruct (get_str p A_RemoteVersion) as [[|]|]; reflexivity. Qed.

Lemma crypto_items_spec p :
  crypto_items p = match ne (get_str p A_CryptoMethods) with
                   | Some cm => if contains ch_comma cm
                                then [(A_CryptoMethods, quote (trim_space (split_head ch_comma cm)));
                                      (A_CryptoMethodsList, quote (replace_all ch_comma ch_dot cm))]
                                else [(A_CryptoMethods, quote cm)]
                   | None => [] end.
Proof. unfold crypto_items, ne. destruct (get_str p A_CryptoMethods) as [[|]|]; reflexivity. Qed.

Lemma name_ok_lit n : n <> [] -> forallb name_char n = true -> name_ok n.
Proof. split; assumption. Qed.

Ltac name_ok_tac := apply name_ok_lit; [discriminate|reflexivity].

Lemma item_ok_intro n v : name_ok n -> val_ok v -> item_ok (n, v).
Proof. intros; split; assumption. Qed.

Lemma one_item_ok n v : name_ok n -> val_ok v -> Forall item_ok [(n, v)].
Proof. intros. apply Forall_cons; [apply item_ok_intro; assumption|apply Forall_nil]. Qed.

Lemma items_ok p : policy_safe p = true -> Forall item_ok (export_items p).
Proof.
  unfold policy_safe, str_safe. intro H.
  repeat (apply andb_true_iff in H; destruct H as [H ?]).
  unfold export_items.
  rewrite crypto_items_spec, !str_item_spec, expires_item_spec, version_item_spec.
  rewrite !Forall_app. repeat apply conj.
  - destruct (ne (get_str p A_CryptoMethods)) as [cm|]; [|constructor].
    match goal with Hc : _ && _ = true |- _ => apply andb_true_iff in Hc as [Hc1 Hc2] end.
    apply negb_true_iff in Hc1, Hc2.
    destruct (contains ch_comma cm).
    + apply Forall_cons; [apply item_ok_intro; [name_ok_tac|]|apply one_item_ok; [name_ok_tac|]];
        apply val_ok_quote.
      * apply contains_trim_space, contains_split_head, Hc1.
      * apply replace_all_contains; [reflexivity|exact Hc1].
    + apply one_item_ok; [name_ok_tac|]. apply val_ok_quote. exact Hc1.
  - destruct (ne (get_str p A_Encryption)) as [v|]; [|constructor].
    apply one_item_ok; [name_ok_tac|]. apply val_ok_quote, negb_true_iff. assumption.
  - destruct (ne (get_str p A_Integrity)) as [v|]; [|constructor].
    apply one_item_ok; [name_ok_tac|]. apply val_ok_quote, negb_true_iff. assumption.
  - destruct (exported_expires p) as [z|]; [|constructor].
    apply one_item_ok; [name_ok_tac|]. apply val_ok_dec.
  - destruct (ne (get_str p A_RemoteVersion)) as [rv|]; [|constructor].
    apply one_item_ok; [name_ok_tac|]. apply val_ok_quote, negb_true_iff. assumption.
  - destruct (ne (get_str p A_ValidCommands)) as [v|]; [|constructor].
    apply one_item_ok; [name_ok_tac|]. apply val_ok_quote, negb_true_iff. assumption.
Qed.

(* ---- lookups of each exported name --------------------------------------------- *)
Ltac eval_eqb :=
  repeat match goal with
  | |- context [bytes_eqb ?a ?b] =>
      let r := eval vm_compute in (bytes_eqb a b) in change (bytes_eqb a b) with r
  end.

Definition opt_quote (o : option bytes) : option bytes := option_map quote o.

Lemma find_str_item n p k :
  find_last n (str_item p k) = if bytes_eqb k n then opt_quote (ne (get_str p k)) else None.
Proof.
  rewrite str_item_spec. destruct (ne (get_str p k)); cbn [find_last]; destruct (bytes_eqb k n); reflexivity.
Qed.
Lemma find_expires_item n p :
  find_last n (expires_item p)
  = if bytes_eqb A_SessionExpires n then option_map dec_of_Z (exported_expires p) else None.
Proof.
  rewrite expires_item_spec. destruct (exported_expires p); cbn [find_last];
    destruct (bytes_eqb A_SessionExpires n); reflexivity.
Qed.
Lemma find_version_item n p :
  find_last n (version_item p)
  = if bytes_eqb A_ShortVersion n
    then option_map (fun rv => quote (short_version rv)) (ne (get_str p A_RemoteVersion)) else None.
Proof.
  rewrite version_item_spec. destruct (ne (get_str p A_RemoteVersion)); cbn [find_last];
    destruct (bytes_eqb A_ShortVersion n); reflexivity.
Qed.
Lemma find_crypto_other n p :
  bytes_eqb A_CryptoMethods n = false -> bytes_eqb A_CryptoMethodsList n = false ->
  find_last n (crypto_items p) = None.
Proof.
  intros H1 H2. rewrite crypto_items_spec. destruct (ne (get_str p A_CryptoMethods)) as [cm|]; [|reflexivity].
  destruct (contains ch_comma cm); cbn [find_last]; rewrite ?H1, ?H2; reflexivity.
Qed.

Definition rendered (p : policy) : list (bytes * bytes) := export_items p.

Lemma find_other n p :
  bytes_eqb A_CryptoMethods n = false -> bytes_eqb A_CryptoMethodsList n = false ->
  find_last n (export_items p)
  = match (if bytes_eqb A_ValidCommands n then opt_quote (ne (get_str p A_ValidCommands)) else None) with
    | Some x => Some x
    | None =>
    match (if bytes_eqb A_ShortVersion n
           then option_map (fun rv => quote (short_version rv)) (ne (get_str p A_RemoteVersion)) else None) with
    | Some x => Some x
    | None =>
    match (if bytes_eqb A_SessionExpires n then option_map dec_of_Z (exported_expires p) else None) with
    | Some x => Some x
    | None =>
    match (if bytes_eqb A_Integrity n then opt_quote (ne (get_str p A_Integrity)) else None) with
    | Some x => Some x
    | None => if bytes_eqb A_Encryption n then opt_quote (ne (get_str p A_Encryption)) else None
    end end end end.
Proof.
  intros H1 H2. unfold export_items.
  rewrite !find_last_app, !find_str_item, find_expires_item, find_version_item, (find_crypto_other _ _ H1 H2).
  destruct (if bytes_eqb A_ValidCommands n then _ else _); [reflexivity|].
  destruct (if bytes_eqb A_ShortVersion n then _ else _); [reflexivity|].
  destruct (if bytes_eqb A_SessionExpires n then _ else _); [reflexivity|].
  destruct (if bytes_eqb A_Integrity n then _ else _); [reflexivity|].
  destruct (if bytes_eqb A_Encryption n then _ else _); reflexivity.
Qed.

Lemma find_crypto_items_all p n :
  (bytes_eqb A_CryptoMethods n = true \/ bytes_eqb A_CryptoMethodsList n = true) ->
  find_last n (export_items p) = find_last n (crypto_items p).
Proof.
  intro H. unfold export_items.
  rewrite !find_last_app, !find_str_item, find_expires_item, find_version_item.
  destruct H as [H|H]; apply bytes_eqb_eq in H; subst n; eval_eqb; reflexivity.
Qed.

(* ---- the round trip ------------------------------------------------------------- *)
Lemma get_str_pset n k v p :
  get_str (pset k v p) n
  = if bytes_eqb k n then (match v with PStr s => Some s | _ => None end) else get_str p n.
Proof. unfold get_str. rewrite plookup_pset. destruct (bytes_eqb k n); reflexivity. Qed.

Lemma get_str_copy_if attrs k q n :
  get_str (copy_if attrs k q) n
  = if bytes_eqb k n then match slookup k attrs with Some v => Some v | None => get_str q n end
    else get_str q n.
Proof.
  unfold copy_if. destruct (slookup k attrs).
  - rewrite get_str_pset. reflexivity.
  - destruct (bytes_eqb k n); reflexivity.
Qed.

Definition crypto_val (attrs : smap) : option bytes :=
  match slookup A_CryptoMethodsList attrs with
  | Some ((_ :: _) as l) => Some (replace_all ch_dot ch_comma l)
  | _ => option_map (replace_all ch_dot ch_comma) (slookup A_CryptoMethods attrs)
  end.
Definition crypto_step (attrs : smap) (q : policy) : policy :=
  match crypto_val attrs with Some v => pset A_CryptoMethods (PStr v) q | None => q end.
Definition version_step (attrs : smap) (q : policy) : policy :=
  match slookup A_ShortVersion attrs with Some sv => pset A_RemoteVersion (PStr sv) q | None => q end.
Definition copied (attrs : smap) : policy :=
  copy_if attrs A_ValidCommands (copy_if attrs A_SessionExpires (copy_if attrs A_CryptoMethods
    (copy_if attrs A_Encryption (copy_if attrs A_Integrity [])))).

Lemma import_info_steps info :
  is_nil info = false -> starts_with ch_lbr info = true -> ends_with ch_rbr info = true ->
  import_info info = Ok (version_step (import_attrs info) (crypto_step (import_attrs info) (copied (import_attrs info)))).
Proof.
  intros H1 H2 H3. unfold import_info. rewrite H1, H2, H3. cbn [andb negb].
  unfold version_step, crypto_step, crypto_val, copied.
  destruct (slookup A_CryptoMethodsList (import_attrs info)) as [[|b l]|];
    destruct (slookup A_CryptoMethods (import_attrs info)); reflexivity.
Qed.

Lemma get_str_crypto_step attrs q n :
  get_str (crypto_step attrs q) n
  = if bytes_eqb A_CryptoMethods n
    then match crypto_val attrs with Some v => Some v | None => get_str q n end
    else get_str q n.
Proof.
  unfold crypto_step. destruct (crypto_val attrs).
  - rewrite get_str_pset. reflexivity.
  - destruct (bytes_eqb A_CryptoMethods n); reflexivity.
Qed.
Lemma get_str_version_step attrs q n :
  get_str (version_step attrs q) n
  = if bytes_eqb A_RemoteVersion n
    then match slookup A_ShortVersion attrs with Some v => Some v | None => get_str q n end
    else get_str q n.
Proof.
  unfold version_step. destruct (slookup A_ShortVersion attrs).
  - rewrite get_str_pset. reflexivity.
  - destruct (bytes_eqb A_RemoteVersion n); reflexivity.
Qed.

Definition attrs_of (p : policy) : smap := import_attrs (render_items (export_items p)).

Lemma lookup_attr p n :
  policy_safe p = true ->
  slookup n (attrs_of p) = option_map unquote (find_last n (export_items p)).
Proof.
  intro H. unfold attrs_of. rewrite (import_attrs_rendered _ (items_ok _ H)), slookup_fold.
  destruct (find_last n (export_items p)); reflexivity.
Qed.

Lemma ne_nonnil o v : ne o = Some v -> v <> [].
Proof. unfold ne. destruct o as [[|b s]|]; intro H; inversion H; discriminate. Qed.

Lemma look_simple p n :
  policy_safe p = true ->
  In n [A_Integrity; A_Encryption; A_ValidCommands] ->
  slookup n (attrs_of p) = ne (get_str p n).
Proof.
  intros H Hin. rewrite (lookup_attr _ _ H).
  simpl in Hin. destruct Hin as [<-|[<-|[<-|[]]]];
    (rewrite find_other by reflexivity); eval_eqb; cbv iota beta;
    match goal with |- context [ne ?x] => destruct (ne x) end; cbn [opt_quote option_map];
    rewrite ?unquote_quote; reflexivity.
Qed.

Lemma look_expires p :
  policy_safe p = true ->
  slookup A_SessionExpires (attrs_of p) = option_map dec_of_Z (exported_expires p).
Proof.
  intro H. rewrite (lookup_attr _ _ H), find_other by reflexivity. eval_eqb. cbv iota beta.
  destruct (exported_expires p); cbn [option_map]; rewrite ?dec_of_Z_unquote; reflexivity.
Qed.

Lemma look_version p :
  policy_safe p = true ->
  slookup A_ShortVersion (attrs_of p) = option_map short_version (ne (get_str p A_RemoteVersion)).
Proof.
  intro H. rewrite (lookup_attr _ _ H), find_other by reflexivity. eval_eqb. cbv iota beta.
  destruct (ne (get_str p A_RemoteVersion)); cbn [option_map]; rewrite ?unquote_quote; reflexivity.
Qed.

Lemma look_crypto p :
  policy_safe p = true ->
  slookup A_CryptoMethods (attrs_of p)
  = option_map (fun cm => if contains ch_comma cm then trim_space (split_head ch_comma cm) else cm)
               (ne (get_str p A_CryptoMethods)).
Proof.
  intro H. rewrite (lookup_attr _ _ H), find_crypto_items_all by (left; reflexivity).
  rewrite crypto_items_spec. destruct (ne (get_str p A_CryptoMethods)) as [cm|]; [|reflexivity].
  cbn [option_map]. cbv beta.
  destruct (contains ch_comma cm); cbn [find_last]; eval_eqb; cbn [option_map]; rewrite unquote_quote; reflexivity.
Qed.

Lemma look_crypto_list p :
  policy_safe p = true ->
  slookup A_CryptoMethodsList (attrs_of p)
  = match ne (get_str p A_CryptoMethods) with
    | Some cm => if contains ch_comma cm then Some (replace_all ch_comma ch_dot cm) else None
    | None => None
    end.
Proof.
  intro H. rewrite (lookup_attr _ _ H), find_crypto_items_all by (right; reflexivity).
  rewrite crypto_items_spec. destruct (ne (get_str p A_CryptoMethods)) as [cm|]; [|reflexivity].
  destruct (contains ch_comma cm); cbn [find_last]; eval_eqb; cbn [option_map]; rewrite ?unquote_quote; reflexivity.
Qed.

Lemma crypto_val_roundtrip p :
  policy_safe p = true -> crypto_val (attrs_of p) = ne (get_str p A_CryptoMethods).
Proof.
  intro H. unfold crypto_val. rewrite (look_crypto_list _ H), (look_crypto _ H).
  pose proof H as Hs. unfold policy_safe in Hs.
  repeat (apply andb_true_iff in Hs; destruct Hs as [Hs ?]).
  destruct (ne (get_str p A_CryptoMethods)) as [cm|] eqn:E; [|reflexivity].
  match goal with Hc : _ && _ = true |- _ => apply andb_true_iff in Hc as [Hc1 Hc2] end.
  apply negb_true_iff in Hc1, Hc2.
  pose proof (ne_nonnil _ _ E) as Hn.
  cbn [option_map]. cbv beta.
  destruct (contains ch_comma cm) eqn:Ec.
  - destruct cm as [|b s]; [congruence|].
    change (replace_all ch_comma ch_dot (b :: s))
      with ((if byte_eqb b ch_comma then ch_dot else b) :: replace_all ch_comma ch_dot s).
    change ((if byte_eqb b ch_comma then ch_dot else b) :: replace_all ch_comma ch_dot s)
      with (replace_all ch_comma ch_dot (b :: s)).
    assert (exists x l, replace_all ch_comma ch_dot (b :: s) = x :: l) as (x & l & El) by (simpl; eauto).
    rewrite El, <- El. rewrite replace_all_inv by exact Hc2. reflexivity.
  - rewrite replace_all_noop by exact Hc2. reflexivity.
Qed.

Lemma export_ok_safe p info : export_info p = Ok info -> policy_safe p = true.
Proof. unfold export_info. destruct (policy_safe p); [reflexivity|discriminate]. Qed.

Lemma export_unsafe_refused p : policy_safe p = false -> export_info p = Err.
Proof. unfold export_info. intros ->. reflexivity. Qed.

Lemma policy_roundtrip p info :
  export_info p = Ok info ->
  exists q, import_info info = Ok q
    /\ get_str q A_Integrity = ne (get_str p A_Integrity)
    /\ get_str q A_Encryption = ne (get_str p A_Encryption)
    /\ get_str q A_ValidCommands = ne (get_str p A_ValidCommands)
    /\ get_str q A_CryptoMethods = ne (get_str p A_CryptoMethods)
    /\ get_str q A_SessionExpires = option_map dec_of_Z (exported_expires p)
    /\ get_str q A_RemoteVersion = option_map short_version (ne (get_str p A_RemoteVersion)).
Proof.
  intros He. pose proof (export_ok_safe _ _ He) as Hs. unfold export_info in He. rewrite Hs in He. cbn [negb] in He.
  destruct (contains ch_hash (render_items (export_items p))); [discriminate|].
  inversion He; subst info. clear He.
  eexists. split.
  - apply import_info_steps; try reflexivity.
    unfold render_items. change (ch_lbr :: concat (map render_item (export_items p)) ++ [ch_rbr])
      with ((ch_lbr :: concat (map render_item (export_items p))) ++ [ch_rbr]).
    apply ends_with_snoc.
  - fold (attrs_of p).
    repeat split;
      rewrite get_str_version_step, get_str_crypto_step; unfold copied;
      rewrite !get_str_copy_if; eval_eqb; cbv iota beta.
    + rewrite (look_simple _ A_Integrity Hs) by (simpl; auto).
      destruct (ne (get_str p A_Integrity)); reflexivity.
    + rewrite (look_simple _ A_Encryption Hs) by (simpl; auto).
      destruct (ne (get_str p A_Encryption)); reflexivity.
    + rewrite (look_simple _ A_ValidCommands Hs) by (simpl; auto).
      destruct (ne (get_str p A_ValidCommands)); reflexivity.
    + rewrite (crypto_val_roundtrip _ Hs), (look_crypto _ Hs).
      destruct (ne (get_str p A_CryptoMethods)); reflexivity.
    + rewrite (look_expires _ Hs). destruct (exported_expires p); reflexivity.
    + rewrite (look_version _ Hs). destruct (ne (get_str p A_RemoteVersion)); reflexivity.
Qed.
