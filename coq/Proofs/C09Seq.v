(* Proofs/C09Seq.v — histories through one Message: the wrap-or-not decision is taken when an ad is
   serialised, from the stream's mode at that moment; nothing is remembered by the Message. *)
From Coq Require Import List NArith ZArith Lia Bool.
From Cedar Require Import Lib.Bytes gen.Consts Model.Msg Model.Privacy Model.AdWire Model.PrivacySeq Proofs.C09.
Import ListNotations.
Local Open Scope N_scope.

(* ---- the whitelist projection looks at names only ------------------------------------------ *)

Lemma filter_map_fst {B} (p : bytes -> bool) (l1 l2 : list (bytes * B)) :
  map fst l1 = map fst l2 ->
  map fst (filter (fun a => p (fst a)) l1) = map fst (filter (fun a => p (fst a)) l2).
Proof.
  revert l2; induction l1 as [|a r IH]; intros [|b r2] H; try discriminate; [reflexivity|].
  cbn [map] in H. inversion H as [[Hn Hr]]. cbn [filter]. rewrite Hn.
  destruct (p (fst b)); cbn [map]; [rewrite Hn; f_equal|]; apply IH, Hr.
Qed.

(* the names serialised are a function of the ad's NAMES, the options, the whitelist, EncryptedAttrs
   and the peer: no expression text (hence nothing an expression refers to) takes part *)
Lemma projection_ignores_expressions c (l1 l2 : list attr) :
  map fst l1 = map fst l2 -> map fst (attrs_to_send c l1) = map fst (attrs_to_send c l2).
Proof.
  intro H. unfold attrs_to_send, filter_whitelist, filter_privacy.
  destruct (c_whitelist c) as [|w wl].
  - apply (filter_map_fst (fun n => negb (dropped (exclude_private c) (exclude_private_v2 c) (c_enc_attrs c) n))), H.
  - apply (filter_map_fst (fun n => in_list n (w :: wl) &&
                                    negb (dropped (exclude_private c) (exclude_private_v2 c) (c_enc_attrs c) n))), H.
Qed.

(* every serialised name is an attribute of the ad, is on the whitelist when one is given, and passes
   the privacy filter: whatever the expressions are *)
Lemma whitelist_never_adds_private c attrs a :
  In a (attrs_to_send c attrs) ->
  In a attrs /\
  (c_whitelist c <> [] -> in_list (fst a) (c_whitelist c) = true) /\
  dropped (exclude_private c) (exclude_private_v2 c) (c_enc_attrs c) (fst a) = false /\
  (include_private c = false -> is_private_any (fst a) = false /\ in_list (fst a) (c_enc_attrs c) = false) /\
  (forall v, c_peer c = Some v -> built_since v 9 9 0 = false -> is_private_v2 (fst a) = false).
Proof.
  intro H. pose proof (in_attrs_to_send _ _ _ H) as (H1 & H2 & H3).
  split; [exact H1|]. split; [exact H3|]. split; [exact H2|]. split.
  - intro Hi. exact (default_deny _ _ _ Hi H).
  - intros v Hv Hb. exact (old_peer_no_v2 _ _ _ _ Hv Hb H).
Qed.

(* ---- a sender state that extends another by an output prefix ------------------------------ *)

Record ext (pre : list tframe) (st st' : sstate) : Prop := {
  ext_buf : s_buf st = s_buf st';
  ext_out : s_out st = pre ++ s_out st';
  ext_key : s_key st = s_key st';
  ext_enc : s_enc st = s_enc st' }.

Lemma ext_lift pre f st st' : ext pre st st' -> ext pre (s_lift f st) (s_lift f st').
Proof.
  intros [Hb Ho Hk He]. unfold s_lift, sealed_now. rewrite Hb, Hk, He.
  constructor; cbn [s_buf s_out s_key s_enc]; try reflexivity.
  rewrite Ho, <- app_assoc. reflexivity.
Qed.

Lemma ext_put_string pre st st' s : ext pre st st' -> ext pre (s_put_string st s) (s_put_string st' s).
Proof. intro H. unfold s_put_string. rewrite (ext_enc _ _ _ H). now apply ext_lift. Qed.

Lemma ext_put_secret pre st st' e :
  ext pre st st' -> ext pre (put_secret_expr st e) (put_secret_expr st' e).
Proof.
  intro H. unfold put_secret_expr.
  set (a := s_flush (s_put_string st secret_marker) false).
  set (a' := s_flush (s_put_string st' secret_marker) false).
  assert (Ha : ext pre a a') by (apply ext_lift, ext_put_string, H).
  clearbody a a'. destruct Ha as [Hb Ho Hk He].
  unfold s_put_string, s_flush, s_lift, s_prepare, s_restore, sealed_now.
  cbn [s_buf s_out s_key s_enc s_saved]. rewrite Hb, Hk, He.
  constructor; cbn [s_buf s_out s_key s_enc s_saved]; try reflexivity.
  rewrite Ho, <- !app_assoc. reflexivity.
Qed.

Lemma ext_put_one pre c es st st' a : ext pre st st' -> ext pre (put_one c es st a) (put_one c es st' a).
Proof.
  intro H. unfold put_one.
  destruct (es && (is_private_any (fst a) || in_list (fst a) (c_enc_attrs c)));
    [apply ext_put_secret|apply ext_put_string]; exact H.
Qed.

Lemma ext_fold pre c es l : forall st st', ext pre st st' ->
  ext pre (fold_left (put_one c es) l st) (fold_left (put_one c es) l st').
Proof. induction l as [|a r IH]; intros st st' H; [exact H|]. cbn [fold_left]. apply IH, ext_put_one, H. Qed.

Lemma ext_put_ad pre c st st' a : ext pre st st' -> ext pre (put_ad c st a) (put_ad c st' a).
Proof.
  intro H. unfold put_ad. cbv zeta.
  set (n := (Z.of_nat (length (attrs_to_send c (ad_attrs a))) + (if opt_server_time (c_opts c) then 1 else 0))%Z).
  set (st2 := if opt_server_time (c_opts c) then s_put_string (s_put_int st n) server_time_expr else s_put_int st n).
  set (st2' := if opt_server_time (c_opts c) then s_put_string (s_put_int st' n) server_time_expr else s_put_int st' n).
  assert (H2 : ext pre st2 st2').
  { subst st2 st2'. destruct (opt_server_time (c_opts c)); [apply ext_put_string|]; unfold s_put_int; apply ext_lift, H. }
  clearbody st2 st2'. rewrite (ext_key _ _ _ H2), (ext_enc _ _ _ H2).
  pose proof (ext_fold pre c (negb (secret_is_noop (s_key st2') (s_enc st2'))) (attrs_to_send c (ad_attrs a)) _ _ H2) as H3.
  destruct (opt_no_types (c_opts c)); [exact H3|]. apply ext_put_string, ext_put_string, H3.
Qed.

Lemma init_ext st : s_buf st = [] -> ext (s_out st) st (sstate_init (s_key st) (s_enc st)).
Proof.
  intro Hb. constructor; cbn [sstate_init s_buf s_out s_key s_enc]; try reflexivity; [exact Hb|].
  rewrite app_nil_r. reflexivity.
Qed.

(* ---- ad writes leave the stream's mode as it was ----------------------------------------- *)

Definition same_mode (st st' : sstate) : Prop := s_key st' = s_key st /\ s_enc st' = s_enc st.

Lemma mode_put_one c es st a : same_mode st (put_one c es st a).
Proof.
  unfold put_one. destruct (es && (is_private_any (fst a) || in_list (fst a) (c_enc_attrs c))); split; reflexivity.
Qed.

Lemma mode_fold c es l : forall st, same_mode st (fold_left (put_one c es) l st).
Proof.
  induction l as [|a r IH]; intro st; [split; reflexivity|]. cbn [fold_left].
  destruct (IH (put_one c es st a)) as [K E]. destruct (mode_put_one c es st a) as [K1 E1].
  split; congruence.
Qed.

Lemma mode_put_ad c st a : same_mode st (put_ad c st a).
Proof.
  unfold put_ad. cbv zeta.
  set (n := (Z.of_nat (length (attrs_to_send c (ad_attrs a))) + (if opt_server_time (c_opts c) then 1 else 0))%Z).
  set (st2 := if opt_server_time (c_opts c) then s_put_string (s_put_int st n) server_time_expr else s_put_int st n).
  assert (H2 : same_mode st st2) by (subst st2; destruct (opt_server_time (c_opts c)); split; reflexivity).
  clearbody st2. destruct H2 as [K2 E2].
  destruct (mode_fold c (negb (secret_is_noop (s_key st2) (s_enc st2))) (attrs_to_send c (ad_attrs a)) st2) as [K3 E3].
  destruct (opt_no_types (c_opts c)); split; cbn [s_put_string s_lift s_key s_enc]; congruence.
Qed.

(* ---- one step of a history ---------------------------------------------------------------- *)

Lemma seq_step_spec st o : s_buf st = [] ->
  s_buf (seq_step st o) = [] /\
  (s_key (seq_step st o), s_enc (seq_step st o)) = stream_step (s_key st, s_enc st) o /\
  s_out (seq_step st o) =
    s_out st ++ match o with
                | OPutAd c a => s_frames (s_finish (put_ad c (sstate_init (s_key st) (s_enc st)) a))
                | _ => []
                end.
Proof.
  intro Hb. destruct o as [| | | |c a]; cbn [seq_step set_mode stream_step fst snd s_buf s_out s_key s_enc];
    try (rewrite app_nil_r; repeat split; (exact Hb || reflexivity)).
  split; [reflexivity|]. split.
  - destruct (mode_put_ad c st a) as [K E]. unfold s_finish, s_flush, s_lift. cbn [s_key s_enc]. rewrite K, E. reflexivity.
  - pose proof (ext_lift _ (fun w => flush w true) _ _ (ext_put_ad _ c _ _ a (init_ext st Hb))) as H.
    exact (ext_out _ _ _ H).
Qed.

Lemma decision_at_serialisation_time ops : forall st, s_buf st = [] ->
  s_out (run_seq st ops) = s_out st ++ fresh_frames (s_key st, s_enc st) ops /\
  (s_key (run_seq st ops), s_enc (run_seq st ops)) = mode_after (s_key st, s_enc st) ops.
Proof.
  induction ops as [|o r IH]; intros st Hb.
  - cbn. rewrite app_nil_r. split; reflexivity.
  - unfold run_seq, mode_after. cbn [fold_left fresh_frames].
    destruct (seq_step_spec st o Hb) as (Hb' & Hm & Ho).
    destruct (IH _ Hb') as [I1 I2]. unfold run_seq, mode_after in I1, I2.
    rewrite I1, I2, Hm, Ho, <- app_assoc. split; [|reflexivity].
    reflexivity.
Qed.

Lemma fresh_frames_app a : forall ke b,
  fresh_frames ke (a ++ b) = fresh_frames ke a ++ fresh_frames (mode_after ke a) b.
Proof.
  induction a as [|o r IH]; intros ke b; [reflexivity|].
  cbn [app fresh_frames]. unfold mode_after. cbn [fold_left]. rewrite IH, <- app_assoc. reflexivity.
Qed.

(* an ad written at a moment when the stream holds a key and is not encrypting — whatever happened
   on the stream and through the Message before and after: its secrets' values do not show *)
Lemma seq_secret_sealed pre post c a1 a2 st :
  s_buf st = [] ->
  mode_after (s_key st, s_enc st) pre = (true, false) ->
  same_but_secrets c (ad_attrs a1) (ad_attrs a2) ->
  ad_mytype a1 = ad_mytype a2 -> ad_targettype a1 = ad_targettype a2 ->
  view (s_out (run_seq st (pre ++ OPutAd c a1 :: post))) = view (s_out (run_seq st (pre ++ OPutAd c a2 :: post))).
Proof.
  intros Hb Hm Hs Ht1 Ht2.
  destruct (decision_at_serialisation_time (pre ++ OPutAd c a1 :: post) st Hb) as [E1 _].
  destruct (decision_at_serialisation_time (pre ++ OPutAd c a2 :: post) st Hb) as [E2 _].
  rewrite E1, E2, !fresh_frames_app. cbn [fresh_frames stream_step]. rewrite Hm. cbn [fst snd].
  rewrite !view_app. f_equal. f_equal. f_equal.
  apply secret_sealed; [reflexivity|reflexivity|exact Hs|exact Ht1|exact Ht2].
Qed.

(* without the opt-in, at any point of any history: nothing written depends on private attributes *)
Lemma seq_noninterference pre post c a1 a2 st :
  include_private c = false ->
  filter public_attr (ad_attrs a1) = filter public_attr (ad_attrs a2) ->
  ad_mytype a1 = ad_mytype a2 -> ad_targettype a1 = ad_targettype a2 ->
  run_seq st (pre ++ OPutAd c a1 :: post) = run_seq st (pre ++ OPutAd c a2 :: post).
Proof.
  intros Hi Hf Ht1 Ht2. unfold run_seq. rewrite !fold_left_app. cbn [fold_left seq_step].
  rewrite (noninterference c _ a1 a2 Hi Hf Ht1 Ht2). reflexivity.
Qed.
