(* Proofs/C04sitesModel.v — ties the method table of Proofs/C04sites.v (strings, from the source)
   to the operations of the model (Proofs/C04Binding.v `cop`, Model/Frame.v): every class of
   method the handshake code calls before the key is installed IS a constructor of `cop`, the
   type C04_binding quantifies over; the two remaining classes are the key installation itself
   and FinalizeDigests, which C04_finalize_before_key_is_neutral covers where nothing follows it. *)
From Coq Require Import List Bool NArith.
From Cedar Require Import Lib.Bytes Model.Frame Proofs.C04Binding Proofs.C04sites gen.FactsC04.
Import ListNotations.
Local Open Scope N_scope.

Definition class_of (m : mclass) : copclass :=
  match m with
  | MSend => KSend | MRecv => KRecv | MSetAddr => KSetAddr | MSetAuth => KSetAuth | MNop => KNop
  | MKey => KKey | MFinalize => KFinalize
  end.

(* what a method class stands for in the model *)
Inductive stands_for : mclass -> Prop :=
| SF_cop : forall m (o : cop), cop_class o = class_of m -> stands_for m     (* an operation C04_binding quantifies over *)
| SF_key : stands_for MKey                                                  (* set_key: the end of the cleartext phase *)
| SF_fin : (forall s k iv, set_key (finalize_digests s) k iv = set_key s k iv) -> stands_for MFinalize.

Lemma every_class_stands_for m : stands_for m.
Proof.
  destruct m.
  - apply (SF_cop MSend (CSend [] 1)). reflexivity.
  - apply (SF_cop MRecv (CRecv 1 [])). reflexivity.
  - apply (SF_cop MSetAddr (CSetConn [])). reflexivity.
  - apply (SF_cop MSetAuth (CSetAuth true)). reflexivity.
  - apply (SF_cop MNop CNop). reflexivity.
  - apply SF_key.
  - apply SF_fin. exact set_key_after_finalize.
Qed.

Lemma every_handshake_call_stands_for_a_model_operation :
  forall c, In c (stream_calls ++ iface_calls) -> exists k, lookup (snd c) = Some k /\ stands_for k.
Proof.
  intros c Hc. destruct (every_handshake_call_is_modelled c Hc) as [k Hk].
  exists k. split; [exact Hk|apply every_class_stands_for].
Qed.

(* the cleartext-phase classes move the digests exactly as C04_digest_covers_all says:
   a send or a receive appends the frame's wire bytes, everything else leaves them alone *)
Lemma cleartext_operation_effect :
  forall (o : cop) (s s' : stream) (sb rb : bytes) (sw rw : bool),
    clear_phase s sb rb sw rw -> clear_step s o = Some s' ->
    clear_phase s' (sb ++ sent_bytes [o]) (rb ++ recvd_bytes [o]) (sw || any_sent [o]) (rw || any_recvd [o]).
Proof.
  intros o s s' sb rb sw rw C H. apply (digest_covers_all [o] s s' sb rb sw rw C).
  cbn [clear_run]. rewrite H. reflexivity.
Qed.
