(* Proofs/C15Export.v — ExportCryptoState / NewStreamWithCryptoState: refusal conditions,
   faithful restore, continuation of the session, chains of hand-offs, no nonce reuse. *)
From Coq Require Import List NArith ZArith Lia Bool.
From Cedar Require Import Lib.Bytes Lib.Sym gen.Consts Model.Frame Model.FrameSpec
     Proofs.FrameBase Proofs.C12Nonce.
Import ListNotations.
Local Open Scope N_scope.

(* the stream is an established encrypted session at a clean message boundary *)
Definition clean (s : stream) : Prop :=
  encrypted s = true /\ (exists k, key s = Some k /\ lenN k = KeyLen) /\
  fin_send_aad s = true /\ fin_recv_aad s = true /\
  in_msg s = false /\ bytes_read s = 0 /\ recv_buf s = [] /\ send_buf s = [] /\ send_eom s = false.

Lemma lenN_eqb_zero_nil (l : bytes) : (lenN l =? 0) = true -> l = [].
Proof. intro H. apply N.eqb_eq in H. apply lenN_zero_nil. exact H. Qed.

Lemma export_ok_clean s b : export_state s = SOk b -> clean s.
Proof.
  unfold export_state, clean.
  destruct (encrypted s); cbn [negb]; [|discriminate].
  destruct (key s) as [k|]; [|discriminate].
  destruct (lenN k =? KeyLen) eqn:Ek; cbn [negb]; [|discriminate].
  destruct (fin_send_aad s); cbn [andb negb]; [|discriminate].
  destruct (fin_recv_aad s); cbn [negb]; [|discriminate].
  destruct (in_msg s); [discriminate|].
  destruct (bytes_read s =? 0) eqn:Eb; cbn [negb]; [|discriminate].
  destruct (lenN (recv_buf s) =? 0) eqn:Er; cbn [negb]; [|discriminate].
  destruct (lenN (send_buf s) =? 0) eqn:Es; cbn [negb]; [|discriminate].
  destruct (send_eom s); [discriminate|].
  intros _. repeat split; try reflexivity.
  - exists k. split; [reflexivity|apply N.eqb_eq; exact Ek].
  - apply N.eqb_eq; exact Eb.
  - apply lenN_eqb_zero_nil; exact Er.
  - apply lenN_eqb_zero_nil; exact Es.
Qed.

Lemma clean_export_ok s : clean s -> exists b, export_state s = SOk b.
Proof.
  intros [He [[k [Hk Hl]] [Hfs [Hfr [Hi [Hb [Hr [Hsb Hse]]]]]]]].
  unfold export_state. rewrite He, Hk, Hfs, Hfr, Hi, Hb, Hr, Hsb, Hse.
  apply N.eqb_eq in Hl. rewrite Hl. cbn. eexists. reflexivity.
Qed.

(* flag byte round trip: the six flags are distinct bits *)
Lemma flags_roundtrip b1 b2 b3 b4 b5 b6 :
  let fl := flag_if b1 CsFlagEncrypted + flag_if b2 CsFlagAuthenticated + flag_if b3 CsFlagFinSendAAD +
            flag_if b4 CsFlagFinRecvAAD + flag_if b5 CsFlagSendDgWritten + flag_if b6 CsFlagRecvDgWritten in
  has_flag fl CsFlagEncrypted = b1 /\ has_flag fl CsFlagAuthenticated = b2 /\
  has_flag fl CsFlagFinSendAAD = b3 /\ has_flag fl CsFlagFinRecvAAD = b4 /\
  has_flag fl CsFlagSendDgWritten = b5 /\ has_flag fl CsFlagRecvDgWritten = b6 /\ fl < 256.
Proof. destruct b1, b2, b3, b4, b5, b6; vm_compute; repeat split; reflexivity. Qed.

(* the fields every later send / receive / export reads *)
Record same_session (s s' : stream) : Prop := {
  ss_key : key s' = key s; ss_enc : encrypted s' = encrypted s; ss_auth : authenticated s' = authenticated s;
  ss_eiv : enc_iv s' = enc_iv s; ss_div : dec_iv s' = dec_iv s;
  ss_ectr : enc_ctr s' = enc_ctr s; ss_dctr : dec_ctr s' = dec_ctr s;
  ss_fs : fin_send_aad s' = fin_send_aad s; ss_fr : fin_recv_aad s' = fin_recv_aad s;
  ss_sdf : dg_final (send_dg s') = dg_final (send_dg s); ss_rdf : dg_final (recv_dg s') = dg_final (recv_dg s);
  ss_sdw : dg_written (send_dg s') = dg_written (send_dg s); ss_rdw : dg_written (recv_dg s') = dg_written (recv_dg s);
  ss_sb : send_buf s' = send_buf s; ss_se : send_eom s' = send_eom s;
  ss_rb : recv_buf s' = recv_buf s; ss_br : bytes_read s' = bytes_read s; ss_im : in_msg s' = in_msg s
}.

Lemma import_export s b peer :
  export_state s = SOk b -> exists s', import_state b peer = SOk s' /\ same_session s s'.
Proof.
  intro He. pose proof (export_ok_clean _ _ He) as Hc.
  destruct Hc as [Henc [[k [Hk Hl]] [Hfs [Hfr [Hi [Hb [Hr [Hsb Hse]]]]]]]].
  unfold export_state in He. rewrite Henc, Hk, Hfs, Hfr, Hi, Hb, Hr, Hsb, Hse in He.
  apply N.eqb_eq in Hl. rewrite Hl in He. cbn [negb andb lenN lenN_acc N.eqb] in He.
  injection He as <-.
  unfold import_state. cbn [b_magic b_version b_flags b_key b_eiv b_div b_ectr b_dctr b_sdg b_rdg b_peer].
  assert (Em : bytes_eqb [n2b CsMagic0; n2b CsMagic1; n2b CsMagic2; n2b CsMagic3]
                         [n2b CsMagic0; n2b CsMagic1; n2b CsMagic2; n2b CsMagic3] = true)
    by (apply bytes_eqb_eq; reflexivity).
  rewrite Em, N.eqb_refl. cbn [negb].
  eexists. split; [reflexivity|].
  destruct (flags_roundtrip true (authenticated s) true true (dg_written (send_dg s)) (dg_written (recv_dg s)))
    as [F1 [F2 [F3 [F4 [F5 [F6 _]]]]]].
  cbv zeta in F1, F2, F3, F4, F5, F6.
  clear F1 F2 F3 F4 F5 F6.
  constructor; proj_simpl; cbn [dg_final dg_written]; try reflexivity; try congruence;
    rewrite ?Hfs, ?Hfr, ?Henc;
    destruct (authenticated s), (dg_written (send_dg s)), (dg_written (recv_dg s)); vm_compute; reflexivity.
Qed.

(* ---- digests of an established session are frozen ------------------------ *)
Definition digests_final (s : stream) : Prop :=
  dg_final (send_dg s) <> None /\ dg_final (recv_dg s) <> None.

Lemma set_key_final s k iv s' : set_key s k iv = SOk s' -> digests_final s'.
Proof.
  unfold set_key. destruct (negb (lenN k =? KeyLen)); [discriminate|].
  intro E; injection E as <-. split; cbn; discriminate.
Qed.

(* the hand-off keeps the pairing with the untouched peer, in both directions *)
Lemma same_session_paired_l s s' P :
  same_session s s' -> digests_final s -> paired s P -> paired s' P.
Proof.
  intros SS [F1 F2] [Hk He Hc Hiv Hivl Hf Hsd Hrd].
  destruct SS. constructor; try congruence.
  - intro H. rewrite ss_ectr0 in H. rewrite ss_eiv0. apply Hiv. exact H.
  - destruct Hsd as [[Hn _]|[_ [Hp Hv]]]; [congruence|].
    right. split; [congruence|]. split; [exact Hp|].
    unfold dg_value in *. rewrite ss_sdf0. destruct (dg_final (send_dg s)); [exact Hv|congruence].
  - destruct Hrd as [[Hn _]|[_ [Hp Hv]]]; [congruence|].
    right. split; [congruence|]. split; [exact Hp|].
    unfold dg_value in *. rewrite ss_rdf0. destruct (dg_final (recv_dg s)); [exact Hv|congruence].
Qed.

Lemma same_session_paired_r s s' P :
  same_session s s' -> digests_final s -> paired P s -> paired P s'.
Proof.
  intros SS [F1 F2] [Hk He Hc Hiv Hivl Hf Hsd Hrd].
  destruct SS. constructor; try congruence.
  - intro H. rewrite ss_div0. apply Hiv. exact H.
  - apply dsim_sym. apply dsim_sym in Hsd.
    destruct Hsd as [[Hn _]|[_ [Hp Hv]]]; [congruence|].
    right. split; [congruence|]. split; [exact Hp|].
    unfold dg_value in *. rewrite ss_rdf0. destruct (dg_final (recv_dg s)); [exact Hv|congruence].
  - apply dsim_sym. apply dsim_sym in Hrd.
    destruct Hrd as [[Hn _]|[_ [Hp Hv]]]; [congruence|].
    right. split; [congruence|]. split; [exact Hp|].
    unfold dg_value in *. rewrite ss_sdf0. destruct (dg_final (send_dg s)); [exact Hv|congruence].
Qed.

Lemma same_session_final s s' : same_session s s' -> digests_final s -> digests_final s'.
Proof. intros SS [F1 F2]. destruct SS. split; congruence. Qed.

(* one hand-off: the rebuilt stream is paired with the peer exactly as the exporter was *)
Lemma handoff_continues s P b peer :
  duplex s P -> digests_final s -> export_state s = SOk b ->
  exists s', import_state b peer = SOk s' /\ duplex s' P /\ digests_final s' /\ same_session s s'.
Proof.
  intros [P1 P2] F He. destruct (import_export _ _ peer He) as [s' [Hi SS]].
  exists s'. split; [exact Hi|]. split; [|split; [eapply same_session_final; eassumption|exact SS]].
  split; [eapply same_session_paired_l; eassumption|eapply same_session_paired_r; eassumption].
Qed.

(* the rebuilt stream can itself be exported again at once (chains of hand-offs) *)
Lemma handoff_clean s s' : same_session s s' -> clean s -> clean s'.
Proof.
  intros SS [He [[k [Hk Hl]] [Hfs [Hfr [Hi [Hb [Hr [Hsb Hse]]]]]]]]. destruct SS.
  unfold clean. repeat split; try congruence. exists k. split; [congruence|exact Hl].
Qed.

(* ---- no nonce reuse across a hand-off ------------------------------------- *)
Lemma no_nonce_reuse_across s ops1 s1 es1 fs1 b peer s1' ops2 s2 es2 fs2 :
  enc_ctr s <= CounterGuard ->
  run_sops s ops1 = (s1, es1, fs1) ->
  export_state s1 = SOk b -> import_state b peer = SOk s1' ->
  run_sops s1' ops2 = (s2, es2, fs2) ->
  NoDup (key_nonces (fs1 ++ fs2)).
Proof.
  intros Hle R1 He Hi R2.
  destruct (import_export _ _ peer He) as [sx [Hi2 SS]]. rewrite Hi in Hi2. injection Hi2 as <-.
  destruct SS.
  destruct (key s) as [k|] eqn:Hk.
  - destruct (run_sops_numbered _ _ _ _ _ _ Hk Hle R1) as [N1 [[K1 I1] C1]].
    assert (Hk1' : key s1' = Some k) by congruence.
    assert (C1' : enc_ctr s1' <= CounterGuard) by (rewrite ss_ectr0; exact C1).
    destruct (run_sops_numbered _ _ _ _ _ _ Hk1' C1' R2) as [N2 _].
    rewrite ss_eiv0, ss_ectr0, I1 in N2.
    eapply numbered_nodup. eapply numbered_app; eassumption.
  - destruct (run_sops_nokey _ _ _ _ _ Hk R1) as [K1 _].
    pose proof (export_ok_clean _ _ He) as [_ [[k [Hk1 _]] _]]. congruence.
Qed.
