(* Proofs/C03.v — lemmas and proofs for property C03. *)
From Coq Require Import List NArith ZArith Bool Lia.
From Cedar Require Import Model.Negotiate Model.Handshake Proofs.C10.
Import ListNotations.
Local Open Scope Z_scope.

(* the exchanges in [ran]: all failed, except a final successful one with [m] *)
Definition one_success (ran : list (meth * bool)) (m : meth) : Prop :=
  exists mid, ran = mid ++ [(m, true)] /\ forall x, In x mid -> snd x = false.
Definition all_failed (ran : list (meth * bool)) : Prop := forall x, In x ran -> snd x = false.

Lemma all_failed_app a b : all_failed a -> all_failed b -> all_failed (a ++ b).
Proof. intros Ha Hb x Hx. apply in_app_or in Hx as [H|H]; auto. Qed.

Lemma all_failed_nil : all_failed []. Proof. intros x []. Qed.

Lemma all_failed_one m : all_failed [(m, false)].
Proof. intros x [<-|[]]. reflexivity. Qed.

Lemma one_success_in ran m : one_success ran m -> In (m, true) ran.
Proof. intros [mid [-> _]]. apply in_or_app. right. left. reflexivity. Qed.

Lemma one_success_unique ran m x : one_success ran m -> In (x, true) ran -> x = m.
Proof.
  intros [mid [-> Hf]] H. apply in_app_or in H as [H|[H|[]]].
  - apply Hf in H. discriminate.
  - congruence.
Qed.

Lemma all_failed_no_success ran x : all_failed ran -> ~ In (x, true) ran.
Proof. intros H Hin. apply H in Hin. discriminate. Qed.

(* ---- the client's loop --------------------------------------------------------- *)

Lemma client_loop_done cms : forall replies avail ran m ran',
  all_failed ran ->
  client_loop cms replies avail ran = LDone m ran' ->
  In m cms /\ one_success ran' m.
Proof.
  induction replies as [|rp rest IH]; intros avail ran m ran' Hf H; simpl in H.
  - destruct (avail =? 0); discriminate.
  - destruct (avail =? 0); [discriminate|].
    destruct (rp_bit rp =? 0); [discriminate|].
    destruct (of_bit (rp_bit rp)) as [mb|] eqn:Eb.
    2:{ eapply IH; eauto. }
    destruct (offered_under cms (rp_bit rp)) as [mc|] eqn:Eo; [|discriminate].
    unfold offered_under in Eo. apply find_some in Eo as [Eo _].
    destruct (Z.land (rp_bit rp) avail =? 0); [discriminate|].
    destruct (meth_eqb mc mPW).
    + (* PASSWORD stub *) eapply IH; eauto.
    + destruct (rp_res rp).
      * destruct (rp_haskey_ok rp); [|discriminate]. inversion H; subst. split; [assumption|].
        exists ran. split; [reflexivity | exact Hf].
      * eapply IH; [|exact H]. apply all_failed_app; [assumption | apply all_failed_one].
      * discriminate.
Qed.

(* ---- the server's loop --------------------------------------------------------- *)

Lemma server_loop_done sm : forall masks ran m ran',
  all_failed ran ->
  server_loop sm masks ran = LDone m ran' ->
  In m sm /\ one_success ran' m.
Proof.
  induction masks as [|st rest IH]; intros ran m ran' Hf H; simpl in H; [discriminate|].
  destruct (m_mask st =? 0); [discriminate|].
  destruct (srv_select sm (m_mask st)) as [ms|] eqn:Es.
  2:{ eapply IH; eauto. }
  apply srv_select_some in Es as [Hin _].
  destruct (meth_eqb ms mPW).
  - eapply IH; eauto.
  - destruct (m_res st).
    + inversion H; subst. split; [assumption|]. exists ran. split; [reflexivity | exact Hf].
    + eapply IH; [|exact H]. apply all_failed_app; [assumption | apply all_failed_one].
    + discriminate.
Qed.

(* ---- what a successful handshake implies, per role -------------------------------- *)

Definition good_result (c : cfg) (peer_key : keymat) (r : result) : Prop :=
  (* reported encryption = real state; key really derived from a usable peer key *)
  r_enc r = g_encrypted r /\
  (g_encrypted r = true -> g_key r = Some (KDerived peer_key) /\ key_valid peer_key = true /\ c_haskey c = true) /\
  (g_encrypted r = false -> g_key r = None) /\
  (* REQUIRED encryption / integrity *)
  (needs_protection c = true -> g_encrypted r = true) /\
  (* reported authentication = what ran *)
  ((r_auth r = true /\ one_success (g_ran r) (r_meth r) /\ In (r_meth r) (c_meths c)) \/
   (r_auth r = false /\ g_ran r = [])) /\
  (* REQUIRED authentication *)
  (c_auth c = Rq -> r_auth r = true).

Lemma installs_key_valid own k ci : installs_key own k ci = true -> key_valid k = true /\ own = true.
Proof.
  unfold installs_key. intro H. apply andb_true_iff in H as [H H4].
  apply andb_true_iff in H as [H _]. apply andb_true_iff in H as [H1 _]. auto.
Qed.

Lemma negotiate_auth_required_client sS cA sE cE sI cI sm cm sc cc :
  ni_err (negotiate_i sS cA sE cE sI cI sm cm sc cc) = None -> cA = Rq ->
  ni_auth (negotiate_i sS cA sE cE sI cI sm cm sc cc) = true.
Proof.
  intros H ->. unfold negotiate_i, decide_i in *.
  assert (S1 : forall b, should sS Rq b = true) by (intro b; unfold should; simpl; rewrite orb_true_r; reflexivity).
  rewrite !S1 in *. simpl in *.
  repeat (match type of H with context [if ?c then _ else _] => destruct c end; simpl in *; try discriminate).
  reflexivity.
Qed.

Lemma negotiate_auth_required_server sA cS sE cE sI cI sm cm sc cc :
  ni_err (negotiate_i sA cS sE cE sI cI sm cm sc cc) = None -> sA = Rq ->
  ni_auth (negotiate_i sA cS sE cE sI cI sm cm sc cc) = true.
Proof.
  intros H ->. unfold negotiate_i, decide_i in *.
  assert (S1 : forall b, should Rq cS b = true) by (intro b; reflexivity).
  rewrite !S1 in *. simpl in *.
  repeat (match type of H with context [if ?c then _ else _] => destruct c end; simpl in *; try discriminate).
  reflexivity.
Qed.

Definition finish_facts (c : cfg) (pk : keymat) (auth : bool) (m : meth) (ran : list (meth * bool)) (r : result) : Prop :=
  r_auth r = auth /\ r_meth r = m /\ g_ran r = ran /\
  r_enc r = g_encrypted r /\
  (g_encrypted r = true -> g_key r = Some (KDerived pk) /\ key_valid pk = true /\ c_haskey c = true) /\
  (g_encrypted r = false -> g_key r = None) /\
  (needs_protection c = true -> g_encrypted r = true).

Lemma client_finish_ok c s k auth m ran r :
  client_finish c s k auth m ran = Ok r -> finish_facts c (s_key s) auth m ran r.
Proof.
  unfold client_finish, finish_facts. cbv zeta. intro E.
  destruct (installs_key (c_haskey c) (s_key s) k) eqn:Ek; simpl in E.
  - destruct (negb _) in E; [discriminate|]. destruct (rc_rejects (s_post_rc s)); [discriminate|].
    inversion E; subst; simpl. apply installs_key_valid in Ek as [K1 K2].
    repeat split; auto; discriminate.
  - destruct (needs_protection c) eqn:Ep; [discriminate|].
    destruct (negb _) in E; [discriminate|]. destruct (rc_rejects (s_post_rc s)); [discriminate|].
    inversion E; subst; simpl. repeat split; auto; discriminate.
Qed.

Lemma server_finish_ok c s k auth m ran r :
  server_finish c s k auth m ran = Ok r -> finish_facts c (q_key s) auth m ran r.
Proof.
  unfold server_finish, finish_facts. cbv zeta. intro E.
  destruct (installs_key (c_haskey c) (q_key s) k) eqn:Ek; simpl in E.
  - inversion E; subst; simpl. apply installs_key_valid in Ek as [K1 K2].
    repeat split; auto; discriminate.
  - destruct (needs_protection c) eqn:Ep; [discriminate|].
    inversion E; subst; simpl. repeat split; auto; discriminate.
Qed.

Lemma client_ok c s r : client_hs c s = Ok r -> good_result c (s_key s) r.
Proof.
  unfold client_hs. intro H. cbv zeta in H.
  destruct (rc_rejects (s_rc s)); [discriminate|].
  set (sm := prefer_list (s_list s) (s_single s)) in *.
  set (sc := prefer_list (s_clist s) (s_csingle s)) in *.
  set (n := negotiate_i (to_lvl (s_auth s)) (c_auth c) (to_lvl (s_enc s)) (c_enc c) (s_integ s) (c_integ c)
                        sm (c_meths c) sc (c_ciphs c)) in *.
  destruct (ni_err n) eqn:En; [discriminate|].
  destruct (is_yes (s_auth s)) eqn:Ey.
  - destruct sm as [|m0 sm0] eqn:Esm; [discriminate|].
    destruct (cl_methods (c_meths c) (m0 :: sm0)) as [|c0 cr] eqn:Ecms; [discriminate|].
    destruct (client_loop (c0 :: cr) (s_replies s) (mask (c0 :: cr)) []) as [m ran|ran] eqn:El; [|discriminate].
    apply client_loop_done in El as [Hin Hone]; [|apply all_failed_nil].
    destruct (client_finish_ok _ _ _ _ _ _ _ H) as (A & B & C & D & E & F & G).
    rewrite <- Ecms in Hin. apply cl_methods_In in Hin as [Hin _].
    unfold good_result.
    split; [exact D|]. split; [exact E|]. split; [exact F|]. split; [exact G|]. split.
    + left. rewrite A, B, C. auto.
    + intros _. exact A.
  - destruct (is_rq (c_auth c)) eqn:Erq; [discriminate|].
    destruct (client_finish_ok _ _ _ _ _ _ _ H) as (A & B & C & D & E & F & G).
    unfold good_result.
    split; [exact D|]. split; [exact E|]. split; [exact F|]. split; [exact G|]. split.
    + right. auto.
    + intro Hc. rewrite Hc in Erq. discriminate.
Qed.

Lemma server_ok c s r : server_hs c s = Ok r -> good_result c (q_key s) r.
Proof.
  unfold server_hs. intro H. cbv zeta in H.
  destruct (negb (q_cmd_ok s)); [discriminate|].
  set (n := negotiate_i (c_auth c) (to_lvl (q_auth s)) (c_enc c) (to_lvl (q_enc s)) (c_integ c) (q_integ s)
                        (c_meths c) (q_meths s) (c_ciphs c) (q_ciphs s)) in *.
  destruct (ni_err n) eqn:En; [discriminate|].
  destruct (ni_auth n) eqn:Ea.
  - destruct (server_loop (c_meths c) (q_masks s) []) as [m ran|ran] eqn:El; [|discriminate].
    apply server_loop_done in El as [Hin Hone]; [|apply all_failed_nil].
    destruct (server_finish_ok _ _ _ _ _ _ _ H) as (A & B & C & D & E & F & G).
    unfold good_result.
    split; [exact D|]. split; [exact E|]. split; [exact F|]. split; [exact G|]. split.
    + left. rewrite A, B, C. auto.
    + intros _. exact A.
  - destruct (server_finish_ok _ _ _ _ _ _ _ H) as (A & B & C & D & E & F & G).
    unfold good_result.
    split; [exact D|]. split; [exact E|]. split; [exact F|]. split; [exact G|]. split.
    + right. auto.
    + intro Hc. exfalso.
      pose proof (negotiate_auth_required_server (c_auth c) (to_lvl (q_auth s)) (c_enc c) (to_lvl (q_enc s))
                    (c_integ c) (q_integ s) (c_meths c) (q_meths s) (c_ciphs c) (q_ciphs s) En Hc) as K.
      fold n in K. congruence.
Qed.

(* ---- the four properties, for either role ---------------------------------------- *)

Inductive run :=
| AsClient (c : cfg) (s : sscript)
| AsServer (c : cfg) (s : cscript).
Definition run_cfg (x : run) : cfg := match x with AsClient c _ | AsServer c _ => c end.
Definition run_out (x : run) : outcome :=
  match x with AsClient c s => client_hs c s | AsServer c s => server_hs c s end.

Lemma run_ok x r : run_out x = Ok r -> exists k, good_result (run_cfg x) k r.
Proof.
  destruct x; simpl; intro H.
  - exists (s_key s). apply client_ok. assumption.
  - exists (q_key s). apply server_ok. assumption.
Qed.

Lemma auth_required x r :
  run_out x = Ok r -> c_auth (run_cfg x) = Rq ->
  exists m, In (m, true) (g_ran r) /\ In m (c_meths (run_cfg x)).
Proof.
  intros H Hr. destruct (run_ok _ _ H) as [k (_ & _ & _ & _ & [(A & B & C)|(A & _)] & F)].
  - exists (r_meth r). split; [apply one_success_in; assumption | assumption].
  - rewrite (F Hr) in A. discriminate.
Qed.

Lemma enc_required x r :
  run_out x = Ok r -> (c_enc (run_cfg x) = Rq \/ c_integ (run_cfg x) = Rq) ->
  g_encrypted r = true /\ exists k, g_key r = Some (KDerived k) /\ key_valid k = true.
Proof.
  intros H Hr. destruct (run_ok _ _ H) as [k (_ & B & _ & D & _)].
  assert (P : needs_protection (run_cfg x) = true).
  { unfold needs_protection. destruct Hr as [-> | ->]; simpl; [reflexivity | apply orb_true_r]. }
  specialize (D P). split; [assumption|]. destruct (B D) as (K1 & K2 & _). eauto.
Qed.

Lemma report_enc x r :
  run_out x = Ok r ->
  r_enc r = g_encrypted r /\ (g_encrypted r = true <-> g_key r <> None).
Proof.
  intros H. destruct (run_ok _ _ H) as [k (A & B & C & _)]. split; [assumption|]. split.
  - intro E. destruct (B E) as (K & _). rewrite K. discriminate.
  - intro E. destruct (g_encrypted r) eqn:G; [reflexivity|]. rewrite (C eq_refl) in E. congruence.
Qed.

Lemma report_auth x r :
  run_out x = Ok r ->
  (r_auth r = true <-> exists m, In (m, true) (g_ran r)) /\
  (r_auth r = true ->
     In (r_meth r, true) (g_ran r) /\ In (r_meth r) (c_meths (run_cfg x)) /\
     forall m, In (m, true) (g_ran r) -> m = r_meth r).
Proof.
  intros H. destruct (run_ok _ _ H) as [k (_ & _ & _ & _ & [(A & B & C)|(A & B)] & _)].
  - split.
    + split; [intros _; exists (r_meth r); apply one_success_in; assumption | auto].
    + intros _. repeat split; auto.
      * apply one_success_in; assumption.
      * intros m Hm. eapply one_success_unique; eauto.
  - split.
    + split; [intro E; congruence | intros [m Hm]; rewrite B in Hm; contradiction].
    + intro E. congruence.
Qed.

(* ---- resumed handshakes --------------------------------------------------------------- *)

Inductive rrun :=
| ResumeAsClient (c : cfg) (e : sentry) (rp : rreply)
| ResumeAsServer (c : cfg) (found : option sentry).
Definition rrun_cfg (x : rrun) : cfg := match x with ResumeAsClient c _ _ | ResumeAsServer c _ => c end.
Definition rrun_out (x : rrun) : outcome :=
  match x with ResumeAsClient c e rp => client_resume c e rp | ResumeAsServer c f => server_resume c f end.
Definition rrun_is_client (x : rrun) : bool := match x with ResumeAsClient _ _ _ => true | _ => false end.
(* the entry that was resumed, if the handshake got that far *)
Definition rrun_entry (x : rrun) : option sentry :=
  match x with ResumeAsClient _ e _ => Some e | ResumeAsServer _ f => f end.

Definition resumed_good (client : bool) (c : cfg) (e : sentry) (r : result) : Prop :=
  r_enc r = g_encrypted r /\
  r_auth r = entry_authenticated e /\
  g_ran r = [] /\
  (g_encrypted r = true -> usable_key e = true /\ g_key r = Some KCached) /\
  (g_encrypted r = false -> g_key r = None) /\
  (needs_protection c = true -> g_encrypted r = true) /\
  (client = true -> c_auth c = Rq -> entry_authenticated e = true).

Lemma resumed_result_good client c e enc r :
  resumed_result client c e enc = Ok r -> (enc = true -> usable_key e = true) -> resumed_good client c e r.
Proof.
  unfold resumed_result. intros H Hu.
  destruct (negb enc && needs_protection c) eqn:E1; [discriminate|].
  destruct (client && is_rq (c_auth c) && negb (entry_authenticated e)) eqn:E2; [discriminate|].
  inversion H; subst; simpl. unfold resumed_good; simpl.
  split; [reflexivity|]. split; [reflexivity|]. split; [reflexivity|]. split; [|split; [|split]].
  - intro E. rewrite E. auto.
  - intro E. rewrite E. reflexivity.
  - intro P. rewrite P in E1. destruct enc; [reflexivity | discriminate].
  - intros Hcl Hc. rewrite Hcl, Hc in E2. simpl in E2. apply negb_false_iff in E2. exact E2.
Qed.

Lemma rrun_ok x r : rrun_out x = Ok r ->
  exists e, rrun_entry x = Some e /\ resumed_good (rrun_is_client x) (rrun_cfg x) e r.
Proof.
  destruct x as [c e rp | c f]; simpl; intro H.
  - exists e. split; [reflexivity|]. unfold client_resume in H.
    destruct rp as [|rc]; [discriminate|]. destruct (rc_rejects rc); [discriminate|].
    destruct (e_key e) as [|a|a|a] eqn:K.
    + apply resumed_result_good in H; [assumption | discriminate].
    + apply resumed_result_good in H; [assumption | discriminate].
    + destruct a.
      * apply resumed_result_good in H; [assumption|]. intros _. unfold usable_key. rewrite K. reflexivity.
      * destruct (needs_protection c); [discriminate|]. apply resumed_result_good in H; [assumption | discriminate].
    + destruct a; [discriminate|].
      destruct (needs_protection c); [discriminate|]. apply resumed_result_good in H; [assumption | discriminate].
  - unfold server_resume in H. destruct f as [e|]; [|discriminate].
    exists e. split; [reflexivity|]. destruct (usable_key e) eqn:U; [|discriminate].
    apply resumed_result_good in H; auto.
Qed.

Lemma resumed_auth_required_client c e rp r :
  client_resume c e rp = Ok r -> c_auth c = Rq -> e_authed e = Some true.
Proof.
  intros H Hc. destruct (rrun_ok (ResumeAsClient c e rp) r H) as [e' [He G]].
  simpl in He. inversion He; subst e'.
  destruct G as (_ & _ & _ & _ & _ & _ & A). specialize (A eq_refl Hc).
  unfold entry_authenticated in A. destruct (e_authed e) as [[|]|]; try discriminate. reflexivity.
Qed.

(* the server side does not enforce it at the handshake: witness *)
Lemma resumed_auth_required_server_refuted :
  exists c e r, server_resume c (Some e) = Ok r /\ c_auth c = Rq /\ e_authed e = Some false.
Proof.
  exists (mkCfg Rq Op Op [mCTB] [cAES] true), (mkE (EK32 true) (Some false)).
  eexists. split; [vm_compute; reflexivity | split; reflexivity].
Qed.

Lemma resumed_enc_required x r :
  rrun_out x = Ok r -> (c_enc (rrun_cfg x) = Rq \/ c_integ (rrun_cfg x) = Rq) ->
  g_encrypted r = true /\ g_key r = Some KCached /\
  exists e, rrun_entry x = Some e /\ usable_key e = true.
Proof.
  intros H Hr. destruct (rrun_ok _ _ H) as [e [He G]].
  destruct G as (_ & _ & _ & B & _ & D & _).
  assert (P : needs_protection (rrun_cfg x) = true).
  { unfold needs_protection. destruct Hr as [-> | ->]; simpl; [reflexivity | apply orb_true_r]. }
  specialize (D P). destruct (B D) as [U K]. repeat split; auto. exists e. auto.
Qed.

Lemma resumed_report x r :
  rrun_out x = Ok r ->
  r_enc r = g_encrypted r /\ (g_encrypted r = true <-> g_key r <> None) /\
  g_ran r = [] /\
  exists e, rrun_entry x = Some e /\ (r_auth r = true <-> e_authed e = Some true).
Proof.
  intros H. destruct (rrun_ok _ _ H) as [e [He G]].
  destruct G as (A & B & C & D & E & _ & _).
  split; [assumption|]. split.
  { split.
    - intro K. destruct (D K) as [_ K2]. rewrite K2. discriminate.
    - intro K. destruct (g_encrypted r) eqn:G; [reflexivity|]. rewrite (E eq_refl) in K. congruence. }
  split; [assumption|]. exists e. split; [assumption|].
  rewrite B. unfold entry_authenticated. destruct (e_authed e) as [[|]|]; split; intro X; congruence.
Qed.
