(* Proofs/C08Round.v — the wire layout of a ClassAd: count, "name = expr" strings, two type names. *)
From Coq Require Import List NArith ZArith Lia Bool.
From Cedar Require Import Lib.Bytes gen.Consts Model.Msg Model.Privacy Model.AdWire Proofs.C14Reader Proofs.C14Writer Proofs.C14Roundtrip.
Import ListNotations.
Local Open Scope N_scope.

(* every payload byte handed to the stream so far, followed by what is still buffered *)
Definition s_bytes (st : sstate) : bytes := concat (map (fun f : tframe => fst (snd f)) (s_out st)) ++ s_buf st.

Lemma s_lift_bytes f st delta :
  (forall buf, content (f {| w_buf := buf; w_out := [] |}) = buf ++ delta) ->
  s_bytes (s_lift f st) = s_bytes st ++ delta.
Proof.
  intro H. unfold s_bytes, s_lift. cbn [s_out s_buf].
  specialize (H (s_buf st)). unfold content in H.
  rewrite map_app, concat_app, map_map. cbn [snd fst].
  rewrite <- !app_assoc. f_equal. rewrite <- H. f_equal.
Qed.

Lemma s_put_int_bytes st z : s_bytes (s_put_int st z) = s_bytes st ++ enc_int z.
Proof. apply s_lift_bytes. intro buf. rewrite content_put_int. reflexivity. Qed.

Lemma s_put_string_bytes st s : s_bytes (s_put_string st s) = s_bytes st ++ string_bytes (s_enc st) s.
Proof. apply s_lift_bytes. intro buf. rewrite content_put_string. reflexivity. Qed.

Lemma s_flush_bytes st e : s_bytes (s_flush st e) = s_bytes st.
Proof.
  unfold s_flush. rewrite (s_lift_bytes _ st []); [apply app_nil_r|].
  intro buf. rewrite content_flush, app_nil_r. reflexivity.
Qed.

Lemma s_put_string_flags st s : s_key (s_put_string st s) = s_key st /\ s_enc (s_put_string st s) = s_enc st.
Proof. split; reflexivity. Qed.

(* no crypto toggling: no key, or already encrypting *)
Lemma fold_put_one_plain c l : forall st,
  s_bytes (fold_left (put_one c false) l st)
  = s_bytes st ++ concat (map (fun a => string_bytes (s_enc st) (expr_text a)) l)
  /\ s_enc (fold_left (put_one c false) l st) = s_enc st /\ s_key (fold_left (put_one c false) l st) = s_key st.
Proof.
  induction l as [|a l IH]; intro st; cbn [fold_left map concat].
  - rewrite app_nil_r. auto.
  - unfold put_one at 2 4 6. cbn [andb].
    destruct (IH (s_put_string st (expr_text a))) as (B & E & K).
    rewrite B, E, K, s_put_string_bytes. rewrite <- app_assoc. auto.
Qed.

Definition ad_items (c : config) (a : ad) : list bytes :=
  (if opt_server_time (c_opts c) then [server_time_expr] else []) ++
  map expr_text (attrs_to_send c (ad_attrs a)) ++
  (if opt_no_types (c_opts c) then [] else [ad_mytype a; ad_targettype a]).

(* the wire layout on a stream that does not toggle crypto for secrets *)
Lemma wire_layout c key enc a :
  secret_is_noop key enc = true ->
  s_bytes (s_finish (put_ad c (sstate_init key enc) a)) =
    enc_int (Z.of_nat (length (attrs_to_send c (ad_attrs a))) + (if opt_server_time (c_opts c) then 1 else 0)) ++
    concat (map (string_bytes enc) (ad_items c a)).
Proof.
  intro Hn. unfold s_finish. rewrite s_flush_bytes. unfold put_ad, ad_items. cbv zeta.
  set (n := (Z.of_nat _ + _)%Z).
  set (st1 := s_put_int (sstate_init key enc) n).
  assert (B1 : s_bytes st1 = enc_int n) by (subst st1; rewrite s_put_int_bytes; reflexivity).
  set (st2 := if opt_server_time (c_opts c) then s_put_string st1 server_time_expr else st1).
  assert (F2 : s_key st2 = key /\ s_enc st2 = enc) by (subst st2; destruct (opt_server_time (c_opts c)); split; reflexivity).
  destruct F2 as [K2 E2]. rewrite K2, E2, Hn. cbn [negb].
  assert (B2 : s_bytes st2 = enc_int n ++ concat (map (string_bytes enc) (if opt_server_time (c_opts c) then [server_time_expr] else []))).
  { subst st2. destruct (opt_server_time (c_opts c)).
    - rewrite s_put_string_bytes, B1. cbn [map concat]. rewrite app_nil_r. reflexivity.
    - rewrite B1. cbn [map concat]. rewrite app_nil_r. reflexivity. }
  destruct (fold_put_one_plain c (attrs_to_send c (ad_attrs a)) st2) as (B3 & E3 & K3).
  rewrite E2 in B3, E3.
  rewrite !map_app, !concat_app, map_map.
  destruct (opt_no_types (c_opts c)).
  - rewrite B3, B2. cbn [map concat]. rewrite app_nil_r, <- app_assoc. reflexivity.
  - rewrite !s_put_string_bytes. cbn [s_put_string s_lift s_enc]. rewrite E3, B3, B2.
    cbn [map concat]. rewrite app_nil_r, <- !app_assoc. reflexivity.
Qed.

(* reading those bytes back: through ANY honest framing of what the sender emitted (its own
   frames, or any re-cut), GetInt followed by one GetString per item returns the count and
   exactly the rendered items *)
Definition ad_vals (c : config) (a : ad) : list tval :=
  TInt64 (Z.of_nat (length (attrs_to_send c (ad_attrs a))) + (if opt_server_time (c_opts c) then 1 else 0))
  :: map TStr (ad_items c a).

Lemma ad_vals_bytes c enc a :
  concat (map (wop_bytes enc) (map wop_of (ad_vals c a))) =
    enc_int (Z.of_nat (length (attrs_to_send c (ad_attrs a))) + (if opt_server_time (c_opts c) then 1 else 0)) ++
    concat (map (string_bytes enc) (ad_items c a)).
Proof.
  unfold ad_vals. cbn [map concat wop_of wop_bytes]. f_equal. rewrite !map_map. reflexivity.
Qed.

Lemma filter_len {A} (f : A -> bool) l : (length (filter f l) <= length l)%nat.
Proof. induction l as [|x l IH]; cbn [filter length]; [lia|destruct (f x); cbn [length]; lia]. Qed.

Lemma attrs_roundtrip c key enc a fs :
  secret_is_noop key enc = true ->
  Forall (valid_str enc) (ad_items c a) ->
  (Z.of_nat (length (ad_attrs a)) < 2 ^ 62)%Z ->
  frames_ok false fs ->
  concat (map fst fs) = s_bytes (s_finish (put_ad c (sstate_init key enc) a)) ->
  run_ops enc (reader_of fs) (map op_of (ad_vals c a)) = map (fun v => MOk (val_of v)) (ad_vals c a).
Proof.
  intros Hn Hv Hl Hf Hc. apply roundtrip_any_framing; [| exact Hf |].
  - unfold ad_vals. constructor.
    + cbn [valid]. assert (L : (length (attrs_to_send c (ad_attrs a)) <= length (ad_attrs a))%nat).
      { unfold attrs_to_send, filter_whitelist, filter_privacy. destruct (c_whitelist c); apply filter_len. }
      destruct (opt_server_time (c_opts c)); lia.
    + apply Forall_forall. intros v Hin. apply in_map_iff in Hin as (s & <- & Hs).
      cbn [valid]. rewrite Forall_forall in Hv. exact (Hv s Hs).
  - rewrite Hc, (wire_layout c key enc a Hn). unfold write_vals. rewrite write_ops_content.
    symmetry. apply ad_vals_bytes.
Qed.

(* the sender's own frames are such an honest framing (in every stream state) *)
Definition s_noeom (st : sstate) : Prop := Forall (fun f : tframe => snd (snd f) = false) (s_out st).

Lemma s_lift_noeom f st :
  (forall buf, no_eom (f {| w_buf := buf; w_out := [] |})) -> s_noeom st -> s_noeom (s_lift f st).
Proof.
  intros H S. unfold s_noeom, s_lift. cbn [s_out]. apply Forall_app. split; [exact S|].
  apply Forall_forall. intros x Hx. apply in_map_iff in Hx as (fr & <- & Hin). cbn [snd].
  specialize (H (s_buf st)). unfold no_eom in H. rewrite Forall_forall in H. exact (H fr Hin).
Qed.

Lemma no_eom_fresh buf : no_eom {| w_buf := buf; w_out := [] |}.
Proof. constructor. Qed.

Lemma s_put_int_noeom st z : s_noeom st -> s_noeom (s_put_int st z).
Proof. apply s_lift_noeom. intro buf. apply no_eom_put_int, no_eom_fresh. Qed.
Lemma s_put_string_noeom st s : s_noeom st -> s_noeom (s_put_string st s).
Proof. apply s_lift_noeom. intro buf. apply no_eom_put_string, no_eom_fresh. Qed.
Lemma s_flush_noeom st : s_noeom st -> s_noeom (s_flush st false).
Proof. apply s_lift_noeom. intro buf. apply no_eom_flush, no_eom_fresh. Qed.

Lemma put_one_noeom c es st a : s_noeom st -> s_noeom (put_one c es st a).
Proof.
  intro H. unfold put_one. destruct (es && _); [|apply s_put_string_noeom, H].
  unfold put_secret_expr.
  pose proof (s_flush_noeom _ (s_put_string_noeom st secret_marker H)) as H2.
  set (st2 := s_flush (s_put_string st secret_marker) false) in *.
  assert (H3 : s_noeom (s_prepare st2)) by exact H2.
  pose proof (s_flush_noeom _ (s_put_string_noeom (s_prepare st2) (expr_text a) H3)) as H5.
  exact H5.
Qed.

Lemma put_ad_noeom c st a : s_noeom st -> s_noeom (put_ad c st a).
Proof.
  intro H. unfold put_ad. cbv zeta.
  set (st1 := s_put_int st _). assert (H1 : s_noeom st1) by (apply s_put_int_noeom, H).
  set (st2 := if opt_server_time (c_opts c) then _ else _).
  assert (H2 : s_noeom st2) by (subst st2; destruct (opt_server_time (c_opts c)); [apply s_put_string_noeom|]; exact H1).
  set (es := negb _).
  assert (H3 : forall l s0, s_noeom s0 -> s_noeom (fold_left (put_one c es) l s0)).
  { induction l as [|x l IH]; intros s0 Hs; [exact Hs|]. cbn [fold_left]. apply IH, put_one_noeom, Hs. }
  destruct (opt_no_types (c_opts c)); [apply H3, H2|].
  apply s_put_string_noeom, s_put_string_noeom, H3, H2.
Qed.

Lemma own_frames_honest c key enc a :
  let fs := map snd (s_frames (s_finish (put_ad c (sstate_init key enc) a))) in
  frames_ok false fs /\ concat (map fst fs) = s_bytes (s_finish (put_ad c (sstate_init key enc) a)).
Proof.
  cbv zeta. set (st := put_ad c (sstate_init key enc) a).
  assert (N : s_noeom st) by (apply put_ad_noeom; constructor).
  unfold s_frames, s_finish, s_flush, s_lift, s_bytes. cbn [s_out s_buf flush w_out w_buf app map].
  rewrite !map_app. cbn [map snd fst]. split.
  - apply frames_ok_last. unfold s_noeom in N. rewrite Forall_forall in *. intros f Hf.
    apply in_map_iff in Hf as (tf & <- & Hin). exact (N tf Hin).
  - rewrite app_nil_r. rewrite !map_map. reflexivity.
Qed.

(* so: what the peer reads off the sender's own frames, item by item *)
Lemma attrs_roundtrip_own c key enc a :
  secret_is_noop key enc = true ->
  Forall (valid_str enc) (ad_items c a) ->
  (Z.of_nat (length (ad_attrs a)) < 2 ^ 62)%Z ->
  run_ops enc (reader_of (map snd (s_frames (s_finish (put_ad c (sstate_init key enc) a))))) (map op_of (ad_vals c a))
  = map (fun v => MOk (val_of v)) (ad_vals c a).
Proof.
  intros Hn Hv Hl. destruct (own_frames_honest c key enc a) as [F C].
  apply (attrs_roundtrip c key enc a _ Hn Hv Hl F C).
Qed.
