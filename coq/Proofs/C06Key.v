(* Proofs/C06Key.v — the key of a cache entry is immutable over all histories
   (refused dispatches and failed resumptions included); a successful resumption after
   any history installs the key of the last Store under the id. *)
From Coq Require Import List NArith ZArith Bool Lia.
From Cedar Require Import Lib.Bytes Lib.Sym Model.Cache Model.Resume Proofs.C06Defs Proofs.C06 Proofs.C06KeyDefs.
Import ListNotations.
Local Open Scope Z_scope.

(* every entry of c' has the id and the key of some entry of c *)
Definition kpres (c c' : cache) : Prop :=
  forall e', In e' (c_sessions c') -> exists e, In e (c_sessions c) /\ e_id e' = e_id e /\ e_key e' = e_key e.
Definition kpres_srv (s s' : srv) : Prop :=
  has_custom s' = has_custom s /\ forall w, kpres (cache_at s w) (cache_at s' w).

Lemma kpres_refl c : kpres c c.
Proof. intros e H. exists e. auto. Qed.
Lemma kpres_incl c c' : incl (c_sessions c') (c_sessions c) -> kpres c c'.
Proof. intros I e H. exists e. auto. Qed.
Lemma kpres_srv_refl s : kpres_srv s s.
Proof. split; [reflexivity|intro w; apply kpres_refl]. Qed.
Lemma kpres_srv_trans s1 s2 s3 : kpres_srv s1 s2 -> kpres_srv s2 s3 -> kpres_srv s1 s3.
Proof.
  intros [H1 K1] [H2 K2]. split; [congruence|]. intros w e3 I3.
  destruct (K2 w e3 I3) as (e2 & I2 & A2 & B2). destruct (K1 w e2 I2) as (e1 & I1 & A1 & B1).
  exists e1. repeat split; congruence.
Qed.

Lemma e_key_renew_lease e now : e_key (renew_lease e now) = e_key e.
Proof. unfold renew_lease. destruct (e_lease e =? 0); reflexivity. Qed.

Lemma cache_at_set s w c w0 :
  cache_at (set_cache_at s w c) w0 =
  if Bool.eqb (slotb (has_custom s) w) (slotb (has_custom s) w0) then c else cache_at s w0.
Proof. unfold cache_at, set_cache_at, has_custom, slotb. destruct w, w0, (s_custom s); reflexivity. Qed.
Lemma has_custom_set s w c : has_custom (set_cache_at s w c) = has_custom s.
Proof. unfold set_cache_at, has_custom. destruct w, (s_custom s); reflexivity. Qed.
Lemma cache_at_slot s w w0 :
  slotb (has_custom s) w = slotb (has_custom s) w0 -> cache_at s w = cache_at s w0.
Proof. unfold cache_at, has_custom, slotb. destruct w, w0, (s_custom s); intro E; try reflexivity; discriminate. Qed.
Lemma srv_store_set s w e : srv_store s w e = set_cache_at s w (store (cache_at s w) e).
Proof. unfold srv_store, set_cache_at, cache_at. destruct w, (s_custom s); reflexivity. Qed.

(* replacing one cache by a key-preserving image *)
Lemma kpres_srv_set s s1 w c' :
  kpres_srv s s1 -> kpres (cache_at s w) c' -> kpres_srv s (set_cache_at s1 w c').
Proof.
  intros [H K] Kc. split; [rewrite has_custom_set; exact H|]. intros w0 e' I. rewrite cache_at_set in I.
  destruct (Bool.eqb (slotb (has_custom s1) w) (slotb (has_custom s1) w0)) eqn:E.
  - apply eqb_prop in E. rewrite H in E. rewrite <- (cache_at_slot s w w0 E). exact (Kc e' I).
  - exact (K w0 e' I).
Qed.

(* Store of an entry that has the id and key of an entry already there (RenewLease + Store) *)
Lemma kpres_store c c1 en :
  kpres c c1 -> (exists e0, In e0 (c_sessions c) /\ e_id en = e_id e0 /\ e_key en = e_key e0) ->
  kpres c (store c1 en).
Proof.
  intros K W e' I. unfold store in I. cbn [c_sessions] in I. destruct I as [<-|I]; [exact W|].
  unfold del_sess in I. apply filter_In in I as [I _]. exact (K e' I).
Qed.

Lemma srv_lookup_kpres s now sid : kpres_srv s (fst (srv_lookup s now sid)).
Proof.
  pose proof (srv_lookup_shrinks s now sid) as [Ig Ic]. cbv zeta in *.
  destruct (fst (srv_lookup s now sid)) as [c1 g1]. cbn [s_global s_custom] in *.
  unfold kpres_srv, has_custom, cache_at. cbn [s_global s_custom].
  destruct c1 as [c1|], (s_custom s) as [c|]; try tauto; (split; [reflexivity|]); intros [|]; apply kpres_incl; auto.
Qed.

Lemma inv_all_kpres l : forall s0 s, kpres_srv s0 s -> kpres_srv s0 (inv_all s l).
Proof.
  unfold inv_all. induction l as [|[i w] l IH]; intros s0 s K; cbn [fold_left]; [exact K|].
  apply IH. cbn [fst snd]. apply (kpres_srv_trans s0 s); [exact K|].
  apply kpres_srv_set; [apply kpres_srv_refl|]. apply kpres_incl, invalidate_incl.
Qed.

Lemma handle_kpres s now q wc : kpres_srv s (fst (fst (handle_resumption s now q wc))).
Proof.
  destruct (handle_cases s now q wc) as [(s1 & e & w & k & L & CS & U & E)|[E _]]; rewrite E; cbn [fst].
  - pose proof (srv_lookup_kpres s now (q_sid q)) as K1. rewrite L in K1. cbn [fst] in K1.
    apply srv_lookup_some in L as (F & _ & _). apply find_sess_some in F as [_ F].
    rewrite srv_store_set. apply kpres_srv_set; [exact K1|].
    apply kpres_store; [apply K1|]. exists e. rewrite e_id_renew_lease, e_key_renew_lease. auto.
  - apply srv_lookup_kpres.
Qed.

(* a step that is not a Store of a new session preserves ids and keys *)
Lemma sstep_kpres s now ev :
  (forall en w, ev <> SEstablish en w) -> kpres_srv s (fst (fst (sstep (s, now) ev))).
Proof.
  intro NE. destruct ev as [en w|q wc|sid' w|dt|sid' w|w|q wc inv]; cbn [sstep].
  - exfalso. exact (NE en w eq_refl).
  - pose proof (handle_kpres s now q wc) as K. destruct (handle_resumption s now q wc) as [[s' rep] res]. exact K.
  - destruct (lookup (cache_at s w) now sid') as [en|] eqn:L; cbn [fst]; [|apply kpres_srv_refl].
    unfold lookup in L. destruct (find_sess sid' (c_sessions (cache_at s w))) as [e0|] eqn:F; [|discriminate].
    destruct (is_expired e0 now); [discriminate|]. inversion L; subst e0. apply find_sess_some in F as [_ F].
    apply kpres_srv_set; [apply kpres_srv_refl|]. apply kpres_store; [apply kpres_refl|].
    exists en. rewrite e_id_renew_lease, e_key_renew_lease. auto.
  - cbn [fst]. apply kpres_srv_refl.
  - cbn [fst]. apply kpres_srv_set; [apply kpres_srv_refl|]. apply kpres_incl, invalidate_incl.
  - cbn [fst]. apply kpres_srv_set; [apply kpres_srv_refl|]. apply kpres_incl, sweep_incl.
  - pose proof (handle_kpres s now q wc) as K. destruct (handle_resumption s now q wc) as [[s' rep] res].
    cbn [fst] in *. apply inv_all_kpres. exact K.
Qed.

Lemma key_is_kpres s s' w sid k : kpres_srv s s' -> key_is s w sid k -> key_is s' w sid k.
Proof.
  intros [_ K] P e' I Hid. destruct (K w e' I) as (e & Ie & A & B). rewrite B. apply P; [exact Ie|congruence].
Qed.

Lemma kstep_base_nonest s now ev w sid k :
  (forall en w', ev <> SEstablish en w') -> key_is s w sid k ->
  key_is (fst (fst (sstep (s, now) ev))) w sid k /\
  has_custom (fst (fst (sstep (s, now) ev))) = has_custom s.
Proof.
  intros NE P. pose proof (sstep_kpres s now ev NE) as K.
  split; [exact (key_is_kpres _ _ _ _ _ K P)|exact (proj1 K)].
Qed.

(* one step: the key under sid in cache w afterwards is the one before, unless the step is a Store
   under sid into that cache -- then it is the stored entry's *)
Lemma kstep_key st ev w sid k :
  key_is (fst st) w sid k ->
  key_is (fst (fst (kstep st ev))) w sid (last_key1 (has_custom (fst st)) w sid k ev) /\
  has_custom (fst (fst (kstep st ev))) = has_custom (fst st).
Proof.
  destruct st as [s now]. cbn [fst]. intro P. destruct ev as [ev|d q wc].
  - cbn [kstep]. destruct (sstep (s, now) ev) as [st' o] eqn:E. cbn [fst].
    replace st' with (fst (sstep (s, now) ev)) by (rewrite E; reflexivity). clear E.
    destruct ev as [en w'|q wc|sid' w'|dt|sid' w'|w'|q wc inv].
    2-7: (cbn [last_key1]; apply kstep_base_nonest; [intros en0 w0; discriminate|exact P]).
    (* Store of a new session *)
    cbn [sstep fst last_key1]. split; [|apply has_custom_set].
    intros e I Hid. rewrite cache_at_set in I.
    destruct (Bool.eqb (slotb (has_custom s) w') (slotb (has_custom s) w)) eqn:Es; cbn [andb].
    + unfold store_new, store in I. cbn [c_sessions] in I. destruct I as [<-|I].
      * rewrite Hid, beq_refl. reflexivity.
      * unfold del_sess in I. apply filter_In in I as [I Hn]. unfold id_is in Hn.
        destruct (bytes_eqb (e_id en) sid) eqn:B.
        -- apply bytes_eqb_eq in B. rewrite <- B in Hid. rewrite Hid, beq_refl in Hn. discriminate.
        -- apply eqb_prop in Es. rewrite (cache_at_slot s w' w Es) in I. exact (P e I Hid).
    + exact (P e I Hid).
  - cbn [kstep fst snd last_key1]. unfold serve_conn.
    pose proof (handle_kpres s now q wc) as K. destruct (handle_resumption s now q wc) as [[s' rep] res].
    cbn [fst] in *. split; [exact (key_is_kpres _ _ _ _ _ K P)|exact (proj1 K)].
Qed.

(* C06_key_immutable *)
Lemma key_immutable h : forall st w sid k0,
  key_is (fst st) w sid k0 ->
  key_is (fst (fst (krun st h))) w sid (last_key (has_custom (fst st)) w sid k0 h).
Proof.
  induction h as [|ev h IH]; intros st w sid k0 P; [exact P|].
  cbn [krun]. destruct (kstep_key st ev w sid k0 P) as [P1 H1].
  destruct (kstep st ev) as [st1 o1]. cbn [fst] in *.
  specialize (IH st1 w sid _ P1). destruct (krun st1 h) as [st2 o2]. cbn [fst] in *.
  unfold last_key in *. cbn [fold_left]. rewrite H1 in IH. exact IH.
Qed.

(* a connection through the dispatcher leaves the caches exactly as the bare handshake does,
   whatever the command table and whether the command is served or refused *)
Lemma dispatch_no_cache_effect d s now q wc :
  fst (fst (fst (serve_conn d s now q wc))) = fst (fst (handle_resumption s now q wc)) /\
  snd (fst (fst (serve_conn d s now q wc))) = snd (fst (handle_resumption s now q wc)) /\
  snd (fst (serve_conn d s now q wc)) = snd (handle_resumption s now q wc).
Proof. unfold serve_conn. destruct (handle_resumption s now q wc) as [[s' rep] res]. auto. Qed.

(* after ANY history, a resumption that succeeds (whether its command is then served or refused)
   installs the key of the last Store under that id *)
Lemma needs_stored_key h st d q wc s' rep n stt dr :
  serve_conn d (fst (fst (krun st h))) (snd (fst (krun st h))) q wc = (s', rep, SOk n stt, dr) ->
  exists w ki,
    (forall k0, key_is (fst st) w (q_sid q) k0 ->
       last_key (has_custom (fst st)) w (q_sid q) k0 h = Some ki) /\
    st_key stt = Some (k_data ki) /\ is_aesgcm (k_proto ki) = true /\ lenN (k_data ki) = 32%N /\
    dr = Some (dispatch d n) /\
    (forall f p, srv_accept stt f = Some p ->
       exists hdr iv, f = WSealed hdr iv (seal (k_data ki) iv (AadFirst (st_recv_dg stt) (st_send_dg stt) hdr) p)) /\
    (forall hdr iv p, exists c, srv_send stt hdr iv p = WSealed hdr iv c /\
       forall k' n' a' p', open k' n' a' c = Some p' -> k' = k_data ki).
Proof.
  intro E. unfold serve_conn in E.
  destruct (handle_resumption (fst (fst (krun st h))) (snd (fst (krun st h))) q wc) as [[s1 rep1] res1] eqn:HR.
  inversion E; subst s1 rep1 res1 dr. clear E.
  destruct (needs_key _ _ _ _ _ _ _ _ HR) as (e & w & k & ki & F & _ & _ & Ke & Kd & Ka & Kl & Ks & _ & _ & Acc & Snd).
  apply find_sess_some in F as [Fid Fin]. exists w, ki. subst k. repeat split; auto.
  intros k0 P0. rewrite <- Ke. symmetry. exact (key_immutable h st w (q_sid q) k0 P0 e Fin Fid).
Qed.

(* non-vacuity: a resumption for an unregistered command (refused), then the same session again *)
Definition kx_dsrv : dsrv :=
  {| d_handler := fun c => if c =? 421 then HAuth [[x52]] else HNone;
     d_auth_required := fun _ => false; d_enc_required := fun _ => true; d_authorizer := None |}.
Definition kx_refused : request := {| q_sid := rp_sid; q_want_reply := true; q_command := Some 60099 |}.
Definition kx_hist : list kevent :=
  [KServe kx_dsrv kx_refused 60010; KBase (SResume {| q_sid := rp_sid; q_want_reply := false; q_command := None |} 0);
   KBase (STick 100); KServe kx_dsrv kx_refused 60010].
