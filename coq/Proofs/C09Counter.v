(* Proofs/C09Counter.v — a keyed, non-encrypting stream whose send counter is exhausted: the
   secret still needs the marker path (CryptoForSecretIsNoop stays false) and PutSecret is
   refused; nothing is written, in particular not the secret in the clear. *)
From Coq Require Import List NArith ZArith Lia Bool.
From Cedar Require Import Lib.Bytes Lib.Sym gen.Consts Model.Frame Model.FrameSpec.
Import ListNotations.
Local Open Scope N_scope.

Lemma secret_refused_at_counter_max s d k s' e fs :
  key s = Some k -> encrypted s = false -> enc_ctr s = CounterGuard ->
  run_sop s (OSecret d) = (s', e, fs) ->
  secret_is_noop s = false /\ e <> 0 /\ fs = [] /\ encrypted s' = false /\ enc_ctr s' = CounterGuard.
Proof.
  intros Hk He Hc Hr. split; [unfold secret_is_noop; rewrite Hk; exact He|].
  cbn [run_sop] in Hr. unfold send_frame in Hr.
  assert (P : prepare_secret s = upd_enc s true true) by (unfold prepare_secret; rewrite Hk, He; reflexivity).
  rewrite P in Hr. cbn [key encrypted enc_ctr upd_enc] in Hr. rewrite Hk, Hc, N.eqb_refl in Hr.
  assert (R : restore_secret (upd_enc s true true) = upd_enc (upd_enc s true true) false false) by reflexivity.
  destruct (MaxMessageSize <? lenN (d ++ [x00])); injection Hr as <- <- <-; rewrite R;
    cbn [encrypted enc_ctr upd_enc]; repeat split; try discriminate; exact Hc.
Qed.
