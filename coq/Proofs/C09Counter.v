(* Proofs/C09Counter.v — a keyed, non-encrypting stream whose send counter is exhausted: the
   secret still needs the marker path (CryptoForSecretIsNoop stays false) and PutSecret is
   refused; nothing is written, in particular not the secret in the clear. *)
From Coq Require Import List NArith ZArith Lia Bool.
From Cedar Require Import Lib.Bytes Lib.Sym gen.Consts Model.Frame Model.FrameSpec.
Import ListNotations.
Local Open Scope N_scope.

Lemma secret_refused_at_counter_max s d k s' e fs :
  key s = Some k -> encrypted s = false -> enc_ctr s = CounterGuard ->
  run_sop s (OSecret d) = (s', e, fs) ->
  secret_is_noop s = false /\ e <> 0 /\ fs = [] /\ encrypted s' = false /\ enc_ctr s' = CounterGuard.
Proof.
  intros Hk He Hc Hr. split; [unfold secret_is_noop; rewrite Hk; exact He|].
  cbn [run_sop] in Hr. unfold send_frame in Hr.
  assert (K1 : key (prepare_secret s) = Some k) by exact Hk.
  assert (E1 : encrypted (prepare_secret s) = true) by (unfold prepare_secret; cbn; rewrite Hk; reflexivity).
  assert (C1 : enc_ctr (prepare_secret s) = CounterGuard) by exact Hc.
  assert (B1 : before_secret (prepare_secret s) = false) by (unfold prepare_secret; cbn; exact He).
  destruct (MaxMessageSize <? lenN (d ++ [x00])).
  - injection Hr as <- <- <-. repeat split; try discriminate; unfold restore_secret; cbn; auto.
  - rewrite K1, E1, C1, N.eqb_refl in Hr. injection Hr as <- <- <-.
    repeat split; try discriminate; unfold restore_secret; cbn; auto.
Qed.
