(* Proofs/C12Rekey.v — nonce uniqueness across a second key installation on the same stream
   (SetSymmetricKey called again: counters restart at 0 under a NEW random base IV). *)
From Coq Require Import List NArith Lia.
From Cedar Require Import Lib.Bytes Lib.Sym gen.Consts Model.Frame Model.FrameSpec Proofs.FrameBase Proofs.C12Nonce.
Import ListNotations.
Local Open Scope N_scope.
Local Transparent nonce_of.

(* the nonce keeps the base IV's bytes beyond the 32-bit counter word *)
Lemma nonce_of_tail iv iv' c c' : nonce_of iv c = nonce_of iv' c' -> skipn 4 iv = skipn 4 iv'.
Proof.
  unfold nonce_of. intro E. apply app_inv_len in E; [|rewrite !be_enc_length; reflexivity].
  exact (proj2 E).
Qed.

Lemma key_nonces_app fs1 fs2 : key_nonces (fs1 ++ fs2) = key_nonces fs1 ++ key_nonces fs2.
Proof. unfold key_nonces, cts_of. rewrite flat_map_app, map_app. reflexivity. Qed.

Lemma nodup_app_intro {A} (l1 l2 : list A) :
  NoDup l1 -> NoDup l2 -> (forall x, In x l1 -> In x l2 -> False) -> NoDup (l1 ++ l2).
Proof.
  induction l1 as [|a l1 IH]; intros H1 H2 Hd; cbn [app]; [exact H2|].
  inversion H1 as [|a' l' Hn H1']; subst. constructor.
  - intro Hin. apply in_app_or in Hin. destruct Hin as [Hin|Hin]; [exact (Hn Hin)|].
    exact (Hd a (or_introl eq_refl) Hin).
  - apply IH; [exact H1'|exact H2|]. intros x Hx1 Hx2. exact (Hd x (or_intror Hx1) Hx2).
Qed.

Lemma set_key_fields s k iv s' :
  set_key s k iv = SOk s' -> key s' = Some k /\ enc_iv s' = iv /\ enc_ctr s' = 0.
Proof.
  unfold set_key. destruct (negb (lenN k =? KeyLen)); [discriminate|].
  intro E; injection E as <-. repeat split.
Qed.

Lemma rekey_unique ops1 ops2 s k1 k2 iv1 iv2 s1 s1' es1 fs1 s2 s2' es2 fs2 :
  set_key s k1 iv1 = SOk s1 -> run_sops s1 ops1 = (s1', es1, fs1) ->
  set_key s1' k2 iv2 = SOk s2 -> run_sops s2 ops2 = (s2', es2, fs2) ->
  k1 <> k2 \/ skipn 4 iv1 <> skipn 4 iv2 ->
  NoDup (key_nonces (fs1 ++ fs2)).
Proof.
  intros K1 R1 K2 R2 Hfresh.
  destruct (set_key_fields _ _ _ _ K1) as [Hk1 [Hiv1 Hc1]].
  destruct (set_key_fields _ _ _ _ K2) as [Hk2 [Hiv2 Hc2]].
  assert (Hg : 0 <= CounterGuard) by apply N.le_0_l.
  destruct (run_sops_numbered _ _ _ _ _ _ Hk1 ltac:(rewrite Hc1; exact Hg) R1) as [Hn1 _].
  destruct (run_sops_numbered _ _ _ _ _ _ Hk2 ltac:(rewrite Hc2; exact Hg) R2) as [Hn2 _].
  rewrite key_nonces_app. apply nodup_app_intro.
  - eapply numbered_nodup; exact Hn1.
  - eapply numbered_nodup; exact Hn2.
  - intros kn In1 In2.
    destruct (numbered_nonces_ge _ _ _ _ _ Hn1 _ In1) as [c1 [_ [_ [_ E1]]]].
    destruct (numbered_nonces_ge _ _ _ _ _ Hn2 _ In2) as [c2 [_ [_ [_ E2]]]].
    rewrite E1 in E2. rewrite Hiv1, Hiv2 in E2.
    destruct Hfresh as [Hk|Hiv].
    + apply Hk. exact (f_equal fst E2).
    + apply Hiv. apply (f_equal snd) in E2. cbn [snd] in E2. eapply nonce_of_tail; exact E2.
Qed.

(* and the converse that makes IV freshness necessary: re-installing the SAME key with the SAME
   base IV repeats the key/nonce pair of frame 0 as soon as both installations send a frame *)
Lemma rekey_same_iv_repeats s k iv s1 d1 fl1 s1' f1 s2 d2 fl2 s2' f2 :
  set_key s k iv = SOk s1 -> send_frame s1 d1 fl1 = (s1', SOk f1) ->
  set_key s1' k iv = SOk s2 -> send_frame s2 d2 fl2 = (s2', SOk f2) ->
  exists kn, key_nonces [f1] = [kn] /\ key_nonces [f2] = [kn].
Proof.
  intros K1 S1 K2 S2.
  assert (F : forall t t0 d fl t' f, set_key t0 k iv = SOk t -> send_frame t d fl = (t', SOk f) ->
              key_nonces [f] = [(k, nonce_of iv 0)]).
  { intros t t0 d fl t' f K S. destruct (set_key_fields _ _ _ _ K) as [Hk [Hiv Hc]].
    assert (He : encrypted t = true).
    { revert K. unfold set_key. destruct (negb (lenN k =? KeyLen)); [discriminate|]. intro E; injection E as <-. reflexivity. }
    destruct (send_frame_enc _ _ _ _ _ _ Hk He ltac:(rewrite Hc; apply N.le_0_l) S) as [_ [_ [_ [_ [_ [_ Hb]]]]]].
    unfold key_nonces, cts_of. cbn [flat_map]. rewrite Hb. rewrite Hc, Hiv. reflexivity. }
  exists (k, nonce_of iv 0). split; [exact (F _ _ _ _ _ _ K1 S1)|exact (F _ _ _ _ _ _ K2 S2)].
Qed.

(* ---- file transfer is a sequence of ordinary sends ----------------------------- *)
From Cedar Require Import Model.File.

Lemma send_msgs_as_sops ms : forall s s' e fs,
  send_msgs s ms = (s', e, fs) -> exists ops es, run_sops s ops = (s', es, fs).
Proof.
  induction ms as [|m r IH]; intros s s' e fs H; cbn [send_msgs] in H.
  - inversion H; subst. exists [], []. reflexivity.
  - destruct (send_frame s m EndFlagComplete) as [s1 [f|e0]] eqn:Es.
    + destruct (send_msgs s1 r) as [[s2 e2] fs2] eqn:E2. inversion H; subst.
      destruct (IH _ _ _ _ E2) as [ops [es Hr]].
      exists (OSend m :: ops), (0 :: es). cbn [run_sops run_sop]. rewrite Es, Hr. reflexivity.
    + inversion H; subst. exists [OSend m], [1]. cbn [run_sops run_sop]. rewrite Es. reflexivity.
Qed.

Lemma file_nonce_unique s d s' e fs :
  enc_ctr s <= CounterGuard -> put_file s d = (s', e, fs) ->
  NoDup (key_nonces fs) /\ enc_ctr s <= enc_ctr s' /\ enc_ctr s' <= CounterGuard.
Proof.
  intros Hle Hp. unfold put_file in Hp. destruct (send_msgs_as_sops _ _ _ _ _ Hp) as [ops [es Hr]].
  split; [eapply nonce_unique; eassumption|eapply counter_never_wraps; eassumption].
Qed.
