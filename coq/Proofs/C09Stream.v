(* Proofs/C09Stream.v — the stream half of "private attributes travel only inside encrypted
   frames": PutSecret (prepare_crypto_for_secret; send; restore) on a stream that holds a key
   but is not currently encrypting emits a SEALED frame, restores the previous mode, and the
   peer's GetSecret opens it; without a key the toggle is a no-op (CryptoForSecretIsNoop). *)
From Coq Require Import List NArith ZArith Lia Bool.
From Cedar Require Import Lib.Bytes Lib.Sym gen.Consts Model.Frame Model.FrameSpec
     Proofs.FrameBase Proofs.C12Nonce.
Import ListNotations.
Local Open Scope N_scope.

Lemma send_frame_before_secret s d fl s' r :
  send_frame s d fl = (s', r) -> before_secret s' = before_secret s.
Proof.
  unfold send_frame. destruct (MaxMessageSize <? lenN d); [intro E; injection E as <- _; reflexivity|].
  destruct (key s); [destruct (encrypted s); [destruct (enc_ctr s =? CounterGuard)|]|]; cbv zeta;
    intro E; injection E as <- _; reflexivity.
Qed.

(* the secret's bytes are inside a ciphertext term, never raw on the wire *)
Lemma secret_is_sealed s d s' e fs k :
  key s = Some k -> enc_ctr s <= CounterGuard ->
  run_sop s (OSecret d) = (s', e, fs) ->
  encrypted s' = encrypted s /\
  (e = 0 -> exists f ivo a, fs = [f] /\ f_body f = Ct ivo (seal k (nonce_of (enc_iv s) (enc_ctr s)) a (d ++ [x00]))) /\
  (e <> 0 -> fs = []).
Proof.
  intros Hk Hle Hr. cbn [run_sop] in Hr.
  set (t := prepare_secret s) in *.
  assert (Hkt : key t = Some k) by exact Hk.
  assert (Het : encrypted t = true) by (unfold t, prepare_secret; cbn; rewrite Hk; reflexivity).
  assert (Hct : enc_ctr t = enc_ctr s) by reflexivity.
  assert (Hit : enc_iv t = enc_iv s) by reflexivity.
  destruct (send_frame t (d ++ [x00]) EndFlagComplete) as [t1 [f|x]] eqn:Es; injection Hr as <- <- <-.
  - assert (Hlt : enc_ctr t <= CounterGuard) by (rewrite Hct; exact Hle).
    destruct (send_frame_enc _ _ _ _ _ _ Hkt Het Hlt Es) as [_ [_ [_ [_ [_ [_ Hb]]]]]].
    split; [unfold restore_secret; proj_simpl; rewrite (send_frame_before_secret _ _ _ _ _ Es); reflexivity|].
    split; [|intro H; contradiction H; reflexivity].
    intros _. rewrite Hct, Hit in Hb. eexists f, _, _. split; [reflexivity|exact Hb].
  - split; [unfold restore_secret; proj_simpl; rewrite (send_frame_before_secret _ _ _ _ _ Es); reflexivity|].
    split; [discriminate|reflexivity].
Qed.

Lemma secret_noop_without_key s : key s = None -> secret_is_noop s = true /\ encrypted (prepare_secret s) = encrypted s.
Proof. intro H. unfold secret_is_noop, prepare_secret. rewrite H. cbn. split; reflexivity. Qed.

Lemma secret_noop_when_encrypting s : encrypted s = true -> secret_is_noop s = true.
Proof. intro H. unfold secret_is_noop. destruct (key s); [exact H|reflexivity]. Qed.

Lemma secret_toggle_needed s k : key s = Some k -> encrypted s = false -> secret_is_noop s = false.
Proof. intros Hk He. unfold secret_is_noop. rewrite Hk. exact He. Qed.
