(* Proofs/C09Stream.v — the stream half of "private attributes travel only inside encrypted
   frames": PutSecret (prepare_crypto_for_secret; send; restore) on a stream that holds a key
   but is not currently encrypting emits a SEALED frame, restores the previous mode, and the
   peer's GetSecret opens it; without a key the toggle is a no-op (CryptoForSecretIsNoop). *)
From Coq Require Import List NArith ZArith Lia Bool.
From Cedar Require Import Lib.Bytes Lib.Sym gen.Consts Model.Frame Model.FrameSpec
     Proofs.FrameBase Proofs.C12Nonce.
Import ListNotations.
Local Open Scope N_scope.

Lemma send_frame_before_secret s d fl s' r :
  send_frame s d fl = (s', r) -> before_secret s' = before_secret s.
Proof.
  unfold send_frame. destruct (MaxMessageSize <? lenN d); [intro E; injection E as <- _; reflexivity|].
  destruct (key s); [destruct (encrypted s); [destruct (enc_ctr s =? CounterGuard)|]|]; cbv zeta;
    intro E; injection E as <- _; reflexivity.
Qed.

(* the secret's bytes are inside a ciphertext term, never raw on the wire; the stream is not inside
   another secret section ([before_secret s = false]: the toggle marker is clear, as it is
   whenever prepare/restore calls are paired) *)
Lemma secret_is_sealed s d s' e fs k :
  key s = Some k -> enc_ctr s <= CounterGuard -> before_secret s = false ->
  run_sop s (OSecret d) = (s', e, fs) ->
  encrypted s' = encrypted s /\
  (e = 0 -> exists f ivo a, fs = [f] /\ f_body f = Ct ivo (seal k (nonce_of (enc_iv s) (enc_ctr s)) a (d ++ [x00]))) /\
  (e <> 0 -> fs = []).
Proof.
  intros Hk Hle Hbs Hr. cbn [run_sop] in Hr.
  set (t := prepare_secret s) in *.
  destruct (prepare_secret_same s) as [Pk [Piv Pc]]. fold t in Pk, Piv, Pc.
  assert (Hkt : key t = Some k) by congruence.
  assert (Het : encrypted t = true) by (apply (prepare_secret_enc s k Hk)).
  assert (Hbt : before_secret t = negb (encrypted s)) by (apply (prepare_secret_marker s k Hk Hbs)).
  (* after the frame, restore switches encryption off exactly when prepare switched it on *)
  assert (Hrest : forall t1 r, send_frame t (d ++ [x00]) EndFlagComplete = (t1, r) ->
                    encrypted (restore_secret t1) = encrypted s).
  { intros t1 r Es. unfold restore_secret. rewrite (send_frame_before_secret _ _ _ _ _ Es), Hbt.
    assert (He1 : encrypted t1 = true).
    { revert Es. unfold send_frame. destruct (MaxMessageSize <? lenN (d ++ [x00])); [intro E; injection E as <- _; exact Het|].
      rewrite Hkt, Het. destruct (enc_ctr t =? CounterGuard); cbv zeta; intro E; injection E as <- _; proj_simpl; exact Het. }
    destruct (encrypted s); cbn [negb]; [exact He1|reflexivity]. }
  destruct (send_frame t (d ++ [x00]) EndFlagComplete) as [t1 [f|x]] eqn:Es; injection Hr as <- <- <-.
  - assert (Hlt : enc_ctr t <= CounterGuard) by (rewrite Pc; exact Hle).
    destruct (send_frame_enc _ _ _ _ _ _ Hkt Het Hlt Es) as [_ [_ [_ [_ [_ [_ Hb]]]]]].
    split; [exact (Hrest _ _ eq_refl)|].
    split; [|intro H; contradiction H; reflexivity].
    intros _. rewrite Pc, Piv in Hb. eexists f, _, _. split; [reflexivity|exact Hb].
  - split; [exact (Hrest _ _ eq_refl)|].
    split; [discriminate|reflexivity].
Qed.

Lemma secret_noop_without_key s : key s = None -> secret_is_noop s = true /\ encrypted (prepare_secret s) = encrypted s.
Proof. intro H. unfold secret_is_noop, prepare_secret. rewrite H. split; reflexivity. Qed.

Lemma secret_noop_when_encrypting s : encrypted s = true -> secret_is_noop s = true.
Proof. intro H. unfold secret_is_noop. destruct (key s); [exact H|reflexivity]. Qed.

Lemma secret_toggle_needed s k : key s = Some k -> encrypted s = false -> secret_is_noop s = false.
Proof. intros Hk He. unfold secret_is_noop. rewrite Hk. exact He. Qed.
