(* Proofs/C07Ref.v — histories of client-cache operations and the reference
   map (tag, addr, cmd) -> session that C07 is stated against.  Definitions only.

   A history is any sequence of
     - client handshakes (tag, addr, cmd) against an ARBITRARY peer (so server
       restarts = SID_NOT_FOUND replies, broken connections = RBroken, and any
       other behaviour of the peer are all covered),
     - clock ticks (expiry), Invalidate, InvalidateExpired, LookupNonExpired.
   The reference keeps routes keyed by the triple itself (no string encoding)
   and remembers for every session the commands the server declared valid. *)
From Coq Require Import List ZArith Bool.
From Cedar Require Import Lib.Bytes Model.Cache.
Import ListNotations.
Local Open Scope Z_scope.

(* ---- histories over the implementation model --------------------------- *)
Inductive event :=
| EHandshake (tag addr : str) (cmd : option str) (p : peer)   (* ClientHandshake, SessionID = "" *)
| ETick (dt : Z)
| EInvalidate (id : str)
| EInvalidateExpired
| ELookupNonExpired (id : str).

Definition step (st : cache * Z) (e : event) : cache * Z :=
  let '(c, now) := st in
  match e with
  | EHandshake t a cmd p => (fst (client_handshake c now [] t a cmd p), now)
  | ETick dt => (c, now + Z.max 0 dt)
  | EInvalidate id => (fst (invalidate c id), now)
  | EInvalidateExpired => (fst (invalidate_expired c now), now)
  | ELookupNonExpired id => (fst (lookup_nonexpired c now id), now)
  end.
Definition run_from (st : cache * Z) (h : list event) : cache * Z := fold_left step h st.
Definition run (h : list event) : cache * Z := run_from (empty_cache, 0) h.

(* ---- the reference map --------------------------------------------------- *)
Definition triple := (str * str * str)%type.
Definition triple_eqb (x y : triple) : bool :=
  let '(t, a, c) := x in let '(t', a', c') := y in
  bytes_eqb t t' && bytes_eqb a a' && bytes_eqb c c'.
Definition enc (tr : triple) : str := let '(t, a, c) := tr in cmd_key t a c.

(* a session with the commands its server declared valid for it *)
Definition rsess := (entry * list str)%type.
Record rstate := { r_sessions : list rsess; r_routes : list (triple * str) }.
Definition rempty : rstate := {| r_sessions := []; r_routes := [] |}.

Definition rfind (id : str) (l : list rsess) : option rsess := find (fun x => id_is id (fst x)) l.
Definition rdel (id : str) (l : list rsess) : list rsess := filter (fun x => negb (id_is id (fst x))) l.
Definition route_get (tr : triple) (m : list (triple * str)) : option str :=
  match find (fun kv => triple_eqb (fst kv) tr) m with Some kv => Some (snd kv) | None => None end.
Definition route_del (tr : triple) (m : list (triple * str)) : list (triple * str) :=
  filter (fun kv => negb (triple_eqb (fst kv) tr)) m.
Definition route_set (tr : triple) (v : str) (m : list (triple * str)) : list (triple * str) :=
  (tr, v) :: route_del tr m.

(* which session, if any, may be reused for (tag, addr, cmd) at time now *)
Definition ref_lookup (r : rstate) (now : Z) (tr : triple) : option rsess :=
  match route_get tr (r_routes r) with
  | None => None
  | Some sid =>
      match rfind sid (r_sessions r) with
      | None => None
      | Some x => if is_expired (fst x) now then None else Some x
      end
  end.

(* the commands a ValidCommands string declares *)
Definition cmds_of (valid : str) : list str :=
  filter (fun c => match c with [] => false | _ => true end) (map trim_space (raw_cmds valid)).

(* a full handshake with tag/addr established session fo: route each declared command to it *)
Definition ref_establish (r : rstate) (now : Z) (tag addr : str) (fo : full_ok) : rstate :=
  fold_left (fun r' cmd => let cmd' := trim_space cmd in
                           match cmd' with
                           | [] => r'
                           | _ => {| r_sessions := r_sessions r';
                                     r_routes := route_set (tag, addr, cmd') (f_sid fo) (r_routes r') |}
                           end)
            (raw_cmds (f_valid fo))
            {| r_sessions := (client_entry now tag addr fo, cmds_of (f_valid fo)) :: rdel (f_sid fo) (r_sessions r);
               r_routes := filter (fun kv => negb (bytes_eqb (snd kv) (f_sid fo))) (r_routes r) |}.
            (* a session registered under an id takes over the id: routes to an earlier holder go *)

(* a session is dropped: it and every route to it go *)
Definition ref_drop (r : rstate) (id : str) : rstate :=
  match rfind id (r_sessions r) with
  | None => r
  | Some _ => {| r_sessions := rdel id (r_sessions r);
                 r_routes := filter (fun kv => negb (bytes_eqb (snd kv) id)) (r_routes r) |}
  end.
Definition ref_sweep (r : rstate) (now : Z) : rstate :=
  let live := filter (fun x => negb (is_expired (fst x) now)) (r_sessions r) in
  {| r_sessions := live;
     r_routes := filter (fun kv => match rfind (snd kv) live with Some _ => true | None => false end) (r_routes r) |}.
Definition ref_lne (r : rstate) (now : Z) (id : str) : rstate :=
  match rfind id (r_sessions r) with
  | None => r
  | Some x => if is_expired (fst x) now
              then {| r_sessions := rdel id (r_sessions r);
                      r_routes := filter (fun kv => negb (bytes_eqb (snd kv) id)) (r_routes r) |} else r
  end.
Definition ref_renew (r : rstate) (now : Z) (x : rsess) : rstate :=
  {| r_sessions := (renew_lease (fst x) now, snd x) :: rdel (e_id (fst x)) (r_sessions r);
     r_routes := r_routes r |}.

Definition ref_full (r : rstate) (now : Z) (tag addr : str) (p : peer) : rstate :=
  match on_full p with
  | FFail => r
  | FOk fo =>
      match f_sid fo, addr with
      | [], _ | _, [] => r
      | _, _ => ref_establish r now tag addr fo
      end
  end.

Definition ref_handshake (r : rstate) (now : Z) (tag addr : str) (cmd : option str) (p : peer) : rstate :=
  match addr, cmd with
  | _ :: _, Some cm =>
      match ref_lookup r now (tag, addr, cm) with
      | Some x =>
          if has_usable_key (fst x) then
            match on_resume p (e_id (fst x)) with
            | RBroken | RSidNotFound => ref_drop r (e_id (fst x))
            | ROtherCode => r
            | RAuthorized | RNoCode => ref_renew r now x
            end
          else ref_full r now tag addr p    (* a session without a usable key is never ridden *)
      | None => ref_full r now tag addr p
      end
  | _, _ => ref_full r now tag addr p
  end.

Definition ref_step (st : rstate * Z) (e : event) : rstate * Z :=
  let '(r, now) := st in
  match e with
  | EHandshake t a cmd p => (ref_handshake r now t a cmd p, now)
  | ETick dt => (r, now + Z.max 0 dt)
  | EInvalidate id => (ref_drop r id, now)
  | EInvalidateExpired => (ref_sweep r now, now)
  | ELookupNonExpired id => (ref_lne r now id, now)
  end.
Definition ref_run_from (st : rstate * Z) (h : list event) : rstate * Z := fold_left ref_step h st.
Definition ref_run (h : list event) : rstate * Z := ref_run_from (rempty, 0) h.

(* ---- side conditions ------------------------------------------------------ *)
Definition no_comma (s : str) : Prop := ~ In ch_comma s.
Definition wf_triple (tr : triple) : Prop :=
  let '(t, a, c) := tr in no_comma t /\ no_comma a /\ no_comma c.

(* tags, addresses and commands of the handshakes contain no comma *)
Definition wf_event (e : event) : Prop :=
  match e with
  | EHandshake t a cmd _ => no_comma t /\ no_comma a /\ match cmd with Some cm => no_comma cm | None => True end
  | _ => True
  end.

Fixpoint good_from (st : cache * Z) (h : list event) : Prop :=
  match h with
  | [] => True
  | e :: r => wf_event e /\ good_from (step st e) r
  end.
(* the only side condition: tags, addresses and commands are comma-free *)
Definition good (h : list event) : Prop := good_from (empty_cache, 0) h.

(* the image of a reference state under the key encoding *)
Definition image (r : rstate) : cache :=
  {| c_sessions := map fst (r_sessions r);
     c_cmdmap := map (fun kv => (enc (fst kv), snd kv)) (r_routes r) |}.
