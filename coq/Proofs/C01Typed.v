(* Proofs/C01Typed.v — C01's typed-layer clause over Model/Msg.v: the Message
   writer accepts values of ANY length and every frame it hands to the stream is
   within the stream sender's limit (MaxMessageSize, the test in sendMessageWithEnd).

   The model writer has no failure outcome: PutChar/PutInt/PutString/
   PutStringBytes/PutBytes/FlushFrame/FinishMessage return an error only when
   Stream.WriteFrame does (or the Message is in decode mode); WriteFrame in turn
   fails only on the size test (excluded here for every frame), on the counter
   guard, or on a transport error. *)
From Coq Require Import List NArith ZArith Lia Bool ZifyBool ZifyNat ZifyN.
From Cedar Require Import Lib.Bytes gen.Consts Model.Msg Proofs.C14Writer.
Import ListNotations.
Local Open Scope N_scope.

(* side conditions on the constants regenerated from /repo *)
Lemma frame_limit_is_stream_limit : MaxFrameSize = MaxMessageSize.
Proof. reflexivity. Qed.
Lemma target_le_max : TargetFrameSize <= MaxFrameSize.
Proof. discriminate. Qed.
Lemma int_fits_target : 8 <= TargetFrameSize.
Proof. discriminate. Qed.

Definition frame_ok (f : mframe) : Prop := lenN (fst f) <= MaxFrameSize.
Definition bounded (w : writer) : Prop :=
  lenN (w_buf w) <= MaxFrameSize /\ Forall frame_ok (w_out w).

Lemma bounded_init : bounded writer_init.
Proof. split; [cbn; lia|constructor]. Qed.

Lemma bounded_flush w e : bounded w -> bounded (flush w e) /\ w_buf (flush w e) = [].
Proof.
  intros [B F]. split; [|reflexivity]. split; cbn [flush w_buf w_out].
  - rewrite lenN_nil. lia.
  - apply Forall_app. split; [exact F|]. constructor; [exact B|constructor].
Qed.
Lemma bounded_cond_flush (c : bool) w : bounded w -> bounded (if c then flush w false else w).
Proof. destruct c; [apply bounded_flush|auto]. Qed.
Lemma bounded_append w bs :
  bounded w -> lenN (w_buf w) + lenN bs <= MaxFrameSize -> bounded (w_append w bs).
Proof.
  intros [B F] L. split; cbn [w_append w_buf w_out]; [rewrite lenN_app; exact L|exact F].
Qed.

(* "flush if the buffer would exceed the target": afterwards the value fits *)
Lemma bounded_flush_then_append w n bs :
  bounded w -> lenN bs <= n -> n <= MaxFrameSize ->
  bounded (w_append (if TargetFrameSize <? lenN (w_buf w) + n then flush w false else w) bs).
Proof.
  pose proof target_le_max as T.
  intros B L M. destruct (TargetFrameSize <? lenN (w_buf w) + n) eqn:E.
  - destruct (bounded_flush w false B) as [B1 E1]. apply bounded_append; [exact B1|].
    rewrite E1, lenN_nil. lia.
  - apply bounded_append; [exact B|]. lia.
Qed.

Lemma bounded_put_char w c : bounded w -> bounded (put_char w c).
Proof.
  pose proof target_le_max as T. pose proof int_fits_target as I.
  intro B. unfold put_char. destruct (TargetFrameSize <=? lenN (w_buf w)) eqn:E.
  - destruct (bounded_flush w false B) as [B1 E1]. apply bounded_append; [exact B1|].
    rewrite E1. cbn. lia.
  - apply bounded_append; [exact B|]. change (lenN [c]) with 1. lia.
Qed.

Lemma enc_int_len z : lenN (enc_int z) = 8.
Proof. rewrite lenN_spec. unfold enc_int. rewrite be_enc_length. reflexivity. Qed.

Lemma bounded_put_int w z : bounded w -> bounded (put_int w z).
Proof.
  pose proof target_le_max as T. pose proof int_fits_target as I.
  intro B. unfold put_int. apply bounded_flush_then_append; [exact B|rewrite enc_int_len; lia|lia].
Qed.

(* after PutInt the buffer holds at most max(8, previous+8 if that fit the target) *)
Lemma put_int_buf w z :
  lenN (w_buf (put_int w z)) = (if TargetFrameSize <? lenN (w_buf w) + 8 then 8 else lenN (w_buf w) + 8).
Proof.
  unfold put_int. destruct (TargetFrameSize <? lenN (w_buf w) + 8);
    cbn [w_append flush w_buf]; rewrite ?lenN_app, enc_int_len; cbn; lia.
Qed.

Lemma firstn_lenN_le (data : bytes) n : lenN (firstn (N.to_nat n) data) <= n.
Proof. rewrite lenN_spec, firstn_length. lia. Qed.

Lemma bounded_put_chunks fuel : forall w data, bounded w -> bounded (put_chunks fuel w data).
Proof.
  induction fuel as [|f IH]; intros w data B; cbn [put_chunks]; [exact B|].
  destruct data as [|b data']; [exact B|]. set (data := b :: data').
  apply IH. destruct (0 <? lenN (w_buf w)) eqn:E.
  - destruct (bounded_flush w false B) as [B1 E1]. apply bounded_append; [exact B1|].
    rewrite E1, lenN_nil. pose proof (firstn_lenN_le data MaxFrameSize). lia.
  - apply bounded_append; [exact B|]. pose proof (firstn_lenN_le data MaxFrameSize). lia.
Qed.

Lemma bounded_put_bytes w data : bounded w -> bounded (put_bytes w data).
Proof.
  intro B. unfold put_bytes. destruct (lenN data =? 0); [exact B|].
  destruct (MaxFrameSize <? lenN data) eqn:E.
  - apply bounded_put_chunks, B.
  - apply bounded_flush_then_append; [exact B|lia|lia].
Qed.

Lemma bounded_put_string enc w s : bounded w -> bounded (put_string enc w s).
Proof.
  pose proof target_le_max as T. pose proof int_fits_target as I.
  intro B. unfold put_string.
  set (data := upto_nul s ++ [x00]).
  destruct (MaxFrameSize <? (if enc then lenN data + 8 else lenN data)) eqn:E.
  - apply bounded_put_bytes. destruct enc; [apply bounded_put_int|]; apply bounded_cond_flush, B.
  - destruct enc.
    + (* length prefix, then the data: together they are [needed] <= MaxFrameSize bytes *)
      set (w1 := if TargetFrameSize <? lenN (w_buf w) + (lenN data + 8) then flush w false else w).
      assert (B1 : bounded w1) by (apply bounded_cond_flush, B).
      apply bounded_append; [apply bounded_put_int, B1|].
      rewrite put_int_buf.
      assert (L1 : lenN (w_buf w1) = 0 \/ lenN (w_buf w1) + (lenN data + 8) <= TargetFrameSize).
      { unfold w1. destruct (TargetFrameSize <? lenN (w_buf w) + (lenN data + 8)) eqn:F.
        - left. reflexivity.
        - right. lia. }
      destruct (TargetFrameSize <? lenN (w_buf w1) + 8) eqn:G; lia.
    + apply bounded_flush_then_append; [exact B|lia|lia].
Qed.

Lemma bounded_put_string_bytes enc w s : bounded w -> bounded (put_string_bytes enc w s).
Proof.
  pose proof target_le_max as T. pose proof int_fits_target as I.
  intro B. unfold put_string_bytes.
  set (b := upto_nul s).
  destruct (MaxFrameSize <? (if enc then lenN b + 1 + 8 else lenN b + 1)) eqn:E.
  - apply bounded_put_bytes, bounded_put_bytes.
    destruct enc; [apply bounded_put_int|]; apply bounded_cond_flush, B.
  - assert (LB : lenN (b ++ [x00]) = lenN b + 1) by (rewrite lenN_app; reflexivity).
    destruct enc.
    + set (w1 := if TargetFrameSize <? lenN (w_buf w) + (lenN b + 1 + 8) then flush w false else w).
      assert (B1 : bounded w1) by (apply bounded_cond_flush, B).
      apply bounded_append; [apply bounded_put_int, B1|].
      rewrite put_int_buf, LB.
      assert (L1 : lenN (w_buf w1) = 0 \/ lenN (w_buf w1) + (lenN b + 1 + 8) <= TargetFrameSize).
      { unfold w1. destruct (TargetFrameSize <? lenN (w_buf w) + (lenN b + 1 + 8)) eqn:F.
        - left. reflexivity.
        - right. lia. }
      destruct (TargetFrameSize <? lenN (w_buf w1) + 8) eqn:G; lia.
    + apply bounded_flush_then_append; [exact B|lia|lia].
Qed.

Lemma bounded_do_put enc w o : bounded w -> bounded (do_put enc w o).
Proof.
  intro B. destruct o; cbn [do_put].
  - apply bounded_put_char, B.
  - apply bounded_put_int, B.
  - apply bounded_put_string, B.
  - apply bounded_put_string_bytes, B.
  - apply bounded_put_bytes, B.
  - apply bounded_flush, B.
Qed.

Lemma bounded_fold enc ops : forall w, bounded w -> bounded (fold_left (do_put enc) ops w).
Proof.
  induction ops as [|o t IH]; intros w B; cbn [fold_left]; [exact B|].
  apply IH, bounded_do_put, B.
Qed.

(* For EVERY sequence of Put operations (chars, integers, strings and byte strings of
   any length, explicit FlushFrame calls), in both modes, every frame the writer hands
   to the stream - the final EOM frame included - carries at most MaxMessageSize
   bytes, i.e. passes the size test of the stream sender (Model/Frame.v send_frame:
   [MaxMessageSize <? lenN data] is false). *)
Theorem typed_frames_within_limit enc (ops : list wop) :
  Forall (fun f : mframe => lenN (fst f) <= MaxMessageSize) (w_out (write_ops enc ops)).
Proof.
  rewrite <- frame_limit_is_stream_limit. unfold write_ops.
  destruct (bounded_flush _ true (bounded_fold enc ops writer_init bounded_init)) as [[_ F] _].
  exact F.
Qed.

(* and nothing is lost or reordered by the splitting: the payloads concatenate to the
   encodings of the values, only the last frame carries EOM (from Proofs/C14Writer.v) *)
Theorem typed_frames_carry_everything enc (ops : list wop) :
  concat (map fst (w_out (write_ops enc ops))) = concat (map (wop_bytes enc) ops) /\
  exists fs last, w_out (write_ops enc ops) = fs ++ [(last, true)] /\
                  Forall (fun f : mframe => snd f = false) fs.
Proof. split; [apply write_ops_content|apply write_ops_eom]. Qed.

(* the limit is tight: a PutBytes of 3*MaxFrameSize+5 bytes is split into frames of
   exactly MaxFrameSize, MaxFrameSize, MaxFrameSize and 5 bytes (lengths only) *)
Example typed_split_example :
  map (fun f : mframe => lenN (fst f))
      (w_out (write_ops false [WInt 7; WBytes (payload 0 (3 * MaxFrameSize + 5)); WChar x41]))
  = [8; MaxFrameSize; MaxFrameSize; MaxFrameSize; 6].
Proof. vm_compute. reflexivity. Qed.
