(* Proofs/C13version.v — version.Parse / AtLeast / BuiltSinceVersion. *)
From Coq Require Import List NArith ZArith Lia Bool.
From Coq Require Import ZifyBool ZifyNat ZifyN.
From Cedar Require Import Lib.Bytes Model.Decode Model.Sinful Model.Version Proofs.C13 Proofs.C13sinful.
Import ListNotations.
Local Open Scope Z_scope.

Lemma digits_val_nonneg s : forall acc v, 0 <= acc -> digits_val s acc = Some v -> 0 <= v.
Proof.
  induction s as [|c r IH]; intros acc v Ha; cbn [digits_val].
  - intro E; inversion E; subst; exact Ha.
  - destruct ((48 <=? Z.of_N (b2n c)) && (Z.of_N (b2n c) <=? 57)) eqn:D; [|discriminate].
    apply IH. lia.
Qed.

Definition in_int64 (z : Z) : Prop := int64_min <= z <= int64_max.

Lemma atoi_range s : in_int64 (fst (atoi s)).
Proof.
  unfold atoi, in_int64, int64_min, int64_max. destruct s as [|c r]; cbn [fst]; [lia|].
  destruct (if byte_eqb c x2d || byte_eqb c x2b then r else c :: r) as [|d0 dr] eqn:Dg; cbn [fst]; [lia|].
  destruct (digits_val (d0 :: dr) 0) as [v|] eqn:V; cbn [fst]; [|lia].
  apply digits_val_nonneg in V; [|lia].
  destruct (byte_eqb c x2d).
  - destruct (Z.ltb_spec (2 ^ 63) v); cbn [fst]; lia.
  - destruct (Z.leb_spec (2 ^ 63) v); cbn [fst]; lia.
Qed.

(* an accepted major / minor is an Atoi success, hence in range AND exactly the digits read *)
Lemma version_of_field_range f a b c :
  version_of_field f = Some (a, b, c) -> in_int64 a /\ in_int64 b /\ in_int64 c.
Proof.
  unfold version_of_field. destruct (split_on x2e f []) as [|p0 [|p1 rest]]; try discriminate.
  pose proof (atoi_range p0) as R0. pose proof (atoi_range p1) as R1.
  destruct (atoi p0) as [maj e1]. destruct (atoi p1) as [mn e2]. cbn [fst] in *.
  destruct (e1 || e2); [discriminate|]. intro E; inversion E; subst.
  split; [exact R0|]. split; [exact R1|].
  destruct rest as [|p2 rest']; [unfold in_int64, int64_min, int64_max; lia|apply atoi_range].
Qed.

Lemma first_version_in fs v : first_version fs = Some v -> exists f, In f fs /\ version_of_field f = Some v.
Proof.
  induction fs as [|f r IH]; cbn [first_version]; [discriminate|].
  destruct (version_of_field f) as [w|] eqn:E.
  - intro H; inversion H; subst. exists f. split; [left; reflexivity|exact E].
  - intro H. destruct (IH H) as (g & Hg & Eg). exists g. split; [right; exact Hg|exact Eg].
Qed.

Theorem version_parse_sound s a b c :
  version_parse s = Some (a, b, c) ->
  in_int64 a /\ in_int64 b /\ in_int64 c /\
  exists f, In f (fields_by is_version_sep s []) /\ version_of_field f = Some (a, b, c) /\ (lenN f <= lenN s)%N.
Proof.
  unfold version_parse. intro H. destruct (first_version_in _ _ H) as (f & Hf & Ef).
  destruct (version_of_field_range _ _ _ _ Ef) as (Ra & Rb & Rc).
  split; [exact Ra|]. split; [exact Rb|]. split; [exact Rc|]. exists f. split; [exact Hf|]. split; [exact Ef|].
  apply fields_by_len in Hf. rewrite lenN_nil in Hf. lia.
Qed.

(* the number of tokens examined is bounded by the separators in the input *)
Theorem version_parse_work s :
  (length (fields_by is_version_sep s []) <= count_sep is_version_sep s + 1)%nat.
Proof. apply fields_by_length. Qed.

(* AtLeast is the lexicographic order on (major, minor, sub): a total preorder, and
   BuiltSinceVersion (the ClassAd writer's gate) is the same relation *)
Theorem at_least_order :
  (forall v, at_least v v = true) /\
  (forall u v w, at_least u v = true -> at_least v w = true -> at_least u w = true) /\
  (forall u v, at_least u v = true \/ at_least v u = true) /\
  (forall u v, built_since u v = at_least u v).
Proof.
  assert (T : forall P Q R S : Prop, P -> Q -> R -> S -> P /\ Q /\ R /\ S) by tauto.
  apply T.
  - intros [[a b] c]. unfold at_least. rewrite !Z.eqb_refl. cbn [negb]. lia.
  - intros [[a1 b1] c1] [[a2 b2] c2] [[a3 b3] c3]. unfold at_least.
    destruct (Z.eqb_spec a1 a2), (Z.eqb_spec a2 a3), (Z.eqb_spec a1 a3), (Z.eqb_spec b1 b2), (Z.eqb_spec b2 b3), (Z.eqb_spec b1 b3);
      cbn [negb]; lia.
  - intros [[a1 b1] c1] [[a2 b2] c2]. unfold at_least.
    destruct (Z.eqb_spec a1 a2), (Z.eqb_spec a2 a1), (Z.eqb_spec b1 b2), (Z.eqb_spec b2 b1); cbn [negb]; lia.
  - intros [[a1 b1] c1] [[a2 b2] c2]. unfold at_least, built_since.
    destruct (Z.eqb_spec a1 a2), (Z.eqb_spec b1 b2); cbn [negb andb orb]; lia.
Qed.
