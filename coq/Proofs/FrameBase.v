(* Proofs/FrameBase.v — basic facts about Model/Frame.v: the pairing invariant
   between a sender half and the peer's receiver half, and the single-frame
   send/receive lemma everything else is built on. *)
From Coq Require Import List NArith ZArith Lia Bool.
From Cedar Require Import Lib.Bytes Lib.Sym gen.Consts Model.Frame.
Import ListNotations.
Local Open Scope N_scope.

(* ---- side conditions on the constants regenerated from the source ---- *)
Lemma consts_frame :
  GcmTagSize = 16 /\ WireSlack = 32 /\ IvLenRecv = 16 /\ MinTagLen = 16 /\
  CounterGuard = 4294967295 /\ EndFlagPartial = 0 /\ EndFlagComplete = 1 /\
  EndFlagComplete <= FlagMaxRecvWE /\ EndFlagComplete <= FlagMaxRecv /\
  0 < DefaultFrameThreshold /\ DefaultFrameThreshold <= MaxMessageSize /\ KeyLen = 32 /\
  NormalHeaderSize = 5.
Proof. vm_compute. repeat split; congruence. Qed.

Lemma tag_pos : 0 < GcmTagSize. Proof. destruct consts_frame as [-> _]. lia. Qed.
Lemma slack_ok : GcmTagSize + GcmTagSize <= WireSlack.
Proof. destruct consts_frame as [-> [-> _]]. lia. Qed.

(* ---- digests ---------------------------------------------------------- *)
Lemma dg_value_finalize d : dg_value (dg_finalize d) = dg_value d.
Proof. reflexivity. Qed.
Lemma dg_finalize_idem d : dg_finalize (dg_finalize d) = dg_finalize d.
Proof. reflexivity. Qed.
Lemma dg_write_final d bs : dg_final d <> None -> dg_write d bs = d.
Proof. unfold dg_write. destruct (dg_final d); congruence. Qed.
Lemma dg_write_finalize d bs : dg_write (dg_finalize d) bs = dg_finalize d.
Proof. reflexivity. Qed.

Ltac proj_simpl :=
  cbn [key encrypted authenticated enc_iv dec_iv enc_ctr dec_ctr fin_send_aad fin_recv_aad
       send_dg recv_dg send_buf send_eom recv_buf bytes_read total_msg in_msg before_secret peer_addr
       upd_send upd_recv upd_sbuf upd_rbuf upd_enc f_flag f_body] in *.

(* two digest states that will always yield the same digest: either both still
   running over identical input, or both frozen to the same value *)
Definition dsim (d1 d2 : dstate) : Prop :=
  (dg_final d1 = None /\ d1 = d2) \/
  (dg_final d1 <> None /\ dg_final d2 <> None /\ dg_value d1 = dg_value d2).

Lemma dsim_refl d : dsim d d.
Proof. unfold dsim. destruct (dg_final d) eqn:E; [right|left]; repeat split; congruence. Qed.
Lemma dsim_sym d1 d2 : dsim d1 d2 -> dsim d2 d1.
Proof.
  intros [[H1 H2]|[H1 [H2 H3]]]; [left; subst; split; [assumption|reflexivity]|right; repeat split; congruence].
Qed.
Lemma dsim_value d1 d2 : dsim d1 d2 -> dg_value d1 = dg_value d2.
Proof. intros [[_ ->]|[_ [_ H]]]; [reflexivity|exact H]. Qed.
Lemma dsim_write d1 d2 bs : dsim d1 d2 -> dsim (dg_write d1 bs) (dg_write d2 bs).
Proof.
  intros [[H1 H2]|[H1 [H2 H3]]].
  - subst d2. apply dsim_refl.
  - rewrite !dg_write_final by assumption. right. repeat split; assumption.
Qed.
Lemma dsim_finalize d1 d2 : dsim d1 d2 -> dsim (dg_finalize d1) (dg_finalize d2).
Proof.
  intro H. right. split; [discriminate|]. split; [discriminate|].
  rewrite !dg_value_finalize. apply dsim_value. exact H.
Qed.
Lemma dsim_fin_dg b d1 d2 : dsim d1 d2 -> dsim (fin_dg b d1) (fin_dg b d2).
Proof. destruct b; cbn [fin_dg]; [auto|apply dsim_finalize]. Qed.
Lemma dg_value_fin_dg b d : dg_value (fin_dg b d) = dg_value d.
Proof. destruct b; reflexivity. Qed.

(* ---- the pairing invariant ------------------------------------------- *)
(* A's sending half mirrors B's receiving half. *)
Record paired (A B : stream) : Prop := {
  p_key : key A = key B;
  p_enc : encrypted A = encrypted B;
  p_ctr : enc_ctr A = dec_ctr B;
  p_iv : 0 < enc_ctr A -> enc_iv A = dec_iv B;
  p_ivlen : lenN (enc_iv A) = 16;
  p_fin : fin_send_aad A = fin_recv_aad B;
  p_sdg : dsim (send_dg A) (recv_dg B);
  p_rdg : dsim (recv_dg A) (send_dg B)
}.
Definition duplex (A B : stream) : Prop := paired A B /\ paired B A.

Lemma enc_active_paired A B : paired A B -> enc_active A = enc_active B.
Proof. intros [Hk He _ _ _ _ _ _]. unfold enc_active. rewrite Hk, He. reflexivity. Qed.

Lemma hdr_of_length flag len : length (hdr_of flag len) = 5%nat.
Proof. unfold hdr_of. cbn [length]. rewrite be_enc_length. reflexivity. Qed.

Global Opaque hdr_of nonce_of.

(* the crypto-for-secret toggle touches nothing but the encryption flag and its own marker *)
Lemma prepare_secret_same s :
  key (prepare_secret s) = key s /\ enc_iv (prepare_secret s) = enc_iv s /\ enc_ctr (prepare_secret s) = enc_ctr s.
Proof. unfold prepare_secret. destruct (key s) eqn:E; [destruct (encrypted s)|]; proj_simpl; rewrite ?E; auto. Qed.
Lemma restore_secret_same s :
  key (restore_secret s) = key s /\ enc_iv (restore_secret s) = enc_iv s /\ enc_ctr (restore_secret s) = enc_ctr s.
Proof. unfold restore_secret. destruct (before_secret s); proj_simpl; auto. Qed.
Lemma prepare_secret_enc s k : key s = Some k -> encrypted (prepare_secret s) = true.
Proof. intro H. unfold prepare_secret. rewrite H. destruct (encrypted s) eqn:E; [exact E|reflexivity]. Qed.
Lemma prepare_secret_marker s k :
  key s = Some k -> before_secret s = false -> before_secret (prepare_secret s) = negb (encrypted s).
Proof. intros H Hb. unfold prepare_secret. rewrite H. destruct (encrypted s); [exact Hb|reflexivity]. Qed.

(* what a successful send looks like *)
Lemma send_frame_ok_len s d fl s' f :
  send_frame s d fl = (s', SOk f) -> lenN d <= MaxMessageSize.
Proof.
  unfold send_frame. destruct (MaxMessageSize <? lenN d) eqn:E; [discriminate|].
  intros _. apply N.ltb_ge in E. exact E.
Qed.

Lemma send_frame_flag s d fl s' f :
  send_frame s d fl = (s', SOk f) -> f_flag f = fl.
Proof.
  unfold send_frame. destruct (MaxMessageSize <? lenN d); [discriminate|].
  destruct (key s) as [k|].
  - destruct (encrypted s).
    + destruct (enc_ctr s =? CounterGuard); [discriminate|].
      intro E; inversion E; reflexivity.
    + intro E; inversion E; reflexivity.
  - intro E; inversion E; reflexivity.
Qed.

Lemma body_len_ct (b : bool) iv k n a p :
  body_len (Ct (if b then Some iv else None) (seal k n a p)) = lenN p + GcmTagSize + (if b then GcmTagSize else 0).
Proof. cbn [body_len ct_len seal]. destruct consts_frame as [-> _]. destruct b; lia. Qed.

(* ---- the single-frame lemma ------------------------------------------ *)
Lemma lenN_zero_nil (d : bytes) : lenN d = 0 -> d = [].
Proof. destruct d; [reflexivity|rewrite lenN_cons; lia]. Qed.

(* plaintext frame through ReceiveFrameWithEnd *)
Lemma recv_plain B d fl :
  enc_active B = false -> lenN d <= MaxMessageSize -> fl <= FlagMaxRecvWE ->
  recv_frame_we B {| f_flag := fl; f_body := Raw d |} =
    (note_recv B (hdr_of fl (lenN d) ++ d), SOk (d, fl)).
Proof.
  intros Hna Hmax Hfl. unfold recv_frame_we, recv_frame_gen. cbn [f_flag f_body body_len].
  unfold max_wire. rewrite Hna.
  assert (E1 : MaxMessageSize <? lenN d = false) by (apply N.ltb_ge; exact Hmax). rewrite E1.
  assert (E2 : FlagMaxRecvWE <? fl = false) by (apply N.ltb_ge; exact Hfl). rewrite E2.
  destruct (lenN d =? 0) eqn:E0.
  - apply N.eqb_eq in E0. pose proof (lenN_zero_nil _ E0) as ->. rewrite app_nil_r. reflexivity.
  - unfold recv_body. rewrite Hna. reflexivity.
Qed.

(* the receiver opens exactly what the paired sender sealed *)
Lemma decrypt_sealed A B k hdr d :
  paired A B -> key A = Some k ->
  decrypt B k hdr (Ct (if enc_ctr A =? 0 then Some (enc_iv A) else None)
                      (seal k (nonce_of (enc_iv A) (enc_ctr A)) (aad_send A hdr) d)) =
    (upd_recv B (enc_iv A) (enc_ctr A + 1) true
       (fin_dg (fin_recv_aad B) (send_dg B)) (fin_dg (fin_recv_aad B) (recv_dg B)), SOk d).
Proof.
  intros [Hk He Hc Hiv Hivl Hf Hsd Hrd] EkA.
  assert (Hw : forall div blen, div = enc_iv A ->
     decrypt_with B k hdr div (seal k (nonce_of (enc_iv A) (enc_ctr A)) (aad_send A hdr) d) blen =
     (upd_recv B (enc_iv A) (enc_ctr A + 1) true
       (fin_dg (fin_recv_aad B) (send_dg B)) (fin_dg (fin_recv_aad B) (recv_dg B)), SOk d)).
  { intros div blen ->. unfold decrypt_with. rewrite <- Hc.
    assert (Ha : aad_recv B hdr = aad_send A hdr).
    { unfold aad_recv, aad_send. rewrite <- Hf, (dsim_value _ _ Hsd), (dsim_value _ _ Hrd). reflexivity. }
    rewrite Ha, open_seal. reflexivity. }
  unfold decrypt. cbv zeta. rewrite <- Hc.
  destruct (enc_ctr A =? 0) eqn:E0.
  - rewrite Hivl. change (16 =? 16) with true. cbv iota. apply Hw. reflexivity.
  - apply Hw. symmetry. apply Hiv. apply N.eqb_neq in E0. lia.
Qed.

Lemma send_recv_frame A B d fl A' f :
  duplex A B -> fl <= FlagMaxRecvWE ->
  send_frame A d fl = (A', SOk f) ->
  exists B', recv_frame_we B f = (B', SOk (d, fl)) /\ duplex A' B'.
Proof.
  intros [PAB PBA] Hfl Hs.
  pose proof (enc_active_paired _ _ PAB) as Hact.
  pose proof PAB as PAB0.
  destruct PAB as [Hk He Hc Hiv Hivl Hf Hsd Hrd].
  destruct PBA as [Hk' He' Hc' Hiv' Hivl' Hf' Hsd' Hrd'].
  unfold send_frame in Hs.
  destruct (MaxMessageSize <? lenN d) eqn:Emax; [discriminate|]. apply N.ltb_ge in Emax.
  pose proof tag_pos as Htag. pose proof slack_ok as Hslack.
  assert (Hplain : enc_active A = false ->
    (upd_send A (enc_ctr A) (fin_send_aad A) (dg_write (send_dg A) (hdr_of fl (lenN d) ++ d)) (recv_dg A),
     SOk {| f_flag := fl; f_body := Raw d |}) = (A', SOk f) ->
    exists B', recv_frame_we B f = (B', SOk (d, fl)) /\ duplex A' B').
  { intros Hna Hs2. injection Hs2 as <- <-.
    rewrite recv_plain; [|rewrite <- Hact; exact Hna|exact Emax|exact Hfl].
    eexists. split; [reflexivity|].
    unfold note_recv.
    split; constructor; proj_simpl; try assumption; try congruence;
      try (apply dsim_write; assumption); apply dsim_sym, dsim_write, dsim_sym; assumption. }
  destruct (key A) as [k|] eqn:EkA.
  - destruct (encrypted A) eqn:EeA.
    + destruct (enc_ctr A =? CounterGuard) eqn:Eg; [discriminate|].
      cbv zeta in Hs. injection Hs as <- <-.
      assert (HactA : enc_active A = true) by (unfold enc_active; rewrite EkA, EeA; reflexivity).
      rewrite HactA in Hact. symmetry in Hact.
      unfold recv_frame_we, recv_frame_gen. cbn [f_flag f_body].
      rewrite body_len_ct.
      set (wlen := lenN d + GcmTagSize + (if enc_ctr A =? 0 then GcmTagSize else 0)) in *.
      unfold max_wire. rewrite Hact.
      assert (E1 : MaxMessageSize + WireSlack <? wlen = false).
      { apply N.ltb_ge. unfold wlen. destruct (enc_ctr A =? 0); lia. } rewrite E1.
      assert (E2 : FlagMaxRecvWE <? fl = false) by (apply N.ltb_ge; exact Hfl). rewrite E2.
      assert (E3 : wlen =? 0 = false) by (apply N.eqb_neq; unfold wlen; destruct (enc_ctr A =? 0); lia). rewrite E3.
      unfold recv_body. rewrite Hact, <- Hk.
      rewrite (decrypt_sealed A B k (hdr_of fl wlen) d PAB0 EkA).
      eexists. split; [reflexivity|].
      unfold note_recv, fin_dg.
      split; constructor; proj_simpl; try assumption; try congruence; try lia.
      * rewrite <- Hf. apply dsim_write, dsim_fin_dg. exact Hsd.
      * rewrite <- Hf. apply dsim_fin_dg. exact Hrd.
      * rewrite <- Hf. apply dsim_sym, dsim_fin_dg, dsim_sym. exact Hsd'.
      * rewrite <- Hf. apply dsim_sym, dsim_write, dsim_fin_dg, dsim_sym. exact Hrd'.
    + apply Hplain; [unfold enc_active; rewrite EkA, EeA; reflexivity|exact Hs].
  - apply Hplain; [unfold enc_active; rewrite EkA; reflexivity|exact Hs].
Qed.
