(* Proofs/C08.v — the literal shortcuts are sound with respect to the lexer specification. *)
From Coq Require Import List NArith ZArith Lia Bool.
From Coq Require Import ZifyBool ZifyNat ZifyN.
From Cedar Require Import Lib.Bytes Model.Literal.
Import ListNotations.
Local Open Scope N_scope.

(* ------------------------------------------------------------------ *)
(* white space                                                         *)

Inductive WS : bytes -> Prop :=
| WS_nil : WS []
| WS_1 b r : is_ascii_space b = true -> WS r -> WS (b :: r)
| WS_2 a b r : sp2 a b = true -> WS r -> WS (a :: b :: r)
| WS_3 a b c r : sp3 a b c = true -> WS r -> WS (a :: b :: c :: r).

Lemma sp2_not_ascii a b : sp2 a b = true -> is_ascii_space a = false.
Proof. unfold sp2, is_ascii_space, beq. intro H. lia. Qed.
Lemma sp3_not_ascii a b c : sp3 a b c = true -> is_ascii_space a = false.
Proof. unfold sp3, is_ascii_space, beq. intro H. lia. Qed.
Lemma sp3_not_sp2 a b c : sp3 a b c = true -> sp2 a b = false.
Proof. unfold sp3, sp2, beq. intro H. lia. Qed.

Lemma WS_trim w : WS w -> forall x, trim_left (w ++ x) = trim_left x.
Proof.
  induction 1 as [|b r Hb _ IH|a b r H2 _ IH|a b c r H3 _ IH]; intro x.
  - reflexivity.
  - cbn [app trim_left]. rewrite Hb. apply IH.
  - cbn [app trim_left]. rewrite (sp2_not_ascii _ _ H2), H2. apply IH.
  - cbn [app trim_left]. rewrite (sp3_not_ascii _ _ _ H3), (sp3_not_sp2 _ _ _ H3), H3. apply IH.
Qed.

Lemma WS_trim_nil w : WS w -> trim_left w = [].
Proof. intro H. rewrite <- (app_nil_r w). rewrite (WS_trim w H). reflexivity. Qed.

Lemma WS_app a b : WS a -> WS b -> WS (a ++ b).
Proof. induction 1; intro Hb; cbn [app]; [assumption|constructor; auto|apply WS_2; auto|apply WS_3; auto]. Qed.

(* the first byte of white space is never part of a number, word or string *)
Definition ws_head (b : byte) : bool :=
  is_ascii_space b || beq b 194 || beq b 225 || beq b 226 || beq b 227.
Lemma WS_head b r : WS (b :: r) -> ws_head b = true.
Proof.
  intro H. inversion H as [|? ? H1 _|? ? ? H2 _|? ? ? ? H3 _]; subst; unfold ws_head.
  - rewrite H1. reflexivity.
  - unfold sp2, beq in *. lia.
  - unfold sp3, beq in *. lia.
Qed.

(* what trim_left_rev strips is white space, read backwards *)
Lemma trim_left_rev_split : forall n s, (length s <= n)%nat ->
  exists p, s = p ++ trim_left_rev s /\ WS (rev p).
Proof.
  induction n as [|n IH]; intros s Hn.
  - destruct s; [|cbn in Hn; lia]. exists []. split; [reflexivity|constructor].
  - destruct s as [|b r]; [exists []; split; [reflexivity|constructor]|].
    cbn [trim_left_rev]. destruct (is_ascii_space b) eqn:Eb.
    { destruct (IH r) as (p & Hp & Hw); [cbn in Hn; lia|].
      exists (b :: p). split; [cbn [app]; congruence|].
      cbn [rev]. apply WS_app; [exact Hw|]. constructor; [exact Eb|constructor]. }
    destruct r as [|b2 r2]; [exists []; split; [reflexivity|constructor]|].
    destruct (sp2 b2 b) eqn:E2.
    { destruct (IH r2) as (p & Hp & Hw); [cbn in Hn; lia|].
      exists (b :: b2 :: p). split; [cbn [app]; congruence|].
      cbn [rev]. rewrite <- app_assoc. apply WS_app; [exact Hw|]. cbn [app]. apply WS_2; [exact E2|constructor]. }
    destruct r2 as [|b3 r3]; [exists []; split; [reflexivity|constructor]|].
    destruct (sp3 b3 b2 b) eqn:E3.
    { destruct (IH r3) as (p & Hp & Hw); [cbn in Hn; lia|].
      exists (b :: b2 :: b3 :: p). split; [cbn [app]; congruence|].
      cbn [rev]. rewrite <- !app_assoc. apply WS_app; [exact Hw|]. cbn [app]. apply WS_3; [exact E3|constructor]. }
    exists []. split; [reflexivity|constructor].
Qed.

Lemma trim_right_split u : exists w, u = trim_right u ++ w /\ WS w.
Proof.
  destruct (trim_left_rev_split (length (rev u)) (rev u) (le_n _)) as (p & Hp & Hw).
  exists (rev p). split; [|exact Hw].
  unfold trim_right. rewrite <- rev_app_distr, <- Hp, rev_involutive. reflexivity.
Qed.

(* ------------------------------------------------------------------ *)
(* byte-class facts                                                    *)

Lemma lower_byte_letter b : is_letter (lower_byte b) = true -> is_letter b = true.
Proof.
  unfold lower_byte, is_letter. destruct ((65 <=? b2n b) && (b2n b <=? 90)) eqn:E; intro H; [reflexivity|rewrite E in H; exact H].
Qed.

Lemma letter_ident b : is_letter b = true -> is_ident_char b = true.
Proof. unfold is_ident_char. intro H. rewrite H. reflexivity. Qed.

Lemma digit_not_space b : is_digit b = true -> is_ascii_space b = false /\ beq b 194 = false /\ beq b 225 = false /\ beq b 226 = false /\ beq b 227 = false.
Proof. unfold is_digit, is_ascii_space, beq. intro H. repeat split; lia. Qed.

Lemma trim_left_nonspace b r :
  is_ascii_space b = false -> beq b 194 = false -> beq b 225 = false -> beq b 226 = false -> beq b 227 = false ->
  trim_left (b :: r) = b :: r.
Proof.
  intros H1 H2 H3 H4 H5. cbn [trim_left]. rewrite H1.
  destruct r as [|b2 r2]; [reflexivity|].
  assert (E2 : sp2 b b2 = false) by (unfold sp2; rewrite H2; reflexivity). rewrite E2.
  destruct r2 as [|b3 r3]; [reflexivity|].
  assert (E3 : sp3 b b2 b3 = false) by (unfold sp3; rewrite H3, H4, H5; reflexivity). rewrite E3. reflexivity.
Qed.

(* ------------------------------------------------------------------ *)
(* booleans                                                            *)

Lemma span_ident_app t x :
  forallb is_ident_char t = true ->
  match x with [] => True | b :: _ => is_ident_char b = false end ->
  span_ident (t ++ x) = (t, x).
Proof.
  intros Ht Hx. induction t as [|b t IH]; cbn [app].
  - destruct x as [|b r]; [reflexivity|]. cbn [span_ident]. rewrite Hx. reflexivity.
  - cbn [forallb] in Ht. apply andb_true_iff in Ht as [Hb Ht].
    cbn [span_ident]. rewrite Hb, (IH Ht). reflexivity.
Qed.

Lemma ws_head_not_ident b : ws_head b = true -> is_ident_char b = false /\ beq b 46 = false /\ is_digit b = false
  /\ beq b 101 = false /\ beq b 69 = false /\ beq b 34 = false.
Proof.
  unfold ws_head, is_ident_char, is_letter, is_digit, is_ascii_space, beq. intro H. repeat split; lia.
Qed.

Lemma fold_eq_letters t kw :
  forallb is_letter kw = true -> fold_eq t kw = true -> forallb is_letter t = true /\ length t = length kw.
Proof.
  unfold fold_eq. intros Hk H. apply bytes_eqb_eq in H. subst kw.
  split; [|now rewrite map_length].
  induction t as [|b t IH]; [reflexivity|]. cbn [map forallb] in *.
  apply andb_true_iff in Hk as [H1 H2]. rewrite (lower_byte_letter _ H1), (IH H2). reflexivity.
Qed.

Lemma letter_first_facts b : is_letter b = true ->
  beq b 45 = false /\ beq b 43 = false /\ is_digit b = false /\ beq b 46 = false /\ beq b 34 = false.
Proof. unfold is_letter, is_digit, beq. intro H. repeat split; lia. Qed.

Lemma WS_only_space {A} (a : A) w : WS w -> only_space_after (Some (a, w)) = Some a.
Proof. intro H. unfold only_space_after. rewrite (WS_trim_nil _ H). reflexivity. Qed.

Lemma ws_x_head w : WS w -> match w with [] => True | b :: _ => ws_head b = true end.
Proof. intro H. destruct w; [exact I|]. exact (WS_head _ _ H). Qed.

(* a keyword (all letters, no scope prefix can follow: next is white space or the end) *)
Lemma lex_bool_kw t w (v : bool) :
  WS w -> t <> [] -> forallb is_letter t = true ->
  (if fold_eq t kw_true then Some true else if fold_eq t kw_false then Some false else None) = Some v ->
  lex_core (t ++ w) = Some (LBool v).
Proof.
  intros Hw Hne Hl Hv.
  destruct t as [|c t']; [congruence|]. cbn [app]. unfold lex_core.
  pose proof Hl as Hl0. cbn [forallb] in Hl0. apply andb_true_iff in Hl0 as [Hc _].
  destruct (letter_first_facts _ Hc) as (F1 & F2 & F3 & F4 & F5).
  rewrite F1, F2. cbn [orb]. unfold starts_number. rewrite F3, F4. cbn [orb andb]. rewrite F5, Hc. cbn [orb].
  unfold lex_bool. change (c :: t' ++ w) with ((c :: t') ++ w).
  rewrite span_ident_app.
  - assert (S : match w with d :: _ => beq d 46 && (fold_eq (c :: t') kw_my || fold_eq (c :: t') kw_target || fold_eq (c :: t') kw_parent) | [] => false end = false).
    { pose proof (ws_x_head _ Hw) as Hh. destruct w as [|d w']; [reflexivity|].
      destruct (ws_head_not_ident _ Hh) as (_ & Hd & _). rewrite Hd. reflexivity. }
    rewrite S.
    destruct (fold_eq (c :: t') kw_true).
    + inversion Hv; subst v. rewrite (WS_only_space _ _ Hw). reflexivity.
    + destruct (fold_eq (c :: t') kw_false); [|discriminate].
      inversion Hv; subst v. rewrite (WS_only_space _ _ Hw). reflexivity.
  - clear -Hl. induction (c :: t') as [|b r IH]; [reflexivity|]. cbn [forallb] in *.
    apply andb_true_iff in Hl as [H1 H2]. rewrite (letter_ident _ H1), (IH H2). reflexivity.
  - pose proof (ws_x_head _ Hw) as Hh. destruct w as [|d w']; [exact I|].
    apply (ws_head_not_ident _ Hh).
Qed.

(* ------------------------------------------------------------------ *)
(* numbers                                                             *)

Lemma span_digits_spec s : forall ds r, span_digits s = (ds, r) ->
  s = ds ++ r /\ forallb is_digit ds = true /\ match r with [] => True | b :: _ => is_digit b = false end.
Proof.
  induction s as [|b s IH]; intros ds r H; cbn [span_digits] in H.
  - inversion H; subst. auto.
  - destruct (is_digit b) eqn:D.
    + destruct (span_digits s) as [d rest] eqn:E. inversion H; subst.
      destruct (IH d r eq_refl) as (H1 & H2 & H3). subst s.
      split; [reflexivity|]. split; [cbn [forallb]; rewrite D, H2; reflexivity|exact H3].
    + inversion H; subst. split; [reflexivity|]. split; [reflexivity|exact D].
Qed.

Lemma scan_num_digits ds : forall x hd he acc, forallb is_digit ds = true ->
  scan_num (ds ++ x) hd he acc = scan_num x hd he (rev ds ++ acc).
Proof.
  induction ds as [|d ds IH]; intros x hd he acc H; [reflexivity|].
  cbn [forallb] in H. apply andb_true_iff in H as [Hd H].
  cbn [app scan_num]. rewrite Hd, (IH _ _ _ _ H). cbn [rev]. rewrite <- app_assoc. reflexivity.
Qed.

Lemma scan_num_stop x hd he acc : WS x -> scan_num x hd he acc = Some (rev acc, x, hd || he).
Proof.
  intro H. destruct x as [|b r]; [reflexivity|].
  destruct (ws_head_not_ident _ (WS_head _ _ H)) as (_ & H1 & H2 & H3 & H4 & _).
  cbn [scan_num]. rewrite H2, H1, H3, H4. reflexivity.
Qed.

Lemma digit_facts b : is_digit b = true ->
  beq b 45 = false /\ beq b 43 = false /\ beq b 46 = false /\ beq b 101 = false /\ beq b 69 = false /\ beq b 34 = false.
Proof. unfold is_digit, beq. intro H. repeat split; lia. Qed.

(* integer token: all digits, then white space *)
Lemma lex_number_int c ds w : WS w -> is_digit c = true -> forallb is_digit ds = true ->
  (match ds with [] => true | _ => negb (beq c 48) end) = true ->
  lex_number ((c :: ds) ++ w) =
    let z := dec_value (c :: ds) in
    if (z <? 2 ^ 63)%Z then Some (TInt z, w) else if (z =? 2 ^ 63)%Z then Some (TMinMag, w) else None.
Proof.
  intros Hw Hc Hds Hz. cbn [app]. unfold lex_number. rewrite Hc.
  rewrite (scan_num_digits ds w false false [c] Hds), (scan_num_stop _ _ _ _ Hw).
  rewrite rev_app_distr, rev_involutive. cbn [rev app orb].
  destruct ds as [|d ds'].
  - cbn zeta. assert (L : (dec_value [c] <? 2 ^ 63)%Z = true).
    { unfold dec_value, dec_value_acc. pose proof (b2n_lt c). lia. }
    rewrite L. reflexivity.
  - apply negb_true_iff in Hz. rewrite Hz. reflexivity.
Qed.

Definition is_e (b : byte) : bool := beq b 101 || beq b 69.
Definition is_sign (b : byte) : bool := beq b 43 || beq b 45.

(* the exponent part classifyNumberLiteral accepts *)
Inductive exp_tail : bytes -> Prop :=
| ET_none : exp_tail []
| ET_plain e es : is_e e = true -> es <> [] -> forallb is_digit es = true -> exp_tail (e :: es)
| ET_signed e sg es : is_e e = true -> is_sign sg = true -> es <> [] -> forallb is_digit es = true ->
    exp_tail (e :: sg :: es).

Lemma last_is_digit_app a d ds : forallb is_digit (d :: ds) = true -> last_is_digit (a ++ d :: ds) = true.
Proof.
  intro H. unfold last_is_digit. rewrite rev_app_distr.
  assert (G : forall l, l <> [] -> forallb is_digit l = true -> match rev l ++ rev a with b :: _ => is_digit b | [] => false end = true).
  { intros l Hl Hf. destruct (rev l) as [|b r] eqn:E.
    - apply (f_equal (@rev byte)) in E. rewrite rev_involutive in E. cbn in E. congruence.
    - cbn [app]. rewrite forallb_forall in Hf. apply Hf. apply in_rev. rewrite E. left. reflexivity. }
  apply G; [discriminate|exact H].
Qed.

Lemma scan_frac_tail fs tail w acc :
  WS w -> fs <> [] -> forallb is_digit fs = true -> exp_tail tail ->
  scan_num (fs ++ tail ++ w) true false acc = Some (rev acc ++ fs ++ tail, w, true)
  /\ last_is_digit (rev acc ++ fs ++ tail) = true.
Proof.
  intros Hw Hne Hfs Ht.
  rewrite (scan_num_digits fs _ true false acc Hfs).
  destruct fs as [|f0 fs0]; [congruence|].
  inversion Ht as [|e es He Hes Hd|e sg es He Hs Hes Hd]; subst tail.
  - cbn [app]. rewrite (scan_num_stop _ _ _ _ Hw), rev_app_distr, rev_involutive, app_nil_r. cbn [orb].
    split; [reflexivity|]. apply last_is_digit_app. exact Hfs.
  - assert (NotD : is_digit e = false) by (unfold is_e, is_digit, beq in *; lia).
    assert (Not46 : beq e 46 = false) by (unfold is_e, beq in *; lia).
    assert (X : scan_num (e :: es ++ w) true false (rev (f0 :: fs0) ++ acc)
                = scan_num (es ++ w) true true (e :: rev (f0 :: fs0) ++ acc)).
    { destruct es as [|e0 es0]; [congruence|].
      assert (Hd0 : is_digit e0 = true) by (cbn [forallb] in Hd; apply andb_true_iff in Hd; tauto).
      destruct (digit_facts _ Hd0) as (S1 & S2 & _).
      remember (e0 :: es0) as es1. cbn [scan_num]. rewrite NotD, Not46. cbn [andb negb].
      unfold is_e in He. rewrite He. cbn [andb]. subst es1. cbn [app]. rewrite S2, S1. reflexivity. }
    cbn [app]. rewrite X.
    rewrite (scan_num_digits es w true true _ Hd), (scan_num_stop _ _ _ _ Hw).
    cbn [orb]. rewrite !rev_app_distr, rev_involutive. cbn [rev]. rewrite !rev_app_distr, !rev_involutive. cbn [rev app].
    rewrite <- !app_assoc. cbn [app].
    split; [reflexivity|].
    destruct es as [|e0 es0]; [congruence|].
    replace (rev acc ++ f0 :: fs0 ++ e :: e0 :: es0) with ((rev acc ++ f0 :: fs0 ++ [e]) ++ e0 :: es0)
      by (rewrite <- !app_assoc; cbn [app]; rewrite <- app_assoc; reflexivity).
    apply last_is_digit_app. exact Hd.
  - assert (NotD : is_digit e = false) by (unfold is_e, is_digit, beq in *; lia).
    assert (Not46 : beq e 46 = false) by (unfold is_e, beq in *; lia).
    assert (X : scan_num (e :: sg :: es ++ w) true false (rev (f0 :: fs0) ++ acc)
                = scan_num (es ++ w) true true (sg :: e :: rev (f0 :: fs0) ++ acc)).
    { remember (es ++ w) as Y. cbn [scan_num]. rewrite NotD, Not46. cbn [andb negb].
      unfold is_e in He. rewrite He. cbn [andb]. unfold is_sign in Hs. rewrite Hs. reflexivity. }
    cbn [app]. rewrite X.
    rewrite (scan_num_digits es w true true _ Hd), (scan_num_stop _ _ _ _ Hw).
    cbn [orb]. rewrite !rev_app_distr, rev_involutive. cbn [rev]. rewrite !rev_app_distr, !rev_involutive. cbn [rev app].
    rewrite <- !app_assoc. cbn [app].
    split; [reflexivity|].
    destruct es as [|e0 es0]; [congruence|].
    replace (rev acc ++ f0 :: fs0 ++ e :: sg :: e0 :: es0) with ((rev acc ++ f0 :: fs0 ++ [e; sg]) ++ e0 :: es0)
      by (rewrite <- !app_assoc; cbn [app]; rewrite <- app_assoc; reflexivity).
    apply last_is_digit_app. exact Hd.
Qed.

(* what classifyNumberLiteral accepts, structurally *)
Lemma classify_int u : classify_unsigned u = NumInt ->
  exists c ds, u = c :: ds /\ is_digit c = true /\ forallb is_digit ds = true /\
               (match ds with [] => true | _ => negb (beq c 48) end) = true.
Proof.
  unfold classify_unsigned. destruct (span_digits u) as [ds r] eqn:E.
  destruct (span_digits_spec _ _ _ E) as (Hu & Hd & _).
  destruct r as [|c r1].
  - rewrite app_nil_r in Hu. subst u.
    destruct ds as [|d [|d2 ds']]; intro H; try discriminate.
    + exists d, []. cbn [forallb] in Hd. apply andb_true_iff in Hd as [H1 _]. auto.
    + destruct (beq d 48) eqn:Z; [discriminate|].
      exists d, (d2 :: ds'). cbn [forallb] in Hd. apply andb_true_iff in Hd as [H1 H2].
      repeat split; auto. rewrite Z. reflexivity.
  - destruct (negb (beq c 46)); [discriminate|].
    destruct (span_digits r1) as [fs r2]. destruct fs; [discriminate|].
    destruct r2 as [|e r3]; [discriminate|].
    destruct (negb (beq e 101 || beq e 69)); [discriminate|].
    match goal with |- context [span_digits ?x] => destruct (span_digits x) as [es r5] end.
    destruct es, r5; intro; discriminate.
Qed.

Lemma classify_real u : classify_unsigned u = NumReal ->
  exists ds fs tail, u = ds ++ x2e :: fs ++ tail /\ forallb is_digit ds = true /\
                     fs <> [] /\ forallb is_digit fs = true /\ exp_tail tail.
Proof.
  unfold classify_unsigned. destruct (span_digits u) as [ds r] eqn:E.
  destruct (span_digits_spec _ _ _ E) as (Hu & Hd & _).
  destruct r as [|c r1].
  { destruct ds as [|d [|d2 ds']]; try discriminate. destruct (beq d 48); discriminate. }
  destruct (beq c 46) eqn:C; cbn [negb]; [|discriminate].
  assert (c = x2e) by (apply byte_eqb_eq; unfold byte_eqb; unfold beq in C; exact C). subst c.
  destruct (span_digits r1) as [fs r2] eqn:E2.
  destruct (span_digits_spec _ _ _ E2) as (Hr1 & Hfs & _).
  destruct fs as [|f0 fs0]; [discriminate|].
  destruct r2 as [|e r3].
  - intros _. exists ds, (f0 :: fs0), []. rewrite app_nil_r in Hr1. subst r1. rewrite app_nil_r.
    repeat split; auto; [discriminate|constructor].
  - destruct (beq e 101 || beq e 69) eqn:Ee; cbn [negb]; [|discriminate].
    set (r4 := match r3 with sg :: r' => if beq sg 43 || beq sg 45 then r' else r3 | [] => r3 end).
    destruct (span_digits r4) as [es r5] eqn:E5.
    destruct (span_digits_spec _ _ _ E5) as (Hr4 & Hes & _).
    destruct es as [|e0 es0]; [destruct r5; discriminate|]. destruct r5; [|discriminate]. intros _.
    rewrite app_nil_r in Hr4.
    exists ds, (f0 :: fs0), (e :: r3). subst u r1.
    repeat split; auto; [discriminate|].
    subst r4. destruct r3 as [|sg r'].
    + discriminate.
    + destruct (beq sg 43 || beq sg 45) eqn:Sg.
      * subst r'. apply ET_signed; auto. discriminate.
      * rewrite Hr4. apply ET_plain; auto. discriminate.
Qed.

Lemma lex_number_real ds fs tail w :
  WS w -> forallb is_digit ds = true -> fs <> [] -> forallb is_digit fs = true -> exp_tail tail ->
  lex_number ((ds ++ x2e :: fs ++ tail) ++ w) = Some (TReal (ds ++ x2e :: fs ++ tail), w).
Proof.
  intros Hw Hds Hne Hfs Ht.
  assert (Hf0 : exists f0 fs0, fs = f0 :: fs0 /\ is_digit f0 = true).
  { destruct fs as [|f0 fs0]; [congruence|]. exists f0, fs0. cbn [forallb] in Hfs. apply andb_true_iff in Hfs. tauto. }
  destruct Hf0 as (f0 & fs0 & Ef & Hf0).
  assert (Dot : forall acc, scan_num (x2e :: fs ++ tail ++ w) false false acc
                            = scan_num (fs ++ tail ++ w) true false (x2e :: acc)).
  { intro acc. remember (fs ++ tail ++ w) as Y. cbn [scan_num].
    change (is_digit x2e) with false. change (beq x2e 46) with true. cbn [andb negb].
    subst Y fs. cbn [app]. rewrite Hf0. reflexivity. }
  rewrite <- !app_assoc. cbn [app]. rewrite <- !app_assoc.
  destruct ds as [|c ds'].
  - assert (Start : match fs ++ tail ++ w with d :: _ => if is_digit d then Some true else None | [] => None end = Some true).
    { rewrite Ef. cbn [app]. rewrite Hf0. reflexivity. }
    cbn [app]. unfold lex_number. change (is_digit x2e) with false. change (beq x2e 46) with true.
    cbv iota. rewrite Start.
    destruct (scan_frac_tail fs tail w [x2e] Hw Hne Hfs Ht) as [S L]. rewrite S. cbn [rev app] in *. rewrite L. reflexivity.
  - cbn [forallb] in Hds. apply andb_true_iff in Hds as [Hc Hds].
    cbn [app]. unfold lex_number. rewrite Hc.
    rewrite (scan_num_digits ds' _ false false [c] Hds), Dot.
    destruct (scan_frac_tail fs tail w (x2e :: rev ds' ++ [c]) Hw Hne Hfs Ht) as [S L]. rewrite S.
    cbn [rev] in *. rewrite rev_app_distr, rev_involutive in *. cbn [rev app] in *. rewrite <- app_assoc in *. cbn [app] in *.
    rewrite L. reflexivity.
Qed.

(* ------------------------------------------------------------------ *)
(* strings                                                             *)

Lemma utf8_step_app s w : utf8_step s = (w, true) ->
  (1 <= w <= length s)%nat /\ forall y, utf8_step (s ++ y) = (w, true).
Proof.
  unfold utf8_step. destruct s as [|b r]; [discriminate|].
  cbn [app]. destruct (b2n b <? 128).
  { intro H; inversion H; subst. split; [cbn [length]; lia|reflexivity]. }
  destruct (in_rng b 194 223).
  { destruct r as [|c1 r1]; [discriminate|]. cbn [app]. destruct (is_cont c1); [|discriminate].
    intro H; inversion H; subst. split; [cbn [length]; lia|reflexivity]. }
  destruct (in_rng b 224 239).
  { destruct r as [|c1 [|c2 r2]]; try discriminate. cbn [app].
    destruct (in_rng c1 _ _ && is_cont c2); [|discriminate].
    intro H; inversion H; subst. split; [cbn [length]; lia|reflexivity]. }
  destruct (in_rng b 240 244); [|discriminate].
  destruct r as [|c1 [|c2 [|c3 r3]]]; try discriminate. cbn [app].
  destruct (in_rng c1 _ _ && is_cont c2 && is_cont c3); [|discriminate].
  intro H; inversion H; subst. split; [cbn [length]; lia|reflexivity].
Qed.

Lemma firstn_app_le' (a b : bytes) n : (n <= length a)%nat -> firstn n (a ++ b) = firstn n a.
Proof. intro H. rewrite firstn_app. replace (n - length a)%nat with 0%nat by lia. cbn [firstn]. apply app_nil_r. Qed.
Lemma skipn_app_le' (a b : bytes) n : (n <= length a)%nat -> skipn n (a ++ b) = skipn n a ++ b.
Proof. intro H. rewrite skipn_app. replace (n - length a)%nat with 0%nat by lia. reflexivity. Qed.

Definition plain_byte (b : byte) : bool := negb (beq b 92 || beq b 34).

Lemma scan_str_plain k : forall inner fuel acc x,
  utf8_valid_f k inner = true -> forallb plain_byte inner = true -> (length inner < fuel)%nat ->
  scan_str fuel (inner ++ x22 :: x) acc = Some (rev acc ++ inner, x).
Proof.
  induction k as [|k IH]; intros inner fuel acc x Hv Hp Hf.
  - destruct inner; [|discriminate]. destruct fuel; [lia|]. cbn [app scan_str].
    change (beq x22 34) with true. cbv iota. rewrite app_nil_r. reflexivity.
  - destruct inner as [|c r].
    { destruct fuel; [lia|]. cbn [app scan_str]. change (beq x22 34) with true. cbv iota. rewrite app_nil_r. reflexivity. }
    cbn [utf8_valid_f] in Hv. destruct (utf8_step (c :: r)) as [w ok] eqn:E.
    apply andb_true_iff in Hv as [Hok Hv]. subst ok.
    destruct (utf8_step_app _ _ E) as (Hw & Happ).
    destruct fuel as [|f]; [lia|].
    pose proof Hp as Hp0. cbn [forallb] in Hp0. apply andb_true_iff in Hp0 as [Hc _].
    unfold plain_byte in Hc. apply negb_true_iff, orb_false_iff in Hc as [C1 C2].
    change ((c :: r) ++ x22 :: x) with (c :: (r ++ x22 :: x)).
    cbn [scan_str]. rewrite C2, C1.
    change (c :: r ++ x22 :: x) with ((c :: r) ++ x22 :: x). rewrite Happ.
    rewrite skipn_app_le', firstn_app_le' by lia.
    rewrite IH.
    + rewrite rev_app_distr, rev_involutive, <- app_assoc, (firstn_skipn w (c :: r)). reflexivity.
    + exact Hv.
    + rewrite <- (firstn_skipn w (c :: r)) in Hp. rewrite forallb_app in Hp. apply andb_true_iff in Hp. tauto.
    + rewrite skipn_length. cbn [length] in *. lia.
Qed.

Lemma simple_string_spec t inner : simple_string t = Some inner ->
  t = x22 :: inner ++ [x22] /\ forallb plain_byte inner = true /\ utf8_valid inner = true.
Proof.
  unfold simple_string. destruct t as [|q r]; [discriminate|].
  destruct (beq q 34) eqn:Q; [|discriminate].
  destruct (rev r) as [|q2 ir] eqn:R; [discriminate|].
  destruct (beq q2 34) eqn:Q2; [|discriminate].
  destruct (negb (existsb _ (rev ir)) && utf8_valid (rev ir)) eqn:C; [|discriminate].
  intro H; inversion H; subst inner. apply andb_true_iff in C as [C1 C2].
  assert (q = x22) by (apply byte_eqb_eq; exact Q). assert (q2 = x22) by (apply byte_eqb_eq; exact Q2). subst.
  split.
  - f_equal. rewrite <- (rev_involutive r), R. reflexivity.
  - split; [|exact C2]. apply negb_true_iff in C1.
    apply forallb_forall. intros b Hb. unfold plain_byte.
    destruct (beq b 92 || beq b 34) eqn:E; [|reflexivity].
    assert (existsb (fun b => beq b 92 || beq b 34) (rev ir) = true) by (apply existsb_exists; exists b; auto).
    congruence.
Qed.

(* ------------------------------------------------------------------ *)
(* the theorem                                                         *)

Lemma try_core_sound ovf t w l : WS w -> try_core ovf t = Some l -> lex_core (t ++ w) = Some l.
Proof.
  intros Hw. unfold try_core.
  destruct (fold_eq t kw_true) eqn:Ft.
  { intro H; inversion H; subst l.
    destruct (fold_eq_letters t kw_true eq_refl Ft) as [Hl Hlen].
    apply lex_bool_kw; auto; [destruct t; [discriminate|congruence]|rewrite Ft; reflexivity]. }
  destruct (fold_eq t kw_false) eqn:Ff.
  { intro H; inversion H; subst l.
    destruct (fold_eq_letters t kw_false eq_refl Ff) as [Hl Hlen].
    apply lex_bool_kw; auto; [destruct t; [discriminate|congruence]|rewrite Ft, Ff; reflexivity]. }
  destruct (strip_minus t) as [neg u] eqn:Sm.
  assert (Ht : t = (if neg then [x2d] else []) ++ u /\ (neg = false -> match u with b :: _ => beq b 45 = false | [] => True end)).
  { unfold strip_minus in Sm. destruct t as [|b r]; [inversion Sm; subst; split; [reflexivity|auto]|].
    destruct (beq b 45) eqn:B; inversion Sm; subst.
    - assert (b = x2d) by (apply byte_eqb_eq; exact B). subst. split; [reflexivity|discriminate].
    - split; [reflexivity|]. intros _. exact B. }
  destruct Ht as [Ht Hnm].
  destruct (classify_unsigned u) eqn:Cu.
  - (* not a number: string *)
    destruct (simple_string t) as [inner|] eqn:Ss; [|discriminate].
    intro H; inversion H; subst l. clear H.
    destruct (simple_string_spec _ _ Ss) as (Et & Hp & Hv).
    rewrite Et. cbn [app]. unfold lex_core. change (beq x22 45) with false. change (beq x22 43) with false. cbn [orb].
    unfold starts_number. change (is_digit x22) with false. change (beq x22 46) with false. cbn [orb andb].
    change (beq x22 34) with true. cbv iota.
    cbn [lex_strings]. change (beq x22 34) with true. cbv iota.
    rewrite <- app_assoc. cbn [app].
    rewrite (scan_str_plain (length inner) inner _ [] w Hv Hp) by (rewrite app_length; cbn [length]; lia).
    cbn [rev app]. rewrite (WS_trim_nil _ Hw). reflexivity.
  - (* integer *)
    destruct (classify_int _ Cu) as (c & ds & Eu & Hc & Hds & Hz).
    set (z := (if neg then - dec_value u else dec_value u)%Z).
    destruct (int64_ok z) eqn:Ok; [|destruct (simple_string t) eqn:Ss; [|discriminate];
      exfalso; destruct (simple_string_spec _ _ Ss) as (Et & _); rewrite Ht, Eu in Et;
      destruct neg; cbn [app] in Et; inversion Et; subst; discriminate].
    intro H; inversion H; subst l. clear H.
    destruct (digit_facts _ Hc) as (D1 & D2 & D3 & D4 & D5 & D6).
    destruct (digit_not_space _ Hc) as (N1 & N2 & N3 & N4 & N5).
    pose proof (lex_number_int c ds w Hw Hc Hds Hz) as LN. cbv zeta in LN. rewrite <- Eu in LN.
    unfold int64_ok in Ok. subst t. destruct neg; cbn [app].
    + unfold lex_core. change (beq x2d 45) with true. cbn [orb]. cbv iota.
      rewrite Eu at 1. cbn [app]. rewrite trim_left_nonspace by assumption.
      change (c :: ds ++ w) with ((c :: ds) ++ w). rewrite <- Eu, LN.
      subst z. destruct (dec_value u <? 2 ^ 63)%Z eqn:L1.
      * rewrite (WS_only_space _ _ Hw). reflexivity.
      * destruct (dec_value u =? 2 ^ 63)%Z eqn:L2;
          [|exfalso; clear -Ok L1 L2; change (2 ^ 63)%Z with 9223372036854775808%Z in *; lia].
        rewrite (WS_only_space _ _ Hw). f_equal. f_equal. clear -L2. change (2 ^ 63)%Z with 9223372036854775808%Z in *. lia.
    + unfold lex_core. rewrite Eu at 1. cbn [app]. rewrite D1, D2. cbn [orb].
      assert (Hst : starts_number (u ++ w) = true)
        by (rewrite Eu; cbn [app]; unfold starts_number; rewrite Hc; reflexivity).
      rewrite Hst, LN.
      subst z. destruct (dec_value u <? 2 ^ 63)%Z eqn:L1;
        [|exfalso; clear -Ok L1; change (2 ^ 63)%Z with 9223372036854775808%Z in *; lia].
      rewrite (WS_only_space _ _ Hw). reflexivity.
  - (* real *)
    destruct (classify_real _ Cu) as (ds & fs & tail & Eu & Hds & Hne & Hfs & Htl).
    destruct ovf; [destruct (simple_string t) eqn:Ss; [|discriminate];
      exfalso; destruct (simple_string_spec _ _ Ss) as (Et & _); rewrite Ht, Eu in Et;
      destruct neg, ds; cbn [app] in Et; inversion Et; subst; discriminate|].
    intro H; inversion H; subst l. clear H.
    pose proof (lex_number_real ds fs tail w Hw Hds Hne Hfs Htl) as LN. rewrite <- Eu in LN.
    assert (Hhead : exists h r, u = h :: r /\ (is_digit h = true \/ (h = x2e /\ exists d r', r = d :: r' /\ is_digit d = true))).
    { destruct ds as [|d ds'].
      - destruct fs as [|f0 fs0]; [congruence|]. exists x2e, ((f0 :: fs0) ++ tail). split; [exact Eu|].
        right. split; [reflexivity|]. exists f0, (fs0 ++ tail). split; [reflexivity|].
        cbn [forallb] in Hfs. apply andb_true_iff in Hfs. tauto.
      - exists d, (ds' ++ x2e :: fs ++ tail). split; [exact Eu|]. left.
        cbn [forallb] in Hds. apply andb_true_iff in Hds. tauto. }
    destruct Hhead as (h & r & Eh & Hh).
    assert (Hsp : trim_left (u ++ w) = u ++ w).
    { rewrite Eh. cbn [app]. destruct Hh as [Hd|[-> _]].
      - destruct (digit_not_space _ Hd) as (N1 & N2 & N3 & N4 & N5). apply trim_left_nonspace; assumption.
      - apply trim_left_nonspace; reflexivity. }
    subst t. destruct neg; cbn [app].
    + unfold lex_core. change (beq x2d 45) with true. cbn [orb]. cbv iota.
      rewrite Hsp, LN, (WS_only_space _ _ Hw). reflexivity.
    + assert (Hst : starts_number (u ++ w) = true).
      { rewrite Eh. cbn [app]. unfold starts_number. destruct Hh as [Hd|[-> (d & r' & -> & Hd)]].
        - rewrite Hd. reflexivity.
        - cbn [app]. rewrite Hd. reflexivity. }
      assert (Hns : exists h' r'', u ++ w = h' :: r'' /\ beq h' 45 = false /\ beq h' 43 = false).
      { rewrite Eh. cbn [app]. exists h, (r ++ w). split; [reflexivity|].
        destruct Hh as [Hd|[-> _]]; [destruct (digit_facts _ Hd) as (D1 & D2 & _); auto|split; reflexivity]. }
      destruct Hns as (h' & r'' & E' & M1 & M2).
      unfold lex_core. rewrite E' at 1. cbv iota. rewrite M1, M2. cbn [orb]. rewrite Hst, LN, (WS_only_space _ _ Hw). reflexivity.
Qed.

Theorem shortcut_sound : forall (ovf : bool) (v : bytes) (l : lit),
  try_literal ovf v = Some l -> lex_literal v = Some l.
Proof.
  intros ovf v l H. unfold try_literal, trim_space in H. unfold lex_literal.
  destruct (trim_right_split (trim_left v)) as (w & E & Hw).
  rewrite E. apply (try_core_sound ovf); assumption.
Qed.

(* the old-ClassAd fallback on text without quote or backslash *)
Lemma old_string_plain s : forallb plain_byte s = true -> decode_old_string s = Some s.
Proof.
  induction s as [|b r IH]; intro H; [reflexivity|].
  cbn [forallb] in H. apply andb_true_iff in H as [Hb Hr].
  unfold plain_byte in Hb. apply negb_true_iff, orb_false_iff in Hb as [B1 B2].
  cbn [decode_old_string]. rewrite B1, B2, (IH Hr). reflexivity.
Qed.

(* the name/value split is at the first '=': a name that itself contains '=' does not survive *)
Lemma split_name_refuted :
  exists name text : bytes, name <> [] /\ trim_space name = name /\
    split_expr (name ++ [x20; x3d; x20] ++ text) <> Some (name, text).
Proof.
  exists [x61; x3d; x62], [x35]. split; [discriminate|]. split; [vm_compute; reflexivity|].
  vm_compute. discriminate.
Qed.

(* ... and for a trimmed name without '=' it does *)
Lemma split_at_eq_noeq n : forall acc rest, forallb (fun b => negb (beq b 61)) n = true ->
  split_at_eq (n ++ x3d :: rest) acc = Some (rev acc ++ n, rest).
Proof.
  induction n as [|b n IH]; intros acc rest H; cbn [app split_at_eq].
  - change (beq x3d 61) with true. cbv iota. rewrite app_nil_r. reflexivity.
  - cbn [forallb] in H. apply andb_true_iff in H as [Hb Hn]. apply negb_true_iff in Hb. rewrite Hb.
    rewrite (IH (b :: acc) rest Hn). cbn [rev]. rewrite <- app_assoc. reflexivity.
Qed.
