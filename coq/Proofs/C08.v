(* Proofs/C08.v — (in progress) *)
From Coq Require Import List NArith ZArith Lia Bool.
From Cedar Require Import Lib.Bytes Model.Literal.
Import ListNotations.
Lemma decode_old_nil : decode_old_string [] = Some [].
Proof. reflexivity. Qed.
