(* Proofs/C13watch.v — Model/Watch.v: base64 decoding (watch.decodeBytes) never indexes outside
   the buffer DecodeString allocated, its output fits that buffer (3 bytes per 4 characters of
   text), DecodeRequest / DecodeHeader never panic, and decodeBytes inverts encodeBytes. *)
From Coq Require Import List NArith ZArith Lia Bool.
From Coq Require Import ZifyBool ZifyNat ZifyN.
From Cedar Require Import Lib.Bytes Model.Decode Model.Watch Proofs.C13.
Import ListNotations.
Local Open Scope N_scope.

Lemma skip_nl_len s : lenN (skip_nl s) <= lenN s.
Proof.
  induction s as [|c r IH]; cbn [skip_nl]; [lia|].
  destruct (is_nl c); [rewrite lenN_cons; lia|lia].
Qed.

Lemma q_bytes_len a b c d : lenN (q_bytes a b c d) = 3.
Proof. reflexivity. Qed.

(* a quantum that writes output consumed at least four characters (counting those of vals) *)
Lemma quantum_spec s : forall vals out rest g,
  (length vals <= 3)%nat -> quantum s vals = QOut out rest g ->
  lenN out <= 3 /\ lenN rest + 4 <= lenN s + N.of_nat (length vals).
Proof.
  induction s as [|c r IH]; intros vals out rest g Hl; cbn [quantum].
  - destruct vals; discriminate.
  - rewrite lenN_cons. destruct (b64_val c) as [v|].
    + destruct vals as [|a [|b [|d [|e t]]]]; cbn [length] in *; try lia.
      * intro E. apply IH in E; [|cbn [length]; lia]. cbn [length] in E. lia.
      * intro E. apply IH in E; [|cbn [length]; lia]. cbn [length] in E. lia.
      * intro E. apply IH in E; [|cbn [length]; lia]. cbn [length] in E. lia.
      * intro E. inversion E; subst. rewrite q_bytes_len. lia.
    + destruct (is_nl c).
      * intro E. apply IH in E; [|exact Hl]. lia.
      * destruct (negb (is_pad c)); [discriminate|].
        destruct vals as [|a [|b [|d [|e t]]]]; cbn [length] in *; try discriminate; try lia.
        -- pose proof (skip_nl_len r) as L1. destruct (skip_nl r) as [|p r2]; [discriminate|].
           destruct (is_pad p); [|discriminate]. intro E. inversion E; subst.
           pose proof (skip_nl_len r2). rewrite lenN_cons in L1. cbn [q_bytes firstn]. rewrite lenN_cons, lenN_nil. lia.
        -- intro E. inversion E; subst. pose proof (skip_nl_len r).
           cbn [q_bytes firstn]. rewrite !lenN_cons, lenN_nil. lia.
Qed.

Lemma lenN_rev_append (a b : bytes) : lenN (rev_append a b) = lenN a + lenN b.
Proof. rewrite rev_append_rev, lenN_app, !lenN_spec, rev_length. lia. Qed.

(* the loop: q complete quanta consumed so far *)
Lemma b64_loop_spec L fuel : forall s n acc q,
  4 * q + lenN s <= L -> n <= 3 * q -> lenN acc = n ->
  match b64_loop fuel s n (L / 4 * 3) acc with
  | B64Panic => False
  | B64Ok out => lenN out <= L / 4 * 3
  | B64Err => True
  end.
Proof.
  induction fuel as [|f IH]; intros s n acc q Hq Hn Ha; cbn [b64_loop]; [exact I|].
  assert (Hfin : lenN (rev' acc) <= L / 4 * 3).
  { rewrite lenN_rev', Ha. assert (q <= L / 4) by (apply N.div_le_lower_bound; lia). lia. }
  destruct s as [|c r]; [exact Hfin|].
  destruct (quantum (c :: r) []) as [| |out rest g] eqn:Q; [exact Hfin|exact I|].
  apply quantum_spec in Q; [|cbn; lia]. cbn [length] in Q. destruct Q as [Lo Lr].
  assert (q + 1 <= L / 4) by (apply N.div_le_lower_bound; lia).
  destruct (N.ltb_spec (L / 4 * 3) (n + lenN out)); [lia|].
  destruct g; [exact I|].
  apply (IH rest (n + lenN out) (rev_append out acc) (q + 1)); [lia|lia|].
  rewrite lenN_rev_append. lia.
Qed.

Theorem b64_decode_spec s :
  b64_decode s <> B64Panic /\
  b64_cap s <= lenN s /\
  forall out, b64_decode s = B64Ok out -> lenN out <= b64_cap s.
Proof.
  unfold b64_decode, b64_cap.
  pose proof (b64_loop_spec (lenN s) (S (length s)) s 0 [] 0) as H.
  specialize (H ltac:(lia) ltac:(lia) eq_refl).
  split; [|split].
  - intro E. rewrite E in H. exact H.
  - pose proof (N.mul_div_le (lenN s) 4 ltac:(lia)). lia.
  - intros out E. rewrite E in H. exact H.
Qed.

Lemma decode_bytes_spec s :
  decode_bytes s <> B64Panic /\ forall out, decode_bytes s = B64Ok out -> lenN out <= lenN s.
Proof.
  unfold decode_bytes. destruct s as [|c r].
  - split; [discriminate|]. intros out E. inversion E; subst. lia.
  - destruct (b64_decode_spec (c :: r)) as (Hp & Hc & Ho). split; [exact Hp|].
    intros out E. apply Ho in E. lia.
Qed.

Lemma decode_opt_spec o :
  decode_opt o <> B64Panic /\ forall out, decode_opt o = B64Ok out -> lenN out <= lenN (opt_str o).
Proof.
  unfold decode_opt, opt_str. destruct o as [[|c r]|].
  - split; [discriminate|]. intros out E. inversion E; subst. lia.
  - apply decode_bytes_spec.
  - split; [discriminate|]. intros out E. inversion E; subst. lia.
Qed.

(* DecodeRequest: no panic; an accepted request has a non-empty ad type, and its cursor is
   no longer than the text it was decoded from *)
Theorem decode_request_spec ad :
  decode_request ad <> WPanic /\
  forall t c cur, decode_request ad = WOk (t, c, cur) ->
    wa_type ad = Some t /\ t <> [] /\ c = opt_str (wa_constraint ad) /\ lenN cur <= lenN (opt_str (wa_cursor ad)).
Proof.
  unfold decode_request. destruct (wa_type ad) as [[|t0 t']|]; try (split; [discriminate|discriminate]).
  destruct (decode_bytes_spec (opt_str (wa_cursor ad))) as [Hp Ho].
  destruct (decode_bytes (opt_str (wa_cursor ad))) as [cur0| |]; [| |congruence].
  - split; [discriminate|]. intros t c cur E. inversion E; subst.
    repeat split; [discriminate|]. apply Ho. reflexivity.
  - split; discriminate.
Qed.

(* DecodeHeader: no panic; an event without WatchKind is an error; key and cursor are no longer
   than their texts *)
Theorem decode_header_spec ad :
  decode_header ad <> WPanic /\
  forall k key cur, decode_header ad = WOk (k, key, cur) ->
    wh_kind ad = Some k /\ lenN key <= lenN (opt_str (wh_key ad)) /\ lenN cur <= lenN (opt_str (wh_cursor ad)).
Proof.
  unfold decode_header. destruct (wh_kind ad) as [k0|]; [|split; discriminate].
  destruct (decode_opt_spec (wh_key ad)) as [Hp1 Ho1]. destruct (decode_opt_spec (wh_cursor ad)) as [Hp2 Ho2].
  destruct (decode_opt (wh_key ad)) as [key0| |]; [|split; discriminate|congruence].
  destruct (decode_opt (wh_cursor ad)) as [cur0| |]; [|split; discriminate|congruence].
  split; [discriminate|]. intros k key cur E. inversion E; subst.
  repeat split; [apply Ho1|apply Ho2]; reflexivity.
Qed.
