(* Proofs/C14Reader.v — the Message reader of Model/Msg.v refines a flat decoder:
   every Get* is a function of the bytes still to come ([remaining]), never of
   where the frame boundaries fall. *)
From Coq Require Import List NArith ZArith Lia Bool ZifyBool ZifyNat ZifyN.
From Cedar Require Import Lib.Bytes gen.Consts Model.Msg.
Import ListNotations.
Local Open Scope N_scope.

(* ---------- what is still to be read, and honest framing --------------- *)
Definition remaining (r : reader) : bytes := r_buf r ++ concat (map fst (r_in r)).

(* [frames_ok eom fs]: the frames still to come belong to one honest message whose
   last-seen EOM flag is [eom]: a frame's flag is false exactly when more frames follow. *)
Fixpoint frames_ok (eom : bool) (fs : list mframe) : Prop :=
  match fs with
  | [] => eom = true
  | f :: rest => eom = false /\ frames_ok (snd f) rest
  end.
Definition wf (r : reader) : Prop := frames_ok (r_eom r) (r_in r).

Lemma wf_reader_of fs : frames_ok false fs -> wf (reader_of fs).
Proof. intro H; exact H. Qed.
Lemma remaining_reader_of fs : remaining (reader_of fs) = concat (map fst fs).
Proof. reflexivity. Qed.

(* ---------- bridging lemmas -------------------------------------------- *)
Lemma len_lt_spec l : forall n, len_lt l n = (lenN l <? n).
Proof.
  induction l as [|x l IH]; intro n; cbn [len_lt].
  - rewrite lenN_nil. reflexivity.
  - rewrite lenN_cons. destruct (n =? 0) eqn:E.
    + lia.
    + rewrite IH. lia.
Qed.

Lemma short_of_spec l z : short_of l z = (Z.of_N (lenN l) <? z)%Z.
Proof.
  unfold short_of. destruct (z <=? 0)%Z eqn:E.
  - lia.
  - rewrite len_lt_spec. lia.
Qed.

Lemma short_of_app_false a b z : short_of a z = false -> short_of (a ++ b) z = false.
Proof. rewrite !short_of_spec, lenN_app. lia. Qed.

Lemma firstn_app_le (a b : bytes) n : (n <= length a)%nat -> firstn n (a ++ b) = firstn n a.
Proof.
  intro H. rewrite firstn_app. replace (n - length a)%nat with 0%nat by lia.
  cbn [firstn]. apply app_nil_r.
Qed.
Lemma skipn_app_le (a b : bytes) n : (n <= length a)%nat -> skipn n (a ++ b) = skipn n a ++ b.
Proof.
  intro H. rewrite skipn_app. replace (n - length a)%nat with 0%nat by lia. reflexivity.
Qed.

(* ---------- ensureData -------------------------------------------------- *)
Lemma ensure_loop_spec fs : forall buf eom needed, frames_ok eom fs ->
  exists buf' eom' fs',
    ensure_loop fs buf eom needed = Some (buf', eom', fs') /\
    buf' ++ concat (map fst fs') = buf ++ concat (map fst fs) /\
    frames_ok eom' fs' /\
    (short_of buf' needed = false \/ fs' = []).
Proof.
  induction fs as [|[d e] r IH]; intros buf eom needed H; cbn [ensure_loop].
  - cbn [frames_ok] in H. subst eom. rewrite andb_false_r.
    exists buf, true, []. repeat split; auto.
  - cbn [frames_ok snd] in H. destruct H as [-> H].
    destruct (short_of buf needed) eqn:E; cbn [andb negb].
    + destruct (IH (buf ++ d) e needed H) as (b' & e' & f' & H1 & H2 & H3 & H4).
      exists b', e', f'. repeat split; auto.
      rewrite H2. cbn [map concat fst]. rewrite app_assoc. reflexivity.
    + exists buf, false, ((d, e) :: r). repeat split; auto.
Qed.

Lemma ensure_spec r needed r' res : wf r -> ensure r needed = (r', res) ->
  wf r' /\ remaining r' = remaining r /\
  (if short_of (remaining r) needed then res = MErr MEof
   else res = MOk tt /\ short_of (r_buf r') needed = false).
Proof.
  intros W E. unfold ensure in E.
  destruct (ensure_loop_spec (r_in r) (r_buf r) (r_eom r) needed W) as (b' & e' & f' & H1 & H2 & H3 & H4).
  rewrite H1 in E. unfold remaining. rewrite <- H2.
  destruct (short_of b' needed) eqn:S; inversion E; subst r' res; clear E;
    unfold wf; cbn [r_buf r_eom r_in]; (split; [exact H3|split; [reflexivity|]]).
  - destruct H4 as [H4|H4]; [discriminate|]. subst f'. cbn [map concat]. rewrite app_nil_r, S. reflexivity.
  - rewrite (short_of_app_false _ _ _ S). auto.
Qed.

(* ---------- flat decoder over the remaining bytes ---------------------- *)
Definition mapr {S A B : Type} (f : A -> B) (x : S * mres A) : S * mres B :=
  match x with
  | (s, MOk a) => (s, MOk (f a))
  | (s, MErr e) => (s, MErr e)
  | (s, MPanic) => (s, MPanic)
  end.

Definition flat_raw (rem : bytes) (n : N) : bytes * mres bytes :=
  if lenN rem <? n then (rem, MErr MEof)
  else (skipn (N.to_nat n) rem, MOk (firstn (N.to_nat n) rem)).
Definition flat_char (rem : bytes) : bytes * mres byte :=
  match rem with [] => ([], MErr MEof) | b :: t => (t, MOk b) end.
Definition flat_int (rem : bytes) : bytes * mres Z := mapr dec_int (flat_raw rem 8).
Fixpoint after_nul (s : bytes) : bytes :=
  match s with [] => [] | b :: r => if byte_eqb b x00 then r else after_nul r end.
Definition flat_cstr (rem : bytes) : bytes * mres bytes := (after_nul rem, MOk (upto_nul rem)).
Definition flat_lstr (rem : bytes) : bytes * mres bytes :=
  match mapr wrap32 (flat_int rem) with
  | (rem1, MOk len) =>
      if (len <? 0)%Z then (rem1, MErr MOther)
      else mapr strip_string (flat_raw rem1 (Z.to_N len))
  | (rem1, MErr e) => (rem1, MErr e)
  | (rem1, MPanic) => (rem1, MPanic)
  end.
Definition flat_string (enc : bool) rem := if enc then flat_lstr rem else flat_cstr rem.
Definition flat_bytes (rem : bytes) (n : Z) : bytes * mres bytes :=
  if (n <=? 0)%Z then (rem, MOk []) else flat_raw rem (Z.to_N n).
Definition flat_remaining (rem : bytes) : bytes * mres bytes := ([], MOk rem).

(* the reader's step [x] refines the flat step [y] *)
Definition refines {A} (x : reader * mres A) (y : bytes * mres A) : Prop :=
  wf (fst x) /\ remaining (fst x) = fst y /\ snd x = snd y.

Lemma refines_mapr {A B} (f : A -> B) x y : refines x y -> refines (map_res f x) (mapr f y).
Proof.
  destruct x as [r [a|e|]], y as [s [a'|e'|]]; unfold refines; cbn; intros (H1 & H2 & H3);
    try discriminate; repeat split; auto; congruence.
Qed.

Lemma wf_set_buf r b : wf (set_buf r b) <-> wf r.
Proof. reflexivity. Qed.
Lemma wf_add_alloc r n : wf (add_alloc r n) <-> wf r.
Proof. reflexivity. Qed.

Lemma take_after_ensure r n (W : wf r) :
  short_of (r_buf r) (Z.of_N n) = false ->
  wf (fst (take r n)) /\
  remaining (fst (take r n)) = skipn (N.to_nat n) (remaining r) /\
  snd (take r n) = firstn (N.to_nat n) (remaining r).
Proof.
  intro S. rewrite short_of_spec, lenN_spec in S.
  unfold take, remaining; cbn [fst snd set_buf add_alloc r_buf r_in].
  split; [exact W|].
  rewrite firstn_app_le, skipn_app_le by lia. auto.
Qed.

Lemma get_raw_refines r n : wf r -> refines (get_raw r n) (flat_raw (remaining r) n).
Proof.
  intro W. unfold get_raw, flat_raw.
  destruct (ensure r (Z.of_N n)) as [r1 res] eqn:E.
  destruct (ensure_spec r _ _ _ W E) as (W1 & R1 & H).
  rewrite short_of_spec in H.
  destruct (lenN (remaining r) <? n) eqn:L.
  - replace (Z.of_N (lenN (remaining r)) <? Z.of_N n)%Z with true in H by lia.
    subst res. unfold refines; cbn. auto.
  - replace (Z.of_N (lenN (remaining r)) <? Z.of_N n)%Z with false in H by lia.
    destruct H as [-> S].
    destruct (take_after_ensure r1 n W1 S) as (A & B & C).
    destruct (take r1 n) as [r2 bs] eqn:T. cbn [fst snd] in *.
    unfold refines; cbn [fst snd]. rewrite <- R1, C. auto.
Qed.

Lemma flat_raw_1 rem : mapr (fun bs => bs) (flat_raw rem 1) =
  match rem with [] => ([], MErr MEof) | b :: t => (t, MOk [b]) end.
Proof.
  unfold flat_raw. destruct rem as [|b t].
  - reflexivity.
  - rewrite lenN_cons. replace (1 + lenN t <? 1) with false by lia. reflexivity.
Qed.

Lemma get_char_refines r : wf r -> refines (get_char r) (flat_char (remaining r)).
Proof.
  intro W. pose proof (get_raw_refines r 1 W) as H.
  unfold get_char, flat_char. unfold flat_raw in H.
  destruct (remaining r) as [|b t] eqn:R.
  - rewrite lenN_nil in H. cbn in H.
    destruct (get_raw r 1) as [r1 [a|e|]]; destruct H as (H1 & H2 & H3); cbn in *; try discriminate.
    inversion H3; subst. unfold refines; cbn. auto.
  - rewrite lenN_cons in H. replace (1 + lenN t <? 1) with false in H by lia.
    change (N.to_nat 1) with 1%nat in H. cbn [skipn firstn] in H.
    destruct (get_raw r 1) as [r1 [a|e|]]; destruct H as (H1 & H2 & H3); cbn in *; try discriminate.
    inversion H3; subst. unfold refines; cbn. auto.
Qed.

Lemma get_int_refines r : wf r -> refines (get_int r) (flat_int (remaining r)).
Proof. intro W. exact (refines_mapr dec_int _ _ (get_raw_refines r 8 W)). Qed.
Lemma get_int32_refines r : wf r -> refines (get_int32 r) (mapr wrap32 (flat_int (remaining r))).
Proof. intro W. exact (refines_mapr wrap32 _ _ (get_int_refines r W)). Qed.
Lemma get_uint32_refines r : wf r -> refines (get_uint32 r) (mapr wrapu32 (flat_int (remaining r))).
Proof. intro W. exact (refines_mapr wrapu32 _ _ (get_int_refines r W)). Qed.

Lemma get_bytes_refines r n : wf r -> refines (get_bytes r n) (flat_bytes (remaining r) n).
Proof.
  intro W. unfold get_bytes, flat_bytes. destruct (n <=? 0)%Z.
  - unfold refines; cbn. auto.
  - apply get_raw_refines, W.
Qed.

(* GetRemainingBytes *)
Lemma drain_spec fs : forall buf eom, frames_ok eom fs ->
  drain fs buf eom = Some (buf ++ concat (map fst fs), []).
Proof.
  induction fs as [|[d e] r IH]; intros buf eom H; cbn [drain frames_ok snd] in *.
  - subst eom. cbn. rewrite app_nil_r. reflexivity.
  - destruct H as [-> H]. rewrite (IH _ _ H). cbn [map concat fst]. rewrite app_assoc. reflexivity.
Qed.
Lemma get_remaining_refines r : wf r -> refines (get_remaining r) (flat_remaining (remaining r)).
Proof.
  intro W. unfold get_remaining, flat_remaining. rewrite (drain_spec _ _ _ W).
  unfold refines, wf, remaining; cbn. auto.
Qed.

(* GetString on an encrypted stream *)
Lemma get_lstr_tail r len : (0 <= len)%Z ->
  match ensure r len with
  | (r2, MOk _) => let '(r3, data) := take r2 (Z.to_N len) in (r3, MOk (strip_string data))
  | (r2, MErr e) => (r2, MErr e)
  | (r2, MPanic) => (r2, MPanic)
  end = map_res strip_string (get_raw r (Z.to_N len)).
Proof.
  intro H. unfold get_raw. rewrite Z2N.id by exact H.
  destruct (ensure r len) as [r2 [u|e|]]; reflexivity.
Qed.

Lemma get_lstr_refines r : wf r -> refines (get_lstr r) (flat_lstr (remaining r)).
Proof.
  intro W. pose proof (get_int32_refines r W) as H.
  unfold get_lstr, flat_lstr.
  destruct (get_int32 r) as [r1 [len|e|]], (mapr wrap32 (flat_int (remaining r))) as [rem1 [len'|e'|]];
    destruct H as (H1 & H2 & H3); cbn [fst snd] in *; try discriminate.
  - inversion H3; subst len'. destruct (len <? 0)%Z eqn:L.
    + unfold refines; cbn. auto.
    + rewrite get_lstr_tail by lia. subst rem1.
      apply refines_mapr, get_raw_refines, H1.
  - inversion H3; subst. unfold refines; cbn. auto.
  - unfold refines; cbn. auto.
Qed.

(* GetString on a plaintext stream: the byte loop *)
Lemma get_cstr_loop_spec fuel : forall r acc, wf r -> (length (remaining r) < fuel)%nat ->
  refines (get_cstr_loop fuel r acc)
          (after_nul (remaining r), MOk (rev acc ++ upto_nul (remaining r))).
Proof.
  induction fuel as [|f IH]; intros r acc W L; [lia|].
  cbn [get_cstr_loop].
  destruct (ensure r 1) as [r1 res] eqn:E.
  destruct (ensure_spec r _ _ _ W E) as (W1 & R1 & H).
  rewrite short_of_spec in H.
  destruct (remaining r) as [|b t] eqn:R.
  - rewrite lenN_nil in H. cbn in H. subst res.
    unfold refines; cbn [fst snd after_nul upto_nul]. rewrite app_nil_r.
    repeat split; auto. unfold rev'. rewrite <- rev_alt. reflexivity.
  - rewrite lenN_cons in H.
    replace (Z.of_N (1 + lenN t) <? 1)%Z with false in H by lia.
    destruct H as [-> S]. rewrite short_of_spec in S.
    unfold remaining in R1.
    destruct (r_buf r1) as [|b' rest] eqn:B.
    { rewrite lenN_nil in S. lia. }
    cbn [app] in R1. injection R1 as Hb R1. subst b'.
    cbn [after_nul upto_nul].
    assert (W2 : wf (set_buf r1 rest)) by exact W1.
    assert (R2 : remaining (set_buf r1 rest) = t) by (unfold remaining; cbn [set_buf r_buf r_in]; assumption).
    destruct (byte_eqb b x00) eqn:Z.
    + unfold refines; cbn [fst snd]. rewrite app_nil_r.
      repeat split; auto. unfold rev'. rewrite <- rev_alt. reflexivity.
    + specialize (IH (set_buf r1 rest) (b :: acc) W2).
      rewrite R2 in IH. cbn [length] in L.
      specialize (IH ltac:(lia)).
      cbn [rev] in IH. rewrite <- app_assoc in IH. exact IH.
Qed.

Lemma total_bytes_spec r : total_bytes r = N.of_nat (length (remaining r)).
Proof.
  unfold total_bytes, remaining. rewrite app_length, lenN_spec, Nat2N.inj_add. f_equal.
  induction (r_in r) as [|f l IH]; cbn [fold_right map concat].
  - reflexivity.
  - rewrite app_length, IH, lenN_spec. lia.
Qed.

Lemma get_cstr_refines r : wf r -> refines (get_cstr r) (flat_cstr (remaining r)).
Proof.
  intro W. unfold get_cstr, flat_cstr.
  apply (get_cstr_loop_spec _ r [] W). rewrite total_bytes_spec. lia.
Qed.

Lemma get_string_refines enc r : wf r -> refines (get_string enc r) (flat_string enc (remaining r)).
Proof. intro W. destruct enc; [apply get_lstr_refines|apply get_cstr_refines]; exact W. Qed.

(* ---------- sequences of get operations -------------------------------- *)
Inductive getop := OChar | OInt | OInt32 | OUint32 | OStr | OBytes (n : Z) | ORemain.
Inductive getval := GvChar (b : byte) | GvInt (z : Z) | GvBytes (bs : bytes).

Definition do_get (enc : bool) (r : reader) (o : getop) : reader * mres getval :=
  match o with
  | OChar => map_res GvChar (get_char r)
  | OInt => map_res GvInt (get_int r)
  | OInt32 => map_res GvInt (get_int32 r)
  | OUint32 => map_res GvInt (get_uint32 r)
  | OStr => map_res GvBytes (get_string enc r)
  | OBytes n => map_res GvBytes (get_bytes r n)
  | ORemain => map_res GvBytes (get_remaining r)
  end.
Definition flat_get (enc : bool) (rem : bytes) (o : getop) : bytes * mres getval :=
  match o with
  | OChar => mapr GvChar (flat_char rem)
  | OInt => mapr GvInt (flat_int rem)
  | OInt32 => mapr GvInt (mapr wrap32 (flat_int rem))
  | OUint32 => mapr GvInt (mapr wrapu32 (flat_int rem))
  | OStr => mapr GvBytes (flat_string enc rem)
  | OBytes n => mapr GvBytes (flat_bytes rem n)
  | ORemain => mapr GvBytes (flat_remaining rem)
  end.

Theorem do_get_refines enc r o : wf r -> refines (do_get enc r o) (flat_get enc (remaining r) o).
Proof.
  intro W. destruct o; cbn [do_get flat_get]; apply refines_mapr.
  - apply get_char_refines, W.
  - apply get_int_refines, W.
  - apply get_int32_refines, W.
  - apply get_uint32_refines, W.
  - apply get_string_refines, W.
  - apply get_bytes_refines, W.
  - apply get_remaining_refines, W.
Qed.

(* results of a whole list of operations (the reader keeps going after an error:
   its state stays a function of the remaining bytes) *)
Fixpoint run_ops (enc : bool) (r : reader) (ops : list getop) : list (mres getval) :=
  match ops with
  | [] => []
  | o :: t => let x := do_get enc r o in snd x :: run_ops enc (fst x) t
  end.
Fixpoint flat_ops (enc : bool) (rem : bytes) (ops : list getop) : list (mres getval) :=
  match ops with
  | [] => []
  | o :: t => let x := flat_get enc rem o in snd x :: flat_ops enc (fst x) t
  end.

Theorem run_ops_flat enc ops : forall r, wf r -> run_ops enc r ops = flat_ops enc (remaining r) ops.
Proof.
  induction ops as [|o t IH]; intros r W; cbn [run_ops flat_ops]; [reflexivity|].
  destruct (do_get_refines enc r o W) as (W1 & R1 & V1).
  rewrite V1, (IH _ W1), R1. reflexivity.
Qed.

(* any two honest readers holding the same remaining bytes behave identically *)
Theorem cut_independent_readers enc ops r1 r2 :
  wf r1 -> wf r2 -> remaining r1 = remaining r2 -> run_ops enc r1 ops = run_ops enc r2 ops.
Proof. intros W1 W2 R. rewrite !run_ops_flat, R by assumption. reflexivity. Qed.

(* the same payload cut into frames in two different ways *)
Theorem cut_independent enc ops (fs1 fs2 : list mframe) :
  frames_ok false fs1 -> frames_ok false fs2 ->
  concat (map fst fs1) = concat (map fst fs2) ->
  run_ops enc (reader_of fs1) ops = run_ops enc (reader_of fs2) ops.
Proof. intros H1 H2 E. apply cut_independent_readers; auto. Qed.

(* cutting a byte string at arbitrary positions: every list of piece lengths that
   covers the data gives honest frames with the same content *)
Fixpoint cut_at (data : bytes) (lens : list nat) : list mframe :=
  match lens with
  | [] => [(data, true)]
  | n :: t => (firstn n data, false) :: cut_at (skipn n data) t
  end.
Lemma cut_at_ok lens : forall data, frames_ok false (cut_at data lens) /\ concat (map fst (cut_at data lens)) = data.
Proof.
  induction lens as [|n t IH]; intro data; cbn [cut_at frames_ok map concat fst snd].
  - rewrite app_nil_r. auto.
  - destruct (IH (skipn n data)) as [H1 H2]. rewrite H2, firstn_skipn. auto.
Qed.

Theorem cut_independent_positions enc ops data lens1 lens2 :
  run_ops enc (reader_of (cut_at data lens1)) ops = run_ops enc (reader_of (cut_at data lens2)) ops.
Proof.
  destruct (cut_at_ok lens1 data) as [A1 B1], (cut_at_ok lens2 data) as [A2 B2].
  apply cut_independent; auto. congruence.
Qed.

Theorem run_ops_cut_flat enc ops data lens :
  run_ops enc (reader_of (cut_at data lens)) ops = flat_ops enc data ops.
Proof.
  destruct (cut_at_ok lens data) as [A B].
  rewrite run_ops_flat by exact A. rewrite remaining_reader_of, B. reflexivity.
Qed.
