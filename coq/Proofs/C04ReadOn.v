(* Proofs/C04ReadOn.v — after a tampered cleartext negotiation a receiver that KEEPS READING
   accepts nothing at all: not the sender's first protected frame (its associated data carries
   the transcript digests, which differ) and not any later frame of the sender's protected
   history either (a later frame's associated data is the header alone, while the receiver -
   fresh, or left "poisoned" by a refused would-be first frame - still demands first-frame
   associated data or an in-frame IV).  Reuses the C02 development: sent_labelled,
   recv_we_fail_cases, fail_decrypt_cases, poisoned_accepts_nothing, send_frame_shaped. *)
From Coq Require Import List NArith ZArith Lia Bool.
From Cedar Require Import Lib.Bytes Lib.Sym gen.Consts Model.Frame Model.FrameSpec
     Proofs.FrameBase Proofs.C12Nonce Proofs.C02Prefix Proofs.C04Binding.
Import ListNotations.
Local Open Scope N_scope.

(* every ciphertext of a sent protected history has the shape poisoned_accepts_nothing asks for *)
Lemma sent_shaped A tr fs A' k :
  sent A tr fs A' -> key A = Some k -> encrypted A = true -> wf_send A ->
  forall ct, In ct (cts_of fs) -> hdr_shaped ct.
Proof.
  induction 1 as [A|A d fl A1 f tr fs A2 Hfl Hs Hrest IH]; intros Hk He Hwf ct Hin.
  - destruct Hin.
  - destruct (wf_send_step _ _ _ _ _ _ Hk He Hwf Hs) as [Hwf1 [Hk1 [He1 [Hiv1 [Hc1 [Hlt Hf]]]]]].
    unfold cts_of in Hin. cbn [flat_map] in Hin. apply in_app_or in Hin as [Hin|Hin].
    + destruct (f_body f) as [bs|ivo c] eqn:Eb; [destruct Hin|].
      destruct Hin as [<-|[]]. exact (send_frame_shaped _ _ _ _ _ _ _ Hs Hwf Eb).
    + exact (IH Hk1 He1 Hwf1 ct Hin).
Qed.

(* a freshly keyed stream is a well-formed sender *)
Lemma set_key_wf s k iv s' : set_key s k iv = SOk s' -> wf_send s'.
Proof.
  intro E. destruct (set_key_props _ _ _ _ E) as [_ [_ [Hf [_ [Hc _]]]]].
  split; [rewrite Hc, Hf; split; reflexivity|rewrite Hc; vm_compute; discriminate].
Qed.

(* the receiver states that can occur while reading on: still waiting for its first frame with
   exactly the digests it had when the key was installed, or poisoned *)
Definition waiting_like (B1 B : stream) : Prop :=
  B = B1 \/ poisoned B.

Theorem no_data_after_tamper_reading_on :
  forall (opsA opsB : list cop) (A B : stream) (k ivA ivB : bytes) (A1 B1 : stream)
         (tr : list (bytes * N)) (fs : list frame) (A2 : stream) (fs' : list frame),
    clear_run new_stream opsA = Some A -> clear_run new_stream opsB = Some B ->
    set_key A k ivA = SOk A1 -> set_key B k ivB = SOk B1 ->
    (sent_bytes opsA <> recvd_bytes opsB \/ recvd_bytes opsA <> sent_bytes opsB) ->
    sent A1 tr fs A2 ->
    (forall g ivo ct, In g fs' -> f_body g = Ct ivo ct -> In ct (cts_of fs)) ->
    snd (recv_frames_all B1 fs') = [].
Proof.
  intros opsA opsB A B k ivA ivB A1 B1 tr fs A2 fs' RA RB KA KB Hdiff Hsent Huse.
  destruct (set_key_props _ _ _ _ KA) as [KkA [KeA [KfA [_ [KcA [KsA KrA]]]]]].
  destruct (set_key_props _ _ _ _ KB) as [KkB [KeB [_ [KfB [KcB [KsB KrB]]]]]].
  pose proof (set_key_wf _ _ _ _ KA) as HwfA.
  assert (KdB : dec_ctr B1 = 0).
  { revert KB. unfold set_key. destruct (negb (lenN k =? KeyLen)); [discriminate|]. intro E. injection E as <-. reflexivity. }
  assert (HactB : enc_active B1 = true) by (unfold enc_active; rewrite KkB, KeB; reflexivity).
  pose proof (sent_shaped _ _ _ _ _ Hsent KkA KeA HwfA) as Hshape.
  assert (Hshape' : forall g ivo ct, In g fs' -> f_body g = Ct ivo ct -> hdr_shaped ct).
  { intros g ivo ct Hin Hb. apply Hshape. exact (Huse g ivo ct Hin Hb). }
  (* the fresh receiver refuses every frame carrying one of the sender's ciphertexts *)
  assert (Hrej : forall g, (forall ivo ct, f_body g = Ct ivo ct -> In ct (cts_of fs)) ->
                           forall B2 x, recv_frame_we B1 g <> (B2, SOk x)).
  { intros g Hg B2 [d' fl'] Er.
    destruct (recv_we_enc_inv _ _ _ _ _ _ HactB KkB Er) as [ivo [ct [div [Hb [_ [_ [_ Hopen]]]]]]].
    pose proof (Hg _ _ Hb) as Hin.
    inversion Hsent as [|A0 d fl A1' f tr1 fs1 A2' Hfl Hs Hrest]; subst; [destruct Hin|].
    destruct (wf_send_step _ _ _ _ _ _ KkA KeA HwfA Hs) as [Hwf1 [Hk1 [He1 [Hiv1 [Hc1 [Hlt Hf]]]]]].
    unfold cts_of in Hin. cbn [flat_map] in Hin. apply in_app_or in Hin as [Hin|Hin].
    - (* the sender's first frame: the digests would have to agree *)
      destruct (f_body f) as [bs|ivo0 c0] eqn:Eb; [destruct Hin|]. destruct Hin as [<-|[]].
      assert (Hle : enc_ctr A1 <= CounterGuard) by (rewrite KcA; vm_compute; discriminate).
      assert (Hct : exists ivo1 ct1, f_body f = Ct ivo1 ct1 /\ f_body g = Ct ivo ct1) by (exists ivo0, c0; split; assumption).
      destruct (binding_e2e _ _ _ _ _ _ _ _ _ _ _ _ _ _ _ _ _ RA RB KA KB Hs Hct Er) as [H1 H2].
      destruct Hdiff as [Hd|Hd]; contradiction.
    - (* a later frame: header-only associated data against first-frame associated data *)
      pose proof (sent_labelled _ _ _ _ _ Hrest Hk1 He1 Hwf1) as Hlab.
      rewrite Forall_forall in Hlab. destruct (Hlab _ Hin) as [c [a [p [Ect [Hlo [_ Hhdr]]]]]].
      rewrite Hc1, KcA in Hlo. destruct (Hhdr ltac:(lia)) as [h ->].
      apply open_only_seal in Hopen. rewrite Ect in Hopen.
      apply seal_inj in Hopen as [_ [_ [Ha _]]].
      unfold aad_recv in Ha. rewrite KfB in Ha. discriminate. }
  (* reading on: the receiver is B1 itself or poisoned, and accepts nothing either way *)
  clear Hshape. revert Huse Hshape'. induction fs' as [|g r IH]; intros Huse Hshape'; [reflexivity|].
  cbn [recv_frames_all].
  destruct (recv_frame_we B1 g) as [B2 [x|e]] eqn:Er.
  - exfalso. apply (Hrej g (fun ivo ct Hb => Huse g ivo ct (or_introl eq_refl) Hb) B2 x). exact Er.
  - assert (Huse2 : forall g0 ivo ct, In g0 r -> f_body g0 = Ct ivo ct -> In ct (cts_of fs))
      by (intros g0 ivo ct Hin; apply Huse; right; exact Hin).
    assert (Hshape2 : forall g0 ivo ct, In g0 r -> f_body g0 = Ct ivo ct -> hdr_shaped ct)
      by (intros g0 ivo ct Hin; apply Hshape'; right; exact Hin).
    destruct (recv_we_fail_cases _ _ _ _ Er) as [->|[n ->]]; [exact (IH Huse2 Hshape2)|].
    destruct (fail_decrypt_cases B1 n) as [->|[Hfin [Hc [Hkk Hee]]]]; [exact (IH Huse2 Hshape2)|].
    apply (poisoned_accepts_nothing r (fail_decrypt B1 n) k).
    + unfold enc_active. rewrite Hkk, Hee, KkB, KeB. reflexivity.
    + rewrite Hkk. exact KkB.
    + split; [rewrite Hc; exact KdB|exact Hfin].
    + exact Hshape2.
Qed.
