(* Proofs/C01TypedStream.v — typed messages over real (modelled) streams: the typed layer
   never makes the stream refuse a frame for its size, and the peer's Message reader is handed
   exactly the frames the writer produced, plaintext and AES-GCM alike. *)
From Coq Require Import List NArith ZArith Lia Bool.
From Cedar Require Import Lib.Bytes Lib.Sym gen.Consts Model.Frame Model.Msg Model.TypedStream
     Proofs.FrameBase Proofs.C01Stream.
Import ListNotations.
Local Open Scope N_scope.

Lemma send_frame_errors s d fl s' e :
  send_frame s d fl = (s', SErr e) -> (e = ETooLarge /\ MaxMessageSize < lenN d) \/ e = ECounterMax.
Proof.
  unfold send_frame. destruct (MaxMessageSize <? lenN d) eqn:E.
  - intro H. injection H as _ <-. left. split; [reflexivity|apply N.ltb_lt; exact E].
  - destruct (key s); [destruct (encrypted s); [destruct (enc_ctr s =? CounterGuard)|]|]; cbv zeta; intro H;
      try discriminate. injection H as _ <-. right. reflexivity.
Qed.

Lemma flag_of_eom_ok e : flag_of_eom e <= FlagMaxRecvWE.
Proof. destruct e; [apply flag_complete_ok|apply flag_partial_ok]. Qed.
Lemma flag_of_eom_back e : negb (flag_of_eom e =? 0) = e.
Proof. destruct e; reflexivity. Qed.

Lemma typed_over_stream fs : forall A B,
  duplex A B -> Forall (fun f : mframe => lenN (fst f) <= MaxMessageSize) fs ->
  match send_mframes A fs with
  | (A1, SOk wire) => exists B1, recv_mframes B (length fs) wire = (B1, Some fs) /\ duplex A1 B1
  | (_, SErr e) => e = ECounterMax
  end.
Proof.
  induction fs as [|[d e] fs IH]; intros A B D Hall; cbn [send_mframes].
  - exists B. split; [reflexivity|exact D].
  - inversion Hall as [|x l Hx Hl]; subst. cbn [fst] in Hx.
    destruct (send_frame A d (flag_of_eom e)) as [A1 [f|x]] eqn:Es.
    + destruct (send_recv_frame _ _ _ _ _ _ D (flag_of_eom_ok e) Es) as [B1 [Hr D1]].
      specialize (IH A1 B1 D1 Hl).
      destruct (send_mframes A1 fs) as [A2 [ws|x]]; [|exact IH].
      destruct IH as [B2 [Hr2 D2]]. exists B2. split; [|exact D2].
      cbn [length recv_mframes]. rewrite Hr, Hr2, flag_of_eom_back. reflexivity.
    + destruct (send_frame_errors _ _ _ _ _ Es) as [[_ Hbig]|Hc]; [lia|exact Hc].
Qed.
