(* Proofs/C11Spec.v — the predicates the C11 theorems are stated with.
   Pure specifications: no computation is hidden in them. *)
From Coq Require Import List NArith ZArith Lia Bool.
From Cedar Require Import Lib.Bytes Lib.SymC11 gen.Consts gen.FactsC11 Model.Msg Model.Token.
Import ListNotations.
Local Open Scope Z_scope.

(* the time claims of a decoded payload are valid at [now]:
   exp (if present) is a number strictly after now; iat (if present) is a number
   issued not before now - [ma] (int64 subtraction, the identity for any real clock,
   see C11_times_valid_plain), i.e. not older than the maximum age (a maximum <= 0, which only
   SEC_TOKEN_MAX_AGE can produce, switches the age limit off).  [ma] is
   resolved_max_age e = TokenMaxAge if positive, else SEC_TOKEN_MAX_AGE in
   seconds if it parses, else the default *)
Definition times_valid (now ma : Z) (c : claims) : Prop :=
  (j_exp c = JAbsent \/ exists z, j_exp c = JNum z /\ now < f2i z) /\
  (j_iat c = JAbsent \/ exists z, j_iat c = JNum z /\ (ma <= 0 \/ wrap64 (now - ma) <= f2i z)).

(* [tok] = header.payload is a token issued under a signing key [key] the server
   holds, valid at [now], whose subject is the non-empty string [sub] *)
Definition token_valid (e : env) (now : Z) (tok key sub : bytes) : Prop :=
  exists p0 p1 h c kid,
    split_on dot tok = [p0; p1] /\
    decode_seg e p0 = Some h /\ kid_strict h = Some kid /\
    load_signing_key e kid = Some key /\
    decode_seg e p1 = Some c /\
    times_valid now (resolved_max_age e) c /\
    j_sub c = JStr sub /\ sub <> [].

(* the state validateTokenAndDeriveKeys leaves for a valid token *)
Definition mk_vstate (e : env) (tok key sub : bytes) : vstate :=
  {| v_cid := sub; v_sid := server_id e; v_key := key;
     v_sig := c_sign (e_cr e) key tok;
     v_K := c_kdf (e_cr e) (c_sign (e_cr e) key tok) tok |}.

(* the frames from [r0] on decode as a complete message 3
     OK, |id| id, |rb| rb, |mac| mac, <end of message>
   whose id is [cid], whose nonce echo is [rb] and whose MAC is the MAC under [K]
   of (cid, 0, rb) *)
Definition client_proof (cr : crypto) (K cid rb : bytes) (r0 : reader) : Prop :=
  exists r1 r2 n r3 r4 m r5 r6,
    rd_int r0 = ROk AuthPwAOk r1 /\
    rd_id r1 = ROk cid r2 /\
    rd_int r2 = ROk n r3 /\ n <= AuthPwKeyLen /\ rd_raw r3 n = ROk rb r4 /\
    rd_int r4 = ROk m r5 /\ rd_raw r5 m = ROk (c_mac cr K (mac_C cid rb)) r6 /\
    at_eom r6 = true.

(* the frames from [r0] on decode as a message 2
     OK, |cid| cid, |sid| sid, |ra| ra, |rb| rb, |mac| mac
   echoing the client's id and nonce, with the MAC under [K] of (cid ' ' sid 0 ra rb) *)
Definition server_proof (cr : crypto) (K cid ra sid rb : bytes) (r0 : reader) : Prop :=
  exists r1 r2 r3 n r4 r5 m r6 r7 k r8 r9,
    rd_int r0 = ROk AuthPwAOk r1 /\
    rd_id r1 = ROk cid r2 /\
    rd_id r2 = ROk sid r3 /\
    rd_int r3 = ROk n r4 /\ n <= AuthPwKeyLen /\ rd_raw r4 n = ROk ra r5 /\
    rd_int r5 = ROk m r6 /\ m <= AuthPwKeyLen /\ rd_raw r6 m = ROk rb r7 /\
    rd_int r7 = ROk k r8 /\ rd_raw r8 k = ROk (c_mac cr K (mac_T cid sid ra rb)) r9.

(* a three-part token verifies: the signature part is the signature, under the key
   the header names, of "header.payload"; the time claims are valid; the subject
   is a non-empty string *)
Definition id_token_valid (e : env) (now : Z) (t : bytes) (out : id_claims) : Prop :=
  exists p0 p1 p2 h key c,
    split_on dot (trim_space_go t) = [p0; p1; p2] /\
    decode_seg e p0 = Some h /\
    load_signing_key e (kid_lenient h) = Some key /\
    b64url_decode p2 = Some (c_sign (e_cr e) key (p0 ++ dot :: p1)) /\
    decode_seg e p1 = Some c /\
    times_valid now (resolved_max_age e) c /\
    (exists s, j_sub c = JStr s /\ s <> []) /\
    out = {| ic_sub := jstr (j_sub c); ic_iss := jstr (j_iss c); ic_scope := jstr (j_scope c);
             ic_exp := jint (j_exp c); ic_iat := jint (j_iat c) |}.
