(* Proofs/C16Main.v — a minted claim id parses back to what was minted; minter and
   importer register the same session; the public form is independent of the secret. *)
From Coq Require Import List NArith ZArith Lia Bool.
From Cedar Require Import Lib.Bytes Lib.SymC16 Model.ClaimId Proofs.C16Str.
Import ListNotations.

(* ---- shape of an exported session_info ---------------------------------- *)
Definition info_body (p : policy) : bytes := concat (map render_item (export_items p)).

Lemma export_info_shape p info :
  export_info p = Ok info ->
  info = ch_lbr :: info_body p ++ [ch_rbr] /\ contains ch_hash (info_body p) = false.
Proof.
  unfold export_info, render_items, info_body. intro H.
  destruct (negb (policy_safe p)); [discriminate|].
  destruct (contains ch_hash _) eqn:E; [discriminate|]. inversion H; subst. split; [reflexivity|].
  simpl in E. rewrite contains_app in E. apply orb_false_iff in E as [E _]. exact E.
Qed.

(* ---- inversion of the registration steps -------------------------------- *)
Lemma derive_claim_key_inv p secret k proto :
  derive_claim_key p secret = Ok (k, proto) ->
  k = Kdf S_htcondor S_keygen 32 secret /\ proto = S_AESGCM /\ secret <> [].
Proof.
  unfold derive_claim_key, derive_session_key. intro H.
  destruct (negb _); [discriminate|].
  destruct secret; simpl in H; [discriminate|]. inversion H. repeat split. discriminate.
Qed.

Definition registered (sid : bytes) (p : policy) (secret user addr tag : bytes) (fb : Z) : entry :=
  let p' := finish_policy p sid user S_AESGCM in
  {| e_id := sid; e_addr := addr; e_key := Kdf S_htcondor S_keygen 32 secret; e_proto := S_AESGCM;
     e_policy := p'; e_expiry := claim_expiration p' fb; e_lease := 0; e_tag := tag; e_inherited := true |}.

Lemma register_inv sid info secret fqu dfqu addr tag fb extra e cmds :
  register sid info secret fqu dfqu addr tag fb extra = Ok (e, cmds) ->
  exists p, import_info info = Ok p
    /\ derive_claim_key p secret = Ok (Kdf S_htcondor S_keygen 32 secret, S_AESGCM)
    /\ secret <> []
    /\ e = registered sid p secret (if is_nil fqu then dfqu else fqu) addr tag fb
    /\ cmds = map_claim_commands (e_policy e) addr tag extra.
Proof.
  unfold register. intro H.
  destruct (import_info info) as [p| |] eqn:Ei; try discriminate.
  destruct (derive_claim_key p secret) as [[k proto]| |] eqn:Ek; try discriminate.
  destruct (derive_claim_key_inv _ _ _ _ Ek) as (-> & -> & Hs).
  exists p. inversion H; subst. repeat split; assumption || reflexivity.
Qed.

Lemma register_intro sid info secret fqu dfqu addr tag fb extra p :
  import_info info = Ok p ->
  derive_claim_key p secret = Ok (Kdf S_htcondor S_keygen 32 secret, S_AESGCM) ->
  register sid info secret fqu dfqu addr tag fb extra
  = Ok (registered sid p secret (if is_nil fqu then dfqu else fqu) addr tag fb,
        map_claim_commands (finish_policy p sid (if is_nil fqu then dfqu else fqu) S_AESGCM) addr tag extra).
Proof. intros Hi Hk. unfold register. rewrite Hi, Hk. reflexivity. Qed.

Lemma mint_inv o secret now m :
  mint o secret now = Ok m ->
  exists info e cmds,
    export_info (mint_wire o now) = Ok info
    /\ register (mint_sid o) info secret (mo_peer_fqu o) S_submit_side (mo_peer_addr o) (mo_tag o)
                (mo_lifetime_ns o) (mo_extra o) = Ok (e, cmds)
    /\ m = {| m_claim := mint_sid o ++ ch_hash :: info ++ secret; m_public := mint_sid o ++ S_public_tail;
              m_sid := mint_sid o; m_entry := e; m_cmds := cmds |}
    /\ mo_sinful o <> [].
Proof.
  unfold mint. intro H.
  destruct (is_nil (mo_sinful o)) eqn:En; [discriminate|].
  destruct (negb _); [discriminate|].
  destruct (export_info (mint_wire o now)) as [info| |] eqn:Ee; try discriminate.
  destruct (register _ _ _ _ _ _ _ _ _) as [[e cmds]| |] eqn:Er; try discriminate.
  exists info, e, cmds. inversion H; subst. repeat split; try assumption.
  apply is_nil_false_iff. exact En.
Qed.

(* ---- C16_parse_mint ------------------------------------------------------ *)
Lemma parse_mint o secret now m :
  secret_ok secret -> mint o secret now = Ok m ->
  exists info, export_info (mint_wire o now) = Ok info
    /\ m_sid m = mint_sid o
    /\ m_claim m = m_sid m ++ ch_hash :: info ++ secret
    /\ parse_strict (m_claim m) = {| c_sid := m_sid m; c_info := info; c_key := secret |}.
Proof.
  intros Hs Hm. destruct (mint_inv _ _ _ _ Hm) as (info & e & cmds & He & _ & -> & _).
  exists info. simpl. repeat split; try assumption.
  destruct (export_info_shape _ _ He) as [-> Hb].
  apply parse_strict_minted; assumption.
Qed.

(* lowercase hexadecimal secrets (randomHexKey) are legal trailing keys *)
Definition is_lower_hex (b : byte) : bool :=
  let n := b2n b in ((48 <=? n) && (n <=? 57) || (97 <=? n) && (n <=? 102))%N.
Lemma hex_secret_ok s : forallb is_lower_hex s = true -> secret_ok s.
Proof.
  intro H. split; eapply forallb_contains; try exact H; reflexivity.
Qed.

(* ---- policy lookups through pset ----------------------------------------- *)
Lemma plookup_finish_other n p sid u u' proto :
  n <> A_User ->
  plookup n (finish_policy p sid u proto) = plookup n (finish_policy p sid u' proto).
Proof.
  intro Hn. unfold finish_policy. rewrite !plookup_pset.
  assert (bytes_eqb A_User n = false) as -> by (apply bytes_eqb_neq; congruence).
  reflexivity.
Qed.

Lemma plookup_finish_user p sid u proto :
  plookup A_User (finish_policy p sid u proto) = Some (PStr u).
Proof. unfold finish_policy. rewrite !plookup_pset. reflexivity. Qed.

Lemma get_str_finish_other n p sid u u' proto :
  n <> A_User ->
  get_str (finish_policy p sid u proto) n = get_str (finish_policy p sid u' proto) n.
Proof. intro H. unfold get_str. rewrite (plookup_finish_other n p sid u u' proto H). reflexivity. Qed.

Lemma claim_expiration_user p sid u u' proto fb :
  claim_expiration (finish_policy p sid u proto) fb = claim_expiration (finish_policy p sid u' proto) fb.
Proof.
  unfold claim_expiration.
  rewrite (get_str_finish_other A_SessionExpires p sid u u' proto) by discriminate. reflexivity.
Qed.

(* an absolute expiry read from the text does not depend on the fallback *)
Lemma claim_expiration_abs p fb fb' s :
  claim_expiration p fb = ExpAbs s -> claim_expiration p fb' = ExpAbs s.
Proof.
  unfold claim_expiration.
  destruct (get_str p A_SessionExpires) as [v|].
  - destruct (parse_int64 (trim_space v)) as [secs|].
    + destruct (0 <? secs)%Z; [auto|]. destruct (0 <? fb)%Z; discriminate.
    + destruct (0 <? fb)%Z; discriminate.
  - destruct (0 <? fb)%Z; discriminate.
Qed.

(* ---- C16_same_session ----------------------------------------------------- *)
Lemma mint_sid_nonnil o : mo_sinful o <> [] -> is_nil (mint_sid o) = false.
Proof. unfold mint_sid. destruct (mo_sinful o); [congruence|reflexivity]. Qed.

Lemma same_session o secret now m io :
  secret_ok secret -> mint o secret now = Ok m ->
  exists e cmds,
    import_claim (m_claim m) io = Ok (m_sid m, e, cmds)
    /\ e_id e = e_id (m_entry m) /\ e_id e = m_sid m
    /\ e_key e = e_key (m_entry m) /\ e_key e = Kdf S_htcondor S_keygen 32 secret
    /\ e_proto e = e_proto (m_entry m)
    /\ (forall n, n <> A_User -> plookup n (e_policy e) = plookup n (e_policy (m_entry m)))
    /\ (io_duration_ns io = mo_lifetime_ns o -> e_expiry e = e_expiry (m_entry m))
    /\ (forall s, e_expiry (m_entry m) = ExpAbs s -> e_expiry e = ExpAbs s)
    /\ (forall s, e_expiry e = ExpAbs s -> e_expiry (m_entry m) = ExpAbs s).
Proof.
  intros Hs Hm.
  destruct (parse_mint _ _ _ _ Hs Hm) as (info & He & Hsid & Hclaim & Hparse).
  destruct (mint_inv _ _ _ _ Hm) as (info' & e0 & cmds0 & He' & Hr & -> & Hsin).
  rewrite He in He'. inversion He'; subst info'. clear He'. simpl in *.
  destruct (register_inv _ _ _ _ _ _ _ _ _ _ _ Hr) as (p & Hi & Hk & Hne & -> & ->).
  destruct (export_info_shape _ _ He) as [Hshape _].
  unfold import_claim. rewrite Hparse. unfold sec_session_id. cbn [c_info c_sid c_key].
  assert (is_nil info = false) as -> by (rewrite Hshape; reflexivity).
  rewrite (mint_sid_nonnil _ Hsin).
  assert (is_nil secret = false) as -> by (apply is_nil_false_iff; exact Hne).
  rewrite (register_intro _ _ _ _ _ _ _ _ _ _ Hi Hk).
  eexists. eexists. split; [reflexivity|].
  unfold registered. cbn [e_id e_key e_proto e_policy e_expiry].
  repeat split.
  - intros n Hn. apply plookup_finish_other. exact Hn.
  - intros ->. apply claim_expiration_user.
  - intros s H. rewrite (claim_expiration_user _ _ _ (if is_nil (mo_peer_fqu o) then S_submit_side else mo_peer_fqu o)).
    eapply claim_expiration_abs. exact H.
  - intros s H. rewrite (claim_expiration_user _ _ _ (if is_nil (io_peer_fqu io) then S_execute_side else io_peer_fqu io)).
    eapply claim_expiration_abs. exact H.
Qed.

(* a different secret, a different key: whatever text an importer holds, if the
   key it extracts is not the minted secret its session key is not the minter's *)
Lemma other_secret_other_key o secret now m claim' io sid' e' cmds' :
  mint o secret now = Ok m ->
  import_claim claim' io = Ok (sid', e', cmds') ->
  c_key (parse_strict claim') <> secret ->
  e_key e' <> e_key (m_entry m).
Proof.
  intros Hm Hi Hk.
  destruct (mint_inv _ _ _ _ Hm) as (info & e0 & cmds0 & _ & Hr & -> & _). simpl.
  destruct (register_inv _ _ _ _ _ _ _ _ _ _ _ Hr) as (p & _ & _ & _ & -> & _).
  unfold import_claim in Hi.
  destruct (is_nil (sec_session_id (parse_strict claim'))); [discriminate|].
  destruct (is_nil (c_key (parse_strict claim'))); [discriminate|].
  destruct (register _ _ _ _ _ _ _ _ _) as [[e1 c1]| |] eqn:Er; try discriminate.
  inversion Hi; subst.
  destruct (register_inv _ _ _ _ _ _ _ _ _ _ _ Er) as (p' & _ & _ & _ & -> & _).
  unfold registered. cbn [e_key]. apply kdf_secret_neq. exact Hk.
Qed.

(* the same holds for the file-transfer session, whose key is the claim's key *)
Lemma ft_same_key o secret now m io :
  secret_ok secret -> mint o secret now = Ok m ->
  exists e cmds,
    import_ft (m_claim m) io = Ok (S_filetrans ++ m_sid m, e, cmds)
    /\ e_id e = S_filetrans ++ m_sid m
    /\ e_key e = e_key (m_entry m) /\ e_proto e = e_proto (m_entry m).
Proof.
  intros Hs Hm.
  destruct (parse_mint _ _ _ _ Hs Hm) as (info & He & Hsid & Hclaim & Hparse).
  destruct (mint_inv _ _ _ _ Hm) as (info' & e0 & cmds0 & He' & Hr & -> & Hsin).
  rewrite He in He'. inversion He'; subst info'. clear He'. simpl in *.
  destruct (register_inv _ _ _ _ _ _ _ _ _ _ _ Hr) as (p & Hi & Hk & Hne & -> & ->).
  destruct (export_info_shape _ _ He) as [Hshape _].
  unfold import_ft. rewrite Hparse. unfold sec_session_id. cbn [c_info c_sid c_key].
  assert (is_nil info = false) as -> by (rewrite Hshape; reflexivity).
  rewrite (mint_sid_nonnil _ Hsin).
  assert (is_nil secret = false) as -> by (apply is_nil_false_iff; exact Hne).
  unfold derive_session_key.
  assert (is_nil secret = false) as -> by (apply is_nil_false_iff; exact Hne).
  eexists. eexists. split; [reflexivity|]. repeat split.
Qed.

(* ---- C16_public_no_secret -------------------------------------------------- *)
Lemma public_no_secret o s1 s2 now1 now2 m1 m2 :
  mint o s1 now1 = Ok m1 -> mint o s2 now2 = Ok m2 ->
  m_public m1 = m_public m2 /\ m_public m1 = mint_sid o ++ S_public_tail.
Proof.
  intros H1 H2.
  destruct (mint_inv _ _ _ _ H1) as (? & ? & ? & _ & _ & -> & _).
  destruct (mint_inv _ _ _ _ H2) as (? & ? & ? & _ & _ & -> & _).
  split; reflexivity.
Qed.

Lemma public_of_parsed_mint o secret now m :
  secret_ok secret -> mint o secret now = Ok m ->
  public_of_parsed (parse_strict (m_claim m)) = m_public m.
Proof.
  intros Hs Hm.
  destruct (parse_mint _ _ _ _ Hs Hm) as (info & _ & Hsid & _ & Hparse).
  destruct (mint_inv _ _ _ _ Hm) as (? & ? & ? & _ & _ & -> & Hsin).
  rewrite Hparse. unfold public_of_parsed. cbn [c_sid m_sid m_public].
  rewrite (mint_sid_nonnil _ Hsin). reflexivity.
Qed.
