(* Proofs/C02Prefix.v — an encrypting receiver accepts, frame by frame, exactly the
   sender's frames in order, whatever an on-path party does to the frame sequence.

   Attacker model (Dolev-Yao over the ideal AEAD of Lib/Sym.v): the frames handed to
   the receiver are ARBITRARY, except that every ciphertext term occurring in them is
   one the sender produced in this direction under this key (earlier, or in the
   transcript under attack); all other bytes are [Raw]. *)
From Coq Require Import List NArith ZArith Lia Bool Arith.
From Coq Require Import ZifyBool ZifyN ZifyNat.
From Cedar Require Import Lib.Bytes Lib.Sym gen.Consts Model.Frame Model.FrameSpec
     Proofs.FrameBase Proofs.C12Nonce.
Import ListNotations.
Local Open Scope N_scope.

(* sender well-formedness: first-frame flag tracks the counter; counter within range *)
Definition wf_send (s : stream) : Prop :=
  (enc_ctr s = 0 <-> fin_send_aad s = false) /\ enc_ctr s <= CounterGuard.

(* relational form of a successful frame-level send trace *)
Inductive sent : stream -> list (bytes * N) -> list frame -> stream -> Prop :=
| sent_nil A : sent A [] [] A
| sent_cons A d fl A1 f tr fs A2 :
    (fl = EndFlagPartial \/ fl = EndFlagComplete) ->
    send_frame A d fl = (A1, SOk f) -> sent A1 tr fs A2 -> sent A ((d, fl) :: tr) (f :: fs) A2.

(* a ciphertext of this direction, labelled by its frame counter *)
Definition labelled (k iv : bytes) (lo : N) (ct : ctext) : Prop :=
  exists c a p, ct = seal k (nonce_of iv c) a p /\ lo <= c /\ c < CounterGuard /\
                (0 < c -> exists h, a = AadHdr h).

Lemma wf_send_step s d fl s' f k :
  key s = Some k -> encrypted s = true -> wf_send s -> send_frame s d fl = (s', SOk f) ->
  wf_send s' /\ key s' = Some k /\ encrypted s' = true /\ enc_iv s' = enc_iv s /\
  enc_ctr s' = enc_ctr s + 1 /\ enc_ctr s < CounterGuard /\
  f = {| f_flag := fl;
         f_body := Ct (if enc_ctr s =? 0 then Some (enc_iv s) else None)
                     (seal k (nonce_of (enc_iv s) (enc_ctr s))
                        (aad_send s (hdr_of fl (lenN d + GcmTagSize + (if enc_ctr s =? 0 then GcmTagSize else 0)))) d) |}.
Proof.
  intros Hk He [Hwf Hle] Hs.
  destruct (send_frame_enc _ _ _ _ _ _ Hk He Hle Hs) as [Hlt [Hc [Hk' [Hiv [He' [Hfl Hb]]]]]].
  assert (Hfin : fin_send_aad s' = true).
  { unfold send_frame in Hs. destruct (MaxMessageSize <? lenN d); [discriminate|].
    rewrite Hk, He in Hs. destruct (enc_ctr s =? CounterGuard); [discriminate|].
    cbv zeta in Hs. injection Hs as <- _. reflexivity. }
  repeat split; try congruence; try lia.
  destruct f as [ff fb]. cbn [f_flag f_body] in *. subst. reflexivity.
Qed.

(* every ciphertext of a sent trace is labelled with a counter >= the starting counter,
   and only counter 0 carries first-frame associated data *)
Lemma sent_labelled A tr fs A' k :
  sent A tr fs A' -> key A = Some k -> encrypted A = true -> wf_send A ->
  Forall (labelled k (enc_iv A) (enc_ctr A)) (cts_of fs).
Proof.
  induction 1 as [A|A d fl A1 f tr fs A2 Hfl Hs Hrest IH]; intros Hk He Hwf.
  - constructor.
  - destruct (wf_send_step _ _ _ _ _ _ Hk He Hwf Hs) as [Hwf1 [Hk1 [He1 [Hiv1 [Hc1 [Hlt Hf]]]]]].
    unfold cts_of. cbn [flat_map]. rewrite Hf. cbn [f_body app].
    constructor.
    + exists (enc_ctr A), (aad_send A (hdr_of fl (lenN d + GcmTagSize + (if enc_ctr A =? 0 then GcmTagSize else 0)))), d.
      split; [reflexivity|]. split; [lia|]. split; [exact Hlt|].
      intro Hpos. unfold aad_send. destruct Hwf as [[_ Hw2] _].
      destruct (fin_send_aad A) eqn:Ef; [eexists; reflexivity|]. specialize (Hw2 eq_refl). lia.
    + specialize (IH Hk1 He1 Hwf1). rewrite Hiv1, Hc1 in IH.
      eapply Forall_impl; [|exact IH].
      intros ct [c [a [p [E [H1 [H2 H3]]]]]]. exists c, a, p. repeat split; try assumption; lia.
Qed.

Lemma skipn_app_exact_len {A} (a b : list A) n : length a = n -> skipn n (a ++ b) = b.
Proof. intros <-. rewrite skipn_app, Nat.sub_diag, skipn_all. reflexivity. Qed.

Local Transparent nonce_of.
Lemma nonce_tail iv c : (4 <= length iv)%nat -> skipn 4 (nonce_of iv c) = skipn 4 iv.
Proof.
  intro H. unfold nonce_of. apply skipn_app_exact_len. apply be_enc_length.
Qed.
Local Opaque nonce_of.

(* ---- what acceptance by an encrypting receiver means ------------------- *)
Lemma recv_we_enc_inv B f' B1 d' fl' k :
  enc_active B = true -> key B = Some k ->
  recv_frame_we B f' = (B1, SOk (d', fl')) ->
  exists ivo ct div,
    f_body f' = Ct ivo ct /\ fl' = f_flag f' /\ f_flag f' <= FlagMaxRecvWE /\
    ((dec_ctr B = 0 /\ ivo = Some div /\ lenN div = 16) \/ (dec_ctr B <> 0 /\ ivo = None /\ div = dec_iv B)) /\
    open k (nonce_of div (dec_ctr B)) (aad_recv B (hdr_of (f_flag f') (body_len (f_body f')))) ct = Some d'.
Proof.
  intros Hact Hk Hr. unfold recv_frame_we, recv_frame_gen in Hr.
  destruct (max_wire B <? body_len (f_body f')); [discriminate|].
  destruct (FlagMaxRecvWE <? f_flag f') eqn:Efl; [discriminate|]. apply N.ltb_ge in Efl.
  destruct (body_len (f_body f') =? 0); [rewrite Hact in Hr; discriminate|].
  unfold recv_body in Hr. rewrite Hact, Hk in Hr.
  destruct (f_body f') as [bs|ivo ct] eqn:Eb; cbn [decrypt] in Hr; cbv zeta in Hr; [discriminate|].
  assert (Hdw : forall div, match decrypt_with B k (hdr_of (f_flag f') (body_len (Ct ivo ct))) div ct (body_len (Ct ivo ct)) with
                            | (s1, SOk d) => (note_recv s1 (hdr_of (f_flag f') (body_len (Ct ivo ct)) ++ d), SOk (d, f_flag f'))
                            | (s1, SErr e) => (s1, SErr e)
                            end = (B1, SOk (d', fl')) ->
                 fl' = f_flag f' /\
                 open k (nonce_of div (dec_ctr B)) (aad_recv B (hdr_of (f_flag f') (body_len (Ct ivo ct)))) ct = Some d').
  { intros div. unfold decrypt_with.
    destruct (open k (nonce_of div (dec_ctr B)) (aad_recv B (hdr_of (f_flag f') (body_len (Ct ivo ct)))) ct) as [p|];
      [|discriminate].
    intro E. injection E as _ <- <-. split; reflexivity. }
  destruct (dec_ctr B =? 0) eqn:E0.
  - destruct ivo as [iv|]; [|discriminate].
    destruct (lenN iv =? 16) eqn:El; [|discriminate].
    destruct (Hdw _ Hr) as [H1 H2].
    exists (Some iv), ct, iv. repeat split; try assumption.
    left. apply N.eqb_eq in E0, El. repeat split; assumption.
  - destruct ivo as [iv|]; [discriminate|].
    destruct (Hdw _ Hr) as [H1 H2].
    exists None, ct, (dec_iv B). repeat split; try assumption.
    right. apply N.eqb_neq in E0. repeat split; assumption.
Qed.

Local Transparent hdr_of.
Lemma hdr_of_inj fl len fl' len' :
  fl < 256 -> fl' < 256 -> hdr_of fl len = hdr_of fl' len' -> fl = fl'.
Proof.
  intros H1 H2 E. unfold hdr_of in E. injection E as E _.
  apply (f_equal b2n) in E. rewrite !b2n_n2b in E. rewrite !N.mod_small in E by assumption. exact E.
Qed.
Local Opaque hdr_of.

Lemma flagmax_lt : FlagMaxRecvWE < 256. Proof. vm_compute. reflexivity. Qed.

(* what the attacker may use: ciphertexts of this direction with an already-used counter,
   or ciphertexts of the transcript still to be delivered *)
(* ciphertexts under the same key that do NOT belong to this direction: typically what the
   receiver itself sent (reflection), or the other direction of a session resumed from the same
   cache entry. They are described by that direction's base IV and the two digests its first
   frame was bound to; only counter 0 carries first-frame associated data. *)
Record other_dir := { o_iv : bytes; o_ds : digest; o_dr : digest }.
Definition foreign (k : bytes) (o : other_dir) (ct : ctext) : Prop :=
  exists c a p, ct = seal k (nonce_of (o_iv o) c) a p /\
                (c = 0 -> exists h, a = AadFirst (o_ds o) (o_dr o) h) /\
                (0 < c -> exists h, a = AadHdr h).
(* what makes such ciphertexts useless at receiver B of direction A -> B: the two base IVs
   differ beyond the counter word (96 random bits), and - only relevant while B still waits for
   the first frame - the foreign first frame is bound to other digests than B expects *)
Definition reflect_safe (A B : stream) (o : other_dir) : Prop :=
  (4 <= length (enc_iv A))%nat /\ (4 <= length (o_iv o))%nat /\
  skipn 4 (o_iv o) <> skipn 4 (enc_iv A) /\
  (dec_ctr B = 0 -> o_ds o <> dg_value (recv_dg B) \/ o_dr o <> dg_value (send_dg B)).
(* no foreign traffic at all *)
Definition no_other : other_dir := {| o_iv := []; o_ds := DZero; o_dr := DZero |}.

Definition known_ok (k iv : bytes) (j : N) (fs : list frame) (o : other_dir) (K : ctext -> Prop) : Prop :=
  forall ct, K ct -> (exists c a p, ct = seal k (nonce_of iv c) a p /\ c < j) \/ In ct (cts_of fs) \/ foreign k o ct.

Definition uses_only (K : ctext -> Prop) (fs' : list frame) : Prop :=
  forall f' ivo ct, In f' fs' -> f_body f' = Ct ivo ct -> K ct.

(* ---- the core: an accepted frame IS the sender's next frame ------------- *)
Lemma accepted_is_next A B k o K tr fs A' f' B1 d' fl' :
  paired A B -> key A = Some k -> encrypted A = true -> wf_send A -> reflect_safe A B o ->
  sent A tr fs A' -> known_ok k (enc_iv A) (enc_ctr A) fs o K ->
  (forall ivo ct, f_body f' = Ct ivo ct -> K ct) ->
  recv_frame_we B f' = (B1, SOk (d', fl')) ->
  exists d fl A1 f tr1 fs1,
    tr = (d, fl) :: tr1 /\ fs = f :: fs1 /\ send_frame A d fl = (A1, SOk f) /\ sent A1 tr1 fs1 A' /\
    (fl = EndFlagPartial \/ fl = EndFlagComplete) /\ f' = f.
Proof.
  intros P Hk He Hwf Hsafe Hsent HK Huse Hr.
  pose proof (enc_active_paired _ _ P) as Hact.
  assert (HactA : enc_active A = true) by (unfold enc_active; rewrite Hk, He; reflexivity).
  rewrite HactA in Hact. symmetry in Hact.
  pose proof P as P0. destruct P as [Pk Pe Pc Piv Pivl Pf Psd Prd].
  assert (HkB : key B = Some k) by congruence.
  destruct (recv_we_enc_inv _ _ _ _ _ _ Hact HkB Hr) as [ivo [ct [div [Hb [Hfl' [Hflmax [Hcase Hopen]]]]]]].
  apply open_only_seal in Hopen.
  pose proof (Huse _ _ Hb) as Hkn.
  pose proof (sent_labelled _ _ _ _ _ Hsent Hk He Hwf) as Hlab.
  pose proof guard_lt as Hg.
  (* the counter the receiver is at *)
  rewrite <- Pc in Hopen, Hcase.
  (* the base IV the receiver uses equals the sender's, once we know the counter matches *)
  assert (Hnonce : forall c, c < CounterGuard -> enc_ctr A <= CounterGuard ->
             nonce_of (enc_iv A) c = nonce_of div (enc_ctr A) ->
             (0 < enc_ctr A \/ c = 0) -> c = enc_ctr A /\ div = enc_iv A).
  { intros c Hc Hle En Hor.
    destruct Hcase as [[H0 [_ Hdl]]|[Hn0 [_ Hd]]].
    - destruct Hor as [Hpos|Hc0]; [lia|]. subst c. rewrite H0 in En.
      rewrite !nonce_of_zero in En.
      + split; [lia|congruence].
      + rewrite lenN_spec in Hdl. lia.
      + rewrite lenN_spec in Pivl. lia.
    - assert (Hpos : 0 < enc_ctr A) by lia. rewrite Hd, <- (Piv Hpos) in En.
      apply nonce_of_inj in En; [|lia|lia]. split; [exact En|]. rewrite Hd. symmetry. apply Piv. exact Hpos. }
  destruct Hwf as [Hwf1 Hle].
  (* old ciphertexts cannot be accepted *)
  destruct (HK _ Hkn) as [[c [a [p [Ect Hclt]]]]|[Hin|Hfor]].
  { exfalso. rewrite Ect in Hopen. apply seal_inj in Hopen as [_ [En _]].
    destruct (Hnonce c ltac:(lia) Hle En ltac:(lia)) as [Hceq _]. lia. }
  2:{ (* a ciphertext of another direction under the same key: never accepted *)
    exfalso. destruct Hfor as [c [a [p [Ect [Ha0 Hapos]]]]].
    destruct Hsafe as [Hl1 [Hl2 [Htail Hdig]]].
    rewrite Ect in Hopen. apply seal_inj in Hopen as [_ [En [Ea _]]].
    destruct Hcase as [[H0 [_ Hdl]]|[Hn0 [_ Hd]]].
    - (* B still expects the first frame of its direction: first-frame associated data *)
      assert (Hfin : fin_recv_aad B = false) by (rewrite <- Pf; apply Hwf1; exact H0).
      unfold aad_recv in Ea. rewrite Hfin in Ea.
      destruct (N.eq_dec c 0) as [Hc0|Hcn].
      + destruct (Ha0 Hc0) as [h Eh]. rewrite Eh in Ea. injection Ea as E1 E2 _.
        rewrite <- Pc in Hdig. destruct (Hdig H0) as [Hd1|Hd2]; congruence.
      + destruct (Hapos ltac:(lia)) as [h Eh]. rewrite Eh in Ea. discriminate.
    - (* later frames: the receiver's base IV is the sender's; the foreign nonce has another tail *)
      assert (Hpos : 0 < enc_ctr A) by lia.
      rewrite Hd, <- (Piv Hpos) in En.
      apply (f_equal (skipn 4)) in En. rewrite !nonce_tail in En by assumption.
      apply Htail. exact En. }
  (* so it is a ciphertext of the pending transcript *)
  destruct Hsent as [A|A d fl A1 f tr1 fs1 A2 Hflok Hs Hrest]; [destruct Hin|].
  destruct (wf_send_step _ _ _ _ _ _ Hk He (conj Hwf1 Hle) Hs) as [Hwf1' [Hk1 [He1 [Hiv1 [Hc1 [Hlt Hf]]]]]].
  exists d, fl, A1, f, tr1, fs1. repeat split; try reflexivity; try assumption.
  (* which labelled ciphertext is it? *)
  rewrite Forall_forall in Hlab. destruct (Hlab _ Hin) as [c [a [p [Ect [Hlo [Hhi Haad]]]]]].
  rewrite Ect in Hopen. apply seal_inj in Hopen as [_ [En [Ea Ep]]].
  assert (Hor : 0 < enc_ctr A \/ c = 0).
  { destruct (N.eq_dec (enc_ctr A) 0) as [H0|Hn0]; [|left; lia].
    right. (* receiver expects first-frame AAD; only counter 0 has it *)
    destruct (N.eq_dec c 0) as [|Hcn]; [assumption|exfalso].
    destruct (Haad ltac:(lia)) as [h Eh]. rewrite Eh in Ea.
    unfold aad_recv in Ea. rewrite <- Pf in Ea.
    destruct Hwf1 as [Hw _]. rewrite (Hw H0) in Ea. discriminate. }
  destruct (Hnonce c Hhi Hle En Hor) as [Hceq Hdiv]. subst c.
  (* the pending transcript's ciphertext with counter enc_ctr A is the head frame's *)
  assert (Hhead : ct = seal k (nonce_of (enc_iv A) (enc_ctr A))
                     (aad_send A (hdr_of fl (lenN d + GcmTagSize + (if enc_ctr A =? 0 then GcmTagSize else 0)))) d).
  { unfold cts_of in Hin. cbn [flat_map] in Hin. rewrite Hf in Hin. cbn [f_body app] in Hin.
    destruct Hin as [<-|Hin]; [reflexivity|exfalso].
    pose proof (sent_labelled _ _ _ _ _ Hrest Hk1 He1 Hwf1') as Hlab1.
    rewrite Forall_forall in Hlab1. destruct (Hlab1 _ Hin) as [c1 [a1 [p1 [E1 [Hlo1 [Hhi1 _]]]]]].
    rewrite Ect in E1. apply seal_inj in E1 as [_ [En1 _]]. rewrite Hiv1 in En1.
    apply nonce_of_inj in En1; lia. }
  (* header and payload agree, hence the frames are equal *)
  rewrite Ect in Hhead. apply seal_inj in Hhead as [_ [_ [Ea2 Ep2]]].
  assert (Haeq : aad_recv B (hdr_of (f_flag f') (body_len (f_body f'))) =
                 aad_send A (hdr_of fl (lenN d + GcmTagSize + (if enc_ctr A =? 0 then GcmTagSize else 0)))) by congruence.
  assert (Hhdr : hdr_of (f_flag f') (body_len (f_body f')) =
                 hdr_of fl (lenN d + GcmTagSize + (if enc_ctr A =? 0 then GcmTagSize else 0))).
  { unfold aad_recv, aad_send in Haeq. rewrite <- Pf in Haeq.
    destruct (fin_send_aad A); congruence. }
  assert (Hfleq : f_flag f' = fl).
  { apply (hdr_of_inj _ _ _ _) in Hhdr; [exact Hhdr| |].
    - pose proof flagmax_lt. lia.
    - destruct Hflok as [-> | ->]; vm_compute; reflexivity. }
  rewrite Hf. destruct f' as [ff fb]. cbn [f_flag f_body] in *. f_equal; [congruence|].
  rewrite Hb, Ect. f_equal.
  - destruct Hcase as [[H0 [-> _]]|[Hn0 [-> _]]].
    + rewrite H0. cbn [N.eqb]. congruence.
    + destruct (enc_ctr A =? 0) eqn:E0; [apply N.eqb_eq in E0; lia|reflexivity].
  - unfold seal. f_equal; congruence.
Qed.

(* ---- frame-level prefix theorem ---------------------------------------- *)
Fixpoint recv_frames (s : stream) (fs : list frame) : stream * list (bytes * N) :=
  match fs with
  | [] => (s, [])
  | f :: r =>
      match recv_frame_we s f with
      | (s1, SOk x) => let '(s2, l) := recv_frames s1 r in (s2, x :: l)
      | (s1, SErr _) => (s1, [])
      end
  end.

Inductive prefix {A} : list A -> list A -> Prop :=
| prefix_nil l : prefix [] l
| prefix_cons x a b : prefix a b -> prefix (x :: a) (x :: b).

Lemma known_ok_step k iv j f fs o K d fl a :
  f = {| f_flag := fl; f_body := Ct (if j =? 0 then Some iv else None) (seal k (nonce_of iv j) a d) |} ->
  known_ok k iv j (f :: fs) o K -> known_ok k iv (j + 1) fs o K.
Proof.
  intros Hf HK ct Hct. destruct (HK _ Hct) as [[c [a0 [p [E Hlt]]]]|[Hin|Hfor]].
  - left. exists c, a0, p. split; [exact E|lia].
  - unfold cts_of in Hin. cbn [flat_map] in Hin. rewrite Hf in Hin. cbn [f_body app] in Hin.
    destruct Hin as [<-|Hin]; [|right; left; exact Hin].
    left. eexists _, _, _. split; [reflexivity|lia].
  - right; right; exact Hfor.
Qed.

Lemma reflect_safe_step A B o A1 B2 :
  reflect_safe A B o -> enc_iv A1 = enc_iv A -> dec_ctr B2 <> 0 -> reflect_safe A1 B2 o.
Proof.
  intros [H1 [H2 [H3 _]]] Hiv Hc. unfold reflect_safe. rewrite Hiv.
  repeat split; try assumption. intro H0. contradiction.
Qed.

Lemma prefix_frames fs' : forall A B k o K tr fs A',
  duplex A B -> key A = Some k -> encrypted A = true -> wf_send A -> reflect_safe A B o ->
  sent A tr fs A' -> known_ok k (enc_iv A) (enc_ctr A) fs o K -> uses_only K fs' ->
  prefix (snd (recv_frames B fs')) tr.
Proof.
  induction fs' as [|f' r' IH]; intros A B k o K tr fs A' D Hk He Hwf Hsafe Hsent HK Huse.
  - constructor.
  - cbn [recv_frames]. destruct (recv_frame_we B f') as [B1 [[d' fl']|e]] eqn:Er; [|constructor].
    destruct D as [P PB].
    assert (Huse1 : forall ivo ct, f_body f' = Ct ivo ct -> K ct).
    { intros ivo ct Hb. eapply Huse; [left; reflexivity|exact Hb]. }
    destruct (accepted_is_next _ _ _ _ _ _ _ _ _ _ _ _ P Hk He Hwf Hsafe Hsent HK Huse1 Er)
      as [d [fl [A1 [f [tr1 [fs1 [-> [-> [Hs [Hrest [Hflok ->]]]]]]]]]]].
    assert (Hfl : fl <= FlagMaxRecvWE) by (destruct Hflok as [-> | ->]; vm_compute; discriminate).
    destruct (send_recv_frame _ _ _ _ _ _ (conj P PB) Hfl Hs) as [B2 [Hr2 D2]].
    rewrite Hr2 in Er. injection Er as <- <- <-.
    destruct (wf_send_step _ _ _ _ _ _ Hk He Hwf Hs) as [Hwf1 [Hk1 [He1 [Hiv1 [Hc1 [Hlt Hf]]]]]].
    destruct (recv_frames B2 r') as [B3 l] eqn:Erest. cbn [snd].
    constructor.
    assert (HK1 : known_ok k (enc_iv A1) (enc_ctr A1) fs1 o K).
    { rewrite Hiv1, Hc1. eapply known_ok_step; [exact Hf|exact HK]. }
    assert (Hsafe1 : reflect_safe A1 B2 o).
    { eapply reflect_safe_step; [exact Hsafe|exact Hiv1|].
      destruct D2 as [[_ _ Pc2 _ _ _ _ _] _]. rewrite <- Pc2, Hc1. lia. }
    assert (Huse2 : uses_only K r').
    { intros g ivo ct Hin Hb. eapply Huse; [right; exact Hin|exact Hb]. }
    specialize (IH _ _ _ _ _ _ _ _ D2 Hk1 He1 Hwf1 Hsafe1 Hrest HK1 Huse2). rewrite Erest in IH. exact IH.
Qed.

(* the frames accepted before the first rejection *)
Fixpoint accepted (s : stream) (fs : list frame) : list frame :=
  match fs with
  | [] => []
  | f :: r =>
      match recv_frame_we s f with
      | (s1, SOk _) => f :: accepted s1 r
      | (_, SErr _) => []
      end
  end.

(* detection: what is accepted is a prefix of the genuine wire itself, so the first frame that
   differs from the genuine frame at its position (altered, injected, dropped, duplicated,
   reordered, replayed, truncated) is rejected *)
Lemma accepted_prefix_of_wire fs' : forall A B k o K tr fs A',
  duplex A B -> key A = Some k -> encrypted A = true -> wf_send A -> reflect_safe A B o ->
  sent A tr fs A' -> known_ok k (enc_iv A) (enc_ctr A) fs o K -> uses_only K fs' ->
  prefix (accepted B fs') fs.
Proof.
  induction fs' as [|f' r' IH]; intros A B k o K tr fs A' D Hk He Hwf Hsafe Hsent HK Huse.
  - constructor.
  - cbn [accepted]. destruct (recv_frame_we B f') as [B1 [[d' fl']|e]] eqn:Er; [|constructor].
    destruct D as [P PB].
    assert (Huse1 : forall ivo ct, f_body f' = Ct ivo ct -> K ct).
    { intros ivo ct Hb. eapply Huse; [left; reflexivity|exact Hb]. }
    destruct (accepted_is_next _ _ _ _ _ _ _ _ _ _ _ _ P Hk He Hwf Hsafe Hsent HK Huse1 Er)
      as [d [fl [A1 [f [tr1 [fs1 [-> [-> [Hs [Hrest [Hflok ->]]]]]]]]]]].
    assert (Hfl : fl <= FlagMaxRecvWE) by (destruct Hflok as [-> | ->]; vm_compute; discriminate).
    destruct (send_recv_frame _ _ _ _ _ _ (conj P PB) Hfl Hs) as [B2 [Hr2 D2]].
    rewrite Hr2 in Er. injection Er as <- <- <-.
    destruct (wf_send_step _ _ _ _ _ _ Hk He Hwf Hs) as [Hwf1 [Hk1 [He1 [Hiv1 [Hc1 [Hlt Hf]]]]]].
    constructor.
    assert (HK1 : known_ok k (enc_iv A1) (enc_ctr A1) fs1 o K).
    { rewrite Hiv1, Hc1. eapply known_ok_step; [exact Hf|exact HK]. }
    assert (Hsafe1 : reflect_safe A1 B2 o).
    { eapply reflect_safe_step; [exact Hsafe|exact Hiv1|].
      destruct D2 as [[_ _ Pc2 _ _ _ _ _] _]. rewrite <- Pc2, Hc1. lia. }
    assert (Huse2 : uses_only K r').
    { intros g ivo ct Hin Hb. eapply Huse; [right; exact Hin|exact Hb]. }
    exact (IH _ _ _ _ _ _ _ _ D2 Hk1 He1 Hwf1 Hsafe1 Hrest HK1 Huse2).
Qed.

(* ---- reflection: a stream does not accept its own frames ------------------ *)
(* A frame B itself sealed (at any counter c of its send direction) is rejected when it is
   handed back to B, with any header and IV prefix, provided the two directions' base IVs
   differ beyond their leading counter word, or - for B's first frame - provided B's send and
   receive handshake digests differ (they do after every real handshake: the two directions
   carry different cleartext). *)
Lemma reflection_rejected B k c a p f' ivo :
  enc_active B = true -> key B = Some k ->
  f_body f' = Ct ivo (seal k (nonce_of (enc_iv B) c) a p) ->
  (4 <= length (enc_iv B))%nat -> (4 <= length (dec_iv B))%nat ->
  (* what protects: *)
  ((dec_ctr B <> 0 /\ skipn 4 (dec_iv B) <> skipn 4 (enc_iv B)) \/
   (dec_ctr B = 0 /\ fin_recv_aad B = false /\
    forall h, a <> AadFirst (dg_value (recv_dg B)) (dg_value (send_dg B)) h)) ->
  exists e, snd (recv_frame_we B f') = SErr e.
Proof.
  intros Hact Hk Hb Hlen Hlen2 Hprot.
  destruct (recv_frame_we B f') as [B1 [[d' fl']|e]] eqn:Er; [|eexists; reflexivity].
  exfalso.
  destruct (recv_we_enc_inv _ _ _ _ _ _ Hact Hk Er) as [ivo1 [ct [div [Hb1 [_ [_ [Hcase Hopen]]]]]]].
  rewrite Hb in Hb1. injection Hb1 as _ <-.
  apply open_only_seal in Hopen. apply seal_inj in Hopen as [_ [En [Ea _]]].
  destruct Hprot as [[Hn0 Htail]|[H0 [Hfin Hno]]].
  - destruct Hcase as [[H0 _]|[_ [_ Hd]]]; [contradiction|]. subst div.
    apply (f_equal (skipn 4)) in En.
    rewrite !nonce_tail in En by assumption. apply Htail. congruence.
  - unfold aad_recv in Ea. rewrite Hfin in Ea. eapply Hno. first [exact Ea|symmetry; exact Ea].
Qed.

(* ---- reading on after errors ---------------------------------------------- *)
(* Once a receiver has accepted its first protected frame, a failed frame leaves it exactly as
   it was (the counter in particular), so whatever it accepts afterwards is still the sender's
   next frame: across any number of errors the accepted frames are a prefix of what was sent. *)
Fixpoint recv_frames_all (s : stream) (fs : list frame) : stream * list (bytes * N) :=
  match fs with
  | [] => (s, [])
  | f :: r =>
      match recv_frame_we s f with
      | (s1, SOk x) => let '(s2, l) := recv_frames_all s1 r in (s2, x :: l)
      | (s1, SErr _) => recv_frames_all s1 r
      end
  end.

Lemma fail_decrypt_id s n : fin_recv_aad s = true -> fail_decrypt s n = s.
Proof.
  intro Hf. unfold fail_decrypt.
  destruct ((if dec_ctr s =? 0 then IvLenRecv + MinTagLen else MinTagLen) <=? n); [|reflexivity].
  destruct s; cbn in *. subst. reflexivity.
Qed.

Lemma recv_we_fail_established B f B1 e :
  fin_recv_aad B = true -> recv_frame_we B f = (B1, SErr e) -> B1 = B.
Proof.
  intros Hf. unfold recv_frame_we, recv_frame_gen.
  destruct (max_wire B <? body_len (f_body f)); [intro E; inversion E; reflexivity|].
  destruct (FlagMaxRecvWE <? f_flag f); [intro E; inversion E; reflexivity|].
  destruct (body_len (f_body f) =? 0).
  - destruct (enc_active B); intro E; inversion E; reflexivity.
  - unfold recv_body. destruct (enc_active B).
    + destruct (key B) as [k|]; [|intro E; inversion E; reflexivity].
      unfold decrypt. cbv zeta.
      assert (Hw : forall div c,
        match decrypt_with B k (hdr_of (f_flag f) (body_len (f_body f))) div c (body_len (f_body f)) with
        | (s1, SOk d) => (note_recv s1 (hdr_of (f_flag f) (body_len (f_body f)) ++ d), SOk (d, f_flag f))
        | (s1, SErr e0) => (s1, SErr e0)
        end = (B1, SErr e) -> B1 = B).
      { intros div c. unfold decrypt_with.
        destruct (open k (nonce_of div (dec_ctr B)) (aad_recv B (hdr_of (f_flag f) (body_len (f_body f)))) c);
          [discriminate|]. rewrite (fail_decrypt_id _ _ Hf). intro E; inversion E; reflexivity. }
      destruct (f_body f) as [bs|ivo c].
      * rewrite (fail_decrypt_id _ _ Hf). intro E; inversion E; reflexivity.
      * destruct (dec_ctr B =? 0); destruct ivo as [iv|];
          try (rewrite (fail_decrypt_id _ _ Hf); intro E; inversion E; reflexivity).
        -- destruct (lenN iv =? 16); [apply Hw|rewrite (fail_decrypt_id _ _ Hf); intro E; inversion E; reflexivity].
        -- apply Hw.
    + destruct (f_body f); intro E; inversion E; reflexivity.
Qed.

Lemma prefix_frames_across_errors fs' : forall A B k o K tr fs A',
  duplex A B -> key A = Some k -> encrypted A = true -> wf_send A -> reflect_safe A B o ->
  fin_recv_aad B = true ->
  sent A tr fs A' -> known_ok k (enc_iv A) (enc_ctr A) fs o K -> uses_only K fs' ->
  prefix (snd (recv_frames_all B fs')) tr.
Proof.
  induction fs' as [|f' r' IH]; intros A B k o K tr fs A' D Hk He Hwf Hsafe Hfin Hsent HK Huse.
  - constructor.
  - assert (Huse2 : uses_only K r').
    { intros g ivo ct Hin Hb. eapply Huse; [right; exact Hin|exact Hb]. }
    cbn [recv_frames_all]. destruct (recv_frame_we B f') as [B1 [[d' fl']|e]] eqn:Er.
    2: { rewrite (recv_we_fail_established _ _ _ _ Hfin Er).
         exact (IH _ _ _ _ _ _ _ _ D Hk He Hwf Hsafe Hfin Hsent HK Huse2). }
    destruct D as [P PB].
    assert (Huse1 : forall ivo ct, f_body f' = Ct ivo ct -> K ct).
    { intros ivo ct Hb. eapply Huse; [left; reflexivity|exact Hb]. }
    destruct (accepted_is_next _ _ _ _ _ _ _ _ _ _ _ _ P Hk He Hwf Hsafe Hsent HK Huse1 Er)
      as [d [fl [A1 [f [tr1 [fs1 [-> [-> [Hs [Hrest [Hflok ->]]]]]]]]]]].
    assert (Hfl : fl <= FlagMaxRecvWE) by (destruct Hflok as [-> | ->]; vm_compute; discriminate).
    destruct (send_recv_frame _ _ _ _ _ _ (conj P PB) Hfl Hs) as [B2 [Hr2 D2]].
    rewrite Hr2 in Er. injection Er as <- <- <-.
    destruct (wf_send_step _ _ _ _ _ _ Hk He Hwf Hs) as [Hwf1 [Hk1 [He1 [Hiv1 [Hc1 [Hlt Hf]]]]]].
    destruct (recv_frames_all B2 r') as [B3 l] eqn:Erest. cbn [snd].
    constructor.
    assert (HK1 : known_ok k (enc_iv A1) (enc_ctr A1) fs1 o K).
    { rewrite Hiv1, Hc1. eapply known_ok_step; [exact Hf|exact HK]. }
    assert (Hsafe1 : reflect_safe A1 B2 o).
    { eapply reflect_safe_step; [exact Hsafe|exact Hiv1|].
      destruct D2 as [[_ _ Pc2 _ _ _ _ _] _]. rewrite <- Pc2, Hc1. lia. }
    assert (Hfin2 : fin_recv_aad B2 = true).
    { destruct D2 as [[_ _ _ _ _ Pf2 _ _] _]. rewrite <- Pf2.
      destruct P as [_ _ _ _ _ Pf _ _]. 
      (* the sender's first-frame flag never goes back *)
      unfold send_frame in Hs. destruct (MaxMessageSize <? lenN d); [discriminate|].
      rewrite Hk, He in Hs. destruct (enc_ctr A =? CounterGuard); [discriminate|].
      cbv zeta in Hs. injection Hs as <- _. proj_simpl. reflexivity. }
    specialize (IH _ _ _ _ _ _ _ _ D2 Hk1 He1 Hwf1 Hsafe1 Hfin2 Hrest HK1 Huse2). rewrite Erest in IH. exact IH.
Qed.

(* ---- before the first accepted frame: a rejected frame may "poison" the receiver ----------- *)
(* A rejected would-be first frame of 32 bytes or more leaves the first-frame flag set while the
   counter is still 0.  From then on the receiver takes the IV from every frame it is shown and
   checks it against header-only associated data - and the header covers the length of a body
   that now includes the 16 IV bytes, which no ciphertext sealed by a cedar sender under
   header-only data has.  Such a receiver therefore rejects everything for ever. *)
Local Transparent hdr_of.
Lemma hdr_of_len_inj fl len fl' len' :
  len < 4294967296 -> len' < 4294967296 -> hdr_of fl len = hdr_of fl' len' -> len = len'.
Proof.
  intros H1 H2 E. unfold hdr_of in E. apply (f_equal (@tl byte)) in E.
  change (be_enc 4 len = be_enc 4 len') in E.
  apply (f_equal be_dec) in E. rewrite !be_dec_enc in E.
  change (2 ^ (8 * N.of_nat 4)) with 4294967296 in E. rewrite !N.mod_small in E by assumption. exact E.
Qed.
Local Opaque hdr_of.

(* a ciphertext sealed by a cedar sender under header-only associated data is the body of a frame
   whose header announces exactly plaintext + tag bytes *)
Definition hdr_shaped (c : ctext) : Prop :=
  match c with
  | Seal _ _ a p => forall h, a = AadHdr h -> exists fl, h = hdr_of fl (lenN p + GcmTagSize) /\ lenN p <= MaxMessageSize
  end.

Definition poisoned (B : stream) : Prop := dec_ctr B = 0 /\ fin_recv_aad B = true.

Lemma fail_decrypt_poisoned B n : poisoned B -> poisoned (fail_decrypt B n) /\ key (fail_decrypt B n) = key B /\
                                               encrypted (fail_decrypt B n) = encrypted B.
Proof.
  intros [H0 Hf]. unfold fail_decrypt, poisoned.
  destruct ((if dec_ctr B =? 0 then IvLenRecv + MinTagLen else MinTagLen) <=? n); proj_simpl; repeat split; assumption.
Qed.

Lemma max_msg_small : MaxMessageSize + GcmTagSize + GcmTagSize < 4294967296.
Proof. vm_compute. reflexivity. Qed.

Ltac fdp :=
  let E := fresh "E" in
  intro E; inversion E; subst;
  match goal with
  | HP : poisoned ?b |- poisoned (fail_decrypt ?b ?n) /\ _ =>
      let X := fresh "X" in
      destruct (fail_decrypt_poisoned b n HP) as [[X1 X2] [X3 X4]];
      repeat split; [exact X1|exact X2|congruence|exact X4]
  end.

Lemma poisoned_rejects B k f' :
  enc_active B = true -> key B = Some k -> poisoned B ->
  (forall ivo ct, f_body f' = Ct ivo ct -> hdr_shaped ct) ->
  exists B1 e, recv_frame_we B f' = (B1, SErr e) /\ poisoned B1 /\ key B1 = Some k /\ encrypted B1 = encrypted B.
Proof.
  intros Hact Hk HP Hshape. pose proof HP as [H0 Hf].
  destruct (recv_frame_we B f') as [B1 [[d' fl']|e]] eqn:Er.
  - exfalso.
    destruct (recv_we_enc_inv _ _ _ _ _ _ Hact Hk Er) as [ivo [ct [div [Hb [_ [_ [Hcase Hopen]]]]]]].
    destruct Hcase as [[_ [-> Hl]]|[Hne _]]; [|contradiction].
    unfold aad_recv in Hopen. rewrite Hf in Hopen.
    apply open_only_seal in Hopen.
    pose proof (Hshape _ _ Hb) as Hs. rewrite Hopen in Hs. cbn [hdr_shaped seal] in Hs.
    destruct (Hs _ eq_refl) as [fl [Eh Hmax]].
    rewrite Hb, Hopen in Eh. rewrite (body_len_ct true) in Eh.
    pose proof max_msg_small. pose proof tag_pos.
    apply hdr_of_len_inj in Eh; lia.
  - exists B1, e. split; [reflexivity|].
    (* which failure it was: either nothing changed, or fail_decrypt was applied *)
    revert Er. unfold recv_frame_we, recv_frame_gen.
    destruct (max_wire B <? body_len (f_body f')); [intro E; inversion E; subst; repeat split; assumption|].
    destruct (FlagMaxRecvWE <? f_flag f'); [intro E; inversion E; subst; repeat split; assumption|].
    destruct (body_len (f_body f') =? 0).
    { rewrite Hact. intro E; inversion E; subst; repeat split; assumption. }
    unfold recv_body. rewrite Hact. rewrite Hk. unfold decrypt. cbv zeta.
    assert (Hw : forall div c,
      match decrypt_with B k (hdr_of (f_flag f') (body_len (f_body f'))) div c (body_len (f_body f')) with
      | (s1, SOk d) => (note_recv s1 (hdr_of (f_flag f') (body_len (f_body f')) ++ d), SOk (d, f_flag f'))
      | (s1, SErr e0) => (s1, SErr e0)
      end = (B1, SErr e) -> poisoned B1 /\ key B1 = Some k /\ encrypted B1 = encrypted B).
    { intros div c. unfold decrypt_with.
      destruct (open k (nonce_of div (dec_ctr B)) (aad_recv B (hdr_of (f_flag f') (body_len (f_body f')))) c);
        [discriminate|]. fdp. }
    destruct (f_body f') as [bs|ivo c];
      [fdp|].
    destruct (dec_ctr B =? 0); destruct ivo as [iv|];
      try fdp.
    + destruct (lenN iv =? 16); [apply Hw|fdp].
    + apply Hw.
Qed.

(* a poisoned receiver accepts nothing, however long the application reads on *)
Lemma poisoned_accepts_nothing fs' : forall B k,
  enc_active B = true -> key B = Some k -> poisoned B ->
  (forall f' ivo ct, In f' fs' -> f_body f' = Ct ivo ct -> hdr_shaped ct) ->
  snd (recv_frames_all B fs') = [].
Proof.
  induction fs' as [|f' r' IH]; intros B k Hact Hk HP Hshape; [reflexivity|].
  cbn [recv_frames_all].
  destruct (poisoned_rejects B k f' Hact Hk HP (fun ivo ct => Hshape f' ivo ct (or_introl eq_refl)))
    as [B1 [e [Er [HP1 [Hk1 He1]]]]].
  rewrite Er. apply (IH B1 k).
  - unfold enc_active in *. rewrite Hk1, He1. rewrite Hk in Hact. exact Hact.
  - exact Hk1.
  - exact HP1.
  - intros g ivo ct Hin. apply Hshape. right. exact Hin.
Qed.

(* the frames a cedar sender emits are of that shape *)
Lemma send_frame_shaped s d fl s' f ivo ct :
  send_frame s d fl = (s', SOk f) -> wf_send s -> f_body f = Ct ivo ct -> hdr_shaped ct.
Proof.
  intros Hs [Hwf Hle] Hb.
  destruct (key s) as [k|] eqn:Hk.
  2: { unfold send_frame in Hs. destruct (MaxMessageSize <? lenN d); [discriminate|]. rewrite Hk in Hs.
       inversion Hs; subst. cbn [f_body] in Hb. discriminate. }
  destruct (encrypted s) eqn:He.
  2: { unfold send_frame in Hs. destruct (MaxMessageSize <? lenN d); [discriminate|]. rewrite Hk, He in Hs.
       inversion Hs; subst. cbn [f_body] in Hb. discriminate. }
  pose proof (send_frame_ok_len _ _ _ _ _ Hs) as Hmax.
  destruct (send_frame_enc _ _ _ _ _ _ Hk He Hle Hs) as [_ [_ [_ [_ [_ [_ Hbody]]]]]].
  rewrite Hbody in Hb. injection Hb as _ <-. cbn [hdr_shaped seal].
  intros h Ha. unfold aad_send in Ha.
  destruct (fin_send_aad s) eqn:Ef; [|discriminate].
  injection Ha as <-.
  assert (Hc : enc_ctr s =? 0 = false).
  { apply N.eqb_neq. intro E0. apply Hwf in E0. congruence. }
  rewrite Hc. exists fl. rewrite N.add_0_r. split; [reflexivity|exact Hmax].
Qed.

(* every way a frame can be rejected: the receiver is untouched, or fail_decrypt was applied *)
Lemma recv_we_fail_cases B f B1 e :
  recv_frame_we B f = (B1, SErr e) -> B1 = B \/ exists n, B1 = fail_decrypt B n.
Proof.
  unfold recv_frame_we, recv_frame_gen.
  destruct (max_wire B <? body_len (f_body f)); [intro E; inversion E; left; reflexivity|].
  destruct (FlagMaxRecvWE <? f_flag f); [intro E; inversion E; left; reflexivity|].
  destruct (body_len (f_body f) =? 0).
  - destruct (enc_active B); intro E; inversion E; left; reflexivity.
  - unfold recv_body. destruct (enc_active B).
    + destruct (key B) as [k|]; [|intro E; inversion E; left; reflexivity].
      unfold decrypt. cbv zeta.
      assert (Hw : forall div c,
        match decrypt_with B k (hdr_of (f_flag f) (body_len (f_body f))) div c (body_len (f_body f)) with
        | (s1, SOk d) => (note_recv s1 (hdr_of (f_flag f) (body_len (f_body f)) ++ d), SOk (d, f_flag f))
        | (s1, SErr e0) => (s1, SErr e0)
        end = (B1, SErr e) -> B1 = B \/ exists n, B1 = fail_decrypt B n).
      { intros div c. unfold decrypt_with.
        destruct (open k (nonce_of div (dec_ctr B)) (aad_recv B (hdr_of (f_flag f) (body_len (f_body f)))) c);
          [discriminate|]. intro E; inversion E. right. eexists. reflexivity. }
      destruct (f_body f) as [bs|ivo c]; [intro E; inversion E; right; eexists; reflexivity|].
      destruct (dec_ctr B =? 0); destruct ivo as [iv|];
        try (intro E; inversion E; right; eexists; reflexivity).
      * destruct (lenN iv =? 16); [apply Hw|intro E; inversion E; right; eexists; reflexivity].
      * apply Hw.
    + destruct (f_body f); intro E; inversion E; left; reflexivity.
Qed.

Lemma fail_decrypt_cases B n : fail_decrypt B n = B \/
  (fin_recv_aad (fail_decrypt B n) = true /\ dec_ctr (fail_decrypt B n) = dec_ctr B /\
   key (fail_decrypt B n) = key B /\ encrypted (fail_decrypt B n) = encrypted B).
Proof.
  unfold fail_decrypt.
  destruct ((if dec_ctr B =? 0 then IvLenRecv + MinTagLen else MinTagLen) <=? n); [right|left; reflexivity].
  proj_simpl. repeat split.
Qed.

(* the unconditional statement: from ANY point of a session, fresh or established, and however
   the application reads on after errors, what is accepted is a prefix of what was sent *)
Lemma prefix_frames_all fs' : forall A B k o K tr fs A',
  duplex A B -> key A = Some k -> encrypted A = true -> wf_send A -> reflect_safe A B o ->
  sent A tr fs A' -> known_ok k (enc_iv A) (enc_ctr A) fs o K -> uses_only K fs' ->
  (forall f' ivo ct, In f' fs' -> f_body f' = Ct ivo ct -> hdr_shaped ct) ->
  prefix (snd (recv_frames_all B fs')) tr.
Proof.
  induction fs' as [|f' r' IH]; intros A B k o K tr fs A' D Hk He Hwf Hsafe Hsent HK Huse Hshape.
  - constructor.
  - assert (Huse2 : uses_only K r').
    { intros g ivo ct Hin Hb. eapply Huse; [right; exact Hin|exact Hb]. }
    assert (Hshape2 : forall f' ivo ct, In f' r' -> f_body f' = Ct ivo ct -> hdr_shaped ct).
    { intros g ivo ct Hin. apply Hshape. right. exact Hin. }
    cbn [recv_frames_all]. destruct (recv_frame_we B f') as [B1 [[d' fl']|e]] eqn:Er.
    2: { destruct (recv_we_fail_cases _ _ _ _ Er) as [->|[n ->]];
           [exact (IH _ _ _ _ _ _ _ _ D Hk He Hwf Hsafe Hsent HK Huse2 Hshape2)|].
         destruct (fail_decrypt_cases B n) as [->|[Hfin [Hc [Hkk Hee]]]];
           [exact (IH _ _ _ _ _ _ _ _ D Hk He Hwf Hsafe Hsent HK Huse2 Hshape2)|].
         destruct D as [P PB]. pose proof P as [Pk Pe Pc Piv Pivl Pf Psd Prd].
         destruct (N.eq_dec (dec_ctr B) 0) as [E0|Ne0].
         - (* the receiver was still waiting for its first frame: it is poisoned now *)
           rewrite (poisoned_accepts_nothing r' (fail_decrypt B n) k); [constructor| | | |exact Hshape2].
           + unfold enc_active. rewrite Hkk, Hee, <- Pk, <- Pe, Hk, He. reflexivity.
           + rewrite Hkk, <- Pk. exact Hk.
           + split; [rewrite Hc; exact E0|exact Hfin].
         - (* an established receiver: nothing changed *)
           assert (Hf : fin_recv_aad B = true).
           { rewrite <- Pf. destruct Hwf as [Hwf0 _]. destruct (fin_send_aad A) eqn:Efa; [reflexivity|].
             exfalso. apply Ne0. rewrite <- Pc. apply Hwf0. reflexivity. }
           rewrite (fail_decrypt_id _ _ Hf).
           exact (IH _ _ _ _ _ _ _ _ (conj P PB) Hk He Hwf Hsafe Hsent HK Huse2 Hshape2). }
    destruct D as [P PB].
    assert (Huse1 : forall ivo ct, f_body f' = Ct ivo ct -> K ct).
    { intros ivo ct Hb. eapply Huse; [left; reflexivity|exact Hb]. }
    destruct (accepted_is_next _ _ _ _ _ _ _ _ _ _ _ _ P Hk He Hwf Hsafe Hsent HK Huse1 Er)
      as [d [fl [A1 [f [tr1 [fs1 [-> [-> [Hs [Hrest [Hflok ->]]]]]]]]]]].
    assert (Hfl : fl <= FlagMaxRecvWE) by (destruct Hflok as [-> | ->]; vm_compute; discriminate).
    destruct (send_recv_frame _ _ _ _ _ _ (conj P PB) Hfl Hs) as [B2 [Hr2 D2]].
    rewrite Hr2 in Er. injection Er as <- <- <-.
    destruct (wf_send_step _ _ _ _ _ _ Hk He Hwf Hs) as [Hwf1 [Hk1 [He1 [Hiv1 [Hc1 [Hlt Hf]]]]]].
    destruct (recv_frames_all B2 r') as [B3 l] eqn:Erest. cbn [snd].
    constructor.
    assert (HK1 : known_ok k (enc_iv A1) (enc_ctr A1) fs1 o K).
    { rewrite Hiv1, Hc1. eapply known_ok_step; [exact Hf|exact HK]. }
    assert (Hsafe1 : reflect_safe A1 B2 o).
    { eapply reflect_safe_step; [exact Hsafe|exact Hiv1|].
      destruct D2 as [[_ _ Pc2 _ _ _ _ _] _]. rewrite <- Pc2, Hc1. lia. }
    specialize (IH _ _ _ _ _ _ _ _ D2 Hk1 He1 Hwf1 Hsafe1 Hrest HK1 Huse2 Hshape2). rewrite Erest in IH. exact IH.
Qed.
