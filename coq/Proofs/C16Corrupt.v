(* Proofs/C16Corrupt.v — every same-length corruption of the secret (including one that
   introduces '#' or ']') either makes the import fail or yields a different key. *)
From Coq Require Import List NArith ZArith Lia Bool.
From Cedar Require Import Lib.Bytes Lib.SymC16 Model.ClaimId Proofs.C16Str Proofs.C16Main.
Import ListNotations.

Lemma contains_split c s :
  contains c s = true -> exists a b, s = a ++ c :: b /\ contains c b = false.
Proof.
  induction s as [|x s IH]; simpl; intro H; [discriminate|].
  destruct (contains c s) eqn:E.
  - destruct (IH eq_refl) as (a & b & -> & Hb). exists (x :: a), b. split; [reflexivity|exact Hb].
  - rewrite orb_false_r in H. apply byte_eqb_eq in H. subst x. exists [], s. split; [reflexivity|exact E].
Qed.

Lemma last_index_lt c s i : last_index c s = Some i -> i < length s.
Proof.
  revert i. induction s as [|x s IH]; simpl; intros i H; [discriminate|].
  destruct (last_index c s) as [j|].
  - inversion H; subst. specialize (IH j eq_refl). lia.
  - destruct (byte_eqb x c); inversion H; subst. lia.
Qed.

Lemma last_index_app_none c x y :
  contains c y = false -> last_index c (x ++ y) = last_index c x.
Proof.
  intro H. induction x as [|b x IH]; simpl.
  - apply last_index_none. exact H.
  - rewrite IH. reflexivity.
Qed.

(* the key ParseClaimIDStrict extracts from  P ++ s'  (P = sid#[body]) is a suffix of s' *)
Lemma key_is_suffix sid body s' :
  contains ch_hash body = false ->
  exists pre, s' = pre ++ c_key (parse_strict ((sid ++ ch_hash :: ch_lbr :: body ++ [ch_rbr]) ++ s')).
Proof.
  intro Hb. set (P := sid ++ ch_hash :: ch_lbr :: body ++ [ch_rbr]).
  destruct (contains ch_hash s') eqn:Eh.
  - (* a '#' inside s' *)
    destruct (contains_split _ _ Eh) as (a & b & -> & Hbn).
    unfold parse_strict.
    replace (P ++ a ++ ch_hash :: b) with ((P ++ a) ++ ch_hash :: b) by (rewrite <- app_assoc; reflexivity).
    rewrite (last_index_app _ _ _ Hbn), skipn_S_app.
    destruct (starts_with ch_lbr b) eqn:Es; [|exists (a ++ [ch_hash]); rewrite <- app_assoc; reflexivity].
    destruct (contains ch_rbr b) eqn:Er.
    + destruct (contains_split _ _ Er) as (a2 & b2 & -> & Hb2).
      replace ((P ++ a) ++ ch_hash :: a2 ++ ch_rbr :: b2) with (((P ++ a) ++ ch_hash :: a2) ++ ch_rbr :: b2)
        by (rewrite <- !app_assoc; reflexivity).
      rewrite (last_index_app _ _ _ Hb2).
      assert (Nat.ltb (length (P ++ a)) (length ((P ++ a) ++ ch_hash :: a2)) = true) as ->
        by (apply Nat.ltb_lt; rewrite (app_length (P ++ a)); simpl; lia).
      cbn [c_key]. rewrite skipn_S_app.
      exists (a ++ ch_hash :: a2 ++ [ch_rbr]). rewrite <- !app_assoc. simpl. rewrite <- app_assoc. reflexivity.
    + replace ((P ++ a) ++ ch_hash :: b) with (((P ++ a) ++ [ch_hash]) ++ b) by (rewrite <- !app_assoc; reflexivity).
      rewrite (last_index_app_none _ _ _ Er).
      assert (last_index ch_rbr ((P ++ a) ++ [ch_hash]) = last_index ch_rbr (P ++ a)) as -> by (apply last_index_app_none; reflexivity).
      destruct (last_index ch_rbr (P ++ a)) as [rb|] eqn:El.
      * apply last_index_lt in El.
        assert (Nat.ltb (length (P ++ a)) rb = false) as -> by (apply Nat.ltb_ge; lia).
        exists (a ++ [ch_hash]). rewrite <- app_assoc. reflexivity.
      * exists (a ++ [ch_hash]). rewrite <- app_assoc. reflexivity.
  - (* no '#' in s': the last '#' is the one in front of the info block *)
    unfold parse_strict, P.
    replace ((sid ++ ch_hash :: ch_lbr :: body ++ [ch_rbr]) ++ s')
      with (sid ++ ch_hash :: (ch_lbr :: body ++ [ch_rbr]) ++ s') by (rewrite <- app_assoc; reflexivity).
    assert (Hi : contains ch_hash ((ch_lbr :: body ++ [ch_rbr]) ++ s') = false).
    { rewrite contains_app. simpl. rewrite contains_app, Hb, Eh. reflexivity. }
    rewrite (last_index_app _ _ _ Hi), skipn_S_app.
    assert (starts_with ch_lbr ((ch_lbr :: body ++ [ch_rbr]) ++ s') = true) as -> by reflexivity.
    destruct (contains ch_rbr s') eqn:Er.
    + destruct (contains_split _ _ Er) as (a & b & -> & Hb2).
      replace (sid ++ ch_hash :: (ch_lbr :: body ++ [ch_rbr]) ++ a ++ ch_rbr :: b)
        with ((sid ++ ch_hash :: (ch_lbr :: body ++ [ch_rbr]) ++ a) ++ ch_rbr :: b)
        by (rewrite <- !app_assoc; simpl; rewrite <- !app_assoc; reflexivity).
      rewrite (last_index_app _ _ _ Hb2).
      assert (Nat.ltb (length sid) (length (sid ++ ch_hash :: (ch_lbr :: body ++ [ch_rbr]) ++ a)) = true) as ->
        by (apply Nat.ltb_lt; rewrite app_length; simpl; lia).
      cbn [c_key]. rewrite skipn_S_app. exists (a ++ [ch_rbr]). rewrite <- app_assoc. reflexivity.
    + replace (sid ++ ch_hash :: (ch_lbr :: body ++ [ch_rbr]) ++ s')
        with ((sid ++ ch_hash :: ch_lbr :: body) ++ ch_rbr :: s')
        by (rewrite <- !app_assoc; simpl; rewrite <- !app_assoc; reflexivity).
      rewrite (last_index_app _ _ _ Er).
      assert (Nat.ltb (length sid) (length (sid ++ ch_hash :: ch_lbr :: body)) = true) as ->
        by (apply Nat.ltb_lt; rewrite app_length; simpl; lia).
      cbn [c_key]. rewrite skipn_S_app. exists []. reflexivity.
Qed.

Lemma corrupted_secret o secret now m secret' io :
  mint o secret now = Ok m ->
  length secret' = length secret -> secret' <> secret ->
  exists info, export_info (mint_wire o now) = Ok info
    /\ m_claim m = (m_sid m ++ ch_hash :: info) ++ secret
    /\ match import_claim ((m_sid m ++ ch_hash :: info) ++ secret') io with
       | Ok (_, e', _) => e_key e' <> e_key (m_entry m)
       | _ => True
       end.
Proof.
  intros Hm Hl Hne.
  destruct (mint_inv _ _ _ _ Hm) as (info & e & cmds & He & Hr & Em & _).
  exists info. split; [exact He|]. split; [subst m; simpl; rewrite <- app_assoc; reflexivity|].
  destruct (import_claim _ io) as [[[sid' e'] cmds']| |] eqn:Ei; try exact I.
  eapply other_secret_other_key; [exact Hm|exact Ei|].
  destruct (export_info_shape _ _ He) as [Hshape Hb].
  intro Hk.
  assert (Hs : m_sid m = mint_sid o) by (subst m; reflexivity).
  destruct (key_is_suffix (m_sid m) (info_body (mint_wire o now)) secret' Hb) as (pre & Hpre).
  rewrite Hshape in Hk. rewrite Hk in Hpre.
  assert (pre = []).
  { apply (f_equal (@length byte)) in Hpre. rewrite app_length in Hpre. destruct pre; [reflexivity|simpl in *; lia]. }
  subst pre. simpl in Hpre. contradiction.
Qed.
