(* Proofs/C20.v — lemmas and proofs for property C20 (CCB dial). *)
From Coq Require Import List NArith ZArith Lia Bool Arith.
From Coq Require Import ZifyBool ZifyNat ZifyN.
From Cedar Require Import Lib.Bytes gen.FactsC20 Model.CCB.
Import ListNotations.

(* ====================================================================== *)
(* connect ids                                                             *)
(* ====================================================================== *)

Definition dec_digit (b : byte) : N :=
  let n := b2n b in if (n <? 58)%N then (n - 48)%N else (n - 87)%N.

Lemma dec_hexdigit n : (n < 16)%N -> dec_digit (hexdigit n) = n.
Proof.
  intro H.
  assert (E : In n (map N.of_nat (seq 0 16))).
  { replace n with (N.of_nat (N.to_nat n)) by lia. apply in_map, in_seq. lia. }
  cbn in E. repeat (destruct E as [E|E]; [subst n; reflexivity|]). destruct E.
Qed.

Lemma hex_byte_inj a b : hex_byte a = hex_byte b -> a = b.
Proof.
  unfold hex_byte. intro H. inversion H as [[H1 H2]].
  pose proof (b2n_lt a) as La. pose proof (b2n_lt b) as Lb.
  assert (Ha1 : (b2n a / 16 < 16)%N) by (apply N.div_lt_upper_bound; lia).
  assert (Hb1 : (b2n b / 16 < 16)%N) by (apply N.div_lt_upper_bound; lia).
  assert (Ha2 : (b2n a mod 16 < 16)%N) by (apply N.mod_lt; lia).
  assert (Hb2 : (b2n b mod 16 < 16)%N) by (apply N.mod_lt; lia).
  apply (f_equal dec_digit) in H1. apply (f_equal dec_digit) in H2.
  rewrite !dec_hexdigit in H1, H2 by assumption.
  assert (E : b2n a = b2n b).
  { rewrite (N.div_mod (b2n a) 16), (N.div_mod (b2n b) 16) by lia. rewrite H1, H2. reflexivity. }
  rewrite <- (n2b_b2n a), <- (n2b_b2n b), E. reflexivity.
Qed.

Lemma hex_enc_length r : length (hex_enc r) = 2 * length r.
Proof. induction r as [|x r IH]; simpl; [reflexivity|]. rewrite IH. lia. Qed.

Lemma hex_enc_inj a : forall b, hex_enc a = hex_enc b -> a = b.
Proof.
  induction a as [|x a IH]; intros [|y b] H; try reflexivity.
  - apply (f_equal (@length byte)) in H. rewrite !hex_enc_length in H. simpl in H. lia.
  - apply (f_equal (@length byte)) in H. rewrite !hex_enc_length in H. simpl in H. lia.
  - change (hex_byte x ++ hex_enc a = hex_byte y ++ hex_enc b) in H.
    unfold hex_byte in H. cbn [app] in H. inversion H as [[H1 H2 H3]].
    f_equal.
    + apply hex_byte_inj. unfold hex_byte. rewrite H1, H2. reflexivity.
    + apply IH. exact H3.
Qed.

Lemma connect_id_fresh r1 r2 : r1 <> r2 -> connect_id r1 <> connect_id r2.
Proof. intros H E. apply H. apply hex_enc_inj. exact E. Qed.

Lemma connect_id_length r : N.of_nat (length r) = 20%N -> lenN (connect_id r) = connect_id_hex_len.
Proof.
  intro H. rewrite lenN_spec. unfold connect_id. rewrite hex_enc_length.
  unfold connect_id_hex_len. lia.
Qed.

Lemma connect_id_nonempty r : r <> [] -> connect_id r <> [].
Proof. destruct r; [congruence|]. discriminate. Qed.

(* ====================================================================== *)
(* the matching rule                                                       *)
(* ====================================================================== *)

Lemma hello_matches_presents id g :
  hello_matches id g = true ->
  exists c, g = GHello ccb_reverse_connect c /\ ad_string c = id.
Proof.
  destruct g as [cmd c| | |]; simpl; try discriminate.
  intro H. apply andb_true_iff in H as [H1 H2].
  apply Z.eqb_eq in H1. apply bytes_eqb_eq in H2. subst. eauto.
Qed.

(* with a non-empty id the hello really carried ClaimId = id as a string *)
Lemma hello_matches_exact id g :
  id <> [] -> hello_matches id g = true -> g = GHello ccb_reverse_connect (Some id).
Proof.
  intros Hne H. apply hello_matches_presents in H as (c & -> & E).
  destruct c as [s|]; simpl in E; [subst; reflexivity|]. congruence.
Qed.

Lemma hello_matches_iff id g :
  hello_matches id g = true <-> exists c, g = GHello ccb_reverse_connect c /\ ad_string c = id.
Proof.
  split; [apply hello_matches_presents|].
  intros (c & -> & <-). unfold hello_matches. rewrite Z.eqb_refl. cbn [andb]. apply bytes_eqb_eq. reflexivity.
Qed.

(* one greeting cannot satisfy two different connect ids *)
Lemma hello_matches_one_id id1 id2 g :
  hello_matches id1 g = true -> hello_matches id2 g = true -> id1 = id2.
Proof.
  intros H1 H2. apply hello_matches_presents in H1 as (c1 & E1 & <-).
  apply hello_matches_presents in H2 as (c2 & E2 & <-). congruence.
Qed.

(* ====================================================================== *)
(* acceptReversed                                                          *)
(* ====================================================================== *)

(* the connections among a list of arrivals, in order *)
Fixpoint conns_of (arr : list arrival) : list peer :=
  match arr with
  | [] => []
  | AConn p _ :: r => p :: conns_of r
  | _ :: r => conns_of r
  end.

Lemma conns_of_app a b : conns_of (a ++ b) = conns_of a ++ conns_of b.
Proof. induction a as [|[p g|bl|] a IH]; simpl; rewrite ?IH; reflexivity. Qed.

(* If the accept loop returns a connection, that connection's opening message
   matched, it was not cancelled, everything before it was a non-matching
   connection (or a harmless event) and exactly those connections were closed. *)
Lemma accept_reversed_sound id : forall arr c p cl,
  accept_reversed id c arr = (AccConn p, cl) ->
  exists pre g post,
    arr = pre ++ AConn p g :: post /\
    hello_matches id g = true /\
    cl = conns_of pre /\
    (forall q g', In (AConn q g') pre -> hello_matches id g' = false).
Proof.
  induction arr as [|a arr IH]; intros c p cl H; simpl in H.
  - discriminate.
  - destruct a as [q g|bl|].
    + destruct c; [discriminate|].
      destruct (hello_matches id g) eqn:M.
      * destruct g; try discriminate; inversion H; subst.
        exists [], (GHello cmd claim), arr. repeat split; auto. intros ? ? [].
      * assert (H' : (let '(res, cl0) := accept_reversed id false arr in (res, q :: cl0)) = (AccConn p, cl))
          by (destruct g; try discriminate; exact H).
        destruct (accept_reversed id false arr) as [res cl0] eqn:E.
        inversion H'; subst.
        destruct (IH false p cl0 E) as (pre & g0 & post & -> & Hm & -> & Hall).
        exists (AConn q g :: pre), g0, post. repeat split; auto.
        intros q' g' [Heq|Hin]; [inversion Heq; subst; exact M|eauto].
    + destruct bl; [|discriminate].
      destruct (IH true p cl H) as (pre & g0 & post & -> & Hm & -> & Hall).
      (* after a cancellation nothing is ever returned: pre ++ ... is impossible *)
      exfalso. clear - H.
      revert H. generalize (pre ++ AConn p g0 :: post). intro l.
      induction l as [|a l IHl]; simpl; [discriminate|].
      destruct a as [q g|bl|]; try discriminate. destruct bl; [exact IHl|discriminate].
    + discriminate.
Qed.

(* after the context is done nothing is returned any more *)
Lemma accept_reversed_cancelled id arr p cl : accept_reversed id true arr <> (AccConn p, cl).
Proof.
  induction arr as [|a l IHl]; simpl; [discriminate|].
  destruct a as [q g|bl|]; try discriminate. destruct bl; [exact IHl|discriminate].
Qed.

(* whatever the loop answers, every connection it closed had been accepted *)
Lemma accept_reversed_closed_sub id : forall arr c res cl,
  accept_reversed id c arr = (res, cl) -> incl cl (conns_of arr).
Proof.
  induction arr as [|a arr IH]; intros c res cl H; simpl in H.
  - inversion H. apply incl_refl.
  - destruct a as [q g|bl|]; simpl.
    + destruct c. { inversion H; subst. intros x [<-|[]]. left; reflexivity. }
      assert (D : (g = GStall /\ (res, cl) = (AccErr ECtx, [q])) \/
                  (hello_matches id g = true /\ (res, cl) = (AccConn q, [])) \/
                  (exists r0 c0, accept_reversed id false arr = (r0, c0) /\ (res, cl) = (r0, q :: c0))).
      { destruct g; simpl in H; try (left; split; [reflexivity|congruence]);
        try (destruct (Z.eqb cmd ccb_reverse_connect && bytes_eqb (ad_string claim) id) eqn:M; [right; left; split; [exact M|congruence]|]);
        right; right; destruct (accept_reversed id false arr) as [r0 c0]; exists r0, c0; split; congruence. }
      destruct D as [[_ E]|[[_ E]|(r0 & c0 & E0 & E)]]; inversion E; subst.
      * intros x [<-|[]]. left; reflexivity.
      * intros x [].
      * intros x [<-|Hx]; [left; reflexivity|right; eapply IH; eauto].
    + destruct bl; [eapply IH; eauto|inversion H; intros x []].
    + inversion H; intros x [].
Qed.

(* ====================================================================== *)
(* one standard-mode attempt                                               *)
(* ====================================================================== *)

Definition arrived (p : peer) (g : greeting) (h : list sev) : Prop := In (SArrive p g) h.

(* the state of the accept goroutine says where a connection went *)
Definition acc_holds (a : acc_state) (q : peer) : Prop :=
  match a with
  | AsStalled p => p = q
  | AsDone (AccConn p) => p = q
  | _ => False
  end.

Definition inv (id : bytes) (h : list sev) (a : att) : Prop :=
  match a with
  | Running s =>
      (forall p, as_acc s = AsDone (AccConn p) ->
         exists g, arrived p g h /\ hello_matches id g = true) /\
      (forall q g, arrived q g h -> In q (as_closed s) \/ In q (as_backlog s) \/ acc_holds (as_acc s) q)
  | Finished o =>
      (forall p, o_res o = Returned p -> exists g, arrived p g h /\ hello_matches id g = true) /\
      (forall q g, arrived q g h -> In q (o_closed o) \/ o_res o = Returned q)
  end.

Lemma inv_init id : inv id [] (Running att_init).
Proof. split; [intros p H; discriminate|intros q g []]. Qed.

Lemma arrived_snoc p g h e : arrived p g (h ++ [e]) <-> arrived p g h \/ e = SArrive p g.
Proof.
  unfold arrived. rewrite in_app_iff. simpl. intuition.
Qed.

Ltac inapp := repeat (rewrite in_app_iff in * ); simpl in *.

Lemma inv_finish id h s res :
  inv id h (Running s) ->
  (forall p, res = Returned p -> as_acc s = AsDone (AccConn p)) ->
  inv id h (Finished (finish s res)).
Proof.
  intros [I1 I2] Hres. split.
  - intros p Hp. simpl in Hp. apply I1. apply Hres. exact Hp.
  - intros q g Hq. simpl. destruct (I2 q g Hq) as [H|[H|H]].
    + left. inapp. auto.
    + left. inapp. auto.
    + destruct (as_acc s) as [|p0|[p0|e|]] eqn:E; simpl in H; try contradiction; subst.
      * left. inapp. auto.
      * destruct res as [p1|e1].
        -- right. specialize (Hres p1 eq_refl). inversion Hres. reflexivity.
        -- left. inapp. auto.
Qed.

Lemma inv_step_finished id h o e : inv id h (Finished o) -> inv id (h ++ [e]) (att_step id (Finished o) e).
Proof.
  intros [I1 I2].
  assert (Same : (forall p g, e <> SArrive p g) -> inv id (h ++ [e]) (Finished o)).
  { intro Hne. split.
    - intros p0 Hp0. destruct (I1 p0 Hp0) as (g0 & A & M). exists g0. split; [apply arrived_snoc; auto|exact M].
    - intros q0 g0 Hq0. apply arrived_snoc in Hq0 as [Hq0|Hq0]; [eapply I2; eauto|exfalso; eapply Hne; eauto]. }
  destruct e as [p g| | | |r|]; simpl; try (apply Same; discriminate).
  split; simpl.
  - intros p0 Hp0. destruct (I1 p0 Hp0) as (g0 & A & M). exists g0. split; [apply arrived_snoc; auto|exact M].
  - intros q0 g0 Hq0. apply arrived_snoc in Hq0 as [Hq0|Hq0].
    + destruct (I2 q0 g0 Hq0); [left; inapp; auto|auto].
    + inversion Hq0; subst. left. inapp. auto.
Qed.

Lemma inv_step id h a e : inv id h a -> inv id (h ++ [e]) (att_step id a e).
Proof.
  intro I. destruct a as [s|o].
  2:{ apply inv_step_finished. exact I. }
  pose proof I as [I1 I2].
  assert (Keep : forall s', as_acc s' = as_acc s -> as_closed s' = as_closed s -> as_backlog s' = as_backlog s ->
                  (forall p g, e <> SArrive p g) -> inv id (h ++ [e]) (Running s')).
  { intros s' E1 E2 E3 Hne. split.
    - intros p Hp. rewrite E1 in Hp. destruct (I1 p Hp) as (g & A & M). exists g. split; [apply arrived_snoc; auto|exact M].
    - intros q g Hq. apply arrived_snoc in Hq as [Hq|Hq]; [|exfalso; eapply Hne; eauto].
      rewrite E1, E2, E3. eapply I2; eauto. }
  assert (Fin : forall res, (forall p, res = Returned p -> as_acc s = AsDone (AccConn p)) ->
                 (forall p g, e <> SArrive p g) -> inv id (h ++ [e]) (Finished (finish s res))).
  { intros res Hres Hne. apply inv_finish; [|exact Hres].
    apply (Keep s); auto. }
  destruct e as [p g| | | |r|]; simpl.
  - (* SArrive *)
    destruct (as_acc s) as [|p0|r0] eqn:EA.
    + destruct (as_ctx_done s) eqn:EC.
      * split; simpl.
        -- intros p1 Hp1. discriminate.
        -- intros q g0 Hq. apply arrived_snoc in Hq as [Hq|Hq].
           ++ destruct (I2 q g0 Hq) as [H|[H|H]]; [left; inapp; auto|auto|simpl in H; contradiction].
           ++ inversion Hq; subst. left. inapp. auto.
      * assert (NM : hello_matches id g = false ->
                     inv id (h ++ [SArrive p g]) (Running (mkAtt AsWaiting (as_reply_open s) false (as_closed s ++ [p]) (as_backlog s)))).
        { intro M. split; simpl.
          - intros p1 Hp1. discriminate.
          - intros q g0 Hq. apply arrived_snoc in Hq as [Hq|Hq].
            + destruct (I2 q g0 Hq) as [H|[H|H]]; [left; inapp; auto|auto|simpl in H; contradiction].
            + inversion Hq; subst. left. inapp. auto. }
        destruct (hello_matches id g) eqn:M.
        -- destruct g as [cmd c| | |]; try discriminate. split; simpl.
           ++ intros p1 Hp1. inversion Hp1; subst. exists (GHello cmd c). split; [apply arrived_snoc; auto|exact M].
           ++ intros q g0 Hq. apply arrived_snoc in Hq as [Hq|Hq].
              ** destruct (I2 q g0 Hq) as [H|[H|H]]; [auto|auto|simpl in H; contradiction].
              ** inversion Hq; subst. right; right. reflexivity.
        -- destruct g as [cmd c| | |]; try (apply NM; reflexivity).
           split; simpl.
           ++ intros p1 Hp1. discriminate.
           ++ intros q g0 Hq. apply arrived_snoc in Hq as [Hq|Hq].
              ** destruct (I2 q g0 Hq) as [H|[H|H]]; [auto|auto|simpl in H; contradiction].
              ** inversion Hq; subst. right; right. reflexivity.
    + split; simpl.
      * intros p1 Hp1. discriminate.
      * intros q g0 Hq. apply arrived_snoc in Hq as [Hq|Hq].
        -- destruct (I2 q g0 Hq) as [H|[H|H]]; [auto|right; left; inapp; auto|simpl in H; auto].
        -- inversion Hq; subst. right; left. inapp. auto.
    + split; simpl.
      * intros p1 Hp1. destruct (I1 p1 Hp1) as (g1 & A & M). exists g1. split; [apply arrived_snoc; auto|exact M].
      * intros q g0 Hq. apply arrived_snoc in Hq as [Hq|Hq].
        -- destruct (I2 q g0 Hq) as [H|[H|H]]; [auto|right; left; inapp; auto|simpl in H; auto].
        -- inversion Hq; subst. right; left. inapp. auto.
  - (* SListenErr *)
    destruct (as_acc s) as [|p0|r0] eqn:EA; try (apply (Keep s); auto; discriminate).
    split; simpl.
    + intros p1 Hp1. discriminate.
    + intros q g0 Hq. apply arrived_snoc in Hq as [Hq|Hq]; [|discriminate].
      destruct (I2 q g0 Hq) as [H|[H|H]]; [auto|auto|simpl in H; contradiction].
  - (* SCtxDone *)
    destruct (as_acc s) as [|p0|r0] eqn:EA.
    + apply Keep; simpl; auto; discriminate.
    + split; simpl.
      * intros p1 Hp1. discriminate.
      * intros q g0 Hq. apply arrived_snoc in Hq as [Hq|Hq]; [|discriminate].
        destruct (I2 q g0 Hq) as [H|[H|H]]; [left; inapp; auto|auto|].
        simpl in H. subst. left. inapp. auto.
    + apply Keep; simpl; auto; discriminate.
  - (* SPickAccept *)
    destruct (as_acc s) as [|p0|[p0|[|]|]] eqn:EA;
      try (apply (Keep s); auto; discriminate).
    + apply Fin; [|discriminate]. intros p1 Hp1. inversion Hp1; subst. reflexivity.
    + apply Fin; [|discriminate]. intros p1 Hp1. discriminate.
    + apply Fin; [|discriminate]. intros p1 Hp1. discriminate.
  - (* SPickReply *)
    destruct (as_reply_open s); [|apply (Keep s); auto; discriminate].
    destruct (as_ctx_done s).
    + apply Fin; [|discriminate]. intros p1 Hp1. discriminate.
    + destruct r.
      * apply Keep; simpl; auto; discriminate.
      * apply Fin; [|discriminate]. intros p1 Hp1. discriminate.
      * apply Fin; [|discriminate]. intros p1 Hp1. discriminate.
  - (* SPickDone *)
    destruct (as_ctx_done s); [|apply (Keep s); auto; discriminate].
    apply Fin; [|discriminate]. intros p1 Hp1. discriminate.
Qed.

Lemma inv_run id : forall sched h a,
  inv id h a -> inv id (h ++ sched) (run_attempt_from id a sched).
Proof.
  induction sched as [|e sched IH]; intros h a I; simpl.
  - rewrite app_nil_r. exact I.
  - replace (h ++ e :: sched) with ((h ++ [e]) ++ sched) by (rewrite <- app_assoc; reflexivity).
    apply IH. apply inv_step. exact I.
Qed.

Lemma inv_run_attempt id sched : inv id sched (run_attempt id sched).
Proof. apply (inv_run id sched [] (Running att_init)). apply inv_init. Qed.

(* the arrivals of a schedule, in order *)
Fixpoint arrivals (s : list sev) : list (peer * greeting) :=
  match s with
  | [] => []
  | SArrive p g :: r => (p, g) :: arrivals r
  | _ :: r => arrivals r
  end.

Lemma in_arrivals p g s : In (p, g) (arrivals s) <-> In (SArrive p g) s.
Proof.
  induction s as [|e s IH]; simpl; [tauto|].
  destruct e as [q g'| | | |r|]; simpl; rewrite IH; split; intro H;
    try (destruct H as [H|H]; [discriminate|exact H]); try (right; exact H).
  - destruct H as [H|H]; [inversion H; subst; left; reflexivity|right; exact H].
  - destruct H as [H|H]; [inversion H; subst; left; reflexivity|right; exact H].
Qed.

(* C20_only_matching, standard mode *)
Lemma attempt_only_matching id sched o :
  run_attempt id sched = Finished o ->
  (forall p, o_res o = Returned p ->
     exists g, In (SArrive p g) sched /\ hello_matches id g = true) /\
  (forall q g, In (SArrive q g) sched -> In q (o_closed o) \/ o_res o = Returned q).
Proof.
  intro H. pose proof (inv_run_attempt id sched) as I. rewrite H in I. exact I.
Qed.

Lemma NoDup_fst_inj {A B} (l : list (A * B)) a b1 b2 :
  NoDup (map fst l) -> In (a, b1) l -> In (a, b2) l -> b1 = b2.
Proof.
  induction l as [|[x y] l IH]; simpl; intros ND H1 H2; [contradiction|].
  inversion ND as [|? ? Hn ND']; subst.
  destruct H1 as [H1|H1], H2 as [H2|H2].
  - congruence.
  - inversion H1; subst. exfalso. apply Hn. apply (in_map fst) in H2. exact H2.
  - inversion H2; subst. exfalso. apply Hn. apply (in_map fst) in H1. exact H1.
  - eauto.
Qed.

(* with distinct connection labels: a connection whose greeting does not match
   is closed and is not the one returned *)
Lemma attempt_nonmatching_closed id sched o q g :
  run_attempt id sched = Finished o ->
  NoDup (map fst (arrivals sched)) ->
  In (SArrive q g) sched -> hello_matches id g = false ->
  In q (o_closed o) /\ o_res o <> Returned q.
Proof.
  intros H ND Hin M. destruct (attempt_only_matching id sched o H) as [A B].
  assert (NR : o_res o <> Returned q).
  { intro R. destruct (A q R) as (g' & Hin' & M').
    assert (g = g') by (eapply NoDup_fst_inj; [exact ND| |]; apply in_arrivals; eassumption).
    subst. congruence. }
  split; [|exact NR]. destruct (B q g Hin); [assumption|contradiction].
Qed.

(* ---- stability of a finished attempt --------------------------------------- *)

Lemma finished_stable id sched : forall o,
  exists o', run_attempt_from id (Finished o) sched = Finished o' /\ o_res o' = o_res o.
Proof.
  induction sched as [|e sched IH]; intro o; simpl.
  - eauto.
  - destruct e; simpl; try apply IH.
    destruct (IH (mkOut (o_res o) (o_closed o ++ [p]))) as (o' & E & R). eauto.
Qed.

Lemma run_attempt_app id s1 s2 :
  run_attempt id (s1 ++ s2) = run_attempt_from id (run_attempt id s1) s2.
Proof. unfold run_attempt, run_attempt_from. apply fold_left_app. Qed.

(* C20_broker_failure: a failure reply taken while the attempt is still waiting
   (reply channel still selected on, context not done) ends it with that error,
   whatever arrives afterwards *)
Lemma attempt_broker_failure id s1 m s2 st :
  run_attempt id s1 = Running st ->
  as_reply_open st = true -> as_ctx_done st = false ->
  exists o, run_attempt id (s1 ++ SPickReply (RFail m) :: s2) = Finished o /\
            o_res o = Failed (AeBroker m).
Proof.
  intros H RO CD. rewrite run_attempt_app, H. simpl. rewrite RO, CD.
  destruct (finished_stable id s2 (finish st (Failed (AeBroker m)))) as (o' & E & R).
  exists o'. split; [exact E|]. rewrite R. reflexivity.
Qed.

(* events that cannot end the wait nor consume the reply: non-matching
   arrivals and (disabled) accept picks *)
Definition quiet_ev (id : bytes) (e : sev) : bool :=
  match e with
  | SArrive _ g => negb (hello_matches id g)
  | SPickAccept => true
  | _ => false
  end.

Definition waiting (s : att_state) : Prop :=
  (as_acc s = AsWaiting \/ exists p, as_acc s = AsStalled p) /\
  as_reply_open s = true /\ as_ctx_done s = false.

Lemma quiet_keeps_waiting id : forall s1 st,
  waiting st -> forallb (quiet_ev id) s1 = true ->
  exists st', run_attempt_from id (Running st) s1 = Running st' /\ waiting st'.
Proof.
  induction s1 as [|e s1 IH]; intros st W Q; simpl.
  - eauto.
  - simpl in Q. apply andb_true_iff in Q as [Qe Q].
    destruct W as (WA & WR & WC).
    destruct e as [p g| | | |r|]; simpl in Qe; try discriminate.
    + apply negb_true_iff in Qe. simpl.
      destruct WA as [WA|[p0 WA]]; rewrite WA.
      * rewrite WC. destruct g as [cmd c| | |]; simpl in Qe |- *; rewrite ?Qe;
          apply IH; auto; (split; [simpl; eauto|split; simpl; auto]).
      * apply IH; auto. split; [simpl; eauto|split; simpl; auto].
    + simpl. destruct WA as [WA|[p0 WA]]; rewrite WA; apply IH; auto; (split; [eauto|auto]).
Qed.

Lemma attempt_broker_failure_before_match id s1 m s2 :
  forallb (quiet_ev id) s1 = true ->
  exists o, run_attempt id (s1 ++ SPickReply (RFail m) :: s2) = Finished o /\
            o_res o = Failed (AeBroker m).
Proof.
  intro Q.
  destruct (quiet_keeps_waiting id s1 att_init) as (st & E & (WA & WR & WC)); auto.
  { split; [left; reflexivity|split; reflexivity]. }
  eapply attempt_broker_failure; eauto.
Qed.

(* ====================================================================== *)
(* proxied mode                                                            *)
(* ====================================================================== *)

Lemma proxy_request_sound id rep hello :
  proxy_request id rep hello = None -> (exists echo, rep = PrOk echo) /\ hello_matches id hello = true.
Proof.
  destruct rep; simpl; try discriminate.
  destruct hello as [cmd c| | |]; simpl; try discriminate.
  destruct (Z.eqb cmd ccb_reverse_connect); simpl; [|discriminate].
  destruct (bytes_eqb (ad_string c) id); [eauto|discriminate].
Qed.

(* whatever the success reply carries besides Result (in particular a ClaimId)
   has no influence on which hello is accepted *)
Lemma proxy_reply_extras_ignored id b e1 e2 hello :
  proxy_attempt id b (PrOk e1) hello = proxy_attempt id b (PrOk e2) hello.
Proof. reflexivity. Qed.

Lemma proxy_echoed_id_rejected id b echoed cmd :
  echoed <> id ->
  proxy_attempt id b (PrOk (Some echoed)) (GHello cmd (Some echoed)) =
  mkOut (Failed (if Z.eqb cmd ccb_reverse_connect then AeProxyMismatch else AeProxyHello)) [b].
Proof.
  intro H. unfold proxy_attempt, proxy_request. destruct (Z.eqb cmd ccb_reverse_connect); [|reflexivity].
  cbn [ad_string]. destruct (bytes_eqb echoed id) eqn:E; [|reflexivity].
  apply bytes_eqb_eq in E. contradiction.
Qed.

(* proxied mode: the first message after the reply decides, whatever follows *)
Lemma proxy_first_hello_decides id b rep g rest :
  proxy_attempt_stream id b rep (g :: rest) = proxy_attempt id b rep g.
Proof. reflexivity. Qed.

Lemma proxy_wrong_first_hello_refused id b rep g rest :
  hello_matches id g = false ->
  exists e, proxy_attempt_stream id b rep (g :: rest) = mkOut (Failed e) [b].
Proof.
  intro M. cbn [proxy_attempt_stream]. unfold proxy_attempt.
  destruct (proxy_request id rep g) as [e|] eqn:E; [eauto|].
  apply proxy_request_sound in E as [_ E]. congruence.
Qed.

Lemma proxy_attempt_only_matching id b rep hello p :
  o_res (proxy_attempt id b rep hello) = Returned p ->
  p = b /\ (exists echo, rep = PrOk echo) /\ hello_matches id hello = true /\ o_closed (proxy_attempt id b rep hello) = [].
Proof.
  unfold proxy_attempt. destruct (proxy_request id rep hello) eqn:E; simpl; [discriminate|].
  intro H. inversion H; subst. apply proxy_request_sound in E as [E1 E2]. auto.
Qed.

Lemma proxy_attempt_failure_closes id b rep hello e :
  o_res (proxy_attempt id b rep hello) = Failed e -> o_closed (proxy_attempt id b rep hello) = [b].
Proof.
  unfold proxy_attempt. destruct (proxy_request id rep hello); simpl; [reflexivity|discriminate].
Qed.

Lemma proxy_broker_failure id b m hello :
  proxy_attempt id b (PrFail m) hello = mkOut (Failed (AeProxyRefused m)) [b].
Proof. reflexivity. Qed.

(* ====================================================================== *)
(* Dial: several brokers, one winner                                       *)
(* ====================================================================== *)

Definition dinv (results : list (option outcome)) (d : dial) : Prop :=
  match d with
  | DRunning s => d_next s <= length results /\ (forall i, In i (d_reported s) -> i < d_next s)
  | DDone r launched reported =>
      launched <= length results /\
      (forall i, In i reported -> i < launched) /\
      match r with
      | DReturned i p =>
          In i reported /\
          exists o, nth_error results i = Some (Some o) /\ o_res o = Returned p
      | _ => True
      end
  end.

Lemma mem_nat_true i l : mem_nat i l = true <-> In i l.
Proof.
  unfold mem_nat. rewrite existsb_exists. split.
  - intros (x & Hx & E). apply Nat.eqb_eq in E. subst. exact Hx.
  - intro H. exists i. split; [exact H|apply Nat.eqb_refl].
Qed.

Lemma dinv_step seqm results d e : dinv results d -> dinv results (dial_step seqm results d e).
Proof.
  intro I. destruct d as [s|r l rep]; [|exact I].
  destruct I as [I1 I2].
  destruct e as [i| |]; simpl.
  - destruct (Nat.ltb i (d_next s) && negb (mem_nat i (d_reported s))) eqn:G; [|split; assumption].
    apply andb_true_iff in G as [G1 G2]. apply Nat.ltb_lt in G1.
    destruct (nth_error results i) as [[o|]|] eqn:N; try (split; assumption).
    destruct (o_res o) as [p|err] eqn:R.
    + simpl. split; [exact I1|]. split.
      * intros j [<-|Hj]; [exact G1|auto].
      * split; [left; reflexivity|]. exists o. auto.
    + destruct (Nat.ltb (d_next s) (length results)) eqn:L.
      * apply Nat.ltb_lt in L. simpl. split; [lia|].
        intros j [<-|Hj]; [lia|]. specialize (I2 j Hj). lia.
      * match goal with |- dinv _ (if ?c then _ else _) => destruct c end.
        -- simpl. split; [exact I1|]. split; [|exact I].
           intros j [<-|Hj]; [exact G1|auto].
        -- simpl. split; [exact I1|]. intros j [<-|Hj]; [exact G1|auto].
  - destruct (negb seqm && Nat.ltb (d_next s) (length results)) eqn:G; [|split; assumption].
    apply andb_true_iff in G as [_ G]. apply Nat.ltb_lt in G. simpl. split; [lia|].
    intros j Hj. specialize (I2 j Hj). lia.
  - simpl. split; [exact I1|]. split; [exact I2|exact I].
Qed.

Lemma dinv_run seqm results : forall sched d,
  dinv results d -> dinv results (fold_left (dial_step seqm results) sched d).
Proof.
  induction sched as [|e sched IH]; intros d I; simpl; [exact I|].
  apply IH. apply dinv_step. exact I.
Qed.

Lemma dinv_run_dial seqm results sched : dinv results (run_dial seqm results sched).
Proof.
  unfold run_dial. destruct results as [|r results].
  - simpl. split; [lia|]. split; [intros i []|exact I].
  - apply dinv_run. simpl. split; [lia|intros i []].
Qed.

(* the connection Dial returns is the connection returned by one launched attempt *)
Lemma dial_winner seqm results sched i p launched reported :
  run_dial seqm results sched = DDone (DReturned i p) launched reported ->
  i < launched /\ launched <= length results /\
  exists o, nth_error results i = Some (Some o) /\ o_res o = Returned p.
Proof.
  intro H. pose proof (dinv_run_dial seqm results sched) as I. rewrite H in I.
  destruct I as (I1 & I2 & I3 & I4). split; [apply I2; exact I3|]. split; assumption.
Qed.

Lemma losers_from_spec : forall results k launched reported q,
  In q (losers_from k launched reported results) <->
  exists j o, nth_error results j = Some (Some o) /\ o_res o = Returned q /\
              k + j < launched /\ ~ In (k + j) reported.
Proof.
  induction results as [|r results IH]; intros k launched reported q; simpl.
  - split; [intros []|intros (j & o & N & _)]. destruct j; discriminate.
  - split.
    + intro H.
      destruct (Nat.ltb k launched && negb (mem_nat k reported)) eqn:G.
      * apply andb_true_iff in G as [G1 G2]. apply Nat.ltb_lt in G1.
        apply negb_true_iff in G2.
        assert (NR : ~ In k reported) by (intro X; apply mem_nat_true in X; congruence).
        assert (Tl : In q (losers_from (S k) launched reported results) ->
                     exists j o, nth_error (r :: results) j = Some (Some o) /\ o_res o = Returned q /\
                                 k + j < launched /\ ~ In (k + j) reported).
        { intro T. apply IH in T as (j & o & N & R & L & NI). exists (S j), o. simpl.
          replace (k + S j) with (S k + j) by lia. auto. }
        destruct r as [o|]; [|auto].
        destruct (o_res o) as [p|e] eqn:R; [|auto].
        destruct H as [<-|H]; [|auto].
        exists 0, o. simpl. rewrite Nat.add_0_r. auto.
      * apply IH in H as (j & o & N & R & L & NI). exists (S j), o. simpl.
        replace (k + S j) with (S k + j) by lia. auto.
    + intros (j & o & N & R & L & NI).
      destruct j as [|j].
      * simpl in N. inversion N; subst. rewrite Nat.add_0_r in *.
        assert (G : Nat.ltb k launched && negb (mem_nat k reported) = true).
        { apply andb_true_iff. split; [apply Nat.ltb_lt; exact L|].
          apply negb_true_iff. destruct (mem_nat k reported) eqn:M; [|reflexivity].
          apply mem_nat_true in M. contradiction. }
        rewrite G, R. left. reflexivity.
      * simpl in N.
        assert (T : In q (losers_from (S k) launched reported results)).
        { apply IH. exists j, o. replace (S k + j) with (k + S j) by lia. auto. }
        destruct (Nat.ltb k launched && negb (mem_nat k reported)); [|exact T].
        destruct r as [o0|]; [|exact T]. destruct (o_res o0); [right|]; exact T.
Qed.

(* every other launched attempt that also obtained a connection has it closed *)
Lemma dial_losers_closed seqm results sched r launched reported j o q :
  run_dial seqm results sched = DDone r launched reported ->
  j < launched -> ~ In j reported ->
  nth_error results j = Some (Some o) -> o_res o = Returned q ->
  In q (dial_drained results (run_dial seqm results sched)).
Proof.
  intros H L NI N R. rewrite H. simpl. apply losers_from_spec.
  exists j, o. simpl. auto.
Qed.

Lemma attempt_outcomes_nth atts i o :
  nth_error (attempt_outcomes atts) i = Some (Some o) ->
  exists id sched, nth_error atts i = Some (id, sched) /\ run_attempt id sched = Finished o.
Proof.
  unfold attempt_outcomes. rewrite nth_error_map.
  destruct (nth_error atts i) as [[id sched]|]; simpl; [|discriminate].
  intro H. inversion H as [H1]. exists id, sched. split; [reflexivity|].
  destruct (run_attempt id sched); simpl in H1; [discriminate|congruence].
Qed.

(* attempts whose result was taken, other than a winner, all delivered a failure *)
Definition failed_reports (results : list (option outcome)) (d : dial) : Prop :=
  match d with
  | DRunning s => forall k, In k (d_reported s) ->
      exists ok e, nth_error results k = Some (Some ok) /\ o_res ok = Failed e
  | DDone r _ rep => forall k, In k rep -> (forall p, r <> DReturned k p) ->
      exists ok e, nth_error results k = Some (Some ok) /\ o_res ok = Failed e
  end.

Lemma failed_reports_step seqm results d e :
  failed_reports results d -> failed_reports results (dial_step seqm results d e).
Proof.
  intro Hd. destruct d as [s|r l rep]; [|exact Hd].
  destruct e as [k| |]; cbn [dial_step].
  - destruct (Nat.ltb k (d_next s) && negb (mem_nat k (d_reported s))); [|exact Hd].
    destruct (nth_error results k) as [[ok|]|] eqn:Nk; try exact Hd.
    destruct (o_res ok) as [pk|ek] eqn:Rk.
    + intros k' [<-|Hk'] Hw; [exfalso; eapply Hw; reflexivity|apply Hd; exact Hk'].
    + assert (New : forall k', In k' (k :: d_reported s) ->
                  exists ok0 e0, nth_error results k' = Some (Some ok0) /\ o_res ok0 = Failed e0).
      { intros k' [<-|Hk']; [eauto|apply Hd; exact Hk']. }
      destruct (Nat.ltb (d_next s) (length results)); [exact New|].
      match goal with |- failed_reports _ (if ?c then _ else _) => destruct c end;
        [intros k' Hk' _; apply New; exact Hk'|exact New].
  - destruct (negb seqm && Nat.ltb (d_next s) (length results)); exact Hd.
  - intros k Hk _. apply Hd. exact Hk.
Qed.

Lemma failed_reports_run seqm results : forall sched d,
  failed_reports results d -> failed_reports results (fold_left (dial_step seqm results) sched d).
Proof.
  induction sched as [|e sched IH]; intros d Hd; simpl; [exact Hd|].
  apply IH. apply failed_reports_step. exact Hd.
Qed.

Lemma failed_reports_run_dial seqm results sched : failed_reports results (run_dial seqm results sched).
Proof.
  unfold run_dial. destruct results as [|r results].
  - intros k [].
  - apply failed_reports_run. intros k [].
Qed.

(* C20_single_winner *)
Lemma dial_full_single_winner seqm atts sched i p launched reported :
  dial_full seqm atts sched = DDone (DReturned i p) launched reported ->
  (* the winner: attempt i, launched, and p presented attempt i's own id there *)
  (exists id s g, nth_error atts i = Some (id, s) /\ i < launched /\
                  In (SArrive p g) s /\ hello_matches id g = true) /\
  (* every other launched attempt that accepted a connection: closed, never handed out *)
  (forall j idj sj oj q, j <> i -> j < launched ->
     nth_error atts j = Some (idj, sj) -> run_attempt idj sj = Finished oj -> o_res oj = Returned q ->
     In q (dial_drained (attempt_outcomes atts) (dial_full seqm atts sched))).
Proof.
  unfold dial_full. intro H.
  pose proof (dinv_run_dial seqm (attempt_outcomes atts) sched) as I. rewrite H in I.
  destruct I as (I1 & I2 & I3 & (o & N & R)).
  split.
  - apply attempt_outcomes_nth in N as (id & s & N & E).
    destruct (attempt_only_matching id s o E) as [A _]. destruct (A p R) as (g & Hin & M).
    exists id, s, g. repeat split; auto.
  - intros j idj sj oj q Hne L Nj Ej Rj.
    assert (Nj' : nth_error (attempt_outcomes atts) j = Some (Some oj)).
    { unfold attempt_outcomes. rewrite nth_error_map, Nj. simpl. rewrite Ej. reflexivity. }
    (* the only attempt whose Returned result was taken is i *)
    assert (NI : ~ In j reported).
    { pose proof (failed_reports_run_dial seqm (attempt_outcomes atts) sched) as F.
      rewrite H in F. intro Hin.
      destruct (F j Hin) as (ok & e & Nk & Re).
      - intros p0 E0. inversion E0. congruence.
      - rewrite Nj' in Nk. inversion Nk; subst. congruence. }
    rewrite H. simpl. apply losers_from_spec. exists j, oj. simpl. auto.
Qed.

(* what Dial hands to its caller *)
Definition dial_handed (d : dial) : list peer :=
  match d with DDone (DReturned _ p) _ _ => [p] | _ => [] end.

Lemma dial_at_most_one d : length (dial_handed d) <= 1.
Proof. destruct d as [s|[i p|errs|] l r]; simpl; lia. Qed.

(* ---- statements exported by Props/C20.v (glue) ---- *)

Lemma connect_id_length_nonempty : forall r : bytes,
  N.of_nat (length r) = 20%N -> lenN (connect_id r) = connect_id_hex_len /\ connect_id r <> [].
Proof.
  intros r H. split; [apply connect_id_length; exact H|].
  apply connect_id_nonempty. intro E. subst. discriminate.
Qed.

Lemma attempt_only_matching_full : forall id sched o,
  run_attempt id sched = Finished o ->
  (forall p, o_res o = Returned p ->
     exists g, In (SArrive p g) sched /\ hello_matches id g = true) /\
  (forall q g, In (SArrive q g) sched -> In q (o_closed o) \/ o_res o = Returned q) /\
  (NoDup (map fst (arrivals sched)) ->
   forall q g, In (SArrive q g) sched -> hello_matches id g = false ->
     In q (o_closed o) /\ o_res o <> Returned q).
Proof.
  intros id sched o H. destruct (attempt_only_matching id sched o H) as [A B].
  split; [exact A|]. split; [exact B|].
  intros ND q g Hin M. eapply attempt_nonmatching_closed; eauto.
Qed.

Lemma proxy_only_matching_full : forall id b rep hello,
  (forall p, o_res (proxy_attempt id b rep hello) = Returned p ->
     p = b /\ (exists echo, rep = PrOk echo) /\ hello_matches id hello = true) /\
  (forall e, o_res (proxy_attempt id b rep hello) = Failed e ->
     o_closed (proxy_attempt id b rep hello) = [b]).
Proof.
  intros id b rep hello. split.
  - intros p H. destruct (proxy_attempt_only_matching id b rep hello p H) as (A & B & C & _). auto.
  - intros e H. eapply proxy_attempt_failure_closes; eauto.
Qed.

Lemma dial_single_winner_full : forall sequential atts sched i p launched reported,
  dial_full sequential atts sched = DDone (DReturned i p) launched reported ->
  (exists id s g, nth_error atts i = Some (id, s) /\ i < launched /\
                  In (SArrive p g) s /\ hello_matches id g = true) /\
  length (dial_handed (dial_full sequential atts sched)) <= 1 /\
  (forall j idj sj oj q, j <> i -> j < launched ->
     nth_error atts j = Some (idj, sj) -> run_attempt idj sj = Finished oj -> o_res oj = Returned q ->
     In q (dial_drained (attempt_outcomes atts) (dial_full sequential atts sched))).
Proof.
  intros sq atts sched i p l r H.
  destruct (dial_full_single_winner sq atts sched i p l r H) as [A B].
  split; [exact A|]. split; [apply dial_at_most_one|exact B].
Qed.

(* ---- the broker's failure reaches Dial's caller (single broker) ---- *)

Lemma dial_done_stable seqm results sched r l rep :
  fold_left (dial_step seqm results) sched (DDone r l rep) = DDone r l rep.
Proof. induction sched as [|e sched IH]; simpl; [reflexivity|exact IH]. Qed.

Lemma dial_single_broker_failure seqm o e sched :
  o_res o = Failed e ->
  run_dial seqm [Some o] (DResult 0 :: sched) = DDone (DAllFailed [e]) 1 [0].
Proof.
  intro H. unfold run_dial, dial_init. cbn [fold_left dial_step d_next d_reported d_errs length nth_error].
  cbn [Nat.ltb Nat.leb mem_nat existsb negb andb]. rewrite H.
  cbn. apply dial_done_stable.
Qed.

Lemma dial_reports_broker_failure : forall seqm id s1 m s2 dsched,
  forallb (quiet_ev id) s1 = true ->
  dial_full seqm [(id, s1 ++ SPickReply (RFail m) :: s2)] (DResult 0 :: dsched)
  = DDone (DAllFailed [AeBroker m]) 1 [0].
Proof.
  intros seqm id s1 m s2 dsched Q.
  destruct (attempt_broker_failure_before_match id s1 m s2 Q) as (o & E & R).
  unfold dial_full, attempt_outcomes. cbn [map fst snd]. rewrite E. cbn [att_outcome].
  apply dial_single_broker_failure. exact R.
Qed.

(* ---- the two descriptions of the accept loop agree ----
   Feeding connections one by one to the small-step attempt (no other events)
   leaves the accept goroutine in the state accept_reversed computes. *)

Definition arrive_all (l : list (peer * greeting)) : list sev :=
  map (fun pg => SArrive (fst pg) (snd pg)) l.
Definition as_conns (l : list (peer * greeting)) : list arrival :=
  map (fun pg => AConn (fst pg) (snd pg)) l.

Definition no_stall (l : list (peer * greeting)) : Prop :=
  forall p g, In (p, g) l -> g <> GStall.

Lemma step_arrive_waiting id s p g :
  g <> GStall -> as_acc s = AsWaiting -> as_ctx_done s = false ->
  att_step id (Running s) (SArrive p g) =
  if hello_matches id g
  then Running (mkAtt (AsDone (AccConn p)) (as_reply_open s) false (as_closed s) (as_backlog s))
  else Running (mkAtt AsWaiting (as_reply_open s) false (as_closed s ++ [p]) (as_backlog s)).
Proof.
  intros Hg WA CD. cbn [att_step]. rewrite WA, CD. destruct g; try reflexivity. congruence.
Qed.

Lemma accept_cons_conn id p g r :
  g <> GStall ->
  accept_reversed id false (AConn p g :: r) =
  if hello_matches id g then (AccConn p, [])
  else let '(res, cl) := accept_reversed id false r in (res, p :: cl).
Proof. intro Hg. cbn [accept_reversed]. destruct g; try reflexivity. congruence. Qed.

(* after the match, later connections only grow the backlog *)
Lemma arrivals_after_match id p : forall l s,
  as_acc s = AsDone (AccConn p) ->
  exists s', run_attempt_from id (Running s) (arrive_all l) = Running s' /\
    as_acc s' = AsDone (AccConn p) /\ as_closed s' = as_closed s /\
    exists bl, as_backlog s' = as_backlog s ++ bl.
Proof.
  induction l as [|[q g] l IH]; intros s A.
  - exists s. simpl. repeat split; auto. exists []. rewrite app_nil_r. reflexivity.
  - cbn [arrive_all map run_attempt_from fold_left att_step fst snd]. rewrite A.
    destruct (IH (mkAtt (AsDone (AccConn p)) (as_reply_open s) (as_ctx_done s) (as_closed s) (as_backlog s ++ [q])) eq_refl)
      as (s' & E & B1 & B2 & bl & B3).
    exists s'. split; [exact E|]. simpl in *. repeat split; auto.
    exists (q :: bl). rewrite B3, <- app_assoc. reflexivity.
Qed.

Lemma acceptor_agrees id : forall l s,
  no_stall l -> as_acc s = AsWaiting -> as_ctx_done s = false ->
  exists s', run_attempt_from id (Running s) (arrive_all l) = Running s' /\
    as_closed s' = as_closed s ++ snd (accept_reversed id false (as_conns l)) /\
    as_acc s' = match fst (accept_reversed id false (as_conns l)) with
                | AccConn p => AsDone (AccConn p)
                | _ => AsWaiting
                end.
Proof.
  induction l as [|[p g] l IH]; intros s NS WA CD.
  - exists s. simpl. rewrite app_nil_r. auto.
  - assert (NS' : no_stall l) by (intros q g' H; apply (NS q g'); right; exact H).
    assert (Hg : g <> GStall) by (apply (NS p g); left; reflexivity).
    change (as_conns ((p, g) :: l)) with (AConn p g :: as_conns l).
    change (run_attempt_from id (Running s) (arrive_all ((p, g) :: l)))
      with (run_attempt_from id (att_step id (Running s) (SArrive p g)) (arrive_all l)).
    rewrite (step_arrive_waiting id s p g Hg WA CD), (accept_cons_conn id p g (as_conns l) Hg).
    destruct (hello_matches id g).
    + destruct (arrivals_after_match id p l
                  (mkAtt (AsDone (AccConn p)) (as_reply_open s) false (as_closed s) (as_backlog s)) eq_refl)
        as (s' & E & B1 & B2 & _).
      exists s'. split; [exact E|]. simpl in *. rewrite app_nil_r. auto.
    + destruct (IH (mkAtt AsWaiting (as_reply_open s) false (as_closed s ++ [p]) (as_backlog s)) NS' eq_refl eq_refl)
        as (s' & E & B1 & B2).
      exists s'. split; [exact E|]. simpl in B1.
      destruct (accept_reversed id false (as_conns l)) as [res cl]. simpl in *.
      rewrite B1, <- app_assoc. auto.
Qed.

(* ====================================================================== *)
(* hypothesis audit: complementary cases                                   *)
(* ====================================================================== *)

(* id <> [] in hello_matches_exact is necessary: with the empty id a hello
   that carries no ClaimId at all matches *)
Lemma empty_id_matches_absent_claim :
  hello_matches [] (GHello ccb_reverse_connect None) = true /\
  GHello ccb_reverse_connect None <> GHello ccb_reverse_connect (Some []).
Proof. split; [reflexivity|discriminate]. Qed.

(* echoed = id: the complementary case of proxy_echoed_id_rejected *)
Lemma proxy_echo_of_own_id_accepted id b e :
  proxy_attempt id b (PrOk e) (GHello ccb_reverse_connect (Some id)) = mkOut (Returned b) [].
Proof.
  unfold proxy_attempt, proxy_request. rewrite Z.eqb_refl. cbn [ad_string].
  replace (bytes_eqb id id) with true by (symmetry; apply bytes_eqb_eq; reflexivity). reflexivity.
Qed.

(* as_reply_open = false: once a success reply has been taken no further reply is
   read, so a later "failure" has no effect (the broker sends one reply per request) *)
Lemma reply_after_success_not_read id st r :
  as_reply_open st = false -> att_step id (Running st) (SPickReply r) = Running st.
Proof. intro H. cbn [att_step]. rewrite H. reflexivity. Qed.

Lemma failure_after_success_example id m :
  exists o, run_attempt id [SPickReply ROk; SPickReply (RFail m); SCtxDone; SPickDone] = Finished o /\
            o_res o = Failed AeTimeout.
Proof. eexists. split; reflexivity. Qed.

(* as_ctx_done = true: the complementary case of acceptor_agrees *)
Lemma acceptor_agrees_cancelled id s p g r :
  as_acc s = AsWaiting -> as_ctx_done s = true ->
  att_step id (Running s) (SArrive p g) =
    Running (mkAtt (AsDone (AccErr ECtx)) (as_reply_open s) true (as_closed s ++ [p]) (as_backlog s)) /\
  accept_reversed id true (AConn p g :: r) = (AccErr ECtx, [p]).
Proof. intros WA CD. cbn [att_step accept_reversed]. rewrite WA, CD. auto. Qed.

Lemma accept_reversed_pending_app id : forall l r,
  fst (accept_reversed id false (as_conns l)) = AccPending ->
  accept_reversed id false (as_conns l ++ r) =
  (fst (accept_reversed id false r), snd (accept_reversed id false (as_conns l)) ++ snd (accept_reversed id false r)).
Proof.
  induction l as [|[p g] l IH]; intros r H.
  - simpl. destruct (accept_reversed id false r); reflexivity.
  - change (as_conns ((p, g) :: l)) with (AConn p g :: as_conns l) in *.
    assert (NS : g <> GStall) by (intro E; subst; discriminate).
    rewrite <- app_comm_cons, !(accept_cons_conn id p g _ NS) in *.
    destruct (hello_matches id g); [discriminate|].
    destruct (accept_reversed id false (as_conns l)) as [res cl] eqn:E. simpl in H. subst res.
    rewrite (IH r eq_refl). reflexivity.
Qed.

(* arrivals never touch the context flag *)
Lemma step_arrive_ctx id s p g :
  exists s', att_step id (Running s) (SArrive p g) = Running s' /\ as_ctx_done s' = as_ctx_done s.
Proof.
  cbn [att_step]. destruct (as_acc s).
  - destruct (as_ctx_done s) eqn:CD; [eexists; split; [reflexivity|reflexivity]|].
    destruct g; try (destruct (hello_matches id _)); eexists; split; try reflexivity; simpl; auto.
  - eexists; split; reflexivity.
  - eexists; split; reflexivity.
Qed.

Lemma arrive_all_ctx id : forall l s s',
  run_attempt_from id (Running s) (arrive_all l) = Running s' -> as_ctx_done s' = as_ctx_done s.
Proof.
  induction l as [|[q g] l IH]; intros s s' E.
  - simpl in E. inversion E. reflexivity.
  - change (run_attempt_from id (Running s) (arrive_all ((q, g) :: l)))
      with (run_attempt_from id (att_step id (Running s) (SArrive q g)) (arrive_all l)) in E.
    destruct (step_arrive_ctx id s q g) as (s1 & E1 & C1). rewrite E1 in E.
    rewrite (IH s1 s' E). exact C1.
Qed.

(* a stalled greeting: the complementary case of no_stall *)
Lemma acceptor_agrees_stall id l s p :
  no_stall l -> as_acc s = AsWaiting -> as_ctx_done s = false ->
  fst (accept_reversed id false (as_conns l)) = AccPending ->
  exists s', run_attempt_from id (Running s) (arrive_all l ++ [SArrive p GStall; SCtxDone]) = Running s' /\
    as_acc s' = AsDone (AccErr ECtx) /\
    fst (accept_reversed id false (as_conns (l ++ [(p, GStall)]))) = AccErr ECtx /\
    as_closed s' = as_closed s ++ snd (accept_reversed id false (as_conns (l ++ [(p, GStall)]))).
Proof.
  intros NS WA CD P.
  destruct (acceptor_agrees id l s NS WA CD) as (s1 & E1 & C1 & A1).
  rewrite P in A1.
  pose proof (arrive_all_ctx id l s s1 E1) as CD1. rewrite CD in CD1.
  unfold run_attempt_from in *. rewrite fold_left_app, E1.
  cbn [fold_left att_step]. rewrite A1, CD1. cbn [as_acc].
  eexists. split; [reflexivity|]. cbn [as_acc as_closed].
  unfold as_conns in *. rewrite map_app. cbn [map fst snd].
  rewrite (accept_reversed_pending_app id _ _ P). cbn [accept_reversed fst snd].
  split; [reflexivity|]. split; [reflexivity|].
  rewrite C1, <- app_assoc. reflexivity.
Qed.
