(* Proofs/C20.v — lemmas and proofs for property C20 (CCB dial). *)
From Coq Require Import List NArith ZArith Lia Bool.
From Cedar Require Import Lib.Bytes gen.FactsC20 Model.CCB.
Import ListNotations.

Lemma hello_matches_presents id g :
  hello_matches id g = true ->
  exists c, g = GHello ccb_reverse_connect c /\ ad_string c = id.
Proof.
  destruct g as [cmd c| | |]; simpl; try discriminate.
  intro H. apply andb_true_iff in H as [H1 H2].
  apply Z.eqb_eq in H1. apply bytes_eqb_eq in H2. subst. eauto.
Qed.
