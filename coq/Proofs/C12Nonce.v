(* Proofs/C12Nonce.v — nonce construction, counter discipline, wire format of the sender. *)
From Coq Require Import List NArith ZArith Lia Bool.
From Coq Require Import ZifyBool ZifyN ZifyNat.
From Cedar Require Import Lib.Bytes Lib.Sym gen.Consts Model.Frame Model.FrameSpec Proofs.FrameBase.
Import ListNotations.
Local Open Scope N_scope.
Ltac Zify.zify_post_hook ::= Z.div_mod_to_equations.

Local Transparent nonce_of hdr_of.

(* ---- nonce_of is injective in the counter below 2^32 ------------------ *)
Lemma be_enc4_inj x y : x < 4294967296 -> y < 4294967296 -> be_enc 4 x = be_enc 4 y -> x = y.
Proof.
  intros Hx Hy E. apply (f_equal be_dec) in E. rewrite !be_dec_enc in E.
  change (2 ^ (8 * N.of_nat 4)) with 4294967296 in E.
  rewrite !N.mod_small in E by assumption. exact E.
Qed.

Lemma app_inv_len {A} (a b c d : list A) : length a = length c -> a ++ b = c ++ d -> a = c /\ b = d.
Proof.
  revert c. induction a as [|x a IH]; intros [|y c] Hl E; try discriminate.
  - split; [reflexivity|exact E].
  - cbn [app] in E. injection E as -> E. cbn [length] in Hl. injection Hl as Hl.
    destruct (IH _ Hl E) as [-> ->]. split; reflexivity.
Qed.

Lemma nonce_of_inj iv c1 c2 :
  c1 < 4294967296 -> c2 < 4294967296 -> nonce_of iv c1 = nonce_of iv c2 -> c1 = c2.
Proof.
  intros H1 H2 E. unfold nonce_of in E.
  apply app_inv_len in E; [|rewrite !be_enc_length; reflexivity].
  destruct E as [E _]. apply be_enc4_inj in E; [|apply N.mod_lt; lia|apply N.mod_lt; lia].
  set (b := be_dec (firstn 4 iv)) in *. lia.
Qed.

(* at counter 0 the nonce is the transmitted IV itself (16-byte IV) *)
Lemma firstn_skipn_len {A} (n : nat) (l : list A) : (n <= length l)%nat -> length (firstn n l) = n.
Proof. intro H. rewrite firstn_length. lia. Qed.

Lemma nonce_of_zero iv : (4 <= length iv)%nat -> nonce_of iv 0 = iv.
Proof.
  intro Hl. unfold nonce_of. rewrite N.add_0_r.
  pose proof (be_dec_lt (firstn 4 iv)) as Hlt. rewrite firstn_skipn_len in Hlt by exact Hl.
  change (2 ^ (8 * N.of_nat 4)) with 4294967296 in Hlt.
  rewrite N.mod_small by exact Hlt.
  pose proof (be_enc_dec (firstn 4 iv)) as E. rewrite firstn_skipn_len in E by exact Hl.
  rewrite E. apply firstn_skipn.
Qed.

Local Opaque nonce_of hdr_of.

(* ---- what one send_frame emits --------------------------------------- *)
(* the protected frame number c of a direction with key k and base IV iv *)
Definition is_frame_no (k iv : bytes) (c : N) (f : frame) : Prop :=
  exists a p, f_body f = Ct (if c =? 0 then Some iv else None) (seal k (nonce_of iv c) a p).

(* counter invariant: enc_ctr <= CounterGuard is preserved by every sender operation,
   and a frame is only emitted while enc_ctr < CounterGuard *)
Lemma send_frame_enc s d fl s' f k :
  key s = Some k -> encrypted s = true -> enc_ctr s <= CounterGuard ->
  send_frame s d fl = (s', SOk f) ->
  enc_ctr s < CounterGuard /\ enc_ctr s' = enc_ctr s + 1 /\
  key s' = key s /\ enc_iv s' = enc_iv s /\ encrypted s' = encrypted s /\
  f_flag f = fl /\
  f_body f = Ct (if enc_ctr s =? 0 then Some (enc_iv s) else None)
               (seal k (nonce_of (enc_iv s) (enc_ctr s))
                  (aad_send s (hdr_of fl (lenN d + GcmTagSize + (if enc_ctr s =? 0 then GcmTagSize else 0)))) d).
Proof.
  intros Hk He Hle Hs. unfold send_frame in Hs.
  destruct (MaxMessageSize <? lenN d); [discriminate|]. rewrite Hk, He in Hs.
  destruct (enc_ctr s =? CounterGuard) eqn:Eg; [discriminate|].
  cbv zeta in Hs. injection Hs as <- <-. proj_simpl.
  apply N.eqb_neq in Eg.
  repeat split; try reflexivity. lia.
Qed.

Lemma send_frame_plain s d fl s' f :
  enc_active s = false -> send_frame s d fl = (s', SOk f) ->
  f_body f = Raw d /\ f_flag f = fl /\ enc_ctr s' = enc_ctr s /\ key s' = key s /\ enc_iv s' = enc_iv s /\
  encrypted s' = encrypted s.
Proof.
  intros Hna Hs. unfold send_frame in Hs. unfold enc_active in Hna.
  destruct (MaxMessageSize <? lenN d); [discriminate|].
  destruct (key s) as [k|] eqn:Ek; [rewrite Hna in Hs|]; injection Hs as <- <-; proj_simpl; repeat split; congruence.
Qed.

Lemma send_frame_guard s d fl :
  enc_active s = true -> enc_ctr s = CounterGuard -> exists e, snd (send_frame s d fl) = SErr e.
Proof.
  intros Ha Hg. unfold send_frame, enc_active in *.
  destruct (MaxMessageSize <? lenN d); [eexists; reflexivity|].
  destruct (key s); [|discriminate]. rewrite Ha, Hg, N.eqb_refl. eexists; reflexivity.
Qed.

(* ---- the invariant over arbitrary sender operation sequences ---------- *)
(* every protected frame of fs carries key k and a nonce nonce_of iv c with lo <= c < hi,
   the counters strictly increasing along the list *)
Inductive numbered (k iv : bytes) : N -> list frame -> N -> Prop :=
| num_nil c : numbered k iv c [] c
| num_raw c f fs hi d : f_body f = Raw d -> numbered k iv c fs hi -> numbered k iv c (f :: fs) hi
| num_ct c f fs hi a p : f_body f = Ct (if c =? 0 then Some iv else None) (seal k (nonce_of iv c) a p) ->
    c < CounterGuard -> numbered k iv (c + 1) fs hi -> numbered k iv c (f :: fs) hi.

Lemma numbered_app k iv c1 fs1 c2 fs2 c3 :
  numbered k iv c1 fs1 c2 -> numbered k iv c2 fs2 c3 -> numbered k iv c1 (fs1 ++ fs2) c3.
Proof.
  induction 1; intro H2; cbn [app]; [exact H2| |].
  - eapply num_raw; [eassumption|]. apply IHnumbered. exact H2.
  - eapply num_ct; [eassumption|assumption|]. apply IHnumbered. exact H2.
Qed.

Lemma numbered_mono k iv c fs hi : numbered k iv c fs hi -> c <= hi.
Proof. induction 1; lia. Qed.

(* stable part of the sender state *)
Definition same_chan (s s' : stream) : Prop := key s' = key s /\ enc_iv s' = enc_iv s.

Lemma send_frame_numbered s d fl s' f k :
  key s = Some k -> enc_ctr s <= CounterGuard -> send_frame s d fl = (s', SOk f) ->
  numbered k (enc_iv s) (enc_ctr s) [f] (enc_ctr s') /\ same_chan s s' /\ enc_ctr s' <= CounterGuard /\
  encrypted s' = encrypted s.
Proof.
  intros Hk Hle Hs. destruct (encrypted s) eqn:He.
  - destruct (send_frame_enc _ _ _ _ _ _ Hk He Hle Hs) as [Hlt [Hc [Hk' [Hiv [He' [_ Hb]]]]]].
    split; [|split; [split; assumption|split; [lia|congruence]]].
    rewrite Hc. eapply num_ct; [exact Hb|exact Hlt|constructor].
  - assert (Hna : enc_active s = false) by (unfold enc_active; rewrite Hk, He; reflexivity).
    destruct (send_frame_plain _ _ _ _ _ Hna Hs) as [Hb [_ [Hc [Hk' [Hiv He']]]]].
    split; [|split; [split; assumption|split; [lia|congruence]]].
    rewrite Hc. eapply num_raw; [exact Hb|constructor].
Qed.

Lemma run_sop_numbered s o s' e fs k :
  key s = Some k -> enc_ctr s <= CounterGuard -> run_sop s o = (s', e, fs) ->
  numbered k (enc_iv s) (enc_ctr s) fs (enc_ctr s') /\ same_chan s s' /\ enc_ctr s' <= CounterGuard.
Proof.
  intros Hk Hle Hr.
  assert (Hnil : forall t, key t = key s -> enc_iv t = enc_iv s -> enc_ctr t = enc_ctr s ->
                  numbered k (enc_iv s) (enc_ctr s) [] (enc_ctr t) /\ same_chan s t /\ enc_ctr t <= CounterGuard).
  { intros t H1 H2 H3. rewrite H3. split; [constructor|split; [split; assumption|exact Hle]]. }
  assert (Hone : forall t d fl t' f, key t = key s -> enc_iv t = enc_iv s -> enc_ctr t = enc_ctr s ->
                  send_frame t d fl = (t', SOk f) ->
                  numbered k (enc_iv s) (enc_ctr s) [f] (enc_ctr t') /\ key t' = key s /\ enc_iv t' = enc_iv s /\
                  enc_ctr t' <= CounterGuard).
  { intros t d fl t' f H1 H2 H3 Hs.
    assert (Hkt : key t = Some k) by congruence.
    assert (Hlt : enc_ctr t <= CounterGuard) by lia.
    destruct (send_frame_numbered _ _ _ _ _ _ Hkt Hlt Hs) as [Hn [[Hk' Hiv'] [Hc _]]].
    rewrite H2, H3 in Hn. repeat split; congruence || assumption. }
  assert (Herr : forall t d fl t' e0, send_frame t d fl = (t', SErr e0) -> t' = t).
  { intros t d fl t' e0. unfold send_frame.
    destruct (MaxMessageSize <? lenN d); [intro E; injection E as <-; reflexivity|].
    destruct (key t); [destruct (encrypted t); [destruct (enc_ctr t =? CounterGuard);
      [intro E; injection E as <-; reflexivity|]|]|]; cbv zeta; discriminate. }
  destruct o as [d|d|d| | |d|b]; cbn [run_sop] in Hr.
  - destruct (send_frame s d EndFlagComplete) as [s1 [f|e0]] eqn:Es; injection Hr as <- <- <-.
    + destruct (Hone s d _ _ _ eq_refl eq_refl eq_refl Es) as [Hn [H1 [H2 H3]]].
      split; [exact Hn|split; [split; assumption|exact H3]].
    + rewrite (Herr _ _ _ _ _ Es). apply Hnil; reflexivity.
  - destruct (send_frame s d EndFlagPartial) as [s1 [f|e0]] eqn:Es; injection Hr as <- <- <-.
    + destruct (Hone s d _ _ _ eq_refl eq_refl eq_refl Es) as [Hn [H1 [H2 H3]]].
      split; [exact Hn|split; [split; assumption|exact H3]].
    + rewrite (Herr _ _ _ _ _ Es). apply Hnil; reflexivity.
  - (* WriteMessage *)
    unfold write_message in Hr. destruct (send_eom s).
    { injection Hr as <- <- <-. apply Hnil; reflexivity. }
    set (t := upd_sbuf s (send_buf s ++ d) false) in *.
    destruct (DefaultFrameThreshold <=? lenN (send_buf t)).
    + unfold flush_partial in Hr. destruct (lenN (send_buf t) =? 0).
      { injection Hr as <- <- <-. apply Hnil; reflexivity. }
      destruct (send_frame t (send_buf t) EndFlagPartial) as [t1 [f|e0]] eqn:Es; injection Hr as <- <- <-.
      * destruct (Hone t _ _ _ _ eq_refl eq_refl eq_refl Es) as [Hn [H1 [H2 H3]]].
        split; [exact Hn|split; [split; assumption|exact H3]].
      * rewrite (Herr _ _ _ _ _ Es). apply Hnil; reflexivity.
    + injection Hr as <- <- <-. apply Hnil; reflexivity.
  - (* EndMessage *)
    unfold end_message in Hr. destruct (send_eom s).
    { injection Hr as <- <- <-. apply Hnil; reflexivity. }
    set (t := upd_sbuf s (send_buf s) true) in *.
    destruct (send_frame t (send_buf t) EndFlagComplete) as [t1 [f|e0]] eqn:Es; injection Hr as <- <- <-.
    + destruct (Hone t _ _ _ _ eq_refl eq_refl eq_refl Es) as [Hn [H1 [H2 H3]]].
      split; [exact Hn|split; [split; assumption|exact H3]].
    + rewrite (Herr _ _ _ _ _ Es). apply Hnil; reflexivity.
  - injection Hr as <- <- <-. apply Hnil; reflexivity.
  - (* PutSecret *)
    set (t := prepare_secret s) in *.
    destruct (prepare_secret_same s) as [Pk [Piv Pc]]. fold t in Pk, Piv, Pc.
    destruct (send_frame t (d ++ [x00]) EndFlagComplete) as [t1 [f|e0]] eqn:Es; injection Hr as <- <- <-.
    + destruct (restore_secret_same t1) as [Rk [Riv Rc]]. unfold same_chan. rewrite Rk, Riv, Rc.
      destruct (Hone t _ _ _ _ Pk Piv Pc Es) as [Hn [H1 [H2 H3]]].
      split; [exact Hn|split; [split; assumption|exact H3]].
    + rewrite (Herr _ _ _ _ _ Es).
      destruct (restore_secret_same t) as [Rk [Riv Rc]].
      apply Hnil; congruence.
  - destruct b.
    + rewrite Hk in Hr. injection Hr as <- <- <-. apply Hnil; reflexivity.
    + injection Hr as <- <- <-. apply Hnil; reflexivity.
Qed.

Lemma run_sops_numbered ops : forall s s' es fs k,
  key s = Some k -> enc_ctr s <= CounterGuard -> run_sops s ops = (s', es, fs) ->
  numbered k (enc_iv s) (enc_ctr s) fs (enc_ctr s') /\ same_chan s s' /\ enc_ctr s' <= CounterGuard.
Proof.
  induction ops as [|o ops IH]; intros s s' es fs k Hk Hle Hr; cbn [run_sops] in Hr.
  - injection Hr as <- <- <-. split; [constructor|split; [split; reflexivity|exact Hle]].
  - destruct (run_sop s o) as [[s1 e] fs1] eqn:E1.
    destruct (run_sops s1 ops) as [[s2 es2] fs2] eqn:E2. injection Hr as <- <- <-.
    destruct (run_sop_numbered _ _ _ _ _ _ Hk Hle E1) as [Hn1 [[Hk1 Hiv1] Hc1]].
    assert (Hk1' : key s1 = Some k) by congruence.
    destruct (IH _ _ _ _ _ Hk1' Hc1 E2) as [Hn2 [[Hk2 Hiv2] Hc2]].
    rewrite Hiv1 in Hn2.
    split; [eapply numbered_app; eassumption|split; [split; congruence|exact Hc2]].
Qed.

(* ---- numbered lists have pairwise distinct (key, nonce) pairs --------- *)
Lemma guard_lt : CounterGuard < 4294967296. Proof. vm_compute. reflexivity. Qed.

Lemma numbered_nonces_ge k iv c fs hi :
  numbered k iv c fs hi -> forall kn, In kn (key_nonces fs) ->
  exists c', c <= c' /\ c' < hi /\ c' < CounterGuard /\ kn = (k, nonce_of iv c').
Proof.
  induction 1 as [c|c f fs hi d Hb Hn IH|c f fs hi a p Hb Hlt Hn IH]; intros kn Hin.
  - destruct Hin.
  - unfold key_nonces, cts_of in Hin. cbn [flat_map] in Hin. rewrite Hb in Hin. cbn [app] in Hin.
    apply IH. exact Hin.
  - unfold key_nonces, cts_of in Hin. cbn [flat_map] in Hin. rewrite Hb in Hin. cbn [app map] in Hin.
    destruct Hin as [<-|Hin].
    + pose proof (numbered_mono _ _ _ _ _ Hn). exists c. repeat split; lia.
    + destruct (IH _ Hin) as [c' [H1 [H2 [H3 H4]]]]. exists c'. repeat split; try lia. exact H4.
Qed.

Lemma numbered_nodup k iv c fs hi : numbered k iv c fs hi -> NoDup (key_nonces fs).
Proof.
  induction 1 as [c|c f fs hi d Hb Hn IH|c f fs hi a p Hb Hlt Hn IH].
  - constructor.
  - unfold key_nonces, cts_of. cbn [flat_map]. rewrite Hb. exact IH.
  - unfold key_nonces, cts_of. cbn [flat_map]. rewrite Hb. cbn [app map]. constructor; [|exact IH].
    intro Hin. destruct (numbered_nonces_ge _ _ _ _ _ Hn _ Hin) as [c' [H1 [H2 [H3 H4]]]].
    cbn [nonce_of_ct seal] in H4. apply (f_equal snd) in H4. cbn [snd] in H4.
    pose proof guard_lt.
    apply nonce_of_inj in H4; lia.
Qed.

(* ---- streams without a key never emit a protected frame --------------- *)
Definition all_raw (fs : list frame) : Prop := Forall (fun f => exists b, f_body f = Raw b) fs.

Lemma all_raw_nonces fs : all_raw fs -> key_nonces fs = [].
Proof.
  induction 1 as [|f fs [b Hb] _ IH]; [reflexivity|].
  unfold key_nonces, cts_of in *. cbn [flat_map]. rewrite Hb. exact IH.
Qed.

Lemma send_frame_nokey t d fl t' r :
  key t = None -> send_frame t d fl = (t', r) ->
  key t' = None /\ enc_ctr t' = enc_ctr t /\ match r with SOk f => all_raw [f] | SErr _ => True end.
Proof.
  intros Ht. unfold send_frame. destruct (MaxMessageSize <? lenN d).
  - intro E; injection E as <- <-. repeat split; assumption.
  - rewrite Ht. intro E; injection E as <- <-. proj_simpl. repeat split; try assumption.
    constructor; [eexists; reflexivity|constructor].
Qed.

Lemma run_sop_nokey s o s' e fs :
  key s = None -> run_sop s o = (s', e, fs) -> key s' = None /\ enc_ctr s' = enc_ctr s /\ all_raw fs.
Proof.
  intros Hk E1.
  assert (Hnil : key s = None /\ enc_ctr s = enc_ctr s /\ all_raw []) by (repeat split; [exact Hk|constructor]).
  assert (Hone : forall t d fl t' r, key t = None -> enc_ctr t = enc_ctr s -> send_frame t d fl = (t', r) ->
            key t' = None /\ enc_ctr t' = enc_ctr s /\ all_raw (match r with SOk f => [f] | SErr _ => [] end)).
  { intros t d fl t' r Ht Hc Es. destruct (send_frame_nokey _ _ _ _ _ Ht Es) as [H1 [H2 H3]].
    split; [exact H1|split; [congruence|]]. destruct r; [exact H3|constructor]. }
  destruct o as [d|d|d| | |d|b]; cbn [run_sop] in E1.
  - destruct (send_frame s d EndFlagComplete) as [t [f|e0]] eqn:Es; injection E1 as <- <- <-;
      apply (Hone _ _ _ _ _ Hk eq_refl Es).
  - destruct (send_frame s d EndFlagPartial) as [t [f|e0]] eqn:Es; injection E1 as <- <- <-;
      apply (Hone _ _ _ _ _ Hk eq_refl Es).
  - unfold write_message in E1. destruct (send_eom s); [injection E1 as <- <- <-; exact Hnil|].
    set (t := upd_sbuf s (send_buf s ++ d) false) in *.
    assert (Hkt : key t = None) by exact Hk.
    destruct (DefaultFrameThreshold <=? lenN (send_buf t)).
    + unfold flush_partial in E1. destruct (lenN (send_buf t) =? 0); [injection E1 as <- <- <-; exact Hnil|].
      destruct (send_frame t (send_buf t) EndFlagPartial) as [t1 [f|e0]] eqn:Es; injection E1 as <- <- <-;
        apply (Hone _ _ _ _ _ Hkt eq_refl Es).
    + injection E1 as <- <- <-; exact Hnil.
  - unfold end_message in E1. destruct (send_eom s); [injection E1 as <- <- <-; exact Hnil|].
    set (t := upd_sbuf s (send_buf s) true) in *.
    assert (Hkt : key t = None) by exact Hk.
    destruct (send_frame t (send_buf t) EndFlagComplete) as [t1 [f|e0]] eqn:Es; injection E1 as <- <- <-;
      apply (Hone _ _ _ _ _ Hkt eq_refl Es).
  - injection E1 as <- <- <-; exact Hnil.
  - set (t := prepare_secret s) in *.
    destruct (prepare_secret_same s) as [Pk [_ Pc]]. fold t in Pk, Pc.
    assert (Hkt : key t = None) by congruence.
    destruct (send_frame t (d ++ [x00]) EndFlagComplete) as [t1 [f|e0]] eqn:Es; injection E1 as <- <- <-;
      destruct (restore_secret_same t1) as [Rk [_ Rc]]; rewrite Rk, Rc;
      apply (Hone _ _ _ _ _ Hkt Pc Es).
  - destruct b; [rewrite Hk in E1|]; injection E1 as <- <- <-; exact Hnil.
Qed.

Lemma run_sops_nokey ops : forall s s' es fs,
  key s = None -> run_sops s ops = (s', es, fs) -> key s' = None /\ enc_ctr s' = enc_ctr s /\ all_raw fs.
Proof.
  induction ops as [|o ops IH]; intros s s' es fs Hk Hr; cbn [run_sops] in Hr.
  - injection Hr as <- <- <-. repeat split; [exact Hk|constructor].
  - destruct (run_sop s o) as [[s1 e] fs1] eqn:E1.
    destruct (run_sops s1 ops) as [[s2 es2] fs2] eqn:E2. injection Hr as <- <- <-.
    destruct (run_sop_nokey _ _ _ _ _ Hk E1) as [Hk1 [Hc1 Hr1]].
    destruct (IH _ _ _ _ Hk1 E2) as [Hk2 [Hc2 Hr2]].
    split; [exact Hk2|split; [congruence|]]. apply Forall_app. split; assumption.
Qed.

(* ---- the statements used by Props/C12.v -------------------------------- *)
Lemma nonce_unique ops s s' es fs :
  enc_ctr s <= CounterGuard -> run_sops s ops = (s', es, fs) -> NoDup (key_nonces fs).
Proof.
  intros Hle Hr. destruct (key s) as [k|] eqn:Hk.
  - destruct (run_sops_numbered _ _ _ _ _ _ Hk Hle Hr) as [Hn _]. eapply numbered_nodup; exact Hn.
  - destruct (run_sops_nokey _ _ _ _ _ Hk Hr) as [_ [_ Hraw]].
    rewrite (all_raw_nonces _ Hraw). constructor.
Qed.

Lemma counter_never_wraps ops s s' es fs :
  enc_ctr s <= CounterGuard -> run_sops s ops = (s', es, fs) ->
  enc_ctr s <= enc_ctr s' /\ enc_ctr s' <= CounterGuard.
Proof.
  intros Hle Hr. destruct (key s) as [k|] eqn:Hk.
  - destruct (run_sops_numbered _ _ _ _ _ _ Hk Hle Hr) as [Hn [_ Hc]].
    split; [eapply numbered_mono; exact Hn|exact Hc].
  - destruct (run_sops_nokey _ _ _ _ _ Hk Hr) as [_ [Hc _]]. rewrite Hc. split; [lia|exact Hle].
Qed.
