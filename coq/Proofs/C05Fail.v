(* Proofs/C05Fail.v — a handler that returns an error or PANICS ends its connection: it is the
   last dispatch attempt (nothing further is run or even looked up), ServeConn closes the
   connection with an error, or -- for a panic, which unwinds ServeConn -- Serve's per-connection
   recover() closes it. Extends history_refusal ("a refusal ends the connection") to failures
   of the handler itself. *)
From Coq Require Import List ZArith NArith Bool Lia.
From Cedar Require Import gen.FactsC05 Model.Server Proofs.C05Spec Proofs.C05.
Import ListNotations.

Definition handler_failed (r : hret) : Prop := r = HErr \/ r = HPanic.
(* how ServeConn ends after such a handler: error return + Close(), or the panic leaves it *)
Definition fail_end (r : hret) : cend := match r with HPanic => EPanic | _ => EClosedErr end.

Lemma fail_end_closed : forall r, closed_under_serve (fail_end r) = true.
Proof. destruct r; reflexivity. Qed.

Lemma auth_loop_failure : forall steps srv peer cs c ds e n st,
  auth_loop srv peer cs c steps = (ds, e) ->
  nth_error steps n = Some st -> handler_failed (st_ret st) ->
  n < length (invocations ds) ->
  length ds = S n /\ length (invocations ds) = S n /\ e = fail_end (st_ret st).
Proof.
  induction steps as [|st0 rest IH]; intros srv peer cs c ds e n st H Hn Hf Hlt.
  - destruct n; discriminate.
  - loop_cases H.
    all: try rename S into Hsat.
    all: try (inversion H; subst; cbn in Hlt; lia).
    cbv zeta in H.
    destruct n as [|n].
    + cbn in Hn. inversion Hn; subst st0.
      destruct Hf as [F|F]; rewrite F in H; inversion H; subst; cbn; rewrite F; auto.
    + cbn in Hn.
      destruct (st_ret st0); try (inversion H; subst; cbn in Hlt; lia).
      destruct (st_next st0) as [c'|]; [|inversion H; subst; cbn in Hlt; lia].
      destruct (auth_loop (st_srv st0) peer cs c' rest) as [ds' e'] eqn:E.
      inversion H; subst. cbn in Hlt.
      assert (L' : n < length (invocations ds')) by lia.
      destruct (IH _ _ _ _ _ _ _ _ E Hn Hf L') as [A [B C]].
      cbn. repeat split; auto; lia.
Qed.

Lemma raw_path_failure : forall srv peer c steps ds e n st,
  raw_path srv peer c steps = (ds, e) ->
  nth_error steps n = Some st -> handler_failed (st_ret st) ->
  n < length (invocations ds) ->
  length ds = S n /\ length (invocations ds) = S n /\ e = fail_end (st_ret st).
Proof.
  intros srv peer c steps ds e n st H N F L. unfold raw_path in H.
  destruct (lookup (s_handlers srv) c) as [h|]; [|inversion H; subst; cbn in L; lia].
  destruct (h_raw h); cbn [negb] in H; [|inversion H; subst; cbn in L; lia].
  cbv zeta in H.
  destruct steps as [|st0 rest]; [destruct n; discriminate|].
  destruct n as [|n]; cbn in N.
  - inversion N; subst st0.
    destruct F as [F|F]; rewrite F in H; inversion H; subst; cbn; rewrite F; auto.
  - destruct (st_ret st0); inversion H; subst; cbn in L; lia.
Qed.

(* one connection, from any cache, any handshake outcome, either path *)
Theorem serve_conn_handler_failure : forall k cn k' ds e n st,
  serve_conn k cn = (k', (ds, e)) ->
  nth_error (c_steps cn) n = Some st -> handler_failed (st_ret st) ->
  n < length (invocations ds) ->
  length ds = S n /\ length (invocations ds) = S n /\
  e = fail_end (st_ret st) /\ closed_under_serve e = true.
Proof.
  intros k cn k' ds e n st H N F L.
  assert (G : length ds = S n /\ length (invocations ds) = S n /\ e = fail_end (st_ret st)).
  { unfold serve_conn in H.
    destruct (c_first cn) as [c|]; [|inversion H; subst; cbn in L; lia].
    destruct (Z.eqb c DC_AUTHENTICATE).
    - destruct (s_default (c_srv cn)); [|inversion H; subst; cbn in L; lia].
      destruct (handshake k (c_hs cn)) as [k2 [cs|]]; [|inversion H; subst; cbn in L; lia].
      inversion H as [[Hk Hl]]. eapply auth_loop_failure; eauto.
    - inversion H as [[Hk Hl]]. eapply raw_path_failure; eauto. }
  destruct G as [A [B C]]. repeat split; auto. rewrite C. apply fail_end_closed.
Qed.

(* ... hence every connection of every history *)
Theorem history_handler_failure : forall k evs ds e,
  In (ds, e) (run_history k evs) ->
  exists cn, In (EConn cn) evs /\
    forall n st, nth_error (c_steps cn) n = Some st -> handler_failed (st_ret st) ->
      n < length (invocations ds) ->
      length ds = S n /\ length (invocations ds) = S n /\
      e = fail_end (st_ret st) /\ closed_under_serve e = true.
Proof.
  intros k evs ds e Hin.
  destruct (run_history_in _ _ _ Hin) as [k0 [cn [k1 [A B]]]].
  exists cn. split; [exact A|]. intros n st N F L. eapply serve_conn_handler_failure; eauto.
Qed.

(* the connection ends in EPanic / is closed under Serve only for the reasons modelled *)
Lemma closed_under_serve_spec : forall e,
  closed_under_serve e = true <-> (e = EClosedOk \/ e = EClosedErr \/ e = EPanic).
Proof. destruct e; cbn; intuition discriminate. Qed.
