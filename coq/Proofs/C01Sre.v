(* Proofs/C01Sre.v — the StartMessageRead / ReadMessageBytes / EndMessageRead receive API. *)
From Coq Require Import List NArith ZArith Lia Bool.
From Cedar Require Import Lib.Bytes Lib.Sym gen.Consts Model.Frame Model.FrameSpec
     Proofs.FrameBase Proofs.C01Stream.
Import ListNotations.
Local Open Scope N_scope.

(* the receive buffer fields do not influence frame reception *)
Lemma fail_decrypt_rbuf s b r t i n :
  fail_decrypt (upd_rbuf s b r t i) n = upd_rbuf (fail_decrypt s n) b r t i.
Proof.
  unfold fail_decrypt. change (dec_ctr (upd_rbuf s b r t i)) with (dec_ctr s).
  destruct ((if dec_ctr s =? 0 then IvLenRecv + MinTagLen else MinTagLen) <=? n); reflexivity.
Qed.

Lemma recv_we_rbuf_indep s f b r t i :
  recv_frame_we (upd_rbuf s b r t i) f =
  match recv_frame_we s f with
  | (s1, SOk x) => (upd_rbuf s1 b r t i, SOk x)
  | (s1, SErr e) => (upd_rbuf s1 b r t i, SErr e)
  end.
Proof.
  unfold recv_frame_we, recv_frame_gen.
  change (max_wire (upd_rbuf s b r t i)) with (max_wire s).
  change (enc_active (upd_rbuf s b r t i)) with (enc_active s).
  destruct (max_wire s <? body_len (f_body f)); [reflexivity|].
  destruct (FlagMaxRecvWE <? f_flag f); [reflexivity|].
  destruct (body_len (f_body f) =? 0).
  - destruct (enc_active s); reflexivity.
  - unfold recv_body.
    change (enc_active (upd_rbuf s b r t i)) with (enc_active s).
    change (key (upd_rbuf s b r t i)) with (key s).
    destruct (enc_active s).
    + destruct (key s) as [k|]; [|reflexivity].
      unfold decrypt. cbv zeta. destruct (f_body f) as [bs|ivo c]; [rewrite fail_decrypt_rbuf; reflexivity|].
      change (dec_ctr (upd_rbuf s b r t i)) with (dec_ctr s).
      assert (Hw : forall div,
        match decrypt_with (upd_rbuf s b r t i) k (hdr_of (f_flag f) (body_len (Ct ivo c))) div c (body_len (Ct ivo c)) with
        | (s1, SOk d) => (note_recv s1 (hdr_of (f_flag f) (body_len (Ct ivo c)) ++ d), SOk (d, f_flag f))
        | (s1, SErr e) => (s1, SErr e)
        end =
        match match decrypt_with s k (hdr_of (f_flag f) (body_len (Ct ivo c))) div c (body_len (Ct ivo c)) with
              | (s1, SOk d) => (note_recv s1 (hdr_of (f_flag f) (body_len (Ct ivo c)) ++ d), SOk (d, f_flag f))
              | (s1, SErr e) => (s1, SErr e)
              end with
        | (s1, SOk x) => (upd_rbuf s1 b r t i, SOk x)
        | (s1, SErr e) => (upd_rbuf s1 b r t i, SErr e)
        end).
      { intro div. unfold decrypt_with.
        change (dec_ctr (upd_rbuf s b r t i)) with (dec_ctr s).
        change (aad_recv (upd_rbuf s b r t i)) with (aad_recv s).
        destruct (open k (nonce_of div (dec_ctr s)) (aad_recv s (hdr_of (f_flag f) (body_len (Ct ivo c)))) c);
          [reflexivity|rewrite fail_decrypt_rbuf; reflexivity]. }
      destruct (dec_ctr s =? 0); destruct ivo as [iv|]; try (rewrite fail_decrypt_rbuf; reflexivity).
      * destruct (lenN iv =? 16); [apply Hw|rewrite fail_decrypt_rbuf; reflexivity].
      * change (dec_iv (upd_rbuf s b r t i)) with (dec_iv s). apply Hw.
    + destruct (f_body f); reflexivity.
Qed.

Lemma duplex_upd_rbuf A B b r t i : duplex A B -> duplex A (upd_rbuf B b r t i).
Proof.
  intros [[a1 a2 a3 a4 a5 a6 a7 a8] [b1 b2 b3 b4 b5 b6 b7 b8]].
  split; constructor; proj_simpl; assumption.
Qed.

(* readNextFrame over a delivered message: the buffer grows by the message's bytes *)
Lemma read_next_delivers ds : forall B fs1 Bm dl f B2 rest b r t i,
  delivers B fs1 (partial_tr ds) Bm -> recv_frame_we Bm f = (B2, SOk (dl, EndFlagComplete)) ->
  read_next (upd_rbuf B b r t i) (fs1 ++ f :: rest) =
    (upd_rbuf B2 (b ++ concat ds ++ dl) r (lenN (b ++ concat ds ++ dl)) i, SOk tt, rest).
Proof.
  induction ds as [|d ds IH]; intros B fs1 Bm dl f B2 rest b r t i Hd Hr.
  - inversion Hd; subst. cbn [app read_next]. rewrite recv_we_rbuf_indep, Hr. proj_simpl.
    change (EndFlagComplete =? EndFlagPartial) with false. cbv iota. reflexivity.
  - cbn [partial_tr map] in Hd. inversion Hd as [|B' f' d' fl' Bn fs' dfs' Bz Hr1 Hd1]; subst.
    cbn [app read_next]. rewrite recv_we_rbuf_indep, Hr1. proj_simpl.
    rewrite N.eqb_refl.
    change (upd_rbuf (upd_rbuf Bn b r t i) (b ++ d) r (lenN (b ++ d)) i) with (upd_rbuf Bn (b ++ d) r (lenN (b ++ d)) i).
    rewrite (IH _ _ _ _ _ _ rest (b ++ d) r (lenN (b ++ d)) i Hd1 Hr).
    cbn [concat]. rewrite <- !app_assoc. reflexivity.
Qed.

Definition rclean (s : stream) : Prop :=
  in_msg s = false /\ recv_buf s = [] /\ bytes_read s = 0.

Lemma upd_rbuf_self s : rclean s -> total_msg s = 0 -> upd_rbuf s [] 0 0 false = s.
Proof. intros [H1 [H2 H3]] H4. destruct s; cbn in *; subst; reflexivity. Qed.

Lemma firstn_all_N (l : bytes) : firstn (N.to_nat (lenN l)) l = l.
Proof. rewrite lenN_spec, Nnat.Nat2N.id. apply firstn_all. Qed.

Lemma recv_one_sre m A B A1 fs rest :
  duplex A B -> rclean B -> send_msg A m = (A1, SOk fs) ->
  exists B1, recv_sre B (fs ++ rest) = (B1, SOk (payload_of m), rest) /\ duplex A1 B1 /\ rclean B1.
Proof.
  intros D [Hi [Hb Hr0]] Hs.
  destruct (send_msg_delivers _ _ _ _ _ D Hs) as [ds [dl [B1 [Hd [D1 Hp]]]]].
  destruct (delivers_split _ _ _ _ _ Hd) as [fs1 [f [Bm [-> [Hd1 Hr]]]]].
  unfold recv_sre, start_read. rewrite Hi. rewrite <- app_assoc. cbn [app].
  assert (HB : B = upd_rbuf B (recv_buf B) (bytes_read B) (total_msg B) (in_msg B)) by (destruct B; reflexivity).
  pose proof (read_next_delivers ds B fs1 Bm dl f B1 rest (recv_buf B) (bytes_read B) (total_msg B) (in_msg B) Hd1 Hr) as Hrn.
  rewrite <- HB in Hrn. rewrite Hrn. clear Hrn HB.
  rewrite Hb, Hr0, Hi. cbn [app]. proj_simpl.
  set (buf := concat ds ++ dl).
  destruct (lenN buf =? 0) eqn:E0.
  - apply N.eqb_eq in E0. pose proof (lenN_zero_nil _ E0) as Hnil.
    unfold end_read. proj_simpl. rewrite E0. cbn [negb N.ltb N.compare].
    exists (upd_rbuf B1 [] 0 0 false). split; [rewrite <- Hp; fold buf; rewrite Hnil; reflexivity|].
    split; [apply duplex_upd_rbuf; exact D1|]. repeat split.
  - unfold read_bytes. proj_simpl. cbn [negb].
    rewrite N.sub_0_r, E0. rewrite N.min_id. cbn [skipn N.to_nat].
    rewrite firstn_all_N.
    unfold end_read. proj_simpl. cbn [negb]. rewrite N.add_0_l, N.ltb_irrefl.
    exists (upd_rbuf B1 [] 0 0 false). split; [rewrite <- Hp; reflexivity|].
    split; [apply duplex_upd_rbuf; exact D1|]. repeat split.
Qed.

Lemma roundtrip_sre : forall h A B A1 fs rest,
  duplex A B -> rclean B -> send_all A h = (A1, SOk fs) ->
  exists B1, recv_upto ApiStartReadEnd B (length h) (fs ++ rest) = (B1, map payload_of h, None, rest) /\
             duplex A1 B1 /\ rclean B1.
Proof.
  induction h as [|m h IH]; intros A B A1 fs rest D C Hs; cbn [send_all] in Hs.
  - injection Hs as <- <-. exists B. split; [reflexivity|split; assumption].
  - destruct (send_msg A m) as [A2 [fs1|e]] eqn:E1; [|discriminate].
    destruct (send_all A2 h) as [A3 [fs2|e]] eqn:E2; [|discriminate].
    injection Hs as <- <-.
    cbn [length recv_upto map recv_one]. rewrite <- app_assoc.
    destruct (recv_one_sre _ _ _ _ _ (fs2 ++ rest) D C E1) as [B2 [Hr [D2 C2]]]. rewrite Hr.
    destruct (IH _ _ _ _ rest D2 C2 E2) as [B3 [Hr3 [D3 C3]]]. rewrite Hr3.
    exists B3. split; [reflexivity|split; assumption].
Qed.

(* ---- both directions, any interleaving of whole histories ----------------- *)
Lemma duplex_sym A B : duplex A B -> duplex B A.
Proof. intros [P Q]. split; assumption. Qed.

(* a session = a list of phases; in each phase one side sends a history and the other reads it *)
Inductive sess_res :=
| SessDone (A B : stream) (out : list (list bytes))
| SessSendRefused          (* some send was refused by the sender (too large / counter guard) *)
| SessRecvFailed.          (* the receiver raised an error or returned something else *)

Fixpoint session (api : rapi) (A B : stream) (phases : list (bool * list msg)) : sess_res :=
  match phases with
  | [] => SessDone A B []
  | (a_sends, h) :: rest =>
      let '(Sd, Rc) := if a_sends then (A, B) else (B, A) in
      match send_all Sd h with
      | (Sd1, SOk fs) =>
          let '(Rc1, got, e, lft) := recv_upto api Rc (length h) fs in
          match e, lft with
          | None, [] =>
              match (if a_sends then session api Sd1 Rc1 rest else session api Rc1 Sd1 rest) with
              | SessDone A2 B2 more => SessDone A2 B2 (got :: more)
              | r => r
              end
          | _, _ => SessRecvFailed
          end
      | (_, SErr _) => SessSendRefused
      end
  end.

(* whatever the interleaving of directions: the receiver never fails, and if no send is
   refused every phase delivers exactly what was sent *)
Lemma session_roundtrip api : api = ApiComplete \/ api = ApiMessage ->
  forall phases A B, duplex A B ->
    match session api A B phases with
    | SessDone A' B' out => out = map (fun p => map payload_of (snd p)) phases /\ duplex A' B'
    | SessSendRefused => True
    | SessRecvFailed => False
    end.
Proof.
  intros Hapi. induction phases as [|[a_sends h] rest IH]; intros A B D.
  - cbn [session map]. split; [reflexivity|exact D].
  - cbn [session]. destruct a_sends.
    + destruct (send_all A h) as [Sd1 [fs|e]] eqn:Es; [|exact I].
      destruct (roundtrip_simple api Hapi h A B Sd1 fs [] D Es) as [Rc1 [Hr D1]]. rewrite app_nil_r in Hr. rewrite Hr.
      specialize (IH Sd1 Rc1 D1).
      destruct (session api Sd1 Rc1 rest) as [A2 B2 more| |]; [|exact I|exact IH].
      destruct IH as [-> D2]. split; [reflexivity|exact D2].
    + destruct (send_all B h) as [Sd1 [fs|e]] eqn:Es; [|exact I].
      destruct (roundtrip_simple api Hapi h B A Sd1 fs [] (duplex_sym _ _ D) Es) as [Rc1 [Hr D1]]. rewrite app_nil_r in Hr. rewrite Hr.
      specialize (IH Rc1 Sd1 (duplex_sym _ _ D1)).
      destruct (session api Rc1 Sd1 rest) as [A2 B2 more| |]; [|exact I|exact IH].
      destruct IH as [-> D2]. split; [reflexivity|exact D2].
Qed.
