(* Proofs/C09Layout.v — keyed, non-encrypting stream: what travels in clear frames and what in sealed frames. *)
From Coq Require Import List NArith ZArith Lia Bool.
From Cedar Require Import Lib.Bytes gen.Consts Model.Msg Model.Privacy Model.AdWire Proofs.C14Writer.
Import ListNotations.
Local Open Scope N_scope.

Definition mode_bytes (m : bool) (fs : list tframe) : bytes :=
  concat (map (fun f : tframe => fst (snd f)) (filter (fun f : tframe => Bool.eqb (fst f) m) fs)).

(* payload bytes written (or still buffered) in the clear / under the seal *)
Definition cbytes (st : sstate) : bytes := mode_bytes false (s_out st) ++ (if sealed_now st then [] else s_buf st).
Definition sbytes (st : sstate) : bytes := mode_bytes true (s_out st) ++ (if sealed_now st then s_buf st else []).

Lemma mode_bytes_app m a b : mode_bytes m (a ++ b) = mode_bytes m a ++ mode_bytes m b.
Proof. unfold mode_bytes. rewrite filter_app, map_app, concat_app. reflexivity. Qed.

Lemma mode_bytes_same m (new : list mframe) : mode_bytes m (map (fun fr => (m, fr)) new) = concat (map fst new).
Proof.
  unfold mode_bytes. induction new as [|f r IH]; [reflexivity|]. cbn [map filter fst]. rewrite eqb_reflx.
  cbn [map concat snd fst]. rewrite IH. reflexivity.
Qed.
Lemma mode_bytes_other m (new : list mframe) : mode_bytes (negb m) (map (fun fr => (m, fr)) new) = [].
Proof.
  unfold mode_bytes. induction new as [|f r IH]; [reflexivity|]. cbn [map filter fst].
  destruct m; cbn [negb Bool.eqb]; exact IH.
Qed.

Lemma s_lift_clear f st delta : sealed_now st = false ->
  (forall buf, content (f {| w_buf := buf; w_out := [] |}) = buf ++ delta) ->
  cbytes (s_lift f st) = cbytes st ++ delta /\ sbytes (s_lift f st) = sbytes st.
Proof.
  intros Hm H. unfold cbytes, sbytes, s_lift, sealed_now in *. cbn [s_out s_buf s_key s_enc]. rewrite Hm.
  rewrite !mode_bytes_app. specialize (H (s_buf st)). unfold content in H.
  rewrite mode_bytes_same. change true with (negb false). rewrite mode_bytes_other.
  rewrite !app_nil_r, <- !app_assoc. split; [f_equal; exact H|reflexivity].
Qed.

Lemma s_lift_sealed f st delta : sealed_now st = true ->
  (forall buf, content (f {| w_buf := buf; w_out := [] |}) = buf ++ delta) ->
  sbytes (s_lift f st) = sbytes st ++ delta /\ cbytes (s_lift f st) = cbytes st.
Proof.
  intros Hm H. unfold cbytes, sbytes, s_lift, sealed_now in *. cbn [s_out s_buf s_key s_enc]. rewrite Hm.
  rewrite !mode_bytes_app. specialize (H (s_buf st)). unfold content in H.
  rewrite mode_bytes_same. change false with (negb true). rewrite mode_bytes_other.
  rewrite !app_nil_r, <- !app_assoc. split; [f_equal; exact H|reflexivity].
Qed.

Definition marker_state (st : sstate) : Prop := s_key st = true /\ s_enc st = false.

Lemma plain_put_string st s : marker_state st ->
  cbytes (s_put_string st s) = cbytes st ++ string_bytes false s /\ sbytes (s_put_string st s) = sbytes st
  /\ marker_state (s_put_string st s).
Proof.
  intros [K E]. unfold s_put_string. rewrite E.
  destruct (s_lift_clear (fun w => put_string false w s) st (string_bytes false s)) as [A B].
  - unfold sealed_now. rewrite K, E. reflexivity.
  - intro buf. rewrite content_put_string. reflexivity.
  - repeat split; assumption.
Qed.

Lemma plain_put_int st z : marker_state st ->
  cbytes (s_put_int st z) = cbytes st ++ enc_int z /\ sbytes (s_put_int st z) = sbytes st /\ marker_state (s_put_int st z).
Proof.
  intros [K E]. unfold s_put_int.
  destruct (s_lift_clear (fun w => put_int w z) st (enc_int z)) as [A B].
  - unfold sealed_now. rewrite K, E. reflexivity.
  - intro buf. rewrite content_put_int. reflexivity.
  - repeat split; assumption.
Qed.

Lemma restore_layout st : s_key st = true -> s_saved st = false -> s_buf st = [] ->
  cbytes (s_restore st) = cbytes st /\ sbytes (s_restore st) = sbytes st /\ marker_state (s_restore st).
Proof.
  intros K V B. unfold cbytes, sbytes, sealed_now, marker_state, s_restore.
  cbn [s_out s_buf s_key s_enc s_saved]. rewrite K, V, B. cbn [andb].
  destruct (s_enc st); rewrite ?app_nil_r; auto.
Qed.

Lemma prepare_layout st : s_key st = true -> s_enc st = false -> s_buf st = [] ->
  cbytes (s_prepare st) = cbytes st /\ sbytes (s_prepare st) = sbytes st /\
  s_key (s_prepare st) = true /\ s_enc (s_prepare st) = true /\ s_saved (s_prepare st) = false /\ s_buf (s_prepare st) = [].
Proof.
  intros K E B. unfold cbytes, sbytes, sealed_now, s_prepare.
  cbn [s_out s_buf s_key s_enc s_saved]. rewrite K, E, B. cbn [andb negb]. rewrite ?app_nil_r. repeat split; reflexivity.
Qed.

(* putSecretExpr: the marker in the clear, the expression under the seal *)
Lemma secret_layout st e : marker_state st ->
  cbytes (put_secret_expr st e) = cbytes st ++ string_bytes false secret_marker /\
  sbytes (put_secret_expr st e) = sbytes st ++ string_bytes true e /\
  marker_state (put_secret_expr st e).
Proof.
  intros M. pose proof M as [K E]. unfold put_secret_expr.
  destruct (plain_put_string st secret_marker M) as (C1 & S1 & M1).
  set (st1 := s_put_string st secret_marker) in *.
  destruct (s_lift_clear (fun w => flush w false) st1 []) as [C2 S2].
  { destruct M1 as [K1 E1]. unfold sealed_now. rewrite K1, E1. reflexivity. }
  { intro buf. rewrite content_flush, app_nil_r. reflexivity. }
  fold (s_flush st1 false) in C2, S2. set (st2 := s_flush st1 false) in *.
  assert (B2 : s_buf st2 = []) by reflexivity.
  assert (F2 : s_key st2 = true /\ s_enc st2 = false) by (destruct M1; split; assumption).
  destruct F2 as [K2 E2].
  destruct (prepare_layout st2 K2 E2 B2) as (C3 & S3 & K3 & E3 & V3 & B3).
  set (st3 := s_prepare st2) in *.
  destruct (s_lift_sealed (fun w => put_string true w e) st3 (string_bytes true e)) as [S4 C4].
  { unfold sealed_now. rewrite K3, E3. reflexivity. }
  { intro buf. rewrite content_put_string. reflexivity. }
  assert (P4 : s_put_string st3 e = s_lift (fun w => put_string true w e) st3) by (unfold s_put_string; rewrite E3; reflexivity).
  rewrite <- P4 in S4, C4. set (st4 := s_put_string st3 e) in *.
  assert (F4 : s_key st4 = true /\ s_enc st4 = true /\ s_saved st4 = false) by (unfold st4, s_put_string, s_lift; cbn; auto).
  destruct F4 as (K4 & E4 & V4).
  destruct (s_lift_sealed (fun w => flush w false) st4 []) as [S5 C5].
  { unfold sealed_now. rewrite K4, E4. reflexivity. }
  { intro buf. rewrite content_flush, app_nil_r. reflexivity. }
  fold (s_flush st4 false) in S5, C5. set (st5 := s_flush st4 false) in *.
  assert (F5 : s_key st5 = true /\ s_saved st5 = false /\ s_buf st5 = []) by (unfold st5, s_flush, s_lift; cbn; auto).
  destruct F5 as (K5 & V5 & B5).
  pose proof (restore_layout st5 K5 V5 B5) as R.
  destruct R as (C6 & S6 & M6).
  rewrite C6, S6, C5, S5, C4, S4, C3, S3, C2, S2, C1, S1, !app_nil_r. auto.
Qed.

Definition secret_attr' (c : config) (a : attr) : bool := is_private_any (fst a) || in_list (fst a) (c_enc_attrs c).
Definition clear_item (c : config) (a : attr) : bytes :=
  string_bytes false (if secret_attr' c a then secret_marker else expr_text a).

Lemma fold_layout c l : forall st, marker_state st ->
  cbytes (fold_left (put_one c true) l st) = cbytes st ++ concat (map (clear_item c) l) /\
  sbytes (fold_left (put_one c true) l st) =
    sbytes st ++ concat (map (fun a => string_bytes true (expr_text a)) (filter (secret_attr' c) l)) /\
  marker_state (fold_left (put_one c true) l st).
Proof.
  induction l as [|a l IH]; intros st M; cbn [fold_left map concat filter].
  - rewrite !app_nil_r. auto.
  - unfold put_one at 2 4 6. cbn [andb]. unfold clear_item at 1. fold (secret_attr' c a).
    destruct (secret_attr' c a).
    + destruct (secret_layout st (expr_text a) M) as (C1 & S1 & M1).
      destruct (IH _ M1) as (C2 & S2 & M2). rewrite C2, S2, C1, S1. cbn [map concat].
      rewrite <- !app_assoc. auto.
    + destruct (plain_put_string st (expr_text a) M) as (C1 & S1 & M1).
      destruct (IH _ M1) as (C2 & S2 & M2). rewrite C2, S2, C1, S1. rewrite <- !app_assoc. auto.
Qed.

(* the whole ad on a keyed, non-encrypting stream *)
Lemma marker_layout c a :
  let st := s_finish (put_ad c (sstate_init true false) a) in
  let send := attrs_to_send c (ad_attrs a) in
  cbytes st =
    enc_int (Z.of_nat (length send) + (if opt_server_time (c_opts c) then 1 else 0)) ++
    (if opt_server_time (c_opts c) then string_bytes false server_time_expr else []) ++
    concat (map (clear_item c) send) ++
    (if opt_no_types (c_opts c) then [] else string_bytes false (ad_mytype a) ++ string_bytes false (ad_targettype a))
  /\ sbytes st = concat (map (fun x => string_bytes true (expr_text x)) (filter (secret_attr' c) send)).
Proof.
  cbv zeta. unfold s_finish.
  set (st := put_ad c (sstate_init true false) a).
  assert (G : cbytes st = enc_int (Z.of_nat (length (attrs_to_send c (ad_attrs a))) + (if opt_server_time (c_opts c) then 1 else 0)) ++
    (if opt_server_time (c_opts c) then string_bytes false server_time_expr else []) ++
    concat (map (clear_item c) (attrs_to_send c (ad_attrs a))) ++
    (if opt_no_types (c_opts c) then [] else string_bytes false (ad_mytype a) ++ string_bytes false (ad_targettype a))
    /\ sbytes st = concat (map (fun x => string_bytes true (expr_text x)) (filter (secret_attr' c) (attrs_to_send c (ad_attrs a))))
    /\ marker_state st).
  { unfold st, put_ad. cbv zeta.
    set (n := (Z.of_nat _ + _)%Z).
    assert (M0 : marker_state (sstate_init true false)) by (split; reflexivity).
    destruct (plain_put_int _ n M0) as (C1 & S1 & M1). set (st1 := s_put_int (sstate_init true false) n) in *.
    set (st2 := if opt_server_time (c_opts c) then s_put_string st1 server_time_expr else st1).
    assert (H2 : cbytes st2 = enc_int n ++ (if opt_server_time (c_opts c) then string_bytes false server_time_expr else [])
                 /\ sbytes st2 = [] /\ marker_state st2).
    { subst st2. destruct (opt_server_time (c_opts c)).
      - destruct (plain_put_string st1 server_time_expr M1) as (C2 & S2 & M2). rewrite C2, S2, C1, S1. auto.
      - rewrite C1, S1, app_nil_r. auto. }
    destruct H2 as (C2 & S2 & M2). pose proof M2 as [K2 E2]. rewrite K2, E2. cbn [secret_is_noop negb orb].
    destruct (fold_layout c (attrs_to_send c (ad_attrs a)) st2 M2) as (C3 & S3 & M3).
    destruct (opt_no_types (c_opts c)).
    - rewrite C3, S3, C2, S2, app_nil_r, <- !app_assoc. auto.
    - destruct (plain_put_string _ (ad_mytype a) M3) as (C4 & S4 & M4).
      destruct (plain_put_string _ (ad_targettype a) M4) as (C5 & S5 & M5).
      rewrite C5, S5, C4, S4, C3, S3, C2, S2, <- !app_assoc. auto. }
  destruct G as (C & S & M).
  destruct (s_lift_clear (fun w => flush w true) st []) as [C' S'].
  { destruct M as [K E]. unfold sealed_now. rewrite K, E. reflexivity. }
  { intro buf. rewrite content_flush, app_nil_r. reflexivity. }
  fold (s_flush st true) in C', S'. rewrite C', S', app_nil_r, C, S. auto.
Qed.
