(* Proofs/C16Mint.v — under the explicit predicate claim_safe the registered session
   reflects the minting options: toggles, commands, short version, expiry. *)
From Coq Require Import List NArith ZArith Lia Bool.
From Cedar Require Import Lib.Bytes Lib.SymC16 Model.ClaimId
  Proofs.C16Str Proofs.C16Dec Proofs.C16Info Proofs.C16Main.
Import ListNotations.

(* the decidable predicate on minting options: no ';' and no '.' in the cipher list,
   no ';' in the short form of the version.  Sinful, identities, tag, addresses,
   toggles, command lists, lifetimes and birthdate/sequence are unconstrained. *)
Definition claim_safe (o : mint_opts) : bool :=
  negb (contains ch_semi (mint_crypto o)) && negb (contains ch_dot (mint_crypto o))
  && negb (contains ch_semi (short_version (mo_version o))).

Definition wire_valid (o : mint_opts) : option bytes :=
  match mo_valid o with [] => None | _ => Some (join_ints (mo_valid o)) end.
Definition wire_version (o : mint_opts) : option bytes :=
  if is_nil (mo_version o) then None else Some (mo_version o).

Lemma wire_get o now :
  let w := mint_wire o now in
  get_str w A_Encryption = Some (yes_no (mo_enc o))
  /\ get_str w A_Integrity = Some (yes_no (mo_integ o))
  /\ get_str w A_CryptoMethods = Some (mint_crypto o)
  /\ get_str w A_RemoteVersion = wire_version o
  /\ get_str w A_ValidCommands = wire_valid o
  /\ get_int w A_SessionExpires
     = (if (0 <? mo_lifetime_ns o)%Z then Some (expires_at now (mo_lifetime_ns o)) else None)
  /\ get_str w A_SessionExpires = None.
Proof.
  unfold mint_wire, wire_valid, wire_version.
  destruct (is_nil (mo_version o)), (mo_valid o), (0 <? mo_lifetime_ns o)%Z; repeat split; reflexivity.
Qed.

Lemma ne_yes_no x : ne (Some (yes_no x)) = Some (yes_no x).
Proof. destruct x as [[|]|]; reflexivity. Qed.
Lemma yes_no_safe x : contains ch_semi (yes_no x) = false.
Proof. destruct x as [[|]|]; reflexivity. Qed.

Lemma join_with_nonnil c x l : x <> [] -> join_with c (x :: l) <> [].
Proof.
  intro H. simpl. destruct l; [exact H|].
  intro E. apply app_eq_nil in E as [E _]. contradiction.
Qed.
Lemma ne_wire_valid o : ne (wire_valid o) = wire_valid o.
Proof.
  unfold wire_valid. destruct (mo_valid o) as [|z l]; [reflexivity|].
  unfold join_ints. cbn [map].
  pose proof (dec_of_Z_nonnil z) as H.
  destruct (dec_of_Z z) as [|b r]; [congruence|].
  destruct (map dec_of_Z l); reflexivity.
Qed.
Lemma ne_wire_version o : ne (wire_version o) = wire_version o.
Proof. unfold wire_version. destruct (mo_version o); reflexivity. Qed.
Lemma ne_mint_crypto o : ne (Some (mint_crypto o)) = Some (mint_crypto o).
Proof. unfold mint_crypto. destruct (mo_crypto o); reflexivity. Qed.

Lemma wire_safe o now : claim_safe o = true -> policy_safe (mint_wire o now) = true.
Proof.
  unfold claim_safe. intro H.
  apply andb_true_iff in H as [H H3]. apply andb_true_iff in H as [H1 H2].
  destruct (wire_get o now) as (Ee & Ei & Ec & Ev & Evc & _ & _).
  unfold policy_safe, str_safe. rewrite Ee, Ei, Ec, Ev, Evc.
  rewrite !ne_yes_no, !yes_no_safe, ne_wire_valid, ne_wire_version, ne_mint_crypto, H1, H2.
  cbn [negb andb].
  assert (match wire_valid o with Some v => negb (contains ch_semi v) | None => true end = true) as ->.
  { unfold wire_valid. destruct (mo_valid o); [reflexivity|]. rewrite cmd_char_not by reflexivity. reflexivity. }
  unfold wire_version. destruct (is_nil (mo_version o)); [reflexivity|exact H3].
Qed.

Lemma get_str_finish n p sid u proto :
  bytes_eqb A_CryptoMethods n = false -> bytes_eqb A_Authenticated n = false ->
  bytes_eqb A_User n = false -> bytes_eqb A_AuthMethods n = false ->
  bytes_eqb A_NegotiatedSession n = false -> bytes_eqb A_Enact n = false ->
  bytes_eqb A_Sid n = false -> bytes_eqb A_SecUseSession n = false ->
  get_str (finish_policy p sid u proto) n = get_str p n.
Proof.
  intros. unfold finish_policy. rewrite !get_str_pset.
  repeat match goal with H : bytes_eqb _ n = false |- _ => rewrite H; clear H end. reflexivity.
Qed.

Lemma get_str_finish_crypto p sid u proto :
  get_str (finish_policy p sid u proto) A_CryptoMethods = Some proto.
Proof. unfold finish_policy. rewrite get_str_pset. reflexivity. Qed.

Definition int64_pos (z : Z) : Prop := (0 < z < 9223372036854775808)%Z.

Lemma mint_reflects o secret now m :
  mint o secret now = Ok m ->
  let pol := e_policy (m_entry m) in
  get_str pol A_Encryption = Some (yes_no (mo_enc o))
  /\ get_str pol A_Integrity = Some (yes_no (mo_integ o))
  /\ get_str pol A_CryptoMethods = Some S_AESGCM
  /\ get_str pol A_ValidCommands = wire_valid o
  /\ get_str pol A_RemoteVersion = option_map short_version (wire_version o)
  /\ ((0 < mo_lifetime_ns o)%Z -> int64_pos (expires_at now (mo_lifetime_ns o)) ->
      get_str pol A_SessionExpires = Some (dec_of_Z (expires_at now (mo_lifetime_ns o)))
      /\ e_expiry (m_entry m) = ExpAbs (expires_at now (mo_lifetime_ns o)))
  /\ ((mo_lifetime_ns o <= 0)%Z ->
      get_str pol A_SessionExpires = None /\ e_expiry (m_entry m) = ExpNone).
Proof.
  intros Hm.
  destruct (mint_inv _ _ _ _ Hm) as (info & e & cmds & He & Hr & -> & _). cbn [m_entry].
  destruct (register_inv _ _ _ _ _ _ _ _ _ _ _ Hr) as (q & Hi & _ & _ & -> & _).
  destruct (policy_roundtrip _ _ He) as (q' & Hi' & Ri & Re & Rv & Rc & Rx & Rr).
  rewrite Hi in Hi'. inversion Hi'; subst q'. clear Hi'.
  destruct (wire_get o now) as (Ee & Ei & Ec & Ev & Evc & Eint & Estr).
  unfold registered. cbn [e_policy e_expiry].
  set (u := if is_nil (mo_peer_fqu o) then S_submit_side else mo_peer_fqu o).
  rewrite Ei, ne_yes_no in Ri. rewrite Ee, ne_yes_no in Re. rewrite Evc, ne_wire_valid in Rv.
  rewrite Ev, ne_wire_version in Rr.
  repeat split.
  - rewrite get_str_finish by reflexivity. exact Re.
  - rewrite get_str_finish by reflexivity. exact Ri.
  - apply get_str_finish_crypto.
  - rewrite get_str_finish by reflexivity. exact Rv.
  - rewrite get_str_finish by reflexivity. exact Rr.
  - rewrite get_str_finish by reflexivity. rewrite Rx.
    unfold exported_expires. rewrite Eint.
    assert ((0 <? mo_lifetime_ns o)%Z = true) as -> by lia.
    assert ((expires_at now (mo_lifetime_ns o) =? 0)%Z = false) as -> by (unfold int64_pos in *; lia).
    reflexivity.
  - unfold claim_expiration. rewrite get_str_finish by reflexivity. rewrite Rx.
    unfold exported_expires. rewrite Eint.
    assert ((0 <? mo_lifetime_ns o)%Z = true) as -> by lia.
    assert ((expires_at now (mo_lifetime_ns o) =? 0)%Z = false) as -> by (unfold int64_pos in *; lia).
    cbn [option_map]. rewrite dec_of_Z_trim, parse_int64_dec by (unfold int64_pos in *; lia).
    assert ((0 <? expires_at now (mo_lifetime_ns o))%Z = true) as -> by (unfold int64_pos in *; lia).
    reflexivity.
  - rewrite get_str_finish by reflexivity. rewrite Rx.
    unfold exported_expires. rewrite Eint, Estr.
    assert ((0 <? mo_lifetime_ns o)%Z = false) as -> by lia. reflexivity.
  - unfold claim_expiration. rewrite get_str_finish by reflexivity. rewrite Rx.
    unfold exported_expires. rewrite Eint, Estr.
    assert ((0 <? mo_lifetime_ns o)%Z = false) as -> by lia. reflexivity.
Qed.

(* ---- claim_safe holds for the realistic option shapes ----------------------- *)
(* cipher lists: names over [A-Za-z0-9_-] separated by ',' and blanks *)
Definition cipher_char (b : byte) : bool :=
  let n := b2n b in
  ((48 <=? n) && (n <=? 57) || (65 <=? n) && (n <=? 90) || (97 <=? n) && (n <=? 122)
   || (n =? 95) || (n =? 45) || (n =? 44) || (n =? 32))%N.

Lemma cipher_list_safe s :
  forallb cipher_char s = true -> contains ch_semi s = false /\ contains ch_dot s = false.
Proof. intro H. split; eapply forallb_contains; try exact H; reflexivity. Qed.

(* whatever the version string is, its short form contains only bytes of the original *)
Lemma fields_aux_sub c : forall s cur,
  contains c s = false -> contains c cur = false ->
  Forall (fun tok => contains c tok = false) (fields_aux cur s).
Proof.
  induction s as [|x s IH]; intros cur Hs Hc; simpl.
  - destruct (is_nil cur); constructor; [|constructor].
    rewrite <- (rev_involutive cur) in Hc.
    clear - Hc. revert Hc. generalize (rev cur). intros l Hc.
    assert (G : forall l, contains c (rev l) = false -> contains c l = false).
    { induction l0 as [|y l0 IHl]; simpl; intro H; [reflexivity|].
      rewrite contains_app in H. apply orb_false_iff in H as [H1 H2]. simpl in H2.
      apply orb_false_iff in H2 as [H2 _]. rewrite H2, (IHl H1). reflexivity. }
    apply G. exact Hc.
  - simpl in Hs. apply orb_false_iff in Hs as [Hx Hs].
    assert (Hrev : contains c (rev cur) = false).
    { clear - Hc. induction cur as [|y l IHl]; simpl in *; [reflexivity|].
      apply orb_false_iff in Hc as [H1 H2]. rewrite contains_app, (IHl H2). simpl. rewrite H1. reflexivity. }
    destruct (is_space x).
    + destruct (is_nil cur); [apply IH; [exact Hs|reflexivity]|].
      constructor; [exact Hrev|apply IH; [exact Hs|reflexivity]].
    + apply IH; [exact Hs|]. simpl. rewrite Hx, Hc. reflexivity.
Qed.

Lemma contains_trim_right_set c f s : contains c s = false -> contains c (trim_right_set f s) = false.
Proof.
  induction s as [|x s IH]; simpl; intro H; [reflexivity|].
  apply orb_false_iff in H as [H1 H2]. specialize (IH H2).
  destruct (trim_right_set f s) eqn:E.
  - destruct (f x); simpl; [reflexivity|rewrite H1; reflexivity].
  - simpl in *. rewrite H1. exact IH.
Qed.

Lemma short_version_sub c v : contains c v = false -> contains c (short_version v) = false.
Proof.
  intro H. unfold short_version. destruct (negb _); [exact H|].
  destruct (find version_token (fields v)) as [tok|] eqn:E; [|exact H].
  apply find_some in E as [Hin _].
  pose proof (fields_aux_sub c v [] H eq_refl) as F. rewrite Forall_forall in F.
  apply contains_trim_right_set. apply F. exact Hin.
Qed.

(* hence: a cipher list over the usual alphabet and a version free of ';' are safe *)
Lemma claim_safe_realistic o :
  forallb cipher_char (mo_crypto o) = true ->
  contains ch_semi (mo_version o) = false ->
  claim_safe o = true.
Proof.
  intros Hc Hv. unfold claim_safe.
  assert (Hm : forallb cipher_char (mint_crypto o) = true).
  { unfold mint_crypto. destruct (is_nil (mo_crypto o)); [reflexivity|exact Hc]. }
  destruct (cipher_list_safe _ Hm) as [-> ->]. rewrite (short_version_sub _ _ Hv). reflexivity.
Qed.

(* what the refusal means at the mint level: unsafe cipher list / version => no claim is minted *)
Lemma wire_safe_iff o now : policy_safe (mint_wire o now) = claim_safe o.
Proof.
  destruct (wire_get o now) as (Ee & Ei & Ec & Ev & Evc & _ & _).
  unfold policy_safe, str_safe, claim_safe. rewrite Ee, Ei, Ec, Ev, Evc.
  rewrite !ne_yes_no, !yes_no_safe, ne_wire_valid, ne_wire_version, ne_mint_crypto.
  cbn [negb andb].
  assert (match wire_valid o with Some v => negb (contains ch_semi v) | None => true end = true) as ->.
  { unfold wire_valid. destruct (mo_valid o); [reflexivity|]. rewrite cmd_char_not by reflexivity. reflexivity. }
  cbn [andb]. unfold wire_version. destruct (is_nil (mo_version o)) eqn:En.
  - destruct (mo_version o); [|discriminate]. rewrite andb_true_r.
    assert (contains ch_semi (short_version []) = false) as -> by reflexivity. rewrite andb_true_r. reflexivity.
  - reflexivity.
Qed.

Lemma unsafe_options_refused o secret now : claim_safe o = false -> mint o secret now = Err.
Proof.
  intro H. unfold mint. destruct (is_nil (mo_sinful o)); [reflexivity|].
  destruct (negb _); [reflexivity|].
  rewrite (export_unsafe_refused (mint_wire o now)) by (rewrite wire_safe_iff; exact H). reflexivity.
Qed.

Lemma mint_ok_safe o secret now m : mint o secret now = Ok m -> claim_safe o = true.
Proof.
  intro H. destruct (claim_safe o) eqn:E; [reflexivity|].
  rewrite (unsafe_options_refused o secret now E) in H. discriminate.
Qed.
