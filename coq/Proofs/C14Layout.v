(* Proofs/C14Layout.v — the bytes the model writer emits equal a format definition
   written directly from the protocol description (restated verbatim in Props/C14.v,
   where the theorems are closed by conversion against these definitions). *)
From Coq Require Import List NArith ZArith Lia Bool ZifyBool ZifyNat ZifyN.
From Cedar Require Import Lib.Bytes gen.Consts Model.Msg Proofs.C14Writer.
Import ListNotations.
Local Open Scope Z_scope.

(* integer: sign-extended to 64 bits, two's complement (a negative z travels as
   2^64 + z), most significant byte first *)
Definition lay_u64 (z : Z) : Z := if z <? 0 then 2 ^ 64 + z else z.
Definition lay_byte (u : Z) (k : Z) : byte := n2b (Z.to_N ((u / 256 ^ k) mod 256)).
Definition lay_int (z : Z) : bytes :=
  let u := lay_u64 z in
  [lay_byte u 7; lay_byte u 6; lay_byte u 5; lay_byte u 4;
   lay_byte u 3; lay_byte u 2; lay_byte u 1; lay_byte u 0].
(* string: the bytes before the first NUL, then the NUL terminator *)
Fixpoint lay_cstr (s : bytes) : bytes :=
  match s with
  | [] => [x00]
  | b :: r => if byte_eqb b x00 then [x00] else b :: lay_cstr r
  end.
(* on an encrypted stream preceded by its length (terminator included) as an integer *)
Definition lay_string (encrypted : bool) (s : bytes) : bytes :=
  (if encrypted then lay_int (Z.of_nat (length (lay_cstr s))) else []) ++ lay_cstr s.
Definition lay_op (encrypted : bool) (o : wop) : bytes :=
  match o with
  | WChar c => [c]
  | WInt z => lay_int z
  | WStr s | WStrB s => lay_string encrypted s
  | WBytes bs => bs
  | WFlush => []
  end.
(* values the Go types can hold: int64 integers; the encrypted length prefix is an int32 *)
Definition lay_ok (encrypted : bool) (o : wop) : Prop :=
  match o with
  | WInt z => - 2 ^ 63 <= z < 2 ^ 63
  | WStr s | WStrB s => encrypted = true -> Z.of_nat (length (lay_cstr s)) < 2 ^ 31
  | _ => True
  end.

Lemma n2b_mod n : n2b (n mod 256) = n2b n.
Proof. unfold n2b. rewrite N.mod_mod by lia. reflexivity. Qed.

Lemma n2b_div_pos (u : Z) (p : positive) : 0 <= u ->
  n2b (Z.to_N u / Npos p) = n2b (Z.to_N ((u / Zpos p) mod 256)).
Proof.
  intro H. rewrite <- n2b_mod. f_equal.
  rewrite Z2N.inj_mod by (try apply Z.div_pos; lia).
  rewrite Z2N.inj_div by lia. reflexivity.
Qed.

Lemma enc_int_layout z : - 2 ^ 63 <= z < 2 ^ 63 -> enc_int z = lay_int z.
Proof.
  intro R. unfold enc_int, lay_int.
  assert (E : z mod 2 ^ 64 = lay_u64 z).
  { unfold lay_u64. destruct (z <? 0) eqn:N.
    - symmetry. apply (Z.mod_unique _ _ (-1)); lia.
    - apply Z.mod_small. lia. }
  rewrite E.
  assert (U : 0 <= lay_u64 z) by (unfold lay_u64; destruct (z <? 0) eqn:N; lia).
  generalize dependent (lay_u64 z). intros u _ U.
  cbn [be_enc]. unfold lay_byte.
  repeat (f_equal; [match goal with |- n2b (_ / ?d) = n2b (Z.to_N ((_ / ?e) mod 256)) =>
                      let p := eval vm_compute in (Z.to_pos e) in
                      exact (n2b_div_pos u p U) end|]).
  f_equal. exact (n2b_div_pos u 1 U).
Qed.

Lemma upto_nul_lay s : upto_nul s ++ [x00] = lay_cstr s.
Proof.
  induction s as [|b r IH]; cbn [upto_nul lay_cstr app]; [reflexivity|].
  destruct (byte_eqb b x00); [reflexivity|]. cbn [app]. rewrite IH. reflexivity.
Qed.

Lemma string_bytes_layout enc s :
  (enc = true -> Z.of_nat (length (lay_cstr s)) < 2 ^ 31) ->
  string_bytes enc s = lay_string enc s.
Proof.
  intro L. unfold string_bytes, lay_string. rewrite upto_nul_lay. f_equal.
  destruct enc; [|reflexivity]. specialize (L eq_refl).
  assert (E : Z.of_N (lenN (upto_nul s) + 1) = Z.of_nat (length (lay_cstr s))).
  { rewrite <- upto_nul_lay, app_length, lenN_spec. cbn [length]. lia. }
  rewrite E. unfold wrap32. rewrite Z.mod_small by lia.
  replace (Z.of_nat (length (lay_cstr s)) + 2 ^ 31 - 2 ^ 31) with (Z.of_nat (length (lay_cstr s))) by lia.
  apply enc_int_layout. lia.
Qed.

Lemma wop_bytes_layout enc o : lay_ok enc o -> wop_bytes enc o = lay_op enc o.
Proof.
  destruct o; cbn [lay_ok wop_bytes lay_op]; intro H; try reflexivity.
  - apply enc_int_layout, H.
  - apply string_bytes_layout, H.
  - apply string_bytes_layout, H.
Qed.

(* one operation: what it adds to the byte stream, whatever the flush decisions *)
Theorem put_layout enc w o : lay_ok enc o ->
  content (do_put enc w o) = content w ++ lay_op enc o.
Proof. intro H. rewrite content_do_put, wop_bytes_layout by exact H. reflexivity. Qed.

(* a whole message: payload bytes of the emitted frames, in order *)
Theorem message_layout enc ops : Forall (lay_ok enc) ops ->
  concat (map fst (w_out (write_ops enc ops))) = concat (map (lay_op enc) ops).
Proof.
  intro H. rewrite write_ops_content. f_equal.
  induction H as [|o t Ho _ IH]; cbn [map]; [reflexivity|].
  rewrite IH, wop_bytes_layout by exact Ho. reflexivity.
Qed.

(* concrete bytes, as a sanity check of the format definition itself *)
Example lay_int_minus2 : lay_int (-2) = [xff; xff; xff; xff; xff; xff; xff; xfe].
Proof. reflexivity. Qed.
Example lay_int_258 : lay_int 258 = [x00; x00; x00; x00; x00; x00; x01; x02].
Proof. reflexivity. Qed.
Example lay_string_enc : lay_string true [x68; x69; x00; x7a] = [x00; x00; x00; x00; x00; x00; x00; x03; x68; x69; x00].
Proof. reflexivity. Qed.
