(* Proofs/C06Defs.v — histories of server-side cache operations and resumption
   requests for C06, and the predicates the theorems are stated with.
   Definitions only. *)
From Coq Require Import List NArith ZArith Bool.
From Cedar Require Import Lib.Bytes Lib.Sym Model.Cache Model.Resume.
Import ListNotations.
Local Open Scope Z_scope.

(* the cache a found_in refers to; a server without a custom cache has only the global one *)
Definition cache_at (s : srv) (w : found_in) : cache :=
  match w, s_custom s with InCustom, Some c => c | _, _ => s_global s end.
Definition set_cache_at (s : srv) (w : found_in) (c : cache) : srv :=
  match w, s_custom s with
  | InCustom, Some _ => {| s_custom := Some c; s_global := s_global s |}
  | _, _ => {| s_custom := s_custom s; s_global := c |}
  end.

Inductive sevent :=
| SEstablish (e : entry) (w : found_in)     (* a session is stored: storeSession, ImportClaimSession, ... *)
| SResume (q : request) (wire_cmd : Z)      (* any resumption request *)
| SRenew (sid : str) (w : found_in)         (* Lookup, RenewLease, Store *)
| STick (dt : Z)
| SInvalidate (sid : str) (w : found_in)
| SSweep (w : found_in)
| SResumeInv (q : request) (wire_cmd : Z) (inv : list (str * found_in)).
    (* a resumption during whose reply write (the write can block on the peer for as long as the
       peer likes) other goroutines invalidate sessions: every cache effect of the resumption
       (lookup, RenewLease, Store) precedes the reply, so the invalidations act on the state the
       resumption left *)

(* Invalidate calls landing while a resumption's reply is being written *)
Definition inv_all (s : srv) (l : list (str * found_in)) : srv :=
  fold_left (fun s' x => set_cache_at s' (snd x) (fst (invalidate (cache_at s' (snd x)) (fst x)))) l s.

(* what a resumption request got *)
Definition robs := (request * reply * sres)%type.

Definition sstep (st : srv * Z) (e : sevent) : (srv * Z) * list robs :=
  let '(s, now) := st in
  match e with
  | SEstablish en w => ((set_cache_at s w (store_new (cache_at s w) en), now), [])
  | SResume q wc =>
      let '(s', rep, res) := handle_resumption s now q wc in ((s', now), [(q, rep, res)])
  | SRenew sid w =>
      match lookup (cache_at s w) now sid with
      | Some en => ((set_cache_at s w (store (cache_at s w) (renew_lease en now)), now), [])
      | None => ((s, now), [])
      end
  | STick dt => ((s, now + Z.max 0 dt), [])
  | SInvalidate sid w => ((set_cache_at s w (fst (invalidate (cache_at s w) sid)), now), [])
  | SSweep w => ((set_cache_at s w (fst (invalidate_expired (cache_at s w) now)), now), [])
  | SResumeInv q wc inv =>
      let '(s', rep, res) := handle_resumption s now q wc in ((inv_all s' inv, now), [(q, rep, res)])
  end.

Fixpoint srun (st : srv * Z) (h : list sevent) : (srv * Z) * list robs :=
  match h with
  | [] => (st, [])
  | e :: r => let '(st1, o1) := sstep st e in let '(st2, o2) := srun st1 r in (st2, o1 ++ o2)
  end.

(* every stored entry with this id is expired (in particular: there is none) *)
Definition dead_in (c : cache) (now : Z) (sid : str) : Prop :=
  forall e, In e (c_sessions c) -> e_id e = sid -> is_expired e now = true.
Definition dead (s : srv) (now : Z) (sid : str) : Prop :=
  dead_in (s_global s) now sid /\ match s_custom s with Some c => dead_in c now sid | None => True end.

(* the history never stores a session under this id again *)
Definition no_establish (sid : str) (h : list sevent) : Prop :=
  forall e w, In (SEstablish e w) h -> e_id e <> sid.

(* a refusal: an error, and SID_NOT_FOUND exactly when a reply was requested *)
Definition refused (o : robs) : Prop :=
  let '(q, rep, res) := o in
  res = SErr /\ rep = (if q_want_reply q then ReplySidNotFound else NoReply).

(* Go maps have unique keys: at most one entry per id *)
Definition sessions_ok (c : cache) : Prop := NoDup (map e_id (c_sessions c)).
