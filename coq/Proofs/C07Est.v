(* Proofs/C07Est.v — every session the reference map holds was established by a
   full handshake of the history, under that handshake's tag and address, with
   the commands that handshake's server declared (renewals keep all of this). *)
From Coq Require Import List ZArith Bool.
From Cedar Require Import Lib.Bytes Model.Cache Proofs.C07Ref Proofs.C07.
Import ListNotations.
Local Open Scope Z_scope.

Definition established_by (h : list event) (x : rsess) : Prop :=
  exists t a cmd p fo,
    In (EHandshake t a cmd p) h /\ on_full p = FOk fo /\
    e_id (fst x) = f_sid fo /\ e_tag (fst x) = t /\ e_addr (fst x) = a /\
    snd x = cmds_of (f_valid fo).

Lemma established_more h h' x : established_by h x -> established_by (h ++ h') x.
Proof.
  intros (t & a & cmd & p & fo & Hin & R). exists t, a, cmd, p, fo. split; [|exact R].
  apply in_or_app. left. exact Hin.
Qed.

Lemma fold_sessions tag addr sid l r0 :
  r_sessions (fold_left (fun r' cmd => let cmd' := trim_space cmd in
                 match cmd' with
                 | [] => r'
                 | _ => {| r_sessions := r_sessions r'; r_routes := route_set (tag, addr, cmd') sid (r_routes r') |}
                 end) l r0) = r_sessions r0.
Proof.
  revert r0. induction l as [|c l IH]; intro r0; simpl; [reflexivity|]. rewrite IH. destruct (trim_space c); reflexivity.
Qed.
Lemma establish_sessions r now tag addr fo :
  r_sessions (ref_establish r now tag addr fo) =
  (client_entry now tag addr fo, cmds_of (f_valid fo)) :: rdel (f_sid fo) (r_sessions r).
Proof. unfold ref_establish. rewrite fold_sessions. reflexivity. Qed.

Definition all_est (past : list event) (r : rstate) : Prop :=
  forall x, In x (r_sessions r) -> established_by past x.

Lemma all_est_incl past r r' : incl (r_sessions r') (r_sessions r) -> all_est past r -> all_est past r'.
Proof. intros I A x H. apply A, I, H. Qed.

Lemma est_step past r now e : all_est past r -> all_est (past ++ [e]) (fst (ref_step (r, now) e)).
Proof.
  intro A.
  assert (A' : all_est (past ++ [e]) r) by (intros x H; apply established_more, A, H).
  destruct e as [t a cmd p|dt|id| |id]; cbn [ref_step fst].
  - assert (Hfull : all_est (past ++ [EHandshake t a cmd p]) (ref_full r now t a p)).
    { unfold ref_full. destruct (on_full p) as [fo|] eqn:Ef; [|exact A'].
      destruct (f_sid fo) eqn:Es; [exact A'|]. destruct a as [|b0 a0]; [exact A'|].
      intros x H. rewrite establish_sessions in H. destruct H as [<-|H].
      - exists t, (b0 :: a0), cmd, p, fo. repeat split; auto.
        apply in_or_app. right. left. reflexivity.
      - apply A'. unfold rdel in H. apply filter_In in H. tauto. }
    unfold ref_handshake. destruct a as [|b a']; [exact Hfull|]. destruct cmd as [cm|]; [|exact Hfull].
    match goal with |- context [ref_lookup ?u ?v ?w] => destruct (ref_lookup u v w) as [x|] eqn:EL end; [|exact Hfull].
    destruct (has_usable_key (fst x)); [|exact Hfull].
    apply ref_lookup_In in EL as (Hin & _ & _).
    destruct (on_resume p (e_id (fst x))).
    + intros y [<-|H].
      * destruct (A' x Hin) as (t0 & a0 & cmd0 & p0 & fo0 & H1 & H2 & H3 & H4 & H5 & H6).
        exists t0, a0, cmd0, p0, fo0. cbn [fst snd]. rewrite e_id_renew, renew_tag, renew_addr. repeat split; assumption.
      * apply A'. unfold rdel in H. apply filter_In in H. tauto.
    + unfold ref_drop. destruct (rfind _ _); [|exact A'].
      apply (all_est_incl _ r); [cbn [r_sessions]; apply incl_filter|exact A'].
    + exact A'.
    + intros y [<-|H].
      * destruct (A' x Hin) as (t0 & a0 & cmd0 & p0 & fo0 & H1 & H2 & H3 & H4 & H5 & H6).
        exists t0, a0, cmd0, p0, fo0. cbn [fst snd]. rewrite e_id_renew, renew_tag, renew_addr. repeat split; assumption.
      * apply A'. unfold rdel in H. apply filter_In in H. tauto.
    + unfold ref_drop. destruct (rfind _ _); [|exact A'].
      apply (all_est_incl _ r); [cbn [r_sessions]; apply incl_filter|exact A'].
  - exact A'.
  - unfold ref_drop. destruct (rfind _ _); [|exact A'].
    apply (all_est_incl _ r); [cbn [r_sessions]; apply incl_filter|exact A'].
  - apply (all_est_incl _ r); [cbn [ref_sweep r_sessions]; apply incl_filter|exact A'].
  - unfold ref_lne. destruct (rfind _ _) as [x|]; [|exact A']. destruct (is_expired (fst x) now); [|exact A'].
    apply (all_est_incl _ r); [cbn [r_sessions]; apply incl_filter|exact A'].
Qed.

Lemma est_from h : forall past r now,
  all_est past r -> all_est (past ++ h) (fst (ref_run_from (r, now) h)).
Proof.
  induction h as [|e h IH]; intros past r now A.
  - rewrite app_nil_r. exact A.
  - change (ref_run_from (r, now) (e :: h)) with (ref_run_from (ref_step (r, now) e) h).
    pose proof (est_step past r now e A) as A1.
    destruct (ref_step (r, now) e) as [r1 now1]. cbn [fst] in A1.
    replace (past ++ e :: h) with ((past ++ [e]) ++ h) by (rewrite <- app_assoc; reflexivity).
    apply IH. exact A1.
Qed.

Lemma established h : forall x, In x (r_sessions (fst (ref_run h))) -> established_by h x.
Proof.
  intros x H. apply (est_from h [] rempty 0); [intros y []|exact H].
Qed.
