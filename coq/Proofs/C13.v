(* Proofs/C13.v — totality and resource bounds of the decoders of Model/Decode.v. *)
From Coq Require Import List NArith ZArith Lia Bool.
From Coq Require Import ZifyBool ZifyNat ZifyN.
From Cedar Require Import Lib.Bytes gen.Consts Model.Msg Model.Decode.
Import ListNotations.
Local Open Scope N_scope.

(* ---------- basic facts ------------------------------------------------------ *)
Lemma len_lt_spec l n : len_lt l n = (lenN l <? n).
Proof.
  revert n; induction l as [|x l IH]; intro n; cbn [len_lt].
  - rewrite lenN_nil. reflexivity.
  - rewrite lenN_cons. destruct (N.eqb_spec n 0) as [->|Hn].
    + symmetry. apply N.ltb_ge. lia.
    + rewrite IH. lia.
Qed.

Lemma short_of_false buf z :
  short_of buf z = false -> (z <= 0)%Z \/ Z.to_N z <= lenN buf.
Proof.
  unfold short_of. destruct (Z.leb_spec z 0); [left; assumption|].
  rewrite len_lt_spec. intro Hlt. apply N.ltb_ge in Hlt. right; exact Hlt.
Qed.

Lemma lenN_firstn_skipn (l : bytes) n :
  lenN (firstn n l) + lenN (skipn n l) = lenN l.
Proof. rewrite <- lenN_app, firstn_skipn. reflexivity. Qed.

Lemma lenN_skipn_le (l : bytes) n : N.of_nat n <= lenN l -> lenN (skipn n l) + N.of_nat n = lenN l.
Proof. rewrite !lenN_spec, skipn_length. lia. Qed.

Lemma lenN_rev' (l : bytes) : lenN (rev' l) = lenN l.
Proof. unfold rev'. rewrite <- rev_alt, !lenN_spec, rev_length. reflexivity. Qed.

(* ---------- ensure ------------------------------------------------------------ *)
Lemma ensure_loop_spec fs : forall buf eom z buf' eom' fs',
  ensure_loop fs buf eom z = Some (buf', eom', fs') ->
  lenN buf' + frames_bytes fs' = lenN buf + frames_bytes fs /\
  (length fs' <= length fs)%nat /\
  (short_of buf z = false -> fs' = fs /\ buf' = buf).
Proof.
  induction fs as [|[d e] fs IH]; intros buf eom z buf' eom' fs' H; cbn [ensure_loop] in H.
  - destruct (short_of buf z && negb eom) eqn:E; [discriminate|]. inversion H; subst. repeat split; auto.
  - destruct (short_of buf z && negb eom) eqn:E.
    + apply IH in H. destruct H as (H1 & H2 & _). cbn [frames_bytes fst length]. rewrite lenN_app in H1.
      split; [lia|]. split; [lia|]. intro Hs. rewrite Hs in E. discriminate.
    + inversion H; subst. repeat split; auto.
Qed.

Lemma ensure_spec r z r' res :
  ensure r z = (r', res) ->
  res <> MPanic /\ r_alloc r' = r_alloc r /\ avail r' = avail r /\
  (length (r_in r') <= length (r_in r))%nat /\
  (res = MOk tt -> (z <= 0)%Z \/ Z.to_N z <= lenN (r_buf r')) /\
  (short_of (r_buf r) z = false -> r_in r' = r_in r /\ r_buf r' = r_buf r).
Proof.
  unfold ensure. destruct (ensure_loop (r_in r) (r_buf r) (r_eom r) z) as [[[buf eom] fs]|] eqn:E.
  - apply ensure_loop_spec in E. destruct E as (E1 & E2 & E3).
    assert (Hlast : short_of (r_buf r) z = false -> fs = r_in r /\ buf = r_buf r) by exact E3.
    destruct (short_of buf z) eqn:S; intro H; inversion H; subst; unfold avail; cbn [r_buf r_in r_alloc].
    + split; [congruence|]. split; [reflexivity|]. split; [lia|]. split; [lia|].
      split; [congruence|]. exact Hlast.
    + split; [congruence|]. split; [reflexivity|]. split; [lia|]. split; [lia|].
      split; [intros _; apply short_of_false; exact S|]. exact Hlast.
  - intro H; inversion H; subst. split; [congruence|]. split; [reflexivity|]. split; [reflexivity|].
    split; [lia|]. split; [congruence|]. intros _. split; reflexivity.
Qed.

(* ---------- the invariant ------------------------------------------------------- *)
(* no panic; allocation only grows; every byte allocated is a byte consumed *)
Definition ok {A} (r : reader) (x : reader * mres A) : Prop :=
  snd x <> MPanic /\ r_alloc r <= r_alloc (fst x) /\
  r_alloc (fst x) + avail (fst x) <= r_alloc r + avail r /\
  (length (r_in (fst x)) <= length (r_in r))%nat.

Lemma ok_ret {A} r (a : A) : ok r (r, MOk a).
Proof. unfold ok; cbn; repeat split; try congruence; lia. Qed.
Lemma ok_err {A} r e : @ok A r (r, MErr e).
Proof. unfold ok; cbn; repeat split; try congruence; lia. Qed.
Lemma ok_trans {A B} r r1 (a : A) (y : reader * mres B) :
  ok r (r1, MOk a) -> ok r1 y -> ok r y.
Proof. unfold ok; cbn. intros (_ & H1 & H2 & H3) (K0 & K1 & K2 & K3). repeat split; try assumption; lia. Qed.
Lemma ok_err_of {A B} r r1 e (a : reader * mres A) :
  ok r a -> a = (r1, MErr e) -> @ok B r (r1, MErr e).
Proof. intros H ->. unfold ok in *; cbn in *. destruct H as (_ & H). split; [congruence|exact H]. Qed.

Lemma ok_bind {A B} r (x : reader * mres A) (f : reader -> A -> reader * mres B) :
  ok r x -> (forall r1 a, x = (r1, MOk a) -> ok r1 (f r1 a)) -> ok r (bind x f).
Proof.
  intros Hx Hf. destruct x as [r1 [a|e|]]; cbn [bind].
  - eapply ok_trans; [exact Hx|apply Hf; reflexivity].
  - eapply ok_err_of; [exact Hx|reflexivity].
  - exfalso. destruct Hx as (Hx & _). apply Hx. reflexivity.
Qed.

Lemma ok_state_eq {A B} r r1 (a : mres A) (b : mres B) :
  ok r (r1, a) -> b <> MPanic -> ok r (r1, b).
Proof. unfold ok; cbn. intros (_ & H) Hb. split; assumption. Qed.

Lemma ensure_ok r z : ok r (ensure r z).
Proof.
  destruct (ensure r z) as [r' res] eqn:E. apply ensure_spec in E. destruct E as (E0 & E1 & E2 & E3 & _).
  unfold ok; cbn. repeat split; try assumption; lia.
Qed.

(* make(n) + ReadFull after a successful ensure of n bytes *)
Lemma read_after_ensure r z r2 :
  ensure r z = (r2, MOk tt) -> (0 <= z)%Z ->
  let r4 := fst (r_read (add_alloc r2 (Z.to_N z)) (Z.to_N z)) in
  r_alloc r4 = r_alloc r + Z.to_N z /\ avail r4 + Z.to_N z = avail r /\ r_in r4 = r_in r2 /\
  (length (r_in r4) <= length (r_in r))%nat.
Proof.
  intros E Hz. apply ensure_spec in E. destruct E as (_ & E1 & E2 & E3 & E4 & _).
  specialize (E4 eq_refl). assert (Hn : Z.to_N z <= lenN (r_buf r2)) by (destruct E4; lia).
  cbn. unfold avail in *; cbn [r_buf r_in r_alloc set_buf add_alloc].
  pose proof (lenN_skipn_le (r_buf r2) (N.to_nat (Z.to_N z))) as K. rewrite N2Nat.id in K. specialize (K Hn).
  repeat split; lia.
Qed.

Lemma get_raw_ok r n : ok r (get_raw r n).
Proof.
  unfold get_raw. destruct (ensure r (Z.of_N n)) as [r1 [[]|e|]] eqn:E.
  - pose proof (read_after_ensure _ _ _ E ltac:(lia)) as K. rewrite N2Z.id in K. cbn in K.
    unfold take. cbn. destruct K as (K1 & K2 & K3 & K4).
    unfold ok; cbn [fst snd]. unfold avail in *. cbn [r_buf r_in r_alloc set_buf add_alloc] in *.
    repeat split; try congruence; try lia.
  - eapply ok_err_of; [apply (ensure_ok r (Z.of_N n))|exact E].
  - pose proof (ensure_ok r (Z.of_N n)) as K. rewrite E in K. destruct K as (K & _). exfalso; apply K; reflexivity.
Qed.

Lemma ok_map {A B} r (f : A -> B) x : ok r x -> ok r (map_res f x).
Proof.
  destruct x as [r1 [a|e|]]; cbn [map_res]; intro H.
  - eapply ok_state_eq; [exact H|congruence].
  - eapply ok_state_eq; [exact H|congruence].
  - exfalso. destruct H as (H & _). apply H. reflexivity.
Qed.

Lemma get_int_ok r : ok r (get_int r).
Proof.
  unfold get_int. pose proof (get_raw_ok r 8) as H. destruct (get_raw r 8) as [r1 [a|e|]].
  - eapply ok_state_eq; [exact H|congruence].
  - eapply ok_state_eq; [exact H|congruence].
  - exfalso. destruct H as (H & _). apply H. reflexivity.
Qed.
Lemma get_int32_ok r : ok r (get_int32 r).
Proof. apply ok_map, get_int_ok. Qed.

Lemma get_bytes_ok r n : ok r (get_bytes r n).
Proof. unfold get_bytes. destruct (n <=? 0)%Z; [apply ok_ret|apply get_raw_ok]. Qed.

(* ensure + make + read, as used by the length-prefixed string readers *)
Lemma lstr_tail_ok {A} r z (k : bytes -> mres A) :
  (0 <= z)%Z -> (forall d, k d <> MPanic) ->
  ok r (bind (ensure r z) (fun r2 _ => bind (r_make r2 z) (fun r3 _ =>
        let '(r4, data) := r_read r3 (Z.to_N z) in (r4, k data)))).
Proof.
  intros Hz Hk. destruct (ensure r z) as [r2 [[]|e|]] eqn:E; cbn [bind].
  - unfold r_make, go_make. destruct (Z.ltb_spec z 0); [lia|]. cbn [bind].
    pose proof (read_after_ensure _ _ _ E Hz) as K. cbn in K. destruct K as (K1 & K2 & K3 & K4).
    cbn. unfold ok; cbn [fst snd]. unfold avail in *. cbn [r_buf r_in r_alloc set_buf add_alloc] in *.
    repeat split; [apply Hk|lia|lia|lia].
  - eapply ok_err_of; [apply (ensure_ok r z)|exact E].
  - pose proof (ensure_ok r z) as K. rewrite E in K. destruct K as (K & _). exfalso; apply K; reflexivity.
Qed.

Lemma get_lstr'_ok r : ok r (get_lstr' r).
Proof.
  unfold get_lstr'. apply ok_bind; [apply get_int32_ok|]. intros r1 len _.
  destruct (Z.ltb_spec len 0); [apply ok_err|].
  apply (lstr_tail_ok r1 len (fun d => MOk (strip_string d))); [lia|congruence].
Qed.

Lemma get_lstr_max_ok m r : (0 < m)%Z -> ok r (get_lstr_max m r).
Proof.
  intro Hm. unfold get_lstr_max. apply ok_bind; [apply get_int32_ok|]. intros r1 len _.
  destruct (Z.ltb_spec len 0); [apply ok_err|].
  destruct (Z.ltb_spec m len).
  - apply (lstr_tail_ok r1 m (fun d => MErr MTooBig)); [lia|congruence].
  - apply (lstr_tail_ok r1 len (fun d => MOk (strip_string d))); [lia|congruence].
Qed.

(* ---------- cleartext string loops ------------------------------------------------ *)
Lemma set_buf_tail r b rest :
  r_buf r = b :: rest ->
  r_alloc (set_buf r rest) = r_alloc r /\ avail (set_buf r rest) + 1 = avail r /\
  r_in (set_buf r rest) = r_in r.
Proof.
  intro H. unfold avail. cbn [set_buf r_buf r_in r_alloc]. rewrite H, lenN_cons. repeat split; lia.
Qed.

Definition cstr_post (r : reader) (acc : bytes) (x : reader * mres bytes) : Prop :=
  snd x <> MPanic /\ r_alloc (fst x) = r_alloc r /\ avail (fst x) <= avail r /\
  (length (r_in (fst x)) <= length (r_in r))%nat /\
  (forall s, snd x = MOk s -> lenN s + avail (fst x) <= lenN acc + avail r).

Ltac inv_ok := match goal with H : MOk _ = MOk _ |- _ => inversion H; subst; clear H end.
Ltac fin := intros; try congruence; try lia;
  try (inv_ok; rewrite ?lenN_rev', ?lenN_nil, ?lenN_cons in *; lia).

Lemma get_cstr_loop_post fuel : forall r acc, cstr_post r acc (get_cstr_loop fuel r acc).
Proof.
  induction fuel as [|f IH]; intros r acc; cbn [get_cstr_loop].
  - unfold cstr_post; cbn [fst snd]. repeat split; fin.
  - destruct (ensure r 1) as [r1 [[]|e|]] eqn:E; apply ensure_spec in E;
      destruct E as (E0 & E1 & E2 & E3 & _).
    + destruct (r_buf r1) as [|b rest] eqn:Hb.
      * unfold cstr_post; cbn [fst snd]. repeat split; fin.
      * destruct (set_buf_tail r1 b rest Hb) as (S1 & S2 & S3).
        destruct (byte_eqb b x00).
        -- unfold cstr_post; cbn [fst snd]. repeat split; try rewrite S3; fin.
        -- specialize (IH (set_buf r1 rest) (b :: acc)). unfold cstr_post in *.
           destruct IH as (I0 & I1 & I2 & I3 & I4). rewrite S3 in I3.
           repeat split; try assumption; try lia.
           intros s Hs. specialize (I4 s Hs). rewrite lenN_cons in I4. lia.
    + destruct e; unfold cstr_post; cbn [fst snd]; repeat split; fin.
    + exfalso. apply E0. reflexivity.
Qed.

Lemma charge_ok r (x : reader * mres bytes) :
  snd x <> MPanic -> r_alloc (fst x) = r_alloc r -> avail (fst x) <= avail r ->
  (length (r_in (fst x)) <= length (r_in r))%nat ->
  (forall s, snd x = MOk s -> lenN s + avail (fst x) <= avail r) ->
  ok r (charge lenN x).
Proof.
  destruct x as [r1 [s|e|]]; cbn [fst snd charge]; intros H0 H1 H2 H3 H4.
  - specialize (H4 s eq_refl). unfold ok; cbn [fst snd]. unfold avail in *. cbn [add_alloc r_alloc r_buf r_in].
    repeat split; try congruence; lia.
  - unfold ok; cbn [fst snd]. repeat split; try congruence; lia.
  - exfalso; apply H0; reflexivity.
Qed.

Lemma get_cstr'_ok r : ok r (get_cstr' r).
Proof.
  unfold get_cstr', get_cstr.
  destruct (get_cstr_loop_post (S (S (N.to_nat (total_bytes r)))) r []) as (H0 & H1 & H2 & H3 & H4).
  apply charge_ok; try assumption; intros s Hs; specialize (H4 s Hs); rewrite lenN_nil in H4; lia.
Qed.

Lemma get_string'_ok enc r : ok r (get_string' enc r).
Proof. destruct enc; [apply get_lstr'_ok|apply get_cstr'_ok]. Qed.

(* capped cleartext loop: additionally consumes at most [left] bytes, returns at most
   [left] more bytes, and pulls no frame while [left] bytes are already buffered *)
Definition cmax_post (r : reader) (acc : bytes) (left : N) (x : reader * mres bytes) : Prop :=
  cstr_post r acc x /\ avail r <= avail (fst x) + left /\
  (forall s, snd x = MOk s -> lenN s <= lenN acc + left) /\
  (left <= lenN (r_buf r) -> r_in (fst x) = r_in r).

Lemma short_of_one_nonempty buf : 1 <= lenN buf -> short_of buf 1 = false.
Proof. intro H. unfold short_of. cbn. rewrite len_lt_spec. lia. Qed.

Lemma get_cstr_max_loop_post fuel : forall r acc left, cmax_post r acc left (get_cstr_max_loop fuel r acc left).
Proof.
  induction fuel as [|f IH]; intros r acc left; cbn [get_cstr_max_loop];
    destruct (N.eqb_spec left 0) as [->|Hl].
  1,2,3: unfold cmax_post, cstr_post; cbn [fst snd]; repeat split; fin.
  destruct (ensure r 1) as [r1 [[]|e|]] eqn:E; apply ensure_spec in E;
    destruct E as (E0 & E1 & E2 & E3 & _ & E5).
  - assert (Hin : left <= lenN (r_buf r) -> r_in r1 = r_in r /\ r_buf r1 = r_buf r)
      by (intro Hle; apply E5; apply short_of_one_nonempty; lia).
    destruct (r_buf r1) as [|b rest] eqn:Hb.
    + unfold cmax_post, cstr_post; cbn [fst snd]. repeat split; fin. apply Hin; assumption.
    + destruct (set_buf_tail r1 b rest Hb) as (S1 & S2 & S3).
      destruct (byte_eqb b x00).
      * unfold cmax_post, cstr_post; cbn [fst snd]. repeat split; try rewrite S3; fin. apply Hin; assumption.
      * specialize (IH (set_buf r1 rest) (b :: acc) (N.pred left)).
        destruct IH as ((I0 & I1 & I2 & I3 & I4) & I5 & I6 & I7). rewrite S3 in I3.
        unfold cmax_post, cstr_post. repeat split; try assumption; try lia.
        -- intros s Hs. specialize (I4 s Hs). rewrite lenN_cons in I4. lia.
        -- intros s Hs. specialize (I6 s Hs). rewrite lenN_cons in I6. lia.
        -- intro Hle. destruct (Hin Hle) as (P1 & P2).
           rewrite I7; [rewrite S3; exact P1|].
           cbn [set_buf r_buf]. rewrite <- P2, lenN_cons in Hle. lia.
  - assert (Hin : left <= lenN (r_buf r) -> r_in r1 = r_in r)
      by (intro Hle; apply E5; apply short_of_one_nonempty; lia).
    destruct e; try (unfold cmax_post, cstr_post; cbn [fst snd]; repeat split; fin; apply Hin; assumption).
    destruct acc as [|a acc']; unfold cmax_post, cstr_post; cbn [fst snd]; repeat split; fin;
      apply Hin; assumption.
  - exfalso. apply E0. reflexivity.
Qed.

Lemma get_cstr_max_ok m r : ok r (get_cstr_max m r).
Proof.
  unfold get_cstr_max.
  destruct (get_cstr_max_loop_post (S (S (N.to_nat (avail r)))) r [] (Z.to_N m))
    as ((H0 & H1 & H2 & H3 & H4) & _).
  apply charge_ok; try assumption; intros s Hs; specialize (H4 s Hs); rewrite lenN_nil in H4; lia.
Qed.

Lemma get_string_max_ok enc m r : ok r (get_string_max enc m r).
Proof.
  unfold get_string_max. destruct (Z.leb_spec m 0); [apply ok_ret|].
  destruct enc; [apply get_lstr_max_ok; lia|apply get_cstr_max_ok].
Qed.

(* ---------- cap theorem for strings -------------------------------------------------- *)
Lemma get_raw_spec r n r' res :
  get_raw r n = (r', res) ->
  (avail r' <= avail r /\ avail r <= avail r' + n) /\ (forall bs, res = MOk bs -> avail r' + n = avail r /\ lenN bs = n) /\
  (n <= lenN (r_buf r) -> r_in r' = r_in r /\ (forall bs, res = MOk bs -> lenN (r_buf r') + n = lenN (r_buf r))).
Proof.
  unfold get_raw. destruct (ensure r (Z.of_N n)) as [r1 [[]|e|]] eqn:E; intro H; inversion H; subst; clear H.
  - pose proof (read_after_ensure _ _ _ E ltac:(lia)) as K. rewrite N2Z.id in K. cbn in K.
    destruct K as (K1 & K2 & K3 & K4).
    apply ensure_spec in E. destruct E as (_ & E1 & E2 & E3 & E4 & E5). specialize (E4 eq_refl).
    assert (Hn : n <= lenN (r_buf r1)) by (destruct E4; lia).
    unfold take; cbn [fst snd]. unfold avail in *. cbn [r_buf r_in r_alloc set_buf add_alloc] in *.
    split; [lia|]. split.
    + intros bs Hb. inversion Hb; subst. split; [lia|].
      pose proof (lenN_firstn_skipn (r_buf r1) (N.to_nat n)). lia.
    + intro Hle. destruct E5 as (P1 & P2).
      { unfold short_of. destruct (Z.leb_spec (Z.of_N n) 0); [reflexivity|]. rewrite len_lt_spec. lia. }
      split; [exact P1|]. intros bs _. rewrite <- P2.
      pose proof (lenN_skipn_le (r_buf r1) (N.to_nat n)) as K. rewrite N2Nat.id in K. specialize (K Hn). lia.
  - apply ensure_spec in E. destruct E as (_ & E1 & E2 & E3 & E4 & E5).
    split; [lia|]. split; [intros bs Hb; discriminate|]. intro Hle. split; [|intros bs Hb; discriminate].
    apply E5. unfold short_of. destruct (Z.leb_spec (Z.of_N n) 0); [reflexivity|]. rewrite len_lt_spec. lia.
  - apply ensure_spec in E. destruct E as (E0 & _). exfalso; apply E0; reflexivity.
Qed.

Lemma get_int32_spec r r' res :
  get_int32 r = (r', res) ->
  (avail r' <= avail r /\ avail r <= avail r' + 8) /\ (forall z, res = MOk z -> avail r' + 8 = avail r) /\
  (8 <= lenN (r_buf r) -> r_in r' = r_in r /\ (forall z, res = MOk z -> lenN (r_buf r') + 8 = lenN (r_buf r))).
Proof.
  unfold get_int32, get_int. destruct (get_raw r 8) as [r1 [bs|e|]] eqn:E; cbn [map_res]; intro H; inversion H; subst; clear H;
    apply get_raw_spec in E; destruct E as (E1 & E2 & E3).
  - split; [exact E1|]. split; [intros z _; apply (E2 bs eq_refl)|]. intro Hle. destruct (E3 Hle) as (P1 & P2).
    split; [exact P1|]. intros z _. apply (P2 bs eq_refl).
  - split; [exact E1|]. split; [intros z Hz; discriminate|]. intro Hle. destruct (E3 Hle) as (P1 & P2).
    split; [exact P1|intros z Hz; discriminate].
  - split; [exact E1|]. split; [intros z Hz; discriminate|]. intro Hle. destruct (E3 Hle) as (P1 & P2).
    split; [exact P1|intros z Hz; discriminate].
Qed.

Lemma strip_string_len d : lenN (strip_string d) <= lenN d.
Proof.
  unfold strip_string. destruct d as [|b d']; [lia|].
  destruct (byte_eqb b (n2b BinNullChar)); [rewrite lenN_nil; lia|].
  destruct (rev' (b :: d')) as [|l r] eqn:E; [lia|].
  destruct (byte_eqb l x00); [|lia].
  pose proof (lenN_rev' (b :: d')) as K. rewrite E, lenN_cons in K. rewrite lenN_rev'. lia.
Qed.

(* the common tail of the length-prefixed readers: ensure n, make n, read n *)
Lemma lstr_tail_spec {A} r z (k : bytes -> mres A) r' res :
  (0 <= z)%Z ->
  bind (ensure r z) (fun r2 _ => bind (r_make r2 z) (fun r3 _ =>
        let '(r4, data) := r_read r3 (Z.to_N z) in (r4, k data))) = (r', res) ->
  avail r <= avail r' + Z.to_N z /\
  (Z.to_N z <= lenN (r_buf r) -> r_in r' = r_in r) /\
  (forall a, res = MOk a -> exists d, k d = MOk a /\ lenN d = Z.to_N z).
Proof.
  intros Hz. destruct (ensure r z) as [r2 [[]|e|]] eqn:E; cbn [bind].
  - unfold r_make, go_make. destruct (Z.ltb_spec z 0); [lia|]. cbn [bind].
    pose proof (read_after_ensure _ _ _ E Hz) as K. cbn in K. destruct K as (K1 & K2 & K3 & K4).
    apply ensure_spec in E. destruct E as (_ & E1 & E2 & E3 & E4 & E5). specialize (E4 eq_refl).
    cbn. intro Heq; inversion Heq; subst; clear Heq. unfold avail in *. cbn [r_buf r_in r_alloc set_buf add_alloc] in *.
    split; [lia|]. split.
    + intro Hle. apply E5. unfold short_of. destruct (Z.leb_spec z 0); [reflexivity|]. rewrite len_lt_spec. lia.
    + intros a Ha. eexists; split; [exact Ha|].
      assert (Hn : Z.to_N z <= lenN (r_buf r2)) by (destruct E4; lia).
      pose proof (lenN_firstn_skipn (r_buf r2) (N.to_nat (Z.to_N z))).
      pose proof (lenN_skipn_le (r_buf r2) (N.to_nat (Z.to_N z))) as K. rewrite N2Nat.id in K. specialize (K Hn). lia.
  - apply ensure_spec in E. destruct E as (_ & E1 & E2 & E3 & E4 & E5).
    intro Heq; inversion Heq; subst. split; [lia|]. split; [|intros a Ha; discriminate].
    intro Hle. apply E5. unfold short_of. destruct (Z.leb_spec z 0); [reflexivity|]. rewrite len_lt_spec. lia.
  - apply ensure_spec in E. destruct E as (E0 & _). exfalso; apply E0; reflexivity.
Qed.

Definition cap_post (m : Z) (extra : N) (r : reader) (x : reader * mres bytes) : Prop :=
  avail r <= avail (fst x) + Z.to_N m + extra /\
  (forall s, snd x = MOk s -> lenN s <= Z.to_N m) /\
  (Z.to_N m + extra <= lenN (r_buf r) -> r_in (fst x) = r_in r).

Lemma get_lstr_max_cap m r : (0 < m)%Z -> cap_post m 8 r (get_lstr_max m r).
Proof.
  intro Hm. unfold get_lstr_max. destruct (get_int32 r) as [r1 [len|e|]] eqn:E; cbn [bind];
    apply get_int32_spec in E; destruct E as (E1 & E2 & E3).
  - specialize (E2 len eq_refl).
    assert (Hin : Z.to_N m + 8 <= lenN (r_buf r) -> r_in r1 = r_in r /\ Z.to_N m <= lenN (r_buf r1)).
    { intro Hle. destruct E3 as (P1 & P2); [lia|]. specialize (P2 len eq_refl). split; [exact P1|lia]. }
    destruct (Z.ltb_spec len 0).
    + unfold cap_post; cbn [fst snd]. split; [lia|]. split; [intros s Hs; discriminate|]. intro Hle. apply Hin; exact Hle.
    + destruct (Z.ltb_spec m len).
      * match goal with |- cap_post _ _ _ ?t => destruct t as [r' res] eqn:T end.
        apply (lstr_tail_spec r1 m (fun d => MErr MTooBig)) in T; [|lia]. destruct T as (T1 & T2 & T3).
        unfold cap_post; cbn [fst snd]. split; [lia|]. split.
        -- intros s Hs. destruct (T3 s Hs) as (d & Hd & _). discriminate.
        -- intro Hle. destruct (Hin Hle) as (P1 & P2). rewrite T2; [exact P1|lia].
      * match goal with |- cap_post _ _ _ ?t => destruct t as [r' res] eqn:T end.
        apply (lstr_tail_spec r1 len (fun d => MOk (strip_string d))) in T; [|lia]. destruct T as (T1 & T2 & T3).
        unfold cap_post; cbn [fst snd]. split; [lia|]. split.
        -- intros s Hs. destruct (T3 s Hs) as (d & Hd & Hl). inversion Hd; subst.
           pose proof (strip_string_len d). lia.
        -- intro Hle. destruct (Hin Hle) as (P1 & P2). rewrite T2; [exact P1|lia].
  - unfold cap_post; cbn [fst snd]. split; [lia|]. split; [intros s Hs; discriminate|]. intro Hle. apply E3. lia.
  - unfold cap_post; cbn [fst snd]. split; [lia|]. split; [intros s Hs; discriminate|]. intro Hle. apply E3. lia.
Qed.

Lemma charge_fst_snd (x : reader * mres bytes) :
  avail (fst (charge lenN x)) = avail (fst x) /\ r_in (fst (charge lenN x)) = r_in (fst x) /\
  snd (charge lenN x) = snd x.
Proof. destruct x as [r1 [s|e|]]; cbn; repeat split. Qed.

Lemma get_cstr_max_cap m r : (0 < m)%Z -> cap_post m 0 r (get_cstr_max m r).
Proof.
  intro Hm. unfold get_cstr_max.
  destruct (get_cstr_max_loop_post (S (S (N.to_nat (avail r)))) r [] (Z.to_N m)) as (_ & H5 & H6 & H7).
  match goal with |- cap_post _ _ _ (charge lenN ?t) => destruct (charge_fst_snd t) as (C1 & C2 & C3) end.
  unfold cap_post. rewrite C1, C2, C3. split; [lia|]. split.
  - intros s Hs. specialize (H6 s Hs). rewrite lenN_nil in H6. lia.
  - intro Hle. apply H7. lia.
Qed.

Lemma get_string_max_cap (enc : bool) m r :
  (0 < m)%Z -> cap_post m (if enc then 8 else 0) r (get_string_max enc m r).
Proof.
  intro Hm. unfold get_string_max. destruct (Z.leb_spec m 0); [lia|].
  destruct enc; [apply get_lstr_max_cap|apply get_cstr_max_cap]; exact Hm.
Qed.

(* ---------- discard / skip -------------------------------------------------------------- *)
Lemma set_buf_skip r t :
  t <= lenN (r_buf r) ->
  r_alloc (set_buf r (skipn (N.to_nat t) (r_buf r))) = r_alloc r /\
  avail (set_buf r (skipn (N.to_nat t) (r_buf r))) + t = avail r /\
  r_in (set_buf r (skipn (N.to_nat t) (r_buf r))) = r_in r.
Proof.
  intro H. unfold avail. cbn [set_buf r_buf r_in r_alloc].
  pose proof (lenN_skipn_le (r_buf r) (N.to_nat t)) as K. rewrite N2Nat.id in K. specialize (K H).
  repeat split; lia.
Qed.

Lemma discard_loop_ok fuel : forall r n, ok r (discard_loop fuel r n).
Proof.
  induction fuel as [|f IH]; intros r n; cbn [discard_loop]; destruct (n =? 0); try apply ok_ret; try apply ok_err.
  destruct (ensure r 1) as [r1 [[]|e|]] eqn:E.
  - eapply ok_trans; [rewrite <- E; apply ensure_ok|].
    set (t := N.min (lenN (r_buf r1)) n).
    destruct (set_buf_skip r1 t ltac:(lia)) as (S1 & S2 & S3).
    eapply (ok_trans r1 _ tt); [|apply IH].
    unfold ok; cbn [fst snd]. rewrite S1, S3. repeat split; try congruence; lia.
  - eapply ok_err_of; [apply (ensure_ok r 1)|exact E].
  - pose proof (ensure_ok r 1) as K. rewrite E in K. destruct K as (K & _). exfalso; apply K; reflexivity.
Qed.

Lemma discard_ok r n : ok r (discard r n).
Proof. unfold discard. destruct (n <=? 0)%Z; [apply ok_ret|apply discard_loop_ok]. Qed.

Lemma skip_cstr_loop_ok fuel : forall r, ok r (skip_cstr_loop fuel r).
Proof.
  induction fuel as [|f IH]; intros r; cbn [skip_cstr_loop]; [apply ok_err|].
  destruct (ensure r 1) as [r1 [[]|e|]] eqn:E.
  - eapply ok_trans; [rewrite <- E; apply ensure_ok|].
    destruct (r_buf r1) as [|b rest] eqn:Hb; [apply ok_err|].
    destruct (set_buf_tail r1 b rest Hb) as (S1 & S2 & S3).
    assert (Hstep : ok r1 (set_buf r1 rest, MOk tt)).
    { unfold ok; cbn [fst snd]. rewrite S1, S3. repeat split; try congruence; lia. }
    destruct (byte_eqb b x00); [exact Hstep|].
    eapply ok_trans; [exact Hstep|apply IH].
  - pose proof (ensure_ok r 1) as K. rewrite E in K.
    destruct e; eapply ok_state_eq; try exact K; congruence.
  - pose proof (ensure_ok r 1) as K. rewrite E in K. destruct K as (K & _). exfalso; apply K; reflexivity.
Qed.

Lemma skip_string_ok enc r : ok r (skip_string enc r).
Proof.
  unfold skip_string. destruct enc.
  - apply ok_bind; [apply get_int32_ok|]. intros r1 len _. apply discard_ok.
  - apply skip_cstr_loop_ok.
Qed.

(* ---------- ClassAd readers ---------------------------------------------------------------- *)
Lemma budget_read_ok enc cap total r : ok r (budget_read enc cap total r).
Proof.
  unfold budget_read. destruct (0 <? cap)%Z; [|apply get_string'_ok].
  destruct (cap - total <=? 0)%Z; [apply ok_err|apply get_string_max_ok].
Qed.

Lemma ad_loop_ok parse enc cap fuel : forall left i total r, ok r (ad_loop parse enc cap fuel left i total r).
Proof.
  induction fuel as [|f IH]; intros left i total r; cbn [ad_loop];
    destruct (left <=? 0)%Z; try apply ok_ret; try apply ok_err.
  apply ok_bind; [apply budget_read_ok|]. intros r1 s _.
  apply ok_bind.
  - destruct (bytes_eqb s secret_marker); [|apply ok_ret].
    apply ok_bind; [apply budget_read_ok|]. intros r2 e _. apply ok_ret.
  - intros r2 [e total2] _. destruct (has_eq e && parse i e); [apply IH|apply ok_err].
Qed.

Lemma get_classad_ok parse enc cap r : ok r (get_classad parse enc cap r).
Proof.
  unfold get_classad. apply ok_bind; [apply get_int_ok|]. intros r0 num _.
  apply ok_bind; [apply ad_loop_ok|]. intros r1 total _.
  apply ok_bind; [apply budget_read_ok|]. intros r2 mt _.
  apply ok_bind; [apply budget_read_ok|]. intros r3 tt' _. apply ok_ret.
Qed.

(* raw / skip readers: totality (their text buffer makes the allocation bound 2x; see notes) *)
Definition np {A} (x : reader * mres A) : Prop := snd x <> MPanic.
Lemma np_bind {A B} (x : reader * mres A) (f : reader -> A -> reader * mres B) :
  np x -> (forall r1 a, np (f r1 a)) -> np (bind x f).
Proof. destruct x as [r1 [a|e|]]; cbn [bind]; unfold np; cbn; intros H Hf; [apply Hf|congruence|exfalso; apply H; reflexivity]. Qed.
Lemma ok_np {A} r (x : reader * mres A) : ok r x -> np x.
Proof. intros (H & _). exact H. Qed.

Lemma raw_loop_np enc fuel : forall left r, np (raw_loop enc fuel left r).
Proof.
  induction fuel as [|f IH]; intros left r; cbn [raw_loop];
    destruct (left <=? 0)%Z; try (unfold np; cbn; congruence).
  destruct (finished r); [unfold np; cbn; congruence|].
  apply np_bind; [eapply ok_np, get_string'_ok|]. intros r1 s.
  apply np_bind.
  - destruct (bytes_eqb s secret_marker); [eapply ok_np, get_string'_ok|unfold np; cbn; congruence].
  - intros r2 e. apply IH.
Qed.
Lemma type_line_np enc r : np (type_line enc r).
Proof.
  unfold type_line. apply np_bind; [eapply ok_np, get_string'_ok|]. intros r1 s.
  destruct s; [unfold np; cbn; congruence|]. destruct (is_type_name _); unfold np; cbn; congruence.
Qed.
Lemma get_classad_raw_np enc r : np (get_classad_raw enc r).
Proof.
  unfold get_classad_raw. apply np_bind; [eapply ok_np, get_int_ok|]. intros r0 num.
  apply np_bind; [apply raw_loop_np|]. intros r1 _.
  apply np_bind; [apply type_line_np|]. intros r2 _. apply type_line_np.
Qed.

Lemma skip_cstr_marker_loop_ok fuel : forall r st, ok r (skip_cstr_marker_loop fuel r st).
Proof.
  induction fuel as [|f IH]; intros r st; cbn [skip_cstr_marker_loop]; [apply ok_err|].
  destruct (ensure r 1) as [r1 [[]|e|]] eqn:E.
  - eapply ok_trans; [rewrite <- E; apply ensure_ok|].
    destruct (r_buf r1) as [|b rest] eqn:Hb; [apply ok_err|].
    destruct (set_buf_tail r1 b rest Hb) as (S1 & S2 & S3).
    assert (Hstep : forall v : bool, ok r1 (set_buf r1 rest, MOk v)).
    { intro v. unfold ok; cbn [fst snd]. rewrite S1, S3. repeat split; try congruence; lia. }
    destruct (byte_eqb b x00); [apply Hstep|].
    eapply ok_trans; [exact (Hstep true)|apply IH].
  - pose proof (ensure_ok r 1) as K. rewrite E in K.
    destruct e; eapply ok_state_eq; try exact K; congruence.
  - pose proof (ensure_ok r 1) as K. rewrite E in K. destruct K as (K & _). exfalso; apply K; reflexivity.
Qed.

Lemma skip_lstr_is_marker_ok r : ok r (skip_lstr_is_marker r).
Proof.
  unfold skip_lstr_is_marker. apply ok_bind; [apply get_int32_ok|]. intros r1 len _.
  destruct (Z.leb_spec len 0) as [Hn|Hp]; cbn [orb].
  - apply ok_bind; [apply discard_ok|]. intros r2 _ _. apply ok_ret.
  - destruct (Z.of_N (lenN secret_marker) + 1 <? len)%Z.
    + apply ok_bind; [apply discard_ok|]. intros r2 _ _. apply ok_ret.
    + destruct (ensure r1 len) as [r2 [[]|e|]] eqn:E; cbn [bind].
      * pose proof E as E'. apply ensure_spec in E'. destruct E' as (_ & E1 & E2 & E3 & E4 & _).
        specialize (E4 eq_refl). assert (Hle : Z.to_N len <= lenN (r_buf r2)) by (destruct E4; lia).
        cbn [r_read].
        pose proof (lenN_firstn_skipn (r_buf r2) (N.to_nat (Z.to_N len))) as F1.
        pose proof (lenN_skipn_le (r_buf r2) (N.to_nat (Z.to_N len))) as F2. rewrite N2Nat.id in F2. specialize (F2 Hle).
        assert (Hstate : forall v : mres bool, v <> MPanic ->
                 ok r1 (set_buf r2 (skipn (N.to_nat (Z.to_N len)) (r_buf r2)), v)).
        { intros v Hv. unfold ok; cbn [fst snd]. unfold avail in *. cbn [set_buf r_buf r_in r_alloc].
          repeat split; try assumption; lia. }
        destruct (firstn (N.to_nat (Z.to_N len)) (r_buf r2)) as [|d0 dt] eqn:Fd.
        -- exfalso. rewrite lenN_nil in F1. lia.
        -- apply Hstate. congruence.
      * eapply ok_err_of; [apply (ensure_ok r1 len)|exact E].
      * pose proof (ensure_ok r1 len) as K. rewrite E in K. destruct K as (K & _). exfalso; apply K; reflexivity.
Qed.

Lemma skip_string_is_marker_ok enc r : ok r (skip_string_is_marker enc r).
Proof. unfold skip_string_is_marker. destruct enc; [apply skip_lstr_is_marker_ok|apply skip_cstr_marker_loop_ok]. Qed.

Lemma skip_loop_ok enc fuel : forall left r, ok r (skip_loop enc fuel left r).
Proof.
  induction fuel as [|f IH]; intros left r; cbn [skip_loop];
    destruct (left <=? 0)%Z; try apply ok_ret; try apply ok_err.
  destruct (finished r); [apply ok_err|].
  apply ok_bind; [apply skip_string_is_marker_ok|]. intros r1 mk _.
  apply ok_bind; [destruct mk; [apply skip_string_ok|apply ok_ret]|]. intros r2 _ _. apply IH.
Qed.
Lemma skip_classad_raw_ok enc r : ok r (skip_classad_raw enc r).
Proof.
  unfold skip_classad_raw. apply ok_bind; [apply get_int_ok|]. intros r0 num _.
  apply ok_bind; [apply skip_loop_ok|]. intros r1 _ _.
  apply ok_bind; [apply skip_string_ok|]. intros r2 _ _. apply skip_string_ok.
Qed.

(* ---------- handshake readers ------------------------------------------------------------------ *)
Lemma exchange_key_client_ok r : ok r (exchange_key_client r).
Proof.
  unfold exchange_key_client. apply ok_bind; [apply get_int_ok|]. intros r1 hk _.
  destruct (hk =? 0)%Z; [apply ok_ret|].
  apply ok_bind; [apply get_int_ok|]. intros r2 _ _.
  apply ok_bind; [apply get_int_ok|]. intros r3 _ _.
  apply ok_bind; [apply get_int_ok|]. intros r4 _ _.
  apply ok_bind; [apply get_int_ok|]. intros r5 len _.
  destruct (len <? 0)%Z; [apply ok_err|].
  apply ok_bind; [apply get_bytes_ok|]. intros r6 _ _. apply ok_ret.
Qed.
Lemma ssl_receive_message_ok r : ok r (ssl_receive_message r).
Proof.
  unfold ssl_receive_message. apply ok_bind; [apply get_int_ok|]. intros r1 _ _.
  apply ok_bind; [apply get_int_ok|]. intros r2 len _.
  destruct (len <? 0)%Z; [apply ok_err|apply get_bytes_ok].
Qed.
Lemma get_id_string_ok enc mx r : ok r (get_id_string enc mx r).
Proof.
  unfold get_id_string. apply ok_bind; [apply get_int_ok|]. intros r1 ex _.
  destruct (mx <? ex)%Z; [apply ok_err|].
  apply ok_bind; [apply get_string_max_ok|]. intros r2 s _.
  destruct (Z.of_N (lenN s) =? ex)%Z; [apply ok_ret|apply ok_err].
Qed.

(* ---------- frames on a raw connection ---------------------------------------------------------- *)
Lemma c_read_spec c n c' o :
  c_read c n = (c', o) ->
  c_alloc c' = c_alloc c /\
  match o with
  | Some bs => lenN (c_in c') + n = lenN (c_in c) /\ lenN bs = n
  | None => c_in c' = [] /\ lenN (c_in c) < n
  end.
Proof.
  unfold c_read. rewrite len_lt_spec. destruct (N.ltb_spec (lenN (c_in c)) n); intro H0; inversion H0; subst; cbn [c_in c_alloc].
  - repeat split. exact H.
  - pose proof (lenN_skipn_le (c_in c) (N.to_nat n)) as K. rewrite N2Nat.id in K. specialize (K H).
    pose proof (lenN_firstn_skipn (c_in c) (N.to_nat n)). repeat split; lia.
Qed.

Section FrameProofs.
  Variable encrypted : bool.
  Variable open_ : N -> bytes -> bytes -> option bytes.
  Hypothesis open_len : forall k h b p, open_ k h b = Some p -> lenN p <= lenN b.

  Definition frame_const : N := NormalHeaderSize + (MaxMessageSize + 32) + 69.

  (* one frame: never panics; a delivered frame costs at most 16 bytes of allocation per
     byte consumed (its buffer, the plaintext, the AAD and the copy appended by the
     caller); a failing read costs at most one frame buffer more *)
  Lemma recv_frame_spec k c c' x :
    recv_frame encrypted open_ k c = (c', x) ->
    x <> FPanic /\ lenN (c_in c') <= lenN (c_in c) /\ c_alloc c <= c_alloc c' /\
    match x with
    | FOk (d, _) => c_alloc c' + lenN d + 16 * lenN (c_in c') <= c_alloc c + 16 * lenN (c_in c)
                    /\ lenN (c_in c') + 5 <= lenN (c_in c)
    | _ => c_alloc c' + 16 * lenN (c_in c') <= c_alloc c + 16 * lenN (c_in c) + frame_const
    end.
  Proof.
    unfold recv_frame, frame_const, max_wire.
    change NormalHeaderSize with 5. change MaxMessageSize with 1048576. change FlagMaxRecvWE with 10.
    destruct (c_read (c_make c 5) 5) as [c1 [hdr|]] eqn:R1; apply c_read_spec in R1; cbn [c_make c_in c_alloc] in R1;
      destruct R1 as (A1 & R1).
    - destruct R1 as (L1 & Lh). destruct hdr as [|flag lenb]; [rewrite lenN_nil in Lh; lia|].
      set (len := be_dec lenb).
      destruct (N.ltb_spec (if encrypted then 1048576 + 32 else 1048576) len) as [Hbig|Hbig].
      { intro H; apply pair_equal_spec in H; destruct H as [<- <-]; cbv beta iota; cbn [c_make c_in c_alloc]. repeat split; try congruence; lia. }
      destruct (10 <? b2n flag).
      { intro H; apply pair_equal_spec in H; destruct H as [<- <-]; cbv beta iota; cbn [c_make c_in c_alloc]. repeat split; try congruence; lia. }
      destruct (N.eqb_spec len 0) as [Hz|Hz].
      { destruct encrypted; intro H; apply pair_equal_spec in H; destruct H as [<- <-]; cbv beta iota; cbn [c_make c_in c_alloc]; repeat split; try congruence; try lia.
        rewrite lenN_nil. lia. }
      destruct (c_read (c_make c1 len) len) as [c2 [body|]] eqn:R2; apply c_read_spec in R2;
        cbn [c_make c_in c_alloc] in R2; destruct R2 as (A2 & R2).
      + destruct R2 as (L2 & Lb).
        destruct encrypted.
        * destruct (open_ k (flag :: lenb) body) as [p|] eqn:O.
          -- apply open_len in O. intro H; apply pair_equal_spec in H; destruct H as [<- <-]; cbv beta iota; cbn [c_make c_in c_alloc]. cbn [c_make c_in c_alloc].
             repeat split; try congruence; lia.
          -- intro H; apply pair_equal_spec in H; destruct H as [<- <-]; cbv beta iota; cbn [c_make c_in c_alloc]. cbn [c_make c_in c_alloc]. repeat split; try congruence; lia.
        * intro H; apply pair_equal_spec in H; destruct H as [<- <-]; cbv beta iota; cbn [c_make c_in c_alloc]. repeat split; try congruence; lia.
      + destruct R2 as (L2 & Lb). intro H; apply pair_equal_spec in H; destruct H as [<- <-]; cbv beta iota; cbn [c_make c_in c_alloc]. rewrite L2, lenN_nil.
        repeat split; try congruence; try lia. destruct encrypted; lia.
    - destruct R1 as (L1 & Lh). intro H; apply pair_equal_spec in H; destruct H as [<- <-]; cbv beta iota; cbn [c_make c_in c_alloc]. rewrite L1, lenN_nil.
      repeat split; try congruence; lia.
  Qed.

  Definition loop_post (c : conn) (y : conn * fres (bytes * N)) : Prop :=
    snd y <> FPanic /\ lenN (c_in (fst y)) <= lenN (c_in c) /\
    c_alloc (fst y) + 16 * lenN (c_in (fst y)) <= c_alloc c + 16 * lenN (c_in c) + frame_const.

  Lemma read_next_loop_post fuel : forall k c acc, loop_post c (read_next_loop encrypted open_ fuel k c acc).
  Proof.
    induction fuel as [|f IH]; intros k c acc; cbn [read_next_loop].
    - unfold loop_post; cbn. repeat split; try congruence; lia.
    - destruct (recv_frame encrypted open_ k c) as [c1 [[d flag]| |]] eqn:R; apply recv_frame_spec in R;
        destruct R as (R0 & R1 & R2 & R3).
      + destruct R3 as (R3 & R4).
        destruct (flag =? EndFlagPartial).
        * specialize (IH (N.succ k) (c_make c1 (lenN d)) (acc ++ d)). unfold loop_post in *.
          cbn [c_make c_in c_alloc] in IH. destruct IH as (I0 & I1 & I2). repeat split; try assumption; lia.
        * unfold loop_post; cbn [fst snd c_make c_in c_alloc]. repeat split; try congruence; lia.
      + unfold loop_post; cbn [fst snd]. repeat split; try congruence; lia.
      + exfalso; apply R0; reflexivity.
  Qed.

  Lemma recv_complete_loop_post fuel : forall k c acc, loop_post c (recv_complete_loop encrypted open_ fuel k c acc).
  Proof.
    induction fuel as [|f IH]; intros k c acc; cbn [recv_complete_loop].
    - unfold loop_post; cbn. repeat split; try congruence; lia.
    - destruct (recv_frame encrypted open_ k c) as [c1 [[d flag]| |]] eqn:R; apply recv_frame_spec in R;
        destruct R as (R0 & R1 & R2 & R3).
      + destruct R3 as (R3 & R4).
        destruct (flag =? EndFlagComplete).
        * unfold loop_post; cbn [fst snd c_make c_in c_alloc]. repeat split; try congruence; lia.
        * destruct (flag =? EndFlagPartial).
          -- specialize (IH (N.succ k) (c_make c1 (lenN d)) (acc ++ d)). unfold loop_post in *.
             cbn [c_make c_in c_alloc] in IH. destruct IH as (I0 & I1 & I2). repeat split; try assumption; lia.
          -- unfold loop_post; cbn [fst snd c_make c_in c_alloc]. repeat split; try congruence; lia.
      + unfold loop_post; cbn [fst snd]. repeat split; try congruence; lia.
      + exfalso; apply R0; reflexivity.
  Qed.
  (* the fuel of the reassembly loops is sufficient: more fuel never changes the result,
     i.e. the fuel-exhausted branch is unreachable and the model is the Go loop *)
  Lemma read_next_loop_fuel fuel : forall k c acc m,
    (N.to_nat (lenN (c_in c)) < fuel)%nat ->
    read_next_loop encrypted open_ (fuel + m) k c acc = read_next_loop encrypted open_ fuel k c acc.
  Proof.
    induction fuel as [|f IH]; intros k c acc m Hf; [lia|].
    cbn [plus read_next_loop].
    destruct (recv_frame encrypted open_ k c) as [c1 [[d flag]| |]] eqn:R; try reflexivity.
    apply recv_frame_spec in R. destruct R as (_ & _ & _ & _ & R4).
    destruct (flag =? EndFlagPartial); [|reflexivity].
    apply IH. cbn [c_make c_in]. lia.
  Qed.
  Lemma recv_complete_loop_fuel fuel : forall k c acc m,
    (N.to_nat (lenN (c_in c)) < fuel)%nat ->
    recv_complete_loop encrypted open_ (fuel + m) k c acc = recv_complete_loop encrypted open_ fuel k c acc.
  Proof.
    induction fuel as [|f IH]; intros k c acc m Hf; [lia|].
    cbn [plus recv_complete_loop].
    destruct (recv_frame encrypted open_ k c) as [c1 [[d flag]| |]] eqn:R; try reflexivity.
    apply recv_frame_spec in R. destruct R as (_ & _ & _ & _ & R4).
    destruct (flag =? EndFlagComplete); [reflexivity|].
    destruct (flag =? EndFlagPartial); [|reflexivity].
    apply IH. cbn [c_make c_in]. lia.
  Qed.
End FrameProofs.

(* ---------- blob and text parsers never panic ------------------------------------------------------- *)
Lemma go_slice_some s lo hi :
  (0 <= lo)%Z -> (lo <= hi)%Z -> (hi <= Z.of_N (lenN s))%Z -> exists v, go_slice s lo hi = Some v /\ Z.of_N (lenN v) = (hi - lo)%Z.
Proof.
  intros H1 H2 H3. unfold go_slice.
  destruct (Z.leb_spec 0 lo); [|lia]. destruct (Z.leb_spec lo hi); [|lia]. destruct (Z.leb_spec hi (Z.of_N (lenN s))); [|lia].
  cbn [andb]. eexists; split; [reflexivity|].
  rewrite lenN_spec, firstn_length, skipn_length. rewrite lenN_spec in H3. lia.
Qed.

Lemma read_var_total blob off : (0 <= off)%Z -> read_var blob off <> None.
Proof.
  intro Ho. unfold read_var.
  destruct (Z.ltb_spec (Z.of_N (lenN blob)) (off + 2)); [congruence|].
  destruct (go_slice_some blob off (off + 2)) as (lb & -> & _); try lia. cbn [obind].
  destruct (Z.ltb_spec (Z.of_N (lenN blob)) (off + 2 + Z.of_N (be_dec lb))); [congruence|].
  unfold go_make. destruct (Z.ltb_spec (Z.of_N (be_dec lb)) 0); [lia|]. cbn [obind].
  destruct (go_slice_some blob (off + 2) (off + 2 + Z.of_N (be_dec lb))) as (v & -> & _); try lia.
  cbn [obind]. congruence.
Qed.

Lemma read_var_off blob off v o : (0 <= off)%Z -> read_var blob off = Some (Some (v, o)) -> (0 <= o)%Z /\ Z.of_N (lenN v) = (o - off - 2)%Z /\ (o <= Z.of_N (lenN blob))%Z.
Proof.
  intro Ho. unfold read_var.
  destruct (Z.ltb_spec (Z.of_N (lenN blob)) (off + 2)); [congruence|].
  destruct (go_slice_some blob off (off + 2)) as (lb & -> & _); try lia. cbn [obind].
  destruct (Z.ltb_spec (Z.of_N (lenN blob)) (off + 2 + Z.of_N (be_dec lb))); [congruence|].
  unfold go_make. destruct (Z.ltb_spec (Z.of_N (be_dec lb)) 0); [lia|]. cbn [obind].
  destruct (go_slice_some blob (off + 2) (off + 2 + Z.of_N (be_dec lb))) as (v' & -> & Hv); try lia.
  cbn [obind]. intro Heq; inversion Heq; subst. lia.
Qed.

Lemma parse_crypto_state_total blob : parse_crypto_state blob <> None.
Proof.
  unfold parse_crypto_state. change CsFixedLen with 79.
  destruct (N.ltb_spec (lenN blob) 79); [congruence|].
  destruct (go_slice_some blob 0 4) as (v1 & -> & _); try lia. cbn [obind].
  destruct (negb (bytes_eqb v1 cs_magic)); [congruence|].
  destruct (go_slice_some blob 4 6) as (v2 & -> & _); try lia. cbn [obind].
  destruct (negb (be_dec v2 =? CsVersion)); [congruence|].
  assert (Hidx : exists f, go_index blob 6 = Some f).
  { unfold go_index. destruct (Z.leb_spec 0 6); [|lia]. destruct (Z.ltb_spec 6 (Z.of_N (lenN blob))); [|lia]. cbn [andb].
    destruct (skipn (Z.to_nat 6) blob) as [|b0 t] eqn:S; [|eexists; reflexivity].
    exfalso. pose proof (lenN_skipn_le blob (Z.to_nat 6) ltac:(lia)) as K. rewrite S, lenN_nil in K. lia. }
  destruct Hidx as (f & ->). cbn [obind].
  destruct (go_slice_some blob 7 39) as (v3 & -> & _); try lia. cbn [obind].
  destruct (go_slice_some blob 39 55) as (v4 & -> & _); try lia. cbn [obind].
  destruct (go_slice_some blob 55 71) as (v5 & -> & _); try lia. cbn [obind].
  destruct (go_slice_some blob 71 75) as (v6 & -> & _); try lia. cbn [obind].
  destruct (go_slice_some blob 75 79) as (v7 & -> & _); try lia. cbn [obind].
  destruct (read_var blob 79) as [[[sd o1]|]|] eqn:V1; [|cbn [obind]; congruence|exfalso; revert V1; apply read_var_total; lia].
  cbn [obind]. apply read_var_off in V1; [|lia].
  destruct (read_var blob o1) as [[[rd o2]|]|] eqn:V2; [|cbn [obind]; congruence|exfalso; revert V2; apply read_var_total; lia].
  cbn [obind]. apply read_var_off in V2; [|lia].
  destruct (read_var blob o2) as [[[pe o3]|]|] eqn:V3; [|cbn [obind]; congruence|exfalso; revert V3; apply read_var_total; lia].
  cbn [obind]. congruence.
Qed.

(* allocation of an accepted blob: the key copy plus the three variable fields, all inside the blob *)
Lemma parse_crypto_state_alloc blob s a :
  parse_crypto_state blob = Some (Some (s, a)) -> a <= 32 + lenN blob.
Proof.
  unfold parse_crypto_state. change CsFixedLen with 79.
  destruct (N.ltb_spec (lenN blob) 79); [congruence|].
  destruct (go_slice blob 0 4) as [v1|]; cbn [obind]; [|congruence].
  destruct (negb (bytes_eqb v1 cs_magic)); [congruence|].
  destruct (go_slice blob 4 6) as [v2|]; cbn [obind]; [|congruence].
  destruct (negb (be_dec v2 =? CsVersion)); [congruence|].
  destruct (go_index blob 6) as [f|]; cbn [obind]; [|congruence].
  destruct (go_slice blob 7 39) as [v3|]; cbn [obind]; [|congruence].
  destruct (go_slice blob 39 55) as [v4|]; cbn [obind]; [|congruence].
  destruct (go_slice blob 55 71) as [v5|]; cbn [obind]; [|congruence].
  destruct (go_slice blob 71 75) as [v6|]; cbn [obind]; [|congruence].
  destruct (go_slice blob 75 79) as [v7|]; cbn [obind]; [|congruence].
  destruct (read_var blob 79) as [[[sd o1]|]|] eqn:V1; cbn [obind]; try congruence.
  apply read_var_off in V1; [|lia].
  destruct (read_var blob o1) as [[[rd o2]|]|] eqn:V2; cbn [obind]; try congruence.
  apply read_var_off in V2; [|lia].
  destruct (read_var blob o2) as [[[pe o3]|]|] eqn:V3; cbn [obind]; try congruence.
  apply read_var_off in V3; [|lia].
  intro H0. assert (Ha : a = 32 + lenN sd + lenN rd + lenN pe) by congruence. lia.
Qed.

Lemma last_index_from_bounds b s : forall i best,
  last_index_from b s i best = best \/ (i <= last_index_from b s i best < i + Z.of_N (lenN s))%Z.
Proof.
  induction s as [|x s IH]; intros i best; cbn [last_index_from]; [left; reflexivity|].
  rewrite lenN_cons. destruct (IH (i + 1)%Z (if byte_eqb x b then i else best)) as [E|E].
  - rewrite E. destruct (byte_eqb x b); [right; lia|left; reflexivity].
  - right. lia.
Qed.
Lemma last_index_byte_bounds b s :
  last_index_byte b s = (-1)%Z \/ (0 <= last_index_byte b s < Z.of_N (lenN s))%Z.
Proof. unfold last_index_byte. destruct (last_index_from_bounds b s 0 (-1)) as [E|E]; [left; exact E|right; lia]. Qed.

Lemma index_from_bounds b s : forall i,
  index_from b s i = (-1)%Z \/ (i <= index_from b s i < i + Z.of_N (lenN s))%Z.
Proof.
  induction s as [|x s IH]; intros i; cbn [index_from]; [left; reflexivity|].
  rewrite lenN_cons. destruct (byte_eqb x b); [right; lia|].
  destruct (IH (i + 1)%Z) as [E|E]; [left; exact E|right; lia].
Qed.

Lemma parse_claim_id_strict_total c : parse_claim_id_strict c <> None.
Proof.
  unfold parse_claim_id_strict.
  destruct (last_index_byte_bounds x23 c) as [E|E]; destruct (Z.ltb_spec (last_index_byte x23 c) 0); try congruence; try lia.
  destruct (go_slice_some c (last_index_byte x23 c + 1) (Z.of_N (lenN c))) as (ah & -> & _); try lia. cbn [obind].
  destruct ah as [|b0 t]; [congruence|].
  destruct (byte_eqb b0 x5b); cbn [andb]; [|congruence].
  destruct (Z.ltb_spec (last_index_byte x23 c) (last_index_byte x5d c)); [|congruence].
  destruct (last_index_byte_bounds x5d c) as [F|F]; [lia|].
  destruct (go_slice_some c 0 (last_index_byte x23 c)) as (v1 & -> & _); try lia. cbn [obind].
  destruct (go_slice_some c (last_index_byte x23 c + 1) (last_index_byte x5d c + 1)) as (v2 & -> & _); try lia. cbn [obind].
  destruct (go_slice_some c (last_index_byte x5d c + 1) (Z.of_N (lenN c))) as (v3 & -> & _); try lia. cbn [obind].
  congruence.
Qed.

Lemma session_attr_item_total it : session_attr_item it <> None.
Proof.
  unfold session_attr_item. destruct (trim_space it) as [|b0 t] eqn:T; [congruence|].
  set (item := b0 :: t). unfold index_byte.
  destruct (Z.leb_spec (index_from x3d item 0) 0); [congruence|].
  destruct (index_from_bounds x3d item 0) as [E|E]; [lia|].
  destruct (go_slice_some item 0 (index_from x3d item 0)) as (nm & -> & _); try lia. cbn [obind].
  destruct (go_slice_some item (index_from x3d item 0 + 1) (Z.of_N (lenN item))) as (v0 & -> & _); try lia. cbn [obind].
  destruct (N.leb_spec 2 (lenN (trim_space v0))); cbn [andb]; [|congruence].
  destruct (has_prefix_q (trim_space v0) && has_suffix_q (trim_space v0)); [|congruence].
  destruct (go_slice_some (trim_space v0) 1 (Z.of_N (lenN (trim_space v0)) - 1)) as (v' & -> & _); try lia. cbn [obind].
  congruence.
Qed.

Lemma attr_items_total items : attr_items items <> None.
Proof.
  induction items as [|it rest IH]; cbn [attr_items]; [congruence|].
  destruct (session_attr_item it) as [o|] eqn:E; [|exfalso; revert E; apply session_attr_item_total].
  cbn [obind]. destruct (attr_items rest) as [tl|]; [|congruence]. cbn [obind]. congruence.
Qed.
Lemma import_session_info_attributes_total info : import_session_info_attributes info <> None.
Proof. unfold import_session_info_attributes. destruct info; [congruence|apply attr_items_total]. Qed.

(* ---------- the message-level decoders, as one family -------------------------------------------- *)
Inductive decoder :=
| DInt | DString | DStringMax (cap : Z) | DSkipString | DBytes (n : Z)
| DClassAd (cap : Z) | DSkipClassAdRaw
| DExchangeKey | DSSLReceive | DIdString (max_name : Z).

Definition erase {A} (x : reader * mres A) : reader * mres unit :=
  match x with (r, MOk _) => (r, MOk tt) | (r, MErr e) => (r, MErr e) | (r, MPanic) => (r, MPanic) end.

Definition run_decoder (parse : N -> bytes -> bool) (enc : bool) (d : decoder) (r : reader) : reader * mres unit :=
  match d with
  | DInt => erase (get_int r)
  | DString => erase (get_string' enc r)
  | DStringMax cap => erase (get_string_max enc cap r)
  | DSkipString => skip_string enc r
  | DBytes n => erase (get_bytes r n)
  | DClassAd cap => get_classad parse enc cap r
  | DSkipClassAdRaw => skip_classad_raw enc r
  | DExchangeKey => exchange_key_client r
  | DSSLReceive => erase (ssl_receive_message r)
  | DIdString mx => erase (get_id_string enc mx r)
  end.

Lemma ok_erase {A} r (x : reader * mres A) : ok r x -> ok r (erase x).
Proof.
  destruct x as [r1 [a|e|]]; cbn [erase]; intro H.
  - eapply ok_state_eq; [exact H|congruence].
  - eapply ok_state_eq; [exact H|congruence].
  - exfalso. destruct H as (H & _). apply H. reflexivity.
Qed.

Theorem decoders_ok parse enc d r : ok r (run_decoder parse enc d r).
Proof.
  destruct d; cbn [run_decoder]; try apply ok_erase.
  - apply get_int_ok.
  - apply get_string'_ok.
  - apply get_string_max_ok.
  - apply skip_string_ok.
  - apply get_bytes_ok.
  - apply get_classad_ok.
  - apply skip_classad_raw_ok.
  - apply exchange_key_client_ok.
  - apply ssl_receive_message_ok.
  - apply get_id_string_ok.
Qed.

(* a whole session: any sequence of decoder calls on one reader (stops at the first failure) *)
Fixpoint run_decoders parse enc (ds : list decoder) (r : reader) : reader * mres unit :=
  match ds with
  | [] => (r, MOk tt)
  | d :: rest => bind (run_decoder parse enc d r) (fun r1 _ => run_decoders parse enc rest r1)
  end.
Theorem decoders_seq_ok parse enc ds : forall r, ok r (run_decoders parse enc ds r).
Proof.
  induction ds as [|d rest IH]; intro r; cbn [run_decoders]; [apply ok_ret|].
  apply ok_bind; [apply decoders_ok|]. intros r1 _ _. apply IH.
Qed.

(* the pre-fix GetString (get_lstr_unfixed) does panic: the Panic outcome is not vacuous *)
Lemma unfixed_get_lstr_panics :
  exists fs, snd (get_lstr_unfixed (reader_of fs)) = MPanic.
Proof.
  exists [([xff; xff; xff; xff; xff; xff; xff; xff], true)]. vm_compute. reflexivity.
Qed.

(* ---------- statements exported by Props/C13.v --------------------------------------------------- *)
Lemma no_panic_seq parse enc ds r : snd (run_decoders parse enc ds r) <> MPanic.
Proof. destruct (decoders_seq_ok parse enc ds r) as (H & _). exact H. Qed.

Lemma alloc_bounded_seq parse enc ds r :
  let r' := fst (run_decoders parse enc ds r) in
  r_alloc r <= r_alloc r' /\ avail r' <= avail r /\
  r_alloc r' + avail r' <= r_alloc r + avail r.
Proof. destruct (decoders_seq_ok parse enc ds r) as (_ & H1 & H2 & _). cbn zeta. repeat split; lia. Qed.

Lemma cap_string (enc : bool) cap r :
  (0 < cap)%Z ->
  let x := get_string_max enc cap r in
  avail r <= avail (fst x) + Z.to_N cap + (if enc then 8 else 0) /\
  (forall s, snd x = MOk s -> lenN s <= Z.to_N cap) /\
  (Z.to_N cap + (if enc then 8 else 0) <= lenN (r_buf r) -> r_in (fst x) = r_in r).
Proof. intro H. exact (get_string_max_cap enc cap r H). Qed.

Lemma cap_classad_read (enc : bool) cap total r :
  (0 < cap)%Z ->
  let x := budget_read enc cap total r in
  ((cap - total <= 0)%Z -> x = (r, MErr MOther)) /\
  ((0 < cap - total)%Z ->
     avail r <= avail (fst x) + Z.to_N (cap - total) + (if enc then 8 else 0) /\
     (forall s, snd x = MOk s -> lenN s <= Z.to_N (cap - total)) /\
     (Z.to_N (cap - total) + (if enc then 8 else 0) <= lenN (r_buf r) -> r_in (fst x) = r_in r)).
Proof.
  intro Hc. cbn zeta. unfold budget_read. destruct (Z.ltb_spec 0 cap); [|lia].
  destruct (Z.leb_spec (cap - total) 0); split; try lia; intro Hp; try reflexivity.
  exact (get_string_max_cap enc (cap - total) r Hp).
Qed.

Lemma frames_total_bounded (encrypted : bool) open_ :
  (forall k h b p, open_ k h b = Some p -> lenN p <= lenN b) ->
  forall k c,
  let post := fun (y : conn * fres (bytes * N)) =>
    snd y <> FPanic /\ lenN (c_in (fst y)) <= lenN (c_in c) /\
    c_alloc (fst y) + 16 * lenN (c_in (fst y)) <= c_alloc c + 16 * lenN (c_in c) + frame_const in
  post (recv_frame encrypted open_ k c) /\
  post (read_next_frame encrypted open_ k c) /\
  post (receive_complete_message encrypted open_ k c).
Proof.
  intros Hopen k c. cbn zeta. split; [|split].
  - destruct (recv_frame encrypted open_ k c) as [c' x] eqn:R.
    apply (recv_frame_spec encrypted open_ Hopen) in R. destruct R as (R0 & R1 & R2 & R3). cbn [fst snd].
    split; [exact R0|]. split; [exact R1|]. destruct x as [[d fl]| |]; unfold frame_const in *; lia.
  - apply (read_next_loop_post encrypted open_ Hopen).
  - apply (recv_complete_loop_post encrypted open_ Hopen).
Qed.

Lemma crypto_state_total blob :
  parse_crypto_state blob <> None /\
  (forall s a, parse_crypto_state blob = Some (Some (s, a)) -> a <= 32 + lenN blob).
Proof. split; [apply parse_crypto_state_total|apply parse_crypto_state_alloc]. Qed.

Lemma reassembly_fuel_sufficient (encrypted : bool) open_ :
  (forall k h b p, open_ k h b = Some p -> lenN p <= lenN b) ->
  forall k c m,
    read_next_loop encrypted open_ (frames_fuel c + m) k c [] = read_next_frame encrypted open_ k c /\
    recv_complete_loop encrypted open_ (frames_fuel c + m) k c [] = receive_complete_message encrypted open_ k c.
Proof.
  intros Hopen k c m. unfold read_next_frame, receive_complete_message, frames_fuel. split.
  - apply (read_next_loop_fuel encrypted open_ Hopen). lia.
  - apply (recv_complete_loop_fuel encrypted open_ Hopen). lia.
Qed.
