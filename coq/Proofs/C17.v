(* Proofs/C17.v — obligations over the facts regenerated from the source, and the
   bridge from those facts to the lockset theorem. *)
From Coq Require Import List Bool String PeanoNat.
From Cedar Require Import Model.Lockset Model.LocksetFacts Proofs.C17Lockset Proofs.C17Counter Proofs.C17Cache gen.FactsC17.
Import ListNotations.
Local Open Scope string_scope.
Local Open Scope list_scope.

Lemma cache_guarded : forallb access_ok lock_facts = true.
Proof. vm_compute. reflexivity. Qed.

(* interprocedural part of the lockset: the entry lockset the translator assumed for every
   helper (unexported function) really is held at every static call site it recorded *)
Lemma helper_entry_locksets_sound : forallb helper_ok helper_facts = true.
Proof. vm_compute. reflexivity. Qed.

(* every cache operation that writes the maps holds the cache lock in a single
   critical section; the sweeping / deleting operations are present (non-vacuity) *)
Definition atomic_writer (fn : string) : bool :=
  existsb (fun c => String.eqb (cs_fn c) fn && cs_writes c && Nat.eqb (cs_regions c) 1) cs_facts.

Lemma cache_atomic_sections :
  forallb cs_ok cs_facts = true /\
  atomic_writer "security.SessionCache.InvalidateExpired" = true /\
  atomic_writer "security.SessionCache.LookupNonExpired" = true /\
  atomic_writer "security.SessionCache.Invalidate" = true /\
  atomic_writer "security.SessionCache.Store" = true.
Proof. vm_compute. auto. Qed.

Lemma vars_safe : forallb var_ok var_facts = true /\ var_facts <> [].
Proof. split; [vm_compute; reflexivity|discriminate]. Qed.

(* SessionCache.Store purges the id's command mappings whenever a different entry takes
   the id - not only when it replaces a present one - i.e. it is the Store of the model *)
Lemma store_purges_unconditionally : store_purge_ok store_purge = true.
Proof. vm_compute. reflexivity. Qed.

(* the session counter: the function that hands out counter values is atomic adds only *)
Definition session_counter_ops : list cop :=
  match find (fun c => String.eqb (cp_fn c) "security.GetNextSessionCounter" && String.eqb (cp_var c) "sessionCounter") counter_progs with
  | Some c => cp_ops c
  | None => [COther]
  end.

Lemma counter_atomic :
  forallb counter_prog_ok counter_progs = true /\
  forallb is_add session_counter_ops = true /\ session_counter_ops <> [].
Proof. split; [vm_compute; reflexivity|split; [vm_compute; reflexivity|vm_compute; discriminate]]. Qed.

(* any number of goroutines, each calling the translated GetNextSessionCounter any
   number of times, in any interleaving: all values handed out are pairwise distinct *)
Fixpoint calls (n : nat) : list cop :=
  match n with 0 => [] | S k => session_counter_ops ++ calls k end.

Lemma calls_add n : forallb is_add (calls n) = true.
Proof.
  induction n as [|n IH]; [reflexivity|]. cbn [calls]. rewrite forallb_app, IH.
  destruct counter_atomic as (_ & H & _). rewrite H. reflexivity.
Qed.

Theorem session_counters_distinct (c0 : nat) (ncalls : list nat) s :
  creach (cinit c0 (map calls ncalls)) s -> NoDup (c_out s).
Proof.
  apply counter_distinct. apply Forall_forall. intros t Ht.
  apply in_map_iff in Ht. destruct Ht as (n & <- & _). apply calls_add.
Qed.

(* no function mutates, in place, a slice owned by a SecurityConfig: per-connection
   configs are shallow copies and share those backing arrays *)
Lemma config_slices_immutable : slice_muts = [].
Proof. reflexivity. Qed.

(* nobody writes, in place, to bytes that may alias a cached session's key *)
Lemma cached_key_never_written : cached_key_writers key_writes = [].
Proof. vm_compute. reflexivity. Qed.

(* every call site of security.NewAuthenticator in the library passes a
   per-connection copy; the client, server and SecurityManager sites are
   required to be present (non-vacuity) *)
Definition site_private (fn : string) : bool :=
  existsb (fun s => String.eqb (as_fn s) fn && private s) auth_sites.

Lemma config_private :
  forallb private auth_sites = true /\
  site_private "client.ConnectAndAuthenticateWithConfig" = true /\
  site_private "server.Server.ServeConn" = true /\
  site_private "security.SecurityManager.ClientHandshake" = true /\
  site_private "security.SecurityManager.ServerHandshake" = true.
Proof. vm_compute. auto. Qed.

(* every config-returning hook installed on an Authenticator hands over a
   per-connection copy; the server's per-command hook is present (non-vacuity) *)
Lemma config_hooks_private :
  forallb hook_private hook_sites = true /\
  existsb (fun h => String.eqb (hs_fn h) "server.Server.ServeConn" &&
                    String.eqb (hs_field h) "Authenticator.ServerConfigForCommand" &&
                    match hs_kind h with HookCopy => true | _ => false end) hook_sites = true.
Proof. vm_compute. auto. Qed.

Lemma broker_serialised : forallb broker_ok broker_io = true /\
  existsb (fun b => match bf_origin b with SField => String.eqb (bf_callee b) "WriteControlAd" | _ => false end) broker_io = true.
Proof. vm_compute. auto. Qed.

(* the premise of the split: whoever installs a cipher freezes both digests right
   there, i.e. before the stream can be used by a writer and a reader at once *)
Lemma digests_frozen_at_key_install :
  forallb installer_ok key_installers = true /\
  existsb (fun k => String.eqb (ki_fn k) "stream.Stream.SetSymmetricKey") key_installers = true.
Proof. vm_compute. auto. Qed.

Lemma stream_split : stream_split_ok stream_send stream_recv = true.
Proof. vm_compute. reflexivity. Qed.

(* ---- bridge: any threads assembled from the translated, lock-guarded accesses
   are well-locked, hence race-free in every interleaving --------------------- *)

Definition lock_guarded (x : lock_fact) : bool :=
  match guard_of (lf_field x) guard_table with Some (GLock _) => true | _ => false end.

(* one access, wrapped in its guard: checked for every translated fact by evaluation *)
Lemma fact_events_wl : forallb (fun x => negb (lock_guarded x) || wl g_of [] (fact_events x)) lock_facts = true.
Proof. vm_compute. reflexivity. Qed.

Lemma fact_events_shape x :
  fact_events x = [] \/ exists l m a, fact_events x = [Acq l m; a; Rel l] /\ (forall y, a <> Acq y MR /\ a <> Acq y MW) /\ (forall y, a <> Rel y).
Proof.
  unfold fact_events. destruct (guard_of (lf_field x) guard_table) as [[l| |l o]|]; auto.
  right. eexists _, _, _. split; [reflexivity|]. destruct (lf_rw x); split; intros; try split; discriminate.
Qed.

Lemma wl_fact_prefix x rest :
  wl g_of [] (fact_events x) = true -> wl g_of [] rest = true -> wl g_of [] (fact_events x ++ rest) = true.
Proof.
  intros H1 H2. destruct (fact_events_shape x) as [E|(l & m & a & E & Ha & Hr)]; rewrite E in *; [exact H2|].
  cbn [app wl next_held] in *.
  destruct a as [y my|y|y|y]; try (destruct (Ha y) as [A1 A2]; destruct my; congruence); try (destruct (Hr y); congruence);
    cbn [next_held] in *; cbn [release fst] in *; rewrite Nat.eqb_refl in *;
    apply andb_true_iff in H1; destruct H1 as [_ H1]; apply andb_true_iff in H1; destruct H1 as [H1 _];
    rewrite H1; cbn; exact H2.
Qed.

(* a thread = any sequence of lock-guarded accesses taken from the translated facts *)
Definition thread_of (xs : list lock_fact) : thread := flat_map fact_events xs.

Lemma thread_of_wl xs :
  (forall x, In x xs -> In x lock_facts /\ lock_guarded x = true) -> well_locked g_of (thread_of xs).
Proof.
  unfold well_locked, thread_of. induction xs as [|x xs IH]; intro H; [reflexivity|].
  cbn [flat_map]. apply wl_fact_prefix.
  - destruct (H x (or_introl eq_refl)) as [Hin Hg].
    pose proof fact_events_wl as F. rewrite forallb_forall in F. specialize (F x Hin).
    rewrite Hg in F. exact F.
  - apply IH. intros y Hy. apply H. right. exact Hy.
Qed.

Theorem cache_threads_drf (prog : list (list lock_fact)) s :
  (forall xs, In xs prog -> forall x, In x xs -> In x lock_facts /\ lock_guarded x = true) ->
  reach (init (map thread_of prog)) s -> ~ race s.
Proof.
  intros H R. eapply lockset_drf; [|exact R].
  apply Forall_forall. intros t Ht. apply in_map_iff in Ht. destruct Ht as (xs & <- & Hxs).
  apply thread_of_wl. apply H. exact Hxs.
Qed.
