(* Proofs/C14DoubleExact.v — precision of the double format on the exact-rational reading
   (pure integer arithmetic: no floating point, no real numbers, no axioms).

   A finite non-zero binary64 value is d = +-frac * 2^e with frac = m / 2^53,
   2^52 <= m < 2^53 (so 1/2 <= frac < 1).  The format sends k = trunc(frac * c),
   c = 2^31 - 1, and e; the receiver rebuilds d' = +-(k / c) * 2^e.  Read exactly,
   k = floor(m * c / 2^53).  The statement below is

        0  <=  frac - k/c  <=  frac * 2^-30

   with both sides multiplied by the positive number 2^53 * c * 2^30; multiplying by
   +-2^e gives |d - d'| <= |d| * 2^-30 and d' between 0 and d. *)
From Coq Require Import ZArith Lia QArith Qabs.
From Cedar Require Import gen.Consts.
Local Open Scope Z_scope.

Definition cZ : Z := 2147483647.

Lemma frac_const_value : Z.of_N FracConst = cZ.
Proof. reflexivity. Qed.
Lemma frac_const_is_2p31m1 : cZ = 2 ^ 31 - 1.
Proof. reflexivity. Qed.

Theorem double_precision_exact (m : Z) :
  2 ^ 52 <= m < 2 ^ 53 ->
  let k := (m * cZ) / 2 ^ 53 in
  2 ^ 30 - 1 <= k <= 2 ^ 31 - 2 /\
  0 <= m * cZ - k * 2 ^ 53 < 2 ^ 53 /\
  (m * cZ - k * 2 ^ 53) * 2 ^ 30 <= m * cZ.
Proof.
  intros Hm k. unfold cZ in *.
  set (P := m * 2147483647) in *.
  assert (HP : 2 ^ 52 * 2147483647 <= P <= (2 ^ 53 - 1) * 2147483647) by (unfold P; lia).
  pose proof (Z.div_mod P (2 ^ 53) ltac:(lia)) as E.
  pose proof (Z.mod_pos_bound P (2 ^ 53) ltac:(lia)) as R.
  fold k in E. set (r := P mod 2 ^ 53) in *.
  assert (K1 : 2 ^ 30 - 1 <= k) by lia.
  assert (K2 : k <= 2 ^ 31 - 2) by lia.
  replace (P - k * 2 ^ 53) with r by lia.
  repeat split; lia.
Qed.

(* the same inequality between rationals *)
Theorem double_precision_exact_Q (m : Z) :
  2 ^ 52 <= m < 2 ^ 53 ->
  let frac := (m # 9007199254740992)%Q in                          (* m / 2^53 *)
  let k := (m * cZ) / 2 ^ 53 in                                    (* trunc (frac * c) *)
  let back := (k # 2147483647)%Q in                                (* k / c *)
  (0 <= frac - back /\ frac - back <= frac * (1 # 1073741824))%Q.  (* ... <= frac * 2^-30 *)
Proof.
  intros Hm frac k back.
  destruct (double_precision_exact m Hm) as (K & R & B). fold k in K, R, B.
  unfold frac, back, Qle, Qminus, Qplus, Qopp, Qmult; cbn [Qnum Qden].
  unfold cZ in *.
  rewrite !Pos2Z.inj_mul.
  change (Z.pos 9007199254740992) with (2 ^ 53) in *.
  change (Z.pos 2147483647) with 2147483647 in *.
  change (Z.pos 1073741824) with (2 ^ 30) in *.
  split; nia.
Qed.

(* the hypotheses are satisfiable: the mantissa of 1.0 (frac = 1/2) and of pi *)
Example double_precision_instances :
  (2 ^ 52 <= 2 ^ 52 < 2 ^ 53) /\ (2 ^ 52 * cZ) / 2 ^ 53 = 1073741823 /\
  (2 ^ 52 <= 7074237752028440 < 2 ^ 53) /\ (7074237752028440 * cZ) / 2 ^ 53 = 1686629712.
Proof. repeat split; try reflexivity; lia. Qed.
