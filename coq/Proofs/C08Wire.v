(* Proofs/C08Wire.v — the three receivers consume the same bytes (plaintext streams),
   and the per-string core of the statement. *)
From Coq Require Import List NArith ZArith Lia Bool.
From Coq Require Import ZifyBool ZifyNat ZifyN.
From Cedar Require Import Lib.Bytes gen.Consts Model.Msg Model.Privacy Model.AdWire.
Import ListNotations.
Local Open Scope N_scope.

Definition res_class {A B} (x : mres A) (y : mres B) : Prop :=
  match x, y with
  | MOk _, MOk _ => True
  | MErr a, MErr b => a = b
  | MPanic, MPanic => True
  | _, _ => False
  end.

Definition want_flag (want : option bytes) : bool := match want with Some [] => true | _ => false end.
Definition want_step (want : option bytes) (b : byte) : option bytes :=
  match want with
  | Some (c :: w') => if byte_eqb b c then Some w' else None
  | _ => None
  end.

(* the plaintext byte loops of GetString and SkipString walk the reader identically *)
Lemma cstr_same fuel : forall r acc want,
  fst (get_cstr_loop fuel r acc) = fst (skip_cstr_loop fuel r want) /\
  res_class (snd (get_cstr_loop fuel r acc)) (snd (skip_cstr_loop fuel r want)).
Proof.
  induction fuel as [|f IH]; intros r acc want; cbn [get_cstr_loop skip_cstr_loop].
  - split; reflexivity.
  - destruct (ensure r 1) as [r1 [u|e|]].
    + destruct (r_buf r1) as [|b rest]; [split; reflexivity|].
      destruct (byte_eqb b x00); [split; [reflexivity|exact I]|].
      apply IH.
    + destruct e; split; try reflexivity; exact I.
    + split; [reflexivity|exact I].
Qed.

(* what the skipping loop reports about the marker *)
Definition marker_inv (acc : bytes) (want : option bytes) : Prop :=
  match want with
  | Some w => rev acc ++ w = secret_marker
  | None => forall suffix, rev acc ++ suffix <> secret_marker
  end.

Lemma marker_inv_step acc want b : marker_inv acc want -> marker_inv (b :: acc) (want_step want b).
Proof.
  unfold marker_inv, want_step. cbn [rev]. destruct want as [[|c w']|]; intro H.
  - intros suffix E. rewrite <- app_assoc in E. rewrite app_nil_r in H. rewrite <- H in E.
    apply (f_equal (@length byte)) in E. rewrite app_length in E. cbn [length app] in E. lia.
  - destruct (byte_eqb b c) eqn:B.
    + apply byte_eqb_eq in B. subst c. rewrite <- app_assoc. exact H.
    + intros suffix E. rewrite <- app_assoc, <- H in E. apply app_inv_head in E. cbn [app] in E.
      inversion E; subst. assert (byte_eqb c c = true) by (apply byte_eqb_eq; reflexivity). congruence.
  - intros suffix E. rewrite <- app_assoc in E. exact (H _ E).
Qed.

Lemma marker_inv_flag acc want : marker_inv acc want ->
  want_flag want = bytes_eqb (rev' acc) secret_marker.
Proof.
  unfold marker_inv, want_flag, rev'. rewrite <- rev_alt. destruct want as [[|c w']|]; intro H.
  - rewrite app_nil_r in H. symmetry. apply bytes_eqb_eq. exact H.
  - symmetry. destruct (bytes_eqb (rev acc) secret_marker) eqn:E; [|reflexivity].
    apply bytes_eqb_eq in E. rewrite <- E in H. apply (f_equal (@length byte)) in H.
    rewrite app_length in H. cbn [length] in H. lia.
  - symmetry. destruct (bytes_eqb (rev acc) secret_marker) eqn:E; [|reflexivity].
    apply bytes_eqb_eq in E. exfalso. apply (H []). rewrite app_nil_r. exact E.
Qed.

Lemma cstr_flag fuel : forall r acc want s,
  marker_inv acc want ->
  snd (get_cstr_loop fuel r acc) = MOk s ->
  snd (skip_cstr_loop fuel r want) = MOk (bytes_eqb s secret_marker).
Proof.
  induction fuel as [|f IH]; intros r acc want s Hi; cbn [get_cstr_loop skip_cstr_loop]; [discriminate|].
  destruct (ensure r 1) as [r1 [u|e|]].
  - destruct (r_buf r1) as [|b rest]; [discriminate|].
    destruct (byte_eqb b x00).
    + cbn [snd]. intro H; inversion H; subst s. f_equal. apply (marker_inv_flag _ _ Hi).
    + apply IH. fold (want_step want b). apply marker_inv_step. exact Hi.
  - destruct e; cbn [snd]; try discriminate.
    intro H; inversion H; subst s. f_equal. apply (marker_inv_flag _ _ Hi).
  - discriminate.
Qed.

(* plaintext strings: the three ways of consuming one string *)
Lemma plain_string_same r :
  fst (get_string false r) = fst (skip_string_marker false r) /\
  fst (get_string false r) = fst (skip_string false r) /\
  res_class (snd (get_string false r)) (snd (skip_string_marker false r)) /\
  res_class (snd (get_string false r)) (snd (skip_string false r)) /\
  (forall s, snd (get_string false r) = MOk s ->
             snd (skip_string_marker false r) = MOk (bytes_eqb s secret_marker)).
Proof.
  unfold get_string, get_cstr, skip_string_marker, skip_string.
  set (fuel := S (S (N.to_nat (total_bytes r)))).
  destruct (cstr_same fuel r [] (Some secret_marker)) as [A1 A2].
  destruct (cstr_same fuel r [] None) as [B1 B2].
  repeat split; auto.
  - rewrite B1. destruct (skip_cstr_loop fuel r None) as [r1 [u|e|]]; reflexivity.
  - destruct (skip_cstr_loop fuel r None) as [r1 [u|e|]]; exact B2.
  - intros s H. apply (cstr_flag fuel r [] (Some secret_marker) s); [reflexivity|exact H].
Qed.

(* ------------------------------------------------------------------ *)
(* a plaintext stream: no key, flag off                                *)

Definition plain_t (t : treader) : Prop := t_key t = false /\ t_enc t = false.

Lemma t_step_flags {A} (f : reader -> reader * mres A) t :
  t_key (fst (t_step f t)) = t_key t /\ t_enc (fst (t_step f t)) = t_enc t /\ t_saved (fst (t_step f t)) = t_saved t.
Proof. unfold t_step. destruct (f (t_r t)) as [r1 x]. destruct (forallb _ _); cbn; auto. Qed.

Lemma plain_prepare t : plain_t t -> plain_t (t_prepare t) /\ t_saved (t_prepare t) = false.
Proof. intros [H1 H2]. unfold plain_t, t_prepare. cbn. rewrite H1, H2. auto. Qed.

(* one expression string: GetString vs the two skips *)
Lemma t_string_same t : plain_t t ->
  fst (t_get_string t) = fst (t_skip_string t) /\
  fst (t_get_string t) = fst (t_skip_plain t) /\
  (forall s, snd (t_get_string t) = MOk s -> snd (t_skip_string t) = MOk (bytes_eqb s secret_marker)) /\
  (forall s, snd (t_get_string t) = MOk s -> exists u, snd (t_skip_plain t) = MOk u).
Proof.
  intros [Hk He]. unfold t_get_string, t_skip_string, t_skip_plain, t_step. rewrite He.
  destruct (plain_string_same (t_r t)) as (A1 & A2 & A3 & A4 & A5).
  destruct (get_string false (t_r t)) as [r1 x] eqn:G.
  destruct (skip_string_marker false (t_r t)) as [r2 y] eqn:S1.
  destruct (skip_string false (t_r t)) as [r3 z] eqn:S2.
  cbn [fst snd] in *. subst r2 r3.
  destruct (forallb _ _); cbn [fst snd].
  - repeat split; auto.
    intros s H. rewrite H in A4. destruct z; try contradiction. eexists; reflexivity.
  - repeat split; auto; intros s H; discriminate.
Qed.

Lemma t_secret_same t : plain_t t ->
  fst (t_get_secret t) = fst (t_skip_secret t) /\
  (forall s, snd (t_get_secret t) = MOk s -> exists u, snd (t_skip_secret t) = MOk u) /\
  plain_t (fst (t_get_secret t)).
Proof.
  intro Hp. unfold t_get_secret, t_skip_secret.
  destruct (plain_prepare _ Hp) as [Hp' Hs].
  destruct (t_string_same _ Hp') as (_ & B & _ & D).
  pose proof (t_step_flags (get_string (t_enc (t_prepare t))) (t_prepare t)) as (F1 & F2 & F3).
  fold (t_get_string (t_prepare t)) in F1, F2, F3.
  destruct (t_get_string (t_prepare t)) as [t1 x], (t_skip_plain (t_prepare t)) as [t2 y].
  cbn [fst snd] in *. subst t2. split; [reflexivity|]. split.
  - intros s H. subst x. apply (D s eq_refl).
  - destruct Hp' as [P1 P2]. unfold plain_t, t_restore. cbn. rewrite F1, F3, Hs. auto.
Qed.

Lemma plain_after_string t : plain_t t -> plain_t (fst (t_get_string t)).
Proof.
  intros [H1 H2]. destruct (t_step_flags (get_string (t_enc t)) t) as (F1 & F2 & _).
  unfold plain_t, t_get_string. rewrite F1, F2. auto.
Qed.

Lemma exprs_same n : forall t acc l t1, plain_t t ->
  get_exprs (fun _ => true) true n t acc = (t1, MOk l) ->
  skip_exprs n t = (t1, MOk tt) /\ plain_t t1.
Proof.
  induction n as [|n IH]; intros t acc l t1 Hp H; cbn [get_exprs skip_exprs] in *.
  - inversion H; subst. auto.
  - destruct (t_finished t); cbn [andb] in H; [discriminate|].
    destruct (t_string_same _ Hp) as (A & _ & C & _).
    pose proof (plain_after_string _ Hp) as Hp1.
    destruct (t_get_string t) as [ta x] eqn:G. destruct (t_skip_string t) as [tb y] eqn:S.
    cbn [fst snd] in *. subst tb.
    destruct x as [s| |]; try discriminate.
    pose proof (C s eq_refl) as Hy. subst y.
    destruct (bytes_eqb s secret_marker).
    + destruct (t_secret_same _ Hp1) as (A2 & C2 & P2).
      destruct (t_get_secret ta) as [tc x2] eqn:G2. destruct (t_skip_secret ta) as [td y2] eqn:S2.
      cbn [fst snd] in *. subst td.
      destruct x2 as [s2| |]; try discriminate.
      destruct (C2 s2 eq_refl) as [u Hu]. subst y2.
      apply (IH tc (s2 :: acc) l t1 P2 H).
    + apply (IH ta (s :: acc) l t1 Hp1 H).
Qed.

(* plaintext stream, ANY bytes and framing: whenever GetClassAdRaw succeeds, SkipClassAdRaw
   succeeds and leaves the reader in exactly the same state (same bytes consumed) *)
Lemma plain_same_bytes t x t1 : plain_t t ->
  get_ad_raw t = (t1, MOk x) -> skip_ad t = (t1, MOk tt).
Proof.
  intros Hp H. unfold get_ad_raw, get_ad_gen in H. unfold skip_ad.
  assert (Hp0 : plain_t (fst (t_get_int t))).
  { destruct Hp as [H1 H2]. destruct (t_step_flags get_int t) as (F1 & F2 & _).
    unfold plain_t, t_get_int. rewrite F1, F2. auto. }
  destruct (t_get_int t) as [ta [n| |]]; try discriminate. cbn [fst] in Hp0.
  destruct (get_exprs (fun _ => true) true (Z.to_nat n) ta []) as [tb [es| |]] eqn:E; try discriminate.
  destruct (exprs_same _ _ _ _ _ Hp0 E) as [S Hpb]. rewrite S.
  unfold get_types in H. cbn [andb] in H.
  destruct (t_string_same _ Hpb) as (_ & B & _ & D).
  pose proof (plain_after_string _ Hpb) as Hpc.
  destruct (t_get_string tb) as [tc [my| |]] eqn:G1; try discriminate.
  destruct (t_skip_plain tb) as [tc' y1] eqn:S1. cbn [fst snd] in *. subst tc'.
  destruct (D my eq_refl) as [u1 Hu1]. subst y1.
  destruct (negb (lenN my =? 0) && negb (is_type_name my)); [discriminate|].
  destruct (t_string_same _ Hpc) as (_ & B2 & _ & D2).
  destruct (t_get_string tc) as [td [tg| |]] eqn:G2; try discriminate.
  destruct (t_skip_plain tc) as [td' y2] eqn:S2. cbn [fst snd] in *. subst td'.
  destruct (D2 tg eq_refl) as [u2 Hu2]. subst y2.
  destruct (negb (lenN tg =? 0) && negb (is_type_name tg)); [discriminate|].
  inversion H; subst. reflexivity.
Qed.

(* any stream state: the parsing receiver and the raw-text receiver walk the wire
   identically; if both succeed they end in the same state with the same strings *)
Lemma exprs_agree n : forall ok1 cf1 ok2 cf2 t acc t1 l1 t2 l2,
  get_exprs ok1 cf1 n t acc = (t1, MOk l1) -> get_exprs ok2 cf2 n t acc = (t2, MOk l2) ->
  t1 = t2 /\ l1 = l2.
Proof.
  induction n as [|n IH]; intros ok1 cf1 ok2 cf2 t acc t1 l1 t2 l2 H1 H2; cbn [get_exprs] in *.
  - inversion H1; inversion H2; subst. auto.
  - destruct (cf1 && t_finished t); [discriminate|]. destruct (cf2 && t_finished t); [discriminate|].
    destruct (t_get_string t) as [ta [s| |]]; try discriminate.
    destruct (bytes_eqb s secret_marker).
    + destruct (t_get_secret ta) as [tb [s2| |]]; try discriminate.
      destruct (ok1 s2); [|discriminate]. destruct (ok2 s2); [|discriminate].
      exact (IH _ _ _ _ _ _ _ _ _ _ H1 H2).
    + destruct (ok1 s); [|discriminate]. destruct (ok2 s); [|discriminate].
      exact (IH _ _ _ _ _ _ _ _ _ _ H1 H2).
Qed.

Lemma get_raw_agree parses t t1 x1 t2 x2 :
  get_ad parses t = (t1, MOk x1) -> get_ad_raw t = (t2, MOk x2) -> t1 = t2 /\ x1 = x2.
Proof.
  unfold get_ad, get_ad_raw, get_ad_gen. intros H1 H2.
  destruct (t_get_int t) as [ta [n| |]]; try discriminate.
  destruct (get_exprs parses false (Z.to_nat n) ta []) as [tb [es| |]] eqn:E1; try discriminate.
  destruct (get_exprs (fun _ => true) true (Z.to_nat n) ta []) as [tb' [es'| |]] eqn:E2; try discriminate.
  destruct (exprs_agree _ _ _ _ _ _ _ _ _ _ _ E1 E2) as [-> ->].
  unfold get_types in *. cbn [andb] in H1.
  destruct (t_get_string tb') as [tc [my| |]]; try discriminate.
  destruct (true && negb (lenN my =? 0) && negb (is_type_name my)); [discriminate|].
  destruct (t_get_string tc) as [td [tg| |]]; try discriminate.
  destruct (true && negb (lenN tg =? 0) && negb (is_type_name tg)); [discriminate|].
  inversion H1; inversion H2; subst. auto.
Qed.

(* ------------------------------------------------------------------ *)
(* encrypted string mode: ensureData(n) + read n  vs  discard(n)       *)

Definition same_rest (r r' : reader) : Prop :=
  r_buf r = r_buf r' /\ r_in r = r_in r' /\ r_eom r = r_eom r' /\ r_fin r = r_fin r'.

(* dropping m bytes, pulling as few frames as possible *)
Fixpoint drop (fs : list mframe) (buf : bytes) (eom : bool) (m : N) : option (bytes * bool * list mframe) :=
  if m <=? lenN buf then Some (skipn (N.to_nat m) buf, eom, fs)
  else if eom then None
  else match fs with
       | [] => None
       | (d, e) :: rest => drop rest d e (m - lenN buf)
       end.

Lemma short_of_N buf (n : N) : short_of buf (Z.of_N n) = (lenN buf <? n).
Proof.
  unfold short_of. destruct (Z.of_N n <=? 0)%Z eqn:E.
  - assert (n = 0) by lia. subst. symmetry. apply N.ltb_ge. lia.
  - rewrite N2Z.id. clear E. revert n. induction buf as [|b r IH]; intro n; cbn [len_lt].
    + rewrite lenN_nil. reflexivity.
    + rewrite lenN_cons. destruct (n =? 0) eqn:Z0; [lia|]. rewrite IH. lia.
Qed.

Lemma ensure_loop_drop fs : forall p buf eom m b' e' fs',
  ensure_loop fs (p ++ buf) eom (Z.of_N (lenN p + m)) = Some (b', e', fs') ->
  short_of b' (Z.of_N (lenN p + m)) = false ->
  drop fs buf eom m = Some (skipn (N.to_nat (lenN p + m)) b', e', fs').
Proof.
  induction fs as [|[d e] rest IH]; intros p buf eom m b' e' fs' H S; cbn [ensure_loop drop] in *.
  - rewrite short_of_N, lenN_app in H.
    destruct ((lenN p + lenN buf <? lenN p + m) && negb eom) eqn:C; [discriminate|].
    inversion H; subst. rewrite short_of_N, lenN_app in S.
    replace (m <=? lenN buf) with true by lia.
    f_equal. f_equal. f_equal. rewrite skipn_app.
    rewrite lenN_spec. replace (N.to_nat (N.of_nat (length p) + m) - length p)%nat with (N.to_nat m) by lia.
    replace (skipn (N.to_nat (N.of_nat (length p) + m)) p) with (@nil byte) by (symmetry; apply skipn_all2; lia). reflexivity.
  - rewrite short_of_N, lenN_app in H.
    destruct ((lenN p + lenN buf <? lenN p + m) && negb eom) eqn:C.
    + apply andb_true_iff in C as [C1 C2]. apply negb_true_iff in C2. subst eom.
      replace (m <=? lenN buf) with false by lia.
      replace (lenN p + m) with (lenN (p ++ buf) + (m - lenN buf)) in H, S by (rewrite lenN_app; lia).
      rewrite (IH (p ++ buf) d e (m - lenN buf) b' e' fs' H S).
      f_equal. f_equal. f_equal. f_equal. rewrite lenN_app. lia.
    + inversion H; subst. rewrite short_of_N, lenN_app in S.
      replace (m <=? lenN buf) with true by lia.
      f_equal. f_equal. f_equal. rewrite skipn_app.
      rewrite lenN_spec. replace (N.to_nat (N.of_nat (length p) + m) - length p)%nat with (N.to_nat m) by lia.
      replace (skipn (N.to_nat (N.of_nat (length p) + m)) p) with (@nil byte) by (symmetry; apply skipn_all2; lia). reflexivity.
Qed.

Definition mkr buf eom fin fs a : reader := {| r_buf := buf; r_eom := eom; r_fin := fin; r_in := fs; r_alloc := a |}.

Lemma ensure_1_nonempty b buf eom fin fs a :
  ensure (mkr (b :: buf) eom fin fs a) 1 = (mkr (b :: buf) eom fin fs a, MOk tt).
Proof.
  unfold ensure, mkr. cbn [r_in r_buf r_eom r_fin r_alloc].
  assert (S : short_of (b :: buf) 1 = false) by (change 1%Z with (Z.of_N 1); rewrite short_of_N, lenN_cons; lia).
  destruct fs as [|[d e] rest]; cbn [ensure_loop]; rewrite S; cbn [andb]; rewrite S; reflexivity.
Qed.

Lemma drop_ensure_some rest : forall d e m x, 0 < m -> drop rest d e m = Some x -> ensure_loop rest d e 1 <> None.
Proof.
  induction rest as [|[d2 e2] rest2 IH]; intros d e m x Hm H; cbn [drop ensure_loop] in *.
  - destruct (m <=? lenN d) eqn:C; [|destruct e; discriminate].
    assert (S : short_of d 1 = false) by (change 1%Z with (Z.of_N 1); rewrite short_of_N; lia).
    rewrite S. discriminate.
  - destruct (m <=? lenN d) eqn:C.
    + assert (S : short_of d 1 = false) by (change 1%Z with (Z.of_N 1); rewrite short_of_N; lia).
      rewrite S. discriminate.
    + destruct e; [discriminate|].
      destruct (short_of d 1) eqn:S; cbn [andb negb]; [|discriminate].
      assert (d = []).
      { change 1%Z with (Z.of_N 1) in S. rewrite short_of_N in S. destruct d; [reflexivity|rewrite lenN_cons in S; lia]. }
      subst d. cbn [app]. rewrite lenN_nil, N.sub_0_r in H. apply (IH d2 e2 m x Hm H).
Qed.

Lemma discard_pull fuel d e rest fin a (m : Z) : (0 < m)%Z -> ensure_loop rest d e 1 <> None ->
  discard_loop (S fuel) (mkr [] false fin ((d, e) :: rest) a) m = discard_loop (S fuel) (mkr d e fin rest a) m.
Proof.
  intros H Hs. cbn [discard_loop]. replace (m <=? 0)%Z with false by lia.
  unfold ensure, mkr. cbn [r_in r_buf r_eom r_fin r_alloc ensure_loop].
  change (short_of [] 1) with true. cbn [andb negb app].
  destruct (ensure_loop rest d e 1) as [[[b1 e1] f1]|]; [reflexivity|congruence].
Qed.

Lemma discard_drop fs : forall buf eom fin a m fuel b2 e2 fs2,
  (length fs + 2 <= fuel)%nat ->
  drop fs buf eom m = Some (b2, e2, fs2) ->
  discard_loop fuel (mkr buf eom fin fs a) (Z.of_N m) = (mkr b2 e2 fin fs2 a, MOk tt).
Proof.
  induction fs as [|[d e] rest IH]; intros buf eom fin a m fuel b2 e2 fs2 Hf H.
  - (* no more frames: the buffer must hold everything *)
    cbn [drop] in H. destruct (m <=? lenN buf) eqn:C; [|destruct eom; discriminate].
    inversion H; subst. destruct fuel as [|f]; [cbn in Hf; lia|].
    destruct (N.eq_dec m 0) as [->|Hm].
    { cbn [discard_loop]. reflexivity. }
    cbn [discard_loop]. replace (Z.of_N m <=? 0)%Z with false by lia.
    destruct buf as [|b buf']; [rewrite lenN_nil in C; lia|].
    rewrite ensure_1_nonempty. cbn [mkr r_buf].
    replace (N.min (lenN (b :: buf')) (Z.to_N (Z.of_N m))) with m by lia.
    replace (Z.of_N m - Z.of_N m)%Z with 0%Z by lia.
    destruct f; reflexivity.
  - cbn [drop] in H. destruct fuel as [|f]; [cbn in Hf; lia|].
    destruct (m <=? lenN buf) eqn:C.
    + inversion H; subst.
      destruct (N.eq_dec m 0) as [->|Hm]; [reflexivity|].
      cbn [discard_loop]. replace (Z.of_N m <=? 0)%Z with false by lia.
      destruct buf as [|b buf']; [rewrite lenN_nil in C; lia|].
      rewrite ensure_1_nonempty. cbn [mkr r_buf].
      replace (N.min (lenN (b :: buf')) (Z.to_N (Z.of_N m))) with m by lia.
      replace (Z.of_N m - Z.of_N m)%Z with 0%Z by lia.
      destruct f; reflexivity.
    + destruct eom; [discriminate|].
      destruct buf as [|b buf'].
      * rewrite lenN_nil, N.sub_0_r in H. rewrite lenN_nil in C.
        assert (Hm : 0 < m) by lia.
        rewrite discard_pull; [|lia|apply (drop_ensure_some _ _ _ _ _ Hm H)].
        apply IH; [cbn [length] in Hf; lia|exact H].
      * cbn [discard_loop]. replace (Z.of_N m <=? 0)%Z with false by lia.
        rewrite ensure_1_nonempty. cbn [mkr r_buf].
        replace (N.min (lenN (b :: buf')) (Z.to_N (Z.of_N m))) with (lenN (b :: buf')) by lia.
        rewrite lenN_spec, Nat2N.id, skipn_all. unfold set_buf. cbn [r_buf r_eom r_fin r_in r_alloc].
        fold (mkr [] false fin ((d, e) :: rest) a).
        replace (Z.of_N m - Z.of_N (N.of_nat (length (b :: buf'))))%Z with (Z.of_N (m - lenN (b :: buf')))
          by (rewrite lenN_spec in *; lia).
        destruct f as [|f']; [cbn [length] in Hf; lia|].
        assert (Hm : 0 < m - lenN (b :: buf')) by lia.
        change (discard_loop (S f') (mkr [] false fin ((d, e) :: rest) a) (Z.of_N (m - lenN (b :: buf')))
                = (mkr b2 e2 fin fs2 a, MOk tt)).
        rewrite discard_pull; [|rewrite lenN_spec in *; lia|apply (drop_ensure_some _ _ _ _ _ Hm H)].
        apply IH; [cbn [length] in Hf; lia|exact H].
Qed.

Lemma strip_string_len d : lenN (strip_string d) = 0 \/ lenN (strip_string d) + 1 = lenN d \/ lenN (strip_string d) = lenN d.
Proof.
  unfold strip_string. destruct d as [|b t]; [left; reflexivity|].
  destruct (byte_eqb b (n2b BinNullChar)); [left; reflexivity|].
  destruct (rev' (b :: t)) as [|l r] eqn:E; [right; right; reflexivity|].
  destruct (byte_eqb l x00); [|right; right; reflexivity].
  right; left. unfold rev' in *. rewrite <- rev_alt in *.
  rewrite !lenN_spec, rev_length.
  apply (f_equal (@length byte)) in E. rewrite rev_length in E. cbn [length] in *. lia.
Qed.

Lemma marker_len : lenN secret_marker = 3. Proof. reflexivity. Qed.

Lemma ensure_ok_inv ra len rb : ensure ra len = (rb, MOk tt) ->
  exists b' e' fs', ensure_loop (r_in ra) (r_buf ra) (r_eom ra) len = Some (b', e', fs') /\
     short_of b' len = false /\ rb = mkr b' e' (r_fin ra) fs' (r_alloc ra).
Proof.
  unfold ensure. destruct (ensure_loop _ _ _ _) as [[[b' e'] fs']|]; [|discriminate].
  destruct (short_of b' len) eqn:S; [discriminate|].
  intro H; inversion H; subst. exists b', e', fs'. auto.
Qed.

(* encrypted string mode, ANY reader: whenever GetString succeeds, both skips succeed, leave the same
   bytes unread (same buffer, same frames, same flags), and the marker-aware one reports correctly *)
Lemma lstr_same r r1 s : get_string true r = (r1, MOk s) ->
  (exists r1', skip_string_marker true r = (r1', MOk (bytes_eqb s secret_marker)) /\ same_rest r1 r1') /\
  (exists r1'', skip_string true r = (r1'', MOk tt) /\ same_rest r1 r1'').
Proof.
  unfold get_string, get_lstr, skip_string_marker, skip_string.
  destruct (get_int32 r) as [ra [len| |]]; try discriminate.
  destruct (len <? 0)%Z eqn:Neg; [discriminate|].
  destruct (ensure ra len) as [rb [[]| |]] eqn:E; try discriminate.
  destruct (ensure_ok_inv _ _ _ E) as (b' & e' & fs' & EL & Sh & ->).
  unfold take. intro H; inversion H; subst r1 s; clear H.
  cbn [r_buf mkr].
  assert (Hlen : len = Z.of_N (Z.to_N len)) by lia.
  set (m := Z.to_N len) in *.
  (* the discard path *)
  assert (D : discard ra len = (mkr (skipn (N.to_nat m) b') e' (r_fin ra) fs' (r_alloc ra), MOk tt)).
  { unfold discard. destruct ra as [buf eom fin fs a]. cbn [r_in r_buf r_eom r_fin r_alloc] in *.
    fold (mkr buf eom fin fs a). rewrite Hlen.
    apply discard_drop; [lia|].
    rewrite Hlen in EL, Sh.
    apply (ensure_loop_drop fs [] buf eom m b' e' fs' EL Sh). }
  assert (SR : forall x, same_rest (set_buf (add_alloc (mkr b' e' (r_fin ra) fs' (r_alloc ra)) m) x)
                                   (mkr x e' (r_fin ra) fs' (r_alloc ra))).
  { intro x. repeat split. }
  split.
  - destruct ((0 <? len) && (len <=? Z.of_N (lenN secret_marker) + 1))%Z eqn:Small.
    + eexists. split; [reflexivity|]. repeat split.
    + rewrite D. eexists. split; [|apply SR]. f_equal. f_equal.
      symmetry. destruct (bytes_eqb (strip_string (firstn (N.to_nat m) b')) secret_marker) eqn:Eq; [|reflexivity].
      exfalso. apply bytes_eqb_eq in Eq.
      pose proof (strip_string_len (firstn (N.to_nat m) b')) as L. rewrite Eq, marker_len in L.
      rewrite Hlen, short_of_N in Sh.
      assert (Lf : lenN (firstn (N.to_nat m) b') = m).
      { rewrite !lenN_spec, firstn_length. rewrite lenN_spec in Sh. lia. }
      rewrite Lf in L. rewrite marker_len in Small. lia.
  - rewrite D. eexists. split; [reflexivity|apply SR].
Qed.
