(* Proofs/C08Wire.v — the three receivers consume the same bytes (plaintext streams),
   and the per-string core of the statement. *)
From Coq Require Import List NArith ZArith Lia Bool.
From Coq Require Import ZifyBool ZifyNat ZifyN.
From Cedar Require Import Lib.Bytes gen.Consts Model.Msg Model.Privacy Model.AdWire.
Import ListNotations.
Local Open Scope N_scope.

Definition res_class {A B} (x : mres A) (y : mres B) : Prop :=
  match x, y with
  | MOk _, MOk _ => True
  | MErr a, MErr b => a = b
  | MPanic, MPanic => True
  | _, _ => False
  end.

Definition want_flag (want : option bytes) : bool := match want with Some [] => true | _ => false end.
Definition want_step (want : option bytes) (b : byte) : option bytes :=
  match want with
  | Some (c :: w') => if byte_eqb b c then Some w' else None
  | _ => None
  end.

(* the plaintext byte loops of GetString and SkipString walk the reader identically *)
Lemma cstr_same fuel : forall r acc want,
  fst (get_cstr_loop fuel r acc) = fst (skip_cstr_loop fuel r want) /\
  res_class (snd (get_cstr_loop fuel r acc)) (snd (skip_cstr_loop fuel r want)).
Proof.
  induction fuel as [|f IH]; intros r acc want; cbn [get_cstr_loop skip_cstr_loop].
  - split; reflexivity.
  - destruct (ensure r 1) as [r1 [u|e|]].
    + destruct (r_buf r1) as [|b rest]; [split; reflexivity|].
      destruct (byte_eqb b x00); [split; [reflexivity|exact I]|].
      apply IH.
    + destruct e; split; try reflexivity; exact I.
    + split; [reflexivity|exact I].
Qed.

(* what the skipping loop reports about the marker *)
Definition marker_inv (acc : bytes) (want : option bytes) : Prop :=
  match want with
  | Some w => rev acc ++ w = secret_marker
  | None => forall suffix, rev acc ++ suffix <> secret_marker
  end.

Lemma marker_inv_step acc want b : marker_inv acc want -> marker_inv (b :: acc) (want_step want b).
Proof.
  unfold marker_inv, want_step. cbn [rev]. destruct want as [[|c w']|]; intro H.
  - intros suffix E. rewrite <- app_assoc in E. rewrite app_nil_r in H. rewrite <- H in E.
    apply (f_equal (@length byte)) in E. rewrite app_length in E. cbn [length app] in E. lia.
  - destruct (byte_eqb b c) eqn:B.
    + apply byte_eqb_eq in B. subst c. rewrite <- app_assoc. exact H.
    + intros suffix E. rewrite <- app_assoc, <- H in E. apply app_inv_head in E. cbn [app] in E.
      inversion E; subst. assert (byte_eqb c c = true) by (apply byte_eqb_eq; reflexivity). congruence.
  - intros suffix E. rewrite <- app_assoc in E. exact (H _ E).
Qed.

Lemma marker_inv_flag acc want : marker_inv acc want ->
  want_flag want = bytes_eqb (rev' acc) secret_marker.
Proof.
  unfold marker_inv, want_flag, rev'. rewrite <- rev_alt. destruct want as [[|c w']|]; intro H.
  - rewrite app_nil_r in H. symmetry. apply bytes_eqb_eq. exact H.
  - symmetry. destruct (bytes_eqb (rev acc) secret_marker) eqn:E; [|reflexivity].
    apply bytes_eqb_eq in E. rewrite <- E in H. apply (f_equal (@length byte)) in H.
    rewrite app_length in H. cbn [length] in H. lia.
  - symmetry. destruct (bytes_eqb (rev acc) secret_marker) eqn:E; [|reflexivity].
    apply bytes_eqb_eq in E. exfalso. apply (H []). rewrite app_nil_r. exact E.
Qed.

Lemma cstr_flag fuel : forall r acc want s,
  marker_inv acc want ->
  snd (get_cstr_loop fuel r acc) = MOk s ->
  snd (skip_cstr_loop fuel r want) = MOk (bytes_eqb s secret_marker).
Proof.
  induction fuel as [|f IH]; intros r acc want s Hi; cbn [get_cstr_loop skip_cstr_loop]; [discriminate|].
  destruct (ensure r 1) as [r1 [u|e|]].
  - destruct (r_buf r1) as [|b rest]; [discriminate|].
    destruct (byte_eqb b x00).
    + cbn [snd]. intro H; inversion H; subst s. f_equal. apply (marker_inv_flag _ _ Hi).
    + apply IH. fold (want_step want b). apply marker_inv_step. exact Hi.
  - destruct e; cbn [snd]; try discriminate.
    intro H; inversion H; subst s. f_equal. apply (marker_inv_flag _ _ Hi).
  - discriminate.
Qed.

(* plaintext strings: the three ways of consuming one string *)
Lemma plain_string_same r :
  fst (get_string false r) = fst (skip_string_marker false r) /\
  fst (get_string false r) = fst (skip_string false r) /\
  res_class (snd (get_string false r)) (snd (skip_string_marker false r)) /\
  res_class (snd (get_string false r)) (snd (skip_string false r)) /\
  (forall s, snd (get_string false r) = MOk s ->
             snd (skip_string_marker false r) = MOk (bytes_eqb s secret_marker)).
Proof.
  unfold get_string, get_cstr, skip_string_marker, skip_string.
  set (fuel := S (S (N.to_nat (total_bytes r)))).
  destruct (cstr_same fuel r [] (Some secret_marker)) as [A1 A2].
  destruct (cstr_same fuel r [] None) as [B1 B2].
  repeat split; auto.
  - rewrite B1. destruct (skip_cstr_loop fuel r None) as [r1 [u|e|]]; reflexivity.
  - destruct (skip_cstr_loop fuel r None) as [r1 [u|e|]]; exact B2.
  - intros s H. apply (cstr_flag fuel r [] (Some secret_marker) s); [reflexivity|exact H].
Qed.

(* ------------------------------------------------------------------ *)
(* a plaintext stream: no key, flag off                                *)

Definition plain_t (t : treader) : Prop := t_key t = false /\ t_enc t = false.

Lemma t_step_flags {A} (f : reader -> reader * mres A) t :
  t_key (fst (t_step f t)) = t_key t /\ t_enc (fst (t_step f t)) = t_enc t /\ t_saved (fst (t_step f t)) = t_saved t.
Proof. unfold t_step. destruct (f (t_r t)) as [r1 x]. destruct (forallb _ _); cbn; auto. Qed.

Lemma plain_prepare t : plain_t t -> plain_t (t_prepare t) /\ t_saved (t_prepare t) = false.
Proof. intros [H1 H2]. unfold plain_t, t_prepare. cbn. rewrite H1, H2. auto. Qed.

(* one expression string: GetString vs the two skips *)
Lemma t_string_same t : plain_t t ->
  fst (t_get_string t) = fst (t_skip_string t) /\
  fst (t_get_string t) = fst (t_skip_plain t) /\
  (forall s, snd (t_get_string t) = MOk s -> snd (t_skip_string t) = MOk (bytes_eqb s secret_marker)) /\
  (forall s, snd (t_get_string t) = MOk s -> exists u, snd (t_skip_plain t) = MOk u).
Proof.
  intros [Hk He]. unfold t_get_string, t_skip_string, t_skip_plain, t_step. rewrite He.
  destruct (plain_string_same (t_r t)) as (A1 & A2 & A3 & A4 & A5).
  destruct (get_string false (t_r t)) as [r1 x] eqn:G.
  destruct (skip_string_marker false (t_r t)) as [r2 y] eqn:S1.
  destruct (skip_string false (t_r t)) as [r3 z] eqn:S2.
  cbn [fst snd] in *. subst r2 r3.
  destruct (forallb _ _); cbn [fst snd].
  - repeat split; auto.
    intros s H. rewrite H in A4. destruct z; try contradiction. eexists; reflexivity.
  - repeat split; auto; intros s H; discriminate.
Qed.

Lemma t_secret_same t : plain_t t ->
  fst (t_get_secret t) = fst (t_skip_secret t) /\
  (forall s, snd (t_get_secret t) = MOk s -> exists u, snd (t_skip_secret t) = MOk u) /\
  plain_t (fst (t_get_secret t)).
Proof.
  intro Hp. unfold t_get_secret, t_skip_secret.
  destruct (plain_prepare _ Hp) as [Hp' Hs].
  destruct (t_string_same _ Hp') as (_ & B & _ & D).
  pose proof (t_step_flags (get_string (t_enc (t_prepare t))) (t_prepare t)) as (F1 & F2 & F3).
  fold (t_get_string (t_prepare t)) in F1, F2, F3.
  destruct (t_get_string (t_prepare t)) as [t1 x], (t_skip_plain (t_prepare t)) as [t2 y].
  cbn [fst snd] in *. subst t2. split; [reflexivity|]. split.
  - intros s H. subst x. apply (D s eq_refl).
  - destruct Hp' as [P1 P2]. unfold plain_t, t_restore. cbn. rewrite F1, F3, Hs. auto.
Qed.

Lemma plain_after_string t : plain_t t -> plain_t (fst (t_get_string t)).
Proof.
  intros [H1 H2]. destruct (t_step_flags (get_string (t_enc t)) t) as (F1 & F2 & _).
  unfold plain_t, t_get_string. rewrite F1, F2. auto.
Qed.

Lemma exprs_same n : forall t acc l t1, plain_t t ->
  get_exprs (fun _ => true) true n t acc = (t1, MOk l) ->
  skip_exprs n t = (t1, MOk tt) /\ plain_t t1.
Proof.
  induction n as [|n IH]; intros t acc l t1 Hp H; cbn [get_exprs skip_exprs] in *.
  - inversion H; subst. auto.
  - destruct (t_finished t); cbn [andb] in H; [discriminate|].
    destruct (t_string_same _ Hp) as (A & _ & C & _).
    pose proof (plain_after_string _ Hp) as Hp1.
    destruct (t_get_string t) as [ta x] eqn:G. destruct (t_skip_string t) as [tb y] eqn:S.
    cbn [fst snd] in *. subst tb.
    destruct x as [s| |]; try discriminate.
    pose proof (C s eq_refl) as Hy. subst y.
    destruct (bytes_eqb s secret_marker).
    + destruct (t_secret_same _ Hp1) as (A2 & C2 & P2).
      destruct (t_get_secret ta) as [tc x2] eqn:G2. destruct (t_skip_secret ta) as [td y2] eqn:S2.
      cbn [fst snd] in *. subst td.
      destruct x2 as [s2| |]; try discriminate.
      destruct (C2 s2 eq_refl) as [u Hu]. subst y2.
      apply (IH tc (s2 :: acc) l t1 P2 H).
    + apply (IH ta (s :: acc) l t1 Hp1 H).
Qed.

(* plaintext stream, ANY bytes and framing: whenever GetClassAdRaw succeeds, SkipClassAdRaw
   succeeds and leaves the reader in exactly the same state (same bytes consumed) *)
Lemma plain_same_bytes t x t1 : plain_t t ->
  get_ad_raw t = (t1, MOk x) -> skip_ad t = (t1, MOk tt).
Proof.
  intros Hp H. unfold get_ad_raw, get_ad_gen in H. unfold skip_ad.
  assert (Hp0 : plain_t (fst (t_get_int t))).
  { destruct Hp as [H1 H2]. destruct (t_step_flags get_int t) as (F1 & F2 & _).
    unfold plain_t, t_get_int. rewrite F1, F2. auto. }
  destruct (t_get_int t) as [ta [n| |]]; try discriminate. cbn [fst] in Hp0.
  destruct (get_exprs (fun _ => true) true (Z.to_nat n) ta []) as [tb [es| |]] eqn:E; try discriminate.
  destruct (exprs_same _ _ _ _ _ Hp0 E) as [S Hpb]. rewrite S.
  unfold get_types in H. cbn [andb] in H.
  destruct (t_string_same _ Hpb) as (_ & B & _ & D).
  pose proof (plain_after_string _ Hpb) as Hpc.
  destruct (t_get_string tb) as [tc [my| |]] eqn:G1; try discriminate.
  destruct (t_skip_plain tb) as [tc' y1] eqn:S1. cbn [fst snd] in *. subst tc'.
  destruct (D my eq_refl) as [u1 Hu1]. subst y1.
  destruct (negb (lenN my =? 0) && negb (is_type_name my)); [discriminate|].
  destruct (t_string_same _ Hpc) as (_ & B2 & _ & D2).
  destruct (t_get_string tc) as [td [tg| |]] eqn:G2; try discriminate.
  destruct (t_skip_plain tc) as [td' y2] eqn:S2. cbn [fst snd] in *. subst td'.
  destruct (D2 tg eq_refl) as [u2 Hu2]. subst y2.
  destruct (negb (lenN tg =? 0) && negb (is_type_name tg)); [discriminate|].
  inversion H; subst. reflexivity.
Qed.

(* any stream state: the parsing receiver and the raw-text receiver walk the wire
   identically; if both succeed they end in the same state with the same strings *)
Lemma exprs_agree n : forall ok1 cf1 ok2 cf2 t acc t1 l1 t2 l2,
  get_exprs ok1 cf1 n t acc = (t1, MOk l1) -> get_exprs ok2 cf2 n t acc = (t2, MOk l2) ->
  t1 = t2 /\ l1 = l2.
Proof.
  induction n as [|n IH]; intros ok1 cf1 ok2 cf2 t acc t1 l1 t2 l2 H1 H2; cbn [get_exprs] in *.
  - inversion H1; inversion H2; subst. auto.
  - destruct (cf1 && t_finished t); [discriminate|]. destruct (cf2 && t_finished t); [discriminate|].
    destruct (t_get_string t) as [ta [s| |]]; try discriminate.
    destruct (bytes_eqb s secret_marker).
    + destruct (t_get_secret ta) as [tb [s2| |]]; try discriminate.
      destruct (ok1 s2); [|discriminate]. destruct (ok2 s2); [|discriminate].
      exact (IH _ _ _ _ _ _ _ _ _ _ H1 H2).
    + destruct (ok1 s); [|discriminate]. destruct (ok2 s); [|discriminate].
      exact (IH _ _ _ _ _ _ _ _ _ _ H1 H2).
Qed.

Lemma get_raw_agree parses t t1 x1 t2 x2 :
  get_ad parses t = (t1, MOk x1) -> get_ad_raw t = (t2, MOk x2) -> t1 = t2 /\ x1 = x2.
Proof.
  unfold get_ad, get_ad_raw, get_ad_gen. intros H1 H2.
  destruct (t_get_int t) as [ta [n| |]]; try discriminate.
  destruct (get_exprs parses false (Z.to_nat n) ta []) as [tb [es| |]] eqn:E1; try discriminate.
  destruct (get_exprs (fun _ => true) true (Z.to_nat n) ta []) as [tb' [es'| |]] eqn:E2; try discriminate.
  destruct (exprs_agree _ _ _ _ _ _ _ _ _ _ _ E1 E2) as [-> ->].
  unfold get_types in *. cbn [andb] in H1.
  destruct (t_get_string tb') as [tc [my| |]]; try discriminate.
  destruct (true && negb (lenN my =? 0) && negb (is_type_name my)); [discriminate|].
  destruct (t_get_string tc) as [td [tg| |]]; try discriminate.
  destruct (true && negb (lenN tg =? 0) && negb (is_type_name tg)); [discriminate|].
  inversion H1; inversion H2; subst. auto.
Qed.

(* ------------------------------------------------------------------ *)
(* encrypted string mode: ensureData(n) + read n  vs  discard(n)       *)

Definition same_rest (r r' : reader) : Prop :=
  r_buf r = r_buf r' /\ r_in r = r_in r' /\ r_eom r = r_eom r' /\ r_fin r = r_fin r'.

(* dropping m bytes, pulling as few frames as possible *)
Fixpoint drop (fs : list mframe) (buf : bytes) (eom : bool) (m : N) : option (bytes * bool * list mframe) :=
  if m <=? lenN buf then Some (skipn (N.to_nat m) buf, eom, fs)
  else if eom then None
  else match fs with
       | [] => None
       | (d, e) :: rest => drop rest d e (m - lenN buf)
       end.

Lemma short_of_N buf (n : N) : short_of buf (Z.of_N n) = (lenN buf <? n).
Proof.
  unfold short_of. destruct (Z.of_N n <=? 0)%Z eqn:E.
  - assert (n = 0) by lia. subst. symmetry. apply N.ltb_ge. lia.
  - rewrite N2Z.id. clear E. revert n. induction buf as [|b r IH]; intro n; cbn [len_lt].
    + rewrite lenN_nil. reflexivity.
    + rewrite lenN_cons. destruct (n =? 0) eqn:Z0; [lia|]. rewrite IH. lia.
Qed.

Lemma ensure_loop_drop fs : forall p buf eom m b' e' fs',
  ensure_loop fs (p ++ buf) eom (Z.of_N (lenN p + m)) = Some (b', e', fs') ->
  short_of b' (Z.of_N (lenN p + m)) = false ->
  drop fs buf eom m = Some (skipn (N.to_nat (lenN p + m)) b', e', fs').
Proof.
  induction fs as [|[d e] rest IH]; intros p buf eom m b' e' fs' H S; cbn [ensure_loop drop] in *.
  - rewrite short_of_N, lenN_app in H.
    destruct ((lenN p + lenN buf <? lenN p + m) && negb eom) eqn:C; [discriminate|].
    inversion H; subst. rewrite short_of_N, lenN_app in S.
    replace (m <=? lenN buf) with true by lia.
    f_equal. f_equal. f_equal. rewrite skipn_app.
    rewrite lenN_spec. replace (N.to_nat (N.of_nat (length p) + m) - length p)%nat with (N.to_nat m) by lia.
    replace (skipn (N.to_nat (N.of_nat (length p) + m)) p) with (@nil byte) by (symmetry; apply skipn_all2; lia). reflexivity.
  - rewrite short_of_N, lenN_app in H.
    destruct ((lenN p + lenN buf <? lenN p + m) && negb eom) eqn:C.
    + apply andb_true_iff in C as [C1 C2]. apply negb_true_iff in C2. subst eom.
      replace (m <=? lenN buf) with false by lia.
      replace (lenN p + m) with (lenN (p ++ buf) + (m - lenN buf)) in H, S by (rewrite lenN_app; lia).
      rewrite (IH (p ++ buf) d e (m - lenN buf) b' e' fs' H S).
      f_equal. f_equal. f_equal. f_equal. rewrite lenN_app. lia.
    + inversion H; subst. rewrite short_of_N, lenN_app in S.
      replace (m <=? lenN buf) with true by lia.
      f_equal. f_equal. f_equal. rewrite skipn_app.
      rewrite lenN_spec. replace (N.to_nat (N.of_nat (length p) + m) - length p)%nat with (N.to_nat m) by lia.
      replace (skipn (N.to_nat (N.of_nat (length p) + m)) p) with (@nil byte) by (symmetry; apply skipn_all2; lia). reflexivity.
Qed.

Definition mkr buf eom fin fs a : reader := {| r_buf := buf; r_eom := eom; r_fin := fin; r_in := fs; r_alloc := a |}.

Lemma ensure_1_nonempty b buf eom fin fs a :
  ensure (mkr (b :: buf) eom fin fs a) 1 = (mkr (b :: buf) eom fin fs a, MOk tt).
Proof.
  unfold ensure, mkr. cbn [r_in r_buf r_eom r_fin r_alloc].
  assert (S : short_of (b :: buf) 1 = false) by (change 1%Z with (Z.of_N 1); rewrite short_of_N, lenN_cons; lia).
  destruct fs as [|[d e] rest]; cbn [ensure_loop]; rewrite S; cbn [andb]; rewrite S; reflexivity.
Qed.

Lemma drop_ensure_some rest : forall d e m x, 0 < m -> drop rest d e m = Some x -> ensure_loop rest d e 1 <> None.
Proof.
  induction rest as [|[d2 e2] rest2 IH]; intros d e m x Hm H; cbn [drop ensure_loop] in *.
  - destruct (m <=? lenN d) eqn:C; [|destruct e; discriminate].
    assert (S : short_of d 1 = false) by (change 1%Z with (Z.of_N 1); rewrite short_of_N; lia).
    rewrite S. discriminate.
  - destruct (m <=? lenN d) eqn:C.
    + assert (S : short_of d 1 = false) by (change 1%Z with (Z.of_N 1); rewrite short_of_N; lia).
      rewrite S. discriminate.
    + destruct e; [discriminate|].
      destruct (short_of d 1) eqn:S; cbn [andb negb]; [|discriminate].
      assert (d = []).
      { change 1%Z with (Z.of_N 1) in S. rewrite short_of_N in S. destruct d; [reflexivity|rewrite lenN_cons in S; lia]. }
      subst d. cbn [app]. rewrite lenN_nil, N.sub_0_r in H. apply (IH d2 e2 m x Hm H).
Qed.

Lemma discard_pull fuel d e rest fin a (m : Z) : (0 < m)%Z -> ensure_loop rest d e 1 <> None ->
  discard_loop (S fuel) (mkr [] false fin ((d, e) :: rest) a) m = discard_loop (S fuel) (mkr d e fin rest a) m.
Proof.
  intros H Hs. cbn [discard_loop]. replace (m <=? 0)%Z with false by lia.
  unfold ensure, mkr. cbn [r_in r_buf r_eom r_fin r_alloc ensure_loop].
  change (short_of [] 1) with true. cbn [andb negb app].
  destruct (ensure_loop rest d e 1) as [[[b1 e1] f1]|]; [reflexivity|congruence].
Qed.

Lemma discard_drop fs : forall buf eom fin a m fuel b2 e2 fs2,
  (length fs + 2 <= fuel)%nat ->
  drop fs buf eom m = Some (b2, e2, fs2) ->
  discard_loop fuel (mkr buf eom fin fs a) (Z.of_N m) = (mkr b2 e2 fin fs2 a, MOk tt).
Proof.
  induction fs as [|[d e] rest IH]; intros buf eom fin a m fuel b2 e2 fs2 Hf H.
  - (* no more frames: the buffer must hold everything *)
    cbn [drop] in H. destruct (m <=? lenN buf) eqn:C; [|destruct eom; discriminate].
    inversion H; subst. destruct fuel as [|f]; [cbn in Hf; lia|].
    destruct (N.eq_dec m 0) as [->|Hm].
    { cbn [discard_loop]. reflexivity. }
    cbn [discard_loop]. replace (Z.of_N m <=? 0)%Z with false by lia.
    destruct buf as [|b buf']; [rewrite lenN_nil in C; lia|].
    rewrite ensure_1_nonempty. cbn [mkr r_buf].
    replace (N.min (lenN (b :: buf')) (Z.to_N (Z.of_N m))) with m by lia.
    replace (Z.of_N m - Z.of_N m)%Z with 0%Z by lia.
    destruct f; reflexivity.
  - cbn [drop] in H. destruct fuel as [|f]; [cbn in Hf; lia|].
    destruct (m <=? lenN buf) eqn:C.
    + inversion H; subst.
      destruct (N.eq_dec m 0) as [->|Hm]; [reflexivity|].
      cbn [discard_loop]. replace (Z.of_N m <=? 0)%Z with false by lia.
      destruct buf as [|b buf']; [rewrite lenN_nil in C; lia|].
      rewrite ensure_1_nonempty. cbn [mkr r_buf].
      replace (N.min (lenN (b :: buf')) (Z.to_N (Z.of_N m))) with m by lia.
      replace (Z.of_N m - Z.of_N m)%Z with 0%Z by lia.
      destruct f; reflexivity.
    + destruct eom; [discriminate|].
      destruct buf as [|b buf'].
      * rewrite lenN_nil, N.sub_0_r in H. rewrite lenN_nil in C.
        assert (Hm : 0 < m) by lia.
        rewrite discard_pull; [|lia|apply (drop_ensure_some _ _ _ _ _ Hm H)].
        apply IH; [cbn [length] in Hf; lia|exact H].
      * cbn [discard_loop]. replace (Z.of_N m <=? 0)%Z with false by lia.
        rewrite ensure_1_nonempty. cbn [mkr r_buf].
        replace (N.min (lenN (b :: buf')) (Z.to_N (Z.of_N m))) with (lenN (b :: buf')) by lia.
        rewrite lenN_spec, Nat2N.id, skipn_all. unfold set_buf. cbn [r_buf r_eom r_fin r_in r_alloc].
        fold (mkr [] false fin ((d, e) :: rest) a).
        replace (Z.of_N m - Z.of_N (N.of_nat (length (b :: buf'))))%Z with (Z.of_N (m - lenN (b :: buf')))
          by (rewrite lenN_spec in *; lia).
        destruct f as [|f']; [cbn [length] in Hf; lia|].
        assert (Hm : 0 < m - lenN (b :: buf')) by lia.
        change (discard_loop (S f') (mkr [] false fin ((d, e) :: rest) a) (Z.of_N (m - lenN (b :: buf')))
                = (mkr b2 e2 fin fs2 a, MOk tt)).
        rewrite discard_pull; [|rewrite lenN_spec in *; lia|apply (drop_ensure_some _ _ _ _ _ Hm H)].
        apply IH; [cbn [length] in Hf; lia|exact H].
Qed.

Lemma strip_string_len d : lenN (strip_string d) = 0 \/ lenN (strip_string d) + 1 = lenN d \/ lenN (strip_string d) = lenN d.
Proof.
  unfold strip_string. destruct d as [|b t]; [left; reflexivity|].
  destruct (byte_eqb b (n2b BinNullChar)); [left; reflexivity|].
  destruct (rev' (b :: t)) as [|l r] eqn:E; [right; right; reflexivity|].
  destruct (byte_eqb l x00); [|right; right; reflexivity].
  right; left. unfold rev' in *. rewrite <- rev_alt in *.
  rewrite !lenN_spec, rev_length.
  apply (f_equal (@length byte)) in E. rewrite rev_length in E. cbn [length] in *. lia.
Qed.

Lemma marker_len : lenN secret_marker = 3. Proof. reflexivity. Qed.

Lemma ensure_ok_inv ra len rb : ensure ra len = (rb, MOk tt) ->
  exists b' e' fs', ensure_loop (r_in ra) (r_buf ra) (r_eom ra) len = Some (b', e', fs') /\
     short_of b' len = false /\ rb = mkr b' e' (r_fin ra) fs' (r_alloc ra).
Proof.
  unfold ensure. destruct (ensure_loop _ _ _ _) as [[[b' e'] fs']|]; [|discriminate].
  destruct (short_of b' len) eqn:S; [discriminate|].
  intro H; inversion H; subst. exists b', e', fs'. auto.
Qed.

(* encrypted string mode, ANY reader: whenever GetString succeeds, both skips succeed, leave the same
   bytes unread (same buffer, same frames, same flags), and the marker-aware one reports correctly *)
Lemma lstr_same r r1 s : get_string true r = (r1, MOk s) ->
  (exists r1', skip_string_marker true r = (r1', MOk (bytes_eqb s secret_marker)) /\ same_rest r1 r1') /\
  (exists r1'', skip_string true r = (r1'', MOk tt) /\ same_rest r1 r1'').
Proof.
  unfold get_string, get_lstr, skip_string_marker, skip_string.
  destruct (get_int32 r) as [ra [len| |]]; try discriminate.
  destruct (len <? 0)%Z eqn:Neg; [discriminate|].
  destruct (ensure ra len) as [rb [[]| |]] eqn:E; try discriminate.
  destruct (ensure_ok_inv _ _ _ E) as (b' & e' & fs' & EL & Sh & ->).
  unfold take. intro H; inversion H; subst r1 s; clear H.
  cbn [r_buf mkr].
  assert (Hlen : len = Z.of_N (Z.to_N len)) by lia.
  set (m := Z.to_N len) in *.
  (* the discard path *)
  assert (D : discard ra len = (mkr (skipn (N.to_nat m) b') e' (r_fin ra) fs' (r_alloc ra), MOk tt)).
  { unfold discard. destruct ra as [buf eom fin fs a]. cbn [r_in r_buf r_eom r_fin r_alloc] in *.
    fold (mkr buf eom fin fs a). rewrite Hlen.
    apply discard_drop; [lia|].
    rewrite Hlen in EL, Sh.
    apply (ensure_loop_drop fs [] buf eom m b' e' fs' EL Sh). }
  assert (SR : forall x, same_rest (set_buf (add_alloc (mkr b' e' (r_fin ra) fs' (r_alloc ra)) m) x)
                                   (mkr x e' (r_fin ra) fs' (r_alloc ra))).
  { intro x. repeat split. }
  split.
  - destruct ((0 <? len) && (len <=? Z.of_N (lenN secret_marker) + 1))%Z eqn:Small.
    + eexists. split; [reflexivity|]. repeat split.
    + rewrite D. eexists. split; [|apply SR]. f_equal. f_equal.
      symmetry. destruct (bytes_eqb (strip_string (firstn (N.to_nat m) b')) secret_marker) eqn:Eq; [|reflexivity].
      exfalso. apply bytes_eqb_eq in Eq.
      pose proof (strip_string_len (firstn (N.to_nat m) b')) as L. rewrite Eq, marker_len in L.
      rewrite Hlen, short_of_N in Sh.
      assert (Lf : lenN (firstn (N.to_nat m) b') = m).
      { rewrite !lenN_spec, firstn_length. rewrite lenN_spec in Sh. lia. }
      rewrite Lf in L. rewrite marker_len in Small. lia.
  - rewrite D. eexists. split; [reflexivity|apply SR].
Qed.

(* ------------------------------------------------------------------ *)
(* reader operations do not look at the allocation counter             *)

Lemma same_rest_refl r : same_rest r r. Proof. repeat split. Qed.
Lemma same_rest_trans a b c : same_rest a b -> same_rest b c -> same_rest a c.
Proof. intros (A1 & A2 & A3 & A4) (B1 & B2 & B3 & B4). repeat split; congruence. Qed.
Lemma same_rest_sym a b : same_rest a b -> same_rest b a.
Proof. intros (A1 & A2 & A3 & A4). repeat split; congruence. Qed.

Definition cong {A} (x y : reader * mres A) : Prop := same_rest (fst x) (fst y) /\ snd x = snd y.

Lemma ensure_cong r r' n : same_rest r r' -> cong (ensure r n) (ensure r' n).
Proof.
  intros (A1 & A2 & A3 & A4). unfold ensure. rewrite A1, A2, A3, A4.
  destruct (ensure_loop _ _ _ _) as [[[b e] fs]|]; [|split; [repeat split; auto|reflexivity]].
  destruct (short_of b n); split; try reflexivity; repeat split.
Qed.

Lemma take_cong r r' n : same_rest r r' -> same_rest (fst (take r n)) (fst (take r' n)) /\ snd (take r n) = snd (take r' n).
Proof. intros (A1 & A2 & A3 & A4). unfold take. cbn. rewrite A1. repeat split; auto. Qed.

Lemma get_raw_cong r r' n : same_rest r r' -> cong (get_raw r n) (get_raw r' n).
Proof.
  intro H. unfold get_raw. destruct (ensure_cong r r' (Z.of_N n) H) as [E1 E2].
  destruct (ensure r (Z.of_N n)) as [a [u|e|]], (ensure r' (Z.of_N n)) as [a' [u'|e'|]]; cbn [fst snd] in *; try discriminate.
  - destruct (take_cong a a' n E1) as [T1 T2]. destruct (take a n), (take a' n). cbn [fst snd] in *. subst. split; auto.
  - inversion E2; subst. split; auto.
  - split; auto.
Qed.

Lemma map_res_cong {A B} (f : A -> B) x y : cong x y -> cong (map_res f x) (map_res f y).
Proof. destruct x as [r [a|e|]], y as [r' [a'|e'|]]; unfold cong; cbn; intros [H1 H2]; try discriminate; split; auto; congruence. Qed.

Lemma get_int_cong r r' : same_rest r r' -> cong (get_int r) (get_int r').
Proof.
  intro H. unfold get_int. pose proof (get_raw_cong r r' 8 H) as [E1 E2].
  destruct (get_raw r 8) as [a [u|e|]], (get_raw r' 8) as [a' [u'|e'|]]; cbn [fst snd] in *; try discriminate;
    split; cbn; auto; congruence.
Qed.

Lemma get_lstr_cong r r' : same_rest r r' -> cong (get_lstr r) (get_lstr r').
Proof.
  intro H. unfold get_lstr, get_int32.
  pose proof (map_res_cong wrap32 _ _ (get_int_cong r r' H)) as [E1 E2].
  destruct (map_res wrap32 (get_int r)) as [a [len|e|]], (map_res wrap32 (get_int r')) as [a' [len'|e'|]];
    cbn [fst snd] in *; try discriminate; [|inversion E2; subst; split; auto|split; auto].
  inversion E2; subst len'. destruct (len <? 0)%Z; [split; auto|].
  destruct (ensure_cong a a' len E1) as [F1 F2].
  destruct (ensure a len) as [b [u|e|]], (ensure a' len) as [b' [u'|e'|]]; cbn [fst snd] in *; try discriminate.
  - destruct (take_cong b b' (Z.to_N len) F1) as [T1 T2]. destruct (take b _), (take b' _). cbn [fst snd] in *. subst. split; auto.
  - inversion F2; subst. split; auto.
  - split; auto.
Qed.

Lemma get_cstr_loop_cong fuel : forall r r' acc, same_rest r r' -> cong (get_cstr_loop fuel r acc) (get_cstr_loop fuel r' acc).
Proof.
  induction fuel as [|f IH]; intros r r' acc H; cbn [get_cstr_loop]; [split; auto|].
  destruct (ensure_cong r r' 1 H) as [E1 E2].
  destruct (ensure r 1) as [a [u|e|]], (ensure r' 1) as [a' [u'|e'|]]; cbn [fst snd] in *; try discriminate.
  - pose proof E1 as (B1 & B2 & B3 & B4). rewrite <- B1.
    destruct (r_buf a) as [|b rest]; [split; auto|].
    assert (S : same_rest (set_buf a rest) (set_buf a' rest)) by (repeat split; auto).
    destruct (byte_eqb b x00); [split; auto|]. apply IH. exact S.
  - inversion E2; subst e'. destruct e; split; auto.
  - split; auto.
Qed.

Lemma total_bytes_cong r r' : same_rest r r' -> total_bytes r = total_bytes r'.
Proof. intros (A1 & A2 & _). unfold total_bytes. rewrite A1, A2. reflexivity. Qed.

Lemma get_string_cong enc r r' : same_rest r r' -> cong (get_string enc r) (get_string enc r').
Proof.
  intro H. unfold get_string. destruct enc; [apply get_lstr_cong; exact H|].
  unfold get_cstr. rewrite (total_bytes_cong _ _ H). apply get_cstr_loop_cong. exact H.
Qed.

(* one string, either mode, readers that agree on what is unread *)
Lemma string_same enc r r' r1 s : same_rest r r' -> get_string enc r = (r1, MOk s) ->
  (exists r1', skip_string_marker enc r' = (r1', MOk (bytes_eqb s secret_marker)) /\ same_rest r1 r1') /\
  (exists r1'', skip_string enc r' = (r1'', MOk tt) /\ same_rest r1 r1'').
Proof.
  intros H G. destruct (get_string_cong enc r r' H) as [C1 C2]. rewrite G in C1, C2. cbn [fst snd] in *.
  destruct (get_string enc r') as [rx x] eqn:G'. cbn [fst snd] in *. subst x.
  destruct enc.
  - destruct (lstr_same r' rx s G') as ((a & A1 & A2) & (b & B1 & B2)).
    split; [exists a|exists b]; (split; [assumption|eapply same_rest_trans; eassumption]).
  - destruct (plain_string_same r') as (P1 & P2 & P3 & P4 & P5). rewrite G' in *. cbn [fst snd] in *.
    destruct (skip_string_marker false r') as [a x] eqn:S1. destruct (skip_string false r') as [b y] eqn:S2.
    cbn [fst snd] in *. subst a b. pose proof (P5 s eq_refl) as Px. subst x.
    destruct y as [[]| |]; try contradiction.
    split; eexists; (split; [reflexivity|exact C1]).
Qed.

(* ------------------------------------------------------------------ *)
(* every stream state: GetClassAdRaw vs SkipClassAdRaw                 *)

Definition tsame (t t' : treader) : Prop :=
  same_rest (t_r t) (t_r t') /\ t_tags t = t_tags t' /\ t_key t = t_key t' /\ t_enc t = t_enc t' /\ t_saved t = t_saved t'.

Lemma tsame_refl t : tsame t t. Proof. repeat split. Qed.

Lemma t_step_rel {A B} (f : reader -> reader * mres A) (g : reader -> reader * mres B) t t' :
  tsame t t' -> same_rest (fst (f (t_r t))) (fst (g (t_r t'))) ->
  tsame (fst (t_step f t)) (fst (t_step g t')) /\
  ((snd (t_step f t) = snd (f (t_r t)) /\ snd (t_step g t') = snd (g (t_r t'))) \/
   (snd (t_step f t) = MErr MConn /\ snd (t_step g t') = MErr MConn)).
Proof.
  intros (S0 & T & K & E & V) S1. unfold t_step, t_sealed.
  destruct (f (t_r t)) as [r1 x], (g (t_r t')) as [r1' y]. cbn [fst snd] in *.
  destruct S0 as (_ & I0 & _ & _). pose proof S1 as (_ & I1 & _ & _).
  rewrite <- I0, <- I1, <- T, <- K, <- E.
  destruct (forallb _ _); cbn [fst snd]; (split; [repeat split; cbn; auto; try apply S1|]); auto.
Qed.

Lemma t_string_rel t t' t1 s : tsame t t' -> t_get_string t = (t1, MOk s) ->
  (exists t1', t_skip_string t' = (t1', MOk (bytes_eqb s secret_marker)) /\ tsame t1 t1') /\
  (exists t1'', t_skip_plain t' = (t1'', MOk tt) /\ tsame t1 t1'').
Proof.
  intros H G. pose proof H as (S0 & _ & _ & E & _).
  unfold t_get_string, t_skip_string, t_skip_plain in *. rewrite <- E.
  destruct (get_string (t_enc t) (t_r t)) as [r1 x] eqn:GS.
  assert (X : x = MOk s /\ t1 = fst (t_step (get_string (t_enc t)) t)).
  { rewrite G. split; [|reflexivity]. unfold t_step in G. rewrite GS in G. destruct (forallb _ _); inversion G; subst; auto. }
  destruct X as [-> ->].
  destruct (string_same (t_enc t) (t_r t) (t_r t') r1 s S0 GS) as ((a & A1 & A2) & (b & B1 & B2)).
  split.
  - destruct (t_step_rel (get_string (t_enc t)) (skip_string_marker (t_enc t)) t t' H) as [R1 R2].
    { rewrite GS, A1. exact A2. }
    rewrite G in R1, R2. cbn [fst snd] in *. rewrite GS, A1 in R2. cbn [snd] in R2.
    destruct (t_step (skip_string_marker (t_enc t)) t') as [tt1 y]. cbn [fst snd] in *.
    exists tt1. split; [|exact R1]. destruct R2 as [[_ ->]|[C _]]; [reflexivity|discriminate].
  - destruct (t_step_rel (get_string (t_enc t)) (skip_string (t_enc t)) t t' H) as [R1 R2].
    { rewrite GS, B1. exact B2. }
    rewrite G in R1, R2. cbn [fst snd] in *. rewrite GS, B1 in R2. cbn [snd] in R2.
    destruct (t_step (skip_string (t_enc t)) t') as [tt1 y]. cbn [fst snd] in *.
    exists tt1. split; [|exact R1]. destruct R2 as [[_ ->]|[C _]]; [reflexivity|discriminate].
Qed.

Lemma t_int_rel t t' t1 n : tsame t t' -> t_get_int t = (t1, MOk n) ->
  exists t1', t_get_int t' = (t1', MOk n) /\ tsame t1 t1'.
Proof.
  intros H G. pose proof H as (S0 & _). unfold t_get_int in *.
  destruct (get_int_cong _ _ S0) as [C1 C2].
  destruct (t_step_rel get_int get_int t t' H C1) as [R1 R2].
  rewrite G in R1, R2. cbn [fst snd] in *.
  destruct (t_step get_int t') as [tt1 y]. cbn [fst snd] in *. exists tt1. split; [|exact R1].
  destruct R2 as [[Ra Rb]|[C _]]; [|discriminate]. rewrite Rb, <- C2, <- Ra. reflexivity.
Qed.

Lemma tsame_prepare t t' : tsame t t' -> tsame (t_prepare t) (t_prepare t').
Proof. intros (S0 & T & K & E & V). unfold t_prepare. repeat split; cbn; try apply S0; try assumption; rewrite K, E; reflexivity. Qed.
Lemma tsame_restore t t' : tsame t t' -> tsame (t_restore t) (t_restore t').
Proof. intros (S0 & T & K & E & V). unfold t_restore. repeat split; cbn; try apply S0; assumption. Qed.

Lemma t_secret_rel t t' t1 s : tsame t t' -> t_get_secret t = (t1, MOk s) ->
  exists t1', t_skip_secret t' = (t1', MOk tt) /\ tsame t1 t1'.
Proof.
  intros H G. unfold t_get_secret, t_skip_secret in *.
  destruct (t_get_string (t_prepare t)) as [ta x] eqn:GS. inversion G; subst t1 x. clear G.
  destruct (t_string_rel _ _ _ _ (tsame_prepare _ _ H) GS) as (_ & (b & B1 & B2)).
  rewrite B1. eexists. split; [reflexivity|]. apply tsame_restore. exact B2.
Qed.

Lemma t_finished_cong t t' : tsame t t' -> t_finished t = t_finished t'.
Proof. intros ((A1 & _ & _ & A4) & _). unfold t_finished. rewrite A1, A4. reflexivity. Qed.

Lemma exprs_rel n : forall t t' acc l t1, tsame t t' ->
  get_exprs (fun _ => true) true n t acc = (t1, MOk l) ->
  exists t1', skip_exprs n t' = (t1', MOk tt) /\ tsame t1 t1'.
Proof.
  induction n as [|n IH]; intros t t' acc l t1 H G; cbn [get_exprs skip_exprs] in *.
  - inversion G; subst. exists t'. auto.
  - rewrite <- (t_finished_cong _ _ H). destruct (t_finished t); cbn [andb] in G; [discriminate|].
    destruct (t_get_string t) as [ta [s| |]] eqn:GS; try discriminate.
    destruct (t_string_rel _ _ _ _ H GS) as ((a & A1 & A2) & _). rewrite A1.
    destruct (bytes_eqb s secret_marker).
    + destruct (t_get_secret ta) as [tb [s2| |]] eqn:GX; try discriminate.
      destruct (t_secret_rel _ _ _ _ A2 GX) as (b & B1 & B2). rewrite B1.
      apply (IH tb b (s2 :: acc) l t1 B2 G).
    + apply (IH ta a (s :: acc) l t1 A2 G).
Qed.

(* EVERY stream state, ANY bytes, ANY framing: whenever GetClassAdRaw succeeds, SkipClassAdRaw
   succeeds and leaves the same bytes unread, the same frames (and their modes) still to come and
   the same stream flags *)
Lemma all_same_bytes t x t1 :
  get_ad_raw t = (t1, MOk x) -> exists t1', skip_ad t = (t1', MOk tt) /\ tsame t1 t1'.
Proof.
  intro G. unfold get_ad_raw, get_ad_gen in G. unfold skip_ad.
  destruct (t_get_int t) as [ta [n| |]] eqn:GI; try discriminate.
  destruct (get_exprs (fun _ => true) true (Z.to_nat n) ta []) as [tb [es| |]] eqn:GE; try discriminate.
  destruct (exprs_rel _ _ _ _ _ _ (tsame_refl ta) GE) as (b & B1 & B2). rewrite B1.
  unfold get_types in G. cbn [andb] in G.
  destruct (t_get_string tb) as [tc [my| |]] eqn:G1; try discriminate.
  destruct (t_string_rel _ _ _ _ B2 G1) as (_ & (c & C1 & C2)). rewrite C1.
  destruct (negb (lenN my =? 0) && negb (is_type_name my)); [discriminate|].
  destruct (t_get_string tc) as [td [tg| |]] eqn:G2; try discriminate.
  destruct (t_string_rel _ _ _ _ C2 G2) as (_ & (d & D1 & D2)). rewrite D1.
  destruct (negb (lenN tg =? 0) && negb (is_type_name tg)); [discriminate|].
  inversion G; subst. exists d. auto.
Qed.

Lemma plain_string_three r :
  fst (get_string false r) = fst (skip_string_marker false r) /\
  fst (get_string false r) = fst (skip_string false r) /\
  (forall s, snd (get_string false r) = MOk s ->
             snd (skip_string_marker false r) = MOk (bytes_eqb s secret_marker)).
Proof. destruct (plain_string_same r) as (A & B & _ & _ & E). auto. Qed.
