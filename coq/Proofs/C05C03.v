(* Proofs/C05C03.v — composition of C03 (what a handshake reports is what happened) with C05
   (the dispatch loop acts on what the handshake reported): the abstract handshake record the
   server model consumes is faithful whenever it is the image of a C03 handshake run. *)
From Coq Require Import List NArith ZArith Bool.
From Cedar Require Import Model.Negotiate Model.Handshake Proofs.C03 Model.Server Proofs.C05Spec Proofs.C05.
Import ListNotations.

(* the server-model record of a full handshake, built from what a C03 run returned; the fields
   the handshake model does not carry (command, mapped user, session id, stored key) are free *)
Definition full_of_result (c : cmd) (u : user) (s : sid) (haskey : bool) (r : Handshake.result) : full :=
  {| f_cmd := c; f_authn := r_auth r; f_enc := r_enc r; f_user := u; f_sid := s; f_haskey := haskey;
     f_auth_real := existsb (fun mr => snd mr) (g_ran r);
     f_enc_real := g_encrypted r |}.

Lemma full_of_result_faithful (x : run) (r : Handshake.result) c u s hk :
  run_out x = Ok r -> full_faithful (full_of_result c u s hk r).
Proof.
  intro H. unfold full_faithful, full_of_result. cbn.
  destruct (report_auth _ _ H) as [[Ha _] _]. destruct (report_enc _ _ H) as [He _].
  split.
  - intro E. destruct (Ha E) as [m Hm]. apply existsb_exists. exists (m, true). split; [exact Hm|reflexivity].
  - intro E. rewrite <- He. exact E.
Qed.

(* a history whose full-handshake records all come from C03 runs *)
Definition from_c03 (f : full) : Prop :=
  exists (x : run) (r : Handshake.result) c u s hk, run_out x = Ok r /\ f = full_of_result c u s hk r.

Theorem dispatch_real_composed : forall k evs i,
  cache_faithful k ->
  Forall from_c03 (history_fulls evs) ->
  Forall entry_faithful (history_imports evs) ->
  In i (history_invocations k evs) -> i_rawpath i = false -> meets_policy_real i.
Proof.
  intros k evs i Fk Ff Fi Hin Hr.
  eapply history_dispatch_real; try eassumption.
  eapply Forall_impl; [|exact Ff].
  intros f [x [r [c [u [s [hk [Hrun ->]]]]]]]. eapply full_of_result_faithful. exact Hrun.
Qed.
