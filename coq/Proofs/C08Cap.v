(* Proofs/C08Cap.v — the size-capped parsing receiver (GetClassAdWithMaxSize) against GetClassAd:
   (1) in EVERY stream state, for ANY bytes in ANY framing and EVERY cap: if the capped receiver succeeds
       it returns what GetClassAd returns and leaves the same bytes unread (never a successful short read);
   (2) on the frames the sender produced it succeeds as soon as the cap covers what it charges. *)
From Coq Require Import List NArith ZArith Lia Bool.
From Coq Require Import ZifyBool ZifyNat ZifyN.
From Cedar Require Import Lib.Bytes gen.Consts Model.Msg Model.Privacy Model.AdWire.
From Cedar Require Model.Decode.
From Cedar Require Import Proofs.C14Reader Proofs.C14Writer Proofs.C14Roundtrip Proofs.C08Round Proofs.C08Wire Proofs.C08Bridge.
Import ListNotations.
Local Open Scope N_scope.

(* ---- the two fuel measures are the same number ---- *)
Lemma avail_total r : Decode.avail r = total_bytes r.
Proof.
  unfold Decode.avail, total_bytes. reflexivity.
Qed.

(* ---- one string: a capped read that succeeds is the uncapped read ---- *)
Lemma cstr_max_loop_agrees fuel : forall r acc left r1 s fuel',
  Decode.get_cstr_max_loop fuel r acc left = (r1, MOk s) -> (fuel <= fuel')%nat ->
  get_cstr_loop fuel' r acc = (r1, MOk s).
Proof.
  induction fuel as [|f IH]; intros r acc left r1 s fuel' H L; cbn [Decode.get_cstr_max_loop] in H.
  - destruct (left =? 0); discriminate.
  - destruct (left =? 0); [discriminate|].
    destruct fuel' as [|f']; [lia|]. cbn [get_cstr_loop].
    destruct (ensure r 1) as [ra [u|e|]]; try discriminate.
    + destruct (r_buf ra) as [|b rest]; [discriminate|].
      destruct (byte_eqb b x00); [exact H|].
      apply (IH _ _ _ _ _ f' H). lia.
    + destruct e; try discriminate. destruct acc; [|discriminate]. exact H.
Qed.

Lemma charge_ok {A} (size : A -> N) x r1 (a : A) :
  Decode.charge size x = (r1, MOk a) -> exists r0, x = (r0, MOk a) /\ r1 = add_alloc r0 (size a).
Proof.
  unfold Decode.charge. destruct x as [r0 [a0|e|]]; intro H; inversion H; subst. exists r0. auto.
Qed.

Lemma same_rest_add_alloc r n : same_rest (add_alloc r n) r.
Proof. repeat split. Qed.

Lemma cstr_max_agrees k r r1 s :
  Decode.get_cstr_max k r = (r1, MOk s) -> exists r1', get_cstr r = (r1', MOk s) /\ same_rest r1 r1'.
Proof.
  unfold Decode.get_cstr_max, get_cstr. intro H.
  apply charge_ok in H as (r0 & H & ->).
  exists r0. split; [|apply same_rest_add_alloc].
  apply (cstr_max_loop_agrees _ _ _ _ _ _ _ H). rewrite avail_total. lia.
Qed.

Lemma lstr_max_agrees k r r1 s :
  Decode.get_lstr_max k r = (r1, MOk s) -> get_lstr r = (r1, MOk s).
Proof.
  unfold Decode.get_lstr_max, get_lstr.
  destruct (get_int32 r) as [ra [len|e|]]; cbn [Decode.bind]; try discriminate.
  destruct (len <? 0)%Z eqn:Neg; [discriminate|].
  destruct (k <? len)%Z eqn:Ex.
  - (* truncated read: never MOk *)
    destruct (ensure ra k) as [rb [u|e|]]; cbn [Decode.bind]; try discriminate.
    unfold Decode.r_make. destruct (Decode.go_make k); cbn [Decode.bind]; discriminate.
  - destruct (ensure ra len) as [rb [u|e|]]; cbn [Decode.bind]; try discriminate.
    unfold Decode.r_make, Decode.go_make. rewrite Neg. cbn [Decode.bind Decode.r_read take].
    intro H. exact H.
Qed.

Lemma string_max_agrees enc k r r1 s : (0 < k)%Z ->
  Decode.get_string_max enc k r = (r1, MOk s) ->
  exists r1', get_string enc r = (r1', MOk s) /\ same_rest r1 r1'.
Proof.
  intros Hk. unfold Decode.get_string_max, get_string.
  destruct (Z.leb_spec k 0); [lia|]. destruct enc; intro G.
  - exists r1. split; [apply (lstr_max_agrees _ _ _ _ G)|apply same_rest_refl].
  - apply (cstr_max_agrees _ _ _ _ G).
Qed.

(* ---- lifted through the stream state ---- *)
Lemma t_step_ok {A} (f : reader -> reader * mres A) t t1 (a : A) :
  t_step f t = (t1, MOk a) -> exists r1, f (t_r t) = (r1, MOk a) /\ t1 = fst (t_step f t).
Proof.
  intro G. rewrite G. unfold t_step in G. destruct (f (t_r t)) as [r1 x].
  destruct (forallb _ _); inversion G; subst. exists r1. auto.
Qed.

Lemma t_string_max_rel k t t' t1 s : (0 < k)%Z -> tsame t t' ->
  t_get_string_max k t = (t1, MOk s) ->
  exists t1', t_get_string t' = (t1', MOk s) /\ tsame t1 t1'.
Proof.
  intros Hk H G. pose proof H as (S0 & _ & _ & E & _).
  unfold t_get_string_max, t_get_string in *. rewrite <- E.
  destruct (t_step_ok _ _ _ _ G) as (r1 & F & ->).
  destruct (string_max_agrees _ _ _ _ _ Hk F) as (r1' & G1 & S1).
  destruct (get_string_cong (t_enc t) _ _ S0) as [C1 C2]. rewrite G1 in C1, C2. cbn [fst snd] in C1, C2.
  destruct (t_step_rel (Decode.get_string_max (t_enc t) k) (get_string (t_enc t)) t t' H) as [R1 R2].
  { rewrite F. cbn [fst]. eapply same_rest_trans; eassumption. }
  rewrite G in R1, R2. cbn [fst snd] in R1, R2.
  destruct (t_step (get_string (t_enc t)) t') as [tt1 y]. cbn [fst snd] in *.
  exists tt1. split; [|exact R1].
  destruct R2 as [[_ Rb]|[C _]]; [|discriminate]. rewrite Rb, <- C2. reflexivity.
Qed.

Lemma t_secret_max_rel k t t' t1 s : (0 < k)%Z -> tsame t t' ->
  t_get_secret_max k t = (t1, MOk s) ->
  exists t1', t_get_secret t' = (t1', MOk s) /\ tsame t1 t1'.
Proof.
  intros Hk H G. unfold t_get_secret_max, t_get_secret in *.
  destruct (t_get_string_max k (t_prepare t)) as [ta x] eqn:GS. inversion G; subst t1 x. clear G.
  destruct (t_string_max_rel _ _ _ _ _ Hk (tsame_prepare _ _ H) GS) as (b & B1 & B2).
  rewrite B1. eexists. split; [reflexivity|]. apply tsame_restore. exact B2.
Qed.

Lemma budget_get_false_rel cap total t t' t1 s : tsame t t' ->
  budget_get cap total false t = (t1, MOk s) ->
  exists t1', t_get_string t' = (t1', MOk s) /\ tsame t1 t1'.
Proof.
  intros H. unfold budget_get. destruct (Z.leb_spec (cap - total) 0); [discriminate|].
  apply t_string_max_rel; assumption.
Qed.
Lemma budget_get_true_rel cap total t t' t1 s : tsame t t' ->
  budget_get cap total true t = (t1, MOk s) ->
  exists t1', t_get_secret t' = (t1', MOk s) /\ tsame t1 t1'.
Proof.
  intros H. unfold budget_get. destruct (Z.leb_spec (cap - total) 0); [discriminate|].
  apply t_secret_max_rel; assumption.
Qed.

Lemma exprs_capped_rel ok cap n : forall t t' total acc l tot1 t1, tsame t t' ->
  get_exprs_capped ok cap n t total acc = (t1, MOk (l, tot1)) ->
  exists t1', get_exprs ok false n t' acc = (t1', MOk l) /\ tsame t1 t1'.
Proof.
  induction n as [|n IH]; intros t t' total acc l tot1 t1 H G; cbn [get_exprs_capped get_exprs andb] in *.
  - inversion G; subst. exists t'. auto.
  - destruct (budget_get cap total false t) as [ta [s| |]] eqn:GS; try discriminate.
    destruct (budget_get_false_rel _ _ _ _ _ _ H GS) as (a & A1 & A2). rewrite A1.
    destruct (bytes_eqb s secret_marker).
    + destruct (budget_get cap (charge1 total s) true ta) as [tb [s2| |]] eqn:GX; try discriminate.
      destruct (budget_get_true_rel _ _ _ _ _ _ A2 GX) as (b & B1 & B2). rewrite B1.
      destruct (ok s2); [|discriminate].
      apply (IH tb b _ (s2 :: acc) l tot1 t1 B2 G).
    + destruct (ok s); [|discriminate].
      apply (IH ta a _ (s :: acc) l tot1 t1 A2 G).
Qed.

(* EVERY stream state, ANY bytes in ANY framing, EVERY parser and EVERY cap: a capped read that succeeds
   returns exactly what GetClassAd returns on the same input, and ends with the same bytes unread, the same
   frames (and frame modes) still to come and the same stream flags. *)
Lemma capped_agrees parses cap t t1 x :
  get_ad_capped parses cap t = (t1, MOk x) ->
  exists t1', get_ad parses t = (t1', MOk x) /\ tsame t1 t1'.
Proof.
  unfold get_ad_capped. destruct (cap <=? 0)%Z.
  - intro G. exists t1. split; [exact G|apply tsame_refl].
  - intro G. unfold get_ad, get_ad_gen.
    destruct (t_get_int t) as [ta [n| |]] eqn:GI; try discriminate.
    destruct (get_exprs_capped parses cap (Z.to_nat n) ta 0%Z []) as [tb [[es total]| |]] eqn:GE; try discriminate.
    destruct (exprs_capped_rel _ _ _ _ _ _ _ _ _ _ (tsame_refl ta) GE) as (b & B1 & B2). rewrite B1.
    unfold get_types_capped in G. unfold get_types. cbn [andb].
    destruct (budget_get cap total false tb) as [tc [my| |]] eqn:G1; try discriminate.
    destruct (budget_get_false_rel _ _ _ _ _ _ B2 G1) as (c & C1 & C2). rewrite C1.
    destruct (budget_get cap (charge1 total my) false tc) as [td [tg| |]] eqn:G2; try discriminate.
    destruct (budget_get_false_rel _ _ _ _ _ _ C2 G2) as (d & D1 & D2). rewrite D1.
    inversion G; subst. exists d. auto.
Qed.
