(* Proofs/C13raw.v — allocation bound for GetClassAdRaw: the text it builds costs one
   more byte per byte consumed, plus one byte per expression and 16 per type line. *)
From Coq Require Import List NArith ZArith Lia Bool.
From Coq Require Import ZifyBool ZifyNat ZifyN.
From Cedar Require Import Lib.Bytes gen.Consts Model.Msg Model.Decode Proofs.C13 Proofs.C13ad.
Import ListNotations.
Local Open Scope N_scope.

Definition okf {A} (c : N) (r : reader) (x : reader * mres A) : Prop :=
  snd x <> MPanic /\ r_alloc r <= r_alloc (fst x) /\
  r_alloc (fst x) + 2 * avail (fst x) <= r_alloc r + 2 * avail r + c /\
  avail (fst x) <= avail r.

Lemma ok_avail {A} r (x : reader * mres A) : ok r x -> avail (fst x) <= avail r.
Proof. intros (_ & H1 & H2 & _). lia. Qed.

Lemma get_string'_len enc r r' s :
  get_string' enc r = (r', MOk s) -> lenN s + avail r' <= avail r.
Proof.
  destruct enc; cbn [get_string'].
  - unfold get_lstr'. destruct (get_int32 r) as [r1 [len|e|]] eqn:E; cbn [bind]; try discriminate.
    apply get_int32_spec in E. destruct E as (_ & E2 & _). specialize (E2 len eq_refl).
    destruct (Z.ltb_spec len 0); [discriminate|].
    intro T. pose proof T as T'.
    apply (lstr_tail_spec r1 len (fun d => MOk (strip_string d))) in T; [|lia].
    apply (lstr_tail_exact r1 len (fun d => MOk (strip_string d))) with (a := s) in T'; [|lia|reflexivity].
    destruct T as (_ & _ & T3). destruct (T3 s eq_refl) as (d & Hd & Hl). inversion Hd; subst.
    pose proof (strip_string_len d). lia.
  - unfold get_cstr', get_cstr.
    destruct (get_cstr_loop_post (S (S (N.to_nat (total_bytes r)))) r []) as (_ & _ & _ & _ & H4).
    destruct (get_cstr_loop (S (S (N.to_nat (total_bytes r)))) r []) as [r1 [s1|e|]]; cbn [charge]; try discriminate.
    intro H; inversion H; subst. specialize (H4 s eq_refl). cbn [fst] in H4. rewrite lenN_nil in H4.
    unfold avail in *. cbn [add_alloc r_buf r_in]. lia.
Qed.

Lemma add_alloc_facts r n : r_alloc (add_alloc r n) = r_alloc r + n /\ avail (add_alloc r n) = avail r.
Proof. unfold avail; cbn [add_alloc r_alloc r_buf r_in]. split; reflexivity. Qed.

Lemma raw_loop_okf enc fuel : forall left r, okf (N.of_nat fuel) r (raw_loop enc fuel left r).
Proof.
  induction fuel as [|f IH]; intros left r; cbn [raw_loop];
    destruct (left <=? 0)%Z.
  1,2,3: unfold okf; cbn [fst snd]; repeat split; try congruence; lia.
  destruct (finished r); [unfold okf; cbn [fst snd]; repeat split; try congruence; lia|].
  pose proof (get_string'_ok enc r) as O1.
  destruct (get_string' enc r) as [r1 [s|e|]] eqn:G1; cbn [bind].
  2: { destruct O1 as (_ & A1 & A2 & _). unfold okf; cbn [fst snd] in *. repeat split; try congruence; lia. }
  2: { exfalso. destruct O1 as (O1 & _). apply O1. reflexivity. }
  pose proof (get_string'_len _ _ _ _ G1) as L1. destruct O1 as (_ & A1 & A2 & _). cbn [fst snd] in *.
  destruct (bytes_eqb s secret_marker).
  - pose proof (get_string'_ok enc r1) as O2.
    destruct (get_string' enc r1) as [r2 [e|e|]] eqn:G2; cbn [bind].
    2: { destruct O2 as (_ & B1 & B2 & _). unfold okf; cbn [fst snd] in *. repeat split; try congruence; lia. }
    2: { exfalso. destruct O2 as (O2 & _). apply O2. reflexivity. }
    pose proof (get_string'_len _ _ _ _ G2) as L2. destruct O2 as (_ & B1 & B2 & _). cbn [fst snd] in *.
    specialize (IH (left - 1)%Z (add_alloc r2 (lenN e + 1))).
    destruct (add_alloc_facts r2 (lenN e + 1)) as (F1 & F2).
    unfold okf in *. rewrite F1, F2 in IH. destruct IH as (I0 & I1 & I2 & I3).
    repeat split; try assumption; lia.
  - cbn [bind].
    specialize (IH (left - 1)%Z (add_alloc r1 (lenN s + 1))).
    destruct (add_alloc_facts r1 (lenN s + 1)) as (F1 & F2).
    unfold okf in *. rewrite F1, F2 in IH. destruct IH as (I0 & I1 & I2 & I3).
    repeat split; try assumption; lia.
Qed.

Lemma type_line_okf enc r : okf 16 r (type_line enc r).
Proof.
  unfold type_line. pose proof (get_string'_ok enc r) as O1.
  destruct (get_string' enc r) as [r1 [s|e|]] eqn:G1; cbn [bind].
  2: { destruct O1 as (_ & A1 & A2 & _). unfold okf; cbn [fst snd] in *. repeat split; try congruence; lia. }
  2: { exfalso. destruct O1 as (O1 & _). apply O1. reflexivity. }
  pose proof (get_string'_len _ _ _ _ G1) as L1. destruct O1 as (_ & A1 & A2 & _). cbn [fst snd] in *.
  destruct s as [|b s']; [unfold okf; cbn [fst snd]; repeat split; try congruence; lia|].
  destruct (is_type_name (b :: s')).
  - destruct (add_alloc_facts r1 (lenN (b :: s') + 16)) as (F1 & F2).
    unfold okf; cbn [fst snd]. rewrite F1, F2. repeat split; try congruence; lia.
  - unfold okf; cbn [fst snd]. repeat split; try congruence; lia.
Qed.

Theorem get_classad_raw_alloc enc r :
  let r' := fst (get_classad_raw enc r) in
  r_alloc r <= r_alloc r' /\ avail r' <= avail r /\
  r_alloc r' + 2 * avail r' <= r_alloc r + 3 * avail r + 35.
Proof.
  cbn zeta. unfold get_classad_raw. pose proof (get_int_ok r) as O0.
  destruct (get_int r) as [r0 [num|e|]]; cbn [bind fst].
  2: { destruct O0 as (_ & A1 & A2 & _). cbn [fst snd] in *. lia. }
  2: { exfalso. destruct O0 as (O0 & _). apply O0. reflexivity. }
  destruct O0 as (_ & A1 & A2 & _). cbn [fst snd] in *.
  pose proof (raw_loop_okf enc (S (S (S (N.to_nat (avail r0))))) num r0) as L.
  destruct (raw_loop enc (S (S (S (N.to_nat (avail r0))))) num r0) as [r1 [[]|e|]]; cbn [bind fst].
  2: { destruct L as (_ & B1 & B2 & B3). cbn [fst snd] in *. lia. }
  2: { exfalso. destruct L as (L & _). apply L. reflexivity. }
  destruct L as (_ & B1 & B2 & B3). cbn [fst snd] in *.
  pose proof (type_line_okf enc r1) as T1.
  destruct (type_line enc r1) as [r2 [[]|e|]]; cbn [bind fst].
  2: { destruct T1 as (_ & C1 & C2 & C3). cbn [fst snd] in *. lia. }
  2: { exfalso. destruct T1 as (T1 & _). apply T1. reflexivity. }
  destruct T1 as (_ & C1 & C2 & C3). cbn [fst snd] in *.
  pose proof (type_line_okf enc r2) as T2. destruct T2 as (_ & D1 & D2 & D3). lia.
Qed.

(* ---------- fuel sufficiency of the cleartext string loops -------------------------------------- *)
(* every iteration that continues has consumed exactly one byte, so avail r + 1 steps
   suffice and any larger fuel gives the same result *)
Lemma skip_cstr_loop_fuel fuel : forall r m,
  (N.to_nat (avail r) < fuel)%nat -> skip_cstr_loop (fuel + m) r = skip_cstr_loop fuel r.
Proof.
  induction fuel as [|f IH]; intros r m Hf; [lia|]. cbn [plus skip_cstr_loop].
  destruct (ensure r 1) as [r1 [[]|e|]] eqn:E; try reflexivity.
  apply ensure_spec in E. destruct E as (_ & _ & E2 & _).
  destruct (r_buf r1) as [|b rest] eqn:Hb; [reflexivity|].
  destruct (set_buf_tail r1 b rest Hb) as (_ & S2 & _).
  destruct (byte_eqb b x00); [reflexivity|]. apply IH. lia.
Qed.

Lemma get_cstr_max_loop_fuel fuel : forall r acc left m,
  (N.to_nat (avail r) < fuel)%nat ->
  get_cstr_max_loop (fuel + m) r acc left = get_cstr_max_loop fuel r acc left.
Proof.
  induction fuel as [|f IH]; intros r acc left m Hf; [lia|]. cbn [plus get_cstr_max_loop].
  destruct (left =? 0); [reflexivity|].
  destruct (ensure r 1) as [r1 [[]|e|]] eqn:E; try reflexivity.
  apply ensure_spec in E. destruct E as (_ & _ & E2 & _).
  destruct (r_buf r1) as [|b rest] eqn:Hb; [reflexivity|].
  destruct (set_buf_tail r1 b rest Hb) as (_ & S2 & _).
  destruct (byte_eqb b x00); [reflexivity|]. apply IH. lia.
Qed.

Lemma get_cstr_loop_fuel fuel : forall r acc m,
  (N.to_nat (avail r) < fuel)%nat -> get_cstr_loop (fuel + m) r acc = get_cstr_loop fuel r acc.
Proof.
  induction fuel as [|f IH]; intros r acc m Hf; [lia|]. cbn [plus get_cstr_loop].
  destruct (ensure r 1) as [r1 [[]|e|]] eqn:E; try reflexivity.
  apply ensure_spec in E. destruct E as (_ & _ & E2 & _).
  destruct (r_buf r1) as [|b rest] eqn:Hb; [reflexivity|].
  destruct (set_buf_tail r1 b rest Hb) as (_ & S2 & _).
  destruct (byte_eqb b x00); [reflexivity|]. apply IH. lia.
Qed.

Lemma string_fuel_sufficient r fuel m :
  (N.to_nat (avail r) < fuel)%nat ->
  (forall acc left, get_cstr_max_loop (fuel + m) r acc left = get_cstr_max_loop fuel r acc left) /\
  skip_cstr_loop (fuel + m) r = skip_cstr_loop fuel r /\
  (forall acc, get_cstr_loop (fuel + m) r acc = get_cstr_loop fuel r acc).
Proof.
  intro Hf. split; [intros acc left; apply get_cstr_max_loop_fuel; exact Hf|].
  split; [apply skip_cstr_loop_fuel; exact Hf|intro acc; apply get_cstr_loop_fuel; exact Hf].
Qed.

(* ---------- complements found by the hypothesis audit ---------------------------------------------- *)
(* cap <= 0: GetStringWithMaxSize returns "" and touches nothing *)
Lemma string_cap_nonpositive (enc : bool) cap r : (cap <= 0)%Z -> get_string_max enc cap r = (r, MOk []).
Proof. intro H. unfold get_string_max. destruct (Z.leb_spec cap 0); [reflexivity|lia]. Qed.

(* cap <= 0: the bounded ClassAd reader is exactly the unbounded one ("no limit") *)
Lemma classad_cap_nonpositive parse (enc : bool) cap r : (cap <= 0)%Z -> get_classad parse enc cap r = get_classad parse enc 0 r.
Proof.
  intro H. unfold get_classad.
  assert (B : forall t t' r0, budget_read enc cap t r0 = budget_read enc 0 t' r0).
  { intros. unfold budget_read. destruct (Z.ltb_spec 0 cap); [lia|]. reflexivity. }
  assert (C : forall t s, charge_total cap t s = t /\ charge_total 0 t s = t).
  { intros. unfold charge_total. destruct (Z.ltb_spec 0 cap); [lia|]. split; reflexivity. }
  assert (L : forall fuel left i t r0, ad_loop parse enc cap fuel left i t r0 = ad_loop parse enc 0 fuel left i t r0).
  { induction fuel as [|f IH]; intros left i t r0; cbn [ad_loop]; [reflexivity|].
    destruct (left <=? 0)%Z; [reflexivity|]. rewrite (B t t r0).
    destruct (budget_read enc 0 t r0) as [r1 [s|e|]]; cbn [bind]; try reflexivity.
    destruct (C t s) as (C1 & C2). rewrite C1, C2.
    destruct (bytes_eqb s secret_marker).
    - rewrite (B t t r1). destruct (budget_read enc 0 t r1) as [r2 [e|e|]]; cbn [bind]; try reflexivity.
      destruct (C t e) as (D1 & D2). rewrite D1, D2. destruct (has_eq e && parse i e); [apply IH|reflexivity].
    - cbn [bind]. destruct (has_eq s && parse i s); [apply IH|reflexivity]. }
  destruct (get_int r) as [r0 [num|e|]]; cbn [bind]; try reflexivity.
  rewrite L. destruct (ad_loop parse enc 0 (S (S (N.to_nat (avail r0)))) num 0 0 r0) as [r1 [t|e|]]; cbn [bind]; try reflexivity.
  rewrite (B t t r1). destruct (budget_read enc 0 t r1) as [r2 [mt|e|]]; cbn [bind]; try reflexivity.
  destruct (C t mt) as (C1 & C2). rewrite C1, C2. rewrite (B t t r2). reflexivity.
Qed.

(* the fuel Msg.get_cstr is defined with satisfies the hypothesis of string_fuel_sufficient *)
Lemma fold_frames_bytes fs : fold_right (fun (f : mframe) a => lenN (fst f) + a) 0 fs = frames_bytes fs.
Proof. induction fs as [|f fs IH]; cbn [fold_right frames_bytes]; [reflexivity|rewrite IH; reflexivity]. Qed.
Lemma total_bytes_avail r : total_bytes r = avail r.
Proof. unfold total_bytes, avail. rewrite fold_frames_bytes. reflexivity. Qed.
Lemma get_cstr_fuel_independent r m : get_cstr_loop (S (S (N.to_nat (total_bytes r))) + m) r [] = get_cstr r.
Proof. unfold get_cstr. rewrite total_bytes_avail. apply get_cstr_loop_fuel. lia. Qed.
