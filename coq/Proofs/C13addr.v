(* Proofs/C13addr.v — Model/Addr.v: ParseHTCondorAddress, IsValidSharedPortID,
   SplitBrokerList, splitFlatEntryAndRoute are total and cut their results out of the
   input; SplitCCBContact inverts ContactString. *)
From Coq Require Import List NArith ZArith Lia Bool.
From Coq Require Import ZifyBool ZifyNat ZifyN.
From Cedar Require Import Lib.Bytes Model.Decode Model.Sinful Model.Addr Proofs.C13 Proofs.C13sinful.
Import ListNotations.
Local Open Scope N_scope.

(* numeric values of the byte constants used below *)
Ltac nb :=
  change (b2n x09) with 9 in *; change (b2n x0a) with 10 in *; change (b2n x0b) with 11 in *;
  change (b2n x0c) with 12 in *; change (b2n x0d) with 13 in *; change (b2n x20) with 32 in *;
  change (b2n x23) with 35 in *; change (b2n x2d) with 45 in *; change (b2n x2e) with 46 in *;
  change (b2n x5f) with 95 in *; change (b2n xc2) with 194 in *; change (b2n x85) with 133 in *;
  change (b2n xa0) with 160 in *; change (b2n xe1) with 225 in *; change (b2n x9a) with 154 in *;
  change (b2n x80) with 128 in *; change (b2n xe2) with 226 in *; change (b2n xa8) with 168 in *;
  change (b2n xa9) with 169 in *; change (b2n xaf) with 175 in *; change (b2n x81) with 129 in *;
  change (b2n x9f) with 159 in *; change (b2n xe3) with 227 in *; change (b2n x3c) with 60 in *;
  change (b2n x3e) with 62 in *.

(* ---------- helpers ------------------------------------------------------------------ *)
Lemma has_prefix_len p : forall s, has_prefix p s = true -> lenN p <= lenN s.
Proof.
  induction p as [|a p IH]; intros s; cbn [has_prefix]; [rewrite lenN_nil; lia|].
  destruct s as [|b s]; [discriminate|]. intro H. apply andb_true_iff in H. destruct H as [_ H].
  apply IH in H. rewrite !lenN_cons. lia.
Qed.

Lemma trim_left_by_len f s : lenN (trim_left_by f s) <= lenN s.
Proof.
  induction s as [|a s IH]; cbn [trim_left_by]; [lia|].
  destruct (f a); [rewrite lenN_cons; lia|lia].
Qed.
Lemma trim_by_len f s : lenN (trim_by f s) <= lenN s.
Proof.
  unfold trim_by. rewrite lenN_rev'. etransitivity; [apply trim_left_by_len|].
  rewrite lenN_rev'. apply trim_left_by_len.
Qed.

Lemma cut_at_spec b s : exists v, cut_at b s = Some v /\ lenN v <= lenN s.
Proof.
  unfold cut_at. destruct (Z.ltb_spec (index_byte b s) 0).
  - exists s. split; [reflexivity|lia].
  - destruct (index_byte_bounds b s) as [E|E]; [lia|].
    destruct (split_at_some s _ E) as (a & c & Ea & _ & L). exists a. split; [exact Ea|lia].
Qed.

(* the bytes in front of the first occurrence are not the byte looked for *)
Lemma index_from_none b s : forall i, (0 <= i)%Z -> (index_from b s i < 0)%Z ->
  forall x, In x s -> byte_eqb x b = false.
Proof.
  induction s as [|y r IH]; intros i Hi Hk x; cbn [index_from In] in *; [tauto|].
  destruct (byte_eqb y b) eqn:Ey; [lia|].
  intros [<-|Hx]; [exact Ey|]. apply (IH (i + 1)%Z); [lia|exact Hk|exact Hx].
Qed.
Lemma index_from_firstn b s : forall i x, (0 <= i)%Z -> (0 <= index_from b s i)%Z ->
  In x (firstn (Z.to_nat (index_from b s i - i)) s) -> byte_eqb x b = false.
Proof.
  induction s as [|y r IH]; intros i x Hi Hk; cbn [index_from] in *.
  - rewrite firstn_nil. intros [].
  - destruct (byte_eqb y b) eqn:Ey.
    + rewrite Z.sub_diag. cbn [Z.to_nat firstn]. intros [].
    + destruct (index_from_bounds b r (i + 1)%Z) as [E|E]; [lia|].
      replace (Z.to_nat (index_from b r (i + 1) - i)) with (S (Z.to_nat (index_from b r (i + 1) - (i + 1)))) by lia.
      cbn [firstn In]. intros [<-|Hx]; [exact Ey|]. apply (IH (i + 1)%Z); [lia|exact Hk|exact Hx].
Qed.
Lemma cut_at_notin b s v x : cut_at b s = Some v -> In x v -> byte_eqb x b = false.
Proof.
  unfold cut_at. destruct (Z.ltb_spec (index_byte b s) 0).
  - intro E; inversion E; subst. apply (index_from_none b v 0); [lia|exact H].
  - unfold go_slice. destruct ((0 <=? 0)%Z && (0 <=? index_byte b s)%Z && (index_byte b s <=? Z.of_N (lenN s))%Z); [|discriminate].
    intro E; inversion E; subst. cbn [Z.to_nat skipn]. unfold index_byte in *.
    apply index_from_firstn; lia.
Qed.
Lemma cut_at_In b s v x : cut_at b s = Some v -> In x v -> In x s.
Proof.
  unfold cut_at. destruct (index_byte b s <? 0)%Z.
  - intro E; inversion E; subst. tauto.
  - apply go_slice_In.
Qed.

Lemma split_on_len b s : forall cur f, In f (split_on b s cur) -> lenN f <= lenN cur + lenN s.
Proof.
  induction s as [|x r IH]; intros cur f; cbn [split_on].
  - intros [<-|[]]. rewrite lenN_rev'. lia.
  - rewrite lenN_cons. destruct (byte_eqb x b).
    + cbn [In]. intros [<-|H]; [rewrite lenN_rev'; lia|]. apply IH in H. rewrite lenN_nil in H. lia.
    + intro H. apply IH in H. rewrite lenN_cons in H. lia.
Qed.

(* ---------- ParseHTCondorAddress ---------------------------------------------------------- *)
Lemma first_sock_spec ps :
  exists id, first_sock ps = Some id /\ (id = [] \/ exists p, In p ps /\ lenN id + 5 = lenN p).
Proof.
  induction ps as [|p r IH]; cbn [first_sock].
  - exists []. split; [reflexivity|left; reflexivity].
  - destruct (has_prefix k_sock_eq p) eqn:Hp.
    + apply has_prefix_len in Hp. change (lenN k_sock_eq) with 5 in Hp.
      destruct (go_slice_some p 5 (Z.of_N (lenN p))) as (v & Ev & Lv); try lia.
      exists v. split; [exact Ev|]. right. exists p. split; [left; reflexivity|lia].
    + destruct IH as (id & E & [->|(q & Hq & Lq)]).
      * exists []. split; [exact E|left; reflexivity].
      * exists id. split; [exact E|]. right. exists q. split; [right; exact Hq|exact Lq].
Qed.

(* total; server and id are disjoint pieces of the input; an id is only reported for a
   shared-port address and contains neither '&' nor '?' *)
Theorem parse_htcondor_address_spec a :
  exists i, parse_htcondor_address a = Some i /\
    lenN (sp_server i) + lenN (sp_id i) <= lenN a /\
    (sp_is i = false -> sp_id i = []) /\
    (forall x, In x (sp_id i) -> byte_eqb x x26 = false /\ byte_eqb x x3f = false).
Proof.
  unfold parse_htcondor_address. set (s := trim_by is_angle a).
  pose proof (trim_by_len is_angle a) as Ls. fold s in Ls.
  destruct (Z.ltb_spec (index_byte x3f s) 0).
  - eexists; split; [reflexivity|]. cbn [sp_server sp_id sp_is]. rewrite lenN_nil.
    split; [lia|]. split; [reflexivity|intros x []].
  - destruct (index_byte_bounds x3f s) as [E|E]; [lia|].
    destruct (split_at_some s _ E) as (sv & q & -> & -> & L). cbn [obind].
    destruct (first_sock_spec (split_on x26 q [])) as (id & -> & Hid). cbn [obind].
    assert (Lid : lenN id <= lenN q).
    { destruct Hid as [->|(p & Hp & Lp)]; [rewrite lenN_nil; lia|].
      apply split_on_len in Hp. rewrite lenN_nil in Hp. lia. }
    clear Hid. destruct id as [|i0 id'].
    + eexists; split; [reflexivity|]. cbn [sp_server sp_id sp_is]. rewrite lenN_nil.
      split; [lia|]. split; [reflexivity|intros x []].
    + destruct (cut_at_spec x26 (i0 :: id')) as (id1 & E1 & L1). rewrite E1. cbn [obind].
      destruct (cut_at_spec x3f id1) as (id2 & E2 & L2). rewrite E2. cbn [obind].
      eexists; split; [reflexivity|]. cbn [sp_server sp_id sp_is].
      split; [lia|]. split; [discriminate|]. intros x Hx. split.
      * apply (cut_at_notin _ _ _ _ E1). apply (cut_at_In _ _ _ _ E2). exact Hx.
      * apply (cut_at_notin _ _ _ _ E2). exact Hx.
Qed.

(* ---------- IsValidSharedPortID -------------------------------------------------------------- *)
Lemma is_id_byte_range x : is_id_byte x = true -> 45 <= b2n x <= 122 /\ b2n x <> 47.
Proof. unfold is_id_byte, byte_eqb. nb. intro H. lia. Qed.

Theorem is_valid_shared_port_id_sound id :
  is_valid_shared_port_id id = true ->
  id <> [] /\ forall x, In x id -> 45 <= b2n x <= 122 /\ b2n x <> 47.
Proof.
  unfold is_valid_shared_port_id. destruct id as [|a r]; [discriminate|].
  intro H. split; [discriminate|]. intros x Hx. apply is_id_byte_range.
  rewrite forallb_forall in H. apply H. exact Hx.
Qed.

(* ---------- SplitBrokerList -------------------------------------------------------------------- *)
Lemma filter_length_le' {A} (f : A -> bool) l : (length (filter f l) <= length l)%nat.
Proof. induction l as [|x l IH]; cbn [filter length]; [lia|]. destruct (f x); cbn [length]; lia. Qed.

Theorem split_broker_list_spec s :
  (length (split_broker_list s) <= count_sep is_broker_sep s + 1)%nat /\
  Forall (fun f => f <> [] /\ lenN f <= lenN s) (split_broker_list s).
Proof.
  unfold split_broker_list. split.
  - etransitivity; [apply filter_length_le'|apply fields_by_length].
  - apply Forall_forall. intros f Hf. apply filter_In in Hf. destruct Hf as [Hin Hne].
    split; [destruct f; [discriminate Hne|discriminate]|].
    apply fields_by_len in Hin. rewrite lenN_nil in Hin. lia.
Qed.

(* ---------- splitFlatEntryAndRoute ----------------------------------------------------------------- *)
Lemma strip_angle_pair_spec e : exists v, strip_angle_pair e = Some v /\ lenN v <= lenN e.
Proof.
  unfold strip_angle_pair. destruct (N.leb_spec 2 (lenN e)); cbn [andb].
  - destruct (match e with x :: _ => byte_eqb x x3c | [] => false end && last_byte_is e x3e).
    + destruct (go_slice_some e 1 (Z.of_N (lenN e) - 1)) as (v & Ev & Lv); try lia.
      exists v. split; [exact Ev|lia].
    + exists e. split; [reflexivity|lia].
  - exists e. split; [reflexivity|lia].
Qed.

Fixpoint sum1 (l : list bytes) : N := match l with [] => 0 | x :: r => lenN x + 1 + sum1 r end.
Lemma split_on_sum b s : forall cur, sum1 (split_on b s cur) = lenN cur + lenN s + 1.
Proof.
  induction s as [|x r IH]; intro cur; cbn [split_on sum1].
  - rewrite lenN_rev', lenN_nil. lia.
  - rewrite lenN_cons. destruct (byte_eqb x b); cbn [sum1].
    + rewrite IH, lenN_rev', lenN_nil. lia.
    + rewrite IH, lenN_cons. lia.
Qed.
Lemma join_sp_len l : lenN (join_sp l) <= sum1 l.
Proof.
  induction l as [|x r IH]; [cbn; lia|]. destruct r as [|y r'].
  - cbn [join_sp sum1]. lia.
  - change (join_sp (x :: y :: r')) with (x ++ x20 :: join_sp (y :: r')).
    change (sum1 (x :: y :: r')) with (lenN x + 1 + sum1 (y :: r')).
    rewrite lenN_app, lenN_cons. lia.
Qed.
Lemma sum1_filter_trim rest :
  sum1 (filter (fun t => negb (is_nil t)) (map utrim_space rest)) <= sum1 rest.
Proof.
  induction rest as [|x r IH]; cbn [map filter sum1]; [lia|].
  pose proof (utrim_space_len x). destruct (negb (is_nil (utrim_space x))); cbn [sum1]; lia.
Qed.

(* total; an accepted contact has a non-empty entry broker, and entry, id and route are
   disjoint pieces of the input *)
Theorem split_flat_spec c :
  exists o, split_flat_entry_and_route c = Some o /\
    forall e i r, o = Some (e, i, r) -> e <> [] /\ lenN e + lenN i + lenN r + 1 <= lenN c.
Proof.
  unfold split_flat_entry_and_route. set (s := utrim_space c).
  pose proof (utrim_space_len c) as Ls. fold s in Ls.
  destruct (Z.ltb_spec (index_byte x23 s) 0); [eexists; split; [reflexivity|discriminate]|].
  destruct (index_byte_bounds x23 s) as [E|E]; [lia|].
  destruct (split_at_some s _ E) as (e0 & t0 & -> & -> & L). cbn [obind].
  destruct (strip_angle_pair_spec (utrim_space e0)) as (en & -> & Len). cbn [obind].
  pose proof (utrim_space_len e0) as Le0. pose proof (utrim_space_len t0) as Lt0.
  pose proof (split_on_sum x23 (utrim_space t0) []) as S. rewrite lenN_nil in S.
  destruct (split_on x23 (utrim_space t0) []) as [|id0 rest]; [eexists; split; [reflexivity|discriminate]|].
  cbn [sum1] in S.
  destruct en as [|e1 en']; [eexists; split; [reflexivity|discriminate]|].
  destruct id0 as [|i1 id0']; [eexists; split; [reflexivity|discriminate]|].
  eexists; split; [reflexivity|]. intros e i r Ho. inversion Ho; subst. split; [discriminate|].
  pose proof (utrim_space_len (i1 :: id0')).
  pose proof (join_sp_len (filter (fun t => negb (is_nil t)) (map utrim_space rest))).
  pose proof (sum1_filter_trim rest). lia.
Qed.

(* ---------- SplitCCBContact inverts ContactString ---------------------------------------------------- *)
Definition ascii_ns (b : byte) : bool := (b2n b <? 128) && negb (is_space b).
(* first and last byte are ASCII and not white space *)
Definition plain_ends (s : bytes) : bool :=
  (match s with a :: _ => ascii_ns a | [] => false end)
  && (match rev' s with c :: _ => ascii_ns c | [] => false end).

Lemma uspace2_hi a b : uspace2 a b = true -> 128 <= b2n a /\ 128 <= b2n b.
Proof. unfold uspace2, byte_eqb. nb. intro H. lia. Qed.
Lemma uspace3_hi a b c : uspace3 a b c = true -> 128 <= b2n a /\ 128 <= b2n c.
Proof. unfold uspace3, in_range, byte_eqb. nb. intro H. lia. Qed.

Lemma ascii_ns_spec a : ascii_ns a = true -> b2n a < 128 /\ is_space a = false.
Proof.
  unfold ascii_ns. intro H. apply andb_true_iff in H. destruct H as [H1 H2].
  apply N.ltb_lt in H1. apply negb_true_iff in H2. split; assumption.
Qed.

Lemma uspace_len_ascii a r : ascii_ns a = true -> uspace_len (a :: r) = 0%nat.
Proof.
  intro H. apply ascii_ns_spec in H. destruct H as [H1 H2]. unfold uspace_len. rewrite H2.
  destruct r as [|b r2]; [reflexivity|].
  destruct (uspace2 a b) eqn:U2; [apply uspace2_hi in U2; lia|].
  destruct r2 as [|c r3]; [reflexivity|].
  destruct (uspace3 a b c) eqn:U3; [apply uspace3_hi in U3; lia|reflexivity].
Qed.
Lemma uspace_len_rev_ascii c r : ascii_ns c = true -> uspace_len_rev (c :: r) = 0%nat.
Proof.
  intro H. apply ascii_ns_spec in H. destruct H as [H1 H2]. unfold uspace_len_rev. rewrite H2.
  destruct r as [|b r2]; [reflexivity|].
  destruct (uspace2 b c) eqn:U2; [apply uspace2_hi in U2; lia|].
  destruct r2 as [|a r3]; [reflexivity|].
  destruct (uspace3 a b c) eqn:U3; [apply uspace3_hi in U3; lia|reflexivity].
Qed.

Lemma rev'_rev (l : bytes) : rev' l = rev l.
Proof. unfold rev'. symmetry. apply rev_alt. Qed.
Lemma rev'_involutive (l : bytes) : rev' (rev' l) = l.
Proof. rewrite !rev'_rev. apply rev_involutive. Qed.

Lemma utrim_plain s : plain_ends s = true -> utrim_space s = s.
Proof.
  unfold plain_ends. intro H. apply andb_true_iff in H. destruct H as [H1 H2].
  destruct s as [|a r]; [discriminate|].
  unfold utrim_space. cbn [length utrim_left_f]. rewrite (uspace_len_ascii a r H1). cbv zeta.
  destruct (rev' (a :: r)) as [|c t] eqn:R; [discriminate|].
  cbn [length utrim_rev_f]. rewrite (uspace_len_rev_ascii c t H2). rewrite <- R. apply rev'_involutive.
Qed.

Lemma plain_ends_join b d : plain_ends b = true -> plain_ends d = true -> plain_ends (b ++ x23 :: d) = true.
Proof.
  unfold plain_ends. intros Hb Hd. apply andb_true_iff in Hb. apply andb_true_iff in Hd.
  destruct Hb as [Hb _]. destruct Hd as [_ Hd]. apply andb_true_iff. split.
  - destruct b as [|b0 b']; [discriminate|]. exact Hb.
  - rewrite rev'_rev, rev_app_distr. cbn [rev]. rewrite rev'_rev in Hd.
    destruct (rev d) as [|c t]; [discriminate|]. cbn [app]. exact Hd.
Qed.

Lemma last_index_from_absent x d : (forall y, In y d -> byte_eqb y x = false) ->
  forall i best, last_index_from x d i best = best.
Proof.
  induction d as [|y r IH]; intros H i best; cbn [last_index_from]; [reflexivity|].
  rewrite (H y (or_introl eq_refl)). apply IH. intros z Hz. apply H. right; exact Hz.
Qed.
Lemma last_index_from_join x b d : (forall y, In y d -> byte_eqb y x = false) ->
  forall i best, last_index_from x (b ++ x :: d) i best = (i + Z.of_N (lenN b))%Z.
Proof.
  intro H. induction b as [|y r IH]; intros i best.
  - cbn [app last_index_from]. replace (byte_eqb x x) with true by (symmetry; apply byte_eqb_eq; reflexivity).
    rewrite (last_index_from_absent x d H). rewrite lenN_nil. lia.
  - cbn [app last_index_from]. rewrite IH, lenN_cons. lia.
Qed.

Lemma go_slice_left (b r : bytes) : go_slice (b ++ r) 0 (Z.of_N (lenN b)) = Some b.
Proof.
  unfold go_slice. rewrite lenN_app.
  replace ((0 <=? 0)%Z && (0 <=? Z.of_N (lenN b))%Z && (Z.of_N (lenN b) <=? Z.of_N (lenN b + lenN r))%Z) with true by lia.
  cbn [Z.to_nat skipn]. f_equal.
  replace (Z.to_nat (Z.of_N (lenN b) - 0)) with (length b) by (rewrite lenN_spec; lia).
  rewrite firstn_app, firstn_all, Nat.sub_diag. cbn [firstn]. apply app_nil_r.
Qed.
Lemma go_slice_right (b d : bytes) x :
  go_slice (b ++ x :: d) (Z.of_N (lenN b) + 1) (Z.of_N (lenN (b ++ x :: d))) = Some d.
Proof.
  unfold go_slice. rewrite lenN_app, lenN_cons.
  replace ((0 <=? Z.of_N (lenN b) + 1)%Z && (Z.of_N (lenN b) + 1 <=? Z.of_N (lenN b + (1 + lenN d)))%Z
           && (Z.of_N (lenN b + (1 + lenN d)) <=? Z.of_N (lenN b + (1 + lenN d)))%Z) with true by lia.
  f_equal.
  replace (Z.to_nat (Z.of_N (lenN b) + 1)) with (length b + 1)%nat by (rewrite lenN_spec; lia).
  replace (Z.to_nat (Z.of_N (lenN b + (1 + lenN d)) - (Z.of_N (lenN b) + 1))) with (length d) by (rewrite !lenN_spec; lia).
  rewrite skipn_app. rewrite skipn_all2 by lia. cbn [app].
  replace (length b + 1 - length b)%nat with 1%nat by lia. cbn [skipn]. apply firstn_all.
Qed.

(* SplitCCBContact on "broker#id": a broker that begins and ends with an ASCII
   non-space byte and is not wrapped in <>, an id likewise without '#' *)
Theorem split_ccb_contact_join b d :
  plain_ends b = true -> plain_ends d = true -> strip_angle_pair b = Some b ->
  (forall y, In y d -> byte_eqb y x23 = false) ->
  split_ccb_contact (b ++ x23 :: d) = Some (Some (b, d)).
Proof.
  intros Hb Hd Hs Hn. unfold split_ccb_contact.
  rewrite (utrim_plain _ (plain_ends_join b d Hb Hd)).
  unfold last_index_byte. rewrite (last_index_from_join x23 b d Hn). rewrite Z.add_0_l.
  pose proof (lenN_spec b).
  destruct (Z.ltb_spec (Z.of_N (lenN b)) 0); [lia|].
  rewrite go_slice_left. cbn [obind]. rewrite go_slice_right. cbn [obind].
  rewrite (utrim_plain b Hb), (utrim_plain d Hd).
  unfold strip_angle_pair in Hs. rewrite Hs. cbn [obind].
  destruct b as [|b0 b']; [discriminate Hb|]. destruct d as [|d0 d']; [discriminate Hd|]. reflexivity.
Qed.

(* decimal digits *)
Definition is_digit (x : byte) : Prop := 48 <= b2n x <= 57.
Lemma dec_f_digits fuel : forall n acc, Forall is_digit acc -> Forall is_digit (dec_f fuel n acc).
Proof.
  induction fuel as [|f IH]; intros n acc H; cbn [dec_f]; [exact H|].
  assert (D : is_digit (n2b (48 + n mod 10))).
  { unfold is_digit. rewrite b2n_n2b. pose proof (N.mod_upper_bound n 10).
    rewrite N.mod_small by lia. lia. }
  destruct (n <? 10); [constructor; assumption|]. apply IH. constructor; assumption.
Qed.
Lemma dec_f_nonempty fuel : forall n acc, acc <> [] -> dec_f fuel n acc <> [].
Proof.
  induction fuel as [|f IH]; intros n acc H; cbn [dec_f]; [exact H|].
  destruct (n <? 10); [discriminate|]. apply IH. discriminate.
Qed.
Lemma dec_f_S_nonempty f n acc : dec_f (S f) n acc <> [].
Proof. cbn [dec_f]. destruct (n <? 10); [discriminate|]. apply dec_f_nonempty. discriminate. Qed.
Lemma dec_digits n : Forall is_digit (dec n) /\ dec n <> [].
Proof.
  unfold dec. split; [apply dec_f_digits; constructor|]. apply (dec_f_S_nonempty 19).
Qed.
Lemma digit_ascii_ns x : is_digit x -> ascii_ns x = true.
Proof. unfold is_digit, ascii_ns, is_space, byte_eqb. nb. intro H. lia. Qed.
Lemma digits_plain d : Forall is_digit d -> d <> [] -> plain_ends d = true.
Proof.
  intros F Hne. unfold plain_ends. apply andb_true_iff. split.
  - destruct d as [|a r]; [congruence|]. apply digit_ascii_ns. inversion F; assumption.
  - destruct (rev' d) as [|c t] eqn:R.
    + exfalso. apply Hne. rewrite <- (rev'_involutive d), R. reflexivity.
    + apply digit_ascii_ns. rewrite Forall_forall in F. apply F. apply rev'_In. rewrite R. left; reflexivity.
Qed.

Theorem contact_string_round_trip b n :
  plain_ends b = true -> strip_angle_pair b = Some b ->
  split_ccb_contact (contact_string b n) = Some (Some (b, dec n)).
Proof.
  intros Hb Hs. unfold contact_string. destruct (dec_digits n) as [F Hne].
  apply split_ccb_contact_join; [exact Hb|apply digits_plain; assumption|exact Hs|].
  intros y Hy. rewrite Forall_forall in F. specialize (F y Hy). unfold is_digit in F.
  unfold byte_eqb. nb. lia.
Qed.
