(* Proofs/C14Api.v — every exported method of message.Message (regenerated from /repo's
   source into gen/FactsC14.v on every run) is either driven by the C14 correspondence
   harness or on its allow-list with a reason; and the harness's tables name only methods
   that exist.  A new or renamed typed entry point breaks this until it is covered. *)
From Coq Require Import String List Bool.
From Cedar Require Import gen.FactsC14.
Import ListNotations.

Definition name_in (s : string) (l : list string) : bool := existsb (String.eqb s) l.
Definition uncovered_methods : list string :=
  filter (fun m => negb (name_in m harness_exercised || name_in m (map fst harness_allowed))) message_methods.
Definition stale_entries : list string :=
  filter (fun m => negb (name_in m message_methods)) (harness_exercised ++ map fst harness_allowed).
Definition doubly_listed : list string :=
  filter (fun m => name_in m (map fst harness_allowed)) harness_exercised.

Lemma entry_points_covered : uncovered_methods = [] /\ stale_entries = [] /\ doubly_listed = [].
Proof. vm_compute. repeat split; reflexivity. Qed.
