(* Proofs/C06.v — proofs for C06: resumption needs a usable key and protects
   the connection with it; dead sessions stay dead over all histories; same
   session on both sides; replay: refutation and the strongest true statement. *)
From Coq Require Import List NArith ZArith Bool Lia.
From Cedar Require Import Lib.Bytes Lib.Sym Model.Cache Model.Resume Proofs.C06Defs.
Import ListNotations.
Local Open Scope Z_scope.

(* ---- small facts about the cache ------------------------------------------ *)
Lemma beq_refl x : bytes_eqb x x = true.
Proof. apply bytes_eqb_eq. reflexivity. Qed.

Lemma e_id_renew_lease e now : e_id (renew_lease e now) = e_id e.
Proof. unfold renew_lease. destruct (e_lease e =? 0); reflexivity. Qed.

Lemma find_sess_some id l e : find_sess id l = Some e -> e_id e = id /\ In e l.
Proof.
  unfold find_sess. intro H. apply find_some in H as [H1 H2]. unfold id_is in H2.
  apply bytes_eqb_eq in H2. auto.
Qed.
Lemma find_sess_none_id id l e : find_sess id l = None -> In e l -> e_id e <> id.
Proof.
  unfold find_sess. intros H Hin K. pose proof (find_none _ _ H e Hin) as F. unfold id_is in F.
  rewrite K, beq_refl in F. discriminate.
Qed.

Lemma lne_some c now id c' e :
  lookup_nonexpired c now id = (c', Some e) ->
  c' = c /\ find_sess id (c_sessions c) = Some e /\ is_expired e now = false.
Proof.
  unfold lookup_nonexpired. destruct (find_sess id (c_sessions c)) as [e0|] eqn:F; [|discriminate].
  destruct (is_expired e0 now) eqn:X; [discriminate|]. intro E. inversion E; subst. auto.
Qed.
Lemma lne_incl c now id : incl (c_sessions (fst (lookup_nonexpired c now id))) (c_sessions c).
Proof.
  unfold lookup_nonexpired. destruct (find_sess id (c_sessions c)) as [e0|]; [|apply incl_refl].
  destruct (is_expired e0 now); [|apply incl_refl]. cbn [fst c_sessions]. unfold del_sess.
  intros x H. apply filter_In in H. tauto.
Qed.
Lemma lne_dead c now id : dead_in c now id -> snd (lookup_nonexpired c now id) = None.
Proof.
  intro D. unfold lookup_nonexpired. destruct (find_sess id (c_sessions c)) as [e0|] eqn:F; [|reflexivity].
  apply find_sess_some in F as [F1 F2]. rewrite (D e0 F2 F1). reflexivity.
Qed.

Lemma dead_in_incl c c' now sid : incl (c_sessions c') (c_sessions c) -> dead_in c now sid -> dead_in c' now sid.
Proof. intros I D e H. apply D. apply I. exact H. Qed.
Lemma dead_in_store c en now sid : e_id en <> sid -> dead_in c now sid -> dead_in (store c en) now sid.
Proof.
  intros Hne D e H K. unfold store in H. cbn [c_sessions] in H. destruct H as [<-|H]; [contradiction|].
  unfold del_sess in H. apply filter_In in H as [H _]. exact (D e H K).
Qed.
Lemma dead_in_store_new c en now sid : e_id en <> sid -> dead_in c now sid -> dead_in (store_new c en) now sid.
Proof. intros Hne D. exact (dead_in_store {| c_sessions := c_sessions c; c_cmdmap := _ |} en now sid Hne D). Qed.
Lemma expired_mono e now now' : now <= now' -> is_expired e now = true -> is_expired e now' = true.
Proof.
  unfold is_expired. destruct (e_exp e) as [t|]; [|discriminate]. rewrite !Z.ltb_lt. lia.
Qed.
Lemma dead_in_mono c now now' sid : now <= now' -> dead_in c now sid -> dead_in c now' sid.
Proof. intros L D e H K. apply (expired_mono e now now' L). exact (D e H K). Qed.

Lemma filter_incl {A} (f : A -> bool) l : incl (filter f l) l.
Proof. intros x H. apply filter_In in H. tauto. Qed.
Lemma invalidate_incl c id : incl (c_sessions (fst (invalidate c id))) (c_sessions c).
Proof.
  unfold invalidate. destruct (find_sess id (c_sessions c)); [|apply incl_refl].
  cbn [fst c_sessions]. apply filter_incl.
Qed.
Lemma sweep_incl c now : incl (c_sessions (fst (invalidate_expired c now))) (c_sessions c).
Proof. unfold invalidate_expired. cbn [fst c_sessions]. apply filter_incl. Qed.

(* how a session becomes dead *)
Lemma absent_dead_in c now sid : find_sess sid (c_sessions c) = None -> dead_in c now sid.
Proof. intros F e H K. exfalso. exact (find_sess_none_id sid _ e F H K). Qed.
Lemma invalidate_dead_in c now sid : dead_in (fst (invalidate c sid)) now sid.
Proof.
  unfold invalidate. destruct (find_sess sid (c_sessions c)) eqn:F; cbn [fst].
  - intros e' H K. cbn [c_sessions] in H. unfold del_sess in H. apply filter_In in H as [_ H].
    unfold id_is in H. rewrite K, beq_refl in H. discriminate.
  - apply absent_dead_in. exact F.
Qed.
Lemma NoDup_map_eq {A B} (f : A -> B) l x y :
  NoDup (map f l) -> In x l -> In y l -> f x = f y -> x = y.
Proof.
  induction l as [|a l IH]; intros N Hx Hy E; [destruct Hx|].
  inversion N as [|? ? Hn N']; subst. destruct Hx as [<-|Hx], Hy as [<-|Hy]; auto.
  - exfalso. apply Hn. rewrite E. apply in_map. exact Hy.
  - exfalso. apply Hn. rewrite <- E. apply in_map. exact Hx.
Qed.
Lemma expired_dead_in c now sid e :
  sessions_ok c -> find_sess sid (c_sessions c) = Some e -> is_expired e now = true -> dead_in c now sid.
Proof.
  intros N F X e' H K. apply find_sess_some in F as [F1 F2].
  assert (e' = e) by (apply (NoDup_map_eq e_id (c_sessions c)); auto; congruence). subst. exact X.
Qed.

(* ---- the server's two caches ----------------------------------------------- *)
Lemma dead_cache_at s now sid w : dead s now sid -> dead_in (cache_at s w) now sid.
Proof.
  intros [Dg Dc]. unfold cache_at. destruct w; [|exact Dg]. destruct (s_custom s); [exact Dc|exact Dg].
Qed.
Lemma dead_set s now sid w c' : dead s now sid -> dead_in c' now sid -> dead (set_cache_at s w c') now sid.
Proof.
  intros [Dg Dc] D'. unfold set_cache_at, dead. destruct w.
  - destruct (s_custom s); cbn [s_global s_custom]; auto.
  - cbn [s_global s_custom]. auto.
Qed.

Lemma srv_lookup_some s now sid s1 e w :
  srv_lookup s now sid = (s1, Some (e, w)) ->
  find_sess sid (c_sessions (cache_at s w)) = Some e /\ is_expired e now = false /\
  (w = InCustom -> s_custom s <> None).
Proof.
  unfold srv_lookup, cache_at. destruct (s_custom s) as [c|].
  - destruct (lookup_nonexpired c now sid) as [c' [e1|]] eqn:L1.
    + intro E. inversion E; subst. apply lne_some in L1 as (_ & F & X). repeat split; auto. discriminate.
    + destruct (lookup_nonexpired (s_global s) now sid) as [g' [e2|]] eqn:L2; cbn [option_map]; [|discriminate].
      intro E. inversion E; subst. apply lne_some in L2 as (_ & F & X). repeat split; auto. discriminate.
  - destruct (lookup_nonexpired (s_global s) now sid) as [g' [e2|]] eqn:L2; cbn [option_map]; [|discriminate].
    intro E. inversion E; subst. apply lne_some in L2 as (_ & F & X). repeat split; auto. discriminate.
Qed.

(* srv_lookup only ever removes entries *)
Lemma srv_lookup_shrinks s now sid' :
  let s1 := fst (srv_lookup s now sid') in
  incl (c_sessions (s_global s1)) (c_sessions (s_global s)) /\
  match s_custom s1, s_custom s with
  | Some c1, Some c => incl (c_sessions c1) (c_sessions c)
  | None, None => True
  | _, _ => False
  end.
Proof.
  unfold srv_lookup. destruct (s_custom s) as [c|].
  - pose proof (lne_incl c now sid') as I1. destruct (lookup_nonexpired c now sid') as [c' [e1|]]; cbn [fst] in *.
    + cbn [s_global s_custom]. split; [apply incl_refl|exact I1].
    + pose proof (lne_incl (s_global s) now sid') as I2.
      destruct (lookup_nonexpired (s_global s) now sid') as [g' r2]; cbn [fst s_global s_custom] in *. auto.
  - pose proof (lne_incl (s_global s) now sid') as I2.
    destruct (lookup_nonexpired (s_global s) now sid') as [g' r2]; cbn [fst s_global s_custom] in *. auto.
Qed.
Lemma dead_after_lookup s now sid sid' : dead s now sid -> dead (fst (srv_lookup s now sid')) now sid.
Proof.
  intros [Dg Dc]. pose proof (srv_lookup_shrinks s now sid') as [Ig Ic]. cbv zeta in *.
  destruct (fst (srv_lookup s now sid')) as [c1 g1]. cbn [s_global s_custom] in *. split.
  - exact (dead_in_incl _ _ _ _ Ig Dg).
  - destruct c1 as [c1|], (s_custom s) as [c|]; try tauto. exact (dead_in_incl _ _ _ _ Ic Dc).
Qed.
Lemma srv_lookup_dead s now sid : dead s now sid -> snd (srv_lookup s now sid) = None.
Proof.
  intros [Dg Dc]. unfold srv_lookup. destruct (s_custom s) as [c|].
  - pose proof (lne_dead c now sid Dc) as L1. destruct (lookup_nonexpired c now sid) as [c' r1]. cbn [snd] in L1. subst r1.
    pose proof (lne_dead _ now sid Dg) as L2. destruct (lookup_nonexpired (s_global s) now sid) as [g' r2].
    cbn [snd] in *. subst r2. reflexivity.
  - pose proof (lne_dead _ now sid Dg) as L2. destruct (lookup_nonexpired (s_global s) now sid) as [g' r2].
    cbn [snd] in *. subst r2. reflexivity.
Qed.

Lemma dead_srv_store s now sid w en : e_id en <> sid -> dead s now sid -> dead (srv_store s w en) now sid.
Proof.
  intros Hne [Dg Dc]. unfold srv_store, dead. destruct w.
  - destruct (s_custom s) as [c|]; cbn [s_global s_custom]; split; auto using dead_in_store.
  - cbn [s_global s_custom]. split; auto using dead_in_store.
Qed.

(* ---- handle_resumption, case by case ---------------------------------------- *)
Lemma usable_key_inv e k :
  usable_key e = Some k ->
  exists ki, e_key e = Some ki /\ k_data ki = k /\ is_aesgcm (k_proto ki) = true /\ lenN k = 32%N.
Proof.
  unfold usable_key. destruct (e_key e) as [ki|]; [|discriminate].
  destruct (is_aesgcm (k_proto ki)) eqn:A; [|discriminate].
  destruct (lenN (k_data ki) =? 32)%N eqn:L; [|discriminate]. cbn [andb]. intro E. inversion E; subst.
  exists ki. apply N.eqb_eq in L. auto.
Qed.

Definition ok_neg (e : entry) (q : request) (wc : Z) : sneg :=
  {| n_command := match q_command q with Some c => c | None => wc end;
     n_sid := q_sid q; n_resumed := true; n_encryption := true;
     n_authentication := match pol_get e p_authenticated with Some b => b | None => false end;
     n_user := pol_get e p_user; n_valid := pol_get e p_valid |}.
Definition ok_reply (q : request) : reply := if q_want_reply q then ReplyAuthorized (q_sid q) else NoReply.
Definition ok_stream (k : bytes) (q : request) : sstream :=
  {| st_key := Some k; st_recv_dg := dg_of (req_bytes q); st_send_dg := dg_of (reply_bytes (ok_reply q)) |}.

Lemma handle_cases s now q wc :
  (exists s1 e w k,
      srv_lookup s now (q_sid q) = (s1, Some (e, w)) /\ is_client_side e = false /\ usable_key e = Some k /\
      handle_resumption s now q wc =
        (srv_store s1 w (renew_lease e now), ok_reply q, SOk (ok_neg e q wc) (ok_stream k q)))
  \/ (handle_resumption s now q wc =
        (fst (srv_lookup s now (q_sid q)), (if q_want_reply q then ReplySidNotFound else NoReply), SErr)
      /\ (snd (srv_lookup s now (q_sid q)) = None \/
          exists e w, snd (srv_lookup s now (q_sid q)) = Some (e, w) /\
                      (is_client_side e = true \/ usable_key e = None))).
Proof.
  unfold handle_resumption. destruct (srv_lookup s now (q_sid q)) as [s1 [[e w]|]] eqn:L.
  - destruct (is_client_side e) eqn:CS.
    + right. cbn [fst snd]. split; [reflexivity|]. right. exists e, w. auto.
    + destruct (usable_key e) as [k|] eqn:U.
      * left. exists s1, e, w, k. repeat split; auto.
      * right. cbn [fst snd]. split; [reflexivity|]. right. exists e, w. auto.
  - right. cbn [fst snd]. split; [reflexivity|]. left. reflexivity.
Qed.

(* C06_needs_key *)
Lemma needs_key s now q wc s' rep n st :
  handle_resumption s now q wc = (s', rep, SOk n st) ->
  exists e w k ki,
    (* the entry is present in one of the server's caches and not expired *)
    find_sess (q_sid q) (c_sessions (cache_at s w)) = Some e /\ is_expired e now = false /\
    (* it is not the client-side record of a session this process negotiated with another server *)
    is_client_side e = false /\
    (* it has a key, an AES-GCM key of 32 bytes *)
    e_key e = Some ki /\ k_data ki = k /\ is_aesgcm (k_proto ki) = true /\ lenN k = 32%N /\
    (* the stream is encrypting with exactly that key when the handshake returns *)
    st_key st = Some k /\ n_encryption n = true /\ n_resumed n = true /\
    (* every application frame the server then accepts was sealed under k for this connection *)
    (forall f p, srv_accept st f = Some p ->
       exists hdr iv, f = WSealed hdr iv (seal k iv (AadFirst (st_recv_dg st) (st_send_dg st) hdr) p)) /\
    (* and everything it sends is sealed under k: it opens under no other key *)
    (forall hdr iv p, exists c, srv_send st hdr iv p = WSealed hdr iv c /\
       forall k' n' a' p', open k' n' a' c = Some p' -> k' = k).
Proof.
  intro E. destruct (handle_cases s now q wc) as [(s1 & e & w & k & L & CS & U & E')|[E' _]]; [|congruence].
  rewrite E' in E. inversion E; subst.
  apply srv_lookup_some in L as (F & X & _). apply usable_key_inv in U as (ki & K1 & K2 & K3 & K4).
  exists e, w, k, ki. repeat split; auto.
  - intros f p A. unfold srv_accept in A. cbn [st_key ok_stream] in A.
    destruct f as [hdr pl|hdr iv c]; [discriminate|].
    apply open_only_seal in A. exists hdr, iv. rewrite A. reflexivity.
  - intros hdr iv p. unfold srv_send. cbn [st_key ok_stream]. eexists. split; [reflexivity|].
    intros k' n' a' p' O. apply open_only_seal in O. apply seal_inj in O as (-> & _). reflexivity.
Qed.

(* a session without a usable key is never resumed, whoever asks *)
Lemma keyless_never s now q wc e w :
  snd (srv_lookup s now (q_sid q)) = Some (e, w) -> usable_key e = None ->
  handle_resumption s now q wc =
    (fst (srv_lookup s now (q_sid q)), (if q_want_reply q then ReplySidNotFound else NoReply), SErr).
Proof.
  intros L U. destruct (handle_cases s now q wc) as [(s1 & e' & w' & k & L' & CS' & U' & _)|[E _]]; [|exact E].
  rewrite L' in L. cbn [snd] in L. inversion L; subst. congruence.
Qed.

(* nor is the client-side record of a session this process negotiated elsewhere *)
Lemma client_side_never s now q wc e w :
  snd (srv_lookup s now (q_sid q)) = Some (e, w) -> is_client_side e = true ->
  handle_resumption s now q wc =
    (fst (srv_lookup s now (q_sid q)), (if q_want_reply q then ReplySidNotFound else NoReply), SErr).
Proof.
  intros L U. destruct (handle_cases s now q wc) as [(s1 & e' & w' & k & L' & CS' & U' & _)|[E _]]; [|exact E].
  rewrite L' in L. cbn [snd] in L. inversion L; subst. congruence.
Qed.

(* ---- dead sessions stay dead -------------------------------------------------- *)
Lemma dead_resume s now q wc sid :
  dead s now sid -> q_sid q = sid ->
  handle_resumption s now q wc =
    (fst (srv_lookup s now sid), (if q_want_reply q then ReplySidNotFound else NoReply), SErr).
Proof.
  intros D <-. pose proof (srv_lookup_dead s now (q_sid q) D) as L.
  destruct (handle_cases s now q wc) as [(s1 & e & w & k & L' & _)|[E _]]; [|exact E].
  rewrite L' in L. discriminate.
Qed.

Lemma dead_inv_all l : forall s now sid, dead s now sid -> dead (inv_all s l) now sid.
Proof.
  unfold inv_all. induction l as [|[i w] l IH]; intros s now sid D; cbn [fold_left]; [exact D|].
  apply IH. cbn [fst snd]. apply dead_set; [exact D|].
  apply (dead_in_incl (cache_at s w)); [apply invalidate_incl|apply dead_cache_at; exact D].
Qed.

Lemma dead_step st ev sid :
  dead (fst st) (snd st) sid -> no_establish sid [ev] ->
  dead (fst (fst (sstep st ev))) (snd (fst (sstep st ev))) sid /\
  forall o, In o (snd (sstep st ev)) -> q_sid (fst (fst o)) = sid -> refused o.
Proof.
  destruct st as [s now]. cbn [fst snd]. intros D Hn.
  destruct ev as [en w|q wc|sid' w|dt|sid' w|w|q wc inv]; cbn [sstep].
  - cbn [fst snd]. split; [|intros o []]. apply dead_set; [exact D|].
    apply dead_in_store_new; [apply (Hn en w); left; reflexivity|apply dead_cache_at; exact D].
  - destruct (handle_resumption s now q wc) as [[s' rep] res] eqn:E. cbn [fst snd]. split.
    + destruct (handle_cases s now q wc) as [(s1 & e & w & k & L & CS & U & E')|[E' _]]; rewrite E' in E; inversion E; subst.
      * pose proof (dead_after_lookup s now sid (q_sid q) D) as D1. rewrite L in D1. cbn [fst] in D1.
        apply dead_srv_store; [|exact D1]. rewrite e_id_renew_lease.
        apply srv_lookup_some in L as (F & X & _). apply find_sess_some in F as [F1 F2].
        intro K. pose proof (dead_cache_at s now sid w D e F2 K). congruence.
      * apply dead_after_lookup. exact D.
    + intros o [<-|[]] Hs. cbn [fst] in Hs. rewrite (dead_resume s now q wc sid D Hs) in E.
      inversion E; subst. split; reflexivity.
  - destruct (lookup (cache_at s w) now sid') as [en|] eqn:L; cbn [fst snd]; (split; [|intros o []]); [|exact D].
    apply dead_set; [exact D|]. unfold lookup in L.
    destruct (find_sess sid' (c_sessions (cache_at s w))) as [e0|] eqn:F; [|discriminate].
    destruct (is_expired e0 now) eqn:X; [discriminate|]. inversion L; subst e0.
    apply find_sess_some in F as [F1 F2].
    apply dead_in_store; [|apply dead_cache_at; exact D].
    rewrite e_id_renew_lease. intro K. pose proof (dead_cache_at s now sid w D en F2 K). congruence.
  - cbn [fst snd]. split; [|intros o []]. destruct D as [Dg Dc]. split.
    + apply (dead_in_mono _ now); [lia|exact Dg].
    + destruct (s_custom s); [|exact I]. apply (dead_in_mono _ now); [lia|exact Dc].
  - cbn [fst snd]. split; [|intros o []]. apply dead_set; [exact D|].
    apply (dead_in_incl (cache_at s w)); [apply invalidate_incl|apply dead_cache_at; exact D].
  - cbn [fst snd]. split; [|intros o []]. apply dead_set; [exact D|].
    apply (dead_in_incl (cache_at s w)); [apply sweep_incl|apply dead_cache_at; exact D].
  - destruct (handle_resumption s now q wc) as [[s' rep] res] eqn:E. cbn [fst snd]. split.
    + apply dead_inv_all.
      destruct (handle_cases s now q wc) as [(s1 & e & w & k & L & CS & U & E')|[E' _]]; rewrite E' in E; inversion E; subst.
      * pose proof (dead_after_lookup s now sid (q_sid q) D) as D1. rewrite L in D1. cbn [fst] in D1.
        apply dead_srv_store; [|exact D1]. rewrite e_id_renew_lease.
        apply srv_lookup_some in L as (F & X & _). apply find_sess_some in F as [F1 F2].
        intro K. pose proof (dead_cache_at s now sid w D e F2 K). congruence.
      * apply dead_after_lookup. exact D.
    + intros o [<-|[]] Hs. cbn [fst] in Hs. rewrite (dead_resume s now q wc sid D Hs) in E.
      inversion E; subst. split; reflexivity.
Qed.

(* over every continuation of the history *)
Lemma dead_run h : forall st sid,
  dead (fst st) (snd st) sid -> no_establish sid h ->
  dead (fst (fst (srun st h))) (snd (fst (srun st h))) sid /\
  forall o, In o (snd (srun st h)) -> q_sid (fst (fst o)) = sid -> refused o.
Proof.
  induction h as [|ev h IH]; intros st sid D Hn.
  - cbn [srun fst snd]. split; [exact D|intros o []].
  - cbn [srun].
    assert (Hn1 : no_establish sid [ev]).
    { intros e w [E|[]]. apply (Hn e w). left. exact E. }
    assert (Hn2 : no_establish sid h).
    { intros e w Hin. apply (Hn e w). right. exact Hin. }
    destruct (dead_step st ev sid D Hn1) as [D1 R1].
    destruct (sstep st ev) as [st1 o1]. cbn [fst snd] in *.
    destruct (IH st1 sid D1 Hn2) as [D2 R2].
    destruct (srun st1 h) as [st2 o2]. cbn [fst snd] in *. split; [exact D2|].
    intros o Hin. apply in_app_or in Hin as [Hin|Hin]; auto.
Qed.

(* a session invalidated while a resumption of it is in flight (its reply being written) is dead:
   the resumption's cache effects all precede the reply, nothing re-inserts the entry afterwards *)
Lemma invalidate_during_reply s now q wc :
  dead (inv_all (fst (fst (handle_resumption s now q wc))) [(q_sid q, InGlobal); (q_sid q, InCustom)]) now (q_sid q).
Proof.
  destruct (handle_resumption s now q wc) as [[s' rep] res]. cbn [fst].
  unfold inv_all. cbn [fold_left fst snd].
  set (s1 := set_cache_at s' InGlobal (fst (invalidate (cache_at s' InGlobal) (q_sid q)))).
  assert (G1 : dead_in (s_global s1) now (q_sid q)).
  { unfold s1, set_cache_at, cache_at. cbn [s_global]. apply invalidate_dead_in. }
  assert (C1 : s_custom s1 = s_custom s') by reflexivity.
  unfold set_cache_at, cache_at, dead. destruct (s_custom s1) as [c|] eqn:Ec; cbn [s_global s_custom].
  - split; [exact G1|apply invalidate_dead_in].
  - split; [apply invalidate_dead_in|exact I].
Qed.

(* ---- the caches represent maps in every reachable state ------------------------ *)
Lemma sessions_ok_store c en : sessions_ok c -> sessions_ok (store c en).
Proof.
  unfold sessions_ok, store. cbn [c_sessions map]. intro N. constructor.
  - intro K. apply in_map_iff in K as (x & K1 & K2). unfold del_sess in K2. apply filter_In in K2 as [_ K2].
    unfold id_is in K2. rewrite K1, beq_refl in K2. discriminate.
  - unfold del_sess. induction (c_sessions c) as [|a l IH]; cbn [filter map]; [constructor|].
    inversion N; subst. destruct (negb (id_is (e_id en) a)); cbn [map]; auto.
    constructor; auto. intro K. apply in_map_iff in K as (x & K1 & K2). apply filter_In in K2 as [K2 _].
    apply H1. rewrite <- K1. apply in_map. exact K2.
Qed.
Lemma sessions_ok_store_new c en : sessions_ok c -> sessions_ok (store_new c en).
Proof. intro N. exact (sessions_ok_store {| c_sessions := c_sessions c; c_cmdmap := _ |} en N). Qed.
Lemma sessions_ok_filter f c cm : sessions_ok c -> sessions_ok {| c_sessions := filter f (c_sessions c); c_cmdmap := cm |}.
Proof.
  unfold sessions_ok. cbn [c_sessions]. induction (c_sessions c) as [|a l IH]; cbn [filter map]; intro N; [constructor|].
  inversion N; subst. destruct (f a); cbn [map]; auto. constructor; auto.
  intro K. apply in_map_iff in K as (x & K1 & K2). apply filter_In in K2 as [K2 _].
  apply H1. rewrite <- K1. apply in_map. exact K2.
Qed.
Lemma sessions_ok_invalidate c id : sessions_ok c -> sessions_ok (fst (invalidate c id)).
Proof.
  unfold invalidate. destruct (find_sess id (c_sessions c)); [|auto]. cbn [fst]. apply sessions_ok_filter.
Qed.
Lemma sessions_ok_sweep c now : sessions_ok c -> sessions_ok (fst (invalidate_expired c now)).
Proof. unfold invalidate_expired. cbn [fst]. apply sessions_ok_filter. Qed.
Lemma sessions_ok_lne c now id : sessions_ok c -> sessions_ok (fst (lookup_nonexpired c now id)).
Proof.
  unfold lookup_nonexpired. destruct (find_sess id (c_sessions c)) as [e|]; [|auto].
  destruct (is_expired e now); [|auto]. cbn [fst]. apply sessions_ok_filter.
Qed.

Definition srv_ok (s : srv) : Prop :=
  sessions_ok (s_global s) /\ match s_custom s with Some c => sessions_ok c | None => True end.
Lemma srv_ok_cache_at s w : srv_ok s -> sessions_ok (cache_at s w).
Proof. intros [G C]. unfold cache_at. destruct w; [|exact G]. destruct (s_custom s); [exact C|exact G]. Qed.
Lemma srv_ok_set s w c : srv_ok s -> sessions_ok c -> srv_ok (set_cache_at s w c).
Proof.
  intros [G C] N. unfold set_cache_at, srv_ok. destruct w.
  - destruct (s_custom s); cbn [s_global s_custom]; auto.
  - cbn [s_global s_custom]. auto.
Qed.
Lemma srv_ok_lookup s now sid : srv_ok s -> srv_ok (fst (srv_lookup s now sid)).
Proof.
  intros [G C]. unfold srv_lookup. destruct (s_custom s) as [c|].
  - pose proof (sessions_ok_lne c now sid C) as N1. destruct (lookup_nonexpired c now sid) as [c' [e1|]]; cbn [fst] in *.
    + split; cbn [s_global s_custom]; auto.
    + pose proof (sessions_ok_lne _ now sid G) as N2.
      destruct (lookup_nonexpired (s_global s) now sid) as [g' r2]; cbn [fst] in *. split; cbn [s_global s_custom]; auto.
  - pose proof (sessions_ok_lne _ now sid G) as N2.
    destruct (lookup_nonexpired (s_global s) now sid) as [g' r2]; cbn [fst] in *. split; cbn [s_global s_custom]; auto.
Qed.
Lemma srv_ok_store s w en : srv_ok s -> srv_ok (srv_store s w en).
Proof.
  intros [G C]. unfold srv_store, srv_ok. destruct w.
  - destruct (s_custom s); cbn [s_global s_custom]; auto using sessions_ok_store.
  - cbn [s_global s_custom]. auto using sessions_ok_store.
Qed.
Lemma srv_ok_inv_all l : forall s, srv_ok s -> srv_ok (inv_all s l).
Proof.
  unfold inv_all. induction l as [|[i w] l IH]; intros s K; cbn [fold_left]; [exact K|].
  apply IH. cbn [fst snd]. apply srv_ok_set; [exact K|]. apply sessions_ok_invalidate, srv_ok_cache_at, K.
Qed.
Lemma srv_ok_step st ev : srv_ok (fst st) -> srv_ok (fst (fst (sstep st ev))).
Proof.
  destruct st as [s now]. cbn [fst]. intro K. destruct ev as [en w|q wc|sid' w|dt|sid' w|w|q wc inv]; cbn [sstep].
  - cbn [fst]. apply srv_ok_set; [exact K|]. apply sessions_ok_store_new, srv_ok_cache_at, K.
  - destruct (handle_cases s now q wc) as [(s1 & e & w & k & L & CS & U & E')|[E' _]]; rewrite E'; cbn [fst].
    + apply srv_ok_store. pose proof (srv_ok_lookup s now (q_sid q) K) as K1. rewrite L in K1. exact K1.
    + apply srv_ok_lookup. exact K.
  - destruct (lookup (cache_at s w) now sid'); cbn [fst]; [|exact K].
    apply srv_ok_set; [exact K|]. apply sessions_ok_store, srv_ok_cache_at, K.
  - exact K.
  - cbn [fst]. apply srv_ok_set; [exact K|]. apply sessions_ok_invalidate, srv_ok_cache_at, K.
  - cbn [fst]. apply srv_ok_set; [exact K|]. apply sessions_ok_sweep, srv_ok_cache_at, K.
  - destruct (handle_resumption s now q wc) as [[s' rep] res] eqn:E. cbn [fst]. apply srv_ok_inv_all.
    destruct (handle_cases s now q wc) as [(s1 & e & w & k & L & CS & U & E')|[E' _]]; rewrite E' in E; inversion E; subst.
    + apply srv_ok_store. pose proof (srv_ok_lookup s now (q_sid q) K) as K1. rewrite L in K1. exact K1.
    + apply srv_ok_lookup. exact K.
Qed.
Lemma srv_ok_run h : forall st, srv_ok (fst st) -> srv_ok (fst (fst (srun st h))).
Proof.
  induction h as [|ev h IH]; intros st K; cbn [srun]; [exact K|].
  pose proof (srv_ok_step st ev K) as K1. destruct (sstep st ev) as [st1 o1]. cbn [fst] in K1.
  pose proof (IH st1 K1) as K2. destruct (srun st1 h) as [st2 o2]. exact K2.
Qed.

(* an expired session is dead, in a server whose caches represent maps *)
Lemma expired_dead s now sid :
  srv_ok s ->
  (forall w e, find_sess sid (c_sessions (cache_at s w)) = Some e -> is_expired e now = true) ->
  dead s now sid.
Proof.
  intros [G C] Hx. split.
  - destruct (find_sess sid (c_sessions (s_global s))) as [e|] eqn:F.
    + apply (expired_dead_in _ _ _ e G F). apply (Hx InGlobal). exact F.
    + apply absent_dead_in. exact F.
  - destruct (s_custom s) as [c|] eqn:Ec; [|exact I].
    destruct (find_sess sid (c_sessions c)) as [e|] eqn:F.
    + apply (expired_dead_in _ _ _ e C F). apply (Hx InCustom). unfold cache_at. rewrite Ec. exact F.
    + apply absent_dead_in. exact F.
Qed.

(* ---- same session on both sides ------------------------------------------------ *)
Lemma same_session s now q wc s' rep n st c ce p :
  handle_resumption s now q wc = (s', rep, SOk n st) ->
  exists e w k,
    find_sess (q_sid q) (c_sessions (cache_at s w)) = Some e /\ usable_key e = Some k /\
    st_key st = Some k /\
    n_sid n = q_sid q /\
    n_user n = pol_get e p_user /\
    n_authentication n = (match pol_get e p_authenticated with Some b => b | None => false end) /\
    n_valid n = pol_get e p_valid /\
    n_command n = (match q_command q with Some cm => cm | None => wc end) /\
    (* a client whose cached copy holds the same key and whose request is answered AUTHORIZED
       installs that very key *)
    (e_key ce = e_key e -> on_resume p (e_id ce) = RAuthorized ->
       snd (resume_session c now ce p) = OResumed (e_id ce) (e_key ce) (pol_get ce p_user)
       /\ usable_key ce = Some k).
Proof.
  intro E. destruct (handle_cases s now q wc) as [(s1 & e & w & k & L & CS & U & E')|[E' _]]; [|congruence].
  rewrite E' in E. inversion E; subst. apply srv_lookup_some in L as (F & X & _).
  exists e, w, k. repeat split; auto.
  - unfold resume_session. rewrite H0. cbn [snd]. unfold pol_get. reflexivity.
  - unfold usable_key in *. rewrite H. exact U.
Qed.

(* ---- replay --------------------------------------------------------------------- *)
(* what an accepted frame must have been *)
Lemma accept_inv k q f p :
  srv_accept (ok_stream k q) f = Some p ->
  exists hdr iv, f = client_frame k q (ok_reply q) hdr iv p.
Proof.
  unfold srv_accept. cbn [st_key ok_stream]. destruct f as [hdr pl|hdr iv c]; [discriminate|].
  intro A. apply open_only_seal in A. exists hdr, iv. unfold client_frame. rewrite A. reflexivity.
Qed.

Lemma req_bytes_nonempty q : req_bytes q <> [].
Proof. unfold req_bytes. cbn [be_enc app]. discriminate. Qed.
Lemma dg_of_inj a b : a <> [] -> dg_of a = dg_of b -> a = b.
Proof.
  intros Ha E. destruct a as [|x a]; [contradiction|]. destruct b as [|y b]; [discriminate|].
  cbn [dg_of] in E. apply H_inj in E. exact E.
Qed.

(* a frame recorded from a legitimate connection (key k', request q', reply rep') is
   accepted on another resumed connection only if it was made with the same key for a
   connection whose request and reply were byte-identical; the payload is the recorded one *)
Lemma replay_only_same_transcript k q k' q' rep' hdr iv p' p :
  srv_accept (ok_stream k q) (client_frame k' q' rep' hdr iv p') = Some p ->
  k' = k /\ req_bytes q' = req_bytes q /\ dg_of (reply_bytes rep') = dg_of (reply_bytes (ok_reply q)) /\ p' = p.
Proof.
  intro A. apply accept_inv in A as (hdr2 & iv2 & A). unfold client_frame, seal in A.
  remember (dg_of (req_bytes q')) as a1 eqn:Ea1. remember (dg_of (req_bytes q)) as a2 eqn:Ea2.
  remember (dg_of (reply_bytes rep')) as b1 eqn:Eb1. remember (dg_of (reply_bytes (ok_reply q))) as b2 eqn:Eb2.
  inversion A. subst k' p' a2 b2. repeat split; auto.
  apply dg_of_inj; [apply req_bytes_nonempty|congruence].
Qed.

(* without the key nothing is accepted: neither cleartext nor anything sealed under another key *)
Lemma no_key_no_accept k q f :
  (forall hdr iv c, f = WSealed hdr iv c -> forall k' n a p, c = Seal k' n a p -> k' <> k) ->
  srv_accept (ok_stream k q) f = None.
Proof.
  intro Hf. destruct (srv_accept (ok_stream k q) f) as [p|] eqn:A; [|reflexivity].
  apply accept_inv in A as (hdr & iv & ->). unfold client_frame in Hf.
  exfalso. eapply (Hf hdr iv _ eq_refl). reflexivity. reflexivity.
Qed.

(* the full statement fails: the recorded first frame of one resumed connection is
   accepted on the next resumed connection of the same session *)
Definition rp_key : bytes := repeat x2a 32.
Definition rp_sid : str := [x53; x31].
Definition rp_entry : entry :=
  server_entry 0 rp_sid [x63] [] (Some {| k_data := rp_key; k_proto := s_AES |}) true (Some [x75]) None 2100 950.
Definition rp_srv : srv := {| s_custom := None; s_global := store empty_cache rp_entry |}.
Definition rp_req : request := {| q_sid := rp_sid; q_want_reply := true; q_command := Some 421 |}.
Definition rp_frame : wframe := client_frame rp_key rp_req (ok_reply rp_req) [x01] (repeat x07 16) [x68; x69].

Lemma replay_accepted :
  exists s1 s2 rep1 rep2 n1 n2 st1 st2,
    handle_resumption rp_srv 10 rp_req 60010 = (s1, rep1, SOk n1 st1) /\
    srv_accept st1 rp_frame = Some [x68; x69] /\              (* connection 1: the legitimate client's frame *)
    handle_resumption s1 20 rp_req 60010 = (s2, rep2, SOk n2 st2) /\
    srv_accept st2 rp_frame = Some [x68; x69].                (* connection 2: the same bytes, replayed *)
Proof.
  destruct (handle_resumption rp_srv 10 rp_req 60010) as [[s1 rep1] r1] eqn:E1.
  vm_compute in E1. inversion E1; subst. clear E1.
  do 2 eexists. do 2 eexists. do 2 eexists. do 2 eexists.
  split; [reflexivity|]. split; [vm_compute; reflexivity|]. split; [vm_compute; reflexivity|].
  vm_compute. reflexivity.
Qed.
