(* Proofs/C16Cache.v — an import (or a mint) replaces whatever the cache held under the
   session id: after importing the minted text into ANY cache, the entry found under the
   session id is the freshly derived one. *)
From Coq Require Import List NArith ZArith Lia Bool.
From Cedar Require Import Lib.Bytes Lib.SymC16 Model.ClaimId Proofs.C16Str Proofs.C16Main.
Import ListNotations.

Lemma cache_lookup_store e c : cache_lookup (e_id e) (cache_store e c) = Some e.
Proof.
  induction c as [|x c IH]; simpl.
  - rewrite bytes_eqb_refl. reflexivity.
  - destruct (bytes_eqb (e_id x) (e_id e)) eqn:E; simpl.
    + rewrite bytes_eqb_refl. reflexivity.
    + rewrite E. exact IH.
Qed.

Lemma cache_lookup_store_other e c id :
  e_id e <> id -> cache_lookup id (cache_store e c) = cache_lookup id c.
Proof.
  intro H. induction c as [|x c IH]; simpl.
  - rewrite (bytes_eqb_neq _ _ H). reflexivity.
  - destruct (bytes_eqb (e_id x) (e_id e)) eqn:E; simpl.
    + apply bytes_eqb_eq in E. rewrite E. rewrite (bytes_eqb_neq _ _ H). reflexivity.
    + rewrite IH. reflexivity.
Qed.

Lemma import_claim_id claim io sid e cmds :
  import_claim claim io = Ok (sid, e, cmds) -> e_id e = sid.
Proof.
  unfold import_claim. intro H.
  destruct (is_nil (sec_session_id (parse_strict claim))); [discriminate|].
  destruct (is_nil (c_key (parse_strict claim))); [discriminate|].
  destruct (register _ _ _ _ _ _ _ _ _) as [[e1 c1]| |] eqn:Er; try discriminate.
  inversion H; subst.
  destruct (register_inv _ _ _ _ _ _ _ _ _ _ _ Er) as (p & _ & _ & _ & -> & _). reflexivity.
Qed.

Lemma import_ft_id claim io sid e cmds :
  import_ft claim io = Ok (sid, e, cmds) -> e_id e = sid.
Proof.
  unfold import_ft. intro H.
  destruct (is_nil (sec_session_id (parse_strict claim))); [discriminate|].
  destruct (is_nil (c_key (parse_strict claim))); [discriminate|].
  destruct (derive_session_key _ _); try discriminate. inversion H; subst. reflexivity.
Qed.

(* whatever the cache held before (a stale or forged entry under the same id included) *)
Lemma import_overwrites (ft : bool) (c : cstate) claim io sid e cmds :
  (if ft then import_ft claim io else import_claim claim io) = Ok (sid, e, cmds) ->
  import_into ft c claim io = (cstate_file e cmds c, Ok (sid, e, cmds))
  /\ cache_lookup sid (cs_entries (fst (import_into ft c claim io))) = Some e.
Proof.
  intro H. unfold import_into. rewrite H. split; [reflexivity|]. cbn [fst cstate_file cs_entries].
  assert (e_id e = sid) as <-.
  { destruct ft; [eapply import_ft_id|eapply import_claim_id]; exact H. }
  apply cache_lookup_store.
Qed.

Lemma mint_overwrites c o secret now m :
  mint o secret now = Ok m ->
  cache_lookup (m_sid m) (cs_entries (fst (mint_into c o secret now))) = Some (m_entry m).
Proof.
  intro H. unfold mint_into. rewrite H. cbn [fst cstate_file cs_entries].
  destruct (mint_inv _ _ _ _ H) as (info & e & cmds & _ & Hr & -> & _). cbn [m_sid m_entry].
  destruct (register_inv _ _ _ _ _ _ _ _ _ _ _ Hr) as (p & _ & _ & _ & -> & _).
  apply (cache_lookup_store (registered _ _ _ _ _ _ _)).
Qed.

(* C16_same_session over caches with a history: import the minted text into ANY cache and
   the entry filed under the session id agrees with the minter's *)
Lemma same_session_any_cache o secret now m io c :
  secret_ok secret -> mint o secret now = Ok m ->
  exists e, cache_lookup (m_sid m) (cs_entries (fst (import_into false c (m_claim m) io))) = Some e
    /\ e_key e = e_key (m_entry m) /\ e_proto e = e_proto (m_entry m)
    /\ (forall n, n <> A_User -> plookup n (e_policy e) = plookup n (e_policy (m_entry m)))
    /\ (io_duration_ns io = mo_lifetime_ns o -> e_expiry e = e_expiry (m_entry m))
    /\ (forall s, e_expiry (m_entry m) = ExpAbs s -> e_expiry e = ExpAbs s).
Proof.
  intros Hs Hm.
  destruct (same_session o secret now m io Hs Hm)
    as (e & cmds & Hi & _ & _ & Hk & _ & Hp & Hpol & Hx1 & Hx2 & _).
  exists e. split.
  - apply (import_overwrites false c _ _ _ _ _ Hi).
  - repeat split; assumption.
Qed.

(* the command map after (re)filing an id: exactly the new mappings point at the id; mappings of
   other ids survive unless the new import claims the same {tag,addr,<cmd>} key *)
Lemma cmds_after_file e cmds s k :
  In (k, e_id e) (cs_cmds (cstate_file e cmds s)) <-> In k cmds.
Proof.
  unfold cstate_file. cbn [cs_cmds]. rewrite in_app_iff, in_map_iff, filter_In. split.
  - intros [[k' [E Hin]]|[_ H]].
    + inversion E; subst. exact Hin.
    + cbn [snd] in H. rewrite bytes_eqb_refl in H. discriminate.
  - intro H. left. exists k. split; [reflexivity|exact H].
Qed.

Lemma other_cmds_survive e cmds s k id :
  id <> e_id e -> existsb (bytes_eqb k) cmds = false ->
  (In (k, id) (cs_cmds (cstate_file e cmds s)) <-> In (k, id) (cs_cmds s)).
Proof.
  intros Hid Hk. unfold cstate_file. cbn [cs_cmds]. rewrite in_app_iff, in_map_iff, filter_In. split.
  - intros [[k' [E _]]|[H _]]; [inversion E; subst; congruence|exact H].
  - intro H. right. split; [exact H|]. cbn [fst snd]. rewrite Hk.
    rewrite (bytes_eqb_neq id (e_id e)) by exact Hid. reflexivity.
Qed.
