(* Proofs/C13watchrt.v — Model/Watch.v round trips: base64 decoding inverts encoding for every
   byte string, hence decodeBytes . encodeBytes, DecodeRequest . EncodeRequest and
   DecodeHeader . EncodeHeader are the identity. *)
From Coq Require Import List NArith ZArith Lia Bool.
From Coq Require Import ZifyBool ZifyNat ZifyN.
From Cedar Require Import Lib.Bytes Model.Decode Model.Watch Proofs.C13 Proofs.C13watch.
Import ListNotations.
Local Open Scope N_scope.

Ltac Zify.zify_post_hook ::= Z.to_euclidean_division_equations.

(* ---------- the alphabet -------------------------------------------------------------- *)
Lemma b64_val_char v : v < 64 -> b64_val (b64_char v) = Some v.
Proof.
  intro H.
  assert (A : forallb (fun v => match b64_val (b64_char v) with Some w => w =? v | None => false end)
                      (map N.of_nat (seq 0 64)) = true) by (vm_compute; reflexivity).
  rewrite forallb_forall in A. specialize (A v).
  assert (I : In v (map N.of_nat (seq 0 64))).
  { rewrite <- (N2Nat.id v). apply in_map. apply in_seq. lia. }
  specialize (A I). destruct (b64_val (b64_char v)) as [w|]; [|discriminate].
  apply N.eqb_eq in A. subst. reflexivity.
Qed.

(* ---------- the 24-bit value ------------------------------------------------------------- *)
Lemma sextets v : v < 16777216 ->
  v / 262144 < 64 /\
  ((v / 262144 * 64 + (v / 4096) mod 64) * 64 + (v / 64) mod 64) * 64 + v mod 64 = v.
Proof. intro H. split; lia. Qed.

Lemma q_bytes_3 x y z :
  let v := b2n x * 65536 + b2n y * 256 + b2n z in
  q_bytes (v / 262144) ((v / 4096) mod 64) ((v / 64) mod 64) (v mod 64) = [x; y; z].
Proof.
  intro v. pose proof (b2n_lt x). pose proof (b2n_lt y). pose proof (b2n_lt z).
  assert (Hv : v < 16777216) by (subst v; lia).
  destruct (sextets v Hv) as [_ E]. unfold q_bytes. cbv zeta. rewrite E.
  replace (v / 65536) with (b2n x) by (subst v; lia).
  replace ((v / 256) mod 256) with (b2n y) by (subst v; lia).
  replace (v mod 256) with (b2n z) by (subst v; lia).
  rewrite !n2b_b2n. reflexivity.
Qed.
Lemma q_bytes_2 x y :
  let v := b2n x * 65536 + b2n y * 256 in
  firstn 2 (q_bytes (v / 262144) ((v / 4096) mod 64) ((v / 64) mod 64) 0) = [x; y].
Proof.
  intro v. pose proof (b2n_lt x). pose proof (b2n_lt y).
  assert (Hv : v < 16777216) by (subst v; lia).
  destruct (sextets v Hv) as [_ E]. assert (Z0 : v mod 64 = 0) by (subst v; lia). rewrite Z0 in E.
  unfold q_bytes. cbv zeta. rewrite E. cbn [firstn].
  replace (v / 65536) with (b2n x) by (subst v; lia).
  replace ((v / 256) mod 256) with (b2n y) by (subst v; lia).
  rewrite !n2b_b2n. reflexivity.
Qed.
Lemma q_bytes_1 x :
  let v := b2n x * 65536 in
  firstn 1 (q_bytes (v / 262144) ((v / 4096) mod 64) 0 0) = [x].
Proof.
  intro v. pose proof (b2n_lt x).
  assert (Hv : v < 16777216) by (subst v; lia).
  unfold q_bytes. cbv zeta. cbn [firstn].
  replace (((v / 262144 * 64 + (v / 4096) mod 64) * 64 + 0) * 64 + 0) with v by (subst v; lia).
  replace (v / 65536) with (b2n x) by (subst v; lia).
  rewrite n2b_b2n. reflexivity.
Qed.

(* ---------- one quantum of encoded text ------------------------------------------------------ *)
Lemma quantum_full a b c d r : a < 64 -> b < 64 -> c < 64 -> d < 64 ->
  quantum (b64_char a :: b64_char b :: b64_char c :: b64_char d :: r) [] = QOut (q_bytes a b c d) r false.
Proof.
  intros Ha Hb Hc Hd.
  cbn [quantum]. rewrite (b64_val_char a Ha).
  cbn [quantum]. rewrite (b64_val_char b Hb).
  cbn [quantum]. rewrite (b64_val_char c Hc).
  cbn [quantum]. rewrite (b64_val_char d Hd). reflexivity.
Qed.
Lemma quantum_pad1 a b c : a < 64 -> b < 64 -> c < 64 ->
  quantum [b64_char a; b64_char b; b64_char c; x3d] [] = QOut (firstn 2 (q_bytes a b c 0)) [] false.
Proof.
  intros Ha Hb Hc.
  cbn [quantum]. rewrite (b64_val_char a Ha).
  cbn [quantum]. rewrite (b64_val_char b Hb).
  cbn [quantum]. rewrite (b64_val_char c Hc).
  cbn [quantum]. reflexivity.
Qed.
Lemma quantum_pad2 a b : a < 64 -> b < 64 ->
  quantum [b64_char a; b64_char b; x3d; x3d] [] = QOut (firstn 1 (q_bytes a b 0 0)) [] false.
Proof.
  intros Ha Hb.
  cbn [quantum]. rewrite (b64_val_char a Ha).
  cbn [quantum]. rewrite (b64_val_char b Hb).
  cbn [quantum]. reflexivity.
Qed.

(* ---------- the loop ------------------------------------------------------------------------------ *)
Lemma b64_loop_step f s n cap acc out rest :
  s <> [] -> quantum s [] = QOut out rest false -> n + lenN out <= cap ->
  b64_loop (S f) s n cap acc = b64_loop f rest (n + lenN out) cap (rev_append out acc).
Proof.
  destruct s as [|c s']; [congruence|]. intros _ Q H. cbn [b64_loop]. rewrite Q.
  destruct (N.ltb_spec cap (n + lenN out)); [lia|reflexivity].
Qed.

Lemma rev'_rev_append (out acc : bytes) : rev' (rev_append out acc) = rev' acc ++ out.
Proof.
  unfold rev'. rewrite !rev_append_rev, !app_nil_r, rev_app_distr, rev_involutive. reflexivity.
Qed.

Lemma list3_ind (P : bytes -> Prop) :
  P [] -> (forall x, P [x]) -> (forall x y, P [x; y]) -> (forall x y z r, P r -> P (x :: y :: z :: r)) ->
  forall b, P b.
Proof.
  intros H0 H1 H2 H3. fix IH 1. intros [|x [|y [|z r]]]; [exact H0|apply H1|apply H2|apply H3; apply IH].
Qed.

Lemma mod64_lt v : v mod 64 < 64.
Proof. apply N.mod_lt. discriminate. Qed.

Lemma b64_loop_encode : forall b fuel n cap acc,
  (length (b64_encode b) < fuel)%nat -> n + lenN b <= cap ->
  b64_loop fuel (b64_encode b) n cap acc = B64Ok (rev' acc ++ b).
Proof.
  induction b as [|x|x y|x y z r IH] using list3_ind; intros fuel n cap acc Hf Hc.
  - cbn [b64_encode] in *. destruct fuel as [|f]; [cbn in Hf; lia|]. cbn [b64_loop]. rewrite app_nil_r. reflexivity.
  - cbn [b64_encode length] in *. destruct fuel as [|[|f]]; try lia.
    pose proof (b2n_lt x). set (v := b2n x * 65536) in *.
    assert (Hv : v < 16777216) by (subst v; lia). destruct (sextets v Hv) as [Ha _].
    rewrite (b64_loop_step _ _ _ _ _ (firstn 1 (q_bytes (v / 262144) ((v / 4096) mod 64) 0 0)) []);
      [|discriminate|apply quantum_pad2; [exact Ha|apply mod64_lt]|subst v; rewrite q_bytes_1; rewrite !lenN_cons, lenN_nil in *; lia].
    subst v. rewrite q_bytes_1. cbn [b64_loop]. apply f_equal. apply rev'_rev_append.
  - cbn [b64_encode length] in *. destruct fuel as [|[|f]]; try lia.
    pose proof (b2n_lt x). pose proof (b2n_lt y). set (v := b2n x * 65536 + b2n y * 256) in *.
    assert (Hv : v < 16777216) by (subst v; lia). destruct (sextets v Hv) as [Ha _].
    rewrite (b64_loop_step _ _ _ _ _ (firstn 2 (q_bytes (v / 262144) ((v / 4096) mod 64) ((v / 64) mod 64) 0)) []);
      [|discriminate|apply quantum_pad1; [exact Ha|apply mod64_lt|apply mod64_lt]|subst v; rewrite q_bytes_2; rewrite !lenN_cons, lenN_nil in *; lia].
    subst v. rewrite q_bytes_2. cbn [b64_loop]. apply f_equal. apply rev'_rev_append.
  - change (b64_encode (x :: y :: z :: r)) with
      (let v := b2n x * 65536 + b2n y * 256 + b2n z in
       b64_char (v / 262144) :: b64_char ((v / 4096) mod 64) :: b64_char ((v / 64) mod 64) :: b64_char (v mod 64)
       :: b64_encode r) in *.
    cbv zeta in *. cbn [length] in Hf. destruct fuel as [|f]; [lia|].
    pose proof (b2n_lt x). pose proof (b2n_lt y). pose proof (b2n_lt z).
    set (v := b2n x * 65536 + b2n y * 256 + b2n z) in *.
    assert (Hv : v < 16777216) by (subst v; lia). destruct (sextets v Hv) as [Ha _].
    rewrite !lenN_cons in Hc.
    rewrite (b64_loop_step _ _ _ _ _ (q_bytes (v / 262144) ((v / 4096) mod 64) ((v / 64) mod 64) (v mod 64)) (b64_encode r));
      [|discriminate|apply quantum_full; [exact Ha|apply mod64_lt|apply mod64_lt|apply mod64_lt]|rewrite q_bytes_len; lia].
    subst v. rewrite q_bytes_3. rewrite IH; [|lia|rewrite !lenN_cons, lenN_nil; lia].
    apply f_equal. rewrite rev'_rev_append, <- app_assoc. reflexivity.
Qed.

(* the encoding of b has 4k characters with |b| <= 3k *)
Lemma b64_encode_len : forall b, exists k, lenN (b64_encode b) = 4 * k /\ lenN b <= 3 * k /\ (b <> [] -> 1 <= k).
Proof.
  induction b as [|x|x y|x y z r IH] using list3_ind.
  - exists 0. cbn. repeat split; try lia. congruence.
  - exists 1. cbn [b64_encode]. rewrite !lenN_cons, lenN_nil. repeat split; lia.
  - exists 1. cbn [b64_encode]. rewrite !lenN_cons, lenN_nil. repeat split; lia.
  - destruct IH as (k & E & L & _). exists (k + 1).
    change (b64_encode (x :: y :: z :: r)) with
      (let v := b2n x * 65536 + b2n y * 256 + b2n z in
       b64_char (v / 262144) :: b64_char ((v / 4096) mod 64) :: b64_char ((v / 64) mod 64) :: b64_char (v mod 64)
       :: b64_encode r).
    cbv zeta. rewrite !lenN_cons, E. repeat split; lia.
Qed.

Theorem b64_round_trip b : b64_decode (b64_encode b) = B64Ok b.
Proof.
  unfold b64_decode. destruct (b64_encode_len b) as (k & E & L & _).
  rewrite (b64_loop_encode b _ 0 (b64_cap (b64_encode b)) []); [reflexivity|lia|].
  unfold b64_cap. rewrite E. replace (4 * k / 4) with k by lia. lia.
Qed.

Theorem decode_encode_bytes b : decode_bytes (encode_bytes b) = B64Ok b.
Proof.
  destruct b as [|x r]; [reflexivity|]. unfold encode_bytes.
  destruct (b64_encode_len (x :: r)) as (k & E & _ & K). specialize (K ltac:(discriminate)).
  pose proof (b64_round_trip (x :: r)) as R.
  destruct (b64_encode (x :: r)) as [|c s]; [rewrite lenN_nil in E; lia|]. exact R.
Qed.

Theorem watch_request_round_trip t c cur :
  t <> [] -> decode_request (encode_request t c cur) = WOk (t, c, cur).
Proof.
  intro Ht. unfold decode_request, encode_request. cbn [wa_type wa_constraint wa_cursor opt_str].
  destruct t as [|t0 t']; [congruence|]. rewrite decode_encode_bytes.
  destruct c; reflexivity.
Qed.

Lemma decode_opt_encode o : decode_opt (option_map encode_bytes o) = B64Ok (opt_str o).
Proof.
  destruct o as [b|]; [|reflexivity]. cbn [option_map opt_str]. unfold decode_opt.
  pose proof (decode_encode_bytes b) as R. destruct (encode_bytes b) as [|c s] eqn:E; [|exact R].
  destruct b as [|x r]; [reflexivity|]. cbn [decode_bytes] in R. exact R.
Qed.

Theorem watch_header_round_trip k key cur :
  decode_header (encode_header k key cur) = WOk (k, opt_str key, opt_str cur).
Proof.
  unfold decode_header, encode_header. cbn [wh_kind wh_key wh_cursor].
  rewrite !decode_opt_encode. reflexivity.
Qed.
