(* Proofs/C14Double.v — doubles (Model/Double.v, Flocq binary64).
   Kept apart from the integer/string development: Flocq's operations carry proofs
   about real numbers, so everything here depends on the axioms of Coq's Reals. *)
From Coq Require Import List NArith ZArith Lia Bool.
From Flocq Require Import Core.Zaux IEEE754.BinarySingleNaN.
From Cedar Require Import Lib.Bytes gen.Consts Model.Msg Model.Double
     Proofs.C14Reader Proofs.C14Writer Proofs.C14Layout Proofs.C14Roundtrip.
Import ListNotations.
Local Open Scope Z_scope.

(* side condition on the regenerated constant: the format's 2^31 - 1 *)
Lemma FracConst_value : Z.of_N FracConst = 2 ^ 31 - 1.
Proof. reflexivity. Qed.

Lemma wrap32_range z : - 2 ^ 31 <= wrap32 z < 2 ^ 31.
Proof. unfold wrap32. pose proof (Z.mod_pos_bound (z + 2 ^ 31) (2 ^ 32) ltac:(lia)). lia. Qed.

Lemma go_int32_range x : - 2 ^ 31 <= go_int32_of_float x < 2 ^ 31.
Proof.
  unfold go_int32_of_float, int32_indefinite.
  destruct x; try lia;
    match goal with |- context [if ?c then _ else _] => destruct c eqn:E end; lia.
Qed.

(* both integers PutDouble writes are int32 values, for EVERY 64-bit pattern *)
Lemma double_ints_range d :
  - 2 ^ 31 <= fst (double_ints d) < 2 ^ 31 /\ - 2 ^ 31 <= snd (double_ints d) < 2 ^ 31.
Proof.
  unfold double_ints. destruct (go_frexp d) as [fr e]. cbn [fst snd].
  split; [apply go_int32_range|apply wrap32_range].
Qed.

(* PutDouble = PutInt32 fracInt; PutInt32 exp: sixteen bytes, two 8-byte big-endian
   two's-complement integers in the reference format of Proofs/C14Layout.v *)
Theorem double_layout (w : writer) (bits : Z) :
  let fi := fst (double_ints (of_bits bits)) in
  let e := snd (double_ints (of_bits bits)) in
  content (put_double w bits) = content w ++ lay_int fi ++ lay_int e /\
  - 2 ^ 31 <= fi < 2 ^ 31 /\ - 2 ^ 31 <= e < 2 ^ 31.
Proof.
  intros fi e. destruct (double_ints_range (of_bits bits)) as [R1 R2]. fold fi in R1. fold e in R2.
  split; [|auto].
  unfold put_double. destruct (double_ints (of_bits bits)) as [a b] eqn:D.
  cbn [fst snd] in fi, e. subst fi e.
  rewrite !content_put_int, <- app_assoc, !enc_int_layout by lia. reflexivity.
Qed.

(* GetDouble reads exactly those two integers, at any framing: it is the flat decoder
   "two GetInt32, then double_of_ints" on the remaining bytes *)
Definition flat_double (rem : bytes) : bytes * mres Z :=
  match mapr wrap32 (flat_int rem) with
  | (rem1, MOk fi) =>
      match mapr wrap32 (flat_int rem1) with
      | (rem2, MOk e) => (rem2, MOk (to_bits (double_of_ints fi e)))
      | (rem2, MErr er) => (rem2, MErr er)
      | (rem2, MPanic) => (rem2, MPanic)
      end
  | (rem1, MErr er) => (rem1, MErr er)
  | (rem1, MPanic) => (rem1, MPanic)
  end.

Theorem get_double_refines r : wf r -> refines (get_double r) (flat_double (remaining r)).
Proof.
  intro W. pose proof (get_int32_refines r W) as H.
  unfold get_double, flat_double.
  destruct (get_int32 r) as [r1 [fi|er|]], (mapr wrap32 (flat_int (remaining r))) as [rem1 [fi'|er'|]];
    destruct H as (W1 & R1 & V1); cbn [fst snd] in *; try discriminate.
  - inversion V1; subst fi' rem1.
    pose proof (get_int32_refines r1 W1) as H2.
    destruct (get_int32 r1) as [r2 [e|er|]], (mapr wrap32 (flat_int (remaining r1))) as [rem2 [e'|er'|]];
      destruct H2 as (W2 & R2 & V2); cbn [fst snd] in *; try discriminate.
    + inversion V2; subst. unfold refines; cbn. auto.
    + inversion V2; subst. unfold refines; cbn. auto.
    + unfold refines; cbn. auto.
  - inversion V1; subst. unfold refines; cbn. auto.
  - unfold refines; cbn. auto.
Qed.

(* hence GetDouble is cut independent too *)
Theorem get_double_cut_independent r1 r2 :
  wf r1 -> wf r2 -> remaining r1 = remaining r2 ->
  snd (get_double r1) = snd (get_double r2) /\
  remaining (fst (get_double r1)) = remaining (fst (get_double r2)).
Proof.
  intros W1 W2 E.
  destruct (get_double_refines r1 W1) as (_ & A1 & B1), (get_double_refines r2 W2) as (_ & A2 & B2).
  rewrite A1, A2, B1, B2, E. auto.
Qed.

(* reading back what PutDouble wrote, through any honest framing, yields
   double_of_ints applied to exactly the integers double_ints produced *)
Theorem double_roundtrip_ints (bits : Z) (fs : list mframe) :
  frames_ok false fs ->
  concat (map fst fs) = concat (map fst (w_out (finish (put_double writer_init bits)))) ->
  snd (get_double (reader_of fs)) =
  MOk (to_bits (double_of_ints (fst (double_ints (of_bits bits))) (snd (double_ints (of_bits bits))))).
Proof.
  intros F E.
  destruct (get_double_refines (reader_of fs) F) as (_ & _ & V). rewrite V.
  rewrite remaining_reader_of, E, finish_out.
  destruct (double_layout writer_init bits) as (C & R1 & R2).
  rewrite C, content_init. cbn [app].
  set (fi := fst (double_ints (of_bits bits))) in *. set (e := snd (double_ints (of_bits bits))) in *.
  rewrite <- !enc_int_layout by lia.
  unfold flat_double.
  rewrite flat_int_enc by lia. cbn [mapr]. rewrite wrap32_small by lia.
  rewrite <- (app_nil_r (enc_int e)), flat_int_enc by lia. cbn [mapr]. rewrite wrap32_small by lia.
  reflexivity.
Qed.

(* concrete values, evaluated in the model (the same triples are observed on the real code):
   pi, the smallest subnormal, MaxFloat64, 1.0, -0.0, NaN *)
Example double_values :
  map (fun b => let '(fi, e) := double_ints (of_bits b) in (fi, e, to_bits (double_of_ints fi e)))
      [4614256656552045848; 1; 9218868437227405311; 4607182418800017408; 9223372036854775808; 9221120237041090561]
  = [(1686629712, 2, 4614256656550872055); (1073741823, -1073, 1);
     (2147483646, 1024, 9218868437223211008); (1073741823, 1, 4607182418795823104);
     (0, 0, 0); (-2147483648, 0, 13830554455656890368)].
Proof. vm_compute. reflexivity. Qed.
