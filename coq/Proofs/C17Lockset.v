(* Proofs/C17Lockset.v — the lockset theorem: a well-locked program has no race
   in any interleaving (all thread lists, all schedules; by an invariant). *)
From Coq Require Import List Bool PeanoNat.
From Cedar Require Import Model.Lockset.
Import ListNotations.

Lemma holds_w_any h l : holds_w h l = true -> holds_any h l = true.
Proof.
  unfold holds_w, holds_any. induction h as [|p r IH]; cbn; [auto|].
  intro H. apply orb_true_iff in H. destruct H as [H|H].
  - apply andb_true_iff in H. destruct H as [H _]. rewrite H. reflexivity.
  - rewrite (IH H). apply orb_true_r.
Qed.

Lemma release_any h l l' : holds_any (release l h) l' = true -> holds_any h l' = true.
Proof.
  unfold holds_any. induction h as [|p r IH]; cbn; [auto|].
  destruct (Nat.eqb (fst p) l) eqn:E.
  - intro H. rewrite H. apply orb_true_r.
  - cbn. intro H. apply orb_true_iff in H. destruct H as [H|H].
    + rewrite H. reflexivity.
    + rewrite (IH H). apply orb_true_r.
Qed.

Lemma release_w h l l' : holds_w (release l h) l' = true -> holds_w h l' = true.
Proof.
  unfold holds_w. induction h as [|p r IH]; cbn; [auto|].
  destruct (Nat.eqb (fst p) l) eqn:E.
  - intro H. rewrite H. apply orb_true_r.
  - cbn. intro H. apply orb_true_iff in H. destruct H as [H|H].
    + rewrite H. reflexivity.
    + rewrite (IH H). apply orb_true_r.
Qed.

(* two threads' held sets are compatible: a lock held exclusively by one is not held by the other *)
Definition compat (h1 h2 : held) : Prop :=
  forall l, (holds_w h1 l = true -> holds_any h2 l = false) /\
            (holds_w h2 l = true -> holds_any h1 l = false).

Definition inv (g : nat -> nat) (s : state) : Prop :=
  (forall i j, i <> j -> compat (fst (s i)) (fst (s j))) /\
  (forall i, wl g (fst (s i)) (snd (s i)) = true).

Lemma inv_init g ts : Forall (well_locked g) ts -> inv g (init ts).
Proof.
  intro H. split.
  - intros i j _ l. unfold init. cbn. split; discriminate.
  - intro i. unfold init. cbn.
    destruct (Nat.lt_ge_cases i (length ts)) as [Hi|Hi].
    + rewrite Forall_forall in H. apply H. apply nth_In. exact Hi.
    + rewrite nth_overflow by exact Hi. reflexivity.
Qed.

Lemma not_true_false b : b <> true -> b = false.
Proof. destruct b; congruence. Qed.

Lemma inv_step g s s' : inv g s -> step s s' -> inv g s'.
Proof.
  intros [HC HW] St. destruct St as [s s' i h e r Hi En Hs']. unfold state, thread in *.
  assert (Hh : fst (s i) = h) by (rewrite Hi; reflexivity).
  assert (Hwl : wl g (next_held h e) r = true).
  { specialize (HW i). rewrite Hi in HW. cbn in HW. apply andb_true_iff in HW. apply HW. }
  (* held sets after the step *)
  assert (Hfst : forall j, fst (s' j) = if Nat.eqb j i then next_held h e else fst (s j)).
  { intro j. rewrite Hs'. unfold upd. destruct (Nat.eqb j i); reflexivity. }
  (* the stepping thread's new held set is compatible with everybody else's *)
  assert (Hnew : forall j, j <> i -> compat (next_held h e) (fst (s j))).
  { intros j Hj. pose proof (HC i j (fun E => Hj (eq_sym E))) as Cij. rewrite Hi in Cij. cbn [fst] in Cij.
    destruct e as [l m|l|x|x]; cbn [next_held]; try exact Cij.
    - (* acquire *)
      intro l'. destruct (Cij l') as [C1 C2]. destruct m.
      + (* shared *)
        cbn in En. specialize (En j Hj). split.
        * unfold holds_w. cbn. rewrite andb_false_r. cbn. exact C1.
        * intro Hw. unfold holds_any. cbn.
          destruct (Nat.eqb l l') eqn:El.
          -- apply Nat.eqb_eq in El. subst l'. exfalso. exact (eq_true_false_abs _ Hw En).
          -- cbn. apply C2. exact Hw.
      + (* exclusive *)
        cbn in En. specialize (En j Hj). split.
        * unfold holds_w. cbn. rewrite andb_true_r.
          destruct (Nat.eqb l l') eqn:El.
          -- apply Nat.eqb_eq in El. subst l'. intros _. exact En.
          -- cbn. exact C1.
        * intro Hw. unfold holds_any. cbn.
          destruct (Nat.eqb l l') eqn:El.
          -- apply Nat.eqb_eq in El. subst l'. apply holds_w_any in Hw. exfalso. exact (eq_true_false_abs _ Hw En).
          -- cbn. apply C2. exact Hw.
    - (* release: the held set shrinks *)
      intro l'. destruct (Cij l') as [C1 C2]. split.
      + intro Hw. apply C1. eapply release_w. exact Hw.
      + intro Hw. apply not_true_false. intro Ha. apply release_any in Ha.
        rewrite (C2 Hw) in Ha. discriminate. }
  split.
  - intros a b Hab. rewrite !Hfst.
    destruct (Nat.eqb a i) eqn:Ea, (Nat.eqb b i) eqn:Eb.
    + apply Nat.eqb_eq in Ea, Eb. congruence.
    + apply Nat.eqb_neq in Eb. apply Hnew. exact Eb.
    + apply Nat.eqb_neq in Ea. intro l. destruct (Hnew a Ea l). split; assumption.
    + apply HC. exact Hab.
  - intro j. rewrite Hs'. unfold upd. destruct (Nat.eqb j i); [exact Hwl|apply HW].
Qed.

Lemma inv_reach g s s' : inv g s -> reach s s' -> inv g s'.
Proof.
  intros H R. induction R as [s|s s1 s2 R IH St]; [assumption|].
  eapply inv_step; [apply IH; assumption|exact St].
Qed.

Lemma inv_no_race g s : inv g s -> ~ race s.
Proof.
  intros [HC HW] (i & j & x & hi & ei & ri & hj & ej & rj & wi & wj & Hij & Si & Sj & Ai & Aj & W).
  pose proof (HW i) as Wi. pose proof (HW j) as Wj. rewrite Si in Wi. rewrite Sj in Wj. cbn [fst snd wl] in Wi, Wj.
  apply andb_true_iff in Wi, Wj. destruct Wi as [Wi _], Wj as [Wj _].
  pose proof (HC i j Hij (g x)) as [C1 C2]. rewrite Si, Sj in C1, C2. cbn [fst] in C1, C2.
  destruct ei as [| |y|y], ej as [| |z|z]; cbn in Ai, Aj; try contradiction;
    destruct Ai as [-> ->], Aj as [-> ->]; destruct W as [W|W]; try discriminate.
  - (* Rd / Wr *) exact (eq_true_false_abs _ Wi (C2 Wj)).
  - (* Wr / Rd *) exact (eq_true_false_abs _ Wj (C1 Wi)).
  - exact (eq_true_false_abs _ (holds_w_any _ _ Wj) (C1 Wi)).
  - exact (eq_true_false_abs _ (holds_w_any _ _ Wj) (C1 Wi)).
Qed.

Theorem lockset_drf g ts s :
  Forall (well_locked g) ts -> reach (init ts) s -> ~ race s.
Proof.
  intros H R. eapply inv_no_race. eapply inv_reach; [apply inv_init; exact H|exact R].
Qed.

(* the discipline is not vacuous and the theorem is sharp: an unguarded access races *)
Example unguarded_races :
  let t1 := [Acq 0 MW; Wr 7; Rel 0] in      (* writer holds lock 0 (the entry lock) *)
  let t2 := [Acq 1 MW; Rd 7; Rel 1] in      (* reader holds only lock 1 (the cache lock) *)
  exists s, reach (init [t1; t2]) s /\ race s.
Proof.
  cbn zeta.
  set (t1 := [Acq 0 MW; Wr 7; Rel 0]). set (t2 := [Acq 1 MW; Rd 7; Rel 1]).
  set (s1 := upd (init [t1; t2]) 0 ([(0, MW)], [Wr 7; Rel 0])).
  set (s2 := upd s1 1 ([(1, MW)], [Rd 7; Rel 1])).
  exists s2. split.
  - eapply reach_step; [eapply reach_step; [apply reach_refl|]|].
    + eapply (step_intro _ s1 0 [] (Acq 0 MW)); [reflexivity| |intro; reflexivity].
      cbn. intros j _. destruct j as [|[|j]]; reflexivity.
    + eapply (step_intro _ s2 1 [] (Acq 1 MW)); [reflexivity| |intro; reflexivity].
      cbn. intros j Hj. destruct j as [|[|j]]; try reflexivity.
  - exists 0, 1, 7, [(0, MW)], (Wr 7), [Rel 0], [(1, MW)], (Rd 7), [Rel 1], true, false.
    repeat split; auto.
Qed.
