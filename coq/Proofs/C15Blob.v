(* Proofs/C15Blob.v — the blob parser accepts what the exporter writes and rejects every
   strict prefix, a wrong magic and a wrong version. *)
From Coq Require Import List NArith ZArith Lia Bool Arith.
From Coq Require Import ZifyBool ZifyN ZifyNat.
From Cedar Require Import Lib.Bytes gen.Consts Model.Blob.
Import ListNotations.
Local Open Scope N_scope.

Lemma fixed_len_ok : CsFixedLen = 79 /\ CsVersion < 65536 /\ length magic = 4%nat.
Proof. vm_compute. repeat split; reflexivity. Qed.

Lemma firstn_app_exact {A} (a b : list A) n : length a = n -> firstn n (a ++ b) = a.
Proof. intros <-. rewrite firstn_app, Nat.sub_diag, firstn_all. cbn [firstn]. apply app_nil_r. Qed.
Lemma skipn_app_exact {A} (a b : list A) n : length a = n -> skipn n (a ++ b) = b.
Proof. intros <-. rewrite skipn_app, Nat.sub_diag, skipn_all. reflexivity. Qed.
Lemma take_app_exact (a b : bytes) n : length a = n -> take n (a ++ b) = (a, b).
Proof. intro H. unfold take. rewrite firstn_app_exact, skipn_app_exact by exact H. reflexivity. Qed.

Lemma firstn_firstn_le {A} (l : list A) i j : (i <= j)%nat -> firstn i (firstn j l) = firstn i l.
Proof. intro H. rewrite firstn_firstn. f_equal. apply Nat.min_l. exact H. Qed.

Lemma lenN_lt_nat (l : bytes) (n : nat) : (lenN l <? N.of_nat n) = (length l <? n)%nat.
Proof. rewrite lenN_spec. destruct (Nat.ltb_spec (length l) n); [apply N.ltb_lt|apply N.ltb_ge]; lia. Qed.

(* ---- read_var on a (possibly truncated) field ------------------------------ *)
Lemma read_var_full x rest : lenN x < 65536 -> read_var (var x ++ rest) = Some (x, rest).
Proof.
  intro Hx. unfold read_var, var. rewrite <- app_assoc.
  assert (Hl : lenN (be_enc 2 (lenN x) ++ x ++ rest) <? 2 = false).
  { apply N.ltb_ge. rewrite lenN_app, lenN_spec, be_enc_length. lia. }
  rewrite Hl. rewrite firstn_app_exact by apply be_enc_length.
  rewrite skipn_app_exact by apply be_enc_length.
  rewrite be_dec_enc. change (2 ^ (8 * N.of_nat 2)) with 65536. rewrite N.mod_small by exact Hx.
  assert (Hl2 : lenN (x ++ rest) <? lenN x = false) by (apply N.ltb_ge; rewrite lenN_app; lia).
  rewrite Hl2. rewrite lenN_spec, Nnat.Nat2N.id.
  rewrite firstn_app_exact, skipn_app_exact by reflexivity. reflexivity.
Qed.

Lemma read_var_cut x rest (m : nat) :
  lenN x < 65536 -> (m <= length (var x ++ rest))%nat ->
  read_var (firstn m (var x ++ rest)) =
    if (m <? length (var x))%nat then None else Some (x, firstn (m - length (var x)) rest).
Proof.
  intros Hx Hm. unfold var in *. rewrite <- app_assoc in *.
  rewrite !app_length, be_enc_length in *.
  unfold read_var.
  destruct (Nat.ltb_spec m (2 + length x)) as [Hlt|Hge].
  - destruct (Nat.ltb_spec m 2) as [H2|H2].
    + assert (E : lenN (firstn m (be_enc 2 (lenN x) ++ x ++ rest)) <? 2 = true).
      { apply N.ltb_lt. rewrite lenN_spec, firstn_length. lia. }
      rewrite E. reflexivity.
    + assert (E : lenN (firstn m (be_enc 2 (lenN x) ++ x ++ rest)) <? 2 = false).
      { apply N.ltb_ge. rewrite lenN_spec, firstn_length, !app_length, be_enc_length. lia. }
      rewrite E.
      rewrite firstn_firstn_le by lia. change (firstn 2 (be_enc 2 (lenN x) ++ x ++ rest)) with (be_enc 2 (lenN x)).
      rewrite be_dec_enc. change (2 ^ (8 * N.of_nat 2)) with 65536. rewrite N.mod_small by exact Hx.
      assert (E2 : lenN (skipn 2 (firstn m (be_enc 2 (lenN x) ++ x ++ rest))) <? lenN x = true).
      { apply N.ltb_lt. rewrite !lenN_spec, skipn_length, firstn_length, !app_length, be_enc_length. lia. }
      rewrite E2. reflexivity.
  - assert (E : lenN (firstn m (be_enc 2 (lenN x) ++ x ++ rest)) <? 2 = false).
    { apply N.ltb_ge. rewrite lenN_spec, firstn_length, !app_length, be_enc_length. lia. }
    rewrite E.
    rewrite firstn_firstn_le by lia. change (firstn 2 (be_enc 2 (lenN x) ++ x ++ rest)) with (be_enc 2 (lenN x)).
    rewrite be_dec_enc. change (2 ^ (8 * N.of_nat 2)) with 65536. rewrite N.mod_small by exact Hx.
    (* skipn 2 (firstn m (enc ++ x ++ rest)) = firstn (m-2) (x ++ rest) *)
    assert (Hs : skipn 2 (firstn m (be_enc 2 (lenN x) ++ x ++ rest)) = firstn (m - 2) (x ++ rest)).
    { rewrite firstn_app, be_enc_length. rewrite firstn_all2 by (rewrite be_enc_length; lia).
      apply skipn_app_exact. apply be_enc_length. }
    rewrite Hs.
    assert (E2 : lenN (firstn (m - 2) (x ++ rest)) <? lenN x = false).
    { apply N.ltb_ge. rewrite !lenN_spec, firstn_length, app_length. lia. }
    rewrite E2. rewrite lenN_spec, Nnat.Nat2N.id.
    rewrite firstn_firstn_le by lia. rewrite firstn_app_exact by reflexivity.
    rewrite firstn_app. rewrite firstn_all2 by lia.
    rewrite skipn_app_exact by reflexivity.
    replace (m - 2 - length x)%nat with (m - (2 + length x))%nat by lia. reflexivity.
Qed.

(* ---- the fixed 79-byte part ------------------------------------------------ *)
Definition fixed_part (b : rawblob) : bytes :=
  magic ++ be_enc 2 CsVersion ++ [n2b (rb_flags b)] ++ rb_key b ++ rb_eiv b ++ rb_div b ++
  be_enc 4 (rb_ectr b) ++ be_enc 4 (rb_dctr b).
Definition tail_part (b : rawblob) : bytes := var (rb_sdg b) ++ var (rb_rdg b) ++ var (rb_peer b).

Lemma ser_split b : ser b = fixed_part b ++ tail_part b.
Proof. unfold ser, fixed_part, tail_part. rewrite <- !app_assoc. reflexivity. Qed.

Lemma fixed_part_length b : rb_wf b -> length (fixed_part b) = 79%nat.
Proof.
  intros [_ [Hk [He [Hd _]]]]. unfold fixed_part. rewrite !app_length, !be_enc_length, Hk, He, Hd.
  reflexivity.
Qed.

(* parsing a blob whose first 79 bytes are the fixed part of b: reduces to the three fields *)
Lemma parse_fixed b t :
  rb_wf b ->
  parse (fixed_part b ++ t) =
    match read_var t with
    | None => None
    | Some (sd, r6) =>
        match read_var r6 with
        | None => None
        | Some (rd, r7) =>
            match read_var r7 with
            | None => None
            | Some (peer, _) =>
                Some {| rb_flags := rb_flags b; rb_key := rb_key b; rb_eiv := rb_eiv b; rb_div := rb_div b;
                        rb_ectr := rb_ectr b; rb_dctr := rb_dctr b;
                        rb_sdg := sd; rb_rdg := rd; rb_peer := peer |}
            end
        end
    end.
Proof.
  intro W. pose proof (fixed_part_length b W) as HL.
  destruct W as [Hf [Hk [He [Hd [Hec [Hdc _]]]]]].
  unfold parse.
  assert (E1 : lenN (fixed_part b ++ t) <? CsFixedLen = false).
  { apply N.ltb_ge. rewrite lenN_app, lenN_spec, HL. destruct fixed_len_ok as [-> _]. lia. }
  rewrite E1. unfold fixed_part. rewrite <- !app_assoc.
  rewrite (firstn_app_exact magic) by reflexivity.
  assert (E2 : bytes_eqb magic magic = true) by (apply bytes_eqb_eq; reflexivity). rewrite E2. cbn [negb].
  rewrite (skipn_app_exact magic) by reflexivity.
  rewrite firstn_app_exact by apply be_enc_length.
  rewrite be_dec_enc. change (2 ^ (8 * N.of_nat 2)) with 65536.
  rewrite N.mod_small by (destruct fixed_len_ok as [_ [Hv _]]; exact Hv). rewrite N.eqb_refl. cbn [negb].
  rewrite (app_assoc magic (be_enc 2 CsVersion)).
  rewrite (skipn_app_exact (magic ++ be_enc 2 CsVersion)) by reflexivity.
  cbn [app].
  rewrite (take_app_exact (rb_key b)) by exact Hk.
  rewrite (take_app_exact (rb_eiv b)) by exact He.
  rewrite (take_app_exact (rb_div b)) by exact Hd.
  rewrite (take_app_exact (be_enc 4 (rb_ectr b))) by apply be_enc_length.
  rewrite (take_app_exact (be_enc 4 (rb_dctr b))) by apply be_enc_length.
  rewrite b2n_n2b, N.mod_small by exact Hf.
  rewrite !be_dec_enc. change (2 ^ (8 * N.of_nat 4)) with 4294967296.
  rewrite !N.mod_small by assumption. reflexivity.
Qed.

(* ---- the two theorems ------------------------------------------------------ *)
Lemma parse_ser b : rb_wf b -> parse (ser b) = Some b.
Proof.
  intro W. rewrite ser_split, parse_fixed by exact W.
  destruct W as [_ [_ [_ [_ [_ [_ [Hs [Hr Hp]]]]]]]].
  unfold tail_part.
  rewrite read_var_full by exact Hs. rewrite read_var_full by exact Hr.
  rewrite <- (app_nil_r (var (rb_peer b))). rewrite read_var_full by exact Hp.
  destruct b; reflexivity.
Qed.

Lemma parse_truncated b (n : nat) : rb_wf b -> (n < length (ser b))%nat -> parse (firstn n (ser b)) = None.
Proof.
  intros W Hn. pose proof (fixed_part_length b W) as HL.
  rewrite ser_split in *. rewrite app_length, HL in Hn.
  destruct (Nat.ltb_spec n 79) as [Hlt|Hge].
  - unfold parse.
    assert (E : lenN (firstn n (fixed_part b ++ tail_part b)) <? CsFixedLen = true).
    { apply N.ltb_lt. rewrite lenN_spec, firstn_length. destruct fixed_len_ok as [-> _]. lia. }
    rewrite E. reflexivity.
  - rewrite firstn_app, HL. rewrite firstn_all2 by lia.
    rewrite parse_fixed by exact W.
    destruct W as [_ [_ [_ [_ [_ [_ [Hs [Hr Hp]]]]]]]].
    set (m := (n - 79)%nat) in *.
    assert (Hm : (m < length (tail_part b))%nat) by lia.
    unfold tail_part in *.
    rewrite read_var_cut by (try exact Hs; lia).
    destruct (Nat.ltb_spec m (length (var (rb_sdg b)))) as [|H1]; [reflexivity|].
    rewrite app_length in Hm.
    rewrite read_var_cut by (try exact Hr; lia).
    destruct (Nat.ltb_spec (m - length (var (rb_sdg b))) (length (var (rb_rdg b)))) as [|H2]; [reflexivity|].
    rewrite app_length in Hm.
    rewrite <- (app_nil_r (var (rb_peer b))).
    rewrite read_var_cut by (try exact Hp; rewrite app_nil_r; lia).
    destruct (Nat.ltb_spec (m - length (var (rb_sdg b)) - length (var (rb_rdg b))) (length (var (rb_peer b)))) as [|H3];
      [reflexivity|lia].
Qed.

Lemma parse_bad_magic bs : firstn 4 bs <> magic -> parse bs = None.
Proof.
  intro H. unfold parse. destruct (lenN bs <? CsFixedLen); [reflexivity|].
  destruct (bytes_eqb (firstn 4 bs) magic) eqn:E; [apply bytes_eqb_eq in E; contradiction|reflexivity].
Qed.

Lemma parse_bad_version bs : be_dec (firstn 2 (skipn 4 bs)) <> CsVersion -> parse bs = None.
Proof.
  intro H. unfold parse. destruct (lenN bs <? CsFixedLen); [reflexivity|].
  destruct (bytes_eqb (firstn 4 bs) magic); [|reflexivity]. cbn [negb].
  destruct (be_dec (firstn 2 (skipn 4 bs)) =? CsVersion) eqn:E; [apply N.eqb_eq in E; contradiction|reflexivity].
Qed.
