(* Proofs/C16Facts.v — the facts regenerated from /repo's source on every run
   (coq/gen/FactsC16.v) are the ones Model/ClaimId.v was written for. *)
From Coq Require Import List NArith String.
From Cedar Require Import Lib.Bytes Lib.SymC16 Model.ClaimId.
From Cedar Require Import gen.FactsC16.
Import ListNotations.
Local Open Scope string_scope.

Definition sources_match : Prop :=
  kdf_salt = S_htcondor /\ kdf_info = S_keygen
  /\ claim_key_lens = [lit "32"]
  /\ key_material_flow =
       [lit "deriveSessionKey:hkdf.New([]byte(sessionKey))"; lit "deriveSessionKey:param0=sessionKey";
        lit "ImportClaimSession:deriveClaimKeyInfo(_, secret)"; lit "ImportClaimSession:secret:=cid.SecSessionKey()";
        lit "ImportFileTransferSession:deriveSessionKey(secret)"; lit "ImportFileTransferSession:secret:=cid.SecSessionKey()";
        lit "deriveClaimKeyInfo:deriveSessionKey(secret)";
        lit "MintClaimSession:deriveClaimKeyInfo(_, secret)"; lit "MintClaimSession:secret:=randomHexKey(secSessionKeyLengthV9)"]
  /\ strict_grammar_calls = [lit "strings.LastIndex(#)"; lit "strings.HasPrefix([)"; lit "strings.LastIndex(])"]
  /\ cipher_rewrites = [lit "ExportSecSessionInfo:,->."; lit "ImportSecSessionInfo:.->,"; lit "ImportSecSessionInfo:.->,"]
  /\ ft_prefix = S_filetrans
  /\ submit_side_fqu = S_submit_side /\ execute_side_fqu = S_execute_side
  /\ auth_method_match = S_MATCH
  /\ secret_random_bytes = 32%N.

Lemma sources_match_holds : sources_match.
Proof. unfold sources_match. repeat split; vm_compute; reflexivity. Qed.
