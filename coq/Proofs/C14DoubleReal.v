(* Proofs/C14DoubleReal.v — what the two integers of PutDouble mean, over the reals.
   For every finite non-zero binary64 value d the model's [double_ints d] = (fracInt, exp)
   satisfies: d = fr * 2^exp for a binary64 fr with 1/2 <= |fr| < 1, exp within
   [-1073, 1024], and fracInt = trunc (RN (fr * (2^31-1))) where RN is IEEE
   round-to-nearest-even to binary64 - "fraction scaled by 2^31-1, and binary exponent".
   Uses Flocq's correctness theorems (axioms of Coq's Reals). *)
From Coq Require Import ZArith Reals Lia Lra Bool ZifyBool.
From Flocq Require Import Core IEEE754.BinarySingleNaN.
From Cedar Require Import Lib.Bytes gen.Consts Model.Msg Model.Double.
Local Open Scope Z_scope.

Lemma B2R_frac_const : B2R frac_const = IZR 2147483647.
Proof.
  rewrite <- SF2R_B2SF.
  replace (B2SF frac_const) with (SpecFloat.S754_finite false 9007199250546688 (-22)) by (vm_compute; reflexivity).
  unfold SF2R, F2R; cbn [cond_Zopp Fnum Fexp].
  change (bpow radix2 (-22)) with (/ IZR 4194304)%R.
  replace 9007199250546688 with (2147483647 * 4194304) by reflexivity.
  rewrite mult_IZR. field.
Qed.

Lemma wrap32_small z : - 2 ^ 31 <= z < 2 ^ 31 -> wrap32 z = z.
Proof. intro R. unfold wrap32. rewrite Z.mod_small by lia. lia. Qed.

Lemma go_int32_finite (p : b64) :
  is_finite p = true -> - 2 ^ 31 <= Btrunc p < 2 ^ 31 -> go_int32_of_float p = Btrunc p.
Proof.
  intros F R. unfold go_int32_of_float.
  destruct p; try discriminate; cbv zeta;
    match goal with |- (if ?c then _ else _) = _ => destruct c eqn:C end; try reflexivity; lia.
Qed.

Theorem double_ints_real (d : b64) :
  is_finite_strict d = true ->
  exists fr : b64,
    (/ 2 <= Rabs (B2R fr) < 1)%R /\
    B2R d = (B2R fr * bpow radix2 (snd (double_ints d)))%R /\
    - 1073 <= snd (double_ints d) <= 1024 /\
    fst (double_ints d) =
      Ztrunc (round radix2 (FLT_exp (-1074) 53) ZnearestE (B2R fr * IZR (2 ^ 31 - 1))).
Proof.
  intro Hf.
  assert (Hd : go_frexp d = Bfrexp d) by (destruct d; try discriminate; reflexivity).
  unfold double_ints. rewrite Hd.
  pose proof (Bfrexp_correct 53 1024 _ d Hf) as H.
  destruct (Bfrexp d) as [fr ex]. destruct H as [H1 H2].
  destruct (H2 ltac:(lia)) as [H3 H4]. clear H2.
  (* the exponent is within [-1073, 1024], so int32(exp) is exp *)
  assert (Hex : - 1073 <= ex <= 1024).
  { subst ex. split.
    - apply mag_ge_bpow. exact (abs_B2R_ge_emin 53 1024 d Hf).
    - apply mag_le_bpow; [|apply abs_B2R_lt_emax].
      intro Z0. pose proof (abs_B2R_ge_emin 53 1024 d Hf) as G. rewrite Z0, Rabs_R0 in G.
      pose proof (bpow_gt_0 radix2 (SpecFloat.emin 53 1024)). lra. }
  rewrite wrap32_small by lia. cbn [fst snd].
  exists fr. split; [exact H3|]. split; [exact H1|]. split; [exact Hex|].
  (* the product: no overflow, so Bmult is the rounded real product *)
  set (c := IZR 2147483647).
  assert (Hc : (0 < c)%R) by (apply IZR_lt; reflexivity).
  assert (Hprod : (Rabs (B2R fr * B2R frac_const) <= B2R frac_const)%R).
  { rewrite B2R_frac_const. fold c. rewrite Rabs_mult, (Rabs_pos_eq c) by lra.
    destruct H3 as [_ H3]. pose proof (Rabs_pos (B2R fr)). nra. }
  assert (Hrnd : (Rabs (round radix2 (SpecFloat.fexp 53 1024) (round_mode mode_NE)
                          (B2R fr * B2R frac_const)) <= c)%R).
  { unfold c. rewrite <- B2R_frac_const.
    apply abs_round_le_generic; auto with typeclass_instances.
    - apply fexp_correct. reflexivity.
    - apply generic_format_B2R. }
  pose proof (Bmult_correct 53 1024 _ _ mode_NE fr frac_const) as M.
  rewrite Rlt_bool_true in M.
  2:{ apply Rle_lt_trans with (1 := Hrnd). apply Rlt_le_trans with (bpow radix2 31).
      - change (bpow radix2 31) with (IZR 2147483648). apply IZR_lt. reflexivity.
      - apply bpow_le. lia. }
  destruct M as (M1 & M2 & _).
  assert (Ffr : is_finite fr = true).
  { destruct fr; try reflexivity; cbn in H3; rewrite Rabs_R0 in H3; lra. }
  rewrite Ffr in M2. cbn in M2.
  set (p := Bmult mode_NE fr frac_const) in *.
  (* int32(p) is the truncation of p, which is in range *)
  assert (T : Btrunc p = Ztrunc (B2R p)).
  { apply eq_IZR. rewrite (Btrunc_correct 53 1024 eq_refl p). apply round_FIX_IZR. }
  assert (Hp : (Rabs (B2R p) <= c)%R) by (rewrite M1; exact Hrnd).
  assert (Rng : - 2147483647 <= Ztrunc (B2R p) <= 2147483647).
  { apply Rabs_le_inv in Hp. destruct Hp as [L U]. split.
    - rewrite <- (Ztrunc_IZR (-2147483647)). apply Ztrunc_le.
      unfold c in L. rewrite <- opp_IZR in L. exact L.
    - rewrite <- (Ztrunc_IZR 2147483647). apply Ztrunc_le. exact U. }
  rewrite go_int32_finite by (try exact M2; rewrite T; lia).
  rewrite T.
  rewrite M1, B2R_frac_const. reflexivity.
Qed.

(* the hypothesis holds for every finite non-zero double, e.g. pi *)
Example double_ints_real_nonvacuous :
  is_finite_strict (of_bits 4614256656552045848) = true /\
  double_ints (of_bits 4614256656552045848) = (1686629712, 2).
Proof. split; vm_compute; reflexivity. Qed.
