(* Proofs/C11.v — proofs of the C11 theorems (all peer scripts, all crypto / JSON /
   key-store parameters). *)
From Coq Require Import List NArith ZArith Lia Bool.
From Coq Require Import ZifyBool.
From Cedar Require Import Lib.Bytes Lib.SymC11 gen.Consts gen.FactsC11 Model.Msg Model.Token Proofs.C11Spec.
Import ListNotations.
Local Open Scope Z_scope.

(* side conditions on the regenerated constants *)
Lemma default_max_age_pos : 0 < DefaultTokenMaxAge.
Proof. reflexivity. Qed.
Lemma ok_is_not_error : AuthPwAOk <> AuthPwError.
Proof. discriminate. Qed.

(* where the maximum age comes from *)
Lemma max_age_of_cfg cfg envs : 0 < cfg -> max_age_of cfg envs = cfg.
Proof. intro H. unfold max_age_of. apply Z.ltb_lt in H. rewrite H. reflexivity. Qed.
Lemma max_age_of_env cfg s : cfg <= 0 -> max_age_of cfg (Some s) = s.
Proof. intro H. unfold max_age_of. apply Z.ltb_ge in H. rewrite H. reflexivity. Qed.
Lemma max_age_of_default cfg : cfg <= 0 -> max_age_of cfg None = DefaultTokenMaxAge.
Proof. intro H. unfold max_age_of. apply Z.ltb_ge in H. rewrite H. reflexivity. Qed.
Lemma env_secs_spec e :
  env_secs e = if is_nil (e_env_max_age e) then None
               else option_map (fun ns => Z.quot ns 1000000000) (e_parse_dur e (e_env_max_age e ++ [x73])).
Proof. unfold env_secs. destruct (is_nil (e_env_max_age e)); [reflexivity|]. destruct (e_parse_dur e _); reflexivity. Qed.
(* with no usable environment value the maximum age is positive *)
Lemma resolved_max_age_pos e : env_secs e = None -> 0 < resolved_max_age e.
Proof.
  intro H. unfold resolved_max_age, max_age_of. rewrite H.
  destruct (0 <? e_max_age e) eqn:E; [apply Z.ltb_lt in E; exact E|exact default_max_age_pos].
Qed.

Lemma is_nil_true b : is_nil b = true <-> b = [].
Proof. destruct b; simpl; split; intro H; try reflexivity; discriminate. Qed.
Lemma is_nil_false b : is_nil b = false <-> b <> [].
Proof.
  destruct b; simpl; split; intro H.
  - discriminate.
  - exfalso; apply H; reflexivity.
  - discriminate.
  - reflexivity.
Qed.

Lemma bytes_eqb_refl b : bytes_eqb b b = true.
Proof. apply bytes_eqb_eq. reflexivity. Qed.

(* ---------- timing ------------------------------------------------------ *)
Lemma age_ok_spec ma lim iat : negb ((0 <? ma) && (iat <? lim)) = true <-> (ma <= 0 \/ lim <= iat).
Proof.
  rewrite negb_true_iff, andb_false_iff, !Z.ltb_ge. reflexivity.
Qed.

Lemma timing_ok_spec now ma c : timing_ok now ma c = true <-> times_valid now ma c.
Proof.
  unfold timing_ok, times_valid, claim_time.
  split.
  - intro H.
    destruct (j_exp c) as [|s|z|] eqn:Ee; try discriminate;
    destruct (j_iat c) as [|s'|z'|] eqn:Ei; try discriminate.
    + split; left; reflexivity.
    + split; [left; reflexivity|right]. exists z'. split; [reflexivity|].
      simpl in H. apply age_ok_spec in H. exact H.
    + apply andb_true_iff in H as [H _]. apply Z.ltb_lt in H.
      split; [right; exists z; auto|left; reflexivity].
    + apply andb_true_iff in H as [H1 H2]. apply Z.ltb_lt in H1.
      split; [right; exists z; auto|right]. exists z'. split; [reflexivity|].
      apply age_ok_spec in H2. exact H2.
  - intros [[He|[z [He Hz]]] [Hi|[z' [Hi Hz']]]]; rewrite He, Hi; simpl.
    + reflexivity.
    + apply age_ok_spec. exact Hz'.
    + apply andb_true_iff. split; [apply Z.ltb_lt; exact Hz|reflexivity].
    + apply andb_true_iff. split; [apply Z.ltb_lt; exact Hz|].
      apply age_ok_spec. exact Hz'.
Qed.

(* ---------- validateTokenAndDeriveKeys ---------------------------------- *)
Lemma validate_token_spec e now claimed tok v :
  validate_token e now claimed tok = Some v <->
  exists key sub, token_valid e now tok key sub /\ v = mk_vstate e tok key sub.
Proof.
  unfold validate_token, token_valid, mk_vstate. split.
  - intro H.
    destruct (is_nil tok) eqn:Et; [discriminate|].
    destruct (split_on dot tok) as [|p0 [|p1 [|p2 l]]] eqn:Es; try discriminate.
    destruct (decode_seg e p0) as [h|] eqn:Eh; [|discriminate].
    destruct (kid_strict h) as [kid|] eqn:Ek; [|discriminate].
    destruct (load_signing_key e kid) as [key|] eqn:El; [|discriminate].
    destruct (decode_seg e p1) as [c|] eqn:Ec; [|discriminate].
    destruct (timing_ok now (resolved_max_age e) c) eqn:Etm; simpl in H; [|discriminate].
    destruct (j_sub c) as [|s|z|] eqn:Esub; simpl in H; try discriminate.
    destruct (is_nil s) eqn:En; [discriminate|].
    inversion H; subst v; clear H.
    exists key, s. split; [|reflexivity].
    exists p0, p1, h, c, kid. repeat split; auto.
    + apply timing_ok_spec in Etm. apply Etm.
    + apply timing_ok_spec in Etm. apply Etm.
    + apply is_nil_false. exact En.
  - intros (key & sub & (p0 & p1 & h & c & kid & Es & Eh & Ek & El & Ec & Etm & Esub & Hne) & Hv).
    assert (Et : is_nil tok = false).
    { destruct tok; [|reflexivity]. simpl in Es. discriminate. }
    rewrite Et, Es, Eh, Ek, El, Ec.
    apply timing_ok_spec in Etm. rewrite Etm. simpl. rewrite Esub.
    apply is_nil_false in Hne. rewrite Hne. subst v. reflexivity.
Qed.

(* the identity is the token's subject whatever the client claimed *)
Lemma validate_token_ignores_claim e now c1 c2 tok :
  validate_token e now c1 tok = validate_token e now c2 tok.
Proof. reflexivity. Qed.

(* ---------- server step 3 ----------------------------------------------- *)
Lemma srv_step3_spec cr v rb r0 :
  srv_step3 cr v rb r0 = true <-> client_proof cr (v_K v) (v_cid v) rb r0.
Proof.
  unfold srv_step3, client_proof. split.
  - intro H.
    destruct (rd_int r0) as [st r1| |] eqn:E0; try discriminate.
    destruct (st =? AuthPwAOk) eqn:Est; simpl in H; [|discriminate].
    apply Z.eqb_eq in Est; subst st.
    destruct (rd_id r1) as [cid r2| |] eqn:E1; try discriminate.
    destruct (bytes_eqb cid (v_cid v)) eqn:Ecid; simpl in H; [|discriminate].
    apply bytes_eqb_eq in Ecid; subst cid.
    destruct (rd_int r2) as [n r3| |] eqn:E2; try discriminate.
    destruct (AuthPwKeyLen <? n) eqn:En; [discriminate|].
    apply Z.ltb_ge in En.
    destruct (rd_raw r3 n) as [rbe r4| |] eqn:E3; try discriminate.
    destruct (bytes_eqb rbe rb) eqn:Erb; simpl in H; [|discriminate].
    apply bytes_eqb_eq in Erb; subst rbe.
    destruct (rd_int r4) as [m r5| |] eqn:E4; try discriminate.
    destruct (rd_raw r5 m) as [mac r6| |] eqn:E5; try discriminate.
    apply andb_true_iff in H as [Hm He].
    apply bytes_eqb_eq in Hm; subst mac.
    exists r1, r2, n, r3, r4, m, r5, r6. repeat split; auto.
  - intros (r1 & r2 & n & r3 & r4 & m & r5 & r6 & E0 & E1 & E2 & Hn & E3 & E4 & E5 & He).
    rewrite E0, Z.eqb_refl. simpl. rewrite E1, bytes_eqb_refl. simpl. rewrite E2.
    assert (AuthPwKeyLen <? n = false) as -> by (apply Z.ltb_ge; exact Hn).
    rewrite E3, bytes_eqb_refl. simpl. rewrite E4, E5, bytes_eqb_refl, He. reflexivity.
Qed.

(* ---------- server ------------------------------------------------------- *)
Definition server_accepts_spec (e : env) (now : Z) (rb : bytes) (frames : list mframe)
           (user sk : bytes) (sent : option (list mframe)) : Prop :=
  exists claimed tok ra r1 key sub,
    srv_step1 (reader_of frames) = S1Ok claimed tok ra r1 /\
    token_valid e now tok key sub /\
    client_proof (e_cr e) (c_kdf (e_cr e) (c_sign (e_cr e) key tok) tok) sub rb (reader_of (r_in r1)) /\
    user = user_of sub /\
    sk = c_skey (e_cr e) rb /\
    sent = Some (srv_msg2_ok (e_cr e) (mk_vstate e tok key sub) ra rb).

Lemma token_valid_fun e now tok key sub key' sub' :
  token_valid e now tok key sub -> token_valid e now tok key' sub' -> key = key' /\ sub = sub'.
Proof.
  intros (p0 & p1 & h & c & kid & Es & Eh & Ek & El & Ec & _ & Esub & _)
         (p0' & p1' & h' & c' & kid' & Es' & Eh' & Ek' & El' & Ec' & _ & Esub' & _).
  rewrite Es in Es'. inversion Es'; subst p0' p1'.
  rewrite Eh in Eh'. inversion Eh'; subst h'.
  rewrite Ek in Ek'. inversion Ek'; subst kid'.
  rewrite El in El'. inversion El'; subst key'.
  rewrite Ec in Ec'. inversion Ec'; subst c'.
  rewrite Esub in Esub'. inversion Esub'. auto.
Qed.

Lemma server_accepts_iff e now rb frames user sk sent :
  server_run e now rb frames = {| s_out := Accept user sk; s_sent := sent |} <->
  server_accepts_spec e now rb frames user sk sent.
Proof.
  unfold server_run, server_accepts_spec. split.
  - intro H.
    destruct (srv_step1 (reader_of frames)) as [| |claimed tok ra r1] eqn:E1; try discriminate.
    destruct (validate_token e now claimed tok) as [v|] eqn:Ev; [|discriminate].
    destruct (srv_step3 (e_cr e) v rb (reader_of (r_in r1))) eqn:E3; [|discriminate].
    inversion H; subst user sk sent; clear H.
    apply validate_token_spec in Ev as (key & sub & Htv & ->).
    apply srv_step3_spec in E3. simpl in E3.
    exists claimed, tok, ra, r1, key, sub. repeat split; auto.
  - intros (claimed & tok & ra & r1 & key & sub & E1 & Htv & Hcp & Hu & Hs & Hsent).
    rewrite E1.
    assert (Ev : validate_token e now claimed tok = Some (mk_vstate e tok key sub)).
    { apply validate_token_spec. exists key, sub. split; [exact Htv|reflexivity]. }
    rewrite Ev.
    assert (E3 : srv_step3 (e_cr e) (mk_vstate e tok key sub) rb (reader_of (r_in r1)) = true).
    { apply srv_step3_spec. exact Hcp. }
    rewrite E3. subst user sk sent. reflexivity.
Qed.

(* every failure after message 1 was parsed is deferred: the error message 2 is
   still sent, then the failure is reported *)
Lemma server_deferred_failure e now rb frames claimed tok ra r1 :
  srv_step1 (reader_of frames) = S1Ok claimed tok ra r1 ->
  validate_token e now claimed tok = None ->
  server_run e now rb frames = {| s_out := Fail; s_sent := Some srv_msg2_err |}.
Proof. intros E1 Ev. unfold server_run. rewrite E1, Ev. reflexivity. Qed.

(* ---------- client ------------------------------------------------------- *)
Lemma cli_step2_ok_spec cr cid ra K r0 sid rb :
  cli_step2 cr cid ra K r0 = C2Ok sid rb <-> server_proof cr K cid ra sid rb r0.
Proof.
  unfold cli_step2, server_proof. split.
  - intro H.
    destruct (rd_int r0) as [st r1| |] eqn:E0; try discriminate.
    destruct (st =? AuthPwError) eqn:Eerr.
    { destruct (rd_id r1) as [x1 r2| |]; try discriminate.
      destruct (rd_id r2) as [x2 r3| |]; try discriminate.
      destruct (rd_opt_field r3) as [x3 r4| |]; try discriminate.
      destruct (rd_opt_field r4) as [x4 r5| |]; try discriminate.
      destruct (rd_opt_field r5); discriminate. }
    destruct (st =? AuthPwAOk) eqn:Est; simpl in H; [|discriminate].
    apply Z.eqb_eq in Est; subst st.
    destruct (rd_id r1) as [echo r2| |] eqn:E1; try discriminate.
    destruct (bytes_eqb echo cid) eqn:Ecid; simpl in H; [|discriminate].
    apply bytes_eqb_eq in Ecid; subst echo.
    destruct (rd_id r2) as [sid' r3| |] eqn:E2; try discriminate.
    destruct (rd_int r3) as [n r4| |] eqn:E3; try discriminate.
    destruct (AuthPwKeyLen <? n) eqn:En; [discriminate|]. apply Z.ltb_ge in En.
    destruct (rd_raw r4 n) as [rae r5| |] eqn:E4; try discriminate.
    destruct (bytes_eqb rae ra) eqn:Era; simpl in H; [|discriminate].
    apply bytes_eqb_eq in Era; subst rae.
    destruct (rd_int r5) as [m r6| |] eqn:E5; try discriminate.
    destruct (AuthPwKeyLen <? m) eqn:Em; [discriminate|]. apply Z.ltb_ge in Em.
    destruct (rd_raw r6 m) as [rb' r7| |] eqn:E6; try discriminate.
    destruct (rd_int r7) as [k r8| |] eqn:E7; try discriminate.
    destruct (rd_raw r8 k) as [mac r9| |] eqn:E8; try discriminate.
    destruct (bytes_eqb mac (c_mac cr K (mac_T cid sid' ra rb'))) eqn:Emac; [|discriminate].
    apply bytes_eqb_eq in Emac; subst mac.
    inversion H; subst sid' rb'.
    exists r1, r2, r3, n, r4, r5, m, r6, r7, k, r8, r9. repeat split; auto.
  - intros (r1 & r2 & r3 & n & r4 & r5 & m & r6 & r7 & k & r8 & r9 &
            E0 & E1 & E2 & E3 & Hn & E4 & E5 & Hm & E6 & E7 & E8).
    rewrite E0.
    assert (AuthPwAOk =? AuthPwError = false) as -> by reflexivity.
    rewrite Z.eqb_refl. simpl. rewrite E1, bytes_eqb_refl. simpl. rewrite E2, E3.
    assert (AuthPwKeyLen <? n = false) as -> by (apply Z.ltb_ge; exact Hn).
    rewrite E4, bytes_eqb_refl. simpl. rewrite E5.
    assert (AuthPwKeyLen <? m = false) as -> by (apply Z.ltb_ge; exact Hm).
    rewrite E6, E7, E8, bytes_eqb_refl. reflexivity.
Qed.

Definition client_accepts_spec (cr : crypto) (ld : loaded) (ra : bytes) (frames : list mframe)
           (sk : bytes) (sent : list (list mframe)) : Prop :=
  exists cid tok sig sid rb,
    ld = Some (cid, tok, sig) /\
    server_proof cr (c_kdf cr sig tok) cid ra sid rb (reader_of frames) /\
    sk = c_skey cr rb /\
    sent = [cli_msg1_ok cid tok ra; cli_msg3_ok cr (c_kdf cr sig tok) cid rb].

Lemma server_proof_fun cr K cid ra sid rb sid' rb' r0 :
  server_proof cr K cid ra sid rb r0 -> server_proof cr K cid ra sid' rb' r0 -> sid = sid' /\ rb = rb'.
Proof.
  intros H1 H2. apply cli_step2_ok_spec in H1, H2. rewrite H1 in H2. inversion H2. auto.
Qed.

Lemma client_accepts_iff cr ld ra frames sk sent :
  client_run cr ld ra frames = {| c_out := CAccept sk; c_sent := sent |} <->
  client_accepts_spec cr ld ra frames sk sent.
Proof.
  unfold client_run, client_accepts_spec. split.
  - intro H. destruct ld as [[[cid tok] sig]|].
    + destruct (cli_step2 cr cid ra (c_kdf cr sig tok) (reader_of frames)) as [| |sid rb] eqn:E2;
        try discriminate.
      inversion H; subst sk sent; clear H.
      apply cli_step2_ok_spec in E2.
      exists cid, tok, sig, sid, rb. repeat split; auto.
    + destruct (cli_step2 cr [] [] [] (reader_of frames)); discriminate.
  - intros (cid & tok & sig & sid & rb & Hld & Hsp & Hs & Hsent). subst ld.
    apply cli_step2_ok_spec in Hsp. rewrite Hsp. subst sk sent. reflexivity.
Qed.

(* a client without a usable token never succeeds, whatever the peer sends *)
Lemma client_without_token_fails cr ra frames :
  c_out (client_run cr None ra frames) = CFail.
Proof. unfold client_run. destruct (cli_step2 cr [] [] [] (reader_of frames)); reflexivity. Qed.

(* ---------- VerifyIDToken ------------------------------------------------ *)
Lemma verify_id_token_iff e now t out :
  verify_id_token e now t = Some out <-> id_token_valid e now t out.
Proof.
  unfold verify_id_token, id_token_valid. split.
  - intro H.
    destruct (split_on dot (trim_space_go t)) as [|p0 [|p1 [|p2 [|p3 l]]]] eqn:Es; try discriminate.
    destruct (decode_seg e p0) as [h|] eqn:Eh; [|discriminate].
    destruct (load_signing_key e (kid_lenient h)) as [key|] eqn:El; [|discriminate].
    destruct (b64url_decode p2) as [actual|] eqn:Eb; [|discriminate].
    destruct (bytes_eqb (c_sign (e_cr e) key (p0 ++ dot :: p1)) actual) eqn:Esig; simpl in H; [|discriminate].
    apply bytes_eqb_eq in Esig; subst actual.
    destruct (decode_seg e p1) as [c|] eqn:Ec; [|discriminate].
    destruct (timing_ok now (resolved_max_age e) c) eqn:Etm; simpl in H; [|discriminate].
    destruct (is_nil (jstr (j_sub c))) eqn:En; [discriminate|].
    inversion H; subst out; clear H.
    exists p0, p1, p2, h, key, c. repeat split; auto.
    + apply timing_ok_spec in Etm. apply Etm.
    + apply timing_ok_spec in Etm. apply Etm.
    + destruct (j_sub c) as [|s|z|] eqn:Esub; simpl in En; try discriminate.
      exists s. split; [reflexivity|]. apply is_nil_false. exact En.
  - intros (p0 & p1 & p2 & h & key & c & Es & Eh & El & Eb & Ec & Etm & (s & Esub & Hne) & Hout).
    rewrite Es, Eh, El, Eb, bytes_eqb_refl. simpl. rewrite Ec.
    apply timing_ok_spec in Etm. rewrite Etm. simpl.
    rewrite Esub. simpl. apply is_nil_false in Hne. rewrite Hne.
    rewrite Hout, Esub. reflexivity.
Qed.

(* ---------- possession under the ideal instance -------------------------- *)
(* if the server accepts with ideal crypto, the MAC it received determines the
   signing key and the token: no other key / token yields these bytes *)
Lemma ideal_server_possession e now rb frames user sk sent :
  e_cr e = ideal ->
  server_run e now rb frames = {| s_out := Accept user sk; s_sent := sent |} ->
  exists claimed tok ra r1 key sub mac,
    srv_step1 (reader_of frames) = S1Ok claimed tok ra r1 /\
    token_valid e now tok key sub /\
    client_proof ideal (i_kdf (i_sign key tok) tok) sub rb (reader_of (r_in r1)) /\
    mac = i_mac (i_kdf (i_sign key tok) tok) (mac_C sub rb) /\
    forall key' tok' m', mac = i_mac (i_kdf (i_sign key' tok') tok') m' ->
                         key' = key /\ tok' = tok /\ m' = mac_C sub rb.
Proof.
  intros Hcr H. apply server_accepts_iff in H.
  destruct H as (claimed & tok & ra & r1 & key & sub & E1 & Htv & Hcp & _).
  rewrite Hcr in Hcp. simpl in Hcp.
  exists claimed, tok, ra, r1, key, sub, (i_mac (i_kdf (i_sign key tok) tok) (mac_C sub rb)).
  repeat split; auto;
    apply ideal_mac_fixes_key in H as (A & B & C); auto.
Qed.

(* if the client accepts with ideal crypto, the MAC it received determines the
   client's own token signature: the server's proof was built from that signature *)
Lemma ideal_client_possession ld ra frames sk sent :
  client_run ideal ld ra frames = {| c_out := CAccept sk; c_sent := sent |} ->
  exists cid tok sig sid rb mac,
    ld = Some (cid, tok, sig) /\
    server_proof ideal (i_kdf sig tok) cid ra sid rb (reader_of frames) /\
    mac = i_mac (i_kdf sig tok) (mac_T cid sid ra rb) /\
    forall sig' tok' m', mac = i_mac (i_kdf sig' tok') m' ->
                         sig' = sig /\ tok' = tok /\ m' = mac_T cid sid ra rb.
Proof.
  intro H. apply client_accepts_iff in H.
  destruct H as (cid & tok & sig & sid & rb & Hld & Hsp & _).
  exists cid, tok, sig, sid, rb, (i_mac (i_kdf sig tok) (mac_T cid sid ra rb)).
  simpl in Hsp. repeat split; auto;
    apply ideal_mac_fixes_signature in H as (A & B & C); auto.
Qed.

Lemma max_age_source e :
  (0 < e_max_age e -> resolved_max_age e = e_max_age e) /\
  (e_max_age e <= 0 -> forall ns,
     e_env_max_age e <> [] -> e_parse_dur e (e_env_max_age e ++ [x73]) = Some ns ->
     resolved_max_age e = Z.quot ns 1000000000) /\
  (e_max_age e <= 0 ->
     (e_env_max_age e = [] \/ e_parse_dur e (e_env_max_age e ++ [x73]) = None) ->
     resolved_max_age e = DefaultTokenMaxAge).
Proof.
  unfold resolved_max_age. repeat split.
  - intro H. apply max_age_of_cfg. exact H.
  - intros H ns Hne Hp. rewrite env_secs_spec.
    apply is_nil_false in Hne. rewrite Hne, Hp. simpl. apply max_age_of_env. exact H.
  - intros H [He|Hp]; rewrite env_secs_spec.
    + rewrite He. simpl. apply max_age_of_default. exact H.
    + destruct (is_nil (e_env_max_age e)); [|rewrite Hp; simpl]; apply max_age_of_default; exact H.
Qed.

(* for a real clock and maximum age the int64 subtraction is exact *)
Lemma wrap64_small z : - 2 ^ 63 <= z < 2 ^ 63 -> wrap64 z = z.
Proof.
  intro H. unfold wrap64.
  change (2 ^ 64) with 18446744073709551616. change (2 ^ 63) with 9223372036854775808 in *.
  rewrite Z.mod_small by lia. lia.
Qed.
Lemma times_valid_plain now ma c :
  0 <= now < 2 ^ 63 -> ma < 2 ^ 63 ->
  (times_valid now ma c <->
   (j_exp c = JAbsent \/ exists z, j_exp c = JNum z /\ now < f2i z) /\
   (j_iat c = JAbsent \/ exists z, j_iat c = JNum z /\ (ma <= 0 \/ now - f2i z <= ma))).
Proof.
  intros Hn Hm. unfold times_valid.
  assert (W : 0 < ma -> wrap64 (now - ma) = now - ma).
  { intro Hp. apply wrap64_small. change (2 ^ 63) with 9223372036854775808 in *. lia. }
  split; intros [He Hi]; (split; [exact He|]); destruct Hi as [Hi|[z [Hz Hle]]];
    try (left; exact Hi); right; exists z; (split; [exact Hz|]);
    destruct (Z_le_gt_dec ma 0) as [Hm0|Hm0]; try (left; exact Hm0); right;
    destruct Hle as [Hle|Hle]; try lia;
    try (rewrite W in Hle by lia; lia); try (rewrite W by lia; lia).
Qed.

(* ---------- an accepted script is bound to the local nonce ---------------- *)
Lemma client_proof_binds_nonce cr K cid rb rb' r0 :
  client_proof cr K cid rb r0 -> client_proof cr K cid rb' r0 -> rb = rb'.
Proof.
  intros (r1 & r2 & n & r3 & r4 & m & r5 & r6 & E0 & E1 & E2 & _ & E3 & _)
         (r1' & r2' & n' & r3' & r4' & m' & r5' & r6' & E0' & E1' & E2' & _ & E3' & _).
  rewrite E0 in E0'. inversion E0'; subst r1'.
  rewrite E1 in E1'. inversion E1'; subst r2'.
  rewrite E2 in E2'. inversion E2'; subst n' r3'.
  rewrite E3 in E3'. inversion E3'. reflexivity.
Qed.

(* the frames a server accepted under nonce rb are refused under any other nonce:
   a recorded exchange cannot be replayed against a server whose nonce is new *)
Lemma server_accept_binds_nonce e now rb rb' frames user sk sent user' sk' sent' :
  server_run e now rb frames = {| s_out := Accept user sk; s_sent := sent |} ->
  server_run e now rb' frames = {| s_out := Accept user' sk'; s_sent := sent' |} ->
  rb = rb'.
Proof.
  intros H H'. apply server_accepts_iff in H, H'.
  destruct H as (claimed & tok & ra & r1 & key & sub & E1 & Htv & Hcp & _).
  destruct H' as (claimed' & tok' & ra' & r1' & key' & sub' & E1' & Htv' & Hcp' & _).
  rewrite E1 in E1'. inversion E1'; subst claimed' tok' ra' r1'.
  destruct (token_valid_fun _ _ _ _ _ _ _ Htv Htv') as [-> ->].
  exact (client_proof_binds_nonce _ _ _ _ _ _ Hcp Hcp').
Qed.

Lemma client_accept_binds_nonce cr ld ra ra' frames sk sent sk' sent' :
  client_run cr ld ra frames = {| c_out := CAccept sk; c_sent := sent |} ->
  client_run cr ld ra' frames = {| c_out := CAccept sk'; c_sent := sent' |} ->
  ra = ra'.
Proof.
  intros H H'. apply client_accepts_iff in H, H'.
  destruct H as (cid & tok & sig & sid & rb & Hld & Hsp & _).
  destruct H' as (cid' & tok' & sig' & sid' & rb' & Hld' & Hsp' & _).
  rewrite Hld in Hld'. inversion Hld'; subst cid' tok' sig'.
  destruct Hsp as (r1 & r2 & r3 & n & r4 & r5 & m & r6 & r7 & k & r8 & r9 & E0 & E1 & E2 & E3 & _ & E4 & _).
  destruct Hsp' as (r1' & r2' & r3' & n' & r4' & r5' & m' & r6' & r7' & k' & r8' & r9' & E0' & E1' & E2' & E3' & _ & E4' & _).
  rewrite E0 in E0'. inversion E0'; subst r1'.
  rewrite E1 in E1'. inversion E1'; subst r2'.
  rewrite E2 in E2'. inversion E2'; subst sid' r3'.
  rewrite E3 in E3'. inversion E3'; subst n' r4'.
  rewrite E4 in E4'. inversion E4'. reflexivity.
Qed.

(* the two proofs are never interchangeable: the MAC input of the server's proof
   differs from the MAC input of the client's proof for the same identity *)
Lemma proofs_not_interchangeable cid sid ra rb rb' : mac_T cid sid ra rb <> mac_C cid rb'.
Proof.
  unfold mac_T, mac_C. induction cid as [|x cid IH]; simpl.
  - discriminate.
  - intro H. inversion H. auto.
Qed.
