(* Proofs/C04Binding.v — the cleartext exchanged before the key is installed is bound into
   the first protected frame of each direction. *)
From Coq Require Import List NArith ZArith Lia Bool.
From Cedar Require Import Lib.Bytes Lib.Sym gen.Consts Model.Frame Model.FrameSpec
     Proofs.FrameBase Proofs.C12Nonce Proofs.C02Prefix.
Import ListNotations.
Local Open Scope N_scope.

(* the bytes a cleartext frame occupies on the wire: 5-byte header, then the payload *)
Definition wire_bytes (fl : N) (d : bytes) : bytes := hdr_of fl (lenN d) ++ d.

(* cleartext operations of an endpoint before the key is installed *)
Inductive cop := CSend (d : bytes) (fl : N) | CRecv (fl : N) (d : bytes)
               | CSetConn (addr : bytes)      (* SetConnection / SetPeerAddr in the middle of the negotiation *)
               | CSetAuth (b : bool)          (* SetAuthenticated: the flag only *)
               | CNop.                        (* pure accessors: IsEncrypted, GetPeerAddr, IsConnected, GetConnection ... *)

(* SetAuthenticated writes the flag and nothing else (stream.go SetAuthenticated) *)
Definition set_auth (s : stream) (b : bool) : stream :=
  {| key := key s; encrypted := encrypted s; authenticated := b;
     enc_iv := enc_iv s; dec_iv := dec_iv s; enc_ctr := enc_ctr s; dec_ctr := dec_ctr s;
     fin_send_aad := fin_send_aad s; fin_recv_aad := fin_recv_aad s;
     send_dg := send_dg s; recv_dg := recv_dg s;
     send_buf := send_buf s; send_eom := send_eom s;
     recv_buf := recv_buf s; bytes_read := bytes_read s; total_msg := total_msg s; in_msg := in_msg s;
     before_secret := before_secret s; peer_addr := peer_addr s |}.

Definition clear_step (s : stream) (o : cop) : option stream :=
  match o with
  | CSend d fl => match send_frame s d fl with (s1, SOk _) => Some s1 | (_, SErr _) => None end
  | CRecv fl d => match recv_frame_we s {| f_flag := fl; f_body := Raw d |} with
                  | (s1, SOk _) => Some s1 | (_, SErr _) => None end
  | CSetConn addr => Some (set_connection s addr)
  | CSetAuth b => Some (set_auth s b)
  | CNop => Some s
  end.
Fixpoint clear_run (s : stream) (ops : list cop) : option stream :=
  match ops with
  | [] => Some s
  | o :: r => match clear_step s o with Some s1 => clear_run s1 r | None => None end
  end.

Fixpoint sent_bytes (ops : list cop) : bytes :=
  match ops with
  | [] => []
  | CSend d fl :: r => wire_bytes fl d ++ sent_bytes r
  | CRecv _ _ :: r => sent_bytes r
  | CSetConn _ :: r => sent_bytes r
  | CSetAuth _ :: r => sent_bytes r
  | CNop :: r => sent_bytes r
  end.
Fixpoint recvd_bytes (ops : list cop) : bytes :=
  match ops with
  | [] => []
  | CRecv fl d :: r => wire_bytes fl d ++ recvd_bytes r
  | CSend _ _ :: r => recvd_bytes r
  | CSetConn _ :: r => recvd_bytes r
  | CSetAuth _ :: r => recvd_bytes r
  | CNop :: r => recvd_bytes r
  end.
Fixpoint any_sent (ops : list cop) : bool :=
  match ops with [] => false | CSend _ _ :: _ => true | CRecv _ _ :: r => any_sent r | CSetConn _ :: r => any_sent r
               | CSetAuth _ :: r => any_sent r | CNop :: r => any_sent r end.
Fixpoint any_recvd (ops : list cop) : bool :=
  match ops with [] => false | CRecv _ _ :: _ => true | CSend _ _ :: r => any_recvd r | CSetConn _ :: r => any_recvd r
               | CSetAuth _ :: r => any_recvd r | CNop :: r => any_recvd r end.

(* a stream still in its cleartext phase: no key, digests running *)
Record clear_phase (s : stream) (sb rb : bytes) (sw rw : bool) : Prop := {
  cp_key : key s = None;
  cp_sd : send_dg s = {| dg_acc := sb; dg_written := sw; dg_final := None |};
  cp_rd : recv_dg s = {| dg_acc := rb; dg_written := rw; dg_final := None |}
}.

Lemma clear_send_step s d fl s' f sb rb sw rw :
  clear_phase s sb rb sw rw -> send_frame s d fl = (s', SOk f) ->
  clear_phase s' (sb ++ wire_bytes fl d) rb true rw.
Proof.
  intros [Hk Hsd Hrd] Hs. unfold send_frame in Hs.
  destruct (MaxMessageSize <? lenN d); [discriminate|]. rewrite Hk in Hs.
  injection Hs as <- _. constructor; proj_simpl; [exact Hk| |exact Hrd].
  rewrite Hsd. unfold dg_write. cbn [dg_final dg_acc]. reflexivity.
Qed.

Lemma clear_recv_step s fl d s' x sb rb sw rw :
  clear_phase s sb rb sw rw -> recv_frame_we s {| f_flag := fl; f_body := Raw d |} = (s', SOk x) ->
  clear_phase s' sb (rb ++ wire_bytes fl d) sw true.
Proof.
  intros [Hk Hsd Hrd] Hr. unfold recv_frame_we, recv_frame_gen in Hr. cbn [f_flag f_body body_len] in Hr.
  assert (Hna : enc_active s = false) by (unfold enc_active; rewrite Hk; reflexivity).
  destruct (max_wire s <? lenN d); [discriminate|].
  destruct (FlagMaxRecvWE <? fl); [discriminate|].
  destruct (lenN d =? 0) eqn:E0.
  - rewrite Hna in Hr. injection Hr as <- _.
    apply N.eqb_eq in E0. pose proof (lenN_zero_nil _ E0) as ->.
    unfold note_recv. constructor; proj_simpl; [exact Hk|exact Hsd|].
    rewrite Hrd. unfold dg_write, wire_bytes. cbn [dg_final dg_acc]. rewrite app_nil_r. reflexivity.
  - unfold recv_body in Hr. rewrite Hna in Hr. injection Hr as <- _.
    unfold note_recv. constructor; proj_simpl; [exact Hk|exact Hsd|].
    rewrite Hrd. unfold dg_write, wire_bytes. cbn [dg_final dg_acc]. reflexivity.
Qed.

(* every cleartext frame handled before the key is installed feeds the digests with exactly
   its wire bytes - zero-length frames included *)
Lemma digest_covers_all ops : forall s s' sb rb sw rw,
  clear_phase s sb rb sw rw -> clear_run s ops = Some s' ->
  clear_phase s' (sb ++ sent_bytes ops) (rb ++ recvd_bytes ops) (sw || any_sent ops) (rw || any_recvd ops).
Proof.
  induction ops as [|o ops IH]; intros s s' sb rb sw rw C Hr; cbn [clear_run] in Hr.
  - injection Hr as <-. cbn [sent_bytes recvd_bytes any_sent any_recvd]. rewrite !app_nil_r, !orb_false_r. exact C.
  - destruct (clear_step s o) as [s1|] eqn:E1; [|discriminate].
    destruct o as [d fl|fl d|addr|b|]; cbn [clear_step] in E1.
    5: { injection E1 as <-. specialize (IH _ _ _ _ _ _ C Hr). cbn [sent_bytes recvd_bytes any_sent any_recvd]. exact IH. }
    4: { injection E1 as <-.
         assert (C1 : clear_phase (set_auth s b) sb rb sw rw) by (destruct C as [Hk Hsd Hrd]; constructor; assumption).
         specialize (IH _ _ _ _ _ _ C1 Hr). cbn [sent_bytes recvd_bytes any_sent any_recvd]. exact IH. }
    3: { injection E1 as <-.
         assert (C1 : clear_phase (set_connection s addr) sb rb sw rw) by (destruct C as [Hk Hsd Hrd]; constructor; assumption).
         specialize (IH _ _ _ _ _ _ C1 Hr). cbn [sent_bytes recvd_bytes any_sent any_recvd]. exact IH. }
    + destruct (send_frame s d fl) as [s2 [f|e]] eqn:Es; [|discriminate]. injection E1 as <-.
      pose proof (clear_send_step _ _ _ _ _ _ _ _ _ C Es) as C1.
      specialize (IH _ _ _ _ _ _ C1 Hr). cbn [sent_bytes recvd_bytes any_sent any_recvd].
      rewrite app_assoc, orb_true_r. cbn [orb] in IH. exact IH.
    + destruct (recv_frame_we s {| f_flag := fl; f_body := Raw d |}) as [s2 [x|e]] eqn:Er; [|discriminate].
      injection E1 as <-.
      pose proof (clear_recv_step _ _ _ _ _ _ _ _ _ C Er) as C1.
      specialize (IH _ _ _ _ _ _ C1 Hr). cbn [sent_bytes recvd_bytes any_sent any_recvd].
      rewrite app_assoc, orb_true_r. cbn [orb] in IH. exact IH.
Qed.

Lemma new_stream_clear : clear_phase new_stream [] [] false false.
Proof. constructor; reflexivity. Qed.

(* wire bytes are never empty, so "nothing sent" and "empty transcript" coincide *)
Local Transparent hdr_of.
Lemma wire_bytes_nonempty fl d : wire_bytes fl d <> [].
Proof. unfold wire_bytes, hdr_of. cbn [app]. discriminate. Qed.
Local Opaque hdr_of.

Lemma any_sent_bytes ops : any_sent ops = false -> sent_bytes ops = [].
Proof. induction ops as [|[d fl|fl d|addr|b|] ops IH]; cbn; [reflexivity|discriminate|exact IH|exact IH|exact IH|exact IH]. Qed.
Lemma any_recvd_bytes ops : any_recvd ops = false -> recvd_bytes ops = [].
Proof. induction ops as [|[d fl|fl d|addr|b|] ops IH]; cbn; [reflexivity|exact IH|discriminate|exact IH|exact IH|exact IH]. Qed.
Lemma sent_bytes_any ops : any_sent ops = true -> sent_bytes ops <> [].
Proof.
  induction ops as [|[d fl|fl d|addr|b|] ops IH]; cbn; [discriminate| |exact IH|exact IH|exact IH|exact IH].
  intros _ E. apply app_eq_nil in E as [E _]. exact (wire_bytes_nonempty _ _ E).
Qed.
Lemma recvd_bytes_any ops : any_recvd ops = true -> recvd_bytes ops <> [].
Proof.
  induction ops as [|[d fl|fl d|addr|b|] ops IH]; cbn; [discriminate|exact IH| |exact IH|exact IH|exact IH].
  intros _ E. apply app_eq_nil in E as [E _]. exact (wire_bytes_nonempty _ _ E).
Qed.

(* digest value of a running digest, as a function of what was fed *)
Definition dval (bs : bytes) (w : bool) : digest := if w then H bs else DZero.

Lemma dval_eq b1 w1 b2 w2 :
  (w1 = false -> b1 = []) -> (w2 = false -> b2 = []) -> (w1 = true -> b1 <> []) -> (w2 = true -> b2 <> []) ->
  dval b1 w1 = dval b2 w2 -> b1 = b2.
Proof.
  intros H1 H2 H3 H4 E. unfold dval in E. destruct w1, w2.
  - apply H_inj. exact E.
  - discriminate.
  - discriminate.
  - rewrite H1, H2; reflexivity.
Qed.

(* ---- acceptance of a first protected frame forces equal digests ---------- *)
Lemma first_frame_binds A B k d fl A' f f' ivo B' x :
  key A = Some k -> encrypted A = true -> fin_send_aad A = false -> enc_ctr A <= CounterGuard ->
  send_frame A d fl = (A', SOk f) ->
  key B = Some k -> encrypted B = true -> fin_recv_aad B = false ->
  (exists ivo0 ct, f_body f = Ct ivo0 ct /\ f_body f' = Ct ivo ct) ->
  recv_frame_we B f' = (B', SOk x) ->
  dg_value (send_dg A) = dg_value (recv_dg B) /\ dg_value (recv_dg A) = dg_value (send_dg B).
Proof.
  intros HkA HeA HfA Hle Hs HkB HeB HfB [ivo0 [ct [Hbf Hbf']]] Hr.
  destruct (send_frame_enc _ _ _ _ _ _ HkA HeA Hle Hs) as [_ [_ [_ [_ [_ [_ Hb]]]]]].
  rewrite Hbf in Hb. injection Hb as _ Hct.
  assert (Hact : enc_active B = true) by (unfold enc_active; rewrite HkB, HeB; reflexivity).
  destruct x as [d' fl'].
  destruct (recv_we_enc_inv _ _ _ _ _ _ Hact HkB Hr) as [ivo1 [ct1 [div [Hb1 [_ [_ [_ Hopen]]]]]]].
  rewrite Hbf' in Hb1. injection Hb1 as _ <-.
  apply open_only_seal in Hopen. rewrite Hct in Hopen.
  apply seal_inj in Hopen as [_ [_ [Ha _]]].
  unfold aad_send, aad_recv in Ha. rewrite HfA, HfB in Ha. injection Ha as H1 H2 _.
  split; assumption.
Qed.

Lemma set_key_props s k iv s' :
  set_key s k iv = SOk s' ->
  key s' = Some k /\ encrypted s' = true /\ fin_send_aad s' = false /\ fin_recv_aad s' = false /\
  enc_ctr s' = 0 /\ send_dg s' = dg_finalize (send_dg s) /\ recv_dg s' = dg_finalize (recv_dg s).
Proof.
  unfold set_key. destruct (negb (lenN k =? KeyLen)); [discriminate|].
  intro E. injection E as <-. repeat split; reflexivity.
Qed.

(* ---- end to end: two endpoints, arbitrary cleartext exchanges seen through any relay ----- *)
Theorem binding_e2e opsA opsB A B k ivA ivB A1 B1 d fl A2 f f' ivo B2 x :
  clear_run new_stream opsA = Some A -> clear_run new_stream opsB = Some B ->
  set_key A k ivA = SOk A1 -> set_key B k ivB = SOk B1 ->
  send_frame A1 d fl = (A2, SOk f) ->
  (exists ivo0 ct, f_body f = Ct ivo0 ct /\ f_body f' = Ct ivo ct) ->
  recv_frame_we B1 f' = (B2, SOk x) ->
  sent_bytes opsA = recvd_bytes opsB /\ recvd_bytes opsA = sent_bytes opsB.
Proof.
  intros RA RB KA KB Hs Hct Hr.
  pose proof (digest_covers_all _ _ _ _ _ _ _ new_stream_clear RA) as [CkA CsA CrA].
  pose proof (digest_covers_all _ _ _ _ _ _ _ new_stream_clear RB) as [CkB CsB CrB].
  cbn [app orb] in *.
  destruct (set_key_props _ _ _ _ KA) as [KkA [KeA [KfA [_ [KcA [KsA KrA]]]]]].
  destruct (set_key_props _ _ _ _ KB) as [KkB [KeB [_ [KfB [_ [KsB KrB]]]]]].
  assert (Hle : enc_ctr A1 <= CounterGuard) by (rewrite KcA; vm_compute; discriminate).
  pose proof (first_frame_binds A1 B1 k d fl A2 f f' ivo B2 x KkA KeA KfA Hle Hs KkB KeB KfB Hct Hr) as Hb.
  rewrite KsA, KrA, KsB, KrB in Hb.
  rewrite !dg_value_finalize in Hb. destruct Hb as [H1 H2].
  rewrite CsA, CrB in H1. rewrite CrA, CsB in H2.
  unfold dg_value in H1, H2. cbn [dg_final dg_written dg_acc] in H1, H2.
  split.
  - apply (dval_eq _ (any_sent opsA) _ (any_recvd opsB)); try exact H1.
    + apply any_sent_bytes. + apply any_recvd_bytes. + apply sent_bytes_any. + apply recvd_bytes_any.
  - apply (dval_eq _ (any_recvd opsA) _ (any_sent opsB)); try exact H2.
    + apply any_recvd_bytes. + apply any_sent_bytes. + apply recvd_bytes_any. + apply sent_bytes_any.
Qed.

(* FinalizeDigests before SetSymmetricKey changes nothing: key installation freezes the same values *)
Lemma set_key_after_finalize s k iv : set_key (finalize_digests s) k iv = set_key s k iv.
Proof.
  unfold set_key, finalize_digests. destruct (negb (lenN k =? KeyLen)); [reflexivity|].
  proj_simpl. rewrite !dg_finalize_idem. reflexivity.
Qed.

(* ---- the classes of Stream methods the handshake code may call, and the operation each stands for ---- *)
Inductive copclass := KSend | KRecv | KSetAddr | KSetAuth | KNop    (* cleartext-phase operations: constructors of cop *)
                    | KKey | KFinalize.                              (* what ends the cleartext phase *)
Definition cop_class (o : cop) : copclass :=
  match o with CSend _ _ => KSend | CRecv _ _ => KRecv | CSetConn _ => KSetAddr | CSetAuth _ => KSetAuth | CNop => KNop end.
Definition cleartext_class (c : copclass) : bool := match c with KKey | KFinalize => false | _ => true end.

Lemma cleartext_class_has_cop c : cleartext_class c = true -> exists o, cop_class o = c.
Proof.
  destruct c; cbn; intro E; try discriminate.
  - exists (CSend [] 1). reflexivity.
  - exists (CRecv 1 []). reflexivity.
  - exists (CSetConn []). reflexivity.
  - exists (CSetAuth true). reflexivity.
  - exists CNop. reflexivity.
Qed.

(* operations that neither send nor receive leave both digests exactly as they were *)
Lemma quiet_step_keeps_digests s o s' :
  (cop_class o = KSetAddr \/ cop_class o = KSetAuth \/ cop_class o = KNop) -> clear_step s o = Some s' ->
  send_dg s' = send_dg s /\ recv_dg s' = recv_dg s /\ key s' = key s.
Proof.
  destruct o as [d fl|fl d|addr|b|]; cbn [cop_class clear_step]; intros [E|[E|E]] H; try discriminate;
    injection H as <-; repeat split; reflexivity.
Qed.
