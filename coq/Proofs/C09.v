(* Proofs/C09.v — private attributes: default deny, non-interference, secrets only in sealed frames. *)
From Coq Require Import List NArith ZArith Lia Bool.
From Coq Require Import ZifyBool ZifyNat ZifyN.
From Cedar Require Import Lib.Bytes gen.Consts Model.Msg Model.Privacy Model.AdWire.
Import ListNotations.
Local Open Scope N_scope.

(* ------------------------------------------------------------------ *)
(* 1. the filters                                                      *)

Lemma dropped_exP exV2 enc n :
  is_private_any n = true -> dropped true exV2 enc n = true.
Proof.
  unfold dropped, is_private_any. cbn [orb]. intro H.
  apply orb_true_iff in H as [H|H]; rewrite H; cbn; [reflexivity|].
  rewrite orb_true_r. reflexivity.
Qed.

Lemma dropped_exP_enc exV2 enc n :
  in_list n enc = true -> dropped true exV2 enc n = true.
Proof. unfold dropped. cbn [orb]. intro H. rewrite H. rewrite orb_true_r. reflexivity. Qed.

Lemma dropped_exV2 exP enc n :
  is_private_v2 n = true -> dropped exP true enc n = true.
Proof.
  unfold dropped. rewrite orb_true_r. intro H. rewrite H. cbn. rewrite !orb_true_r. reflexivity.
Qed.

Lemma in_attrs_to_send c attrs a :
  In a (attrs_to_send c attrs) ->
  In a attrs /\
  dropped (exclude_private c) (exclude_private_v2 c) (c_enc_attrs c) (fst a) = false /\
  (c_whitelist c <> [] -> in_list (fst a) (c_whitelist c) = true).
Proof.
  unfold attrs_to_send, filter_whitelist, filter_privacy.
  destruct (c_whitelist c) as [|w wl] eqn:E; intro H; apply filter_In in H as [H1 H2].
  - split; [exact H1|]. split; [|congruence]. now apply negb_true_iff in H2.
  - apply andb_true_iff in H2 as [H2 H3]. split; [exact H1|]. split; [now apply negb_true_iff in H3|].
    intros _. exact H2.
Qed.

Lemma default_deny c attrs a :
  include_private c = false ->
  In a (attrs_to_send c attrs) ->
  is_private_any (fst a) = false /\ in_list (fst a) (c_enc_attrs c) = false.
Proof.
  intros Hinc Hin. apply in_attrs_to_send in Hin as (_ & Hd & _).
  unfold exclude_private in Hd. rewrite Hinc in Hd. cbn [negb] in Hd.
  split.
  - destruct (is_private_any (fst a)) eqn:E; [|reflexivity].
    rewrite (dropped_exP _ _ _ E) in Hd. discriminate.
  - destruct (in_list (fst a) (c_enc_attrs c)) eqn:E; [|reflexivity].
    rewrite (dropped_exP_enc _ _ _ E) in Hd. discriminate.
Qed.

Lemma old_peer_no_v2 c attrs a v :
  c_peer c = Some v -> built_since v 9 9 0 = false ->
  In a (attrs_to_send c attrs) -> is_private_v2 (fst a) = false.
Proof.
  intros Hp Hb Hin. apply in_attrs_to_send in Hin as (_ & Hd & _).
  unfold exclude_private_v2 in Hd. rewrite Hp, Hb in Hd. cbn [negb] in Hd. rewrite orb_true_r in Hd.
  destruct (is_private_v2 (fst a)) eqn:E; [|reflexivity].
  rewrite (dropped_exV2 _ _ _ E) in Hd. discriminate.
Qed.

Lemma sent_subset c attrs a :
  In a (attrs_to_send c attrs) ->
  In a attrs /\ (c_whitelist c <> [] -> in_list (fst a) (c_whitelist c) = true).
Proof. intro H. apply in_attrs_to_send in H as (H1 & _ & H3). auto. Qed.

(* with the opt-in and a current (or unknown) peer nothing is withheld for privacy *)
Lemma opt_in_sends_all c attrs a :
  include_private c = true -> c_whitelist c = [] ->
  (forall v, c_peer c = Some v -> built_since v 9 9 0 = true) ->
  In a attrs -> In a (attrs_to_send c attrs).
Proof.
  intros Hinc Hwl Hpeer Hin. unfold attrs_to_send, filter_privacy. rewrite Hwl.
  apply filter_In. split; [exact Hin|].
  unfold exclude_private, exclude_private_v2, exclude_private. rewrite Hinc. cbn [negb orb].
  destruct (c_peer c) as [v|] eqn:E; [rewrite (Hpeer v eq_refl)|]; reflexivity.
Qed.

(* ------------------------------------------------------------------ *)
(* 2. Go's predicates cover ASCII case-insensitive matching            *)

Lemma lower_ascii_ge128 b : 128 <= b2n b -> lower_ascii b = b.
Proof. unfold lower_ascii, is_upper. intro H. destruct ((65 <=? b2n b) && (b2n b <=? 90)) eqn:E; [lia|reflexivity]. Qed.

Lemma go_lower_key_ascii s :
  Forall (fun b => b2n b < 128) (map lower_ascii s) -> go_lower_key s = map lower_ascii s.
Proof.
  induction s as [|b r IH]; intro H; [reflexivity|].
  cbn [map] in H. inversion H as [|x l Hb Hr]; subst.
  assert (Hlt : b2n b < 128).
  { destruct (N.lt_ge_cases (b2n b) 128) as [L|G]; [exact L|]. rewrite (lower_ascii_ge128 _ G) in Hb. exact Hb. }
  cbn [go_lower_key map].
  assert (E1 : byte_eqb b xc4 = false).
  { unfold byte_eqb. apply N.eqb_neq. change (b2n xc4) with 196. lia. }
  assert (E2 : byte_eqb b xe2 = false).
  { unfold byte_eqb. apply N.eqb_neq. change (b2n xe2) with 226. lia. }
  rewrite E1, E2. f_equal. apply IH. exact Hr.
Qed.

Lemma private_v1_names_ascii :
  forallb (fun nm => forallb (fun b => b2n b <? 128) nm && bytes_eqb (map lower_ascii nm) nm) private_v1_names = true.
Proof. vm_compute. reflexivity. Qed.

Lemma spec_v1_covered n : spec_private_v1 n = true -> is_private_v1 n = true.
Proof.
  unfold spec_private_v1, is_private_v1. intro H.
  apply existsb_exists in H as (nm & Hin & Heq).
  apply existsb_exists. exists nm. split; [exact Hin|].
  pose proof private_v1_names_ascii as HA. rewrite forallb_forall in HA. specialize (HA nm Hin).
  apply andb_true_iff in HA as [HA1 HA2].
  unfold ascii_fold_eqb in Heq. apply bytes_eqb_eq in Heq. apply bytes_eqb_eq in HA2.
  rewrite HA2 in Heq.
  apply bytes_eqb_eq. rewrite go_lower_key_ascii; [exact Heq|].
  rewrite Heq. apply Forall_forall. intros b Hb. rewrite forallb_forall in HA1.
  specialize (HA1 b Hb). lia.
Qed.

Lemma spec_v2_covered n : spec_private_v2 n = true -> is_private_v2 n = true.
Proof.
  unfold spec_private_v2, is_private_v2, ascii_fold_eqb. intro H.
  change (map lower_ascii private_v2_prefix) with private_v2_prefix in H.
  rewrite H, andb_true_r.
  apply bytes_eqb_eq in H.
  assert (L : length (firstn 12 n) = 12%nat).
  { rewrite <- (map_length lower_ascii), H. reflexivity. }
  rewrite firstn_length in L. rewrite lenN_spec. lia.
Qed.

Lemma spec_private_covered n : spec_private n = true -> is_private_any n = true.
Proof.
  unfold spec_private, is_private_any. intro H. apply orb_true_iff in H as [H|H]; apply orb_true_iff.
  - left. now apply spec_v1_covered.
  - right. now apply spec_v2_covered.
Qed.

(* ------------------------------------------------------------------ *)
(* 3. non-interference without the opt-in                              *)

Definition public_attr (a : attr) : bool := negb (is_private_any (fst a)).

Lemma filter_filter {A} (f g : A -> bool) l : filter f (filter g l) = filter (fun x => f x && g x) l.
Proof.
  induction l as [|x l IH]; [reflexivity|]. cbn [filter].
  destruct (g x) eqn:G; cbn [filter]; rewrite ?IH, ?andb_true_r, ?andb_false_r; [|reflexivity].
  destruct (f x); reflexivity.
Qed.

Lemma filter_ext' {A} (f g : A -> bool) l : (forall x, f x = g x) -> filter f l = filter g l.
Proof. intro H. induction l as [|x l IH]; [reflexivity|]. cbn [filter]. rewrite H, IH. reflexivity. Qed.

Lemma attrs_to_send_public c attrs :
  include_private c = false ->
  attrs_to_send c attrs = attrs_to_send c (filter public_attr attrs).
Proof.
  intro Hinc. unfold attrs_to_send, filter_whitelist, filter_privacy.
  assert (K : forall a : attr,
     negb (dropped (exclude_private c) (exclude_private_v2 c) (c_enc_attrs c) (fst a)) =
     negb (dropped (exclude_private c) (exclude_private_v2 c) (c_enc_attrs c) (fst a)) && public_attr a).
  { intro a. unfold public_attr, exclude_private. rewrite Hinc. cbn [negb].
    destruct (is_private_any (fst a)) eqn:E; [|now rewrite andb_true_r].
    rewrite (dropped_exP _ _ _ E). reflexivity. }
  destruct (c_whitelist c); rewrite filter_filter; apply filter_ext'; intro a.
  - apply K.
  - rewrite <- andb_assoc. f_equal. apply K.
Qed.

Lemma noninterference c st a1 a2 :
  include_private c = false ->
  filter public_attr (ad_attrs a1) = filter public_attr (ad_attrs a2) ->
  ad_mytype a1 = ad_mytype a2 -> ad_targettype a1 = ad_targettype a2 ->
  put_ad c st a1 = put_ad c st a2.
Proof.
  intros Hinc Hpub Hm Ht. unfold put_ad. cbv zeta.
  rewrite (attrs_to_send_public c (ad_attrs a1) Hinc), (attrs_to_send_public c (ad_attrs a2) Hinc), Hpub, Hm, Ht.
  reflexivity.
Qed.

(* ------------------------------------------------------------------ *)
(* 4. shapes: the framing of a write depends on lengths only           *)

Definition fshape (f : mframe) : N * bool := (lenN (fst f), snd f).
Definition wsim (w1 w2 : writer) : Prop :=
  lenN (w_buf w1) = lenN (w_buf w2) /\ map fshape (w_out w1) = map fshape (w_out w2).

Lemma wsim_refl w : wsim w w. Proof. split; reflexivity. Qed.

Lemma wsim_flush w1 w2 e : wsim w1 w2 -> wsim (flush w1 e) (flush w2 e).
Proof.
  intros [Hb Ho]. split; [reflexivity|]. cbn [flush w_out]. rewrite !map_app, Ho.
  cbn [map]. unfold fshape at 2 4. cbn [fst snd]. rewrite Hb. reflexivity.
Qed.

Lemma wsim_append w1 w2 b1 b2 : wsim w1 w2 -> lenN b1 = lenN b2 -> wsim (w_append w1 b1) (w_append w2 b2).
Proof. intros [Hb Ho] Hl. split; cbn [w_append w_buf w_out]; [rewrite !lenN_app; lia|exact Ho]. Qed.

Lemma wsim_flush_if w1 w2 (c1 c2 : bool) e : wsim w1 w2 -> c1 = c2 ->
  wsim (if c1 then flush w1 e else w1) (if c2 then flush w2 e else w2).
Proof. intros H ->. destruct c2; [apply wsim_flush|]; exact H. Qed.

Lemma wsim_put_int w1 w2 z : wsim w1 w2 -> wsim (put_int w1 z) (put_int w2 z).
Proof.
  intro H. unfold put_int. cbv zeta. apply wsim_append; [|reflexivity].
  apply wsim_flush_if; [exact H|]. destruct H as [Hb _]. rewrite Hb. reflexivity.
Qed.

Lemma lenN_firstn k (l : bytes) : lenN (firstn k l) = N.min (N.of_nat k) (lenN l).
Proof. rewrite !lenN_spec, firstn_length. lia. Qed.
Lemma lenN_skipn k (l : bytes) : lenN (skipn k l) = lenN l - N.of_nat k.
Proof. rewrite !lenN_spec, skipn_length. lia. Qed.

Lemma wsim_put_chunks fuel : forall w1 w2 d1 d2,
  wsim w1 w2 -> lenN d1 = lenN d2 -> wsim (put_chunks fuel w1 d1) (put_chunks fuel w2 d2).
Proof.
  induction fuel as [|f IH]; intros w1 w2 d1 d2 H Hl; [exact H|].
  cbn [put_chunks].
  destruct d1 as [|x1 r1], d2 as [|x2 r2]; try exact H;
    try (rewrite lenN_cons, lenN_nil in Hl; lia).
  apply IH.
  - apply wsim_append.
    + apply wsim_flush_if; [exact H|]. destruct H as [Hb _]. rewrite Hb. reflexivity.
    + rewrite !lenN_firstn, Hl. reflexivity.
  - rewrite !lenN_skipn, Hl. reflexivity.
Qed.

Lemma wsim_put_bytes w1 w2 d1 d2 :
  wsim w1 w2 -> lenN d1 = lenN d2 -> wsim (put_bytes w1 d1) (put_bytes w2 d2).
Proof.
  intros H Hl. unfold put_bytes. cbv zeta. rewrite Hl.
  destruct (lenN d2 =? 0); [exact H|].
  destruct (MaxFrameSize <? lenN d2).
  - apply wsim_put_chunks; assumption.
  - apply wsim_append; [|exact Hl]. apply wsim_flush_if; [exact H|]. destruct H as [Hb _]. rewrite Hb. reflexivity.
Qed.

Lemma wsim_put_string enc w1 w2 s1 s2 :
  wsim w1 w2 -> lenN (upto_nul s1) = lenN (upto_nul s2) ->
  wsim (put_string enc w1 s1) (put_string enc w2 s2).
Proof.
  intros H Hl. unfold put_string. cbv zeta.
  assert (Hd : lenN (upto_nul s1 ++ [x00]) = lenN (upto_nul s2 ++ [x00])) by (rewrite !lenN_app, Hl; reflexivity).
  rewrite Hd.
  set (needed := if enc then lenN (upto_nul s2 ++ [x00]) + 8 else lenN (upto_nul s2 ++ [x00])).
  destruct (MaxFrameSize <? needed).
  - apply wsim_put_bytes; [|exact Hd].
    assert (H1 : wsim (if 0 <? lenN (w_buf w1) then flush w1 false else w1)
                      (if 0 <? lenN (w_buf w2) then flush w2 false else w2)).
    { apply wsim_flush_if; [exact H|]. destruct H as [Hb _]. rewrite Hb. reflexivity. }
    destruct enc; [apply wsim_put_int|]; exact H1.
  - apply wsim_append; [|exact Hd].
    assert (H1 : wsim (if TargetFrameSize <? lenN (w_buf w1) + needed then flush w1 false else w1)
                      (if TargetFrameSize <? lenN (w_buf w2) + needed then flush w2 false else w2)).
    { apply wsim_flush_if; [exact H|]. destruct H as [Hb _]. rewrite Hb. reflexivity. }
    destruct enc; [apply wsim_put_int|]; exact H1.
Qed.

(* ------------------------------------------------------------------ *)
(* 5. what the connection shows                                        *)

(* two sender states an observer cannot tell apart, between two writes *)
Record sim (st1 st2 : sstate) : Prop := {
  sim_buf : s_buf st1 = s_buf st2;
  sim_out : view (s_out st1) = view (s_out st2);
  sim_key : s_key st1 = s_key st2;
  sim_enc : s_enc st1 = s_enc st2;
  sim_saved : s_saved st1 = s_saved st2 }.

Lemma sim_refl st : sim st st. Proof. constructor; reflexivity. Qed.

Lemma view_app a b : view (a ++ b) = view a ++ view b.
Proof. apply map_app. Qed.

Lemma sim_lift f st1 st2 : sim st1 st2 -> sim (s_lift f st1) (s_lift f st2).
Proof.
  intros [Hb Ho Hk He Hs]. unfold s_lift, sealed_now. rewrite Hb, Hk, He.
  constructor; cbn [s_buf s_out s_key s_enc s_saved]; try assumption; try reflexivity.
  rewrite !view_app, Ho. reflexivity.
Qed.

Lemma sim_put_string st1 st2 s : sim st1 st2 -> sim (s_put_string st1 s) (s_put_string st2 s).
Proof. intro H. unfold s_put_string. rewrite (sim_enc _ _ H). now apply sim_lift. Qed.

Lemma view_sealed_shapes (o1 o2 : list mframe) :
  map fshape o1 = map fshape o2 ->
  view (map (fun fr => (true, fr)) o1) = view (map (fun fr => (true, fr)) o2).
Proof.
  revert o2; induction o1 as [|[d1 e1] o1 IH]; intros [|[d2 e2] o2] H; try discriminate; [reflexivity|].
  cbn [map] in H. unfold fshape at 1 3 in H. cbn [fst snd] in H. inversion H as [[Hl He Hr]].
  cbn [map view view1]. unfold view in IH. rewrite (IH _ Hr), Hl. reflexivity.
Qed.

(* putSecretExpr on a keyed, non-encrypting stream: only the length of the secret shows *)
Lemma sim_put_secret st1 st2 e1 e2 :
  sim st1 st2 -> s_key st1 = true -> s_enc st1 = false ->
  lenN (upto_nul e1) = lenN (upto_nul e2) ->
  sim (put_secret_expr st1 e1) (put_secret_expr st2 e2).
Proof.
  intros H Hk He Hl. unfold put_secret_expr.
  set (a1 := s_flush (s_put_string st1 secret_marker) false).
  set (a2 := s_flush (s_put_string st2 secret_marker) false).
  assert (Ha : sim a1 a2) by (apply sim_lift, sim_put_string, H).
  assert (Hak : s_key a1 = true) by exact Hk.
  assert (Hae : s_enc a1 = false) by exact He.
  assert (Hab : s_buf a1 = []) by reflexivity.
  assert (Hab2 : s_buf a2 = []) by reflexivity.
  destruct Ha as [_ Ho Hk' He' Hs'].
  rewrite Hak in Hk'. rewrite Hae in He'.
  unfold s_put_string, s_flush, s_lift, s_prepare, s_restore, sealed_now.
  cbn [s_buf s_out s_key s_enc s_saved].
  rewrite <- Hk', <- He', Hak, Hae, Hab, Hab2. cbn [andb negb].
  pose proof (wsim_put_string true {| w_buf := []; w_out := [] |} {| w_buf := []; w_out := [] |} e1 e2
                (wsim_refl _) Hl) as [Wb Wo].
  constructor; cbn [s_buf s_out s_key s_enc s_saved flush w_buf w_out]; try reflexivity.
  - rewrite !view_app, Ho, (view_sealed_shapes _ _ Wo). cbn [app map view view1]. rewrite Wb. reflexivity.
Qed.

Definition secret_attr (c : config) (n : bytes) : bool := is_private_any n || in_list n (c_enc_attrs c).

(* two attribute lists that differ only in the values of secret attributes, length preserved *)
Definition same_but_secrets (c : config) (l1 l2 : list attr) : Prop :=
  Forall2 (fun a1 a2 => fst a1 = fst a2 /\
             if secret_attr c (fst a1) then lenN (upto_nul (expr_text a1)) = lenN (upto_nul (expr_text a2))
             else snd a1 = snd a2) l1 l2.

Lemma same_but_secrets_send c l1 l2 :
  same_but_secrets c l1 l2 -> same_but_secrets c (attrs_to_send c l1) (attrs_to_send c l2).
Proof.
  unfold attrs_to_send, filter_whitelist, filter_privacy.
  assert (G : forall p : bytes -> bool, same_but_secrets c l1 l2 ->
             same_but_secrets c (filter (fun a => p (fst a)) l1) (filter (fun a => p (fst a)) l2)).
  { intros p H. induction H as [|a1 a2 r1 r2 [Hn Hv] Hr IH]; [constructor|].
    cbn [filter]. rewrite Hn. destruct (p (fst a2)); [constructor; [split; [exact Hn|exact Hv]|exact IH]|exact IH]. }
  intro H. destruct (c_whitelist c).
  - apply (G (fun n => negb (dropped (exclude_private c) (exclude_private_v2 c) (c_enc_attrs c) n)) H).
  - apply (G (fun n => in_list n (b :: l) && negb (dropped (exclude_private c) (exclude_private_v2 c) (c_enc_attrs c) n)) H).
Qed.

Lemma put_secret_keeps st e : s_key st = true -> s_enc st = false ->
  s_key (put_secret_expr st e) = true /\ s_enc (put_secret_expr st e) = false.
Proof. intros Hk He. unfold put_secret_expr. cbn. rewrite He. auto. Qed.

Lemma fold_put_one_sim c l1 l2 : same_but_secrets c l1 l2 -> forall st1 st2,
  sim st1 st2 -> s_key st1 = true -> s_enc st1 = false ->
  sim (fold_left (put_one c true) l1 st1) (fold_left (put_one c true) l2 st2).
Proof.
  induction 1 as [|a1 a2 r1 r2 [Hn Hv] Hr IH]; intros st1 st2 Hs Hk He; [exact Hs|].
  cbn [fold_left]. unfold put_one at 2 4. cbn [andb]. rewrite <- Hn.
  fold (secret_attr c (fst a1)). fold (secret_attr c (fst a1)) in Hv.
  destruct (secret_attr c (fst a1)) eqn:S.
  - apply IH.
    + apply sim_put_secret; assumption.
    + apply put_secret_keeps; assumption.
    + apply put_secret_keeps; assumption.
  - assert (E : expr_text a1 = expr_text a2) by (unfold expr_text; rewrite Hn, Hv; reflexivity).
    rewrite <- E. apply IH; [apply sim_put_string, Hs| exact Hk | exact He].
Qed.

Lemma length_forall2 {A B} (R : A -> B -> Prop) l1 l2 : Forall2 R l1 l2 -> length l1 = length l2.
Proof. induction 1; cbn; congruence. Qed.

Lemma secret_sealed c st a1 a2 :
  s_key st = true -> s_enc st = false ->
  same_but_secrets c (ad_attrs a1) (ad_attrs a2) ->
  ad_mytype a1 = ad_mytype a2 -> ad_targettype a1 = ad_targettype a2 ->
  view (s_frames (s_finish (put_ad c st a1))) = view (s_frames (s_finish (put_ad c st a2))).
Proof.
  intros Hk He Hs Hm Ht.
  apply same_but_secrets_send in Hs.
  assert (G : sim (put_ad c st a1) (put_ad c st a2)).
  assert (HL : length (attrs_to_send c (ad_attrs a1)) = length (attrs_to_send c (ad_attrs a2)))
    by exact (length_forall2 _ _ _ Hs).
  { unfold put_ad. cbv zeta. rewrite HL, Hm, Ht.
    set (st2 := if opt_server_time (c_opts c) then _ else _).
    assert (K2 : s_key st2 = true /\ s_enc st2 = false).
    { subst st2. destruct (opt_server_time (c_opts c)); cbn; auto. }
    destruct K2 as [K2 E2]. rewrite K2, E2. cbn [secret_is_noop negb orb].
    assert (F : sim (fold_left (put_one c true) (attrs_to_send c (ad_attrs a1)) st2)
                    (fold_left (put_one c true) (attrs_to_send c (ad_attrs a2)) st2)).
    { apply fold_put_one_sim; [exact Hs|apply sim_refl|exact K2|exact E2]. }
    destruct (opt_no_types (c_opts c)); [exact F|].
    apply sim_put_string, sim_put_string, F. }
  unfold s_frames, s_finish. apply (sim_out _ _ (sim_lift (fun w => flush w true) _ _ G)).
Qed.

(* the sealed part really is sealed, and really is there: on a keyed,
   non-encrypting stream a secret attribute produces the marker in a clear
   frame followed by at least one sealed frame and nothing else *)
Lemma put_secret_frames st e :
  s_key st = true -> s_enc st = false ->
  exists clear sealed,
    s_out (put_secret_expr st e) = s_out st ++ map (fun fr => (false, fr)) clear ++ map (fun fr => (true, fr)) sealed
    /\ sealed <> [] /\ s_buf (put_secret_expr st e) = [].
Proof.
  intros Hk He. unfold put_secret_expr, s_put_string, s_flush, s_lift, s_prepare, s_restore, sealed_now.
  cbn [s_buf s_out s_key s_enc s_saved]. rewrite Hk, He. cbn [andb negb flush w_out w_buf].
  eexists. eexists. split.
  - rewrite <- !app_assoc. f_equal. rewrite <- map_app. rewrite app_assoc. f_equal.
    rewrite <- map_app. reflexivity.
  - split; [|reflexivity]. intro H. apply app_eq_nil in H as [_ H]. discriminate.
Qed.

(* ------------------------------------------------------------------ *)
(* the strict reading "the NAME of a private attribute occurs nowhere in the emitted bytes" is
   false: a public attribute is serialised as written, and its expression may refer to a private one *)
Fixpoint prefixb (p s : bytes) : bool :=
  match p, s with
  | [], _ => true
  | a :: p', b :: s' => byte_eqb a b && prefixb p' s'
  | _ :: _, [] => false
  end.
Fixpoint infixb (needle hay : bytes) : bool :=
  prefixb needle hay || match hay with [] => false | _ :: r => infixb needle r end.

Definition emitted (st : sstate) : bytes := concat (map (fun f : tframe => fst (snd f)) (s_frames st)).

Lemma names_refuted :
  exists (c : config) (a : ad) (n : bytes),
    include_private c = false /\ In n (map fst (ad_attrs a)) /\ is_private_any n = true /\
    infixb n (emitted (s_finish (put_ad c (sstate_init false false) a))) = true.
Proof.
  exists {| c_opts := 0; c_whitelist := []; c_enc_attrs := []; c_peer := None |}.
  exists {| ad_attrs := [([x43; x6c; x61; x69; x6d; x49; x64], [x22; x73; x22]);
                         ([x4d; x79; x54; x79; x70; x65], [x43; x6c; x61; x69; x6d; x49; x64])];
            ad_mytype := []; ad_targettype := [] |}.
  exists [x43; x6c; x61; x69; x6d; x49; x64].
  split; [reflexivity|]. split; [left; reflexivity|]. split; vm_compute; reflexivity.
Qed.
