(* Proofs/C16Str.v — lemmas about the Go-strings functions of Model/ClaimId.v and the
   claim-id grammar (ParseClaimIDStrict on a minted text). *)
From Coq Require Import List NArith ZArith Lia Bool.
From Cedar Require Import Lib.Bytes Lib.SymC16 Model.ClaimId.
Import ListNotations.

Lemma byte_eqb_refl b : byte_eqb b b = true.
Proof. apply byte_eqb_eq. reflexivity. Qed.

Lemma byte_eqb_sym a b : byte_eqb a b = byte_eqb b a.
Proof. unfold byte_eqb. apply N.eqb_sym. Qed.

Lemma bytes_eqb_refl s : bytes_eqb s s = true.
Proof. apply bytes_eqb_eq. reflexivity. Qed.

Lemma bytes_eqb_neq a b : a <> b -> bytes_eqb a b = false.
Proof.
  intro N. destruct (bytes_eqb a b) eqn:E; [|reflexivity].
  apply bytes_eqb_eq in E. contradiction.
Qed.

Lemma is_nil_false_iff s : is_nil s = false <-> s <> [].
Proof. destruct s; simpl; split; intro H; congruence. Qed.

Lemma is_nil_app_r s x : is_nil (s ++ [x]) = false.
Proof. destruct s; reflexivity. Qed.

(* ---- contains ---------------------------------------------------------- *)
Lemma contains_app c a b : contains c (a ++ b) = contains c a || contains c b.
Proof. induction a as [|x a IH]; simpl; [reflexivity|]. rewrite IH, orb_assoc. reflexivity. Qed.

Lemma contains_false_In c s : contains c s = false -> ~ In c s.
Proof.
  induction s as [|x s IH]; simpl; intro H; [tauto|]. intros [E|I].
  - subst. rewrite byte_eqb_refl in H. discriminate.
  - apply orb_false_iff in H as [_ H]. exact (IH H I).
Qed.

Lemma contains_forallb c s :
  contains c s = false <-> forallb (fun b => negb (byte_eqb b c)) s = true.
Proof.
  induction s as [|x s IH]; simpl; [tauto|].
  rewrite orb_false_iff, andb_true_iff, negb_true_iff, IH. tauto.
Qed.

(* a predicate on bytes that excludes [c] excludes it from the string *)
Lemma forallb_contains (f : byte -> bool) c s :
  f c = false -> forallb f s = true -> contains c s = false.
Proof.
  intros Hc. induction s as [|x s IH]; simpl; [reflexivity|].
  intro H. apply andb_true_iff in H as [H1 H2]. rewrite (IH H2), orb_false_r.
  destruct (byte_eqb x c) eqn:E; [|reflexivity].
  apply byte_eqb_eq in E. subst. congruence.
Qed.

(* ---- firstn / skipn ---------------------------------------------------- *)
Lemma firstn_app_exact {A} (a b : list A) : firstn (length a) (a ++ b) = a.
Proof. induction a; simpl; [reflexivity|]. f_equal. assumption. Qed.
Lemma skipn_app_exact {A} (a b : list A) : skipn (length a) (a ++ b) = b.
Proof. induction a; simpl; assumption || reflexivity. Qed.
Lemma skipn_S_app {A} (a : list A) x b : skipn (S (length a)) (a ++ x :: b) = b.
Proof. induction a; simpl; [reflexivity|assumption]. Qed.

(* ---- index_of / last_index --------------------------------------------- *)
Lemma last_index_none c s : contains c s = false -> last_index c s = None.
Proof.
  induction s as [|x s IH]; simpl; [reflexivity|].
  intro H. apply orb_false_iff in H as [H1 H2]. rewrite (IH H2), H1. reflexivity.
Qed.

Lemma last_index_app c a b :
  contains c b = false -> last_index c (a ++ c :: b) = Some (length a).
Proof.
  intro H. induction a as [|x a IH]; simpl.
  - rewrite (last_index_none _ _ H), byte_eqb_refl. reflexivity.
  - rewrite IH. reflexivity.
Qed.

Lemma index_of_app c a b :
  contains c a = false -> index_of c (a ++ c :: b) = Some (length a).
Proof.
  induction a as [|x a IH]; simpl; intro H.
  - rewrite byte_eqb_refl. reflexivity.
  - apply orb_false_iff in H as [H1 H2]. rewrite H1, (IH H2). reflexivity.
Qed.

Lemma index_of_none c s : contains c s = false -> index_of c s = None.
Proof.
  induction s as [|x s IH]; simpl; [reflexivity|].
  intro H. apply orb_false_iff in H as [H1 H2]. rewrite H1, (IH H2). reflexivity.
Qed.

(* ---- trimming ----------------------------------------------------------- *)
Lemma trim_left_id b s : is_space b = false -> trim_left (b :: s) = b :: s.
Proof. intro H. simpl. rewrite H. reflexivity. Qed.

Lemma trim_right_snoc s x : is_space x = false -> trim_right (s ++ [x]) = s ++ [x].
Proof.
  intro H. induction s as [|y s IH]; simpl.
  - rewrite H. reflexivity.
  - rewrite IH. destruct (s ++ [x]) eqn:E; [destruct s; discriminate|reflexivity].
Qed.

Lemma trim_space_id b s x :
  is_space b = false -> is_space x = false -> trim_space (b :: s ++ [x]) = b :: s ++ [x].
Proof.
  intros Hb Hx. unfold trim_space. rewrite trim_left_id by exact Hb.
  change (b :: s ++ [x]) with ((b :: s) ++ [x]). apply trim_right_snoc. exact Hx.
Qed.

(* a string none of whose bytes is white space is not trimmed *)
Lemma trim_right_nospace s : forallb (fun b => negb (is_space b)) s = true -> trim_right s = s.
Proof.
  induction s as [|x s IH]; simpl; [reflexivity|].
  intro H. apply andb_true_iff in H as [H1 H2]. rewrite (IH H2).
  apply negb_true_iff in H1. rewrite H1. destruct s; reflexivity.
Qed.
Lemma trim_space_nospace s : forallb (fun b => negb (is_space b)) s = true -> trim_space s = s.
Proof.
  intro H. unfold trim_space.
  assert (trim_left s = s) as ->.
  { destruct s as [|x s]; [reflexivity|]. simpl in *. apply andb_true_iff in H as [H1 _].
    apply negb_true_iff in H1. rewrite H1. reflexivity. }
  apply trim_right_nospace. exact H.
Qed.

Lemma trim_suffix1_snoc c s : trim_suffix1 c (s ++ [c]) = s.
Proof.
  induction s as [|x s IH]; simpl.
  - rewrite byte_eqb_refl. reflexivity.
  - rewrite IH. destruct (s ++ [c]) eqn:E; [destruct s; discriminate|reflexivity].
Qed.

Lemma ends_with_snoc c s : ends_with c (s ++ [c]) = true.
Proof.
  induction s as [|x s IH]; simpl.
  - apply byte_eqb_refl.
  - destruct (s ++ [c]) eqn:E; [destruct s; discriminate|exact IH].
Qed.

Lemma removelast_snoc {A} (s : list A) x : removelast (s ++ [x]) = s.
Proof. apply removelast_last. Qed.

(* ---- split -------------------------------------------------------------- *)
Lemma split1_app c a r :
  contains c a = false ->
  split1 c (a ++ c :: r) = (a, let '(h, t) := split1 c r in h :: t).
Proof.
  induction a as [|x a IH]; simpl; intro H.
  - rewrite byte_eqb_refl. destruct (split1 c r). reflexivity.
  - apply orb_false_iff in H as [H1 H2]. rewrite (IH H2), H1.
    destruct (split1 c r). reflexivity.
Qed.

Lemma split1_nosep c a : contains c a = false -> split1 c a = (a, []).
Proof.
  induction a as [|x a IH]; simpl; intro H; [reflexivity|].
  apply orb_false_iff in H as [H1 H2]. rewrite (IH H2), H1. reflexivity.
Qed.

Lemma split_on_app c a r :
  contains c a = false -> split_on c (a ++ c :: r) = a :: split_on c r.
Proof.
  intro H. unfold split_on. rewrite (split1_app _ _ _ H). destruct (split1 c r). reflexivity.
Qed.

Lemma split_on_nil c : split_on c [] = [[]].
Proof. reflexivity. Qed.

(* ---- replace ------------------------------------------------------------- *)
Lemma replace_all_inv a b s :
  contains b s = false -> replace_all b a (replace_all a b s) = s.
Proof.
  induction s as [|x s IH]; simpl; intro H; [reflexivity|].
  apply orb_false_iff in H as [H1 H2]. rewrite (IH H2). f_equal.
  destruct (byte_eqb x a) eqn:E.
  - rewrite byte_eqb_refl. apply byte_eqb_eq in E. congruence.
  - rewrite H1. reflexivity.
Qed.

Lemma replace_all_contains a b c s :
  byte_eqb b c = false -> contains c s = false -> contains c (replace_all a b s) = false.
Proof.
  intros Hb. induction s as [|x s IH]; simpl; intro H; [reflexivity|].
  apply orb_false_iff in H as [H1 H2]. rewrite (IH H2), orb_false_r.
  destruct (byte_eqb x a); assumption.
Qed.

(* ---- policy lookups through pset ------------------------------------------ *)
Lemma plookup_pset n k v p :
  plookup n (pset k v p) = if bytes_eqb k n then Some v else plookup n p.
Proof.
  induction p as [|[k' w] p IH]; simpl.
  - destruct (bytes_eqb k n); reflexivity.
  - destruct (bytes_eqb k' k) eqn:E; simpl.
    + apply bytes_eqb_eq in E. subst. destruct (bytes_eqb k n); reflexivity.
    + rewrite IH. destruct (bytes_eqb k' n) eqn:E2; [|reflexivity].
      apply bytes_eqb_eq in E2. subst.
      destruct (bytes_eqb k n) eqn:E3; [|reflexivity].
      apply bytes_eqb_eq in E3. subst. rewrite bytes_eqb_refl in E. discriminate.
Qed.

(* ---- the claim-id grammar on a minted text ------------------------------- *)
Definition secret_ok (s : bytes) : Prop :=
  contains ch_hash s = false /\ contains ch_rbr s = false.

Lemma parse_strict_minted sid body secret :
  contains ch_hash body = false -> secret_ok secret ->
  parse_strict (sid ++ ch_hash :: (ch_lbr :: body ++ [ch_rbr]) ++ secret)
  = {| c_sid := sid; c_info := ch_lbr :: body ++ [ch_rbr]; c_key := secret |}.
Proof.
  intros Hb [Hs1 Hs2]. unfold parse_strict.
  set (info := ch_lbr :: body ++ [ch_rbr]).
  assert (Hinfo : contains ch_hash (info ++ secret) = false).
  { unfold info. rewrite contains_app. simpl. rewrite contains_app, Hb, Hs1. reflexivity. }
  rewrite (last_index_app _ _ _ Hinfo), skipn_S_app.
  assert (Hst : starts_with ch_lbr (info ++ secret) = true) by reflexivity.
  rewrite Hst.
  assert (E : sid ++ ch_hash :: info ++ secret = (sid ++ ch_hash :: ch_lbr :: body) ++ ch_rbr :: secret).
  { unfold info. rewrite <- ?app_assoc. simpl. rewrite <- ?app_assoc. reflexivity. }
  rewrite E at 1. rewrite (last_index_app _ _ _ Hs2).
  assert (L : length (sid ++ ch_hash :: ch_lbr :: body) = length sid + 2 + length body).
  { rewrite app_length. simpl. lia. }
  rewrite L.
  assert (Nat.ltb (length sid) (length sid + 2 + length body) = true) as -> by (apply Nat.ltb_lt; lia).
  f_equal.
  - apply firstn_app_exact.
  - replace (length sid + 2 + length body - length sid) with (length info)
      by (unfold info; simpl; rewrite app_length; simpl; lia).
    apply firstn_app_exact.
  - rewrite E. rewrite <- L. apply skipn_S_app.
Qed.
