(* Proofs/C18.v — proofs for property C18 (filesystem authentication). *)
From Coq Require Import List NArith ZArith Lia Bool.
From Cedar Require Import Lib.Bytes Model.FSPath gen.FactsC18.
Import ListNotations.

(* the recognisers of Model/FSPath.v were written for exactly the regular
   expressions and base directory the code has now *)
Lemma facts_match :
  FactsC18.fsAuthLocalLeafRE = local_re_src /\
  FactsC18.fsAuthRemoteLeafRE = remote_re_src /\
  FactsC18.fsSuffixRE = suffix_re_src /\
  FactsC18.fsAuthBaseDir = base_dir_src.
Proof. repeat split; reflexivity. Qed.
