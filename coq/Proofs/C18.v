(* Proofs/C18.v — proofs for property C18 (filesystem authentication). *)
From Coq Require Import List NArith ZArith Lia Bool.
From Cedar Require Import Lib.Bytes Model.FSPath gen.FactsC18.
Import ListNotations.

(* the recognisers of Model/FSPath.v were written for exactly the regular
   expressions and base directory the code has now *)
Lemma facts_match :
  FactsC18.fsAuthLocalLeafRE = local_re_src /\
  FactsC18.fsAuthRemoteLeafRE = remote_re_src /\
  FactsC18.fsSuffixRE = suffix_re_src /\
  FactsC18.fsAuthBaseDir = base_dir_src.
Proof. repeat split; reflexivity. Qed.

(* ---------- bytes ---------------------------------------------------------- *)
Lemma byte_eqb_refl b : byte_eqb b b = true.
Proof. apply byte_eqb_eq. reflexivity. Qed.
Lemma byte_eqb_neq a b : byte_eqb a b = false -> a <> b.
Proof. intros H E. subst. rewrite byte_eqb_refl in H. discriminate. Qed.
Lemma bytes_eqb_refl a : bytes_eqb a a = true.
Proof. apply bytes_eqb_eq. reflexivity. Qed.

(* ---------- split / join ---------------------------------------------------- *)
Definition nosep (sep : byte) (f : bytes) : Prop := ~ In sep f.

Lemma split_on_nonempty sep s : split_on sep s <> [].
Proof. unfold split_on. destruct (split1 sep s). discriminate. Qed.

Lemma split_on_cons sep b r :
  split_on sep (b :: r) =
  if byte_eqb b sep then [] :: split_on sep r
  else match split_on sep r with f :: fs => (b :: f) :: fs | [] => [[b]] end.
Proof.
  unfold split_on. cbn [split1]. destruct (split1 sep r) as [f fs].
  destruct (byte_eqb b sep); reflexivity.
Qed.

Lemma join_cons sep f g l : join_on sep (f :: g :: l) = f ++ sep :: join_on sep (g :: l).
Proof. reflexivity. Qed.

Lemma join_split sep s : join_on sep (split_on sep s) = s.
Proof.
  induction s as [|b r IH].
  - reflexivity.
  - rewrite split_on_cons. destruct (byte_eqb b sep) eqn:E.
    + apply byte_eqb_eq in E. subst b.
      pose proof (split_on_nonempty sep r) as Hne.
      destruct (split_on sep r) as [|g l] eqn:Es; [congruence|].
      rewrite join_cons. cbn [app]. rewrite IH. reflexivity.
    + pose proof (split_on_nonempty sep r) as Hne.
      destruct (split_on sep r) as [|g l] eqn:Es; [congruence|].
      destruct l as [|g2 l2].
      * cbn [join_on] in *. rewrite IH. reflexivity.
      * rewrite join_cons in *. cbn [app]. rewrite IH. reflexivity.
Qed.

Lemma split_nosep sep s : Forall (nosep sep) (split_on sep s).
Proof.
  induction s as [|b r IH].
  - constructor; [intros []|constructor].
  - rewrite split_on_cons. destruct (byte_eqb b sep) eqn:E.
    + constructor; [intros []|exact IH].
    + apply byte_eqb_neq in E.
      destruct (split_on sep r) as [|g l]; [constructor; [|constructor]|].
      * intros [H|[]]. congruence.
      * inversion IH; subst. constructor; [|assumption].
        intros [H|H]; [congruence|contradiction].
Qed.

Lemma split_nosep_id sep f : nosep sep f -> split_on sep f = [f].
Proof.
  induction f as [|b r IH]; intro H; [reflexivity|].
  rewrite split_on_cons.
  destruct (byte_eqb b sep) eqn:E.
  - apply byte_eqb_eq in E. subst. exfalso. apply H. left. reflexivity.
  - rewrite IH; [reflexivity|]. intro Hin. apply H. right. exact Hin.
Qed.

Lemma split_app_sep sep f t :
  nosep sep f -> split_on sep (f ++ sep :: t) = f :: split_on sep t.
Proof.
  induction f as [|b r IH]; intro H.
  - cbn [app]. rewrite split_on_cons, byte_eqb_refl. reflexivity.
  - cbn [app]. rewrite split_on_cons.
    destruct (byte_eqb b sep) eqn:E.
    + apply byte_eqb_eq in E. subst. exfalso. apply H. left. reflexivity.
    + rewrite IH; [reflexivity|]. intro Hin. apply H. right. exact Hin.
Qed.

Lemma split_join sep l : l <> [] -> Forall (nosep sep) l -> split_on sep (join_on sep l) = l.
Proof.
  induction l as [|f l IH]; intros Hne Hall; [congruence|].
  inversion Hall; subst.
  destruct l as [|g l'].
  - cbn [join_on]. apply split_nosep_id. assumption.
  - rewrite join_cons, split_app_sep by assumption.
    rewrite IH; [reflexivity|discriminate|assumption].
Qed.

Lemma join_app sep a b :
  a <> [] -> b <> [] -> join_on sep (a ++ b) = join_on sep a ++ sep :: join_on sep b.
Proof.
  induction a as [|f a IH]; intros Ha Hb; [congruence|].
  destruct a as [|g a'].
  - cbn [app]. destruct b as [|h b']; [congruence|]. rewrite join_cons. reflexivity.
  - change ((f :: g :: a') ++ b) with (f :: (g :: a') ++ b).
    change ((g :: a') ++ b) with (g :: a' ++ b) at 1.
    rewrite join_cons. change (g :: a' ++ b) with ((g :: a') ++ b).
    rewrite IH by (assumption || discriminate).
    rewrite join_cons. rewrite <- app_assoc. reflexivity.
Qed.

(* ---------- Clean on rooted paths ------------------------------------------- *)
Definition normal (c : bytes) : Prop := normal_comp c = true.

Lemma clean_step_normal st c :
  Forall normal st -> Forall normal (clean_step true st c).
Proof.
  intro H. unfold clean_step.
  destruct (is_nil c || is_dot c) eqn:E1; [exact H|].
  destruct (is_dotdot c) eqn:E2.
  - destruct st; [constructor|]. inversion H; assumption.
  - constructor; [|exact H]. unfold normal, normal_comp.
    apply orb_false_iff in E1 as [E1 E3]. rewrite E1, E3, E2. reflexivity.
Qed.

Lemma fold_normal comps st :
  Forall normal st -> Forall normal (fold_left (clean_step true) comps st).
Proof.
  revert st. induction comps as [|c r IH]; intros st H; [exact H|].
  cbn [fold_left]. apply IH. apply clean_step_normal. exact H.
Qed.

Lemma clean_step_incl r st c x :
  In x (clean_step r st c) -> x = c \/ In x st.
Proof.
  unfold clean_step.
  destruct (is_nil c || is_dot c); [auto|].
  destruct (is_dotdot c).
  - destruct st as [|top st'].
    + destruct r; [intros []|]. intros [H|[]]. auto.
    + destruct r; [intro H; right; right; exact H|].
      destruct (is_dotdot top).
      * intros [H|H]; auto.
      * intro H; right; right; exact H.
  - intros [H|H]; auto.
Qed.

Lemma fold_incl r comps st x :
  In x (fold_left (clean_step r) comps st) -> In x comps \/ In x st.
Proof.
  revert st. induction comps as [|c l IH]; intros st H; [right; exact H|].
  cbn [fold_left] in H. apply IH in H as [H|H].
  - left. right. exact H.
  - apply clean_step_incl in H as [H|H]; [left; left; auto|right; exact H].
Qed.

Lemma clean_step_push st c : normal c -> clean_step true st c = c :: st.
Proof.
  unfold normal, normal_comp, clean_step. intro H.
  apply andb_true_iff in H as [H H3]. apply andb_true_iff in H as [H1 H2].
  apply negb_true_iff in H1, H2, H3. rewrite H1, H2, H3. reflexivity.
Qed.

Lemma fold_all_normal comps st :
  Forall normal comps -> fold_left (clean_step true) comps st = rev comps ++ st.
Proof.
  revert st. induction comps as [|c r IH]; intros st H; [reflexivity|].
  inversion H; subst. cbn [fold_left rev]. rewrite clean_step_push by assumption.
  rewrite IH by assumption. rewrite <- app_assoc. reflexivity.
Qed.

Lemma is_sep_slash : is_sep slash = true.
Proof. reflexivity. Qed.

(* a rooted path that Clean leaves alone is "/" or "/" ++ normal elements joined by "/" *)
Lemma clean_fix_rooted rest :
  clean (slash :: rest) = slash :: rest ->
  rest = [] \/ Forall normal (split_on slash rest).
Proof.
  unfold clean. rewrite is_sep_slash. intro H. injection H as H.
  set (st := rev (fold_left (clean_step true) (split_on slash rest) [])) in *.
  assert (Hn : Forall normal st).
  { unfold st. apply Forall_rev. apply fold_normal. constructor. }
  assert (Hs : Forall (nosep slash) st).
  { apply Forall_forall. intros x Hx. unfold st in Hx. apply in_rev in Hx.
    apply fold_incl in Hx as [Hx|[]].
    pose proof (split_nosep slash rest) as Hall. rewrite Forall_forall in Hall. auto. }
  destruct st as [|f l] eqn:Est.
  - left. cbn in H. congruence.
  - right. rewrite <- H. rewrite split_join; [exact Hn|discriminate|exact Hs].
Qed.

Lemma clean_rooted_normal comps :
  Forall normal comps -> Forall (nosep slash) comps -> comps <> [] ->
  clean (slash :: join_on slash comps) = slash :: join_on slash comps.
Proof.
  intros Hn Hs Hne. unfold clean. rewrite is_sep_slash.
  rewrite split_join by assumption. rewrite fold_all_normal by assumption.
  rewrite app_nil_r, rev_involutive. reflexivity.
Qed.

(* ---------- Dir and Base of a canonical rooted path ------------------------- *)
Lemma split_on_slash_cons rest : split_on slash (slash :: rest) = [] :: split_on slash rest.
Proof. rewrite split_on_cons, byte_eqb_refl. reflexivity. Qed.

Lemma nosep_nil sep : nosep sep [].
Proof. intros []. Qed.

Lemma dir_rooted rc x :
  Forall normal rc -> Forall (nosep slash) rc -> nosep slash x ->
  dir (slash :: join_on slash (rc ++ [x])) =
  match rc with [] => [slash] | _ => slash :: join_on slash rc end.
Proof.
  intros Hn Hs Hx. unfold dir.
  rewrite split_on_slash_cons.
  rewrite split_join; [|destruct rc; discriminate|apply Forall_app; split; [assumption|constructor; [assumption|constructor]]].
  change ([] :: rc ++ [x]) with (([] :: rc) ++ [x]). rewrite removelast_last.
  destruct rc as [|g l].
  - reflexivity.
  - rewrite join_cons. cbn [app].
    set (rc := g :: l) in *.
    assert (Hj : join_on slash rc ++ [slash] = join_on slash (rc ++ [[]])).
    { rewrite join_app by (unfold rc; discriminate). reflexivity. }
    rewrite Hj. unfold clean. rewrite is_sep_slash.
    rewrite split_join; [|unfold rc; discriminate|apply Forall_app; split; [assumption|constructor; [apply nosep_nil|constructor]]].
    rewrite fold_left_app. rewrite (fold_all_normal rc) by assumption.
    cbn [fold_left clean_step is_nil orb]. rewrite app_nil_r, rev_involutive. reflexivity.
Qed.

Lemma split1_nosep x : nosep slash x -> split1 slash x = (x, []).
Proof.
  intro H. pose proof (split_nosep_id slash x H) as E. unfold split_on in E.
  destruct (split1 slash x) as [f fs]. injection E as E1 E2. subst. reflexivity.
Qed.

Lemma last_of_split pre x f fs :
  nosep slash x -> split1 slash (pre ++ slash :: x) = (f, fs) ->
  fs <> [] /\ forall f', last_of f' fs = x.
Proof.
  intro Hx. revert f fs. induction pre as [|b pre IH]; intros f fs H.
  - cbn [app split1] in H. rewrite (split1_nosep x Hx), byte_eqb_refl in H.
    injection H as H1 H2. subst. split; [discriminate|reflexivity].
  - cbn [app split1] in H.
    destruct (split1 slash (pre ++ slash :: x)) as [f0 fs0] eqn:E.
    destruct (IH f0 fs0 eq_refl) as [Hne Hl].
    destruct (byte_eqb b slash); injection H as H1 H2; subst.
    + split; [discriminate|]. intro f'. cbn [last_of]. apply Hl.
    + split; assumption.
Qed.

Lemma drop_seps_notsep b t : is_sep b = false -> drop_seps (b :: t) = b :: t.
Proof. intro H. cbn [drop_seps]. rewrite H. reflexivity. Qed.

Lemma base_nonempty p :
  p <> [] ->
  base p = match rev (drop_seps (rev p)) with
           | [] => [slash]
           | q => let '(f, fs) := split1 slash q in last_of f fs
           end.
Proof. destruct p; [congruence|reflexivity]. Qed.

Lemma base_join pre x :
  x <> [] -> nosep slash x -> base (pre ++ slash :: x) = x.
Proof.
  intros Hne Hx.
  destruct (exists_last Hne) as [x' [y Ex]]. subst x.
  assert (Hy : is_sep y = false).
  { unfold is_sep. destruct (byte_eqb y slash) eqn:E; [|reflexivity].
    apply byte_eqb_eq in E. subst. exfalso. apply Hx. apply in_or_app. right. left. reflexivity. }
  rewrite base_nonempty by (destruct pre; discriminate).
  assert (Hr : rev (pre ++ slash :: x' ++ [y]) = y :: rev x' ++ slash :: rev pre).
  { rewrite rev_app_distr. cbn [rev]. rewrite rev_app_distr. cbn [rev app].
    rewrite <- app_assoc. reflexivity. }
  rewrite Hr, drop_seps_notsep by exact Hy. rewrite <- Hr, rev_involutive.
  remember (pre ++ slash :: x' ++ [y]) as p eqn:Ep.
  destruct p as [|b0 t0]; [destruct pre; discriminate|].
  cbv iota beta.
  destruct (split1 slash (b0 :: t0)) as [f fs] eqn:Es.
  rewrite Ep in Es. apply last_of_split in Es; [|exact Hx]. destruct Es as [_ Hl]. apply Hl.
Qed.

(* ---------- the path part of validate --------------------------------------- *)
Lemma fs_base_val : fs_base = [slash; x74; x6d; x70].
Proof. reflexivity. Qed.

Lemma validate_path p remote pr leaf :
  validate p remote pr = VOk leaf ->
  p = fs_base ++ slash :: leaf /\ leaf = base p /\ unsafe_leaf leaf = false.
Proof.
  unfold validate.
  destruct (is_nil p) eqn:Hnil; [discriminate|].
  destruct (is_abs p) eqn:Habs; [|discriminate]. cbn [negb].
  destruct (bytes_eqb (clean p) p) eqn:Hclean; [|discriminate]. cbn [negb].
  destruct (bytes_eqb (dir p) fs_base) eqn:Hdir; [|discriminate]. cbn [negb].
  destruct (unsafe_leaf (base p)) eqn:Hunsafe; [discriminate|].
  intro Hres.
  assert (Hleaf : leaf = base p).
  { destruct (fs_addr_leaf (base p) remote) as [[ip port]|].
    - destruct (verify_endpoint ip port pr); [congruence|discriminate].
    - destruct (if remote then remote_leaf_ok (base p) else local_leaf_ok (base p)); [congruence|discriminate]. }
  clear Hres.
  destruct p as [|b rest]; [discriminate|].
  cbn [is_abs] in Habs. unfold is_sep in Habs. apply byte_eqb_eq in Habs. subst b.
  apply bytes_eqb_eq in Hclean. apply bytes_eqb_eq in Hdir.
  destruct (clean_fix_rooted rest Hclean) as [Hr|Hn].
  { subst rest. vm_compute in Hdir. discriminate. }
  pose proof (split_nosep slash rest) as Hs.
  pose proof (join_split slash rest) as Hj.
  destruct (exists_last (split_on_nonempty slash rest)) as [rc [x Ec]].
  rewrite Ec in *. apply Forall_app in Hn as [Hn Hnx]. apply Forall_app in Hs as [Hs Hsx].
  pose proof (Forall_inv Hnx) as Hnx'. pose proof (Forall_inv Hsx) as Hsx'.
  rewrite <- Hj in Hdir. rewrite dir_rooted in Hdir by assumption.
  destruct rc as [|g l]; [rewrite fs_base_val in Hdir; discriminate|].
  rewrite fs_base_val in Hdir.
  assert (Hd2 : join_on slash (g :: l) = [x74; x6d; x70]) by (injection Hdir as Hd; exact Hd).
  clear Hdir. rename Hd2 into Hdir.
  assert (Hrc : g :: l = [[x74; x6d; x70]]).
  { rewrite <- (split_join slash (g :: l)) by (discriminate || assumption). rewrite Hdir. reflexivity. }
  rewrite Hrc in Hj. cbn [app] in Hj. rewrite join_cons in Hj. cbn [join_on app] in Hj.
  assert (Hx0 : x <> []).
  { unfold normal, normal_comp in Hnx'. destruct x; [discriminate|discriminate]. }
  assert (Hp : slash :: rest = fs_base ++ slash :: x).
  { rewrite <- Hj. reflexivity. }
  assert (Hb : base (slash :: rest) = x).
  { rewrite Hp. apply base_join; assumption. }
  split; [|split].
  - rewrite Hleaf, Hb. exact Hp.
  - exact Hleaf.
  - rewrite Hleaf. exact Hunsafe.
Qed.

(* ---------- the recognisers denote the regular expressions ------------------ *)
Lemma strip_prefix_spec pre s r : strip_prefix pre s = Some r -> s = pre ++ r.
Proof.
  revert s. induction pre as [|a pre IH]; intros s H.
  - cbn in H. injection H as H. subst. reflexivity.
  - destruct s as [|b s']; [discriminate|]. cbn [strip_prefix] in H.
    destruct (byte_eqb a b) eqn:E; [|discriminate].
    apply byte_eqb_eq in E. subst. cbn [app]. f_equal. apply IH. exact H.
Qed.

Lemma strip_prefix_app pre r : strip_prefix pre (pre ++ r) = Some r.
Proof.
  induction pre as [|a pre IH]; [reflexivity|].
  cbn [app strip_prefix]. rewrite byte_eqb_refl. exact IH.
Qed.

Lemma forallb_Forall {A} (f : A -> bool) l : forallb f l = true <-> Forall (fun x => f x = true) l.
Proof. rewrite forallb_forall, Forall_forall. reflexivity. Qed.

Lemma suffix_ok_spec r : suffix_ok r = true <-> alnum_suffix r.
Proof.
  unfold suffix_ok, alnum_suffix. rewrite !andb_true_iff, forallb_Forall, Nat.leb_le.
  destruct r as [|b r]; cbn [is_nil negb length]; split; intros H.
  - destruct H as [[H _] _]. discriminate.
  - destruct H as [[H _] _]. lia.
  - destruct H as [[_ H] H2]. repeat split; [lia|exact H|exact H2].
  - destruct H as [[_ H] H2]. repeat split; assumption.
Qed.

Lemma local_ok_spec leaf : local_leaf_ok leaf = true <-> local_shape leaf.
Proof.
  unfold local_leaf_ok, local_shape. split.
  - destruct (strip_prefix pfx_local leaf) as [r|] eqn:E; [|discriminate].
    intro H. exists r. split; [apply strip_prefix_spec; exact E|apply suffix_ok_spec; exact H].
  - intros [r [E H]]. subst. rewrite strip_prefix_app. apply suffix_ok_spec. exact H.
Qed.

Lemma is_nil_false {A} (l : list A) : is_nil l = false <-> l <> [].
Proof. destruct l; cbn; split; intro H; congruence. Qed.

Lemma remote_ok_sound leaf : remote_leaf_ok leaf = true -> remote_shape leaf.
Proof.
  unfold remote_leaf_ok, remote_shape.
  destruct (strip_prefix pfx_remote leaf) as [s|] eqn:E; [|discriminate].
  apply strip_prefix_spec in E.
  destruct (rev (split_on underscore s)) as [|r [|d hrev]] eqn:Er; try discriminate.
  intro H.
  apply andb_true_iff in H as [H HF]. apply andb_true_iff in H as [H HE].
  apply andb_true_iff in H as [H HD]. apply andb_true_iff in H as [H HC].
  apply andb_true_iff in H as [HA HB].
  apply negb_true_iff in HB, HD, HE. apply is_nil_false in HB, HD, HE.
  apply forallb_Forall in HC, HF. apply suffix_ok_spec in HA.
  exists (join_on underscore (rev hrev)), d, r.
  split; [|repeat split; try assumption; apply HA].
  rewrite E. f_equal.
  rewrite <- (join_split underscore s) at 1.
  rewrite <- (rev_involutive (split_on underscore s)), Er. cbn [rev].
  rewrite <- app_assoc. cbn [app].
  rewrite join_app; [|intro Hr; apply HD; apply (f_equal (@rev bytes)) in Hr; rewrite rev_involutive in Hr; exact Hr|discriminate].
  reflexivity.
Qed.

(* completeness: every name of the remote shape is recognised *)
Lemma digit_not_us b : is_digit b = true -> b <> underscore.
Proof. intros H E. subst. discriminate. Qed.
Lemma alnum_not_us b : is_alnum b = true -> b <> underscore.
Proof. intros H E. subst. discriminate. Qed.
Lemma Forall_nosep (P : byte -> bool) l :
  (forall b, P b = true -> b <> underscore) -> Forall (fun b => P b = true) l -> nosep underscore l.
Proof.
  intros HP H Hin. rewrite Forall_forall in H. apply (HP underscore); auto.
Qed.

Lemma remote_ok_complete leaf : remote_shape leaf -> remote_leaf_ok leaf = true.
Proof.
  intros [h [d [r [E [Hh [Hhc [Hd [Hdc Hr]]]]]]]]. subst leaf.
  unfold remote_leaf_ok. rewrite strip_prefix_app.
  assert (Hdn : nosep underscore d) by (eapply Forall_nosep; [apply digit_not_us|exact Hdc]).
  assert (Hrn : nosep underscore r) by (eapply Forall_nosep; [apply alnum_not_us|apply Hr]).
  (* h = join of its own fields *)
  pose proof (join_split underscore h) as Hj.
  pose proof (split_nosep underscore h) as Hs.
  pose proof (split_on_nonempty underscore h) as Hne.
  set (hf := split_on underscore h) in *.
  assert (Hsplit : split_on underscore (h ++ underscore :: d ++ underscore :: r) = hf ++ [d; r]).
  { rewrite <- Hj.
    replace (join_on underscore hf ++ underscore :: d ++ underscore :: r)
      with (join_on underscore (hf ++ [d; r])).
    - apply split_join; [destruct hf; discriminate|].
      apply Forall_app. split; [exact Hs|]. repeat constructor; assumption.
    - rewrite join_app by (assumption || discriminate). reflexivity. }
  rewrite Hsplit, rev_app_distr. cbn [rev app].
  rewrite rev_involutive. fold hf. rewrite Hj.
  apply suffix_ok_spec in Hr. rewrite Hr.
  apply forallb_Forall in Hdc, Hhc. rewrite Hdc, Hhc.
  destruct d; [congruence|]. destruct h; [congruence|].
  destruct (rev hf) eqn:Erev.
  { exfalso. apply Hne. apply (f_equal (@rev bytes)) in Erev. rewrite rev_involutive in Erev. exact Erev. }
  reflexivity.
Qed.

Lemma remote_ok_spec leaf : remote_leaf_ok leaf = true <-> remote_shape leaf.
Proof. split; [apply remote_ok_sound|apply remote_ok_complete]. Qed.

Lemma addr_leaf_spec leaf remote ip port :
  fs_addr_leaf leaf remote = Some (ip, port) -> addr_shape remote leaf ip port.
Proof.
  unfold fs_addr_leaf, addr_shape.
  destruct (strip_prefix (if remote then pfx_remote else pfx_local) leaf) as [rest|] eqn:E; [|discriminate].
  apply strip_prefix_spec in E.
  destruct (negb remote && has_prefix remote_word rest); [discriminate|].
  destruct (split_on underscore rest) as [|f1 [|f2 [|f3 [|f4 l]]]] eqn:Es; try discriminate.
  destruct (parse_ip f1) eqn:Eip; [|discriminate].
  destruct (suffix_ok f3 && port_ok f2) eqn:Eok; [|discriminate].
  intro H. injection H as H1 H2. subst f1 f2.
  apply andb_true_iff in Eok as [Hsfx Hport].
  unfold port_ok in Hport. apply andb_true_iff in Hport as [Hport HP3].
  apply andb_true_iff in Hport as [HP1 HP2].
  apply Nat.leb_le in HP1, HP2. apply forallb_Forall in HP3. apply suffix_ok_spec in Hsfx.
  exists f3. split; [|split; [|split; [|split]]].
  - rewrite E. f_equal. rewrite <- (join_split underscore rest), Es. reflexivity.
  - rewrite Eip. discriminate.
  - split; assumption.
  - exact HP3.
  - exact Hsfx.
Qed.

Lemma ip_eqb_eq a b : ip_eqb a b = true -> a = b.
Proof.
  revert b. induction a as [|x a IH]; intros [|y b] H; try discriminate; [reflexivity|].
  cbn [ip_eqb] in H. apply andb_true_iff in H as [H1 H2].
  apply N.eqb_eq in H1. apply IH in H2. congruence.
Qed.

Lemma verify_endpoint_spec ip port pr :
  verify_endpoint ip port pr = true -> names_endpoint ip port pr.
Proof.
  unfold verify_endpoint, names_endpoint.
  destruct pr as [| |h pp]; try discriminate.
  intro H. apply andb_true_iff in H as [H1 H2]. apply bytes_eqb_eq in H1. subst pp.
  destruct (parse_ip ip) as [a|] eqn:Ea; [|discriminate].
  destruct (parse_ip h) as [b|] eqn:Eb; [|discriminate].
  apply ip_eqb_eq in H2. subst. exists h, b. repeat split; assumption.
Qed.

(* ---------- C18_validate_shape ----------------------------------------------- *)
Definition safe_leaf (leaf : bytes) : Prop :=
  (forall b, In b leaf -> b <> slash /\ b <> x00) /\ leaf <> [] /\ leaf <> [dot] /\ leaf <> [dot; dot].

Lemma unsafe_leaf_false leaf :
  unsafe_leaf leaf = false -> (forall b, In b leaf -> b <> slash /\ b <> x00) /\ leaf <> [dot] /\ leaf <> [dot; dot].
Proof.
  unfold unsafe_leaf. intro H.
  apply orb_false_iff in H as [H H3]. apply orb_false_iff in H as [H1 H2].
  repeat split.
  - intro E. subst b. assert (Hex : existsb (fun b => byte_eqb b slash || byte_eqb b x00) leaf = true).
    { apply existsb_exists. exists slash. split; [assumption|reflexivity]. }
    congruence.
  - intro E. subst b. assert (Hex : existsb (fun b => byte_eqb b slash || byte_eqb b x00) leaf = true).
    { apply existsb_exists. exists x00. split; [assumption|reflexivity]. }
    congruence.
  - intro E. subst. discriminate.
  - intro E. subst. discriminate.
Qed.

Lemma validate_shape p remote pr leaf :
  validate p remote pr = VOk leaf ->
  p = fs_base ++ slash :: leaf /\
  (forall b, In b leaf -> b <> slash /\ b <> x00) /\
  leaf <> [] /\ leaf <> [dot] /\ leaf <> [dot; dot] /\
  ((exists ip port, addr_shape remote leaf ip port /\ names_endpoint ip port pr) \/
   (remote = false /\ local_shape leaf) \/
   (remote = true /\ remote_shape leaf)).
Proof.
  intro H. destruct (validate_path _ _ _ _ H) as [Hp [Hb Hu]].
  apply unsafe_leaf_false in Hu as [Hu1 [Hu2 Hu3]].
  split; [exact Hp|]. split; [exact Hu1|].
  assert (Hshape :
    (exists ip port, addr_shape remote leaf ip port /\ names_endpoint ip port pr) \/
    (remote = false /\ local_shape leaf) \/ (remote = true /\ remote_shape leaf)).
  { unfold validate in H.
    destruct (is_nil p); [discriminate|].
    destruct (negb (is_abs p)); [discriminate|].
    destruct (negb (bytes_eqb (clean p) p)); [discriminate|].
    destruct (negb (bytes_eqb (dir p) fs_base)); [discriminate|].
    destruct (unsafe_leaf (base p)); [discriminate|].
    rewrite <- Hb in H.
    destruct (fs_addr_leaf leaf remote) as [[ip port]|] eqn:Ea.
    - destruct (verify_endpoint ip port pr) eqn:Ev; [|discriminate].
      left. exists ip, port. split; [apply addr_leaf_spec; exact Ea|apply verify_endpoint_spec; exact Ev].
    - right. destruct remote.
      + destruct (remote_leaf_ok leaf) eqn:Er; [|discriminate]. right. split; [reflexivity|apply remote_ok_sound; exact Er].
      + destruct (local_leaf_ok leaf) eqn:El; [|discriminate]. left. split; [reflexivity|apply local_ok_spec; exact El]. }
  split; [|split; [exact Hu2|split; [exact Hu3|exact Hshape]]].
  (* a leaf of any of the shapes starts with "FS_", so it is not empty *)
  intro Enil.
  destruct Hshape as [[ip [port [[sfx [E0 _]] _]]]|[[_ [r [E0 _]]]|[_ [h [d [r [E0 _]]]]]]];
    rewrite Enil in E0; destruct remote; vm_compute in E0; discriminate.
Qed.

(* ---------- the client exchange ----------------------------------------------- *)
Lemma mkdir_part_cases remote pr env p :
  mkdir_part remote pr env p = ([], (-1)%Z, []) \/
  exists leaf, validate p remote pr = VOk leaf /\ open_root_ok env = true /\
    ((mkdir_ok env leaf = false /\ mkdir_part remote pr env p = ([EMkdir (under_base leaf) false], (-1)%Z, [])) \/
     (mkdir_ok env leaf = true /\
      mkdir_part remote pr env p = ([EMkdir (under_base leaf) true], 0%Z, [ERmdir (under_base leaf)]))).
Proof.
  unfold mkdir_part.
  destruct (is_nil p); [left; reflexivity|].
  destruct (validate p remote pr) as [leaf|cls]; [|left; reflexivity].
  destruct (open_root_ok env); [|left; reflexivity].
  right. exists leaf. split; [reflexivity|]. split; [reflexivity|].
  destruct (mkdir_ok env leaf); [right|left]; split; reflexivity.
Qed.

Lemma exchange_effects remote pr env sc :
  let x := client_exchange remote pr env sc in
  x_eff x = [] \/
  exists p leaf, sc_path sc = IoOk p /\ sc_eom1 sc = EomOk /\ validate p remote pr = VOk leaf /\
    open_root_ok env = true /\
    ((mkdir_ok env leaf = false /\ x_eff x = [EMkdir (under_base leaf) false] /\ x_reply x = Some (-1)%Z) \/
     (mkdir_ok env leaf = true /\ x_eff x = [EMkdir (under_base leaf) true; ERmdir (under_base leaf)] /\ x_reply x = Some 0%Z)).
Proof.
  cbv zeta. unfold client_exchange.
  destruct (sc_path sc) as [p|] eqn:Ep; [|left; reflexivity].
  destruct (sc_eom1 sc) eqn:Ee; try (left; reflexivity).
  destruct (mkdir_part_cases remote pr env p) as [H|[leaf [Hv [Ho [[Hm H]|[Hm H]]]]]]; rewrite H.
  - left. reflexivity.
  - right. exists p, leaf. repeat split; try assumption. left. repeat split; assumption.
  - right. exists p, leaf. repeat split; try assumption. right. repeat split; assumption.
Qed.

(* no acceptable path, no effect, and the reply (if one is produced) is -1 *)
Lemma exchange_rejected remote pr env sc :
  (forall p leaf, sc_path sc = IoOk p -> validate p remote pr <> VOk leaf) ->
  let x := client_exchange remote pr env sc in
  x_eff x = [] /\ (x_reply x = None \/ x_reply x = Some (-1)%Z) /\
  (forall p, sc_path sc = IoOk p -> sc_eom1 sc = EomOk -> x_reply x = Some (-1)%Z).
Proof.
  intro Hrej. cbv zeta. unfold client_exchange.
  destruct (sc_path sc) as [p|] eqn:Ep.
  2:{ repeat split; auto. intros; discriminate. }
  destruct (sc_eom1 sc) eqn:Ee; try (repeat split; auto; intros; discriminate).
  destruct (mkdir_part_cases remote pr env p) as [H|[leaf [Hv _]]].
  - rewrite H. repeat split; auto.
  - exfalso. apply (Hrej p leaf); [reflexivity|exact Hv].
Qed.

Lemma exchange_cleanup remote pr env sc q :
  In (EMkdir q true) (x_eff (client_exchange remote pr env sc)) ->
  exists before, x_eff (client_exchange remote pr env sc) = before ++ [ERmdir q].
Proof.
  intro Hin. destruct (exchange_effects remote pr env sc) as [H|[p [leaf [_ [_ [_ [_ [[_ [H _]]|[_ [H _]]]]]]]]]];
    cbv zeta in H; rewrite H in *.
  - destruct Hin.
  - destruct Hin as [Hin|[]]. discriminate.
  - destruct Hin as [Hin|[Hin|[]]]; [|discriminate]. injection Hin as Hq. subst q.
    exists [EMkdir (under_base leaf) true]. reflexivity.
Qed.

Lemma exchange_nil_return remote pr env sc :
  x_ret (client_exchange remote pr env sc) = RetNil ->
  sc_res sc = IoOk 0%Z /\ sc_eom2 sc = EomOk /\ sc_put sc = true /\ sc_fin sc = true.
Proof.
  unfold client_exchange.
  destruct (sc_path sc) as [p|]; [|discriminate].
  destruct (sc_eom1 sc); try discriminate.
  destruct (mkdir_part remote pr env p) as [[e1 code] cl]. cbn [x_ret].
  unfold exchange_tail.
  destruct (sc_put sc); cbn [negb]; [|discriminate].
  destruct (sc_fin sc); cbn [negb]; [|discriminate].
  destruct (sc_res sc) as [v|]; [|discriminate].
  destruct (sc_eom2 sc); try discriminate.
  destruct (v =? 0)%Z eqn:Ev; [|discriminate].
  apply Z.eqb_eq in Ev. subst. auto.
Qed.

(* what is left when the exchange is over: nothing, unless the Mkdir succeeded and
   somebody put an entry into the directory before the client's Remove ran *)
Lemma exchange_left_behind remote pr env sc :
  let x := client_exchange remote pr env sc in
  left_behind env (x_eff x) = [] \/
  exists p leaf, sc_path sc = IoOk p /\ validate p remote pr = VOk leaf /\
    mkdir_ok env leaf = true /\ at_cleanup env (under_base leaf) = CsNonEmptyDir /\
    left_behind env (x_eff x) = [under_base leaf].
Proof.
  cbv zeta.
  destruct (exchange_effects remote pr env sc) as [H|[p [leaf [Hp [_ [Hv [_ [[_ [H _]]|[Hm [H _]]]]]]]]]];
    cbv zeta in H; rewrite H.
  - left. reflexivity.
  - left. reflexivity.
  - unfold left_behind. cbn [left_from app].
    destruct (at_cleanup env (under_base leaf)) eqn:Ec; cbn [remove_clears filter];
      rewrite ?bytes_eqb_refl; cbn [negb]; try (left; reflexivity).
    right. exists p, leaf. repeat split; assumption.
Qed.

Lemma exchange_nothing_left remote pr env sc :
  (forall q, at_cleanup env q <> CsNonEmptyDir) ->
  left_behind env (x_eff (client_exchange remote pr env sc)) = [].
Proof.
  intro Hne. destruct (exchange_left_behind remote pr env sc) as [H|[p [leaf [_ [_ [_ [Hc _]]]]]]].
  - exact H.
  - exfalso. exact (Hne _ Hc).
Qed.

Lemma exchange_cleanup_needs_empty_directory :
  exists remote pr env sc,
    left_behind env (x_eff (client_exchange remote pr env sc)) <> [].
Proof.
  exists false, PNone,
    {| open_root_ok := true; mkdir_ok := fun _ => true; at_cleanup := fun _ => CsNonEmptyDir |},
    {| sc_path := IoOk (fs_base ++ slash :: pfx_local ++ [x31]); sc_eom1 := EomOk; sc_put := true; sc_fin := true;
       sc_res := IoOk 0%Z; sc_eom2 := EomOk |}.
  vm_compute. discriminate.
Qed.

(* ---------- the server's verification ------------------------------------------ *)
Lemma server_accepts code st lookup who :
  server_verdict code st lookup = (0%Z, who) ->
  code = 0%Z /\
  exists s u, st = Some s /\ st_dir s = true /\ st_symlink s = false /\
    st_perm s = owner_only_perm /\ (st_nlink s = 1%N \/ st_nlink s = 2%N) /\
    lookup (st_uid s) = Some u /\ who = Some u.
Proof.
  unfold server_verdict.
  destruct (code =? 0)%Z eqn:Ec; [|discriminate]. apply Z.eqb_eq in Ec.
  destruct st as [s|]; [|discriminate].
  destruct (st_dir s && negb (st_symlink s) && (st_perm s =? owner_only_perm)%N
            && ((st_nlink s =? 1)%N || (st_nlink s =? 2)%N)) eqn:E; [|discriminate].
  destruct (lookup (st_uid s)) as [u|] eqn:El; [|discriminate].
  intro H. injection H as H. subst who.
  apply andb_true_iff in E as [E E4]. apply andb_true_iff in E as [E E3].
  apply andb_true_iff in E as [E1 E2].
  apply negb_true_iff in E2. apply N.eqb_eq in E3. apply orb_true_iff in E4.
  split; [exact Ec|]. exists s, u. repeat split; try assumption.
  destruct E4 as [H|H]; apply N.eqb_eq in H; auto.
Qed.

Lemma server_identity_only_on_accept code st lookup res u :
  server_verdict code st lookup = (res, Some u) -> res = 0%Z.
Proof.
  unfold server_verdict.
  destruct (code =? 0)%Z; [|discriminate].
  destruct st as [s|]; [|discriminate].
  destruct (st_dir s && negb (st_symlink s) && (st_perm s =? owner_only_perm)%N
            && ((st_nlink s =? 1)%N || (st_nlink s =? 2)%N)); [|discriminate].
  destruct (lookup (st_uid s)); [|discriminate].
  intro H. injection H as H _. auto.
Qed.
