(* Proofs/C20Wire.v — the greeting decoder of Model/CCB.v (decode_wire) and the
   matching rule restated over wire bytes. *)
From Coq Require Import List NArith ZArith Lia Bool.
From Cedar Require Import Lib.Bytes gen.FactsC20 Model.CCB Proofs.C20.
From Cedar Require Model.Msg.
Import ListNotations.

(* CCB_REVERSE_CONNECT as the 8 bytes PutInt writes *)
Definition cmd_wire : bytes := [x00; x00; x00; x00; x00; x00; x00; x45].

Lemma cmd_wire_is_enc : Msg.enc_int ccb_reverse_connect = cmd_wire.
Proof. vm_compute. reflexivity. Qed.

(* the only 8 bytes the two's-complement reader turns into 69 *)
Lemma dec_int_exact bs :
  length bs = 8%nat -> Msg.dec_int bs = ccb_reverse_connect -> bs = cmd_wire.
Proof.
  intros Hl H. unfold Msg.dec_int, Msg.wrap64 in H.
  pose proof (be_dec_lt bs) as Hlt. rewrite Hl in Hlt.
  change (2 ^ (8 * N.of_nat 8))%N with 18446744073709551616%N in Hlt.
  change ccb_reverse_connect with 69%Z in H.
  change (2 ^ 63)%Z with 9223372036854775808%Z in H.
  change (2 ^ 64)%Z with 18446744073709551616%Z in H.
  assert (Hn : be_dec bs = 69%N).
  { revert H Hlt. generalize (be_dec bs). intros n H Hlt.
    destruct (Z_lt_le_dec (Z.of_N n + 9223372036854775808) 18446744073709551616) as [Hs|Hs].
    - rewrite Z.mod_small in H by lia. lia.
    - replace (Z.of_N n + 9223372036854775808)%Z
        with ((Z.of_N n + 9223372036854775808 - 18446744073709551616) + 1 * 18446744073709551616)%Z in H by lia.
      rewrite Z_mod_plus_full in H. rewrite Z.mod_small in H by lia. lia. }
  rewrite <- (be_enc_dec bs). rewrite Hl, Hn. vm_compute. reflexivity.
Qed.

(* GetInt delivers the two's-complement value of exactly 8 bytes *)
Lemma get_raw8_len r r1 bs : Msg.get_raw r 8 = (r1, Msg.MOk bs) -> length bs = 8%nat.
Proof.
  unfold Msg.get_raw, Msg.ensure.
  destruct (Msg.ensure_loop (Msg.r_in r) (Msg.r_buf r) (Msg.r_eom r) (Z.of_N 8)) as [[[buf eom] fs]|]; [|discriminate].
  destruct (Msg.short_of buf (Z.of_N 8)) eqn:Hs; [discriminate|].
  unfold Msg.take. cbn [Msg.r_buf Msg.set_buf Msg.add_alloc]. intros H. inversion H; subst; clear H.
  unfold Msg.short_of in Hs. cbn in Hs.
  do 8 (destruct buf as [|? buf]; [discriminate Hs|]). reflexivity.
Qed.

Lemma get_int_exact r r1 :
  Msg.get_int r = (r1, Msg.MOk ccb_reverse_connect) <-> Msg.get_raw r 8 = (r1, Msg.MOk cmd_wire).
Proof.
  unfold Msg.get_int. split.
  - destruct (Msg.get_raw r 8) as [r' [bs|e|]] eqn:Hr; intros H; inversion H; subst.
    f_equal. f_equal. apply dec_int_exact; [eapply get_raw8_len; eauto|assumption].
  - intros ->. reflexivity.
Qed.

Lemma hello_matches_nonempty id g :
  id <> [] -> (hello_matches id g = true <-> g = GHello ccb_reverse_connect (Some id)).
Proof.
  intros Hid. split.
  - apply hello_matches_exact; assumption.
  - intros ->. unfold hello_matches, ad_string. rewrite Z.eqb_refl. cbn [andb]. apply bytes_eqb_eq. reflexivity.
Qed.

(* the decoded greeting matches id  IFF  the first 8 bytes of the message are
   exactly the 64-bit big-endian 69 and the ad read behind them carries ClaimId = id *)
Theorem greeting_decoded_exactly :
  forall (parses : bytes -> bool) (claim_of : list bytes -> option bytes) cap tail w id,
  id <> [] ->
  (hello_matches id (decode_wire parses claim_of cap tail w) = true <->
   exists r1 r2 es,
     Msg.get_raw (Msg.reader_of (fst (frames_of w))) 8 = (r1, Msg.MOk cmd_wire) /\
     read_ad parses cap r1 = (r2, Msg.MOk es) /\ claim_of es = Some id).
Proof.
  intros parses claim_of cap tail w id Hid.
  rewrite (hello_matches_nonempty id _ Hid).
  unfold decode_wire, decode_frames. destruct (frames_of w) as [fs fe]. cbn [fst].
  split.
  - destruct (Msg.get_int (Msg.reader_of fs)) as [r1 [cmd|e|]] eqn:Hg; cbv beta iota.
    + destruct (Z.eqb cmd ccb_reverse_connect) eqn:Hc; cbv beta iota.
      * apply Z.eqb_eq in Hc. subst cmd. apply get_int_exact in Hg.
        destruct (read_ad parses cap r1) as [r2 [es|e|]] eqn:Hr; cbv beta iota.
        -- intros H. inversion H. exists r1, r2, es. auto.
        -- destruct e; try discriminate; destruct fe, tail; discriminate.
        -- discriminate.
      * intros H. inversion H.
    + destruct e; try discriminate; destruct fe, tail; discriminate.
    + discriminate.
  - intros (r1 & r2 & es & Hg & Hr & Hc). apply get_int_exact in Hg. rewrite Hg. cbv beta iota.
    rewrite Z.eqb_refl. rewrite Hr. cbv beta iota. rewrite Hc. reflexivity.
Qed.

(* no truncation, no modular coincidence: a command integer that differs from
   69 - in particular 69 + k * 2^32 - never yields a matching greeting *)
Theorem wide_command_never_matches :
  forall (parses : bytes -> bool) (claim_of : list bytes -> option bytes) cap tail w id r1 cmd,
  Msg.get_int (Msg.reader_of (fst (frames_of w))) = (r1, Msg.MOk cmd) ->
  cmd <> ccb_reverse_connect ->
  hello_matches id (decode_wire parses claim_of cap tail w) = false.
Proof.
  intros parses claim_of cap tail w id r1 cmd Hg Hne.
  unfold decode_wire, decode_frames. destruct (frames_of w) as [fs fe]. cbn [fst] in Hg. rewrite Hg.
  cbv beta iota.
  destruct (Z.eqb cmd ccb_reverse_connect) eqn:Hc; [apply Z.eqb_eq in Hc; contradiction|].
  cbv beta iota. unfold hello_matches. rewrite Hc. reflexivity.
Qed.

(* C20_only_matching over wire bytes: a schedule whose arrivals are given by the
   bytes each connection sent and what it did afterwards *)
Inductive wev :=
| WArrive (p : peer) (t : wire_tail) (w : bytes)
| WListenErr | WCtxDone | WPickAccept | WPickReply (r : reply) | WPickDone.

Definition lower_ev (parses : bytes -> bool) (claim_of : list bytes -> option bytes) (cap : Z) (e : wev) : sev :=
  match e with
  | WArrive p t w => SArrive p (decode_wire parses claim_of cap t w)
  | WListenErr => SListenErr | WCtxDone => SCtxDone | WPickAccept => SPickAccept
  | WPickReply r => SPickReply r | WPickDone => SPickDone
  end.

Theorem only_matching_wire :
  forall (parses : bytes -> bool) (claim_of : list bytes -> option bytes) cap id (ws : list wev) o,
  id <> [] ->
  run_attempt id (map (lower_ev parses claim_of cap) ws) = Finished o ->
  (forall p, o_res o = Returned p ->
     exists t w r1 r2 es,
       In (WArrive p t w) ws /\
       Msg.get_raw (Msg.reader_of (fst (frames_of w))) 8 = (r1, Msg.MOk cmd_wire) /\
       read_ad parses cap r1 = (r2, Msg.MOk es) /\ claim_of es = Some id) /\
  (forall q t w, In (WArrive q t w) ws -> In q (o_closed o) \/ o_res o = Returned q).
Proof.
  intros parses claim_of cap id ws o Hid Hrun.
  destruct (attempt_only_matching_full id _ o Hrun) as (H1 & H2 & _).
  split.
  - intros p Hp. destruct (H1 p Hp) as (g & Hin & Hm).
    apply in_map_iff in Hin. destruct Hin as (e & He & Hine).
    destruct e; cbn in He; try discriminate. inversion He; subst.
    apply (greeting_decoded_exactly parses claim_of cap t w id Hid) in Hm.
    destruct Hm as (r1 & r2 & es & Ha & Hb & Hc).
    exists t, w, r1, r2, es. auto.
  - intros q t w Hin. apply (H2 q (decode_wire parses claim_of cap t w)).
    apply in_map_iff. exists (WArrive q t w). split; [reflexivity|assumption].
Qed.
