(* Proofs/C05.v — proofs for property C05 (the server runs a command only on a
   session that meets that command's policy). *)
From Coq Require Import List ZArith NArith Bool Lia.
From Cedar Require Import gen.FactsC05 Model.Server Proofs.C05Spec.
Import ListNotations.

(* ---- commandLevelSatisfied / sessionSatisfies ------------------------------ *)

(* commandLevelSatisfied says exactly: REQUIRED authentication needs an
   authenticated session, REQUIRED encryption or integrity an encrypted one.
   (All 5*5*5 level triples and the nil policy, by case analysis.) *)
Lemma level_ok_spec : forall req a e,
  level_ok req a e = true <->
  ((requires_authn req = true -> a = true) /\ (requires_enc req = true -> e = true)).
Proof.
  intros [p|] a e; cbn [level_ok requires_authn requires_enc].
  - destruct (is_req (p_authn p)), (is_req (p_enc p) || is_req (p_integ p)), a, e; cbn; intuition congruence.
  - intuition congruence.
Qed.

Lemma is_req_spec : forall l, is_req l = true <-> l = LRequired.
Proof. destruct l; cbn; intuition congruence. Qed.

Lemma session_satisfies_spec : forall s c peer n,
  session_satisfies s c peer (Some n) = true <->
  ((requires_authn (current_policy s c) = true -> n_authn n = true) /\
   (requires_enc (current_policy s c) = true -> n_enc n = true) /\
   (forall az, s_authorizer s = Some az ->
      exists p, In p (command_perms s c) /\ az p peer (n_user n) = true)).
Proof.
  intros s c peer n. unfold session_satisfies, command_level_satisfied.
  destruct (level_ok (current_policy s c) (n_authn n) (n_enc n)) eqn:L; cbn [negb].
  - apply level_ok_spec in L. destruct L as [La Le].
    destruct (s_authorizer s) as [az|] eqn:A.
    + unfold authorized. rewrite existsb_exists. split.
      * intros [p [Hin Hp]]. repeat split; auto. intros az' E. inversion E; subst. eauto.
      * intros [_ [_ H]]. destruct (H az eq_refl) as [p [Hin Hp]]. eauto.
    + split; auto. intros _. repeat split; auto. intros az E; discriminate.
  - split; [discriminate|]. intros [Ha [He _]].
    assert (level_ok (current_policy s c) (n_authn n) (n_enc n) = true) by (apply level_ok_spec; auto).
    congruence.
Qed.

Lemma session_satisfies_nil : forall s c peer, session_satisfies s c peer None = false.
Proof. reflexivity. Qed.

(* ---- the keep-alive loop ------------------------------------------------------ *)

Lemma auth_loop_eq : forall srv peer cs c steps,
  auth_loop srv peer cs c steps =
  match lookup (s_handlers srv) c with
  | None => ([DRefuse c RUnknown], EClosedErr)
  | Some h =>
      if h_raw h then ([DRefuse c RWrongKind], EClosedErr)
      else if negb (session_satisfies srv c peer (Some (cs_neg cs))) then ([DRefuse c RNotSatisfied], EClosedErr)
      else
        let inv := DInvoke {| i_handler := h_id h; i_rawpath := false; i_cmd := c;
                              i_neg := Some (cs_neg cs); i_enc_real := cs_enc_real cs;
                              i_auth_real := cs_auth_real cs; i_peer := peer; i_srv := srv |} in
        match steps with
        | [] => ([inv], EPending)
        | st :: rest =>
            match st_ret st with
            | HErr => ([inv], EClosedErr)
            | HPanic => ([inv], EPanic)
            | HKeepOpen => ([inv], EOpen)
            | HDone => ([inv], EClosedOk)
            | HKeepAlive =>
                match st_next st with
                | None => ([inv], EClosedOk)
                | Some c' => let '(ds, e) := auth_loop (st_srv st) peer cs c' rest in (inv :: ds, e)
                end
            end
        end
  end.
Proof. intros; destruct steps; reflexivity. Qed.

(* what the loop guarantees about one dispatch it produced *)
Definition loop_good (peer : addr) (cs : cstate) (d : dispatch) : Prop :=
  match d with
  | DRefuse _ _ => True
  | DInvoke i =>
      i_rawpath i = false /\ registered_authenticated i /\ i_neg i = Some (cs_neg cs) /\
      session_satisfies (i_srv i) (i_cmd i) peer (Some (cs_neg cs)) = true /\
      i_enc_real i = cs_enc_real cs /\ i_auth_real i = cs_auth_real cs /\ i_peer i = peer
  end.

(* refusals come last, and end the connection with an error *)
Fixpoint refusals_final (ds : list dispatch) (e : cend) : Prop :=
  match ds with
  | [] => True
  | DRefuse _ _ :: r => r = [] /\ e = EClosedErr
  | DInvoke _ :: r => refusals_final r e
  end.

Ltac loop_cases H :=
  rewrite auth_loop_eq in H;
  match type of H with context [lookup ?t ?c] => destruct (lookup t c) as [h|] eqn:L end;
  [ match type of H with context [h_raw ?x] => destruct (h_raw x) eqn:R end;
    [ | match type of H with context [session_satisfies ?a ?b ?c ?d] =>
          destruct (session_satisfies a b c d) eqn:S end; cbn [negb] in H ] | ].

Lemma auth_loop_good : forall steps srv peer cs c ds e,
  auth_loop srv peer cs c steps = (ds, e) -> Forall (loop_good peer cs) ds.
Proof.
  induction steps as [|st rest IH]; intros srv peer cs c ds e H; loop_cases H.
  all: try (inversion H; subst; repeat constructor; fail).
  - inversion H; subst. constructor; [|constructor]. cbn.
    repeat split; auto. exists h; auto.
  - assert (G : loop_good peer cs (DInvoke {| i_handler := h_id h; i_rawpath := false; i_cmd := c;
                 i_neg := Some (cs_neg cs); i_enc_real := cs_enc_real cs;
                 i_auth_real := cs_auth_real cs; i_peer := peer; i_srv := srv |})).
    { cbn. repeat split; auto. exists h; auto. }
    cbv zeta in H.
    destruct (st_ret st); try (inversion H; subst; constructor; [exact G|constructor]; fail).
    destruct (st_next st) as [c'|]; [|inversion H; subst; constructor; [exact G|constructor]].
    destruct (auth_loop (st_srv st) peer cs c' rest) as [ds' e'] eqn:E.
    inversion H; subst. constructor; [exact G|]. eapply IH; eauto.
Qed.

Lemma auth_loop_refusals_final : forall steps srv peer cs c ds e,
  auth_loop srv peer cs c steps = (ds, e) -> refusals_final ds e.
Proof.
  induction steps as [|st rest IH]; intros srv peer cs c ds e H; loop_cases H.
  all: try (inversion H; subst; cbn; auto; fail).
  cbv zeta in H.
  destruct (st_ret st); try (inversion H; subst; cbn; auto; fail).
  destruct (st_next st) as [c'|]; [|inversion H; subst; cbn; auto].
  destruct (auth_loop (st_srv st) peer cs c' rest) as [ds' e'] eqn:E.
  inversion H; subst. cbn. eapply IH; eauto.
Qed.

Lemma auth_loop_cmds : forall steps srv peer cs c ds e,
  auth_loop srv peer cs c steps = (ds, e) ->
  is_prefix (map dispatch_cmd ds) (c :: follow_ons steps).
Proof.
  induction steps as [|st rest IH]; intros srv peer cs c ds e H; loop_cases H.
  all: try (inversion H; subst; cbn; eexists; reflexivity).
  cbv zeta in H. unfold follow_ons; cbn [flat_map]; fold (follow_ons rest).
  destruct (st_ret st); try (inversion H; subst; cbn; eexists; reflexivity).
  destruct (st_next st) as [c'|]; [|inversion H; subst; cbn; eexists; reflexivity].
  destruct (auth_loop (st_srv st) peer cs c' rest) as [ds' e'] eqn:E.
  inversion H; subst. destruct (IH _ _ _ _ _ _ E) as [r Hr].
  exists r. cbn in *. rewrite Hr. reflexivity.
Qed.

Lemma auth_loop_nonempty : forall steps srv peer cs c ds e,
  auth_loop srv peer cs c steps = (ds, e) -> ds <> [].
Proof.
  intros steps srv peer cs c ds e H. rewrite auth_loop_eq in H.
  destruct (lookup _ _); [destruct (h_raw _); [|destruct (negb _)]|];
    try (inversion H; discriminate).
  cbv zeta in H. destruct steps as [|st rest]; [inversion H; discriminate|].
  destruct (st_ret st); try (inversion H; discriminate).
  destruct (st_next st); [|inversion H; discriminate].
  destruct (auth_loop _ _ _ _ _). inversion H; discriminate.
Qed.

Lemma refusals_final_split : forall ds e pre c why post,
  refusals_final ds e -> ds = pre ++ DRefuse c why :: post -> post = [] /\ e = EClosedErr.
Proof.
  induction ds as [|d r IH]; intros e pre c why post F E.
  - destruct pre; discriminate.
  - destruct pre as [|p pre']; cbn in E; inversion E; subst.
    + cbn in F. exact F.
    + destruct p; cbn in F.
      * eapply IH; eauto.
      * destruct F as [F _]. destruct pre'; discriminate.
Qed.

Lemma refusals_final_invocations : forall ds e c why post,
  refusals_final ds e -> ds = DRefuse c why :: post -> invocations ds = [].
Proof.
  intros ds e c why post F E. destruct (refusals_final_split ds e [] c why post F E) as [P _].
  subst. reflexivity.
Qed.

Lemma in_invocations : forall ds i, In i (invocations ds) <-> In (DInvoke i) ds.
Proof.
  induction ds as [|d r IH]; intros i; cbn; [tauto|].
  destruct d; cbn; rewrite IH; intuition congruence.
Qed.

(* ---- the raw path ---------------------------------------------------------------- *)

Definition raw_good (peer : addr) (d : dispatch) : Prop :=
  match d with
  | DRefuse _ _ => True
  | DInvoke i => i_rawpath i = true /\ registered_raw i /\ i_neg i = None /\ i_enc_real i = false /\ i_peer i = peer
  end.

Lemma raw_path_good : forall srv peer c steps ds e,
  raw_path srv peer c steps = (ds, e) ->
  Forall (raw_good peer) ds /\ refusals_final ds e /\ map dispatch_cmd ds = [c].
Proof.
  intros srv peer c steps ds e H. unfold raw_path in H.
  destruct (lookup (s_handlers srv) c) as [h|] eqn:L.
  2:{ inversion H; subst; cbn; split; [repeat constructor|split; [auto|reflexivity]]. }
  destruct (h_raw h) eqn:R; cbn [negb] in H.
  2:{ inversion H; subst; cbn; split; [repeat constructor|split; [auto|reflexivity]]. }
  assert (G : raw_good peer (DInvoke {| i_handler := h_id h; i_rawpath := true; i_cmd := c; i_neg := None;
                i_enc_real := false; i_auth_real := false; i_peer := peer; i_srv := srv |})).
  { cbn. repeat split; auto. exists h; auto. }
  cbv zeta in H.
  assert (D : ds = [DInvoke {| i_handler := h_id h; i_rawpath := true; i_cmd := c; i_neg := None;
                i_enc_real := false; i_auth_real := false; i_peer := peer; i_srv := srv |}]).
  { destruct steps as [|st rest]; [|destruct (st_ret st)]; inversion H; reflexivity. }
  subst ds. split; [constructor; [exact G|constructor]|]. split; [exact I|reflexivity].
Qed.

(* ---- one connection ------------------------------------------------------------------ *)

(* statement of what one connection guarantees about its invocations,
   whatever the cache and whatever the handshake produced *)
Lemma loop_good_reported : forall peer cs i,
  loop_good peer cs (DInvoke i) ->
  registered_authenticated i /\ meets_policy_reported i /\ authorized_now i.
Proof.
  intros peer cs i [_ [Hreg [Hneg [Hsat [_ [_ Hpeer]]]]]].
  apply session_satisfies_spec in Hsat. destruct Hsat as [Ha [He Hz]].
  split; [exact Hreg|]. split.
  - exists (cs_neg cs). unfold policy_now. auto.
  - intros az Haz. destruct (Hz az Haz) as [p [Hin Hp]].
    exists (cs_neg cs), p. rewrite Hpeer. auto.
Qed.

Theorem serve_conn_reported : forall k cn k' ds e i,
  serve_conn k cn = (k', (ds, e)) -> In i (invocations ds) -> i_rawpath i = false ->
  registered_authenticated i /\ meets_policy_reported i /\ authorized_now i.
Proof.
  intros k cn k' ds e i H Hin Hraw. apply in_invocations in Hin.
  unfold serve_conn in H.
  destruct (c_first cn) as [c|]; [|inversion H; subst; destruct Hin].
  destruct (Z.eqb c DC_AUTHENTICATE).
  - destruct (s_default (c_srv cn)) as [d0|]; [|inversion H; subst; destruct Hin].
    destruct (handshake k (c_hs cn)) as [k1 [cs|]]; [|inversion H; subst; destruct Hin].
    inversion H; subst.
    pose proof (auth_loop_good _ _ _ _ _ _ _ H2) as G.
    rewrite Forall_forall in G. eapply loop_good_reported; eauto.
  - inversion H; subst.
    destruct (raw_path_good _ _ _ _ _ _ H2) as [G _].
    rewrite Forall_forall in G. specialize (G _ Hin). cbn in G. destruct G as [G _]. congruence.
Qed.

(* raw handlers only through the raw path and vice versa *)
Theorem serve_conn_separation : forall k cn k' ds e i,
  serve_conn k cn = (k', (ds, e)) -> In i (invocations ds) ->
  exists c, c_first cn = Some c /\
    if Z.eqb c DC_AUTHENTICATE
    then i_rawpath i = false /\ registered_authenticated i /\ i_neg i <> None
    else i_rawpath i = true /\ registered_raw i /\ i_neg i = None /\ i_cmd i = c /\ i_enc_real i = false.
Proof.
  intros k cn k' ds e i H Hin. apply in_invocations in Hin.
  unfold serve_conn in H.
  destruct (c_first cn) as [c|]; [|inversion H; subst; destruct Hin].
  exists c. split; [reflexivity|].
  destruct (Z.eqb c DC_AUTHENTICATE).
  - destruct (s_default (c_srv cn)) as [d0|]; [|inversion H; subst; destruct Hin].
    destruct (handshake k (c_hs cn)) as [k1 [cs|]]; [|inversion H; subst; destruct Hin].
    inversion H; subst.
    pose proof (auth_loop_good _ _ _ _ _ _ _ H2) as G.
    rewrite Forall_forall in G. specialize (G _ Hin). cbn in G.
    destruct G as [G1 [G2 [G3 _]]]. repeat split; auto. congruence.
  - inversion H; subst.
    destruct (raw_path_good _ _ _ _ _ _ H2) as [G [_ M]].
    rewrite Forall_forall in G. specialize (G _ Hin). cbn in G.
    destruct G as [G1 [G2 [G3 [G4 _]]]]. repeat split; auto.
    destruct ds as [|d [|d' r]]; cbn in M; try discriminate.
    destruct Hin as [Hin|[]]. subst d. cbn in M. congruence.
Qed.

(* a refused or unknown command is the last thing that happens on its
   connection: nothing is invoked for it or after it, the connection is closed
   and ServeConn reports an error *)
Theorem serve_conn_refusal : forall k cn k' ds e pre c why post,
  serve_conn k cn = (k', (ds, e)) -> ds = pre ++ DRefuse c why :: post ->
  post = [] /\ e = EClosedErr /\ invocations ds = invocations pre.
Proof.
  intros k cn k' ds e pre c why post H E.
  assert (F : refusals_final ds e).
  { unfold serve_conn in H.
    destruct (c_first cn) as [c0|]; [|inversion H; subst; exact I].
    destruct (Z.eqb c0 DC_AUTHENTICATE).
    - destruct (s_default (c_srv cn)) as [d0|]; [|inversion H; subst; exact I].
      destruct (handshake k (c_hs cn)) as [k1 [cs|]]; [|inversion H; subst; exact I].
      inversion H; subst. eapply auth_loop_refusals_final; eauto.
    - inversion H; subst. eapply raw_path_good; eauto. }
  destruct (refusals_final_split _ _ _ _ _ _ F E) as [P Q]. subst post.
  repeat split; auto. subst ds.
  clear. induction pre as [|d r IH]; cbn; [reflexivity|]. destruct d; cbn; congruence.
Qed.

(* a connection that ends in any way other than an error close refused nothing *)
Corollary serve_conn_no_refusal_unless_error : forall k cn k' ds e c why,
  serve_conn k cn = (k', (ds, e)) -> In (DRefuse c why) ds -> e = EClosedErr.
Proof.
  intros k cn k' ds e c why H Hin. apply in_split in Hin. destruct Hin as [pre [post E]].
  eapply serve_conn_refusal in E; eauto. tauto.
Qed.

(* the server dispatches exactly the commands the client asked for, in order:
   nothing runs that was not requested, nothing is skipped *)
Theorem serve_conn_commands_as_sent : forall k cn k' ds e,
  serve_conn k cn = (k', (ds, e)) ->
  ds = [] \/
  exists c, c_first cn = Some c /\
    if Z.eqb c DC_AUTHENTICATE
    then exists c0, requested (c_hs cn) = Some c0 /\ is_prefix (map dispatch_cmd ds) (c0 :: follow_ons (c_steps cn))
    else map dispatch_cmd ds = [c].
Proof.
  intros k cn k' ds e H. unfold serve_conn in H.
  destruct (c_first cn) as [c|]; [|inversion H; auto].
  destruct (Z.eqb c DC_AUTHENTICATE) eqn:Ec.
  - destruct (s_default (c_srv cn)) as [d0|]; [|inversion H; auto].
    destruct (handshake k (c_hs cn)) as [k1 [cs|]] eqn:Hs; [|inversion H; auto].
    inversion H; subst. right. exists c. split; auto. rewrite Ec.
    exists (n_cmd (cs_neg cs)). split; [|eapply auth_loop_cmds; eauto].
    unfold handshake in Hs. unfold requested.
    destruct (c_hs cn) as [[r|]|r|s oc io].
    + inversion Hs.
    + inversion Hs.
    + inversion Hs; subst. reflexivity.
    + destruct (cache_lookup k s) as [en|]; [|inversion Hs].
      destruct io; [|inversion Hs]. inversion Hs; subst.
      unfold resume in H3. destruct (negb (e_client en) && usable_key (e_key en)); inversion H3; subst; reflexivity.
  - inversion H; subst. right. exists c. split; auto. rewrite Ec.
    eapply raw_path_good; eauto.
Qed.

(* ---- resumption restores exactly what was stored ------------------------------------------ *)

Theorem resume_restores : forall en s c cs,
  resume en s c = Some cs ->
  e_client en = false /\ e_key en = KAes /\
  n_cmd (cs_neg cs) = c /\ n_sid (cs_neg cs) = s /\
  n_authn (cs_neg cs) = e_authn en /\ n_user (cs_neg cs) = e_user en /\
  n_valid (cs_neg cs) = e_valid en /\
  cs_auth_real cs = e_auth_real en /\
  n_enc (cs_neg cs) = true /\ cs_enc_real cs = true /\ n_resumed (cs_neg cs) = true.
Proof.
  intros en s c cs H. unfold resume in H.
  destruct (e_client en) eqn:C; cbn [negb andb] in H; [discriminate|].
  destruct (e_key en) eqn:K; cbn in H; inversion H; subst; cbn; repeat split; auto.
Qed.

(* a session without a usable key is never resumed *)
Theorem resume_needs_key : forall en s c, e_key en <> KAes -> resume en s c = None.
Proof. intros en s c H. unfold resume. destruct (e_client en), (e_key en); cbn; congruence. Qed.

(* the client-side record of a session negotiated with another server is never resumed *)
Theorem resume_refuses_client_record : forall en s c, e_client en = true -> resume en s c = None.
Proof. intros en s c H. unfold resume. rewrite H. reflexivity. Qed.

(* whatever this process stores as a client never becomes resumable by its server side,
   and never replaces a server-side record *)
Theorem client_store_inert : forall k s e s' en,
  cache_lookup (client_store k s e) s' = Some en ->
  e_client en = true \/ cache_lookup k s' = Some en.
Proof.
  intros k s e s' en H. unfold client_store in H.
  destruct (cache_lookup k s) as [e0|] eqn:L; [destruct (e_client e0) eqn:C|]; auto;
    cbn in H; destruct (N.eqb s s'); auto; inversion H; subst; left; reflexivity.
Qed.

(* ---- reported = real, carried through the cache and the loop -------------------------------- *)

Definition cs_faithful (cs : cstate) : Prop :=
  (n_authn (cs_neg cs) = true -> cs_auth_real cs = true) /\
  (n_enc (cs_neg cs) = true -> cs_enc_real cs = true).

Lemma cache_lookup_in : forall k s en, cache_lookup k s = Some en -> In (s, en) k.
Proof.
  induction k as [|[i x] r IH]; intros s en H; cbn in H; [discriminate|].
  destruct (N.eqb i s) eqn:E.
  - apply N.eqb_eq in E. inversion H; subst. left; reflexivity.
  - right; auto.
Qed.

Lemma cache_drop_faithful : forall k s, cache_faithful k -> cache_faithful (cache_drop k s).
Proof.
  unfold cache_faithful. induction k as [|[i x] r IH]; intros s F; cbn; [constructor|].
  inversion F; subst. destruct (N.eqb i s); [auto|constructor; auto].
Qed.

Lemma entry_of_full_faithful : forall r, full_faithful r -> entry_faithful (entry_of_full r).
Proof.
  intros r [Fa Fe]. unfold entry_faithful, entry_of_full; cbn. auto.
Qed.

(* a client-side record is never resumed by the server side, so its content is irrelevant *)
Lemma client_store_faithful : forall k s e, cache_faithful k -> cache_faithful (client_store k s e).
Proof.
  intros k s e F. unfold client_store.
  assert (M : entry_faithful (mark_client e)) by (unfold entry_faithful, mark_client; cbn; discriminate).
  destruct (cache_lookup k s) as [e0|]; [destruct (e_client e0)|]; auto; constructor; auto.
Qed.

Lemma resume_faithful : forall en s c cs, entry_faithful en -> resume en s c = Some cs -> cs_faithful cs.
Proof.
  intros en s c cs Fa H. unfold resume in H.
  destruct (e_client en) eqn:C; cbn [negb andb] in H; [discriminate|].
  destruct (usable_key (e_key en)); [|discriminate].
  inversion H; subst; unfold cs_faithful; cbn; split; auto.
Qed.

Lemma handshake_faithful : forall k h k' ocs,
  cache_faithful k -> Forall full_faithful (full_of_hs h) -> handshake k h = (k', ocs) ->
  cache_faithful k' /\ (forall cs, ocs = Some cs -> cs_faithful cs).
Proof.
  intros k h k' ocs Fk Fh H. unfold handshake in H.
  destruct h as [[r|]|r|s oc io]; cbn in Fh.
  - inversion H; subst. inversion Fh; subst. split; [|discriminate].
    constructor; auto. cbn. apply entry_of_full_faithful; auto.
  - inversion H; subst. split; [auto|discriminate].
  - inversion H; subst. inversion Fh; subst. split.
    + constructor; auto. cbn. apply entry_of_full_faithful; auto.
    + intros cs E. inversion E; subst. destruct H2 as [Fa Fe]. split; cbn; auto.
  - destruct (cache_lookup k s) as [en|] eqn:L.
    + destruct io; inversion H; subst; (split; [auto|]); [|discriminate].
      intros cs E. eapply resume_faithful; eauto.
      apply cache_lookup_in in L. unfold cache_faithful in Fk. rewrite Forall_forall in Fk.
      apply (Fk (s, en)); auto.
    + inversion H; subst. split; [auto|discriminate].
Qed.

Lemma loop_good_real : forall peer cs i,
  cs_faithful cs -> loop_good peer cs (DInvoke i) -> meets_policy_real i.
Proof.
  intros peer cs i [Fa Fe] [_ [_ [_ [Hsat [He [Ha _]]]]]].
  apply session_satisfies_spec in Hsat. destruct Hsat as [Sa [Se _]].
  unfold meets_policy_real, policy_now. rewrite He, Ha. split; auto.
Qed.

Lemma serve_conn_real : forall k cn k' ds e,
  cache_faithful k -> Forall full_faithful (full_of_hs (c_hs cn)) ->
  serve_conn k cn = (k', (ds, e)) ->
  cache_faithful k' /\
  (forall i, In i (invocations ds) -> i_rawpath i = false -> meets_policy_real i).
Proof.
  intros k cn k' ds e Fk Fh H. unfold serve_conn in H.
  destruct (c_first cn) as [c|]; [|inversion H; subst; split; [auto|intros i []]].
  destruct (Z.eqb c DC_AUTHENTICATE).
  - destruct (s_default (c_srv cn)) as [d0|]; [|inversion H; subst; split; [auto|intros i []]].
    destruct (handshake k (c_hs cn)) as [k1 ocs] eqn:Hs.
    destruct (handshake_faithful _ _ _ _ Fk Fh Hs) as [Fk1 Fcs].
    destruct ocs as [cs|]; [|inversion H; subst; split; [auto|intros i []]].
    inversion H; subst. split; [auto|].
    intros i Hin _. apply in_invocations in Hin.
    pose proof (auth_loop_good _ _ _ _ _ _ _ H2) as G. rewrite Forall_forall in G.
    eapply loop_good_real; eauto.
  - inversion H; subst. split; [auto|].
    intros i Hin Hr. apply in_invocations in Hin.
    destruct (raw_path_good _ _ _ _ _ _ H2) as [G _].
    rewrite Forall_forall in G. specialize (G _ Hin). cbn in G. destruct G as [G _]. congruence.
Qed.

(* ---- histories ---------------------------------------------------------------------------------- *)

Lemma invocations_app : forall a b, invocations (a ++ b) = invocations a ++ invocations b.
Proof.
  induction a as [|d r IH]; intros b; cbn; [reflexivity|]. destruct d; cbn; rewrite IH; reflexivity.
Qed.

(* every connection result in a history is serve_conn run from SOME cache *)
Lemma run_history_in : forall evs k out,
  In out (run_history k evs) -> exists k0 cn k1, In (EConn cn) evs /\ serve_conn k0 cn = (k1, out).
Proof.
  induction evs as [|ev r IH]; intros k out Hin; cbn in Hin; [destruct Hin|].
  destruct ev as [cn|s|s en|s en].
  - destruct (serve_conn k cn) as [k' o] eqn:E. destruct Hin as [Hin|Hin].
    + subst. exists k, cn, k'. split; [left; reflexivity|auto].
    + destruct (IH _ _ Hin) as [k0 [cn0 [k1 [A B]]]]. exists k0, cn0, k1. split; [right; auto|auto].
  - destruct (IH _ _ Hin) as [k0 [cn0 [k1 [A B]]]]. exists k0, cn0, k1. split; [right; auto|auto].
  - destruct (IH _ _ Hin) as [k0 [cn0 [k1 [A B]]]]. exists k0, cn0, k1. split; [right; auto|auto].
  - destruct (IH _ _ Hin) as [k0 [cn0 [k1 [A B]]]]. exists k0, cn0, k1. split; [right; auto|auto].
Qed.

Lemma history_invocations_in : forall k evs i,
  In i (history_invocations k evs) ->
  exists out, In out (run_history k evs) /\ In i (invocations (fst out)).
Proof.
  intros k evs i. unfold history_invocations, history_dispatches.
  generalize (run_history k evs). induction l as [|o r IH]; cbn; [tauto|].
  rewrite invocations_app, in_app_iff. intros [H|H].
  - exists o; auto.
  - destruct (IH H) as [out [A B]]. exists out; auto.
Qed.

Theorem history_dispatch : forall k evs i,
  In i (history_invocations k evs) -> i_rawpath i = false ->
  registered_authenticated i /\ meets_policy_reported i /\ authorized_now i.
Proof.
  intros k evs i Hin Hr.
  destruct (history_invocations_in _ _ _ Hin) as [[ds e] [A B]].
  destruct (run_history_in _ _ _ A) as [k0 [cn [k1 [_ S]]]].
  eapply serve_conn_reported; eauto.
Qed.

Theorem history_separation : forall k evs i,
  In i (history_invocations k evs) ->
  (i_rawpath i = false /\ registered_authenticated i /\ i_neg i <> None) \/
  (i_rawpath i = true /\ registered_raw i /\ i_neg i = None /\ i_enc_real i = false).
Proof.
  intros k evs i Hin.
  destruct (history_invocations_in _ _ _ Hin) as [[ds e] [A B]].
  destruct (run_history_in _ _ _ A) as [k0 [cn [k1 [_ S]]]].
  destruct (serve_conn_separation _ _ _ _ _ _ S B) as [c [_ H]].
  destruct (Z.eqb c DC_AUTHENTICATE); [left|right]; tauto.
Qed.

Theorem history_refusal : forall k evs ds e pre c why post,
  In (ds, e) (run_history k evs) -> ds = pre ++ DRefuse c why :: post ->
  post = [] /\ e = EClosedErr /\ invocations ds = invocations pre.
Proof.
  intros k evs ds e pre c why post Hin E.
  destruct (run_history_in _ _ _ Hin) as [k0 [cn [k1 [_ S]]]].
  eapply serve_conn_refusal; eauto.
Qed.

Lemma history_real_gen : forall evs k,
  cache_faithful k -> Forall full_faithful (history_fulls evs) -> Forall entry_faithful (history_imports evs) ->
  forall out, In out (run_history k evs) ->
  forall i, In i (invocations (fst out)) -> i_rawpath i = false -> meets_policy_real i.
Proof.
  induction evs as [|ev r IH]; intros k Fk Ff Fi out Hin; cbn in Hin; [destruct Hin|].
  destruct ev as [cn|s|s en|s en]; cbn in Ff, Fi.
  - apply Forall_app in Ff. destruct Ff as [Ff1 Ff2].
    destruct (serve_conn k cn) as [k' [ds e]] eqn:E.
    destruct (serve_conn_real _ _ _ _ _ Fk Ff1 E) as [Fk' G].
    destruct Hin as [Hin|Hin].
    + subst out. cbn. exact G.
    + eapply IH; eauto.
  - eapply (IH (cache_drop k s)); eauto. apply cache_drop_faithful; auto.
  - inversion Fi; subst. eapply (IH (cache_store k s en)); eauto. constructor; auto.
  - eapply (IH (client_store k s en)); eauto. apply client_store_faithful; auto.
Qed.

Theorem history_dispatch_real : forall k evs i,
  cache_faithful k -> Forall full_faithful (history_fulls evs) -> Forall entry_faithful (history_imports evs) ->
  In i (history_invocations k evs) -> i_rawpath i = false -> meets_policy_real i.
Proof.
  intros k evs i Fk Ff Fi Hin Hr.
  destruct (history_invocations_in _ _ _ Hin) as [out [A B]].
  eapply history_real_gen; eauto.
Qed.

(* ---- ValidCommands -------------------------------------------------------------------------------- *)

Theorem post_auth_policy_sound : forall s u peer a e c,
  In c (post_auth_policy s u peer a e) ->
  (exists h, lookup (s_handlers s) c = Some h /\ h_raw h = false /\ h_perms h <> []) /\
  (forall n, n_authn n = a -> n_enc n = e -> n_user n = u -> session_satisfies s c peer (Some n) = true).
Proof.
  intros s u peer a e c H. unfold post_auth_policy in H.
  destruct (s_authorizer s) as [az|] eqn:A; [|destruct H].
  apply filter_In in H. destruct H as [_ H].
  destruct (lookup (s_handlers s) c) as [h|] eqn:L; [|discriminate].
  apply andb_true_iff in H. destruct H as [H Hz].
  apply andb_true_iff in H. destruct H as [H Hl].
  apply andb_true_iff in H. destruct H as [Hr Hp].
  split.
  - exists h. repeat split; auto.
    + destruct (h_raw h); [discriminate|reflexivity].
    + destruct (h_perms h); [discriminate|discriminate].
  - intros n Ha He Hu. unfold session_satisfies. rewrite Ha, He, Hl, A. cbn [negb].
    unfold authorized, command_perms. rewrite L, Hu. exact Hz.
Qed.
