(* Proofs/C05.v — proofs for property C05 (dispatch only on a session that meets the command's policy). *)
From Coq Require Import List ZArith NArith Bool Lia.
From Cedar Require Import gen.FactsC05 Model.Server.
Import ListNotations.

(* commandLevelSatisfied says exactly: REQUIRED authentication needs an
   authenticated session, REQUIRED encryption or integrity an encrypted one *)
Lemma level_ok_spec : forall req a e,
  level_ok req a e = true <->
  ((requires_authn req = true -> a = true) /\ (requires_enc req = true -> e = true)).
Proof.
  intros [p|] a e; cbn [level_ok requires_authn requires_enc].
  - destruct (is_req (p_authn p)), (is_req (p_enc p) || is_req (p_integ p)), a, e; cbn; intuition congruence.
  - intuition congruence.
Qed.
