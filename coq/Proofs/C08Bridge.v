(* Proofs/C08Bridge.v — what GetClassAdRaw makes of the frames the sender produced
   (streams that do not toggle crypto for secrets: no key, or encrypting). *)
From Coq Require Import List NArith ZArith Lia Bool.
From Coq Require Import ZifyBool ZifyNat ZifyN.
From Cedar Require Import Lib.Bytes gen.Consts Model.Msg Model.Privacy Model.AdWire.
From Cedar Require Import Proofs.C14Reader Proofs.C14Writer Proofs.C14Roundtrip Proofs.C08Round.
Import ListNotations.
Local Open Scope N_scope.

(* ---- the finished flag is only set by running into the end of the message ---- *)
Lemma ensure_fin r n r' u : ensure r n = (r', MOk u) -> r_fin r' = r_fin r.
Proof.
  unfold ensure. destruct (ensure_loop _ _ _ _) as [[[b e] fs]|]; [|discriminate].
  destruct (short_of b n); intro H; inversion H; subst; reflexivity.
Qed.

Lemma get_raw_fin r n r' bs : get_raw r n = (r', MOk bs) -> r_fin r' = r_fin r.
Proof.
  unfold get_raw. destruct (ensure r (Z.of_N n)) as [r1 [u|e|]] eqn:E; try discriminate.
  unfold take. intro H; inversion H; subst. cbn. apply (ensure_fin _ _ _ _ E).
Qed.

Lemma get_int_fin r r' z : get_int r = (r', MOk z) -> r_fin r' = r_fin r.
Proof.
  unfold get_int. destruct (get_raw r 8) as [r1 [bs|e|]] eqn:E; try discriminate.
  intro H; inversion H; subst. apply (get_raw_fin _ _ _ _ E).
Qed.

Lemma get_lstr_fin r r' s : get_lstr r = (r', MOk s) -> r_fin r' = r_fin r.
Proof.
  unfold get_lstr, get_int32. destruct (get_int r) as [r1 [z|e|]] eqn:E; cbn [map_res]; try discriminate.
  destruct (wrap32 z <? 0)%Z; [discriminate|].
  destruct (ensure r1 (wrap32 z)) as [r2 [u|e|]] eqn:E2; try discriminate.
  unfold take. intro H; inversion H; subst. cbn.
  rewrite (ensure_fin _ _ _ _ E2). apply (get_int_fin _ _ _ E).
Qed.

Lemma get_cstr_loop_fin fuel : forall r acc r' s, wf r ->
  get_cstr_loop fuel r acc = (r', MOk s) -> r_fin r' = r_fin r \/ remaining r' = [].
Proof.
  induction fuel as [|f IH]; intros r acc r' s W; cbn [get_cstr_loop]; [discriminate|].
  destruct (ensure r 1) as [r1 res] eqn:E.
  destruct (ensure_spec r _ _ _ W E) as (W1 & R1 & Hs).
  destruct res as [u|e|].
  - destruct (r_buf r1) as [|b rest] eqn:B; [discriminate|].
    pose proof (ensure_fin _ _ _ _ E) as F1.
    destruct (byte_eqb b x00).
    + intro H; inversion H; subst. left. exact F1.
    + intro H. assert (W2 : wf (set_buf r1 rest)) by exact W1.
      destruct (IH _ _ _ _ W2 H) as [K|K]; [left; rewrite K; exact F1|right; exact K].
  - destruct e; try discriminate. intro H; inversion H; subst. right.
    rewrite R1. destruct (short_of (remaining r) 1) eqn:S.
    + rewrite short_of_spec in S. destruct (remaining r); [reflexivity|rewrite lenN_cons in S; lia].
    + destruct Hs as [Hs _]. discriminate.
  - discriminate.
Qed.

Lemma get_string_fin enc r r' s : wf r -> get_string enc r = (r', MOk s) -> r_fin r' = r_fin r \/ remaining r' = [].
Proof.
  intros W H. unfold get_string in H. destruct enc; [left; apply (get_lstr_fin _ _ _ H)|].
  unfold get_cstr in H. apply (get_cstr_loop_fin _ _ _ _ _ W H).
Qed.

Lemma in_firstn {A} k (l : list A) x : In x (firstn k l) -> In x l.
Proof. revert l; induction k as [|k IH]; intros [|y l] H; cbn in *; try contradiction. destruct H; auto. Qed.
Lemma in_skipn {A} k (l : list A) x : In x (skipn k l) -> In x l.
Proof. revert l; induction k as [|k IH]; intros [|y l] H; cbn in *; try contradiction; auto. Qed.

(* ---- a receiving stream in one mode, honest frames all of that mode ---- *)
Section uniform.
Variables key enc : bool.

Definition U (t : treader) : Prop :=
  t_key t = key /\ t_enc t = enc /\ Forall (fun b => b = key && enc) (t_tags t) /\ wf (t_r t) /\ r_fin (t_r t) = false.

Lemma t_step_U {A} (f : reader -> reader * mres A) t : U t ->
  snd (t_step f t) = snd (f (t_r t)) /\ t_r (fst (t_step f t)) = fst (f (t_r t)) /\
  t_key (fst (t_step f t)) = key /\ t_enc (fst (t_step f t)) = enc /\
  Forall (fun b => b = key && enc) (t_tags (fst (t_step f t))).
Proof.
  intros (K & E & T & _ & _). unfold t_step, t_sealed. rewrite K, E.
  destruct (f (t_r t)) as [r1 x]. cbn [fst snd].
  set (k := (length (r_in (t_r t)) - length (r_in r1))%nat).
  assert (C : forallb (Bool.eqb (key && enc)) (firstn k (t_tags t)) = true).
  { apply forallb_forall. intros b Hb. apply in_firstn in Hb. rewrite Forall_forall in T. rewrite (T b Hb).
    apply eqb_reflx. }
  rewrite C. cbn [fst snd t_r t_key t_enc t_tags]. repeat split; auto.
  apply Forall_forall. intros b Hb. rewrite Forall_forall in T. apply T.
  apply (in_skipn k). exact Hb.
Qed.
End uniform.

Section walk.
Variables key enc : bool.

Lemma string_bytes_nonempty e s : string_bytes e s <> [].
Proof. unfold string_bytes. intro H. apply app_eq_nil in H as [_ H]. apply app_eq_nil in H as [_ H]. discriminate. Qed.

Lemma step_int t z rest : U key enc t -> remaining (t_r t) = enc_int z ++ rest -> (- 2 ^ 63 <= z < 2 ^ 63)%Z ->
  exists t1, t_get_int t = (t1, MOk z) /\ U key enc t1 /\ remaining (t_r t1) = rest.
Proof.
  intros HU R Hz. pose proof HU as (K & E & T & W & F).
  pose proof (get_int_refines (t_r t) W) as (W1 & R1 & S1).
  rewrite R, (flat_int_enc z rest Hz) in R1, S1. cbn [fst snd] in R1, S1.
  destruct (t_step_U key enc get_int t HU) as (A & B & C & D & G).
  destruct (get_int (t_r t)) as [r1 y] eqn:GI. cbn [fst snd] in *. subst y.
  unfold t_get_int. destruct (t_step get_int t) as [t1 x]. cbn [fst snd] in *. subst x.
  exists t1. split; [reflexivity|]. split; [|rewrite B; exact R1].
  repeat split; auto; rewrite B; [exact W1|].
  rewrite (get_int_fin _ _ _ GI). exact F.
Qed.

Lemma step_string t s rest : U key enc t -> remaining (t_r t) = string_bytes enc s ++ rest -> valid_str enc s ->
  exists t1, t_get_string t = (t1, MOk s) /\ remaining (t_r t1) = rest /\ (rest <> [] -> U key enc t1).
Proof.
  intros HU R V. pose proof HU as (K & E & T & W & F).
  pose proof (get_string_refines enc (t_r t) W) as (W1 & R1 & S1).
  rewrite R, (flat_string_enc enc s rest V) in R1, S1. cbn [fst snd] in R1, S1.
  destruct (t_step_U key enc (get_string (t_enc t)) t HU) as (A & B & C & D & G).
  rewrite E in A, B, C, D, G.
  destruct (get_string enc (t_r t)) as [r1 y] eqn:GS. cbn [fst snd] in *. subst y.
  unfold t_get_string. rewrite E. destruct (t_step (get_string enc) t) as [t1 x]. cbn [fst snd] in *. subst x.
  exists t1. split; [reflexivity|]. split; [rewrite B; exact R1|].
  intro Hne. repeat split; auto; rewrite B; [exact W1|].
  destruct (get_string_fin enc _ _ _ W GS) as [Q|Q]; [rewrite Q; exact F|congruence].
Qed.

Lemma walk_exprs items : forall t acc rest,
  U key enc t -> remaining (t_r t) = concat (map (string_bytes enc) items) ++ rest -> rest <> [] ->
  Forall (valid_str enc) items -> Forall (fun s => bytes_eqb s secret_marker = false) items ->
  exists t1, get_exprs (fun _ => true) true (length items) t acc = (t1, MOk (rev acc ++ items))
             /\ U key enc t1 /\ remaining (t_r t1) = rest.
Proof.
  induction items as [|s items IH]; intros t acc rest HU R Hne V M; cbn [length get_exprs].
  - exists t. rewrite app_nil_r. auto.
  - inversion V as [|? ? Vs Vr]; subst. inversion M as [|? ? Ms Mr]; subst.
    assert (Fin : t_finished t = false).
    { destruct HU as (_ & _ & _ & _ & F). unfold t_finished. rewrite F. reflexivity. }
    rewrite Fin. cbn [andb map concat] in *. rewrite <- app_assoc in R.
    destruct (step_string t s _ HU R Vs) as (t1 & G & R1 & U1). rewrite G, Ms.
    assert (Hne1 : concat (map (string_bytes enc) items) ++ rest <> []).
    { intro H. apply app_eq_nil in H as [_ H]. contradiction. }
    destruct (IH t1 (s :: acc) rest (U1 Hne1) R1 Hne Vr Mr) as (t2 & G2 & U2 & R2).
    exists t2. rewrite G2. cbn [rev]. rewrite <- app_assoc. auto.
Qed.
End walk.

(* ---- the sender's frames all carry the stream's one mode ---- *)
Definition s_tagged (m : bool) (st : sstate) : Prop := Forall (fun f : tframe => fst f = m) (s_out st).

Lemma s_lift_tagged m f st : sealed_now st = m -> s_tagged m st -> s_tagged m (s_lift f st).
Proof.
  intros Hm H. unfold s_tagged, s_lift. cbn [s_out]. apply Forall_app. split; [exact H|].
  apply Forall_forall. intros x Hx. apply in_map_iff in Hx as (fr & <- & _). exact Hm.
Qed.

Lemma fold_plain_tagged c m l : forall st, sealed_now st = m -> s_tagged m st ->
  s_tagged m (fold_left (put_one c false) l st) /\ sealed_now (fold_left (put_one c false) l st) = m.
Proof.
  induction l as [|a l IH]; intros st Hm H; cbn [fold_left]; [auto|].
  unfold put_one at 2 4. cbn [andb]. apply IH; [exact Hm|apply s_lift_tagged; assumption].
Qed.

Lemma put_ad_tagged c key enc a : secret_is_noop key enc = true ->
  s_tagged (key && enc) (s_finish (put_ad c (sstate_init key enc) a)).
Proof.
  intro Hn. unfold s_finish, s_flush. set (m := key && enc).
  assert (G : s_tagged m (put_ad c (sstate_init key enc) a) /\ sealed_now (put_ad c (sstate_init key enc) a) = m).
  { unfold put_ad. cbv zeta.
    set (st1 := s_put_int (sstate_init key enc) _).
    assert (H1 : s_tagged m st1 /\ sealed_now st1 = m).
    { split; [apply s_lift_tagged; [reflexivity|constructor]|reflexivity]. }
    set (st2 := if opt_server_time (c_opts c) then _ else _).
    assert (H2 : s_tagged m st2 /\ sealed_now st2 = m /\ s_key st2 = key /\ s_enc st2 = enc).
    { subst st2. destruct (opt_server_time (c_opts c)).
      - destruct H1 as [A B]. split; [apply s_lift_tagged; assumption|]. repeat split.
      - destruct H1 as [A B]. repeat split; auto. }
    destruct H2 as (A2 & B2 & K2 & E2). rewrite K2, E2, Hn. cbn [negb].
    destruct (fold_plain_tagged c m (attrs_to_send c (ad_attrs a)) st2 B2 A2) as [A3 B3].
    destruct (opt_no_types (c_opts c)); [auto|].
    split; [|exact B3]. apply s_lift_tagged; [exact B3|]. apply s_lift_tagged; assumption. }
  destruct G as [A B]. apply s_lift_tagged; assumption.
Qed.

Lemma not_marker_space s : In x20 s -> bytes_eqb s secret_marker = false.
Proof.
  intro H. destruct (bytes_eqb s secret_marker) eqn:E; [|reflexivity].
  apply bytes_eqb_eq in E. subst s. exfalso. cbn in H. intuition discriminate.
Qed.

Lemma expr_text_not_marker a : bytes_eqb (expr_text a) secret_marker = false.
Proof. apply not_marker_space. unfold expr_text. apply in_or_app. right. left. reflexivity. Qed.

Definition type_ok (s : bytes) : Prop := s = [] \/ is_type_name s = true.
Lemma type_ok_check s : type_ok s -> negb (lenN s =? 0) && negb (is_type_name s) = false.
Proof. intros [->|H]; [reflexivity|rewrite H; apply andb_false_r]. Qed.

(* what GetClassAdRaw returns on the frames PutClassAd produced: the rendered items, in order, and
   the two type names *)
Lemma raw_roundtrip c key enc a :
  secret_is_noop key enc = true ->
  opt_no_types (c_opts c) = false ->
  Forall (valid_str enc) (ad_items c a) ->
  type_ok (ad_mytype a) -> type_ok (ad_targettype a) ->
  (Z.of_nat (length (ad_attrs a)) < 2 ^ 62)%Z ->
  exists t1,
    get_ad_raw (treader_of key enc (s_frames (s_finish (put_ad c (sstate_init key enc) a)))) =
      (t1, MOk ((if opt_server_time (c_opts c) then [server_time_expr] else []) ++
                map expr_text (attrs_to_send c (ad_attrs a)), ad_mytype a, ad_targettype a)).
Proof.
  intros Hn Hnt Hv Hmy Htg Hl.
  set (fsT := s_frames (s_finish (put_ad c (sstate_init key enc) a))).
  destruct (own_frames_honest c key enc a) as [Fok Fc]. fold fsT in Fok, Fc.
  pose proof (wire_layout c key enc a Hn) as L. rewrite <- Fc in L.
  set (exprs := (if opt_server_time (c_opts c) then [server_time_expr] else []) ++ map expr_text (attrs_to_send c (ad_attrs a))).
  assert (Items : ad_items c a = exprs ++ [ad_mytype a; ad_targettype a]).
  { unfold ad_items, exprs. rewrite Hnt, app_assoc. reflexivity. }
  set (n := (Z.of_nat (length (attrs_to_send c (ad_attrs a))) + (if opt_server_time (c_opts c) then 1 else 0))%Z) in *.
  assert (Hlen : Z.to_nat n = length exprs).
  { unfold exprs, n. rewrite app_length, map_length. destruct (opt_server_time (c_opts c)); cbn [length]; lia. }
  assert (Hcount : (- 2 ^ 63 <= n < 2 ^ 63)%Z).
  { unfold n. assert (length (attrs_to_send c (ad_attrs a)) <= length (ad_attrs a))%nat.
    { unfold attrs_to_send, filter_whitelist, filter_privacy. destruct (c_whitelist c); apply filter_len. }
    destruct (opt_server_time (c_opts c)); lia. }
  set (t0 := treader_of key enc fsT).
  assert (U0 : U key enc t0).
  { unfold U, t0, treader_of. cbn [t_key t_enc t_tags t_r]. repeat split.
    - apply Forall_forall. intros b Hb. apply in_map_iff in Hb as (f & <- & Hin).
      pose proof (put_ad_tagged c key enc a Hn) as Tg. unfold s_tagged in Tg. rewrite Forall_forall in Tg.
      apply Tg. exact Hin.
    - apply wf_reader_of. exact Fok. }
  assert (R0 : remaining (t_r t0) = enc_int n ++ concat (map (string_bytes enc) (ad_items c a))).
  { unfold t0, treader_of. cbn [t_r]. rewrite remaining_reader_of. exact L. }
  rewrite Items in R0, Hv. rewrite map_app, concat_app in R0.
  apply Forall_app in Hv as [Hve Hvt]. inversion Hvt as [|? ? Vmy Hvt2]; subst. inversion Hvt2 as [|? ? Vtg _]; subst.
  unfold get_ad_raw, get_ad_gen.
  destruct (step_int key enc t0 n _ U0 R0 Hcount) as (t1 & G1 & U1 & R1). rewrite G1, Hlen.
  assert (Hne : concat (map (string_bytes enc) [ad_mytype a; ad_targettype a]) <> []).
  { cbn [map concat]. intro H. apply app_eq_nil in H as [H _]. exact (string_bytes_nonempty _ _ H). }
  assert (Mk : Forall (fun s => bytes_eqb s secret_marker = false) exprs).
  { unfold exprs. apply Forall_app. split.
    - destruct (opt_server_time (c_opts c)); repeat constructor.
    - apply Forall_forall. intros s Hs. apply in_map_iff in Hs as (x & <- & _). apply expr_text_not_marker. }
  destruct (walk_exprs key enc exprs t1 [] _ U1 R1 Hne Hve Mk) as (t2 & G2 & U2 & R2). rewrite G2. cbn [rev app].
  unfold get_types. cbn [andb map concat] in *. rewrite app_nil_r in R2.
  destruct (step_string key enc t2 (ad_mytype a) _ U2 R2 Vmy) as (t3 & G3 & R3 & U3). rewrite G3.
  rewrite (type_ok_check _ Hmy).
  specialize (U3 (string_bytes_nonempty _ _)).
  rewrite <- (app_nil_r (string_bytes enc (ad_targettype a))) in R3.
  destruct (step_string key enc t3 (ad_targettype a) [] U3 R3 Vtg) as (t4 & G4 & _ & _). rewrite G4.
  rewrite (type_ok_check _ Htg). exists t4. reflexivity.
Qed.

(* why the round-trip theorems carry the side condition "no string starts with 0xAD" in length-prefixed
   mode: 0xAD is the wire format's NULL-string marker (and never the first byte of valid UTF-8) *)
Lemma null_marker_fact :
  exists (c : config) (a : ad),
    opt_no_types (c_opts c) = false /\ nul_free (ad_mytype a) /\ ad_mytype a <> [] /\
    exists t1 es my tg,
      get_ad_raw (treader_of true true (s_frames (s_finish (put_ad c (sstate_init true true) a)))) = (t1, MOk (es, my, tg))
      /\ my <> ad_mytype a.
Proof.
  exists {| c_opts := 0; c_whitelist := []; c_enc_attrs := []; c_peer := None |}.
  exists {| ad_attrs := [([x4e], [x31])]; ad_mytype := [xad; x66]; ad_targettype := [] |}.
  split; [reflexivity|]. split; [repeat constructor; discriminate|]. split; [discriminate|].
  eexists. eexists. eexists. eexists. split; [vm_compute; reflexivity|]. discriminate.
Qed.
