(* Proofs/C17Cache.v — command routing survives every interleaving of registrations
   (Store ; MapCommand, not atomic) with invalidations: a lookup by command returns
   only the entry that was stored under the id when the mapping was made. *)
From Coq Require Import List Bool PeanoNat.
From Cedar Require Import Model.Lockset.
Import ListNotations.

Definition route_inv (s : cache_st) : Prop :=
  forall k id g e, In (k, id, g) (cs_cmap s) -> assoc id (cs_sessions s) = Some e -> g = Some e.

Lemma assoc_drop_other id id' l : id' <> id -> assoc id' (drop_id id l) = assoc id' l.
Proof.
  intro H. induction l as [|[a b] r IH]; [reflexivity|]. cbn.
  destruct (Nat.eqb a id) eqn:E; cbn.
  - apply Nat.eqb_eq in E. subst. destruct (Nat.eqb id id') eqn:E2; [apply Nat.eqb_eq in E2; congruence|exact IH].
  - destruct (Nat.eqb a id'); [reflexivity|exact IH].
Qed.

Lemma assoc_drop_same id l : assoc id (drop_id id l) = None.
Proof.
  induction l as [|[a b] r IH]; [reflexivity|]. cbn.
  destruct (Nat.eqb a id) eqn:E; cbn; [exact IH|]. rewrite E. exact IH.
Qed.

Lemma in_purge k id' g id m : In (k, id', g) (purge id m) -> In (k, id', g) m /\ id' <> id.
Proof.
  unfold purge. rewrite filter_In. cbn. intros [H1 H2]. split; [exact H1|].
  apply negb_true_iff in H2. apply Nat.eqb_neq in H2. exact H2.
Qed.

Lemma in_drop_key x k m : In x (drop_key k m) -> In x m.
Proof. unfold drop_key. rewrite filter_In. tauto. Qed.

Lemma route_step s o : route_inv s -> route_inv (cache_step false s o).
Proof.
  intros I. destruct o as [id e|k id|id]; unfold route_inv; cbn; intros k' id' g e' Hin Ha.
  - (* Store *)
    destruct (opt_eqb (assoc id (cs_sessions s)) e) eqn:Same; cbn in Hin.
    + (* the same entry again: nothing purged, the id still holds e *)
      destruct (Nat.eqb id id') eqn:E.
      * apply Nat.eqb_eq in E. subst id'. inversion Ha; subst e'.
        unfold opt_eqb in Same. destruct (assoc id (cs_sessions s)) as [x|] eqn:Cur; [|discriminate].
        apply Nat.eqb_eq in Same. subst x. eapply I; eauto.
      * apply Nat.eqb_neq in E. rewrite assoc_drop_other in Ha by congruence. eapply I; eauto.
    + apply in_purge in Hin. destruct Hin as [Hin Hne].
      destruct (Nat.eqb id id') eqn:E; [apply Nat.eqb_eq in E; congruence|].
      rewrite assoc_drop_other in Ha by exact Hne. eapply I; eauto.
  - (* MapCommand *)
    destruct Hin as [Heq|Hin].
    + inversion Heq; subst. exact Ha.
    + apply in_drop_key in Hin. eapply I; eauto.
  - (* Invalidate *)
    apply in_purge in Hin. destruct Hin as [Hin Hne].
    rewrite assoc_drop_other in Ha by exact Hne. eapply I; eauto.
Qed.

Lemma route_fold ops s : route_inv s -> route_inv (fold_left (cache_step false) ops s).
Proof. revert s. induction ops as [|o r IH]; intros s I; [exact I|]. cbn. apply IH. apply route_step. exact I. Qed.

Lemma cmap_find_in k m id g : cmap_find k m = Some (id, g) -> In (k, id, g) m.
Proof.
  induction m as [|[[a i] h] r IH]; [discriminate|]. cbn.
  destruct (Nat.eqb a k) eqn:E.
  - intro H. inversion H; subst. apply Nat.eqb_eq in E. subst. left. reflexivity.
  - intro H. right. apply IH. exact H.
Qed.

(* for every sequence of atomic cache operations - hence every interleaving of any
   number of goroutines' Store / MapCommand / Invalidate calls - a lookup by command
   yields only the entry the mapping was made for *)
Theorem route_consistent ops k e g :
  lookup_by_command (cache_run false ops) k = Some (e, g) -> g = Some e.
Proof.
  unfold lookup_by_command, cache_run. intro H.
  assert (I : route_inv (fold_left (cache_step false) ops (mk_cache [] []))).
  { apply route_fold. intros ? ? ? ? []. }
  destruct (cmap_find k _) as [[id g']|] eqn:F; [|discriminate].
  destruct (assoc id _) as [e'|] eqn:A; [|discriminate].
  inversion H; subst. apply cmap_find_in in F. eapply I; eauto.
Qed.

(* purging only on replacement is wrong: an invalidation between the Store and the
   MapCommand of one registration leaves an orphan mapping that a later Store of the
   id inherits *)
Example lazy_purge_misroutes :
  lookup_by_command (cache_run true [OStore 7 1; OInvalidate 7; OMap 3 7; OStore 7 2]) 3 = Some (2, None).
Proof. reflexivity. Qed.
