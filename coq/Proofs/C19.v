(* Proofs/C19.v — proofs for C19 (cancellation always unblocks stream operations). *)
From Coq Require Import List Bool Arith Lia.
From Cedar Require Import Model.Cancel gen.FactsC19.
Import ListNotations.

(* ------------------------------------------------------------------ *)
(** * The primitive *)

Lemma shape_good_inv sh : shape_good sh = true ->
  sh_precheck sh = true /\ sh_reg sh = true /\ sh_stopchk sh = true /\ sh_ordered sh = true.
Proof.
  unfold shape_good. intro H.
  repeat (apply andb_true_iff in H; destruct H as [H ?]). auto.
Qed.

(* every ordering of {cancel, complete, stall}: the primitive returns unless
   the peer stalls and no cancellation ever fires *)
Lemma prim_returns sh cancellable ct p race :
  shape_good sh = true ->
  (p = Stalls -> cancellable = true /\ ct <> None) ->
  exists r c io, prim sh cancellable ct p race = Returned r c io.
Proof.
  intros G H. destruct (shape_good_inv _ G) as (P & R & St & O).
  unfold prim. rewrite P, R, St, O. cbn [andb].
  destruct (cancelled_by cancellable ct 0); [eauto|].
  destruct p as [b|].
  - destruct (sh_fast sh && negb cancellable); [eauto|].
    destruct (cancellable && cancelled_by cancellable ct 3); eauto.
  - destruct (H eq_refl) as [-> Hc]. rewrite andb_false_r. cbn.
    destruct ct; [eauto|congruence].
Qed.

(* cancellation before completion (points 0..3), or at any time while the peer
   stalls: the context's error is returned; the connection has been closed
   unless the call was never started *)
Lemma prim_cancel sh t p race :
  shape_good sh = true ->
  (t <= 3 \/ p = Stalls) ->
  prim sh true (Some t) p race =
    if Nat.eqb t 0 then Returned RCtxErr false false else Returned RCtxErr true true.
Proof.
  intros G H. destruct (shape_good_inv _ G) as (P & R & St & O).
  unfold prim, cancelled_by. rewrite P, R, St, O. cbn [andb negb].
  rewrite andb_false_r.
  destruct t as [|t]; [reflexivity|]. cbn [Nat.leb Nat.eqb].
  destruct p as [b|]; [|reflexivity].
  destruct H as [H|H]; [|discriminate].
  replace (Nat.leb t 2) with true by (symmetry; apply Nat.leb_le; lia).
  reflexivity.
Qed.

(* a never-cancellable context: exactly the blocking call's own behaviour *)
Lemma prim_background sh ct p race :
  shape_good sh = true ->
  prim sh false ct p race =
    match p with Completes b => Returned (of_bres b) false true | Stalls => Hangs end.
Proof.
  intros G. unfold prim, cancelled_by. cbn [andb negb]. rewrite !andb_false_r.
  destruct (sh_fast sh); cbn; destruct p; reflexivity.
Qed.

(* no cancellation, or cancellation only after stop(): the call's own result,
   and the connection is left open *)
Lemma prim_no_cancel sh cancellable ct b race :
  shape_good sh = true ->
  (ct = None \/ exists t, ct = Some t /\ 4 <= t) ->
  prim sh cancellable ct (Completes b) race = Returned (of_bres b) false true.
Proof.
  intros G H. destruct (shape_good_inv _ G) as (P & R & St & O).
  assert (C0 : cancelled_by cancellable ct 0 = false /\ cancelled_by cancellable ct 3 = false).
  { unfold cancelled_by. destruct H as [->|(t & -> & Ht)].
    - rewrite andb_false_r; auto.
    - split; (replace (Nat.leb t _) with false; [apply andb_false_r|symmetry; apply Nat.leb_gt; lia]). }
  destruct C0 as [C0 C3]. unfold prim. rewrite C0, C3, !andb_false_r.
  destruct (sh_fast sh && negb cancellable); reflexivity.
Qed.

(* each structural feature is needed: without it a clause of the property fails *)
Lemma shape_needed sh :
  (forall t p race, (t <= 3 \/ p = Stalls) -> exists c io, prim sh true (Some t) p race = Returned RCtxErr c io /\ (c = true \/ io = false)) ->
  (forall p race, exists c, prim sh true (Some 0) p race = Returned RCtxErr c false) ->
  shape_good sh = true.
Proof.
  intros H H0.
  destruct sh as [pc fa rg sc od]. unfold shape_good; cbn.
  destruct (H 2 Stalls false (or_intror eq_refl)) as (c1 & io1 & E1 & _).
  destruct (H0 (Completes BOk) false) as (c2 & E2).
  unfold prim, cancelled_by in E1, E2; cbn in E1, E2.
  destruct pc, fa, rg, sc, od; cbn in *; try reflexivity; try discriminate.
Qed.

(* ------------------------------------------------------------------ *)
(** * Sequences *)

Definition is_prop (s : step) : bool := match st_pol s with Propagate => true | Swallow => false end.

(* once the context is cancelled: no step touches the connection, nothing hangs,
   the connection state is unchanged, and the outcome is an error as soon as
   some step propagates (or the function ends in an error) *)
Lemma run_cancelled sh sw fin closed ps :
  shape_good sh = true ->
  let t := run sh true true sw fin closed ps in
  t_res t <> HHang /\ forallb negb (t_io t) = true /\ t_closed t = closed /\
  (existsb is_prop ps || fin && (sw || negb (Nat.eqb (length ps) 0)) = true -> t_res t = HErr).
Proof.
  intro G. revert sw closed. induction ps as [|s ps IH]; intros sw closed; cbn -[prim].
  - repeat split; try discriminate.
    + destruct (sw && fin); discriminate.
    + cbn. destruct sw, fin; cbn; congruence.
  - rewrite (prim_cancel sh 0 (st_peer s) (st_race s) G (or_introl (Nat.le_0_l _))). cbn [Nat.eqb].
    destruct (st_pol s) eqn:Pol; cbn.
    + repeat split; try discriminate; auto. rewrite orb_false_r. reflexivity.
    + specialize (IH true (closed || false)). cbn in IH. destruct IH as (A & B & C & D).
      repeat split; auto.
      * rewrite C. apply orb_false_r.
      * unfold is_prop at 1. rewrite Pol. cbn [orb]. intro H. apply D.
        destruct (existsb is_prop ps); [reflexivity|]. cbn in *.
        destruct fin; [reflexivity|discriminate].
Qed.

Lemma healthy_inv s : healthy s = true -> st_peer s = Completes BOk /\ st_cancel s = None.
Proof.
  unfold healthy. destruct (st_peer s) as [[|]|], (st_cancel s); try discriminate; auto.
Qed.

(* steps before the stall complete normally and leave the state untouched *)
Lemma run_healthy_prefix sh cancellable sw fin closed pre rest :
  shape_good sh = true ->
  forallb healthy pre = true ->
  let t := run sh cancellable false sw fin closed rest in
  run sh cancellable false sw fin closed (pre ++ rest) =
    mk_trace (t_res t) (repeat true (length pre) ++ t_io t) (t_closed t).
Proof.
  intros G. revert closed. induction pre as [|s pre IH]; intros closed H; cbn -[prim].
  - destruct (run sh cancellable false sw fin closed rest); reflexivity.
  - cbn in H. apply andb_true_iff in H. destruct H as [Hs Hp].
    destruct (healthy_inv _ Hs) as [Ep Ec]. rewrite Ep, Ec.
    rewrite (prim_no_cancel sh cancellable None BOk (st_race s) G (or_introl eq_refl)).
    cbn. rewrite andb_false_r. cbn. rewrite orb_false_r.
    rewrite (IH closed Hp). cbn. destruct (st_pol s); reflexivity.
Qed.

(* The handshake theorem.  For ALL step lists: healthy steps [pre], then a step
   at which the peer stalls and the cancellation fires (at any point >= 1 of
   that step: after its pre-check), then arbitrary further steps [post]
   (arbitrary policies, peers, races): the run does not hang, the stalled step
   is the last one that touches the connection, the connection is closed, and
   the result is an error provided some step from the stalled one on propagates
   its error (or the function ends in an error). *)
Lemma run_stall_cancel sh fin pre s post tc :
  shape_good sh = true ->
  forallb healthy pre = true ->
  st_peer s = Stalls -> st_cancel s = Some tc -> 1 <= tc ->
  let t := run sh true false false fin false (pre ++ s :: post) in
  t_res t <> HHang /\
  (exists n, t_io t = repeat true (length pre) ++ true :: repeat false n) /\
  t_closed t = true /\
  (guarded (s :: post) fin = true -> t_res t = HErr).
Proof.
  intros G Hpre Hp Hc Htc. cbn zeta.
  rewrite (run_healthy_prefix sh true false fin false pre (s :: post) G Hpre).
  cbn -[prim run]. cbn [run]. rewrite Hc, Hp.
  rewrite (prim_cancel sh tc Stalls (st_race s) G (or_intror eq_refl)).
  destruct tc as [|tc]; [lia|]. cbn [Nat.eqb].
  destruct (st_pol s) eqn:Pol; cbn.
  - repeat split; try discriminate; auto. exists 0. reflexivity.
  - pose proof (run_cancelled sh true fin true post G) as R. cbn zeta in R.
    destruct R as (A & B & C & D).
    repeat split; auto.
    + exists (length (t_io (run sh true true true fin true post))).
      f_equal. f_equal.
      remember (t_io (run sh true true true fin true post)) as l. clear -B.
      induction l as [|x l IH]; [reflexivity|]. cbn in *.
      apply andb_true_iff in B. destruct B as [Bx Bl]. destruct x; [discriminate|].
      f_equal. auto.
    + unfold guarded. cbn [existsb]. rewrite Pol. cbn [orb]. intro H. apply D.
      fold is_prop. unfold is_prop in *. 
      destruct (existsb _ post); [reflexivity|]. cbn in *. rewrite H. reflexivity.
Qed.

(* cancellation before the operation starts: nothing touches the connection *)
Lemma run_precancelled sh fin ps :
  shape_good sh = true ->
  let t := run sh true true false fin false ps in
  t_res t <> HHang /\ forallb negb (t_io t) = true /\
  (guarded ps fin = true -> ps <> [] -> t_res t = HErr).
Proof.
  intro G. destruct (run_cancelled sh false fin false ps G) as (A & B & C & D).
  repeat split; auto. intros H Hne. apply D. unfold guarded in H. fold is_prop.
  unfold is_prop in *. destruct (existsb _ ps); [reflexivity|]. cbn in *. rewrite H.
  destruct ps; [congruence|reflexivity].
Qed.

(* a context that can never be cancelled adds no failure mode: the run is the
   plain sequence of blocking calls *)
Lemma run_background sh cancelled sw fin closed ps :
  shape_good sh = true ->
  run sh false cancelled sw fin closed ps = run_plain sw fin closed ps.
Proof.
  intro G. revert cancelled sw closed. induction ps as [|s ps IH]; intros; cbn -[prim]; [reflexivity|].
  rewrite (prim_background sh _ (st_peer s) (st_race s) G).
  destruct (st_peer s) as [[|]|]; cbn; try reflexivity.
  - rewrite IH, !orb_false_r. destruct (st_pol s); reflexivity.
  - destruct (st_pol s); [rewrite orb_false_r; reflexivity|]. rewrite IH, !orb_false_r. reflexivity.
Qed.

(* ------------------------------------------------------------------ *)
(** * Obligations over the facts regenerated from the source *)

Lemma facts_hold : facts_ok fn_names shape_read shape_write raw_io io_sites ctx_inits = true.
Proof. vm_compute. reflexivity. Qed.

Lemma facts_callers : callers_ok fn_names ctx_inits caller_sites = true.
Proof. vm_compute. reflexivity. Qed.

Lemma facts_no_ctx_substitution : substs_ok fn_names ctx_substs = true.
Proof. vm_compute. reflexivity. Qed.

Lemma facts_shapes : shape_good shape_read = true /\ shape_good shape_write = true.
Proof.
  pose proof facts_hold as H. unfold facts_ok in H.
  repeat (apply andb_true_iff in H; destruct H as [H ?]). auto.
Qed.

Lemma facts_sites : forall s, In s io_sites -> ctx_ok ctx_inits (s_ctx s) = true /\ err_ok (s_err s) = true.
Proof.
  pose proof facts_hold as H. unfold facts_ok in H.
  repeat (apply andb_true_iff in H; destruct H as [H ?]).
  intros s Hs.
  match goal with H : forallb (site_ok _) _ = true |- _ => rewrite forallb_forall in H; specialize (H s Hs) end.
  unfold site_ok in *. apply andb_true_iff. assumption.
Qed.

Lemma facts_raw : forall r, In r raw_io -> r_class r = RConn -> is_prim fn_names (r_fn r) = true.
Proof.
  pose proof facts_hold as H. unfold facts_ok in H.
  repeat (apply andb_true_iff in H; destruct H as [H ?]).
  intros r Hr Hc.
  match goal with H : forallb (raw_ok _ _) _ = true |- _ => rewrite forallb_forall in H; specialize (H r Hr) end.
  unfold raw_ok in *. rewrite Hc in *. assumption.
Qed.
