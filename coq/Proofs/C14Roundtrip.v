(* Proofs/C14Roundtrip.v — typed values written by the model writer and read back
   by the model reader, for every framing of the emitted bytes. *)
From Coq Require Import List NArith ZArith Lia Bool ZifyBool ZifyNat ZifyN.
From Cedar Require Import Lib.Bytes gen.Consts Model.Msg Proofs.C14Reader Proofs.C14Writer.
Import ListNotations.
Local Open Scope N_scope.

(* ---------- typed values -------------------------------------------------- *)
Inductive tval :=
| TChar (c : byte)          (* PutChar / GetChar *)
| TInt64 (z : Z)            (* PutInt, PutInt64 / GetInt, GetInt64 *)
| TInt32 (z : Z)            (* PutInt32 / GetInt32 *)
| TUint32 (z : Z)           (* PutUint32 / GetUint32 *)
| TStr (s : bytes)          (* PutString / GetString *)
| TStrB (s : bytes)         (* PutStringBytes / GetString *)
| TBytes (bs : bytes).      (* PutBytes / GetBytes (length bs) *)

Definition wop_of (v : tval) : wop :=
  match v with
  | TChar c => WChar c
  | TInt64 z | TInt32 z | TUint32 z => WInt z
  | TStr s => WStr s
  | TStrB s => WStrB s
  | TBytes bs => WBytes bs
  end.
Definition op_of (v : tval) : getop :=
  match v with
  | TChar _ => OChar
  | TInt64 _ => OInt
  | TInt32 _ => OInt32
  | TUint32 _ => OUint32
  | TStr _ | TStrB _ => OStr
  | TBytes bs => OBytes (Z.of_N (lenN bs))
  end.
Definition val_of (v : tval) : getval :=
  match v with
  | TChar c => GvChar c
  | TInt64 z | TInt32 z | TUint32 z => GvInt z
  | TStr s | TStrB s => GvBytes s
  | TBytes bs => GvBytes bs
  end.

Definition nul_free (s : bytes) : Prop := Forall (fun b => b <> x00) s.
(* on encrypted streams a string must not start with the null-string marker 0xAD
   (never the first byte of valid UTF-8) and its length must fit the int32 prefix *)
Definition valid_str (enc : bool) (s : bytes) : Prop :=
  nul_free s /\
  (enc = true -> hd_error s <> Some xad /\ (Z.of_N (lenN s) + 1 < 2 ^ 31)%Z).
Definition valid (enc : bool) (v : tval) : Prop :=
  match v with
  | TChar _ => True
  | TInt64 z => (- 2 ^ 63 <= z < 2 ^ 63)%Z
  | TInt32 z => (- 2 ^ 31 <= z < 2 ^ 31)%Z
  | TUint32 z => (0 <= z < 2 ^ 32)%Z
  | TStr s | TStrB s => valid_str enc s
  | TBytes _ => True
  end.

Definition write_vals (enc : bool) (vs : list tval) : writer := write_ops enc (map wop_of vs).

(* ---------- integers ------------------------------------------------------ *)
Lemma enc_int_length z : length (enc_int z) = 8%nat.
Proof. apply be_enc_length. Qed.
Lemma enc_int_lenN z : lenN (enc_int z) = 8.
Proof. rewrite lenN_spec, enc_int_length. reflexivity. Qed.

Lemma dec_enc_int z : (- 2 ^ 63 <= z < 2 ^ 63)%Z -> dec_int (enc_int z) = z.
Proof.
  intro R. unfold dec_int, enc_int. rewrite be_dec_enc.
  change (2 ^ (8 * N.of_nat 8)) with (2 ^ 64).
  assert (M : (0 <= z mod 2 ^ 64 < 2 ^ 64)%Z) by (apply Z.mod_pos_bound; lia).
  rewrite N.mod_small by lia.
  rewrite Z2N.id by lia. unfold wrap64.
  assert (E : (z mod 2 ^ 64 = if z <? 0 then z + 2 ^ 64 else z)%Z).
  { destruct (z <? 0)%Z eqn:N.
    - symmetry. apply (Z.mod_unique _ _ (-1)); lia.
    - apply Z.mod_small. lia. }
  rewrite E. destruct (z <? 0)%Z eqn:N.
  - replace (z + 2 ^ 64 + 2 ^ 63)%Z with (z + 2 ^ 63 + 1 * 2 ^ 64)%Z by lia.
    rewrite Z.mod_add by lia. rewrite Z.mod_small by lia. lia.
  - rewrite Z.mod_small by lia. lia.
Qed.

Lemma wrap32_small z : (- 2 ^ 31 <= z < 2 ^ 31)%Z -> wrap32 z = z.
Proof. intro R. unfold wrap32. rewrite Z.mod_small by lia. lia. Qed.
Lemma wrapu32_small z : (0 <= z < 2 ^ 32)%Z -> wrapu32 z = z.
Proof. intro R. unfold wrapu32. apply Z.mod_small. lia. Qed.

(* ---------- flat decoding of one encoded value ----------------------------- *)
Lemma firstn_app_exact (a b : bytes) n : length a = n -> firstn n (a ++ b) = a.
Proof. intros <-. rewrite firstn_app, Nat.sub_diag, firstn_all. cbn. apply app_nil_r. Qed.
Lemma skipn_app_exact (a b : bytes) n : length a = n -> skipn n (a ++ b) = b.
Proof. intros <-. rewrite skipn_app, Nat.sub_diag, skipn_all. reflexivity. Qed.

Lemma flat_raw_exact a rest n : lenN a = n -> flat_raw (a ++ rest) n = (rest, MOk a).
Proof.
  intro L. unfold flat_raw. rewrite lenN_app.
  replace (lenN a + lenN rest <? n) with false by lia.
  rewrite lenN_spec in L.
  rewrite firstn_app_exact, skipn_app_exact by lia. reflexivity.
Qed.

Lemma flat_int_enc z rest : (- 2 ^ 63 <= z < 2 ^ 63)%Z ->
  flat_int (enc_int z ++ rest) = (rest, MOk z).
Proof.
  intro R. unfold flat_int. rewrite (flat_raw_exact _ _ 8) by apply enc_int_lenN.
  cbn [mapr]. rewrite dec_enc_int by exact R. reflexivity.
Qed.

Lemma neq_x00 b : b <> x00 -> byte_eqb b x00 = false.
Proof.
  intro H. destruct (byte_eqb b x00) eqn:E; [|reflexivity].
  apply byte_eqb_eq in E. contradiction.
Qed.
Lemma upto_nul_nulfree s : nul_free s -> upto_nul s = s.
Proof.
  induction 1 as [|b s Hb _ IH]; cbn [upto_nul]; [reflexivity|].
  rewrite (neq_x00 _ Hb), IH. reflexivity.
Qed.
Lemma upto_nul_app s rest : nul_free s -> upto_nul (s ++ x00 :: rest) = s.
Proof.
  induction 1 as [|b s Hb _ IH]; cbn [upto_nul app]; [reflexivity|].
  rewrite (neq_x00 _ Hb), IH. reflexivity.
Qed.
Lemma after_nul_app s rest : nul_free s -> after_nul (s ++ x00 :: rest) = rest.
Proof.
  induction 1 as [|b s Hb _ IH]; cbn [after_nul app]; [reflexivity|].
  rewrite (neq_x00 _ Hb). exact IH.
Qed.

Lemma BinNullChar_is_xad : n2b BinNullChar = xad.
Proof. reflexivity. Qed.

Lemma strip_string_terminated s :
  nul_free s -> hd_error s <> Some xad -> strip_string (s ++ [x00]) = s.
Proof.
  intros NF HD. unfold strip_string. rewrite BinNullChar_is_xad.
  assert (R : rev' (s ++ [x00]) = x00 :: rev s).
  { unfold rev'. rewrite <- rev_alt, rev_app_distr. reflexivity. }
  destruct s as [|b s'].
  - reflexivity.
  - cbn [app]. cbn [hd_error] in HD.
    destruct (byte_eqb b xad) eqn:E.
    + apply byte_eqb_eq in E. subst b. contradiction.
    + change (b :: s' ++ [x00]) with ((b :: s') ++ [x00]). rewrite R.
      change (byte_eqb x00 x00) with true. cbn iota.
      unfold rev'. rewrite <- rev_alt, rev_involutive. reflexivity.
Qed.

Lemma string_bytes_valid enc s : valid_str enc s ->
  string_bytes enc s = (if enc then enc_int (Z.of_N (lenN s) + 1) else []) ++ s ++ [x00].
Proof.
  intros [NF E]. unfold string_bytes. rewrite upto_nul_nulfree by exact NF.
  destruct enc; [|reflexivity].
  destruct (E eq_refl) as [_ L].
  rewrite wrap32_small by lia. repeat f_equal. lia.
Qed.

Lemma flat_string_enc enc s rest : valid_str enc s ->
  flat_string enc (string_bytes enc s ++ rest) = (rest, MOk s).
Proof.
  intro V. rewrite (string_bytes_valid _ _ V). destruct V as [NF E]. destruct enc.
  - destruct (E eq_refl) as [HD L]. cbn [flat_string]. unfold flat_lstr.
    rewrite <- !app_assoc. rewrite flat_int_enc by lia. cbn [mapr].
    rewrite wrap32_small by lia.
    replace (Z.of_N (lenN s) + 1 <? 0)%Z with false by lia.
    rewrite app_assoc.
    rewrite flat_raw_exact by (rewrite lenN_app; change (lenN [x00]) with 1; lia).
    cbn [mapr]. rewrite strip_string_terminated by assumption. reflexivity.
  - cbn [flat_string app]. unfold flat_cstr. rewrite <- app_assoc. cbn [app].
    rewrite upto_nul_app, after_nul_app by exact NF. reflexivity.
Qed.

Lemma flat_get_encoded enc v rest : valid enc v ->
  flat_get enc (wop_bytes enc (wop_of v) ++ rest) (op_of v) = (rest, MOk (val_of v)).
Proof.
  intro V. destruct v; cbn [wop_of wop_bytes op_of val_of flat_get valid] in *.
  - reflexivity.
  - rewrite flat_int_enc by exact V. reflexivity.
  - rewrite flat_int_enc by lia. cbn [mapr]. rewrite wrap32_small by exact V. reflexivity.
  - rewrite flat_int_enc by lia. cbn [mapr]. rewrite wrapu32_small by exact V. reflexivity.
  - rewrite flat_string_enc by exact V. reflexivity.
  - rewrite flat_string_enc by exact V. reflexivity.
  - unfold flat_bytes. destruct (Z.of_N (lenN bs) <=? 0)%Z eqn:E.
    + destruct bs; [reflexivity|rewrite lenN_cons in E; lia].
    + rewrite flat_raw_exact by lia. reflexivity.
Qed.

Lemma flat_ops_encoded enc vs : forall rest, Forall (valid enc) vs ->
  flat_ops enc (concat (map (wop_bytes enc) (map wop_of vs)) ++ rest) (map op_of vs)
  = map (fun v => MOk (val_of v)) vs.
Proof.
  induction vs as [|v t IH]; intros rest V; cbn [map concat flat_ops]; [reflexivity|].
  inversion V as [|? ? V1 V2]; subst.
  rewrite <- app_assoc, flat_get_encoded by exact V1. cbn [fst snd].
  rewrite IH by exact V2. reflexivity.
Qed.

(* ---------- honest frames out of the writer -------------------------------- *)
Lemma frames_ok_last fs last :
  Forall (fun f : mframe => snd f = false) fs -> frames_ok false (fs ++ [(last, true)]).
Proof.
  induction 1 as [|f fs Hf _ IH]; cbn [app frames_ok snd].
  - auto.
  - split; [reflexivity|]. rewrite Hf. exact IH.
Qed.
Lemma write_ops_frames_ok enc ops : frames_ok false (w_out (write_ops enc ops)).
Proof.
  destruct (write_ops_eom enc ops) as (fs & last & E & F). rewrite E. apply frames_ok_last, F.
Qed.

(* ---------- round trip ----------------------------------------------------- *)
(* reading, through ANY honest framing [fs] of the bytes the writer emitted, returns the values *)
Theorem roundtrip_any_framing enc vs fs :
  Forall (valid enc) vs ->
  frames_ok false fs ->
  concat (map fst fs) = concat (map fst (w_out (write_vals enc vs))) ->
  run_ops enc (reader_of fs) (map op_of vs) = map (fun v => MOk (val_of v)) vs.
Proof.
  intros V F E. rewrite run_ops_flat by exact F.
  rewrite remaining_reader_of, E. unfold write_vals. rewrite write_ops_content.
  rewrite <- (app_nil_r (concat _)). apply flat_ops_encoded, V.
Qed.

(* in particular through the writer's own framing ... *)
Theorem roundtrip_own_framing enc vs :
  Forall (valid enc) vs ->
  run_ops enc (reader_of (w_out (write_vals enc vs))) (map op_of vs) = map (fun v => MOk (val_of v)) vs.
Proof.
  intro V. apply roundtrip_any_framing; auto. apply write_ops_frames_ok.
Qed.

(* ... and through every re-cut of the concatenated bytes at arbitrary positions *)
Theorem roundtrip_every_cut enc vs lens :
  Forall (valid enc) vs ->
  run_ops enc (reader_of (cut_at (concat (map fst (w_out (write_vals enc vs)))) lens)) (map op_of vs)
  = map (fun v => MOk (val_of v)) vs.
Proof.
  intro V. destruct (cut_at_ok lens (concat (map fst (w_out (write_vals enc vs))))) as [A B].
  apply roundtrip_any_framing; auto.
Qed.
