(* Proofs/C13passsock.v — Model/PassSock.v: the shared-port pass-socket header reader is
   total, consumes at most 5 + 64 bytes, allocates at most 64 bytes and only after a complete
   5-byte header, accepts exactly the header the writer produces (any end flag), and
   reader . writer is the identity. *)
From Coq Require Import List NArith ZArith Lia Bool.
From Coq Require Import ZifyBool ZifyNat ZifyN.
From Cedar Require Import Lib.Bytes gen.FactsC13 Model.Msg Model.Decode Model.PassSock Proofs.C13.
Import ListNotations.
Local Open Scope N_scope.

Lemma read_full_spec inp n :
  match read_full inp n with
  | (None, rest) => rest = [] /\ lenN inp < n
  | (Some v, rest) => inp = v ++ rest /\ lenN v = n
  end.
Proof.
  unfold read_full. rewrite len_lt_spec. destruct (N.ltb_spec (lenN inp) n).
  - split; [reflexivity|assumption].
  - split; [symmetry; apply firstn_skipn|].
    rewrite lenN_spec, firstn_length. rewrite lenN_spec in *. lia.
Qed.

Lemma be_enc_of_dec (bs : bytes) k n : length bs = k -> be_dec bs = n -> bs = be_enc k n.
Proof. intros <- <-. symmetry. apply be_enc_dec. Qed.

Definition ps_post (inp : bytes) (x : ps_res * ps_state) : Prop :=
  let '(res, st) := x in
  res <> PsPanic /\
  exists pre, inp = pre ++ ps_in st /\
    lenN pre <= PsHeaderSize + PsMaxHeaderPayload /\
    ps_alloc st <= PsMaxHeaderPayload /\
    (0 < ps_alloc st -> PsHeaderSize <= lenN pre) /\
    (res = PsOk -> ps_alloc st = PsIntPayloadLen /\
                   exists flag, pre = flag :: be_enc 4 PsIntPayloadLen ++ be_enc 8 PassSockCmd).

Theorem read_pass_sock_header_spec inp : ps_post inp (read_pass_sock_header inp).
Proof.
  unfold read_pass_sock_header, ps_post.
  change PsHeaderSize with 5. change PsMaxHeaderPayload with 64. change PsIntPayloadLen with 8. change PassSockCmd with 76.
  pose proof (read_full_spec inp 5) as H. destruct (read_full inp 5) as [[hdr|] rest].
  2:{ destruct H as [-> L]. split; [discriminate|]. exists inp. cbn [ps_in ps_alloc]. rewrite app_nil_r.
      repeat split; try lia; discriminate. }
  destruct H as [-> Lh].
  destruct (go_slice_some hdr 1 5) as (lb & Elb & Llb); try lia. rewrite Elb.
  destruct ((be_dec lb =? 0) || (64 <? be_dec lb)) eqn:C.
  { split; [discriminate|]. exists hdr. cbn [ps_in ps_alloc]. repeat split; try lia; discriminate. }
  unfold go_make. destruct (Z.ltb_spec (Z.of_N (be_dec lb)) 0); [lia|]. rewrite N2Z.id.
  pose proof (read_full_spec rest (be_dec lb)) as H2. destruct (read_full rest (be_dec lb)) as [[payload|] rest'].
  2:{ destruct H2 as [-> Lr]. split; [discriminate|]. exists (hdr ++ rest). cbn [ps_in ps_alloc].
      rewrite app_nil_r, lenN_app. repeat split; try lia; discriminate. }
  destruct H2 as [-> Lp].
  destruct (negb (lenN payload =? 8)) eqn:C2.
  { split; [discriminate|]. exists (hdr ++ payload). cbn [ps_in ps_alloc].
    rewrite app_assoc, lenN_app. repeat split; try lia; discriminate. }
  destruct (be_dec payload =? 76) eqn:C3.
  2:{ split; [discriminate|]. exists (hdr ++ payload). cbn [ps_in ps_alloc].
      rewrite app_assoc, lenN_app. repeat split; try lia; discriminate. }
  split; [discriminate|]. exists (hdr ++ payload). cbn [ps_in ps_alloc].
  rewrite app_assoc, lenN_app. repeat split; try lia.
  destruct hdr as [|flag hdr']; [rewrite lenN_nil in Lh; lia|]. exists flag.
  rewrite lenN_cons in Lh. assert (L4 : length hdr' = 4%nat) by (rewrite lenN_spec in Lh; lia).
  destruct hdr' as [|h1 [|h2 [|h3 [|h4 [|h5 t]]]]]; try discriminate L4.
  assert (Ehl : lb = [h1; h2; h3; h4]).
  { unfold go_slice in Elb. destruct ((0 <=? 1)%Z && (1 <=? 5)%Z && (5 <=? Z.of_N (lenN [flag; h1; h2; h3; h4]))%Z); [|discriminate].
    injection Elb as E. rewrite <- E. reflexivity. }
  subst lb. cbn [app]. f_equal. change (h1 :: h2 :: h3 :: h4 :: payload) with ([h1; h2; h3; h4] ++ payload). f_equal.
  - apply be_enc_of_dec; [exact L4|lia].
  - apply be_enc_of_dec; [rewrite lenN_spec in *; lia|lia].
Qed.

(* reader . writer: the header produced by writePassSockHeader, followed by anything, is
   accepted; exactly its 13 bytes are consumed and 8 bytes are allocated *)
Theorem pass_sock_round_trip rest :
  read_pass_sock_header (write_pass_sock_header ++ rest) = (PsOk, {| ps_in := rest; ps_alloc := 8 |}).
Proof. destruct rest; vm_compute; reflexivity. Qed.
