(* Proofs/C01Stream.v — round trip of whole histories through the stream layer. *)
From Coq Require Import List NArith ZArith Lia Bool.
From Cedar Require Import Lib.Bytes Lib.Sym gen.Consts Model.Frame Model.FrameSpec Proofs.FrameBase.
Import ListNotations.
Local Open Scope N_scope.

(* B receives the frames fs one by one through ReceiveFrameWithEnd, obtaining dfs *)
Inductive delivers : stream -> list frame -> list (bytes * N) -> stream -> Prop :=
| del_nil B : delivers B [] [] B
| del_cons B f d fl B1 fs dfs B2 :
    recv_frame_we B f = (B1, SOk (d, fl)) -> delivers B1 fs dfs B2 ->
    delivers B (f :: fs) ((d, fl) :: dfs) B2.

Lemma delivers_app B fs1 dfs1 B1 fs2 dfs2 B2 :
  delivers B fs1 dfs1 B1 -> delivers B1 fs2 dfs2 B2 -> delivers B (fs1 ++ fs2) (dfs1 ++ dfs2) B2.
Proof.
  induction 1 as [|B f d fl Bm fs dfs Bn Hr Hd IH]; intro H2; [exact H2|].
  cbn [app]. econstructor; [exact Hr|]. apply IH. exact H2.
Qed.

Definition partial_tr (ds : list bytes) : list (bytes * N) := map (fun d => (d, EndFlagPartial)) ds.

Lemma flag_partial_ok : EndFlagPartial <= FlagMaxRecvWE.
Proof. vm_compute. discriminate. Qed.
Lemma flag_complete_ok : EndFlagComplete <= FlagMaxRecvWE.
Proof. vm_compute. discriminate. Qed.

(* ---- direct messages -------------------------------------------------- *)
Lemma partials_deliver ps : forall A B A1 fs,
  duplex A B -> partials A ps = (A1, SOk fs) ->
  exists B1, delivers B fs (partial_tr ps) B1 /\ duplex A1 B1.
Proof.
  induction ps as [|p ps IH]; intros A B A1 fs D Hp; cbn [partials] in Hp.
  - injection Hp as <- <-. exists B. split; [constructor|exact D].
  - destruct (send_frame A p EndFlagPartial) as [A2 [f|e]] eqn:Es; [|discriminate].
    destruct (partials A2 ps) as [A3 [fs2|e]] eqn:Ep; [|discriminate].
    injection Hp as <- <-.
    destruct (send_recv_frame _ _ _ _ _ _ D flag_partial_ok Es) as [B2 [Hr D2]].
    destruct (IH _ _ _ _ D2 Ep) as [B3 [Hd D3]].
    exists B3. split; [|exact D3]. cbn [partial_tr map]. econstructor; eassumption.
Qed.

(* ---- buffered messages ------------------------------------------------ *)
(* duplex ignores the send buffer *)
Lemma duplex_upd_sbuf A B buf eom : duplex A B -> duplex (upd_sbuf A buf eom) B.
Proof.
  intros [[a1 a2 a3 a4 a5 a6 a7 a8] [b1 b2 b3 b4 b5 b6 b7 b8]].
  split; constructor; proj_simpl; assumption.
Qed.

Lemma send_frame_sbuf A d fl A' f :
  send_frame A d fl = (A', SOk f) -> send_buf A' = send_buf A /\ send_eom A' = send_eom A.
Proof.
  unfold send_frame. destruct (MaxMessageSize <? lenN d); [discriminate|].
  destruct (key A); [destruct (encrypted A); [destruct (enc_ctr A =? CounterGuard); [discriminate|]|]|];
    cbv zeta; intro E; injection E as <- _; proj_simpl; split; reflexivity.
Qed.

Lemma send_frame_sbuf_indep A d fl buf eom :
  send_frame (upd_sbuf A buf eom) d fl =
  match send_frame A d fl with
  | (A', SOk f) => (upd_sbuf A' buf eom, SOk f)
  | (A', SErr e) => (upd_sbuf A' buf eom, SErr e)
  end.
Proof.
  unfold send_frame. proj_simpl. destruct (MaxMessageSize <? lenN d); [reflexivity|].
  destruct (key A); [destruct (encrypted A); [destruct (enc_ctr A =? CounterGuard); [reflexivity|]|]|];
    reflexivity.
Qed.

(* one buffered write: either nothing is emitted and the buffer grows, or the whole
   buffer goes out as one partial frame *)
Lemma write_message_spec A B c A1 fs :
  duplex A B -> send_eom A = false -> write_message A c = (A1, SOk fs) ->
  exists ds B1, delivers B fs (partial_tr ds) B1 /\ duplex A1 B1 /\ send_eom A1 = false /\
                concat ds ++ send_buf A1 = send_buf A ++ c.
Proof.
  intros D He Hw. unfold write_message in Hw. rewrite He in Hw.
  set (A0 := upd_sbuf A (send_buf A ++ c) false) in *.
  assert (D0 : duplex A0 B) by (apply duplex_upd_sbuf; exact D).
  destruct (DefaultFrameThreshold <=? lenN (send_buf A0)) eqn:Et.
  - unfold flush_partial in Hw.
    destruct (lenN (send_buf A0) =? 0) eqn:E0.
    + injection Hw as <- <-. exists [], B. split; [constructor|]. split; [exact D0|].
      subst A0; proj_simpl. split; reflexivity.
    + destruct (send_frame A0 (send_buf A0) EndFlagPartial) as [A2 [f|e]] eqn:Es; [|discriminate].
      injection Hw as <- <-.
      destruct (send_recv_frame _ _ _ _ _ _ D0 flag_partial_ok Es) as [B2 [Hr D2]].
      destruct (send_frame_sbuf _ _ _ _ _ Es) as [Hb Hee].
      exists [send_buf A0], B2. split.
      * cbn [partial_tr map]. econstructor; [exact Hr|constructor].
      * split; [apply duplex_upd_sbuf; exact D2|]. proj_simpl.
        split; [rewrite Hee; subst A0; proj_simpl; reflexivity|].
        cbn [concat]. rewrite !app_nil_r. subst A0; proj_simpl. reflexivity.
  - injection Hw as <- <-. exists [], B. split; [constructor|]. split; [exact D0|].
    subst A0; proj_simpl. split; reflexivity.
Qed.

Lemma partial_tr_app a b : partial_tr (a ++ b) = partial_tr a ++ partial_tr b.
Proof. unfold partial_tr. apply map_app. Qed.

Lemma writes_spec cs : forall A B A1 fs,
  duplex A B -> send_eom A = false -> writes A cs = (A1, SOk fs) ->
  exists ds B1, delivers B fs (partial_tr ds) B1 /\ duplex A1 B1 /\ send_eom A1 = false /\
                concat ds ++ send_buf A1 = send_buf A ++ concat cs.
Proof.
  induction cs as [|c cs IH]; intros A B A1 fs D He Hw; cbn [writes] in Hw.
  - injection Hw as <- <-. exists [], B. split; [constructor|]. split; [exact D|]. split; [exact He|].
    cbn [concat]. rewrite app_nil_r. reflexivity.
  - destruct (write_message A c) as [A2 [fs1|e]] eqn:E1; [|discriminate].
    destruct (writes A2 cs) as [A3 [fs2|e]] eqn:E2; [|discriminate].
    injection Hw as <- <-.
    destruct (write_message_spec _ _ _ _ _ D He E1) as [ds1 [B2 [Hd1 [D2 [He2 Hc1]]]]].
    destruct (IH _ _ _ _ D2 He2 E2) as [ds2 [B3 [Hd2 [D3 [He3 Hc2]]]]].
    exists (ds1 ++ ds2), B3. split; [rewrite partial_tr_app; eapply delivers_app; eassumption|].
    split; [exact D3|]. split; [exact He3|].
    rewrite concat_app, <- app_assoc, Hc2. cbn [concat]. rewrite !app_assoc. f_equal. exact Hc1.
Qed.

(* ---- one whole message ------------------------------------------------- *)
Lemma send_msg_delivers m A B A1 fs :
  duplex A B -> send_msg A m = (A1, SOk fs) ->
  exists ds dl B1, delivers B fs (partial_tr ds ++ [(dl, EndFlagComplete)]) B1 /\ duplex A1 B1 /\
                   concat ds ++ dl = payload_of m.
Proof.
  intros D Hs. destruct m as [cs|ps l]; cbn [send_msg] in Hs.
  - destruct (writes (start_message A) cs) as [A2 [fs1|e]] eqn:E1; [|discriminate].
    destruct (end_message A2) as [A3 [fs2|e]] eqn:E2; [|discriminate].
    injection Hs as <- <-.
    assert (D0 : duplex (start_message A) B) by (apply duplex_upd_sbuf; exact D).
    destruct (writes_spec _ _ _ _ _ D0 eq_refl E1) as [ds [B2 [Hd [D2 [He Hc]]]]].
    unfold end_message in E2. rewrite He in E2.
    rewrite send_frame_sbuf_indep in E2. proj_simpl.
    destruct (send_frame A2 (send_buf A2) EndFlagComplete) as [A4 [f|e]] eqn:Es; [|discriminate].
    injection E2 as <- <-.
    destruct (send_recv_frame _ _ _ _ _ _ D2 flag_complete_ok Es) as [B3 [Hr D3]].
    exists ds, (send_buf A2), B3. split.
    + eapply delivers_app; [exact Hd|]. econstructor; [exact Hr|constructor].
    + split; [apply duplex_upd_sbuf, duplex_upd_sbuf; exact D3|].
      rewrite Hc. unfold start_message. proj_simpl. reflexivity.
  - destruct (partials A ps) as [A2 [fs1|e]] eqn:E1; [|discriminate].
    destruct (send_frame A2 l EndFlagComplete) as [A3 [f|e]] eqn:E2; [|discriminate].
    injection Hs as <- <-.
    destruct (partials_deliver _ _ _ _ _ D E1) as [B2 [Hd D2]].
    destruct (send_recv_frame _ _ _ _ _ _ D2 flag_complete_ok E2) as [B3 [Hr D3]].
    exists ps, l, B3. split; [|split; [exact D3|reflexivity]].
    eapply delivers_app; [exact Hd|]. econstructor; [exact Hr|constructor].
Qed.

(* ---- the receive APIs over a delivered message ------------------------- *)
Lemma consts_flags : EndFlagPartial = 0 /\ EndFlagComplete = 1.
Proof. split; reflexivity. Qed.

Lemma recv_complete_delivers ds : forall B fs1 B1 dl f B2 acc rest,
  delivers B fs1 (partial_tr ds) B1 -> recv_frame_we B1 f = (B2, SOk (dl, EndFlagComplete)) ->
  recv_complete B acc (fs1 ++ f :: rest) = (B2, SOk (acc ++ concat ds ++ dl), rest).
Proof.
  induction ds as [|d ds IH]; intros B fs1 B1 dl f B2 acc rest Hd Hr.
  - inversion Hd; subst. cbn [app recv_complete]. rewrite Hr.
    rewrite N.eqb_refl. reflexivity.
  - cbn [partial_tr map] in Hd. inversion Hd as [|B' f' d' fl' Bm fs' dfs' Bn Hr1 Hd1]; subst.
    cbn [app recv_complete]. rewrite Hr1.
    change (EndFlagPartial =? EndFlagComplete) with false. cbv iota.
    rewrite N.eqb_refl.
    rewrite (IH _ _ _ _ _ _ (acc ++ d) rest Hd1 Hr).
    cbn [concat]. rewrite !app_assoc. reflexivity.
Qed.

Lemma recv_msg_frames_delivers ds : forall B fs1 B1 dl f B2 acc rest,
  delivers B fs1 (partial_tr ds) B1 -> recv_frame_we B1 f = (B2, SOk (dl, EndFlagComplete)) ->
  recv_msg_frames B acc (fs1 ++ f :: rest) = (B2, SOk (acc ++ concat ds ++ dl), rest).
Proof.
  induction ds as [|d ds IH]; intros B fs1 B1 dl f B2 acc rest Hd Hr.
  - inversion Hd; subst. cbn [app recv_msg_frames]. rewrite Hr. reflexivity.
  - cbn [partial_tr map] in Hd. inversion Hd as [|B' f' d' fl' Bm fs' dfs' Bn Hr1 Hd1]; subst.
    cbn [app recv_msg_frames]. rewrite Hr1.
    change (EndFlagPartial =? 0) with true. cbv iota.
    rewrite (IH _ _ _ _ _ _ (acc ++ d) rest Hd1 Hr).
    cbn [concat]. rewrite !app_assoc. reflexivity.
Qed.

Lemma delivers_split B fs dfs1 x B2 :
  delivers B fs (dfs1 ++ [x]) B2 ->
  exists fs1 f B1, fs = fs1 ++ [f] /\ delivers B fs1 dfs1 B1 /\ recv_frame_we B1 f = (B2, SOk x).
Proof.
  revert B fs. induction dfs1 as [|y dfs1 IH]; intros B fs H.
  - cbn [app] in H. inversion H as [|B' f d fl Bm fs' dfs' Bn Hr Hd]; subst.
    inversion Hd; subst. exists [], f, B. split; [reflexivity|]. split; [constructor|exact Hr].
  - cbn [app] in H. inversion H as [|B' f d fl Bm fs' dfs' Bn Hr Hd]; subst.
    destruct (IH _ _ Hd) as [fs1 [f1 [B1 [-> [Hd1 Hr1]]]]].
    exists (f :: fs1), f1, B1. split; [reflexivity|]. split; [econstructor; eassumption|exact Hr1].
Qed.

(* ---- whole histories through ReceiveCompleteMessage and the Message reader ---- *)
Lemma recv_one_complete m A B A1 fs rest :
  duplex A B -> send_msg A m = (A1, SOk fs) ->
  exists B1, recv_complete B [] (fs ++ rest) = (B1, SOk (payload_of m), rest) /\ duplex A1 B1.
Proof.
  intros D Hs. destruct (send_msg_delivers _ _ _ _ _ D Hs) as [ds [dl [B1 [Hd [D1 Hp]]]]].
  destruct (delivers_split _ _ _ _ _ Hd) as [fs1 [f [Bm [-> [Hd1 Hr]]]]].
  exists B1. split; [|exact D1].
  rewrite <- app_assoc. cbn [app].
  rewrite (recv_complete_delivers ds _ _ _ _ _ _ [] rest Hd1 Hr). cbn [app]. rewrite Hp. reflexivity.
Qed.

Lemma recv_one_message m A B A1 fs rest :
  duplex A B -> send_msg A m = (A1, SOk fs) ->
  exists B1, recv_msg_frames B [] (fs ++ rest) = (B1, SOk (payload_of m), rest) /\ duplex A1 B1.
Proof.
  intros D Hs. destruct (send_msg_delivers _ _ _ _ _ D Hs) as [ds [dl [B1 [Hd [D1 Hp]]]]].
  destruct (delivers_split _ _ _ _ _ Hd) as [fs1 [f [Bm [-> [Hd1 Hr]]]]].
  exists B1. split; [|exact D1].
  rewrite <- app_assoc. cbn [app].
  rewrite (recv_msg_frames_delivers ds _ _ _ _ _ _ [] rest Hd1 Hr). cbn [app]. rewrite Hp. reflexivity.
Qed.

Definition api_simple (api : rapi) : Prop := api = ApiComplete \/ api = ApiMessage.

Lemma roundtrip_simple api : api_simple api -> forall h A B A1 fs rest,
  duplex A B -> send_all A h = (A1, SOk fs) ->
  exists B1, recv_upto api B (length h) (fs ++ rest) = (B1, map payload_of h, None, rest) /\ duplex A1 B1.
Proof.
  intros Hapi. induction h as [|m h IH]; intros A B A1 fs rest D Hs; cbn [send_all] in Hs.
  - injection Hs as <- <-. exists B. split; [reflexivity|exact D].
  - destruct (send_msg A m) as [A2 [fs1|e]] eqn:E1; [|discriminate].
    destruct (send_all A2 h) as [A3 [fs2|e]] eqn:E2; [|discriminate].
    injection Hs as <- <-.
    cbn [length recv_upto map]. rewrite <- app_assoc.
    destruct Hapi as [-> | ->]; cbn [recv_one].
    + destruct (recv_one_complete _ _ _ _ _ (fs2 ++ rest) D E1) as [B2 [Hr D2]]. rewrite Hr.
      destruct (IH _ _ _ _ rest D2 E2) as [B3 [Hr3 D3]]. rewrite Hr3. exists B3. split; [reflexivity|exact D3].
    + destruct (recv_one_message _ _ _ _ _ (fs2 ++ rest) D E1) as [B2 [Hr D2]]. rewrite Hr.
      destruct (IH _ _ _ _ rest D2 E2) as [B3 [Hr3 D3]]. rewrite Hr3. exists B3. split; [reflexivity|exact D3].
Qed.

(* every frame a sender emits is accepted by the paired receiver (size and flag checks included) *)
Lemma accept_implies_accept A B d fl A1 f :
  duplex A B -> fl = EndFlagPartial \/ fl = EndFlagComplete ->
  send_frame A d fl = (A1, SOk f) ->
  exists B1, recv_frame_we B f = (B1, SOk (d, fl)).
Proof.
  intros D Hfl Hs.
  assert (Hle : fl <= FlagMaxRecvWE) by (destruct Hfl as [-> | ->]; [apply flag_partial_ok|apply flag_complete_ok]).
  destruct (send_recv_frame _ _ _ _ _ _ D Hle Hs) as [B1 [Hr _]]. exists B1. exact Hr.
Qed.
